import Ebv.Model.Frame
/-! C11 — assembled EtherCAT frames are well-formed.
All theorems quantify over every datagram sequence (lists of unbounded length, all
data lengths, all field values); numbers are the regenerated `Ebv.Consts`. -/
namespace Ebv.C11
open Ebv.Frame Ebv.Bytes Ebv.Consts

/-! ### arithmetic of the bit fields and the struct ranges -/

theorem lenField_eq (len : Nat) (more : Bool) (h : len < 32768) :
    lenField len more = len + (if more then 32768 else 0) := by
  cases more
  · simp [lenField]
  · have := Nat.two_pow_add_eq_or_of_lt (i := 15) (b := len) (by omega) 1
    simp [lenField] at *
    rw [Nat.or_comm]; omega
theorem ofSigned2_lt (p : Int) : ofSigned 2 p < 65536 := by
  simp only [ofSigned]; omega
theorem ofSigned4_lt (p : Int) : ofSigned 4 p < 4294967296 := by
  simp only [ofSigned]; omega
theorem encLE4_split (v : Nat) : encLE 4 v = encLE 2 (v % 65536) ++ encLE 2 (v / 65536) := by
  have h1 : v % 65536 % 256 = v % 256 := by omega
  have h2 : v % 65536 / 256 % 256 = v / 256 % 256 := by omega
  have h3 : v / 256 / 256 % 256 = v / 65536 % 256 := by omega
  have h4 : v / 256 / 256 / 256 % 256 = v / 65536 / 256 % 256 := by omega
  simp only [encLE, List.cons_append, List.nil_append, h1, h2, h3, h4]
theorem fitsU1_toNat (v : Int) (h : fitsU 1 v = true) : v.toNat < 256 := by
  simp [fitsU] at h; omega
theorem fitsU2_toNat (v : Int) (h : fitsU 2 v = true) : v.toNat < 65536 := by
  simp [fitsU] at h; omega

theorem take?_append (a b : List UInt8) : take? a.length (a ++ b) = some (a, b) := by
  simp [take?]
theorem take?_cons1 (b : UInt8) (bs : List UInt8) : take? 1 (b :: bs) = some ([b], bs) := by
  simp [take?]
theorem take?_encLE (n v : Nat) (r : List UInt8) : take? n (encLE n v ++ r) = some (encLE n v, r) := by
  have := take?_append (encLE n v) r
  simpa using this

def expect (more : Bool) (d : Dgram) : PDgram :=
  { cmd := d.cmd, idx := d.idx.toNat,
    adp := match d.addr with
      | .node p _ => ofSigned 2 p | .logical a => ofSigned 4 a % 65536 | .other _ => 0,
    ado := match d.addr with
      | .node _ o => o.toNat | .logical a => ofSigned 4 a / 65536 | .other _ => 0,
    len := d.data.length, rc := 0, more := more, irq := 0, data := d.data, wkc := d.wkc.toNat }

theorem decLE_byte (n : Nat) (h : n < 256) : decLE [UInt8.ofNat n] = n := by
  simp [decLE]; omega

theorem parseDgram_dgBytes (more : Bool) (d : Dgram) (rest : List UInt8)
    (hok : dgOk more d = true) (hlen : d.data.length < 2048) :
    parseDgram (dgBytes more d ++ rest) = some (expect more d, rest) := by
  simp only [dgOk, Bool.and_eq_true, decide_eq_true_eq] at hok
  obtain ⟨⟨⟨⟨hc, hi⟩, ha⟩, _⟩, hw⟩ := hok
  have hlf := lenField_eq d.data.length more (by omega)
  have haddr : addrBytes d.addr = encLE 2 (expect more d).adp ++ encLE 2 (expect more d).ado
      ∧ (expect more d).adp < 65536 ∧ (expect more d).ado < 65536 := by
    cases hA : d.addr with
    | node p o =>
      rw [hA] at ha
      simp only [addrOk, Bool.and_eq_true] at ha
      exact ⟨by simp [addrBytes, expect, hA], by simpa [expect, hA] using ofSigned2_lt p,
        by simpa [expect, hA] using fitsU2_toNat o ha.2⟩
    | logical a =>
      have := ofSigned4_lt a
      exact ⟨by simp [addrBytes, expect, hA, encLE4_split], by simp [expect, hA]; omega,
        by simp [expect, hA]; omega⟩
    | other n => rw [hA] at ha; simp [addrOk] at ha
  obtain ⟨hab, hadp, hado⟩ := haddr
  have e1 : decLE (encLE 2 (lenField d.data.length more)) = lenField d.data.length more :=
    decLE_encLE 2 _ (by rw [hlf]; cases more <;> simp <;> omega)
  have e2 : decLE (encLE 2 (expect more d).adp) = (expect more d).adp := decLE_encLE 2 _ (by omega)
  have e3 : decLE (encLE 2 (expect more d).ado) = (expect more d).ado := decLE_encLE 2 _ (by omega)
  have e4 : decLE (encLE 2 d.wkc.toNat) = d.wkc.toNat := decLE_encLE 2 _ (by have := fitsU2_toNat _ hw; omega)
  have e5 : decLE (encLE 2 0) = 0 := by decide
  have m1 : lenField d.data.length more % 2048 = d.data.length := by rw [hlf]; cases more <;> simp <;> omega
  have m2 : lenField d.data.length more / 2048 % 16 = 0 := by rw [hlf]; cases more <;> simp <;> omega
  have m3 : (lenField d.data.length more / 32768 % 2 == 1) = more := by
    rw [hlf]; cases more <;> simp <;> omega
  unfold parseDgram dgBytes dgHead
  rw [hab]
  simp only [List.append_assoc, List.cons_append, List.nil_append, take?_cons1, take?_encLE,
    Option.bind_some, e1, m1, take?_append, e2, e3, e4, e5, m2, m3,
    decLE_byte _ hc, decLE_byte _ (fitsU1_toNat _ hi)]
  rfl

theorem hP : PACKET_HEADER = 16 := by decide
theorem hH : DATAGRAM_HEADER = 10 := by decide
theorem hT : DATAGRAM_TAIL = 2 := by decide
theorem hM : MAXSIZE ≤ 2049 := by decide

def encList : List Dgram → List UInt8
  | [] => []
  | d :: ds => dgBytes (!ds.isEmpty) d ++ encList ds
def okList : List Dgram → Bool
  | [] => true
  | d :: ds => dgOk (!ds.isEmpty) d && okList ds
def expectList : List Dgram → List PDgram
  | [] => []
  | d :: ds => expect (!ds.isEmpty) d :: expectList ds
def bodySize (ds : List Dgram) : Nat := (ds.map dgSize).sum

@[simp] theorem bodySize_nil : bodySize [] = 0 := rfl
@[simp] theorem bodySize_cons (d : Dgram) (ds : List Dgram) : bodySize (d :: ds) = dgSize d + bodySize ds := by
  simp [bodySize]
@[simp] theorem bodySize_append (a b : List Dgram) : bodySize (a ++ b) = bodySize a + bodySize b := by
  simp [bodySize]

/-- `enumerate(self.data, start=1)` with `i < len(self.data)` sets `more` on all but the last datagram -/
theorem more_flags (n i : Nat) (ds : List Dgram) (h : n + 1 = i + ds.length) :
    asmBody n i ds = if okList ds then some (encList ds) else none := by
  induction ds generalizing i with
  | nil => simp [asmBody, okList, encList]
  | cons d ds ih =>
    have hm : decide (i < n) = !ds.isEmpty := by
      cases ds with
      | nil => simp at h ⊢; omega
      | cons e es => simp at h ⊢; omega
    simp only [asmBody, okList, encList, hm, ih (i + 1) (by simp at h ⊢; omega)]
    by_cases h1 : dgOk (!ds.isEmpty) d = true <;> by_cases h2 : okList ds = true <;> simp [h1, h2]

theorem addrBytes_length (a : Addr) (h : addrOk a = true) : (addrBytes a).length = 4 := by
  cases a <;> simp_all [addrBytes, addrOk]

theorem dgHead_length (m : Bool) (d : Dgram) (h : dgOk m d = true) : (dgHead m d).length = DATAGRAM_HEADER := by
  simp only [dgOk, Bool.and_eq_true] at h
  simp [dgHead, addrBytes_length _ h.1.1.2, hH]

theorem dgBytes_length (m : Bool) (d : Dgram) (h : dgOk m d = true) : (dgBytes m d).length = dgSize d := by
  simp [dgBytes, dgHead_length m d h, dgSize, hT]; omega

theorem encList_length (ds : List Dgram) (h : okList ds = true) : (encList ds).length = bodySize ds := by
  induction ds with
  | nil => rfl
  | cons d ds ih =>
    simp only [okList, Bool.and_eq_true] at h
    simp [encList, dgBytes_length _ _ h.1, ih h.2]

theorem length_le_bodySize (ds : List Dgram) : ds.length ≤ bodySize ds := by
  induction ds with
  | nil => simp
  | cons d ds ih => simp [dgSize, hH]; omega

theorem mem_le_bodySize (ds : List Dgram) (d : Dgram) (h : d ∈ ds) : dgSize d ≤ bodySize ds := by
  induction ds with
  | nil => cases h
  | cons e es ih =>
    rcases List.mem_cons.1 h with rfl | h
    · simp
    · have := ih h; simp; omega

theorem parseDgrams_encList (ds : List Dgram) (hne : ds ≠ []) (hok : okList ds = true)
    (hlen : ∀ d ∈ ds, d.data.length < 2048) (fuel : Nat) (hf : ds.length ≤ fuel) :
    parseDgrams fuel (encList ds) = some (expectList ds) := by
  induction ds generalizing fuel with
  | nil => exact absurd rfl hne
  | cons d ds ih =>
    simp only [okList, Bool.and_eq_true] at hok
    cases fuel with
    | zero => simp at hf
    | succ fuel =>
      have hp := parseDgram_dgBytes (!ds.isEmpty) d (encList ds) hok.1 (hlen d (by simp))
      simp only [parseDgrams, encList, hp, expectList]
      cases ds with
      | nil => simp [expect, encList, expectList]
      | cons e es =>
        have := ih (by simp) hok.2 (fun x hx => hlen x (by simp [hx])) fuel (by simpa using hf)
        simp [expect, this]

/-! ### append -/

theorem append_some (p p' : Packet) (d : Dgram) (pos : Nat × Nat) :
    append p d = some (p', pos) ↔
      p.size + dgSize d ≤ MAXSIZE ∧ p.dgrams.length < MAX_DATAGRAMS ∧
      p' = ⟨p.dgrams ++ [d], p.size + dgSize d⟩ ∧
      pos = (p.size + DATAGRAM_HEADER, p.size + DATAGRAM_HEADER + d.data.length) := by
  unfold append dgSize
  simp only []
  split
  · simp; omega
  · split
    · simp; omega
    · simp only [Option.some.injEq, Prod.mk.injEq]
      constructor
      · rintro ⟨rfl, rfl⟩
        refine ⟨by omega, by omega, ?_, ?_⟩
        · congr 1 <;> omega
        · congr 1 <;> omega
      · rintro ⟨_, _, rfl, rfl⟩
        refine ⟨?_, ?_⟩
        · congr 1 <;> omega
        · congr 1 <;> omega

/-- append rejects exactly when the size or the count limit would be exceeded
(in the model a rejected append yields no new state: the packet is unchanged) -/
theorem reject_iff (p : Packet) (d : Dgram) :
    append p d = none ↔
      p.size + d.data.length + DATAGRAM_HEADER + DATAGRAM_TAIL > MAXSIZE ∨ p.dgrams.length ≥ MAX_DATAGRAMS := by
  unfold append
  simp only []
  split
  · simp [*]
  · split
    · simp [*]
    · simp; omega

def offsets (base : Nat) : List Dgram → List (Nat × Nat)
  | [] => []
  | d :: ds => (base + DATAGRAM_HEADER, base + DATAGRAM_HEADER + d.data.length) :: offsets (base + dgSize d) ds

theorem appendAll_gen (p q : Packet) (ds : List Dgram) (ps : List (Nat × Nat))
    (h : appendAll p ds = some (q, ps)) :
    q.dgrams = p.dgrams ++ ds ∧ q.size = p.size + bodySize ds ∧ ps = offsets p.size ds ∧
    (ds ≠ [] → q.size ≤ MAXSIZE ∧ q.dgrams.length ≤ MAX_DATAGRAMS) := by
  induction ds generalizing p ps with
  | nil => simp [appendAll] at h; obtain ⟨rfl, rfl⟩ := h; simp [offsets]
  | cons d ds ih =>
    unfold appendAll at h
    split at h
    · cases h
    · rename_i p' pos hap
      split at h
      · cases h
      · rename_i q' ps' hrec
        simp only [Option.some.injEq, Prod.mk.injEq] at h
        obtain ⟨rfl, rfl⟩ := h
        obtain ⟨h1, h2, rfl, rfl⟩ := (append_some _ _ _ _).1 hap
        obtain ⟨i1, i2, i3, i4⟩ := ih _ _ hrec
        refine ⟨by simp [i1], by simp [i2]; omega, by simp [offsets, i3], fun _ => ?_⟩
        cases ds with
        | nil =>
          simp [appendAll] at hrec
          obtain ⟨rfl, _⟩ := hrec
          simp; omega
        | cons e es => exact i4 (by simp)

/-- packets reachable by accepted appends -/
def Valid (p : Packet) : Prop := p.size = PACKET_HEADER + bodySize p.dgrams ∧ p.size ≤ MAXSIZE

theorem maxsize_ge : PACKET_HEADER ≤ MAXSIZE := by decide

/-- what a fully accepted sequence leaves behind: the datagrams in order, the exact size,
the positions handed out, within both limits -/
theorem appendAll_spec (ds : List Dgram) (p : Packet) (ps : List (Nat × Nat))
    (h : appendAll Packet.empty ds = some (p, ps)) :
    p.dgrams = ds ∧ Valid p ∧ ps = offsets PACKET_HEADER ds ∧ ds.length ≤ MAX_DATAGRAMS := by
  obtain ⟨h1, h2, h3, h4⟩ := appendAll_gen _ _ _ _ h
  simp only [Packet.empty, List.nil_append] at h1 h2 h3
  refine ⟨h1, ⟨by rw [h2, h1], ?_⟩, h3, ?_⟩
  · cases ds with
    | nil => simp at h2; rw [h2]; exact maxsize_ge
    | cons d ds => exact (h4 (by simp)).1
  · cases ds with
    | nil => simp
    | cons d ds => rw [← h1]; exact (h4 (by simp)).2

/-! ### parse ∘ assemble -/

def idDgram (index ethertype : Int) : Dgram :=
  { cmd := cmd_NOP, data := encLE 2 ethertype.toNat, idx := 0, addr := .logical index, wkc := 0 }

theorem hdr_eq (size : Nat) (index et : Int) (m : Bool) :
    hdrBytes size index et m = encLE 2 (hdrWord size) ++ dgBytes m (idDgram index et) := by
  have : lenField 2 m = idLenWord m := by cases m <;> decide
  simp [hdrBytes, dgBytes, dgHead, idDgram, addrBytes, this, cmd_NOP]

theorem hdrWord_eq (size : Nat) (h : size - 2 < 4096) : hdrWord size = size - 2 + 4096 := by
  have := Nat.two_pow_add_eq_or_of_lt (i := 12) (b := size - 2) (by omega) 1
  simp [hdrWord] at *
  rw [Nat.or_comm]; omega

theorem idDgram_ok (index et : Int) (m : Bool) (h : fitsS 4 index = true) :
    dgOk m (idDgram index et) = true := by
  have : lenField 2 m < 65536 := by cases m <;> decide
  simp [dgOk, idDgram, addrOk, h, this, cmd_NOP, fitsU]

theorem assemble_some (p : Packet) (index et : Int) (bs : List UInt8)
    (h : assemble p index et = some bs) :
    hdrOk p.size index et = true ∧ okList p.dgrams = true ∧
    bs = encLE 2 (hdrWord p.size) ++ (encList (idDgram index et :: p.dgrams) ++ padding p.size) := by
  unfold assemble at h
  split at h
  · rename_i hh
    rw [more_flags _ 1 _ (by omega)] at h
    split at h
    · rename_i hk
      simp only [Option.map_some, Option.some.injEq] at h
      refine ⟨hh, hk, ?_⟩
      rw [← h, hdr_eq]; simp [encList]
    · cases h
  · cases h

/-- the datagrams of a frame: the identification datagram, then the appended ones -/
def frameDgrams (index et : Int) (ds : List Dgram) : List Dgram := idDgram index et :: ds

theorem parse_assemble_valid (p : Packet) (index et : Int) (bs : List UInt8) (hv : Valid p)
    (h : assemble p index et = some bs) :
    parseFrame bs = some (PFrame.mk (PACKET_HEADER - 2 + bodySize p.dgrams) 0 1
        (expectList (frameDgrams index et p.dgrams)) (padding p.size)) := by
  obtain ⟨hh, hk, rfl⟩ := assemble_some p index et bs h
  obtain ⟨hsz, hmax⟩ := hv
  simp only [hdrOk, Bool.and_eq_true, decide_eq_true_eq] at hh
  obtain ⟨⟨hw, hidx⟩, het⟩ := hh
  have hM := hM
  have hP := hP
  have hw2 := hdrWord_eq p.size (by omega)
  have e1 : decLE (encLE 2 (hdrWord p.size)) = hdrWord p.size := decLE_encLE 2 _ (by omega)
  have m1 : hdrWord p.size % 2048 = PACKET_HEADER - 2 + bodySize p.dgrams := by omega
  have m2 : hdrWord p.size / 2048 % 2 = 0 := by omega
  have m3 : hdrWord p.size / 4096 = 1 := by omega
  have hokall : okList (idDgram index et :: p.dgrams) = true := by
    simp [okList, idDgram_ok index et _ hidx, hk]
  have harea : (encList (idDgram index et :: p.dgrams)).length = PACKET_HEADER - 2 + bodySize p.dgrams := by
    rw [encList_length _ hokall]; simp [dgSize, idDgram, hH, hT, hP]
  have hlens : ∀ d ∈ idDgram index et :: p.dgrams, d.data.length < 2048 := by
    intro d hd
    rcases List.mem_cons.1 hd with rfl | hd
    · simp [idDgram]
    · have := mem_le_bodySize _ _ hd
      simp only [dgSize] at this
      omega
  have hbody := parseDgrams_encList (idDgram index et :: p.dgrams) (by simp) hokall hlens
  unfold parseFrame
  simp only [take?_encLE, Option.bind_some, e1, m1]
  rw [← harea, take?_append]
  simp only [Option.bind_some, harea]
  rw [hbody _ (by have := length_le_bodySize p.dgrams; simp; omega)]
  simp [m2, m3, frameDgrams]

/-- PARSE ∘ ASSEMBLE, full strength: for every accepted datagram sequence (the empty one included)
and all field values that `struct.pack` accepts, the parser written from the frame format
recovers: header length = payload length, type 1, the identification datagram first, then every
datagram's cmd, idx, address, length, data and working counter, the `more` flag set on all but
the last datagram of the frame, and the padding -/
theorem parse_assemble (ds : List Dgram) (p : Packet) (ps : List (Nat × Nat)) (index et : Int)
    (bs : List UInt8) (hacc : appendAll Packet.empty ds = some (p, ps))
    (hasm : assemble p index et = some bs) :
    parseFrame bs = some (PFrame.mk (PACKET_HEADER - 2 + bodySize ds) 0 1
        (expectList (frameDgrams index et ds)) (padding p.size)) := by
  obtain ⟨h1, h2, _, _⟩ := appendAll_spec ds p ps hacc
  have := parse_assemble_valid p index et bs h2 hasm
  rwa [h1] at this

/-- the identification datagram carries `more` exactly when a datagram follows -/
theorem ident_more (index et : Int) (ds : List Dgram) :
    (expectList (frameDgrams index et ds)).head? = some (expect (!ds.isEmpty) (idDgram index et)) := by
  simp [frameDgrams, expectList]

/-- `assemble` as it was before the repair a879e33: the identification datagram always announced
a successor (length word 0x8002) -/
def oldAssemble (p : Packet) (index ethertype : Int) : Option (List UInt8) :=
  if hdrOk p.size index ethertype then
    (asmBody p.dgrams.length 1 p.dgrams).map fun body =>
      hdrBytes p.size index ethertype true ++ body ++ padding p.size
  else none

/-- regression marker: with the old header bytes the empty packet is no well-formed frame (its only
datagram announces a successor), while the repaired `assemble` gives a frame that parses -/
theorem old_header_refuted :
    (oldAssemble Packet.empty 0 0x88A4).isSome = true ∧
    (oldAssemble Packet.empty 0 0x88A4).bind parseFrame = none ∧
    ((assemble Packet.empty 0 0x88A4).bind parseFrame).isSome = true := by
  refine ⟨by decide +kernel, by decide +kernel, by decide +kernel⟩

/-- the address words the parser reports decode to the given address -/
theorem expect_addr (m : Bool) (d : Dgram) (h : addrOk d.addr = true) :
    match d.addr with
    | .node pos off => toSigned 2 (expect m d).adp = pos ∧ ((expect m d).ado : Int) = off
    | .logical a => toSigned 4 ((expect m d).adp + 65536 * (expect m d).ado) = a
    | .other _ => False := by
  cases hA : d.addr with
  | node pos off =>
    rw [hA] at h
    simp only [addrOk, Bool.and_eq_true] at h
    refine ⟨by simpa [expect, hA] using toSigned_ofSigned 2 (by decide) pos h.1, ?_⟩
    have := h.2
    simp [fitsU] at this
    simp [expect, hA]; omega
  | logical a =>
    rw [hA] at h
    simp only [addrOk] at h
    have := toSigned_ofSigned 4 (by decide) a h
    simp only [expect, hA]
    rwa [Nat.mod_add_div]
  | other n => rw [hA] at h; simp [addrOk] at h

/-! ### when does `assemble` raise -/

/-- the fields of one datagram that `struct.pack` range-checks -/
def fieldsOk (d : Dgram) : Bool :=
  decide (d.cmd < 256) && fitsU 1 d.idx && addrOk d.addr && fitsU 2 d.wkc

theorem okList_iff (ds : List Dgram) (hl : ∀ d ∈ ds, d.data.length < 32768) :
    okList ds = true ↔ ∀ d ∈ ds, fieldsOk d = true := by
  induction ds with
  | nil => simp [okList]
  | cons d ds ih =>
    have hd := lenField_eq d.data.length (!ds.isEmpty) (hl d (by simp))
    have hlt : lenField d.data.length (!ds.isEmpty) < 65536 := by
      rw [hd]; have := hl d (by simp); split <;> omega
    simp only [okList, Bool.and_eq_true, List.mem_cons, forall_eq_or_imp,
      ih (fun x hx => hl x (by simp [hx]))]
    simp [dgOk, fieldsOk, hlt]

/-- for a packet built by accepted appends, `assemble` succeeds exactly when every packed field
is inside the range of its struct format (otherwise `struct.error`) -/
theorem assemble_isSome_iff (p : Packet) (hv : Valid p) (index et : Int) :
    (assemble p index et).isSome = true ↔
      (fitsS 4 index = true ∧ fitsU 2 et = true ∧ ∀ d ∈ p.dgrams, fieldsOk d = true) := by
  have hM := hM
  have hP := hP
  have hw : hdrWord p.size < 65536 := by rw [hdrWord_eq p.size (by have := hv.2; omega)]; have := hv.2; omega
  have hl : ∀ d ∈ p.dgrams, d.data.length < 32768 := by
    intro d hd
    have := mem_le_bodySize _ _ hd
    have h1 := hv.1
    have h2 := hv.2
    simp only [dgSize] at this
    omega
  have hok := okList_iff _ hl
  unfold assemble
  rw [more_flags _ 1 _ (by omega)]
  by_cases a : fitsS 4 index = true <;> by_cases b : fitsU 2 et = true <;>
    by_cases c : okList p.dgrams = true <;> simp [hdrOk, hw, a, b, c, ← hok]

/-! ### positions -/

theorem slice_mid (a b c : List UInt8) : slice (a ++ b ++ c) a.length (a.length + b.length) = b := by
  simp [slice]

theorem offsets_length (base : Nat) (ds : List Dgram) : (offsets base ds).length = ds.length := by
  induction ds generalizing base with
  | nil => rfl
  | cons d ds ih => simp [offsets, ih]

theorem positions_gen (n : Nat) (ds : List Dgram) (i : Nat) (pre post body : List UInt8)
    (h : asmBody n i ds = some body) :
    ∀ x ∈ ds.zip (offsets pre.length ds),
      slice (pre ++ body ++ post) x.2.1 x.2.2 = x.1.data ∧
      slice (pre ++ body ++ post) x.2.2 (x.2.2 + DATAGRAM_TAIL) = encLE 2 x.1.wkc.toNat ∧
      x.2.2 = x.2.1 + x.1.data.length := by
  induction ds generalizing i pre body with
  | nil => simp [offsets]
  | cons d ds ih =>
    simp only [asmBody] at h
    split at h
    · rename_i hok
      cases hb : asmBody n (i + 1) ds with
      | none => simp [hb] at h
      | some body1 =>
        simp only [hb, Option.map_some, Option.some.injEq] at h
        subst h
        have hhl := dgHead_length _ _ hok
        intro x hx
        simp only [offsets, List.zip_cons_cons, List.mem_cons] at hx
        rcases hx with rfl | hx
        · simp only []
          refine ⟨?_, ?_, trivial⟩
          · have e : pre ++ (dgBytes (decide (i < n)) d ++ body1) ++ post
                = (pre ++ dgHead (decide (i < n)) d) ++ d.data ++ (encLE 2 d.wkc.toNat ++ body1 ++ post) := by
              simp [dgBytes]
            rw [e]
            have := slice_mid (pre ++ dgHead (decide (i < n)) d) d.data (encLE 2 d.wkc.toNat ++ body1 ++ post)
            simpa [hhl, Nat.add_assoc] using this
          · have e : pre ++ (dgBytes (decide (i < n)) d ++ body1) ++ post
                = (pre ++ dgHead (decide (i < n)) d ++ d.data) ++ encLE 2 d.wkc.toNat ++ (body1 ++ post) := by
              simp [dgBytes]
            rw [e]
            have := slice_mid (pre ++ dgHead (decide (i < n)) d ++ d.data) (encLE 2 d.wkc.toNat) (body1 ++ post)
            simpa [hhl, Nat.add_assoc, hT] using this
        · have e : pre ++ (dgBytes (decide (i < n)) d ++ body1) ++ post
              = (pre ++ dgBytes (decide (i < n)) d) ++ body1 ++ post := by simp
          have hl : (pre ++ dgBytes (decide (i < n)) d).length = pre.length + dgSize d := by
            simp [dgBytes_length _ _ hok]
          rw [e]
          exact ih (i + 1) (pre ++ dgBytes (decide (i < n)) d) body1 hb x (by rw [hl]; exact hx)
    · cases h

/-- the bytes at the `(start, stop)` that `append` returned are the datagram's data, and the
working counter preset follows directly at `stop` -/
theorem positions_exact (ds : List Dgram) (p : Packet) (ps : List (Nat × Nat)) (index et : Int)
    (bs : List UInt8) (hacc : appendAll Packet.empty ds = some (p, ps))
    (hasm : assemble p index et = some bs) :
    ps.length = ds.length ∧
    ∀ x ∈ ds.zip ps,
      slice bs x.2.1 x.2.2 = x.1.data ∧
      slice bs x.2.2 (x.2.2 + DATAGRAM_TAIL) = encLE 2 x.1.wkc.toNat ∧
      x.2.2 = x.2.1 + x.1.data.length := by
  obtain ⟨h1, _, h3, _⟩ := appendAll_spec ds p ps hacc
  subst h3
  refine ⟨offsets_length _ _, ?_⟩
  unfold assemble at hasm
  split at hasm
  · cases hb : asmBody p.dgrams.length 1 p.dgrams with
    | none => simp [hb] at hasm
    | some body =>
      simp only [hb, Option.map_some, Option.some.injEq] at hasm
      subst hasm
      have hl : (hdrBytes p.size index et (!p.dgrams.isEmpty)).length = PACKET_HEADER := by simp [hdrBytes, hP]
      rw [h1] at hb
      have := positions_gen _ ds 1 (hdrBytes p.size index et (!p.dgrams.isEmpty)) (padding p.size) body hb
      rwa [hl] at this
  · cases hasm

/-! ### size bound and padding -/

theorem assemble_length (p : Packet) (hv : Valid p) (index et : Int) (bs : List UInt8)
    (h : assemble p index et = some bs) : bs.length = p.size + (MIN_FRAME - p.size) := by
  obtain ⟨_, hk, rfl⟩ := assemble_some p index et bs h
  have hsz := hv.1
  have hP := hP
  simp [encList, encList_length _ hk, padding, dgBytes, dgHead, idDgram, addrBytes]
  omega

theorem min_le_max : MIN_FRAME ≤ MAXSIZE := by decide

/-- a packet built by accepted appends never exceeds MAXSIZE, neither does its frame
(MAXSIZE + ETHERNET_HEADER on the wire) -/
theorem size_bound (ds : List Dgram) (p : Packet) (ps : List (Nat × Nat)) (index et : Int)
    (bs : List UInt8) (hacc : appendAll Packet.empty ds = some (p, ps))
    (hasm : assemble p index et = some bs) :
    p.size = PACKET_HEADER + bodySize ds ∧ p.size ≤ MAXSIZE ∧ bs.length ≤ MAXSIZE ∧
    bs.length + ETHERNET_HEADER ≤ MAXSIZE + ETHERNET_HEADER := by
  obtain ⟨h1, h2, _, _⟩ := appendAll_spec ds p ps hacc
  have := assemble_length p h2 index et bs hasm
  have := min_le_max
  have := h2.2
  refine ⟨by rw [h2.1, h1], h2.2, by omega, by omega⟩

/-- the frame is the packet padded up to the Ethernet minimum payload, never shorter -/
theorem pad_min (ds : List Dgram) (p : Packet) (ps : List (Nat × Nat)) (index et : Int)
    (bs : List UInt8) (hacc : appendAll Packet.empty ds = some (p, ps))
    (hasm : assemble p index et = some bs) :
    MIN_FRAME ≤ bs.length ∧ bs.length = max p.size MIN_FRAME ∧
    (MIN_FRAME ≤ p.size → padding p.size = []) ∧
    ∃ body, bs = body ++ padding p.size ∧ body.length = p.size := by
  obtain ⟨_, h2, _, _⟩ := appendAll_spec ds p ps hacc
  have hl := assemble_length p h2 index et bs hasm
  refine ⟨by omega, by omega, fun h => by simp [padding]; omega, ?_⟩
  obtain ⟨_, hk, rfl⟩ := assemble_some p index et bs hasm
  refine ⟨encLE 2 (hdrWord p.size) ++ encList (idDgram index et :: p.dgrams), by simp, ?_⟩
  have := h2.1
  have hP := hP
  simp [encList, encList_length _ hk, dgBytes, dgHead, idDgram, addrBytes]
  omega

/-- `full()` on a reachable packet says exactly that the datagram count limit is reached;
a full packet rejects every further datagram -/
theorem full_iff (ds : List Dgram) (p : Packet) (ps : List (Nat × Nat))
    (hacc : appendAll Packet.empty ds = some (p, ps)) :
    (full p = true ↔ ds.length = MAX_DATAGRAMS) ∧ (full p = true → ∀ d, append p d = none) := by
  obtain ⟨h1, h2, _, h4⟩ := appendAll_spec ds p ps hacc
  have := h2.2
  constructor
  · simp only [full, Bool.or_eq_true, decide_eq_true_eq, h1]; omega
  · intro hf d
    rw [reject_iff]
    simp only [full, Bool.or_eq_true, decide_eq_true_eq] at hf
    omega

/-! ### SterilePacket -/

/-- extent and command of the writer datagrams, as `append_writer` records them -/
def wpos (base : Nat) : List (Bool × Dgram) → List (Nat × Nat × Nat)
  | [] => []
  | (w, d) :: ops => (if w then [(base, base + dgSize d, d.cmd)] else []) ++ wpos (base + dgSize d) ops

/-- position of every datagram's working counter with its preset, as `append` records them -/
def cpos (base : Nat) : List (Bool × Dgram) → List (Nat × Int)
  | [] => []
  | (_, d) :: ops => (base + dgSize d - 2, d.wkc) :: cpos (base + dgSize d) ops

/-- the same datagrams with the command of every writer replaced by NOP -/
def neutral (ops : List (Bool × Dgram)) : List Dgram :=
  ops.map fun o => if o.1 then { o.2 with cmd := cmd_NOP } else o.2

def KeysBelow (s : Sterile) : Prop := ∀ e ∈ s.counters, e.1 + 2 ≤ s.pkt.size

theorem dictSet_fresh (m : List (Nat × Int)) (k : Nat) (v : Int) (h : ∀ e ∈ m, e.1 ≠ k) :
    dictSet m k v = m ++ [(k, v)] := by
  unfold dictSet
  have : m.any (fun e => e.1 == k) = false := by
    rw [List.any_eq_false]
    intro e he
    simpa using h e he
  simp [this]

theorem sappend_some (s s1 : Sterile) (d : Dgram) (hk : KeysBelow s) (h : s.append d = some s1) :
    (∃ pos, append s.pkt d = some (s1.pkt, pos)) ∧ s1.onTheFly = s.onTheFly ∧
    s1.counters = s.counters ++ [(s.pkt.size + dgSize d - 2, d.wkc)] ∧
    s1.pkt.size = s.pkt.size + dgSize d ∧ KeysBelow s1 := by
  unfold Sterile.append at h
  split at h
  · cases h
  · rename_i p pos hap
    simp only [Option.some.injEq] at h
    subst h
    obtain ⟨_, _, rfl, rfl⟩ := (append_some _ _ _ _).1 hap
    have hH := hH
    have hfresh : ∀ e ∈ s.counters, e.1 ≠ s.pkt.size + dgSize d - 2 := by
      intro e he
      have := hk e he
      simp only [dgSize]
      omega
    refine ⟨⟨_, hap⟩, rfl, by simp [dictSet_fresh _ _ _ hfresh], rfl, ?_⟩
    intro e he
    simp only [dictSet_fresh _ _ _ hfresh, List.mem_append, List.mem_singleton] at he
    rcases he with he | rfl
    · have := hk e he; simp only []; omega
    · simp only [dgSize]; omega

theorem sterile_gen (s s' : Sterile) (ops : List (Bool × Dgram)) (hk : KeysBelow s)
    (h : Sterile.appendAll s ops = some s') :
    (∃ ps, appendAll s.pkt (ops.map (·.2)) = some (s'.pkt, ps)) ∧
    s'.onTheFly = s.onTheFly ++ wpos s.pkt.size ops ∧
    s'.counters = s.counters ++ cpos s.pkt.size ops := by
  induction ops generalizing s with
  | nil => simp [Sterile.appendAll] at h; subst h; simp [appendAll, wpos, cpos]
  | cons o ops ih =>
    obtain ⟨w, d⟩ := o
    unfold Sterile.appendAll at h
    split at h
    · cases h
    · rename_i s2 hstep
      cases w with
      | false =>
        simp only [Bool.false_eq_true, ↓reduceIte] at hstep
        obtain ⟨⟨pos, hap⟩, h2, h3, h4, h5⟩ := sappend_some s s2 d hk hstep
        obtain ⟨⟨ps, i1⟩, i2, i3⟩ := ih s2 h5 h
        refine ⟨⟨pos :: ps, by simp [appendAll, hap, i1]⟩, ?_, ?_⟩
        · simp [i2, h2, h4, wpos]
        · simp [i3, h3, h4, cpos]
      | true =>
        simp only [↓reduceIte] at hstep
        unfold Sterile.appendWriter at hstep
        split at hstep
        · cases hstep
        · rename_i s1 hs1
          simp only [Option.some.injEq] at hstep
          subst hstep
          obtain ⟨⟨pos, hap⟩, h2, h3, h4, h5⟩ := sappend_some s s1 d hk hs1
          obtain ⟨⟨ps, i1⟩, i2, i3⟩ := ih _ (by exact h5) h
          simp only [] at i1
          refine ⟨⟨pos :: ps, by simp [appendAll, hap, i1]⟩, ?_, ?_⟩
          · simp [i2, h2, h4, wpos]
          · simp [i3, h3, h4, cpos]

theorem set_append_cons (pre : List UInt8) (c x : UInt8) (r : List UInt8) :
    (pre ++ c :: r).set pre.length x = pre ++ x :: r := by
  induction pre with
  | nil => rfl
  | cons a pre ih => simp [ih]

theorem sterilize_append (a b : List (Nat × Nat × Nat)) (bs : List UInt8) :
    sterilize (a ++ b) bs = sterilize b (sterilize a bs) := by
  simp [sterilize]

theorem neutral_size (o : Bool × Dgram) :
    dgSize (if o.1 then { o.2 with cmd := cmd_NOP } else o.2) = dgSize o.2 := by
  split <;> rfl

theorem sterilize_gen (n : Nat) (ops : List (Bool × Dgram)) (i : Nat) (pre post body : List UInt8)
    (h : asmBody n i (ops.map (·.2)) = some body) :
    ∃ body', asmBody n i (neutral ops) = some body' ∧
      sterilize (wpos pre.length ops) (pre ++ body ++ post) = pre ++ body' ++ post := by
  induction ops generalizing i pre body with
  | nil => simp [asmBody] at h; subst h; exact ⟨[], by simp [neutral, asmBody], by simp [wpos, sterilize]⟩
  | cons o ops ih =>
    obtain ⟨w, d⟩ := o
    simp only [List.map_cons, asmBody] at h
    split at h
    · rename_i hok
      cases hb : asmBody n (i + 1) (ops.map (·.2)) with
      | none => simp [hb] at h
      | some body1 =>
        simp only [hb, Option.map_some, Option.some.injEq] at h
        subst h
        cases w with
        | false =>
          have hl : (pre ++ dgBytes (decide (i < n)) d).length = pre.length + dgSize d := by
            simp [dgBytes_length _ _ hok]
          obtain ⟨b', hb1, hb2⟩ := ih (i + 1) (pre ++ dgBytes (decide (i < n)) d) body1 hb
          refine ⟨dgBytes (decide (i < n)) d ++ b', ?_, ?_⟩
          · simp only [neutral, List.map_cons, Bool.false_eq_true, ↓reduceIte, asmBody, hok]
            simp only [neutral] at hb1
            simp [hb1]
          · rw [hl] at hb2
            simp only [wpos, Bool.false_eq_true, ↓reduceIte, List.nil_append]
            simpa using hb2
        | true =>
          have hok' : dgOk (decide (i < n)) { d with cmd := cmd_NOP } = true := by
            simp only [dgOk, Bool.and_eq_true, decide_eq_true_eq] at hok ⊢
            exact ⟨⟨⟨⟨by decide, hok.1.1.1.2⟩, hok.1.1.2⟩, hok.1.2⟩, hok.2⟩
          have hl : (pre ++ dgBytes (decide (i < n)) { d with cmd := cmd_NOP }).length = pre.length + dgSize d := by
            simp [dgBytes_length _ _ hok', dgSize]
          obtain ⟨b', hb1, hb2⟩ := ih (i + 1) (pre ++ dgBytes (decide (i < n)) { d with cmd := cmd_NOP }) body1 hb
          refine ⟨dgBytes (decide (i < n)) { d with cmd := cmd_NOP } ++ b', ?_, ?_⟩
          · simp only [neutral, List.map_cons, ↓reduceIte, asmBody, hok']
            simp only [neutral] at hb1
            simp [hb1]
          · rw [hl] at hb2
            simp only [wpos, ↓reduceIte, sterilize_append]
            have hset : sterilize [(pre.length, pre.length + dgSize d, d.cmd)]
                (pre ++ (dgBytes (decide (i < n)) d ++ body1) ++ post)
                = pre ++ (dgBytes (decide (i < n)) { d with cmd := cmd_NOP } ++ body1) ++ post := by
              simp only [sterilize, List.foldl_cons, List.foldl_nil, dgBytes, dgHead,
                List.append_assoc, List.cons_append, List.nil_append]
              exact set_append_cons _ _ _ _
            rw [hset]
            simpa using hb2
    · cases h

/-- bookkeeping of a SterilePacket after any accepted sequence of `append`/`append_writer`
calls: the packet is the one `Packet.append` builds, `on_the_fly` lists exactly the writer
datagrams (first byte, end, command), `counters` maps every working-counter position to its preset -/
theorem sterile_spec (ops : List (Bool × Dgram)) (s : Sterile)
    (h : Sterile.appendAll Sterile.empty ops = some s) :
    (∃ ps, appendAll Packet.empty (ops.map (·.2)) = some (s.pkt, ps)) ∧
    s.onTheFly = wpos PACKET_HEADER ops ∧ s.counters = cpos PACKET_HEADER ops := by
  have := sterile_gen Sterile.empty s ops (by intro e he; cases he) h
  simpa [Sterile.empty, Packet.empty] using this

theorem neutral_bodySize (ops : List (Bool × Dgram)) : bodySize (neutral ops) = bodySize (ops.map (·.2)) := by
  induction ops with
  | nil => rfl
  | cons o ops ih =>
    simp only [neutral, List.map_cons, bodySize_cons, neutral_size] at ih ⊢
    omega

/-- `sterile()` is `assemble()` of the same packet with NOP as the command of every writer
datagram: nothing else differs -/
theorem sterile_bytes (ops : List (Bool × Dgram)) (s : Sterile) (index et : Int) (bs : List UInt8)
    (h : Sterile.appendAll Sterile.empty ops = some s) (hasm : assemble s.pkt index et = some bs) :
    ∃ st, s.sterile index et = some st ∧ assemble ⟨neutral ops, s.pkt.size⟩ index et = some st := by
  obtain ⟨⟨ps, hacc⟩, hotf, _⟩ := sterile_spec ops s h
  obtain ⟨h1, _, _, _⟩ := appendAll_spec _ _ _ hacc
  unfold Sterile.sterile
  rw [hasm]
  unfold assemble at hasm ⊢
  split at hasm
  · rename_i hh
    cases hb : asmBody s.pkt.dgrams.length 1 s.pkt.dgrams with
    | none => simp [hb] at hasm
    | some body =>
      simp only [hb, Option.map_some, Option.some.injEq] at hasm
      subst hasm
      have hl : (hdrBytes s.pkt.size index et (!s.pkt.dgrams.isEmpty)).length = PACKET_HEADER := by
        simp [hdrBytes, hP]
      rw [h1] at hb
      obtain ⟨b', hb1, hb2⟩ := sterilize_gen _ ops 1 (hdrBytes s.pkt.size index et (!s.pkt.dgrams.isEmpty))
        (padding s.pkt.size) body hb
      have hn : (neutral ops).length = (ops.map (·.2)).length := by simp [neutral]
      have he : (neutral ops).isEmpty = s.pkt.dgrams.isEmpty := by rw [h1]; cases ops <;> simp [neutral]
      rw [hl] at hb2
      refine ⟨_, rfl, ?_⟩
      simp only [hh, ↓reduceIte, hn, hb1, Option.map_some, hotf, hb2, he]
  · cases hasm

theorem getElem?_sterilize (otf : List (Nat × Nat × Nat)) (bs : List UInt8) (i : Nat) :
    (sterilize otf bs)[i]? =
      if (∃ e ∈ otf, e.1 = i) ∧ i < bs.length then some (UInt8.ofNat cmd_NOP) else bs[i]? := by
  unfold sterilize
  induction otf generalizing bs with
  | nil => simp
  | cons e otf ih =>
    simp only [List.foldl_cons]
    rw [ih]
    simp only [List.length_set, List.getElem?_set, List.mem_cons, exists_eq_or_imp]
    by_cases h1 : e.1 = i <;> by_cases h2 : i < bs.length <;> by_cases h3 : (∃ a ∈ otf, a.1 = i) <;> simp [h1, h2, h3]
    all_goals (simp [List.getElem?_eq_none (Nat.le_of_not_lt h2)])

/-- byte by byte: the sterile frame equals the assembled one except at the first byte (the
command) of each writer datagram, which is NOP -/
theorem sterile_diff (ops : List (Bool × Dgram)) (s : Sterile) (index et : Int) (bs : List UInt8)
    (h : Sterile.appendAll Sterile.empty ops = some s) (hasm : assemble s.pkt index et = some bs) :
    ∃ st, s.sterile index et = some st ∧ st.length = bs.length ∧
      ∀ i, st[i]? = if (∃ e ∈ wpos PACKET_HEADER ops, e.1 = i) ∧ i < bs.length
                    then some (UInt8.ofNat cmd_NOP) else bs[i]? := by
  obtain ⟨_, hotf, _⟩ := sterile_spec ops s h
  refine ⟨sterilize s.onTheFly bs, by simp [Sterile.sterile, hasm], ?_, ?_⟩
  · have : ∀ (otf : List (Nat × Nat × Nat)) (b : List UInt8), (sterilize otf b).length = b.length := by
      intro otf
      induction otf with
      | nil => intro b; rfl
      | cons e otf ih => intro b; simp only [sterilize, List.foldl_cons] at ih ⊢; rw [ih]; simp
    exact this _ _
  · intro i; rw [getElem?_sterilize, hotf]

/-- the independent parser reads the sterile frame as the same datagrams with NOP as the
command of the writers (every accepted sequence, the empty one included) -/
theorem sterile_parse (ops : List (Bool × Dgram)) (s : Sterile) (index et : Int) (bs : List UInt8)
    (h : Sterile.appendAll Sterile.empty ops = some s) (hasm : assemble s.pkt index et = some bs) :
    ∃ st, s.sterile index et = some st ∧
      parseFrame st = some (PFrame.mk (PACKET_HEADER - 2 + bodySize (ops.map (·.2))) 0 1
        (expectList (frameDgrams index et (neutral ops))) (padding s.pkt.size)) := by
  obtain ⟨st, h1, h2⟩ := sterile_bytes ops s index et bs h hasm
  obtain ⟨⟨ps, hacc⟩, _, _⟩ := sterile_spec ops s h
  obtain ⟨_, hv, _, _⟩ := appendAll_spec _ _ _ hacc
  obtain ⟨i1, _, _, _⟩ := appendAll_gen _ _ _ _ hacc
  simp only [Packet.empty, List.nil_append] at i1
  have hv' : Valid ⟨neutral ops, s.pkt.size⟩ := by
    refine ⟨?_, hv.2⟩
    simp only [neutral_bodySize]
    rw [hv.1, i1]
  have := parse_assemble_valid ⟨neutral ops, s.pkt.size⟩ index et st hv' h2
  simp only [neutral_bodySize] at this
  exact ⟨st, h1, this⟩

theorem cpos_eq (base : Nat) (ops : List (Bool × Dgram)) :
    cpos base ops = ((ops.map (·.2)).zip (offsets base (ops.map (·.2)))).map (fun x => (x.2.2, x.1.wkc)) := by
  induction ops generalizing base with
  | nil => rfl
  | cons o ops ih =>
    have hT := hT
    simp only [cpos, List.map_cons, offsets, List.zip_cons_cons, ih]
    congr 2
    simp only [dgSize]
    omega

/-- every entry of `counters` is (position of a datagram's working counter in the frame,
its preset): the two bytes there are the preset, little endian -/
theorem counters_exact (ops : List (Bool × Dgram)) (s : Sterile) (index et : Int) (bs : List UInt8)
    (h : Sterile.appendAll Sterile.empty ops = some s) (hasm : assemble s.pkt index et = some bs) :
    s.counters.length = ops.length ∧
    ∀ e ∈ s.counters, slice bs e.1 (e.1 + DATAGRAM_TAIL) = encLE 2 e.2.toNat := by
  obtain ⟨⟨ps, hacc⟩, _, hc⟩ := sterile_spec ops s h
  obtain ⟨_, _, hps, _⟩ := appendAll_spec _ _ _ hacc
  obtain ⟨hlen, hpos⟩ := positions_exact _ _ _ index et bs hacc hasm
  rw [hc, cpos_eq]
  refine ⟨by simp [offsets_length], ?_⟩
  intro e he
  simp only [List.mem_map] at he
  obtain ⟨x, hx, rfl⟩ := he
  rw [← hps] at hx
  exact (hpos x hx).2.1

/-! ### which sequences are accepted -/

theorem appendAll_isSome_gen (p : Packet) (ds : List Dgram) :
    (appendAll p ds).isSome = true ↔
      ds = [] ∨ (p.size + bodySize ds ≤ MAXSIZE ∧ p.dgrams.length + ds.length ≤ MAX_DATAGRAMS) := by
  induction ds generalizing p with
  | nil => simp [appendAll]
  | cons d ds ih =>
    simp only [reduceCtorEq, false_or, bodySize_cons, List.length_cons]
    unfold appendAll
    cases hap : append p d with
    | none =>
      have := (reject_iff p d).1 hap
      simp only [dgSize]
      simp
      omega
    | some r =>
      obtain ⟨p', pos⟩ := r
      obtain ⟨h1, h2, rfl, rfl⟩ := (append_some _ _ _ _).1 hap
      have ih' := ih ⟨p.dgrams ++ [d], p.size + dgSize d⟩
      cases hrec : appendAll ⟨p.dgrams ++ [d], p.size + dgSize d⟩ ds with
      | none =>
        rw [hrec] at ih'
        simp only [Option.isSome_none, Bool.false_eq_true, false_iff, not_or, not_and, List.length_append,
          List.length_cons, List.length_nil] at ih'
        simp only [hrec, Option.isSome_none, Bool.false_eq_true, false_iff]
        rintro ⟨a, b⟩
        exact ih'.2 (by omega) (by omega)
      | some r2 =>
        rw [hrec] at ih'
        simp only [Option.isSome_some, true_iff, List.length_append, List.length_cons, List.length_nil] at ih'
        obtain ⟨q, ps⟩ := r2
        simp only [hrec, Option.isSome_some, true_iff]
        rcases ih' with rfl | ih'
        · simp; omega
        · omega

/-- a whole sequence is accepted exactly when it fits: total size within MAXSIZE and at most
MAX_DATAGRAMS datagrams -/
theorem appendAll_isSome_iff (ds : List Dgram) :
    (appendAll Packet.empty ds).isSome = true ↔
      PACKET_HEADER + bodySize ds ≤ MAXSIZE ∧ ds.length ≤ MAX_DATAGRAMS := by
  rw [appendAll_isSome_gen]
  simp only [Packet.empty, List.length_nil, Nat.zero_add]
  constructor
  · rintro (rfl | h)
    · exact ⟨by simpa using maxsize_ge, by simp⟩
    · exact h
  · exact fun h => Or.inr h

/-! ### non-vacuity: a concrete accepted sequence, assembled and parsed -/

def exDgrams : List Dgram :=
  [⟨4, [1, 2], 7, .node (-1) 0x130, 0⟩, ⟨11, [9, 8, 7], 0, .logical 0x10800, 3⟩]

example : (appendAll Packet.empty exDgrams).map (·.2) = some [(26, 28), (40, 43)] := by decide
example : ∃ p ps bs, appendAll Packet.empty exDgrams = some (p, ps) ∧ exDgrams ≠ [] ∧
    assemble p 2000 0x88A4 = some bs ∧ bs.length = 46 ∧ p.size = 45 := by
  refine ⟨_, _, _, rfl, by decide, rfl, by decide, by decide⟩
example : ∃ s bs, Sterile.appendAll Sterile.empty [(true, exDgrams[1]), (false, exDgrams[0])] = some s ∧
    assemble s.pkt 5 0x88A4 = some bs ∧ s.onTheFly = [(16, 31, 11)] ∧ s.counters = [(29, 3), (43, 0)] := by
  refine ⟨_, _, rfl, rfl, by decide, by decide⟩
/-- the size boundary: 1472 data bytes fit an empty packet exactly, 1473 do not; a 16th datagram does not -/
example : (append Packet.empty ⟨7, List.replicate 1472 0, 0, .node 0 0, 0⟩).isSome = true ∧
    append Packet.empty ⟨7, List.replicate 1473 0, 0, .node 0 0, 0⟩ = none ∧
    (appendAll Packet.empty (List.replicate 15 ⟨7, [], 0, .node 0 0, 0⟩)).isSome = true ∧
    appendAll Packet.empty (List.replicate 16 ⟨7, [], 0, .node 0 0, 0⟩) = none := by
  refine ⟨by decide +kernel, by decide +kernel, by decide +kernel, by decide +kernel⟩

end Ebv.C11
