import Ebv.Lemmas.VerifRegs
import Ebv.Lemmas.VerifStruct
import Ebv.Lemmas.VerifStack
import Ebv.Lemmas.VerifGen
import Ebv.Lemmas.VerifImm
/-! # C05 — every program the generator accepts loads into the kernel  (PARTIAL)

The oracle of the property is the Linux verifier; no Lean model can be proved equal to it.  What is proved here is
about `MiniV.accepts` (`Ebv/Model/MiniVerifier.lean`), a model of the verifier rules the generator can run into:

* `accepts_structural`   — rules (5) and (7): an accepted program has forward, in-range jumps that never enter the second
  slot of LD_IMM64, well-formed LD_IMM64 pairs, EXIT/JA last, legal shift / division / byte-swap immediates;
* `reg_init_sound`       — rule (1) against the ISA semantics `Ebv.Ebpf.step`: along every execution (helpers and map
  addresses arbitrary) from a state whose written set contains r1 and r10, every register an instruction reads has been
  written (r1–r5 are un-written by a call, r0 is written by it);
* `stack_bounds_sound` (in `Ebv/Lemmas/VerifStack.lean`) — rule (2), bounds, against `Ebpf.step`: a register the table classifies
  as frame pointer `fp o` holds `FP + o`, and every load/store through it stays inside `[FP-512, FP)`;
* `exit_has_r0`, `accepted_pc_in_range` — corollaries: EXIT always finds a written r0; execution never leaves the
  program text;
* `step_frame` (in `Ebv/Lemmas/VerifRegs.lean`) ties `MiniV.defs` to `Ebpf.step`: registers outside `defs i` keep their value.

The link to the generator (`owners_sound`) is in `Ebv/Lemmas/VerifGen.lean`; `Ebv/Lemmas/VerifImm.lean` proves the immediate part
of rule (7) for the generator model: since `Binary.calculate` refuses constant shift counts outside the width of the operation
and constant zero divisors (the former known findings const-shift-ge-width / const-div-zero, repaired in /repo), no accepted
program contains one (`emitProg_imm_ok`), and the generator's check is exactly the verifier's rule (`badImm_exact`).  `MiniV.accepts P = true` for the library's own
programs and the corpus is a *regenerated obligation* evaluated by `Drivers/C05.lean` on every run. -/
namespace Ebv.C05
open Ebv.Ebpf Ebv.MiniV

/-- rules (5) and (7) -/
theorem accepts_structural {prog : List Insn} {geo : MapGeometry} (h : accepts prog geo = true) :
    Structural prog ∧
    ∀ pc i, prog[pc]? = some i → isSecond prog pc = false → isAlu i = true →
      (useReg i = false → (code i = 6 ∨ code i = 7 ∨ code i = 12) → 0 ≤ i.imm ∧ i.imm < aluWidth i) ∧
      (useReg i = false → (code i = 3 ∨ code i = 9) → i.imm ≠ 0) ∧
      (code i = 13 → i.imm = 16 ∨ i.imm = 32 ∨ i.imm = 64) := by
  have hs := structOk_spec (accepts_table h).1
  exact ⟨hs, fun pc i hi hsec ha => wfInsn_imm (hs.wf pc i hi hsec) ha⟩

/-- the invariant: the table entry at the current pc only claims values for written registers -/
def Inv (t : Table) (c : Conf) : Prop :=
  ∃ a, t[c.σ.pc]? = some (some a) ∧ ∀ r, r < 11 → (a.reg r).isInit = true → c.w r = true

theorem inv_step {cfg : Config} {geo : MapGeometry} {prog : List Insn} {t : Table} (ht : TableOk cfg geo prog t)
    {c c' : Conf} (hinv : Inv t c) (hs : IStep prog c c') : Inv t c' := by
  obtain ⟨a, hta, hw⟩ := hinv
  obtain ⟨i, hi⟩ := istep_fetch hs
  have hlt : c.σ.pc < prog.length := by
    rcases Nat.lt_or_ge c.σ.pc prog.length with h | h
    · exact h
    · rw [List.getElem?_eq_none_iff.mpr h] at hi; cases hi
  obtain ⟨_, _, outs, _, hcov, houts⟩ := checkAt_spec (ht.at_pc _ hlt) hi hta
  obtain ⟨hpc, hw'⟩ := istep_succ hi hs
  obtain ⟨o, ho, hoq⟩ := hcov _ hpc
  obtain ⟨hdefs, _, b, htb, hleq⟩ := houts o ho
  refine ⟨b, by rw [← hoq]; exact htb, ?_⟩
  intro r hr hb
  have ho2 := state_leq_init hleq hr hb
  unfold defsOk at hdefs
  simp only [Bool.and_eq_true, List.all_eq_true, List.mem_range, Bool.or_eq_true, Bool.not_eq_true'] at hdefs
  rw [hw']
  show ((defs i).contains r || (c.w r && !(kills i).contains r)) = true
  rcases hdefs.2 r hr with (h | h) | h
  · rw [ho2] at h; cases h
  · rw [h]; rfl
  · rw [hw r hr h.1, h.2]; simp

theorem inv_reach {cfg : Config} {geo : MapGeometry} {prog : List Insn} {t : Table} (ht : TableOk cfg geo prog t)
    {c0 c : Conf} (h0 : Inv t c0) (hr : Reach prog c0 c) : Inv t c := by
  induction hr with
  | refl => exact h0
  | tail _ hs ih => exact inv_step ht ih hs

theorem inv_start {cfg : Config} {geo : MapGeometry} {prog : List Insn} {t : Table} (ht : TableOk cfg geo prog t)
    {c0 : Conf} (hpc : c0.σ.pc = 0) (h1 : c0.w 1 = true) (h10 : c0.w 10 = true) : Inv t c0 := by
  obtain ⟨a0, ha0, hleq⟩ := ht.start
  refine ⟨a0, by rw [hpc]; exact ha0, ?_⟩
  intro r hr hb
  rcases init_regs r hr (state_leq_init hleq hr hb) with h | h <;> subst h <;> assumption

/-- **rule (1) is sound**: in every execution of an accepted program (any helper behaviour, any map addresses), every
register an instruction reads has been written before — r1 and r10 by the caller, the others by the program, and not
un-written by a helper call since.  Holds for the privileged reading of the stack rule as well (`acceptsWith cfg`). -/
theorem reg_init_sound {cfg : Config} {prog : List Insn} {geo : MapGeometry} (h : acceptsWith cfg prog geo = true)
    {c0 c : Conf} (hpc : c0.σ.pc = 0) (h1 : c0.w 1 = true) (h10 : c0.w 10 = true) (hr : Reach prog c0 c)
    {i : Insn} (hi : prog[c.σ.pc]? = some i) : ∀ r ∈ reads i, c.w r = true := by
  obtain ⟨_, t, ht⟩ := accepts_table h
  obtain ⟨a, hta, hw⟩ := inv_reach ht (inv_start ht hpc h1 h10) hr
  have hlt : c.σ.pc < prog.length := by
    rcases Nat.lt_or_ge c.σ.pc prog.length with h | h
    · exact h
    · rw [List.getElem?_eq_none_iff.mpr h] at hi; cases hi
  obtain ⟨hreads, _⟩ := checkAt_spec (ht.at_pc _ hlt) hi hta
  unfold readsOk at hreads
  simp only [List.all_eq_true, Bool.and_eq_true, decide_eq_true_eq] at hreads
  intro r hr
  exact hw r (hreads r hr).1 (hreads r hr).2

/-- the same for `accepts` (the unprivileged stack rule) -/
theorem reg_init_sound_strict {prog : List Insn} {geo : MapGeometry} (h : accepts prog geo = true)
    {c0 c : Conf} (hpc : c0.σ.pc = 0) (h1 : c0.w 1 = true) (h10 : c0.w 10 = true) (hr : Reach prog c0 c)
    {i : Insn} (hi : prog[c.σ.pc]? = some i) : ∀ r ∈ reads i, c.w r = true :=
  reg_init_sound (cfg := {}) h hpc h1 h10 hr hi

/-- EXIT always finds a written r0 -/
theorem exit_has_r0 {cfg : Config} {prog : List Insn} {geo : MapGeometry} (h : acceptsWith cfg prog geo = true)
    {c0 c : Conf} (hpc : c0.σ.pc = 0) (h1 : c0.w 1 = true) (h10 : c0.w 10 = true) (hr : Reach prog c0 c)
    {i : Insn} (hi : prog[c.σ.pc]? = some i) (hx : isExit i = true) : c.w 0 = true := by
  apply reg_init_sound h hpc h1 h10 hr hi
  have hj : isJmpCls i = true := by
    unfold isExit at hx; unfold isJmpCls; simp only [Bool.and_eq_true, beq_iff_eq] at hx; simp [hx.1]
  have ha : isAlu i = false := by
    unfold isExit at hx; unfold isAlu; simp only [Bool.and_eq_true, beq_iff_eq] at hx; simp [hx.1]
  have hc : isCall i = false := by
    unfold isExit at hx; unfold isCall; simp only [Bool.and_eq_true, beq_iff_eq] at hx; simp [hx.2]
  simp [reads, ha, hj, hc, hx]

/-- execution of an accepted program stays inside the program text -/
theorem accepted_pc_in_range {cfg : Config} {prog : List Insn} {geo : MapGeometry} (h : acceptsWith cfg prog geo = true)
    {c0 c : Conf} (hpc : c0.σ.pc = 0) (h1 : c0.w 1 = true) (h10 : c0.w 10 = true) (hr : Reach prog c0 c) :
    c.σ.pc < prog.length := by
  obtain ⟨_, t, ht⟩ := accepts_table h
  obtain ⟨a, hta, _⟩ := inv_reach ht (inv_start ht hpc h1 h10) hr
  have hlen : t.length = prog.length := by
    have := ht.len
    exact this
  rcases Nat.lt_or_ge c.σ.pc prog.length with hlt | hge
  · exact hlt
  · rw [List.getElem?_eq_none_iff.mpr (by omega)] at hta; cases hta

/-! ## the link to the generator

`owners_sound`, `calc_covered`, `owners_check_insufficient` are proved in `Ebv/Lemmas/VerifGen.lean` (same namespace).
The full claim of DESIGN §4 C05 — "`emitProg p = ok code` implies `accepts (prologue ++ code ++ [r0 := c, EXIT])`" — also
needs the kind-level rules (2)–(4), (6) for the emitted code (that `r10 + off` stays inside the written frame, that r7 is a
null-checked map value whose offsets stay inside `value_size`); it is stated here and NOT proved: the tie for it is the
regenerated obligation `accepts P = true` on every generated program, evaluated by the driver on every run. -/
def EmitAccepts : Prop :=
  ∀ (p : Gen.Prog) (code : List Insn) (geo : MapGeometry) (prologue : List Insn),
    Gen.emitProg p = .ok code → stmtsLeaves (Gen.layout p.vars) p.owned p.stmts →
    accepts prologue geo = true →            -- the code of `ArrayMap.init` followed by `r0 = 0; EXIT`
    accepts (prologue.dropLast.dropLast ++ code ++ [⟨0xb7, 0, 0, 0, 2⟩, ⟨0x95, 0, 0, 0, 0⟩]) geo = true

/-- rules (5), (7) and the generator: an instruction of a program `MiniV.accepts` takes satisfies `immOk`, and so does every
instruction of a program the generator model emits — on this rule the generator can no longer be the reason for a refusal -/
theorem imm_rule_both_sides {prog : List Insn} {geo : MapGeometry} (h : accepts prog geo = true)
    {p : Gen.Prog} {code : List Insn} (hp : Gen.emitProg p = .ok code) :
    (∀ pc i, prog[pc]? = some i → isSecond prog pc = false → immOk i = true) ∧ (∀ i ∈ code, immOk i = true) :=
  ⟨fun pc i hi hsec => wfInsn_immOk ((structOk_spec (accepts_table h).1).wf pc i hi hsec), emitProg_imm_ok hp⟩

/-! ## non-vacuity -/

/-- `ArrayMap.init` as the generator emits it, a store through the null-checked map value, `r0 = 2; exit` -/
def demo : List Insn :=
  [⟨191, 6, 1, 0, 0⟩, ⟨98, 10, 0, -4, 0⟩, ⟨24, 1, 1, 0, 40⟩, ⟨0, 0, 0, 0, 0⟩, ⟨191, 2, 10, 0, 0⟩, ⟨7, 2, 0, 0, -4⟩,
   ⟨133, 0, 0, 0, 1⟩, ⟨85, 0, 0, 1, 0⟩, ⟨149, 0, 0, 0, 0⟩, ⟨191, 1, 6, 0, 0⟩, ⟨191, 7, 0, 0, 0⟩, ⟨122, 7, 0, 8, 5⟩,
   ⟨183, 0, 0, 0, 2⟩, ⟨149, 0, 0, 0, 0⟩]
def demoGeo : MapGeometry := [(40, ⟨.array, 4, 16⟩)]

example : accepts demo demoGeo = true := by decide +kernel
/-- one byte past the map value: rule (3) -/
example : accepts (demo.set 11 ⟨122, 7, 0, 9, 5⟩) demoGeo = false := by decide +kernel
/-- without the null check: rule (3) -/
example : accepts (demo.set 7 ⟨183, 5, 0, 0, 0⟩) demoGeo = false := by decide +kernel
/-- reading r3, which nothing wrote: rule (1) -/
example : accepts (demo.set 9 ⟨191, 1, 3, 0, 0⟩) demoGeo = false := by decide +kernel
/-- r1 after the call is dead: rule (1) -/
example : accepts (demo.set 9 ⟨191, 8, 1, 0, 0⟩) demoGeo = false := by decide +kernel
/-- the key bytes must be written before the helper reads them (unprivileged reading of rule 2) -/
example : accepts (demo.set 1 ⟨98, 10, 0, -8, 0⟩) demoGeo = false ∧
    acceptsWith { allowUninitStack := true } (demo.set 1 ⟨98, 10, 0, -8, 0⟩) demoGeo = true := by decide +kernel
/-- a 32-bit shift by 63 (what `db = vq >> 63` became before `Binary.calculate` refused it): rule (7) -/
example : accepts [⟨183, 0, 0, 0, 2⟩, ⟨0xc4, 0, 0, 0, 63⟩, ⟨149, 0, 0, 0, 0⟩] [] = false := by decide +kernel
/-- a jump into the second slot of LD_IMM64: rule (5) -/
example : accepts [⟨5, 0, 0, 1, 0⟩, ⟨24, 0, 0, 0, 1⟩, ⟨0, 0, 0, 0, 0⟩, ⟨149, 0, 0, 0, 0⟩] [] = false := by decide +kernel

/-- the hypotheses of `reg_init_sound` are satisfiable, and an execution really moves: the first step of `demo` -/
example : ∃ c0 c1 : Conf, c0.σ.pc = 0 ∧ c0.w 1 = true ∧ c0.w 10 = true ∧ Reach demo c0 c1 ∧ c1.σ.pc = 1 ∧ c1.w 6 = true := by
  let σ0 : State := ⟨fun _ => 0, fun _ => 0, 0⟩
  refine ⟨⟨σ0, fun r => r == 1 || r == 10⟩, _, rfl, rfl, rfl,
    Reach.tail (Reach.refl _) (IStep.next (i := ⟨191, 6, 1, 0, 0⟩) (σ' := { (σ0.setReg 6 (σ0.regs 1)) with pc := 1 }) rfl ?_), rfl, ?_⟩
  · simp [step, fetch, demo, σ0, alu]
  · simp [writtenAfter, defs, kills, isAlu, isCall, cls, code]

end Ebv.C05
