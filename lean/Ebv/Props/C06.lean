import Ebv.Model.Xadd
/-! C06 — in-place addition on 4/8-byte variables never loses updates. -/
namespace Ebv.C06
open Ebv.Xadd

theorem pending_set (ts : List Thread) (i : Nat) (t t' : Thread) (h : ts[i]? = some t) :
    pending (ts.set i t') + (if t.done then 0 else t.amount) = pending ts + (if t'.done then 0 else t'.amount) := by
  induction ts generalizing i with
  | nil => simp at h
  | cons x xs ih =>
    cases i with
    | zero =>
      simp at h; subst h
      simp [pending]; omega
    | succ i =>
      simp at h
      have := ih i h
      simp only [pending, List.set_cons_succ, List.map_cons, List.sum_cons] at this ⊢
      omega

/-- the invariant: cell + amounts not yet added is constant modulo 2^width, for any number of threads
and any schedule -/
theorem invariant (m : Nat) (sched : List Nat) (cell : Nat) (ts : List Thread) :
    ((runSched m sched cell ts).1 + pending (runSched m sched cell ts).2) % m = (cell + pending ts) % m := by
  induction sched generalizing cell ts with
  | nil => rfl
  | cons i sched ih =>
    simp only [runSched]
    cases h : ts[i]? with
    | none => exact ih cell ts
    | some t =>
      simp only
      rw [ih]
      obtain ⟨pre, amount, done⟩ := t
      cases done
      · cases pre with
        | zero =>
          have := pending_set ts i ⟨0, amount, false⟩ ⟨0, amount, true⟩ h
          simp only [Bool.false_eq_true, ↓reduceIte, Nat.add_zero] at this
          simp only [stepThread, Bool.false_eq_true, ↓reduceIte]
          rw [← this, Nat.mod_add_mod]
          congr 1; omega
        | succ k =>
          have := pending_set ts i ⟨k + 1, amount, false⟩ ⟨k, amount, false⟩ h
          simp only [Bool.false_eq_true, ↓reduceIte] at this
          have e : pending (ts.set i ⟨k, amount, false⟩) = pending ts := by omega
          simp only [stepThread, Bool.false_eq_true, ↓reduceIte, Nat.add_one_ne_zero, Nat.add_sub_cancel, e]
      · have := pending_set ts i ⟨pre, amount, true⟩ ⟨pre, amount, true⟩ h
        have e : pending (ts.set i ⟨pre, amount, true⟩) = pending ts := by omega
        simp only [stepThread, ↓reduceIte, e]

/-- **no lost update**: whatever the interleaving, once every instance has completed the variable has changed
by exactly the sum of all amounts (modulo the variable's width) -/
theorem no_lost_update (m : Nat) (sched : List Nat) (cell : Nat) (ts : List Thread)
    (hall : ∀ t ∈ (runSched m sched cell ts).2, t.done = true) (hc : (runSched m sched cell ts).1 < m) :
    (runSched m sched cell ts).1 = (cell + pending ts) % m := by
  have hinv := invariant m sched cell ts
  have hp : pending (runSched m sched cell ts).2 = 0 := by
    unfold pending
    generalize (runSched m sched cell ts).2 = l at hall
    induction l with
    | nil => rfl
    | cons x xs ih =>
      simp only [List.map_cons, List.sum_cons]
      rw [ih (fun t ht => hall t (List.mem_cons_of_mem _ ht))]
      simp [hall x (List.mem_cons_self ..)]
  rw [hp, Nat.add_zero, Nat.mod_eq_of_lt hc] at hinv
  exact hinv

/-- the cell stays inside the variable's range -/
theorem cell_in_range (m : Nat) (sched : List Nat) (cell : Nat) (ts : List Thread) (h : cell < m) :
    (runSched m sched cell ts).1 < m := by
  induction sched generalizing cell ts with
  | nil => exact h
  | cons i sched ih =>
    simp only [runSched]
    cases ht : ts[i]? with
    | none => exact ih cell ts h
    | some t =>
      simp only
      apply ih
      unfold stepThread
      split
      · exact h
      · split
        · exact Nat.mod_lt _ (by omega)
        · exact h

/-- contrast: the load/add/store sequence used for formats without XADD does lose updates (two instances adding
1 to 0 can end at 1); such formats are outside the property's family -/
theorem racy_loses : (runRacy 256 [0, 1, 0, 1, 0, 1] 0 [⟨0, 1, 0⟩, ⟨0, 1, 0⟩]).1 = 1 := by decide

/-! ### non-vacuity -/
example : (runSched 256 [0, 1, 1, 0, 1] 250 [⟨1, 7, false⟩, ⟨2, 3, false⟩]) = (4, [⟨0, 7, true⟩, ⟨0, 3, true⟩]) := by decide

end Ebv.C06
