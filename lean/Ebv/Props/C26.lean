import Ebv.Model.Motor
/-! C26 — the fast Motor device commands exactly its limited control law. -/
namespace Ebv.C26
open Ebv.Motor

theorem p16 : (2 : Int) ^ 16 = 65536 := by decide
theorem p15 : (2 : Int) ^ (16 - 1) = 32768 := by decide
theorem p32 : (2 : Int) ^ 32 = 4294967296 := by decide
theorem p31 : (2 : Int) ^ (32 - 1) = 2147483648 := by decide
theorem p64 : (2 : Int) ^ 64 = 18446744073709551616 := by decide
theorem p63 : (2 : Int) ^ (64 - 1) = 9223372036854775808 := by decide
theorem p63' : (2 : Int) ^ 63 = 9223372036854775808 := by decide
theorem n32 : (2 : Nat) ^ 32 = 4294967296 := by decide

theorem wrap16_id (x : Int) (h : -32768 ≤ x ∧ x ≤ 32767) : wrapS 16 x = x := by
  simp only [wrapS, p16, p15]; split <;> omega
theorem wrap32_id (x : Int) (h : -2147483648 ≤ x ∧ x < 2147483648) : wrapS 32 x = x := by
  simp only [wrapS, p32, p31]; split <;> omega
theorem wrap64_id (x : Int) (h : -9223372036854775808 ≤ x ∧ x < 9223372036854775808) : wrapS 64 x = x := by
  simp only [wrapS, p64, p63]; split <;> omega

/-- **C26 (partial)**: for all inputs within the property's hypotheses whose acceleration-limited value fits
the 16-bit velocity output, the generated program commands exactly the limited control law. -/
theorem motor_partial (i : Inputs) (h : Hyp i) (hw : ¬ AccelWrap i) : program i = spec i := by
  obtain ⟨hv, hl, hu, hd1, hd2, ha⟩ := h
  rw [p63'] at hd1 hd2
  rw [n32] at ha
  simp only [AccelWrap, limited, not_or, Int.not_lt] at hw
  unfold program spec limited
  generalize (i.gain : Int) * ((i.target : Int) - i.position) = d at *
  have hd : wrapS 64 d = d := wrap64_id d ⟨hd1, hd2⟩
  simp only [hd]
  have e1 : (if d > i.vprev + ↑i.acc then i.vprev + ↑i.acc else d) = min d (i.vprev + i.acc) := by
    simp only [Int.min_def]; split <;> split <;> omega
  rw [e1]
  have hr : wrapS 64 (min d (i.vprev + ↑i.acc) + ↑i.acc) = min d (i.vprev + ↑i.acc) + ↑i.acc :=
    wrap64_id _ (by simp only [Int.min_def]; split <;> omega)
  rw [hr]
  have e2 : (if min d (i.vprev + ↑i.acc) + ↑i.acc < i.vprev then i.vprev - ↑i.acc else min d (i.vprev + ↑i.acc))
      = max (min d (i.vprev + i.acc)) (i.vprev - i.acc) := by
    simp only [Int.max_def, Int.min_def]; split <;> split <;> split <;> omega
  rw [e2]
  generalize max (min d (i.vprev + ↑i.acc)) (i.vprev - ↑i.acc) = r at *
  rw [wrap16_id r ⟨hw.1, hw.2⟩]
  rw [wrap32_id (i.vmax : Int) (by omega), wrap16_id (i.vmax : Int) (by omega),
      wrap32_id (-(i.vmax : Int)) (by omega), wrap16_id (-(i.vmax : Int)) (by omega)]
  have e3 : (if (if r > ↑i.vmax then (↑i.vmax : Int) else r) < -↑i.vmax then -(↑i.vmax : Int)
      else if r > ↑i.vmax then ↑i.vmax else r) = max (min r ↑i.vmax) (-↑i.vmax) := by
    simp only [Int.max_def, Int.min_def]; split <;> split <;> split <;> omega
  simp only [e3]

/-- the full statement of the property (any acceleration limit) -/
def motor_full : Prop := ∀ i : Inputs, Hyp i → program i = spec i

/-- **the unchanged code violates the full statement**: with previous velocity 100, acceleration limit 40000
and a far-away target the limited value 40100 is stored into the 16-bit output before the velocity clamp reads
it back, wraps to −25436 and is then clamped to −1000 instead of +1000. -/
theorem motor_full_refuted : ¬ motor_full := by
  intro h
  have := h ⟨1, 1000000, 0, 100, 40000, 1000, false, false⟩ (by decide)
  revert this
  decide

/-! ### consequences of the control law -/

theorem spec_within_vmax (i : Inputs) : -(i.vmax : Int) ≤ spec i ∧ spec i ≤ i.vmax := by
  unfold spec
  generalize limited i = r
  simp only [Int.max_def, Int.min_def]
  cases i.low <;> cases i.high <;> simp <;> (repeat' split) <;> omega

theorem spec_respects_switches (i : Inputs) :
    (i.low = true → 0 ≤ spec i) ∧ (i.high = true → spec i ≤ 0) := by
  unfold spec
  generalize limited i = r
  simp only [Int.max_def, Int.min_def]
  cases i.low <;> cases i.high <;> simp <;> (repeat' split) <;> omega

/-- the command changes by at most the acceleration limit, except when it is stopped by a limit switch or
pulled back inside the velocity limit -/
theorem spec_accel_limited (i : Inputs) (h : -(i.vmax : Int) ≤ i.vprev ∧ i.vprev ≤ i.vmax) :
    spec i = 0 ∨ (i.vprev - i.acc ≤ spec i ∧ spec i ≤ i.vprev + i.acc) := by
  unfold spec limited
  generalize (i.gain : Int) * ((i.target : Int) - i.position) = d
  simp only [Int.max_def, Int.min_def]
  cases i.low <;> cases i.high <;> simp <;> (repeat' split) <;> omega

/-- even where the control law is missed (16-bit wrap), the velocity limit still holds for the program itself -/
theorem program_within_vmax (i : Inputs) (hv : i.vmax ≤ 32767) :
    -(i.vmax : Int) ≤ program i ∧ program i ≤ i.vmax := by
  unfold program
  rw [wrap32_id (i.vmax : Int) (by omega), wrap16_id (i.vmax : Int) (by omega),
      wrap32_id (-(i.vmax : Int)) (by omega), wrap16_id (-(i.vmax : Int)) (by omega)]
  generalize wrapS 16 _ = v1
  cases i.low <;> cases i.high <;> simp <;> (repeat' split) <;> omega

/-! ### non-vacuity -/
example : Hyp ⟨3, 5000, 4000, 200, 50, 1000, false, true⟩ ∧ ¬ AccelWrap ⟨3, 5000, 4000, 200, 50, 1000, false, true⟩ := by decide
example : program ⟨3, 5000, 4000, 200, 50, 1000, false, false⟩ = 250 := by decide

end Ebv.C26
