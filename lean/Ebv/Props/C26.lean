import Ebv.Model.Motor
/-! C26 — the fast Motor device commands exactly its limited control law. -/
namespace Ebv.C26
open Ebv.Motor

theorem p16 : (2 : Int) ^ 16 = 65536 := by decide
theorem p15 : (2 : Int) ^ (16 - 1) = 32768 := by decide
theorem p32 : (2 : Int) ^ 32 = 4294967296 := by decide
theorem p31 : (2 : Int) ^ (32 - 1) = 2147483648 := by decide
theorem p64 : (2 : Int) ^ 64 = 18446744073709551616 := by decide
theorem p63 : (2 : Int) ^ (64 - 1) = 9223372036854775808 := by decide
theorem p63' : (2 : Int) ^ 63 = 9223372036854775808 := by decide
theorem n32 : (2 : Nat) ^ 32 = 4294967296 := by decide

theorem wrap16_id (x : Int) (h : -32768 ≤ x ∧ x ≤ 32767) : wrapS 16 x = x := by
  simp only [wrapS, p16, p15]; split <;> omega
theorem wrap32_id (x : Int) (h : -2147483648 ≤ x ∧ x < 2147483648) : wrapS 32 x = x := by
  simp only [wrapS, p32, p31]; split <;> omega
theorem wrap64_id (x : Int) (h : -9223372036854775808 ≤ x ∧ x < 9223372036854775808) : wrapS 64 x = x := by
  simp only [wrapS, p64, p63]; split <;> omega

/-- **C26**: for all inputs within the property's hypotheses the generated program commands exactly the limited
control law (full strength: any acceleration limit, since the `fix:` commit that limits in the temporary first). -/
theorem motor_exact (i : Inputs) (h : Hyp i) : program i = spec i := by
  obtain ⟨hv, hl, hu, hd1, hd2, ha⟩ := h
  rw [p63'] at hd1 hd2
  rw [n32] at ha
  unfold program spec limited
  generalize (i.gain : Int) * ((i.target : Int) - i.position) = d at *
  have hd : wrapS 64 d = d := wrap64_id d ⟨hd1, hd2⟩
  simp only [hd]
  have e1 : (if d > i.vprev + ↑i.acc then i.vprev + ↑i.acc else d) = min d (i.vprev + i.acc) := by
    simp only [Int.min_def]; split <;> split <;> omega
  rw [e1]
  have hr : wrapS 64 (min d (i.vprev + ↑i.acc) + ↑i.acc) = min d (i.vprev + ↑i.acc) + ↑i.acc :=
    wrap64_id _ (by simp only [Int.min_def]; split <;> omega)
  rw [hr]
  have e2 : (if min d (i.vprev + ↑i.acc) + ↑i.acc < i.vprev then i.vprev - ↑i.acc else min d (i.vprev + ↑i.acc))
      = max (min d (i.vprev + i.acc)) (i.vprev - i.acc) := by
    simp only [Int.max_def, Int.min_def]; split <;> split <;> split <;> omega
  rw [e2]
  have hrb : -9223372036854775808 ≤ max (min d (i.vprev + ↑i.acc)) (i.vprev - ↑i.acc) ∧
      max (min d (i.vprev + ↑i.acc)) (i.vprev - ↑i.acc) < 9223372036854775808 := by
    simp only [Int.max_def, Int.min_def]; split <;> split <;> omega
  generalize max (min d (i.vprev + ↑i.acc)) (i.vprev - ↑i.acc) = r at *
  have e3 : (if r > (i.vmax : Int) then (i.vmax : Int) else r) = min r i.vmax := by
    simp only [Int.min_def]; split <;> split <;> omega
  rw [e3]
  have hw1 : wrapS 64 (min r ↑i.vmax + ↑i.vmax) = min r ↑i.vmax + ↑i.vmax :=
    wrap64_id _ (by simp only [Int.min_def]; split <;> omega)
  have hw2 : wrapS 64 (0 - (i.vmax : Int)) = -(i.vmax : Int) := by
    rw [wrap64_id _ (by omega)]; omega
  rw [hw1, hw2]
  have e4 : (if min r ↑i.vmax + ↑i.vmax < 0 then -(i.vmax : Int) else min r ↑i.vmax) = max (min r ↑i.vmax) (-↑i.vmax) := by
    simp only [Int.max_def, Int.min_def]; split <;> split <;> split <;> omega
  rw [e4]
  have h16 : wrapS 16 (max (min r ↑i.vmax) (-↑i.vmax)) = max (min r ↑i.vmax) (-↑i.vmax) :=
    wrap16_id _ (by simp only [Int.max_def, Int.min_def]; split <;> split <;> omega)
  rw [h16]

/-- what the program computed before the `fix:` commit (clamp after the 16-bit store, 32-bit compares) -/
def programBeforeFix (i : Inputs) : Int :=
  let d := wrapS 64 ((i.gain : Int) * ((i.target : Int) - i.position))
  let r := if d > i.vprev + i.acc then i.vprev + i.acc else d
  let r2 := if wrapS 64 (r + i.acc) < i.vprev then i.vprev - i.acc else r
  let v1 := wrapS 16 r2
  let v2 := if v1 > wrapS 32 i.vmax then wrapS 16 i.vmax else v1
  let v3 := if v2 < wrapS 32 (-(i.vmax : Int)) then wrapS 16 (-(i.vmax : Int)) else v2
  let v4 := if i.low && decide (v3 < 0) then 0 else v3
  if i.high && decide (v4 > 0) then 0 else v4

/-- the defect that was repaired: with previous velocity 100, acceleration limit 40000 and a far-away target the
old code commanded −1000 instead of +1000 (kept so that a regression to the old order is recognisable) -/
theorem before_fix_refuted : ¬ ∀ i : Inputs, Hyp i → programBeforeFix i = spec i := by
  intro h
  have := h ⟨1, 1000000, 0, 100, 40000, 1000, false, false⟩ (by decide)
  revert this
  decide

/-! ### consequences of the control law -/

theorem spec_within_vmax (i : Inputs) : -(i.vmax : Int) ≤ spec i ∧ spec i ≤ i.vmax := by
  unfold spec
  generalize limited i = r
  simp only [Int.max_def, Int.min_def]
  cases i.low <;> cases i.high <;> simp <;> (repeat' split) <;> omega

theorem spec_respects_switches (i : Inputs) :
    (i.low = true → 0 ≤ spec i) ∧ (i.high = true → spec i ≤ 0) := by
  unfold spec
  generalize limited i = r
  simp only [Int.max_def, Int.min_def]
  cases i.low <;> cases i.high <;> simp <;> (repeat' split) <;> omega

/-- the command changes by at most the acceleration limit, except when it is stopped by a limit switch or
pulled back inside the velocity limit -/
theorem spec_accel_limited (i : Inputs) (h : -(i.vmax : Int) ≤ i.vprev ∧ i.vprev ≤ i.vmax) :
    spec i = 0 ∨ (i.vprev - i.acc ≤ spec i ∧ spec i ≤ i.vprev + i.acc) := by
  unfold spec limited
  generalize (i.gain : Int) * ((i.target : Int) - i.position) = d
  simp only [Int.max_def, Int.min_def]
  cases i.low <;> cases i.high <;> simp <;> (repeat' split) <;> omega

/-- the velocity limit holds for the program itself -/
theorem program_within_vmax (i : Inputs) (h : Hyp i) : -(i.vmax : Int) ≤ program i ∧ program i ≤ i.vmax := by
  rw [motor_exact i h]; exact spec_within_vmax i

/-! ### non-vacuity -/
example : Hyp ⟨3, 5000, 4000, 200, 50, 1000, false, true⟩ ∧ Hyp ⟨1, 1000000, 0, 100, 40000, 1000, false, false⟩ := by decide
example : program ⟨1, 1000000, 0, 100, 40000, 1000, false, false⟩ = 1000 := by decide
example : program ⟨3, 5000, 4000, 200, 50, 1000, false, false⟩ = 250 := by decide

end Ebv.C26
