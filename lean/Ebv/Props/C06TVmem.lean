import Ebv.Lemmas.XdpOps4
/-! C06 translation validation, memory vocabulary: "the variable's bytes" as a set of addresses, memories that agree
off / on the variable, stores that miss the variable, and helper leftovers that do not look at the variable. -/
namespace Ebv.C06TV
open Ebv.Ebpf Ebv.XdpRun

abbrev Mem := W → BitVec 8

/-- address `x` is one of the `n` bytes of the variable at `va` -/
def inVar (va n : Nat) (x : W) : Prop := va ≤ x.toNat ∧ x.toNat < va + n
instance (va n : Nat) (x : W) : Decidable (inVar va n x) := by unfold inVar; infer_instance

/-- the two memories agree everywhere outside the variable -/
def EqOff (va n : Nat) (M M2 : Mem) : Prop := ∀ x : W, ¬ inVar va n x → M x = M2 x
/-- the two memories agree on the variable's bytes -/
def SameOn (va n : Nat) (M M2 : Mem) : Prop := ∀ x : W, inVar va n x → M x = M2 x

theorem EqOff.refl (va n : Nat) (M : Mem) : EqOff va n M M := fun _ _ => rfl
theorem EqOff.symm {va n : Nat} {A B : Mem} (h : EqOff va n A B) : EqOff va n B A := fun x hx => (h x hx).symm
theorem EqOff.trans {va n : Nat} {A B C : Mem} (h1 : EqOff va n A B) (h2 : EqOff va n B C) : EqOff va n A C :=
  fun x hx => (h1 x hx).trans (h2 x hx)
theorem SameOn.refl (va n : Nat) (M : Mem) : SameOn va n M M := fun _ _ => rfl
theorem SameOn.trans {va n : Nat} {A B C : Mem} (h1 : SameOn va n A B) (h2 : SameOn va n B C) : SameOn va n A C :=
  fun x hx => (h1 x hx).trans (h2 x hx)
theorem SameOn.symm {va n : Nat} {A B : Mem} (h : SameOn va n A B) : SameOn va n B A := fun x hx => (h x hx).symm

/-- a store anywhere, with the same value, keeps two memories equal off the variable -/
theorem EqOff.storeN {va n : Nat} (k : Nat) : ∀ {A B : Mem} (a : W) (v : Nat), EqOff va n A B →
    EqOff va n (Ebpf.storeN A a k v) (Ebpf.storeN B a k v) := by
  induction k with
  | zero => intro A B a v h; exact h
  | succ k ih =>
    intro A B a v h
    simp only [Ebpf.storeN]
    apply ih
    intro x hx
    by_cases hxa : x = a
    · simp [hxa]
    · simp only [hxa, if_false]; exact h x hx

theorem ofNat_toNat64 (x : W) : BitVec.ofNat 64 x.toNat = x := by
  apply BitVec.eq_of_toNat_eq; simp

/-- closed form of a store at a `W` address -/
theorem storeN_apply (M : Mem) (a k v : Nat) (x : W) (ha : a + k ≤ 2 ^ 64) :
    storeN M (BitVec.ofNat 64 a) k v x =
      if a ≤ x.toNat ∧ x.toNat < a + k then BitVec.ofNat 8 (v / 256 ^ (x.toNat - a)) else M x := by
  have := storeN_at k M a v x.toNat ha x.isLt
  rwa [ofNat_toNat64] at this

/-- a store that misses the variable leaves its bytes alone -/
theorem SameOn.storeN {va n : Nat} {M M' : Mem} (a k v : Nat) (ha : a + k ≤ 2 ^ 64) (hd : a + k ≤ va ∨ va + n ≤ a)
    (h : SameOn va n M M') : SameOn va n M (Ebpf.storeN M' (BitVec.ofNat 64 a) k v) := by
  intro x hx
  rw [storeN_apply M' a k v x ha]
  have : ¬ (a ≤ x.toNat ∧ x.toNat < a + k) := by unfold inVar at hx; omega
  simp only [this, if_false]
  exact h x hx

/-- stores into the variable (whatever the values) keep two memories equal off the variable -/
theorem EqOff.storeN_var {va n : Nat} {A B : Mem} (v w : Nat) (hv : va + n ≤ 2 ^ 64) (h : EqOff va n A B) :
    EqOff va n (Ebpf.storeN A (BitVec.ofNat 64 va) n v) (Ebpf.storeN B (BitVec.ofNat 64 va) n w) := by
  intro x hx
  rw [storeN_apply A va n v x hv, storeN_apply B va n w x hv]
  have : ¬ (va ≤ x.toNat ∧ x.toNat < va + n) := hx
  simp only [this, if_false]
  exact h x hx

/-- the variable's value is the same in two memories that agree on its bytes -/
theorem SameOn.load {va n : Nat} {M M' : Mem} (h : SameOn va n M M') (hv : va + n ≤ 2 ^ 64) :
    loadN M (BitVec.ofNat 64 va) n = loadN M' (BitVec.ofNat 64 va) n := by
  apply loadN_congr
  intro i hi
  apply h
  unfold inVar
  rw [toNat_ofNat64 _ (by omega)]
  omega

/-! ### erasing the variable: a canonical representative of "memory off the variable" -/

def erase (va n : Nat) (M : Mem) : Mem := fun x => if inVar va n x then 0 else M x

theorem eqOff_erase (va n : Nat) (M : Mem) : EqOff va n M (erase va n M) := by
  intro x hx; simp [erase, hx]

theorem erase_congr {va n : Nat} {A B : Mem} (h : EqOff va n A B) : erase va n A = erase va n B := by
  funext x
  by_cases hx : inVar va n x
  · simp [erase, hx]
  · simp only [erase, hx, if_false]; exact h x hx

theorem erase_storeN (va n : Nat) (M : Mem) (a k v : Nat) (ha : a + k ≤ 2 ^ 64) (hd : a + k ≤ va ∨ va + n ≤ a) :
    erase va n (storeN M (BitVec.ofNat 64 a) k v) = storeN (erase va n M) (BitVec.ofNat 64 a) k v := by
  funext x
  rw [storeN_apply _ a k v x ha]
  unfold erase
  rw [storeN_apply _ a k v x ha]
  by_cases hx : inVar va n x
  · have : ¬ (a ≤ x.toNat ∧ x.toNat < a + k) := by unfold inVar at hx; omega
    simp [hx, this]
  · simp [hx]

/-- what helpers leave in r1–r5 does not depend on the variable's bytes (`Env.clob` may be any function of the state at
the call; a helper that looked at the variable would be another reader of it) -/
def Private (e : Env) (va n : Nat) : Prop :=
  ∀ (id : Int) (R : Nat → W) (M M2 : Mem) (pc k : Nat), EqOff va n M M2 → e.clob id ⟨R, M, pc⟩ k = e.clob id ⟨R, M2, pc⟩ k

/-- `Env.clob` under another name (so that rewriting to the erased memory does not loop) -/
def clobE (e : Env) (id : Int) (R : Nat → W) (Me : Mem) (pc k : Nat) : W := e.clob id ⟨R, Me, pc⟩ k

theorem Private.clob {e : Env} {va n : Nat} (h : Private e va n) (id : Int) (R : Nat → W) (M : Mem) (pc k : Nat) :
    e.clob id ⟨R, M, pc⟩ k = clobE e id R (erase va n M) pc k := h id R M _ pc k (eqOff_erase va n M)

end Ebv.C06TV
