import Ebv.Model.Valve
/-! C27 — the Valve device enforces its safe state on timeout.

All theorems quantify over every start state, every list of events (target changes, switch
readings, clock advances, updates, resets) of any length, every `movingTime`; the history
theorems are about event lists that start with `reset`, as the property demands
(`lastGood` does not exist before the first `reset`). -/
namespace Ebv.C27
open Ebv.Valve

/-! ### the vocabulary of the property -/

/-- the switches confirm the position the coil commands: they read differently, and the one that
belongs to the commanded position is on or the other one is off -/
def confirms (s : St) : Bool :=
  s.openSw != s.closedSw &&
    (if s.coil then (s.openSw != 0 || s.closedSw == 0) else (s.closedSw != 0 || s.openSw == 0))

/-- the update made the coil follow the requested target and touched nothing else of the interface -/
def Follows (s s' : St) : Prop :=
  s'.coil = truthy s.target ∧ s'.target = s.target ∧ s'.error = s.error

/-- the update flagged the error and forced coil and target to the configured safe state -/
def WentSafe (cfg : Cfg) (s' : St) : Prop :=
  s'.error = true ∧ s'.coil = cfg.safeState ∧ s'.target = ofBool cfg.safeState

/-- time of the latest event that was a `reset` or an `update` at which `chk` held, following the run -/
def lastConfirmBy (chk : St → Bool) (cfg : Cfg) : St → Int → List Ev → Int
  | _, lc, [] => lc
  | s, lc, e :: es =>
    lastConfirmBy chk cfg (step cfg s e)
      (match e with
       | .reset => s.now
       | .update => if chk s then s.now else lc
       | _ => lc) es

/-- time of the latest `reset` -/
def lastReset (cfg : Cfg) : St → Int → List Ev → Int
  | _, lr, [] => lr
  | s, lr, e :: es => lastReset cfg (step cfg s e) (match e with | .reset => s.now | _ => lr) es

/-! ### what the position check of the code means -/

/-- for two-valued (bit) switch readings `confirms` says: exactly the switch of the commanded
position is on -/
theorem confirms_bool (s : St) (ho : s.openSw ≤ 1) (hc : s.closedSw ≤ 1) :
    confirms s = true ↔
      (s.coil = true ∧ s.openSw = 1 ∧ s.closedSw = 0) ∨ (s.coil = false ∧ s.closedSw = 1 ∧ s.openSw = 0) := by
  rcases s with ⟨now, o, c, coil, t, e, lg⟩
  simp only at ho hc
  have ho' : o = 0 ∨ o = 1 := by omega
  have hc' : c = 0 ∨ c = 1 := by omega
  rcases ho' with rfl | rfl <;> rcases hc' with rfl | rfl <;> cases coil <;> simp [confirms]

/-- with the default safe state (closed, `False`) the expression of the code is `confirms`,
for all readings -/
theorem good_eq_confirms_closed_safe (cfg : Cfg) (h : cfg.safeState = false) (s : St) :
    good cfg s = confirms s := by
  rcases s with ⟨now, o, c, coil, t, e, lg⟩
  rw [Bool.eq_iff_iff]
  cases coil <;> simp [good, confirms, h, ofBool, orNot, truthy] <;> omega

/-- with `safeState = True` the code selects the expected switch by `coil == safeState`: it
expects the *closed* switch while the coil is on and the *open* switch while it is off.
(Outside the registered property, which restricts the position check to the default safe state.) -/
theorem good_open_safe_inverted (cfg : Cfg) (h : cfg.safeState = true) (s : St)
    (ho : s.openSw ≤ 1) (hc : s.closedSw ≤ 1) :
    good cfg s = true ↔
      (s.coil = true ∧ s.closedSw = 1 ∧ s.openSw = 0) ∨ (s.coil = false ∧ s.openSw = 1 ∧ s.closedSw = 0) := by
  rcases s with ⟨now, o, c, coil, t, e, lg⟩
  simp only at ho hc
  have ho' : o = 0 ∨ o = 1 := by omega
  have hc' : c = 0 ∨ c = 1 := by omega
  rcases ho' with rfl | rfl <;> rcases hc' with rfl | rfl <;> cases coil <;>
    simp [good, h, ofBool, orNot, truthy]

/-! ### one update -/

theorem truthy_ofBool (b : Bool) : truthy (ofBool b) = b := by cases b <;> rfl

/-- the three branches of `update`, for every state -/
theorem update_cases (cfg : Cfg) (s : St) :
    ((good cfg s = true ∨ s.now - s.lastGood < cfg.movingTime) → Follows s (update cfg s)) ∧
    (¬(good cfg s = true ∨ s.now - s.lastGood < cfg.movingTime) → WentSafe cfg (update cfg s)) ∧
    (update cfg s).now = s.now ∧ (update cfg s).openSw = s.openSw ∧ (update cfg s).closedSw = s.closedSw ∧
    (update cfg s).lastGood = (if good cfg s then s.now else s.lastGood) := by
  unfold update
  by_cases hg : good cfg s = true
  · simp [hg, Follows]
  · by_cases ht : s.now - s.lastGood < cfg.movingTime
    · simp [hg, ht, Follows]
    · simp [hg, ht, WentSafe, truthy_ofBool]

/-- every update either follows the target or goes to the safe state with the error flag -/
theorem update_dichotomy (cfg : Cfg) (s : St) :
    Follows s (update cfg s) ∨ WentSafe cfg (update cfg s) := by
  by_cases h : good cfg s = true ∨ s.now - s.lastGood < cfg.movingTime
  · exact Or.inl ((update_cases cfg s).1 h)
  · exact Or.inr ((update_cases cfg s).2.1 h)

/-- the error flag is raised by nothing but an update that finds the position unconfirmed for
at least the moving time -/
theorem error_only_by_timeout (cfg : Cfg) (s : St) (e : Ev)
    (h0 : s.error = false) (h1 : (step cfg s e).error = true) :
    e = .update ∧ good cfg s = false ∧ cfg.movingTime ≤ s.now - s.lastGood := by
  cases e with
  | reset => simp [step, reset] at h1
  | setTarget v => simp [step, h0] at h1
  | switches o c => simp [step, h0] at h1
  | advance d => simp [step, h0] at h1
  | update =>
    refine ⟨rfl, ?_⟩
    simp only [step, update] at h1
    by_cases hg : good cfg s = true
    · simp [hg, h0] at h1
    · by_cases ht : s.now - s.lastGood < cfg.movingTime
      · simp [hg, ht, h0] at h1
      · exact ⟨by simpa using hg, by omega⟩

/-! ### histories -/

theorem run_append (cfg : Cfg) (s : St) (a b : List Ev) :
    run cfg s (a ++ b) = run cfg (run cfg s a) b := by
  induction a generalizing s with
  | nil => rfl
  | cons e a ih => simp [run, ih]

theorem lastGood_run (cfg : Cfg) (es : List Ev) (s : St) (lc : Int) (h : s.lastGood = lc) :
    (run cfg s es).lastGood = lastConfirmBy (good cfg) cfg s lc es := by
  induction es generalizing s lc with
  | nil => simpa [run, lastConfirmBy] using h
  | cons e es ih =>
    simp only [run, lastConfirmBy]
    apply ih
    cases e with
    | reset => simp [step, reset]
    | update => simp [step, (update_cases cfg s).2.2.2.2.2, h]
    | setTarget v => simpa [step] using h
    | switches o c => simpa [step] using h
    | advance d => simpa [step] using h

/-- `lastGood` is, at every point of every history that starts with `reset`, the time of the
latest reset or confirming update — no other event touches it -/
theorem lastGood_is_lastConfirm (cfg : Cfg) (s0 : St) (es : List Ev) :
    (run cfg s0 (.reset :: es)).lastGood = lastConfirmBy (good cfg) cfg (reset s0) s0.now es := by
  simp only [run, step]
  exact lastGood_run cfg es (reset s0) s0.now (by simp [reset])

/-- **Both safe-state settings, any moving time**: in every history starting with `reset`, an
update finds the valve either confirmed by the code's check / within the moving time since the
last confirmation or reset — then the coil follows the target — or not — then the error flag is
set and coil and target are the safe state. -/
theorem update_after_history (cfg : Cfg) (s0 : St) (pre : List Ev) :
    let s := run cfg s0 (.reset :: pre)
    let s' := run cfg s0 (.reset :: pre ++ [.update])
    let lc := lastConfirmBy (good cfg) cfg (reset s0) s0.now pre
    ((good cfg s = true ∨ s.now - lc < cfg.movingTime) → Follows s s') ∧
    (¬(good cfg s = true ∨ s.now - lc < cfg.movingTime) → WentSafe cfg s') := by
  intro s s' lc
  have hs' : s' = update cfg s := by
    show run cfg s0 (.reset :: pre ++ [.update]) = _
    rw [run_append]; rfl
  have hlc : s.lastGood = lc := lastGood_is_lastConfirm cfg s0 pre
  rw [hs', ← hlc]
  exact ⟨(update_cases cfg s).1, (update_cases cfg s).2.1⟩

/-- **coil follows target** (default safe state): while the switches confirm the position the
coil commands, or less than the moving time has elapsed since they last did (or since reset),
the update sets coil to the truth value of the target and leaves target and error alone. -/
theorem coil_follows_target (cfg : Cfg) (hsafe : cfg.safeState = false) (s0 : St) (pre : List Ev) :
    let s := run cfg s0 (.reset :: pre)
    let s' := run cfg s0 (.reset :: pre ++ [.update])
    let lc := lastConfirmBy confirms cfg (reset s0) s0.now pre
    (confirms s = true ∨ s.now - lc < cfg.movingTime) → Follows s s' := by
  have hg : good cfg = confirms := funext (good_eq_confirms_closed_safe cfg hsafe)
  have := update_after_history cfg s0 pre
  rw [hg] at this
  exact this.1

/-- **timeout goes safe** (default safe state): when the switches do not confirm the position the
coil commands and the moving time has elapsed since they last did, the update sets the error flag
and forces coil and target to the safe state. -/
theorem timeout_goes_safe (cfg : Cfg) (hsafe : cfg.safeState = false) (s0 : St) (pre : List Ev) :
    let s := run cfg s0 (.reset :: pre)
    let s' := run cfg s0 (.reset :: pre ++ [.update])
    let lc := lastConfirmBy confirms cfg (reset s0) s0.now pre
    confirms s = false → cfg.movingTime ≤ s.now - lc → WentSafe cfg s' := by
  have hg : good cfg = confirms := funext (good_eq_confirms_closed_safe cfg hsafe)
  have := update_after_history cfg s0 pre
  rw [hg] at this
  intro s s' lc h1 h2
  simp only [s, lc] at h1 h2
  apply this.2
  rintro (h | h)
  · simp [h1] at h
  · omega

/-- the clock never runs backwards and `lastGood` lies between the last reset and now -/
theorem lastGood_bounds (cfg : Cfg) (es : List Ev) (s : St) (lr : Int)
    (h : lr ≤ s.lastGood ∧ s.lastGood ≤ s.now) :
    lastReset cfg s lr es ≤ (run cfg s es).lastGood ∧ (run cfg s es).lastGood ≤ (run cfg s es).now := by
  induction es generalizing s lr with
  | nil => simpa [run, lastReset] using h
  | cons e es ih =>
    simp only [run, lastReset]
    apply ih
    cases e with
    | reset => simp [step, reset]
    | update =>
      have hu := update_cases cfg s
      simp only [step, hu.2.2.1, hu.2.2.2.2.2]
      by_cases hg : good cfg s = true <;> simp [hg] <;> omega
    | setTarget v => simpa [step] using h
    | switches o c => simpa [step] using h
    | advance d => simp [step]; omega

/-- **error reaction, both safe-state settings**: the safe state is never forced (and the error
flag never raised) by an update that comes less than the moving time after the last reset,
whatever the switches say -/
theorem no_error_before_movingTime (cfg : Cfg) (s0 : St) (pre : List Ev) :
    let s := run cfg s0 (.reset :: pre)
    let s' := run cfg s0 (.reset :: pre ++ [.update])
    s.now - lastReset cfg (reset s0) s0.now pre < cfg.movingTime → Follows s s' := by
  intro s s' h
  have hs' : s' = update cfg s := by
    show run cfg s0 (.reset :: pre ++ [.update]) = _
    rw [run_append]; rfl
  have hb := lastGood_bounds cfg pre (reset s0) s0.now (by simp [reset])
  rw [hs']
  apply (update_cases cfg s).1
  right
  have : s = run cfg (reset s0) pre := rfl
  rw [this] at h ⊢
  omega

/-- once raised, the error flag stays until the next reset -/
theorem error_sticky_until_reset (cfg : Cfg) (es : List Ev) (s : St)
    (hno : Ev.reset ∉ es) (h : s.error = true) : (run cfg s es).error = true := by
  induction es generalizing s with
  | nil => simpa [run] using h
  | cons e es ih =>
    simp only [run]
    apply ih _ (fun hm => hno (List.mem_cons_of_mem _ hm))
    cases e with
    | reset => simp at hno
    | update =>
      simp only [step, update]
      by_cases hg : good cfg s = true
      · simp [hg, h]
      · by_cases ht : s.now - s.lastGood < cfg.movingTime <;> simp [hg, ht, h]
    | setTarget v => simpa [step] using h
    | switches o c => simpa [step] using h
    | advance d => simpa [step] using h

/-! ### several valves in one slow sync group: every valve behaves as if it were alone -/

theorem getElem?_modifyAt (f : Member → Member) (g : List Member) (j i : Nat) :
    (modifyAt f g j)[i]? = if j = i then g[i]?.map f else g[i]? := by
  induction g generalizing j i with
  | nil => cases j <;> simp [modifyAt]
  | cons u r ih =>
    cases j with
    | zero => cases i <;> simp [modifyAt]
    | succ j =>
      cases i with
      | zero => simp [modifyAt]
      | succ i => simpa [modifyAt] using ih j i

/-- one group event changes valve `i` exactly as the events it sees of it change a valve that is alone -/
theorem gstep_member (g : List Member) (e : GEv) (i : Nat) :
    (gstep g e)[i]? = g[i]?.map fun u => { u with st := run u.cfg u.st (proj i e) } := by
  cases e with
  | reset j => by_cases h : j = i <;> simp [gstep, proj, getElem?_modifyAt, h, run] <;> rfl
  | update j => by_cases h : j = i <;> simp [gstep, proj, getElem?_modifyAt, h, run] <;> rfl
  | cycle => simp [gstep, proj, run]; rfl
  | setTarget j v => by_cases h : j = i <;> simp [gstep, proj, getElem?_modifyAt, h, run] <;> rfl
  | switches j o c => by_cases h : j = i <;> simp [gstep, proj, getElem?_modifyAt, h, run] <;> rfl
  | advance d => simp [gstep, proj, run]; rfl

/-- **independence of the valves of one group**: after any group history, valve `i` has its own configuration and
is in the state a single valve reaches on the events addressed to it (plus cycles and the clock) — targets,
switch readings, resets and time-outs of the other valves do not exist for it -/
theorem group_independent (g : List Member) (evs : List GEv) (i : Nat) :
    (grun g evs)[i]? = g[i]?.map fun u => { u with st := run u.cfg u.st (projAll i evs) } := by
  induction evs generalizing g with
  | nil =>
    simp only [grun, projAll, run]
    cases g[i]? <;> rfl
  | cons e es ih =>
    rw [grun, ih, gstep_member]
    cases h : g[i]? <;> simp [projAll, run_append]

/-- an event that valve `i` does not see leaves it exactly as it was -/
theorem group_others_untouched (g : List Member) (e : GEv) (i : Nat) (h : proj i e = []) :
    (gstep g e)[i]? = g[i]? := by
  rw [gstep_member, h]
  cases g[i]? <;> simp [run]

theorem group_length (g : List Member) (evs : List GEv) : (grun g evs).length = g.length := by
  have hm : ∀ (f : Member → Member) (g : List Member) (j : Nat), (modifyAt f g j).length = g.length := by
    intro f g
    induction g with
    | nil => intro j; cases j <;> rfl
    | cons u r ih => intro j; cases j <;> simp [modifyAt, ih]
  induction evs generalizing g with
  | nil => rfl
  | cons e es ih => rw [grun, ih]; cases e <;> simp [gstep, hm]

theorem projAll_append (i : Nat) (a b : List GEv) : projAll i (a ++ b) = projAll i a ++ projAll i b := by
  induction a with
  | nil => rfl
  | cons e a ih => simp [projAll, ih]

/-- **C27 for every valve of a group**: valve `i` (default safe state) of any group, after `reset` and any group
history, at the next cycle of the group: its coil follows ITS OWN target while its switches confirm the position
its coil commands or its moving time has not elapsed since they last did; otherwise it flags ITS error and its
coil and target go to ITS safe state — whatever the other valves of the group are asked, read or do. -/
theorem group_valve_property (g : List Member) (i : Nat) (u : Member) (hu : g[i]? = some u)
    (hsafe : u.cfg.safeState = false) (pre : List GEv) :
    let p := projAll i pre
    let lc := lastConfirmBy confirms u.cfg (reset u.st) u.st.now p
    ∃ s s', (grun g (.reset i :: pre))[i]? = some ⟨u.cfg, s⟩ ∧
      (grun g (.reset i :: pre ++ [.cycle]))[i]? = some ⟨u.cfg, s'⟩ ∧
      ((confirms s = true ∨ s.now - lc < u.cfg.movingTime) → Follows s s') ∧
      (confirms s = false → u.cfg.movingTime ≤ s.now - lc → WentSafe u.cfg s') := by
  intro p lc
  refine ⟨run u.cfg u.st (.reset :: p), run u.cfg u.st (.reset :: p ++ [.update]), ?_, ?_, ?_, ?_⟩
  · rw [group_independent, hu]; simp [projAll, proj, p]
  · rw [group_independent, hu]
    have : projAll i (GEv.reset i :: pre ++ [GEv.cycle]) = .reset :: p ++ [.update] := by
      simp [projAll, proj, projAll_append, p]
    rw [this]; rfl
  · exact coil_follows_target u.cfg hsafe u.st p
  · exact timeout_goes_safe u.cfg hsafe u.st p

/-- the error reaction for either safe state, in a group: at a cycle every valve either follows its own target or
goes to its own safe state with its own error flag -/
theorem group_update_dichotomy (g : List Member) (i : Nat) (u : Member) (hu : g[i]? = some u) :
    ∃ u', (gstep g .cycle)[i]? = some u' ∧ u'.cfg = u.cfg ∧ (Follows u.st u'.st ∨ WentSafe u.cfg u'.st) := by
  refine ⟨{ u with st := update u.cfg u.st }, ?_, rfl, update_dichotomy u.cfg u.st⟩
  rw [gstep_member, hu]; simp [proj, run, step]

/-! ### non-vacuity: concrete histories in both regimes -/

/-- default configuration from /repo: closed is safe, 5 s at 1024 ticks/s -/
def cfgDefault : Cfg := { safeState := Ebv.Consts.valve_safeState != 0, movingTime := Ebv.Consts.valve_movingTime_s * 1024 }
def sStart : St := { now := 10240, openSw := 0, closedSw := 1, coil := false, target := 0, error := false, lastGood := 0 }

example : cfgDefault.safeState = false := by decide
-- the valve is asked to open, travels for 3 s (no switch on), arrives: coil follows throughout
example :
    let pre := [Ev.setTarget 1, .update, .switches 0 0, .advance 3072, .update, .switches 1 0]
    let s := run cfgDefault sStart (.reset :: pre)
    (confirms s = true ∨ s.now - lastConfirmBy confirms cfgDefault (reset sStart) sStart.now pre < cfgDefault.movingTime) ∧
    run cfgDefault sStart (.reset :: pre ++ [.update]) =
      { now := 13312, openSw := 1, closedSw := 0, coil := true, target := 1, error := false, lastGood := 13312 } := by
  decide
-- it never arrives: exactly at 5 s after the last confirmation the safe state is enforced
example :
    let pre := [Ev.setTarget 1, .update, .switches 0 0, .advance 5119, .update, .advance 1]
    let s := run cfgDefault sStart (.reset :: pre)
    confirms s = false ∧
    cfgDefault.movingTime ≤ s.now - lastConfirmBy confirms cfgDefault (reset sStart) sStart.now pre ∧
    (run cfgDefault sStart (.reset :: pre)).coil = true ∧
    run cfgDefault sStart (.reset :: pre ++ [.update]) =
      { now := 15360, openSw := 0, closedSw := 0, coil := false, target := 0, error := true, lastGood := 10240 } := by
  decide
-- safe state open: the timeout drives coil and target to True
example :
    (run { safeState := true, movingTime := 10 } sStart [.reset, .advance 10, .update]).coil = true ∧
    (run { safeState := true, movingTime := 10 } sStart [.reset, .advance 10, .update]).target = 1 ∧
    (run { safeState := true, movingTime := 10 } sStart [.reset, .advance 10, .update]).error = true := by
  decide

-- two valves in one group (closed-safe with 10 ticks, open-safe with 1000 ticks): valve 0 is asked to open and never
-- arrives -> it alone flags the error and closes; valve 1 is asked to open and keeps its coil on, target and error its own
example :
    let g0 : List Member := [⟨{ safeState := false, movingTime := 10 }, sStart⟩, ⟨{ safeState := true, movingTime := 1000 }, sStart⟩]
    let g := grun g0 [.reset 0, .reset 1, .setTarget 0 1, .setTarget 1 1, .cycle, .switches 0 0 0, .advance 10, .cycle]
    (g.map fun u => (u.st.coil, u.st.target, u.st.error)) = [(false, 0, true), (true, 1, false)] := by
  decide

end Ebv.C27
