import Ebv.Props.C06TVlib
/-! C06 translation validation, tactics: `xadd_member t` proves `Spec t` for a table entry `t` given by name — symbolic
execution of the regenerated instruction list under `runXdp` up to the XADD (`qsim`: the `xsim` of C22TV plus the rules
for these programs' opcodes) and from behind it to the exit; what came out is then matched with the statement:
frame conditions on memory, independence of the registers, the XADD's address, the amount. -/
namespace Ebv.C06TV
open Ebv.Ebpf Ebv.XdpRun Ebv.Programs

macro "qsim" "[" ls:Lean.Parser.Tactic.simpLemma,* "]" : tactic => `(tactic|
  xsim [pseudo_def, pseudoOf_op, pseudoOf_ld, op_neg64, op_neg32, op_mul32i, op_xadddw, op_stdw, op_lddw, lddw2_some,
    $ls,*])

/-- the memory is the initial one with stores that all miss the variable -/
macro "mem_same" : tactic => `(tactic|
  repeat (first | exact SameOn.refl _ _ _ | refine SameOn.storeN _ _ _ (by omega) (by omega) ?_))
/-- the same stores applied to two memories that agree off the variable -/
macro "mem_eqo" h:ident : tactic => `(tactic| repeat (first | exact $h | apply EqOff.storeN))

set_option hygiene false in
macro "xadd_member" t:ident : tactic => `(tactic| (
  show Spec _
  unfold Spec
  intro e g R hL
  obtain ⟨stk, mp, voff⟩ := g
  obtain ⟨hr10, hlo, hhi, hlook, hmp, hmphi, hdisj, hin, hoth, hdecl, hcomp⟩ := hL
  simp only [$t:ident, varAddr, pre, ne_eq, Nat.reduceEqDiff, not_true_eq_false, not_false_eq_true,
    forall_const, false_implies, true_implies, reduceIte, Bool.false_eq_true, Bool.true_eq_false, Nat.reduceAdd,
    Nat.reduceMul] at *
  try subst hdecl
  first | (have hmp' : ¬ mp = 0 := by omega) | (have hmp' : True := trivial)
  refine ⟨by omega, ?Rf, ?Mf, ?Pf, fun rest M => ⟨_, Nat.le_refl _, fun f => ?eq⟩, ?same, ?eqo, ?regs, ?tgt, ?amt,
    fun M M' => ⟨?R2, ?pc2, fun f => ?post⟩, ?psame, ?peqo⟩
  case eq => qsim [hr10, hlook, hmp', hcomp]; rfl
  case post => qsim [hr10, hlook, hmp', hcomp]; rfl
  case same => intro M; mem_same
  case psame => intro M; mem_same
  case eqo => intro M M2 h; mem_eqo h
  case peqo => intro M M2 h; mem_eqo h
  case regs =>
    intro M M2 h hP
    have hE := erase_congr h
    funext k
    simp only [upd_apply, callR_apply, hP.clob]
    all_goals (repeat rw [erase_storeN _ _ _ _ _ _ (by omega) (by omega)])
    all_goals simp only [hE]
  case tgt =>
    intro M
    simp (disch := omega) only [upd_apply, callR_apply, reduceIte, Nat.reduceEqDiff, Nat.reduceLeDiff, BitVec.reduceOfInt,
      hr10, hcomp, ofNat_add_lo, ofNat_add_hi, Nat.add_zero, Nat.reduceSub, Nat.reducePow, Nat.reduceAdd]
  case amt =>
    intro M
    simp only [upd_apply, callR_apply, reduceIte, Nat.reduceEqDiff, Nat.reduceLeDiff, amount, amountZ, operand, Nat.reduceMul]
    refine amt_of_ofInt _ _ _ ?_
    first
      | decide
      | (simp only [tr_add, tr_mul, tr_neg, tr_zext, BitVec.setWidth_eq, BitVec.ofInt_add, BitVec.ofInt_mul,
          BitVec.ofInt_neg, ofInt_toNat, BitVec.reduceOfInt, BitVec.reduceSetWidth, BitVec.mul_one, BitVec.neg_mul,
          Int.reduceNeg, Int.reduceMul, reduceIte, Bool.false_eq_true]; done)))

end Ebv.C06TV
