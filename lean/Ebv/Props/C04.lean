import Ebv.Model.Stack
/-! C04 — writing one variable never changes another: the layout part (which bytes belong to which
variable / temporary).  That the code emitted for an assignment stores only into the destination's
range is the frame condition of C01's `assign_correct`. -/
namespace Ebv.C04
open Ebv.Stack

theorem alignDown_le (x : Int) (s : Nat) (hs : 0 < s) : alignDown x s ≤ x := by
  unfold alignDown
  have : 0 ≤ x % (s : Int) := Int.emod_nonneg _ (by omega)
  omega

theorem alignDown_gt (x : Int) (s : Nat) (hs : 0 < s) : x - s < alignDown x s := by
  unfold alignDown
  have : x % (s : Int) < s := Int.emod_lt_of_pos _ (by omega)
  omega

theorem alignDown_mod (x : Int) (s : Nat) : alignDown x s % (s : Int) = 0 := by
  unfold alignDown
  rw [Int.sub_emod, Int.emod_emod_of_dvd _ (Int.dvd_refl _), Int.sub_self, Int.zero_emod]

def sizeOk : Decl → Prop
  | .loc s => 0 < s
  | .dict _ _ => True

/-- every slot lies between the final and the initial stack value -/
theorem alloc_bounds (ds : List Decl) (stack : Int) (h : ∀ d ∈ ds, sizeOk d) :
    (alloc stack ds).2 ≤ stack ∧
    ∀ sl ∈ (alloc stack ds).1, (alloc stack ds).2 ≤ sl.addr ∧ sl.addr + sl.size ≤ stack := by
  induction ds generalizing stack with
  | nil => simp [alloc]
  | cons d ds ih =>
    have hds : ∀ d ∈ ds, sizeOk d := fun d hd => h d (List.mem_cons_of_mem _ hd)
    cases d with
    | loc size =>
      have hs : 0 < size := h (.loc size) (List.mem_cons_self ..)
      have := ih (alignDown (stack - size) size) hds
      have hle := alignDown_le (stack - size) size hs
      simp only [alloc, List.mem_cons, forall_eq_or_imp]
      refine ⟨by omega, ⟨this.1, by omega⟩, fun sl hsl => ?_⟩
      have := this.2 sl hsl
      omega
    | dict k v =>
      have := ih (alignDown (alignDown (stack - k) 8 - v) 8) hds
      have h1 := alignDown_le (stack - k) 8 (by omega)
      have h2 := alignDown_le (alignDown (stack - k) 8 - v) 8 (by omega)
      simp only [alloc, List.mem_cons, forall_eq_or_imp]
      refine ⟨by omega, ⟨by omega, by omega⟩, ⟨this.1, by omega⟩, fun sl hsl => ?_⟩
      have := this.2 sl hsl
      omega

/-- **declared variables never share a byte**: for every declaration list the slots are pairwise disjoint -/
theorem alloc_disjoint (ds : List Decl) (stack : Int) (h : ∀ d ∈ ds, sizeOk d) :
    (alloc stack ds).1.Pairwise Slot.disjoint := by
  induction ds generalizing stack with
  | nil => simp [alloc]
  | cons d ds ih =>
    have hds : ∀ d ∈ ds, sizeOk d := fun d hd => h d (List.mem_cons_of_mem _ hd)
    cases d with
    | loc size =>
      simp only [alloc, List.pairwise_cons]
      refine ⟨fun sl hsl => ?_, ih _ hds⟩
      have := (alloc_bounds ds (alignDown (stack - size) size) hds).2 sl hsl
      right; exact this.2
    | dict k v =>
      have hb := alloc_bounds ds (alignDown (alignDown (stack - k) 8 - v) 8) hds
      have h2 := alignDown_le (alignDown (stack - k) 8 - v) 8 (by omega)
      simp only [alloc, List.pairwise_cons, List.mem_cons, forall_eq_or_imp]
      refine ⟨⟨?_, fun sl hsl => ?_⟩, fun sl hsl => ?_, ih _ hds⟩
      · right; simp only; omega
      · right; have := (hb.2 sl hsl).2; simp only; omega
      · right; exact (hb.2 sl hsl).2

/-- local variables are aligned to their size (what XADD and the verifier need) -/
theorem alloc_aligned (stack : Int) (size : Nat) (ds : List Decl) :
    ((alloc stack (.loc size :: ds)).1.head?.map fun sl => sl.addr % (size : Int)) = some 0 := by
  simp [alloc, alignDown_mod]

/-- **temporaries never overlap a declared variable**: a `get_stack` temporary lies entirely below the
current stack value, hence below every slot allocated from any higher start -/
theorem temp_below (stack : Int) (size : Nat) (hs : 0 < size) :
    getStack stack size + size ≤ stack := by
  unfold getStack
  have := alignDown_le (stack - size) size hs
  omega

theorem temp_disjoint_from_locals (ds : List Decl) (start : Int) (size : Nat) (hs : 0 < size)
    (h : ∀ d ∈ ds, sizeOk d) :
    ∀ sl ∈ (alloc start ds).1, Slot.disjoint ⟨getStack (alloc start ds).2 size, size⟩ sl := by
  intro sl hsl
  have := (alloc_bounds ds start h).2 sl hsl
  have ht := temp_below (alloc start ds).2 size hs
  left; simp only; omega

/-- nested temporaries (LIFO) are disjoint from each other -/
theorem nested_temps_disjoint (stack : Int) (a b : Nat) (ha : 0 < a) (hb : 0 < b) :
    Slot.disjoint ⟨getStack (getStack stack a) b, b⟩ ⟨getStack stack a, a⟩ := by
  left; simp only; exact temp_below _ b hb

/-- full statement for subprograms: locals of different subprogram instances (and temporaries of the main
program) never share storage -/
def subprog_disjoint : Prop :=
  ∀ (mainStack : Int) (rel1 rel2 : Int) (s1 s2 : Nat), 0 < s1 → 0 < s2 → rel1 + s1 ≤ 0 → rel2 + s2 ≤ 0 →
    Slot.disjoint ⟨subAddr mainStack rel1, s1⟩ ⟨subAddr mainStack rel2, s2⟩

/-- **refuted**: every subprogram class lays its locals out from 0, and all instances are placed at the same base
`(main.stack & -8)`: the first 4-byte local of two subprograms is the same stack slot -/
theorem subprog_disjoint_refuted : ¬ subprog_disjoint := by
  intro h
  have := h (-12) (-4) (-4) 4 4 (by decide) (by decide) (by decide) (by decide)
  revert this
  decide

/-- **refuted**: a `get_stack` temporary of the main program overlaps a subprogram local (the main program's
`stack` does not account for subprogram frames) -/
theorem temp_vs_subprog_refuted :
    ¬ ∀ (mainStack : Int) (rel : Int) (s t : Nat), 0 < s → 0 < t → rel + s ≤ 0 →
      Slot.disjoint ⟨getStack mainStack t, t⟩ ⟨subAddr mainStack rel, s⟩ := by
  intro h
  have := h (-8) (-4) 4 4 (by decide) (by decide) (by decide)
  revert this
  decide

/-! ### variables (locals, Dict members, map cells): stores and non-interference -/

open Ebv.Bytes

def vsizeOk : VDecl → Prop
  | .loc s => 0 < s
  | .dict _ _ => True

theorem memberSlots_bounds (base : Int) : ∀ (ss : List Nat) (pos : Nat), ∀ sl ∈ memberSlots base pos ss,
    base + pos ≤ sl.addr ∧ sl.addr + sl.size ≤ base + pos + ss.sum
  | [], _, sl, h => by simp [memberSlots] at h
  | s :: ss, pos, sl, h => by
    simp only [memberSlots, List.mem_cons] at h
    rcases h with rfl | h
    · simp only [List.sum_cons]; omega
    · have := memberSlots_bounds base ss (pos + s) sl h
      simp only [List.sum_cons]; omega

theorem memberSlots_disjoint (base : Int) : ∀ (ss : List Nat) (pos : Nat), (memberSlots base pos ss).Pairwise Slot.disjoint
  | [], _ => by simp [memberSlots]
  | s :: ss, pos => by
    simp only [memberSlots, List.pairwise_cons]
    refine ⟨fun sl hsl => ?_, memberSlots_disjoint base ss (pos + s)⟩
    have := memberSlots_bounds base ss (pos + s) sl hsl
    left; simp only; omega

/-- every variable slot lies between the final and the initial stack value -/
theorem varSlots_bounds (ds : List VDecl) (stack : Int) (h : ∀ d ∈ ds, vsizeOk d) :
    (varSlots stack ds).2 ≤ stack ∧
    ∀ sl ∈ (varSlots stack ds).1, (varSlots stack ds).2 ≤ sl.addr ∧ sl.addr + sl.size ≤ stack := by
  induction ds generalizing stack with
  | nil => simp [varSlots]
  | cons d ds ih =>
    have hds : ∀ d ∈ ds, vsizeOk d := fun d hd => h d (List.mem_cons_of_mem _ hd)
    cases d with
    | loc size =>
      have hs : 0 < size := h (.loc size) (List.mem_cons_self ..)
      have := ih (alignDown (stack - size) size) hds
      have hle := alignDown_le (stack - size) size hs
      simp only [varSlots, List.mem_cons, forall_eq_or_imp]
      refine ⟨by omega, ⟨this.1, by omega⟩, fun sl hsl => ?_⟩
      have := this.2 sl hsl
      omega
    | dict k v =>
      have := ih (alignDown (alignDown (stack - k.sum) 8 - v.sum) 8) hds
      have h1 := alignDown_le (stack - k.sum) 8 (by omega)
      have h2 := alignDown_le (alignDown (stack - k.sum) 8 - v.sum) 8 (by omega)
      simp only [varSlots, List.mem_append]
      refine ⟨by omega, fun sl hsl => ?_⟩
      rcases hsl with (hk | hv) | hr
      · have := memberSlots_bounds _ k 0 sl hk; omega
      · have := memberSlots_bounds _ v 0 sl hv; omega
      · have := this.2 sl hr; omega

/-- **every two variables — locals and members of any Dict's key or value — have bytes of their own** -/
theorem varSlots_disjoint (ds : List VDecl) (stack : Int) (h : ∀ d ∈ ds, vsizeOk d) :
    (varSlots stack ds).1.Pairwise Slot.disjoint := by
  induction ds generalizing stack with
  | nil => simp [varSlots]
  | cons d ds ih =>
    have hds : ∀ d ∈ ds, vsizeOk d := fun d hd => h d (List.mem_cons_of_mem _ hd)
    cases d with
    | loc size =>
      simp only [varSlots, List.pairwise_cons]
      refine ⟨fun sl hsl => ?_, ih _ hds⟩
      have := (varSlots_bounds ds (alignDown (stack - size) size) hds).2 sl hsl
      right; exact this.2
    | dict k v =>
      have hb := varSlots_bounds ds (alignDown (alignDown (stack - k.sum) 8 - v.sum) 8) hds
      have h2 := alignDown_le (alignDown (stack - k.sum) 8 - v.sum) 8 (by omega)
      simp only [varSlots, List.pairwise_append, List.mem_append]
      refine ⟨⟨memberSlots_disjoint _ k 0, memberSlots_disjoint _ v 0, fun a ha b hb' => ?_⟩, ih _ hds, fun a ha b hb' => ?_⟩
      · have := memberSlots_bounds _ k 0 a ha
        have := memberSlots_bounds _ v 0 b hb'
        right; omega
      · have hbb := (hb.2 b hb').2
        rcases ha with ha | ha
        · have := memberSlots_bounds _ k 0 a ha; right; omega
        · have := memberSlots_bounds _ v 0 a ha; right; omega

theorem load_store_same (m : Mem) (a : Int) (bs : List UInt8) :
    loadBytes (storeBytes m a bs) ⟨a, bs.length⟩ = bs := by
  apply List.ext_getElem
  · simp [loadBytes]
  · intro i h1 h2
    simp only [loadBytes, List.getElem_map, List.getElem_range, storeBytes]
    have : a ≤ a + (i : Int) ∧ a + (i : Int) < a + bs.length := by omega
    rw [if_pos this]
    have e : (a + (i : Int) - a).toNat = i := by omega
    rw [e]
    simp [List.getD_eq_getElem?_getD, h2]

theorem load_store_disjoint (m : Mem) (a : Int) (bs : List UInt8) (sl : Slot)
    (h : Slot.disjoint ⟨a, bs.length⟩ sl) : loadBytes (storeBytes m a bs) sl = loadBytes m sl := by
  unfold loadBytes
  apply List.map_congr_left
  intro i hi
  have hi' : i < sl.size := by simpa using hi
  simp only [storeBytes]
  rw [if_neg]
  rcases h with h | h <;> simp only at h <;> omega

theorem temp_bytes_length (n : Nat) (bs : List UInt8) : ((bs ++ List.replicate n 0).take n).length = n := by
  simp [List.length_take, List.length_append, List.length_replicate]

/-- temporaries never reach a slot at or above the `stack` they are taken below -/
theorem writeTemps_above : ∀ (ts : List (Nat × List UInt8)) (_ : ∀ t ∈ ts, 0 < t.1) (stack : Int) (m : Mem) (sl : Slot),
    stack ≤ sl.addr → loadBytes (writeTemps stack ts m) sl = loadBytes m sl
  | [], _, _, _, _, _ => rfl
  | (n, bs) :: ts, hpos, stack, m, sl, h => by
    have hn : 0 < n := hpos (n, bs) (List.mem_cons_self ..)
    have hb := temp_below stack n hn
    simp only [writeTemps]
    rw [writeTemps_above ts (fun t ht => hpos t (List.mem_cons_of_mem _ ht)) _ _ sl (by omega)]
    apply load_store_disjoint
    left; simp only [temp_bytes_length]; omega

def Var.indep : Var → Var → Prop
  | .stack a, .stack b => Slot.disjoint a b
  | .cell i _, .cell j _ => i ≠ j
  | _, _ => True

theorem Var.indep_symm : ∀ (a b : Var), Var.indep a b → Var.indep b a
  | .stack _, .stack _, h => Or.symm h
  | .cell _ _, .cell _ _, h => Ne.symm h
  | .stack _, .cell _ _, _ => trivial
  | .cell _ _, .stack _, _ => trivial

theorem read_write_same (s : State) (v : Var) (x : Nat) : (s.write v x).read v = x % 256 ^ v.size := by
  cases v with
  | stack sl =>
    cases sl with
    | mk a n =>
      have h := load_store_same s.mem a (encLE n x)
      rw [length_encLE] at h
      simp only [State.write, State.read, Var.size, h, decLE_encLE_mod]
  | cell id n => simp [State.write, State.read, Var.size]

theorem read_write_indep (s : State) (v w : Var) (x : Nat) (h : Var.indep v w) : (s.write v x).read w = s.read w := by
  cases v with
  | stack a =>
    cases w with
    | stack b =>
      cases a with
      | mk aa an =>
        have h' : Slot.disjoint ⟨aa, (encLE an x).length⟩ b := by rw [length_encLE]; exact h
        simp only [State.write, State.read]
        rw [load_store_disjoint _ _ _ _ h']
    | cell j m => rfl
  | cell i n =>
    cases w with
    | stack b => rfl
    | cell j m =>
      have : j ≠ i := fun e => h e.symm
      simp [State.write, State.read, this]

def rhsOk (n : Nat) : Rhs → Prop
  | .const _ => True
  | .copy s _ => s < n
  | .sum a b => a < n ∧ b < n

/-- statements the theorem speaks about: operands are declared variables, temporaries have a size -/
def stmtOk (n : Nat) (st : Stmt) : Prop := rhsOk n st.rhs ∧ ∀ t ∈ st.temps, 0 < t.1

theorem evalRhs_congr (n : Nat) (f g : Nat → Nat) (h : ∀ i, i < n → f i = g i) : ∀ (r : Rhs), rhsOk n r → evalRhs f r = evalRhs g r
  | .const _, _ => rfl
  | .copy s _, hs => by simp [evalRhs, h s hs]
  | .sum a b, hab => by simp [evalRhs, h a hab.1, h b hab.2]

section Exec
variable (vars : List Var) (final : Int) (hp : vars.Pairwise Var.indep)
  (hb : ∀ sl, Var.stack sl ∈ vars → final ≤ sl.addr)
include hp hb

theorem execStmt_shadow (st : Stmt) (hok : stmtOk vars.length st) (s : State) (σ : Nat → Nat)
    (hinv : ∀ i v, vars[i]? = some v → s.read v = σ i) :
    ∀ i v, vars[i]? = some v → (execStmt vars final s st).read v = shadowStmt vars σ st i := by
  -- the temporaries leave every variable alone
  have h1 : ∀ i v, vars[i]? = some v → State.read { s with mem := writeTemps final st.temps s.mem } v = σ i := by
    intro i v hv
    rw [← hinv i v hv]
    cases v with
    | stack sl =>
      simp only [State.read]
      rw [writeTemps_above st.temps hok.2 final s.mem sl (hb sl (List.mem_of_getElem? hv))]
    | cell id n => rfl
  -- so the operands are read with their shadow values
  have hx : evalRhs (readVar vars { s with mem := writeTemps final st.temps s.mem }) st.rhs = evalRhs σ st.rhs := by
    apply evalRhs_congr vars.length _ _ _ _ hok.1
    intro i hi
    have : vars[i]? = some vars[i] := List.getElem?_eq_getElem hi
    simp only [readVar, this]
    exact h1 i _ this
  intro i w hw
  unfold execStmt shadowStmt
  cases ht : st.target with
  | none => simpa [ht] using h1 i w hw
  | some t =>
    cases hv : vars[t]? with
    | none => simpa [ht, hv] using h1 i w hw
    | some v =>
      simp only [Option.bind_some, hv]
      by_cases hit : i = t
      · subst hit
        have : w = v := by rw [hw] at hv; exact Option.some.inj hv
        subst this
        rw [read_write_same, if_pos rfl, hx]
      · simp only [hit, if_false]
        rw [read_write_indep _ _ _ _ ?_]
        · exact h1 i w hw
        · obtain ⟨hi, rfl⟩ := List.getElem?_eq_some_iff.mp hw
          obtain ⟨ht', rfl⟩ := List.getElem?_eq_some_iff.mp hv
          rcases Nat.lt_or_gt_of_ne hit with hlt | hgt
          · exact Var.indep_symm _ _ (List.pairwise_iff_getElem.mp hp i t hi ht' hlt)
          · exact List.pairwise_iff_getElem.mp hp t i ht' hi hgt

/-- **exec_shadow**: any list of statements run on the frame (with whatever temporaries) leaves every variable with
the value the shadow store predicts — the target of each statement takes the value, no other variable ever changes. -/
theorem exec_shadow : ∀ (sts : List Stmt), (∀ st ∈ sts, stmtOk vars.length st) → ∀ (s : State) (σ : Nat → Nat),
    (∀ i v, vars[i]? = some v → s.read v = σ i) →
    ∀ i v, vars[i]? = some v → (execAll vars final s sts).read v = shadowAll vars σ sts i
  | [], _, s, σ, hinv => hinv
  | st :: sts, hok, s, σ, hinv => by
    simp only [execAll, shadowAll]
    exact exec_shadow sts (fun x hx => hok x (List.mem_cons_of_mem _ hx)) _ _
      (execStmt_shadow vars final hp hb st (hok st (List.mem_cons_self ..)) s σ hinv)

end Exec

/-- the variables of a program: the stack variables of its declarations, then map cells with distinct ids -/
def progVars (start : Int) (ds : List VDecl) (cells : List (Nat × Nat)) : List Var :=
  (varSlots start ds).1.map Var.stack ++ cells.map fun c => Var.cell c.1 c.2

theorem progVars_indep (start : Int) (ds : List VDecl) (cells : List (Nat × Nat)) (h : ∀ d ∈ ds, vsizeOk d)
    (hc : (cells.map Prod.fst).Nodup) : (progVars start ds cells).Pairwise Var.indep := by
  unfold progVars
  rw [List.pairwise_append]
  refine ⟨?_, ?_, ?_⟩
  · rw [List.pairwise_map]; exact varSlots_disjoint ds start h
  · rw [List.pairwise_map]
    have := List.pairwise_map.mp hc
    exact this.imp (fun h => h)
  · intro a ha b hb
    obtain ⟨sl, _, rfl⟩ := List.mem_map.mp ha
    obtain ⟨c, _, rfl⟩ := List.mem_map.mp hb
    trivial

/-- **noninterference** (C04 on the model): for every declaration list (locals of all sizes, Dicts with any key /
value member lists — the same member lists may be used by several Dicts), every set of map cells and every statement
list, each variable ends with the value of the shadow store: assigning a variable or evaluating an expression, with
any `get_stack` temporaries, changes no other declared variable. -/
theorem noninterference (start : Int) (ds : List VDecl) (cells : List (Nat × Nat)) (h : ∀ d ∈ ds, vsizeOk d)
    (hc : (cells.map Prod.fst).Nodup) (sts : List Stmt) (hok : ∀ st ∈ sts, stmtOk (progVars start ds cells).length st)
    (s : State) (i : Nat) (v : Var) (hv : (progVars start ds cells)[i]? = some v) :
    (execAll (progVars start ds cells) (varSlots start ds).2 s sts).read v
      = shadowAll (progVars start ds cells) (readVar (progVars start ds cells) s) sts i := by
  apply exec_shadow (progVars start ds cells) (varSlots start ds).2 (progVars_indep start ds cells h hc) _ sts hok s _ _ i v hv
  · intro sl hsl
    unfold progVars at hsl
    rcases List.mem_append.mp hsl with h1 | h1
    · obtain ⟨sl', hs', e⟩ := List.mem_map.mp h1
      cases e
      exact ((varSlots_bounds ds start h).2 _ hs').1
    · obtain ⟨c, _, e⟩ := List.mem_map.mp h1
      cases e
  · intro j w hw
    simp [readVar, hw]

/-! ### several main programs sharing subprogram classes

A `SubProgram` class lays its locals out from 0 when the class is created (`relSlots`); where they are on the
stack is decided when an address is used, from the main program the instance belongs to:
`(instance.ebpf.stack & -8) + relative_addr`.  A process holds any number of main programs, built one after the
other, whose subprogram instances may be of the same classes.  Nothing in the rule refers to another main program
or to an earlier use: the address of a subprogram local is a function of the frame of its own main program. -/

/-- the frame of a subprogram class, relative to its base: slots of `alloc` from 0 -/
def relSlots (locals : List Nat) : List Slot := (alloc 0 (locals.map Decl.loc)).1

/-- one main program of the process: its declarations and the classes (numbers) of its subprogram instances -/
structure Main where
  decls : List VDecl
  subs : List Nat

/-- the processes' programs: the subprogram classes (shared) and the main programs, in the order they were built -/
structure World where
  classes : List (List Nat)
  mains : List Main

def Main.final (m : Main) : Int := (varSlots 0 m.decls).2

/-- the slots of the locals of all subprogram instances of a main program, as the generated code addresses them -/
def World.subSlots (w : World) (m : Main) : List Slot :=
  m.subs.flatMap fun c => (relSlots (w.classes.getD c [])).map fun r => ⟨subAddr m.final r.addr, r.size⟩

theorem relSlots_below (locals : List Nat) (h : ∀ n ∈ locals, 0 < n) : ∀ r ∈ relSlots locals, r.addr + r.size ≤ 0 := by
  intro r hr
  have hs : ∀ d ∈ locals.map Decl.loc, sizeOk d := by
    intro d hd
    obtain ⟨n, hn, rfl⟩ := List.mem_map.mp hd
    exact h n hn
  exact ((alloc_bounds _ 0 hs).2 r hr).2

/-- **a subprogram local lies below every variable of its main program**: wherever the frame of the main program
ends, a slot of the subprogram frame (relative address + size ≤ 0) placed at `(final & -8) + rel` ends at or below it -/
theorem sub_below_main (ds : List VDecl) (start : Int) (h : ∀ d ∈ ds, vsizeOk d) (rel : Int) (size : Nat)
    (hrel : rel + size ≤ 0) :
    ∀ sl ∈ (varSlots start ds).1, Slot.disjoint ⟨subAddr (varSlots start ds).2 rel, size⟩ sl := by
  intro sl hsl
  have hb := ((varSlots_bounds ds start h).2 sl hsl).1
  have ha := alignDown_le (varSlots start ds).2 8 (by omega)
  left
  simp only [subAddr]
  omega

/-- **instances are independent** (C04 for any number of main programs): in every world - any subprogram classes,
any main programs, any sharing of classes between them, any order of creation - the locals of the subprogram
instances of a main program share no byte with the variables (locals, Dict members) of that main program.  The
statement is about each main program by itself: its own declarations decide, no other program of the world does. -/
theorem world_sub_disjoint (w : World) (hc : ∀ c ∈ w.classes, ∀ n ∈ c, 0 < n) (m : Main) (_hm : m ∈ w.mains)
    (hd : ∀ d ∈ m.decls, vsizeOk d) :
    ∀ s ∈ w.subSlots m, ∀ sl ∈ (varSlots 0 m.decls).1, Slot.disjoint s sl := by
  intro s hs sl hsl
  obtain ⟨c, _, hs⟩ := List.mem_flatMap.mp hs
  obtain ⟨r, hr, rfl⟩ := List.mem_map.mp hs
  have hpos : ∀ n ∈ w.classes.getD c [], 0 < n := by
    intro n hn
    by_cases hlt : c < w.classes.length
    · have e : w.classes.getD c [] = w.classes[c] := by simp [List.getD_eq_getElem?_getD, hlt]
      rw [e] at hn
      exact hc _ (List.getElem_mem hlt) n hn
    · have e : w.classes.getD c [] = [] := by simp [List.getD_eq_getElem?_getD, Nat.le_of_not_lt hlt]
      rw [e] at hn
      cases hn
  exact sub_below_main m.decls 0 hd r.addr r.size (relSlots_below _ hpos r hr) sl hsl

/-- the address of a subprogram local does not depend on the world around its main program -/
theorem world_sub_local (w₁ w₂ : World) (m : Main) (h : w₁.classes = w₂.classes) : w₁.subSlots m = w₂.subSlots m := by
  unfold World.subSlots; rw [h]

/-- the seeded-change scenario on the model: class `[4]` used by a small and then by a large main program - in
each, the subprogram's local is below the main program's own variables -/
example : (⟨[[4]], [⟨[.loc 4], [0]⟩, ⟨[.loc 8, .loc 8, .loc 8], [0]⟩]⟩ : World).subSlots ⟨[.loc 8, .loc 8, .loc 8], [0]⟩
    = [⟨-28, 4⟩] := by decide
example : (⟨[[4]], [⟨[.loc 4], [0]⟩, ⟨[.loc 8, .loc 8, .loc 8], [0]⟩]⟩ : World).subSlots ⟨[.loc 4], [0]⟩ = [⟨-12, 4⟩] := by decide

/-! ### non-vacuity -/
example : (alloc 0 [.loc 4, .loc 1, .loc 8, .dict 15 13, .loc 2]).1 =
    [⟨-4, 4⟩, ⟨-5, 1⟩, ⟨-16, 8⟩, ⟨-32, 15⟩, ⟨-48, 13⟩, ⟨-50, 2⟩] := by decide

/-- two Dicts declared with the same key and value member lists still have members of their own -/
example : (varSlots 0 [.loc 4, .dict [4] [8, 4], .dict [4] [8, 4]]).1 =
    [⟨-4, 4⟩, ⟨-8, 4⟩, ⟨-24, 8⟩, ⟨-16, 4⟩, ⟨-32, 4⟩, ⟨-48, 8⟩, ⟨-40, 4⟩] := by decide

def exVars : List Var := progVars 0 [.loc 4, .dict [4] [8, 4], .dict [4] [8, 4]] [(0, 8)]

example : stmtOk exVars.length ⟨some 4, .copy 1 1, [(4, [1])]⟩ := ⟨by show 1 < exVars.length; decide, by decide⟩

/-- `d1.key.m0 = 7; d2.key.m0 = d1.key.m0 + 2 (with a temporary); cell = d2.key.m0 + d1.key.m0`, then all are read -/
example : (List.range exVars.length).map (readVar exVars
    (execAll exVars (varSlots 0 [.loc 4, .dict [4] [8, 4], .dict [4] [8, 4]]).2 ⟨fun _ => 0, fun _ => 0⟩
      [⟨some 1, .const 7, []⟩, ⟨some 4, .copy 1 2, [(4, [1])]⟩, ⟨some 7, .sum 4 1, []⟩, ⟨none, .const 0, [(8, [])]⟩]))
    = [0, 7, 0, 0, 9, 0, 0, 16] := by decide +kernel

end Ebv.C04
