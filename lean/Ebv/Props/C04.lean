import Ebv.Model.Stack
/-! C04 — writing one variable never changes another: the layout part (which bytes belong to which
variable / temporary).  That the code emitted for an assignment stores only into the destination's
range is the frame condition of C01's `assign_correct`. -/
namespace Ebv.C04
open Ebv.Stack

theorem alignDown_le (x : Int) (s : Nat) (hs : 0 < s) : alignDown x s ≤ x := by
  unfold alignDown
  have : 0 ≤ x % (s : Int) := Int.emod_nonneg _ (by omega)
  omega

theorem alignDown_gt (x : Int) (s : Nat) (hs : 0 < s) : x - s < alignDown x s := by
  unfold alignDown
  have : x % (s : Int) < s := Int.emod_lt_of_pos _ (by omega)
  omega

theorem alignDown_mod (x : Int) (s : Nat) : alignDown x s % (s : Int) = 0 := by
  unfold alignDown
  rw [Int.sub_emod, Int.emod_emod_of_dvd _ (Int.dvd_refl _), Int.sub_self, Int.zero_emod]

def sizeOk : Decl → Prop
  | .loc s => 0 < s
  | .dict _ _ => True

/-- every slot lies between the final and the initial stack value -/
theorem alloc_bounds (ds : List Decl) (stack : Int) (h : ∀ d ∈ ds, sizeOk d) :
    (alloc stack ds).2 ≤ stack ∧
    ∀ sl ∈ (alloc stack ds).1, (alloc stack ds).2 ≤ sl.addr ∧ sl.addr + sl.size ≤ stack := by
  induction ds generalizing stack with
  | nil => simp [alloc]
  | cons d ds ih =>
    have hds : ∀ d ∈ ds, sizeOk d := fun d hd => h d (List.mem_cons_of_mem _ hd)
    cases d with
    | loc size =>
      have hs : 0 < size := h (.loc size) (List.mem_cons_self ..)
      have := ih (alignDown (stack - size) size) hds
      have hle := alignDown_le (stack - size) size hs
      simp only [alloc, List.mem_cons, forall_eq_or_imp]
      refine ⟨by omega, ⟨this.1, by omega⟩, fun sl hsl => ?_⟩
      have := this.2 sl hsl
      omega
    | dict k v =>
      have := ih (alignDown (alignDown (stack - k) 8 - v) 8) hds
      have h1 := alignDown_le (stack - k) 8 (by omega)
      have h2 := alignDown_le (alignDown (stack - k) 8 - v) 8 (by omega)
      simp only [alloc, List.mem_cons, forall_eq_or_imp]
      refine ⟨by omega, ⟨by omega, by omega⟩, ⟨this.1, by omega⟩, fun sl hsl => ?_⟩
      have := this.2 sl hsl
      omega

/-- **declared variables never share a byte**: for every declaration list the slots are pairwise disjoint -/
theorem alloc_disjoint (ds : List Decl) (stack : Int) (h : ∀ d ∈ ds, sizeOk d) :
    (alloc stack ds).1.Pairwise Slot.disjoint := by
  induction ds generalizing stack with
  | nil => simp [alloc]
  | cons d ds ih =>
    have hds : ∀ d ∈ ds, sizeOk d := fun d hd => h d (List.mem_cons_of_mem _ hd)
    cases d with
    | loc size =>
      simp only [alloc, List.pairwise_cons]
      refine ⟨fun sl hsl => ?_, ih _ hds⟩
      have := (alloc_bounds ds (alignDown (stack - size) size) hds).2 sl hsl
      right; exact this.2
    | dict k v =>
      have hb := alloc_bounds ds (alignDown (alignDown (stack - k) 8 - v) 8) hds
      have h2 := alignDown_le (alignDown (stack - k) 8 - v) 8 (by omega)
      simp only [alloc, List.pairwise_cons, List.mem_cons, forall_eq_or_imp]
      refine ⟨⟨?_, fun sl hsl => ?_⟩, fun sl hsl => ?_, ih _ hds⟩
      · right; simp only; omega
      · right; have := (hb.2 sl hsl).2; simp only; omega
      · right; exact (hb.2 sl hsl).2

/-- local variables are aligned to their size (what XADD and the verifier need) -/
theorem alloc_aligned (stack : Int) (size : Nat) (ds : List Decl) :
    ((alloc stack (.loc size :: ds)).1.head?.map fun sl => sl.addr % (size : Int)) = some 0 := by
  simp [alloc, alignDown_mod]

/-- **temporaries never overlap a declared variable**: a `get_stack` temporary lies entirely below the
current stack value, hence below every slot allocated from any higher start -/
theorem temp_below (stack : Int) (size : Nat) (hs : 0 < size) :
    getStack stack size + size ≤ stack := by
  unfold getStack
  have := alignDown_le (stack - size) size hs
  omega

theorem temp_disjoint_from_locals (ds : List Decl) (start : Int) (size : Nat) (hs : 0 < size)
    (h : ∀ d ∈ ds, sizeOk d) :
    ∀ sl ∈ (alloc start ds).1, Slot.disjoint ⟨getStack (alloc start ds).2 size, size⟩ sl := by
  intro sl hsl
  have := (alloc_bounds ds start h).2 sl hsl
  have ht := temp_below (alloc start ds).2 size hs
  left; simp only; omega

/-- nested temporaries (LIFO) are disjoint from each other -/
theorem nested_temps_disjoint (stack : Int) (a b : Nat) (ha : 0 < a) (hb : 0 < b) :
    Slot.disjoint ⟨getStack (getStack stack a) b, b⟩ ⟨getStack stack a, a⟩ := by
  left; simp only; exact temp_below _ b hb

/-- full statement for subprograms: locals of different subprogram instances (and temporaries of the main
program) never share storage -/
def subprog_disjoint : Prop :=
  ∀ (mainStack : Int) (rel1 rel2 : Int) (s1 s2 : Nat), 0 < s1 → 0 < s2 → rel1 + s1 ≤ 0 → rel2 + s2 ≤ 0 →
    Slot.disjoint ⟨subAddr mainStack rel1, s1⟩ ⟨subAddr mainStack rel2, s2⟩

/-- **refuted**: every subprogram class lays its locals out from 0, and all instances are placed at the same base
`(main.stack & -8)`: the first 4-byte local of two subprograms is the same stack slot -/
theorem subprog_disjoint_refuted : ¬ subprog_disjoint := by
  intro h
  have := h (-12) (-4) (-4) 4 4 (by decide) (by decide) (by decide) (by decide)
  revert this
  decide

/-- **refuted**: a `get_stack` temporary of the main program overlaps a subprogram local (the main program's
`stack` does not account for subprogram frames) -/
theorem temp_vs_subprog_refuted :
    ¬ ∀ (mainStack : Int) (rel : Int) (s t : Nat), 0 < s → 0 < t → rel + s ≤ 0 →
      Slot.disjoint ⟨getStack mainStack t, t⟩ ⟨subAddr mainStack rel, s⟩ := by
  intro h
  have := h (-8) (-4) 4 4 (by decide) (by decide) (by decide)
  revert this
  decide

/-! ### non-vacuity -/
example : (alloc 0 [.loc 4, .loc 1, .loc 8, .dict 15 13, .loc 2]).1 =
    [⟨-4, 4⟩, ⟨-5, 1⟩, ⟨-16, 8⟩, ⟨-32, 15⟩, ⟨-48, 13⟩, ⟨-50, 2⟩] := by decide

end Ebv.C04
