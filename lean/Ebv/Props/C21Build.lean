import Ebv.Model.FastGroup
/-! C21, user-space side: the writers a group's program activates are the write datagrams of the group's **own** layout.

`build_writers`: for every datagram list, the packet built for it (a new `SterilePacket`, then `append` / `append_writer`
in order) records exactly the declared write datagrams — positions from the datagram sizes, commands, and the expected
counter of each — so `activate` compiles exactly those and `sterile` disables exactly those.  Packets are built from
`Pkt.empty`, so any number of groups built in one process are independent (`process_independent`); a packet that
started from a list shared with an earlier packet is not (`shared_list_breaks`). -/
namespace Ebv.C21
open Ebv.FastGroup Ebv.Consts

/-- every recorded position lies inside the packet built so far -/
structure Bounded (p : Pkt) : Prop where
  keys : ∀ kv ∈ p.counters, kv.1 + DATAGRAM_TAIL ≤ p.size
  stops : ∀ e ∈ p.onTheFly, e.2.1 ≤ p.size ∧ DATAGRAM_TAIL ≤ e.2.1

theorem counterAt_add_old (p : Pkt) (d : Dgram) (pos : Nat) (h : pos + DATAGRAM_TAIL ≤ p.size) :
    (p.add d).counterAt pos = p.counterAt pos := by
  have hne : (pos == p.size + DATAGRAM_HEADER + d.len + DATAGRAM_TAIL - DATAGRAM_TAIL) = false := by
    simp only [DATAGRAM_TAIL, DATAGRAM_HEADER] at h ⊢
    simp; omega
  simp only [Pkt.counterAt, Pkt.add, List.reverse_append, List.reverse_cons, List.reverse_nil, List.nil_append,
    List.singleton_append, List.lookup_cons, hne]

theorem counterAt_add_new (p : Pkt) (d : Dgram) :
    (p.add d).counterAt (p.size + DATAGRAM_HEADER + d.len + DATAGRAM_TAIL - DATAGRAM_TAIL) = some d.counter := by
  simp [Pkt.counterAt, Pkt.add]

theorem writerOf_add_old (p : Pkt) (d : Dgram) (e : Nat × Nat × Nat) (h : e.2.1 ≤ p.size ∧ DATAGRAM_TAIL ≤ e.2.1) :
    (p.add d).writerOf e = p.writerOf e := by
  simp only [Pkt.writerOf]
  rw [counterAt_add_old p d _ (by omega)]

theorem mapM_congr_mem {α β} (f g : α → Option β) (l : List α) (h : ∀ a ∈ l, f a = g a) : l.mapM f = l.mapM g := by
  induction l with
  | nil => rfl
  | cons a l ih =>
    simp only [List.mapM_cons]
    rw [h a (by simp), ih (fun b hb => h b (by simp [hb]))]

theorem bounded_add (p : Pkt) (d : Dgram) (h : Bounded p) : Bounded (p.add d) := by
  refine ⟨?_, ?_⟩
  · intro kv hkv
    simp only [Pkt.add, List.mem_append, List.mem_singleton] at hkv
    rcases hkv with hkv | rfl
    · have := h.keys kv hkv
      simp only [Pkt.add]; omega
    · simp only [Pkt.add, DATAGRAM_TAIL]; omega
  · intro e he
    simp only [Pkt.add] at he ⊢
    split at he
    · simp only [List.mem_append, List.mem_singleton] at he
      rcases he with he | rfl
      · have := h.stops e he; omega
      · simp only [DATAGRAM_TAIL]; omega
    · have := h.stops e he; omega

/-- one more datagram: the writers so far stay, the new datagram is added iff it was appended as a writer -/
theorem writers_add (p : Pkt) (d : Dgram) (W : List Writer) (hb : Bounded p) (hw : p.writers = some W) :
    (p.add d).writers = some (W ++ declaredFrom p.size [d]) := by
  have hold : p.onTheFly.mapM (p.add d).writerOf = some W := by
    rw [mapM_congr_mem _ p.writerOf _ (fun e he => writerOf_add_old p d e (hb.stops e he))]
    exact hw
  cases hd : d.writer with
  | false =>
    have : (p.add d).onTheFly = p.onTheFly := by simp [Pkt.add, hd]
    simp [Pkt.writers, this, hold, declaredFrom, hd]
  | true =>
    have : (p.add d).onTheFly = p.onTheFly ++ [(p.size, p.size + DATAGRAM_HEADER + d.len + DATAGRAM_TAIL, d.cmd)] := by
      simp [Pkt.add, hd]
    simp only [Pkt.writers, this, List.mapM_append, hold, List.mapM_cons, List.mapM_nil, Pkt.writerOf, counterAt_add_new,
      declaredFrom, hd]
    simp

theorem writers_buildFrom (ds : List Dgram) : ∀ (p : Pkt) (W : List Writer), Bounded p → p.writers = some W →
    (buildFrom p ds).writers = some (W ++ declaredFrom p.size ds) ∧ Bounded (buildFrom p ds) := by
  induction ds with
  | nil => intro p W hb hw; simp [buildFrom, declaredFrom, hw, hb]
  | cons d ds ih =>
    intro p W hb hw
    have h1 := writers_add p d W hb hw
    obtain ⟨h2, h3⟩ := ih (p.add d) _ (bounded_add p d hb) h1
    refine ⟨?_, h3⟩
    simp only [buildFrom, List.foldl_cons] at h2 ⊢
    rw [h2]
    simp [declaredFrom, Pkt.add, List.append_assoc]

theorem bounded_empty : Bounded Pkt.empty := ⟨by simp [Pkt.empty], by simp [Pkt.empty]⟩

/-- **the writers of a group's packet are the declared write datagrams of its own layout**, for every layout -/
theorem build_writers (ds : List Dgram) : (build ds).writers = some (declared ds) := by
  have := (writers_buildFrom ds Pkt.empty [] bounded_empty (by simp [Pkt.writers, Pkt.empty])).1
  simpa [build, declared, Pkt.empty] using this

/-- … and `sterile` disables exactly their command bytes -/
theorem build_starts (ds : List Dgram) : (build ds).starts.map (· + ETHERNET_HEADER) = (declared ds).map (·.cmdPos) := by
  have h := build_writers ds
  simp only [Pkt.writers] at h
  simp only [Pkt.starts]
  generalize (build ds).onTheFly = l at h ⊢
  generalize declared ds = W at h ⊢
  induction l generalizing W with
  | nil => simp at h; subst h; rfl
  | cons e l ih =>
    simp only [List.mapM_cons] at h
    cases h1 : (build ds).writerOf e with
    | none => simp [h1] at h
    | some w =>
      cases h2 : l.mapM (build ds).writerOf with
      | none => simp [h1, h2] at h
      | some W' =>
        simp [h1, h2] at h
        subst h
        have hw : w.cmdPos = e.1 + ETHERNET_HEADER := by
          simp only [Pkt.writerOf, Option.map_eq_some_iff] at h1
          obtain ⟨c, _, rfl⟩ := h1
          rfl
        simp [hw, ih W' h2]

/-- groups built one after another in one process: each packet is that of its own layout, whatever was built before -/
theorem process_independent (ls : List (List Dgram)) :
    (ls.map build).map Pkt.writers = ls.map fun ds => some (declared ds) := by
  simp [List.map_map, Function.comp_def, build_writers]

/-- non-vacuity, and what a list shared between packets does: the second packet of a process — one FPWR datagram with two
data bytes — inherits the write datagram of the first (four data bytes); generating its program looks up a counter at a
position of the other packet (KeyError), and with a layout that happens to have that position the foreign datagram would
be activated -/
def dsA : List Dgram := [⟨true, 5, 4, 1⟩]
def dsB : List Dgram := [⟨false, 4, 6, 1⟩, ⟨true, 5, 2, 1⟩]

theorem shared_list_breaks :
    (build dsB).writers = some [⟨34 + 14, 34 + 14 + 12, 5, 1⟩] ∧ declared dsB = [⟨34 + 14, 34 + 14 + 12, 5, 1⟩] ∧
    (buildFrom { Pkt.empty with onTheFly := (build dsA).onTheFly } dsB).writers = none ∧
    (buildFrom { Pkt.empty with onTheFly := (build dsA).onTheFly } dsB).starts = [16, 34] ∧ (build dsB).starts = [34] := by
  decide

end Ebv.C21
