import Ebv.Props.C30
/-! C30, the group started again.  A `SyncGroup` object may run, stop and be started again after its terminals were
configured differently (other process-data sizes, other addressing: another frame layout, other counter positions and
expectations).  Whatever the earlier runs were — any layouts, any events — the latest run is the run of a fresh group
with the layout of **now**; only `missed_counter` adds up.  All theorems of `Ebv.Props.C30` are about `run cfg asm evs`
and therefore hold for every run of a group's life (`restart_*` below spell out the ones the property names). -/
namespace Ebv.C30
open Ebv.SlowCycle Ebv.Bytes

/-- everything but `missed_counter` -/
def coreOf (s : St) : Frame × Nat × Nat × Frame × List Frame × List (List (List Nat)) :=
  (s.cur, s.errors, s.cycle, s.last, s.sent, s.seen)

theorem step_missed_shift (cfg : Cfg) (st : St) (m : Nat) (e : Ev) :
    step cfg { st with missed := st.missed + m } e = { step cfg st e with missed := (step cfg st e).missed + m } := by
  cases e with
  | resp data => simp [step, updateDevices]
  | timeout => simp [step]; omega

theorem runFrom_missed_shift (cfg : Cfg) (evs : List Ev) : ∀ (st : St) (m : Nat),
    runFrom cfg { st with missed := st.missed + m } evs = { runFrom cfg st evs with missed := (runFrom cfg st evs).missed + m } := by
  induction evs with
  | nil => intro st m; rfl
  | cons e evs ih =>
    intro st m
    simp only [runFrom, List.foldl_cons] at ih ⊢
    rw [step_missed_shift, ih]

/-- a run after a restart is the run of a fresh group on the present layout, with the earlier timeouts added to
`missed_counter` -/
theorem run_after_restart (prev : St) (r : Run) :
    runFrom r.cfg (restart prev r.asm) r.evs = { run r.cfg r.asm r.evs with missed := (run r.cfg r.asm r.evs).missed + prev.missed } := by
  have h := runFrom_missed_shift r.cfg r.evs (init r.asm) prev.missed
  have h0 : ({ init r.asm with missed := (init r.asm).missed + prev.missed } : St) = restart prev r.asm := by
    simp [restart, init]
  rw [h0] at h
  exact h

def missedOf (hist : List Run) : Nat := (hist.map fun r => timeouts r.evs).sum

theorem lifeFrom_missed (hist : List Run) : ∀ prev : St, (lifeFrom prev hist).missed = prev.missed + missedOf hist := by
  induction hist with
  | nil => intro prev; simp [lifeFrom, missedOf]
  | cons r rs ih =>
    intro prev
    simp only [lifeFrom]
    rw [ih, run_after_restart]
    have := (error_iff_mismatch (cfg := r.cfg) r.asm r.evs).2
    simp only [missedOf, List.map_cons, List.sum_cons] at this ⊢
    omega

theorem lifeFrom_append (h1 h2 : List Run) (prev : St) : lifeFrom prev (h1 ++ h2) = lifeFrom (lifeFrom prev h1) h2 := by
  induction h1 generalizing prev with
  | nil => rfl
  | cons r rs ih => simp [lifeFrom, ih]

/-- **invariance under restart**: frames sent, values seen, process image, `wkc_errors` of the latest run do not depend
on the group's earlier runs -/
theorem restart_invariant (hist : List Run) (r : Run) :
    coreOf (runAfter hist r) = coreOf (run r.cfg r.asm r.evs) ∧
    (runAfter hist r).missed = missedOf hist + timeouts r.evs := by
  unfold runAfter
  rw [lifeFrom_append]
  simp only [lifeFrom]
  rw [run_after_restart]
  refine ⟨rfl, ?_⟩
  simp only []
  rw [lifeFrom_missed, (error_iff_mismatch (cfg := r.cfg) r.asm r.evs).2]
  simp [init]; omega

/-- **errors after a restart**: exactly the datagrams whose returned counter differs from what the layout of *now*
expects, at the positions of *now* -/
theorem restart_error_iff_mismatch (hist : List Run) (r : Run) :
    (runAfter hist r).errors = initialErrors + ((resps r.evs).map (mismatches r.cfg.counters)).sum := by
  have h := (restart_invariant hist r).1
  have : (runAfter hist r).errors = (run r.cfg r.asm r.evs).errors := by
    have := congrArg (fun t => t.2.1) h
    simpa [coreOf] using this
  rw [this, (error_iff_mismatch (cfg := r.cfg) r.asm r.evs).1]

/-- **inputs after a restart**: devices read the bytes of the latest response at the positions of *now* -/
theorem restart_inputs_visible {L : Nat} (hist : List Run) (r : Run) (hlay : Layout r.cfg L) (hlen : RespLen L r.evs) :
    (runAfter hist r).seen = (resps r.evs).map (fun data => r.cfg.devs.map (fun d => d.ins.map (·.get data))) := by
  have h := (restart_invariant hist r).1
  have : (runAfter hist r).seen = (run r.cfg r.asm r.evs).seen := by
    have := congrArg (fun t => t.2.2.2.2.2) h
    simpa [coreOf] using this
  rw [this, inputs_visible_run hlay r.asm r.evs hlen]

/-- **counters cleared after a restart**: the frames of the latest run are those of a fresh group, so every frame sent
after a processed response has the counters of the layout of *now* cleared -/
theorem restart_sent (hist : List Run) (r : Run) : (runAfter hist r).sent = (run r.cfg r.asm r.evs).sent := by
  have h := (restart_invariant hist r).1
  have := congrArg (fun t => t.2.2.2.2.1) h
  simpa [coreOf] using this

/-- non-vacuity, and what a counter table kept from the first run does: the group of the example first ran with its
counters at 10 and 20, then its layout changed (counters at 8 and 18; the same response bytes).  The present run counts
by the present table; a run with the table of the first start (`exCfg`) on the new frames counts otherwise and leaves
the new counter fields uncleared. -/
def exCfg2 : Cfg := { counters := [(8, 1), (18, 2)], devs := [] }
def exAsm2 : Frame := [0,0,0,0, 0,0,0,0, 1,0, 0,0, 0,0, 0,0,0,0, 2,0, 0,0, 0,0]
def exResp3 : Frame := [0,0,0,0, 0,0,0,0, 1,0, 7,7, 0,0, 0,0,0,0, 2,0, 0,0, 0,0]

theorem restart_witness :
    (runAfter [⟨exCfg, exAsm, exEvs⟩] ⟨exCfg2, exAsm2, [.resp exResp3]⟩).errors = 1 ∧
    (runAfter [⟨exCfg, exAsm, exEvs⟩] ⟨exCfg2, exAsm2, [.resp exResp3]⟩).missed = 2 ∧
    (runAfter [⟨exCfg, exAsm, exEvs⟩] ⟨exCfg2, exAsm2, [.resp exResp3]⟩).sent.getLast? =
      some [0,0,0,0, 0,0,0,0, 0,0, 7,7, 0,0, 0,0,0,0, 0,0, 0,0, 0,0] ∧
    (run { exCfg2 with counters := exCfg.counters } exAsm2 [.resp exResp3]).errors = 1 + 2 ∧
    (run { exCfg2 with counters := exCfg.counters } exAsm2 [.resp exResp3]).sent.getLast? =
      some [0,0,0,0, 0,0,0,0, 1,0, 0,0, 0,0, 0,0,0,0, 2,0, 0,0, 0,0] := by
  decide

end Ebv.C30
