import Ebv.Model.GenFixed
import Ebv.Lemmas.FloatDec
/-! # C02 — fixed-point arithmetic follows the per-100000 decimal semantics (work in progress) -/
namespace Ebv.C02
open Ebv.Ebpf Ebv.Gen Ebv.GenFixed Ebv.F64

/-- **C02_const**: every decimal `d = n / 10^5` with `|n| < 2^51` is stored as exactly `n` -/
theorem C02_const (n : Int) (h : n.natAbs < 2 ^ 51) : decConst n = n := by
  unfold decConst sgn
  rcases Nat.eq_zero_or_pos n.natAbs with h0 | h0
  · have : n = 0 := by omega
    subst this; decide
  · rw [decConstAbs_eq _ h0 h]
    split <;> omega

end Ebv.C02
