import Ebv.Props.C01
import Ebv.Lemmas.FixedHomo
import Ebv.Lemmas.FixedElab
/-! # C02 — fixed-point arithmetic follows the per-100000 decimal semantics

Model: `Ebv.GenFixed` on top of `Ebv.Gen` (tied to ebpfcat/ebpf.py by exact opcode-list correspondence,
harness/vh/props/c02.py), float conversion `Ebv.F64` (validated against CPython by a sweep).  Proof chain:

* `elabF_rep` (= `fx_typing`, Lemmas/FixedElab.lean): induction over surface expressions, over ℤ/ℚ, all signs — the
  operator overloads insert exactly the scale factors that make C01's integer semantics `evalZ` of the built tree equal
  the exact rational value `semQ` (every operation's exact result dropped by floor), times `10^5` iff typed fixed;
* `evalBV_eq_evalZ_fx` (Lemmas/FixedHomo.lean): the unsigned `DIV`/`MOD` compute `//`, `%` for non-negative operands
  that fit the width; with C01's `calc_correct` (through `setReg_correct`/`setMem_correct`) this gives `C02_ops_*`;
* `C02_const`: decimal literals `n/10^5`, `|n| < 2^51`, are stored exactly (error bound for the two roundings);
* `*_refuted`: the inherited defect classes on concrete witnesses; `C02_partial` excludes them by hypothesis. -/
namespace Ebv.C02
open Ebv.Ebpf Ebv.Gen Ebv.GenFixed Ebv.F64

/-! ## constants and the Python side -/

/-- **C02_const**: for every decimal `d = n / 10^5` with `|n| < 2^51` the integer `Constant.__init__` stores
(`round(float(d) * 100000)` in the binary64 model: nearest double, exact product rounded to a double, round-half-even)
is exactly `n` -/
theorem C02_const (n : Int) (h : n.natAbs < 2 ^ 51) : decConst n = n := decConst_eq n h

/-- **Python-side round trip** of an `x` map variable: `ArrayGlobalVarDesc.__set__` stores exactly `n`, and
`unpack` (`stored / FIXED_BASE`, a correctly rounded division) reads back the double nearest to `n / 10^5` — the very
float the user wrote -/
theorem C02_py_roundtrip (n : Int) (h : n.natAbs < 2 ^ 51) :
    decConst n = n ∧ pyGet (decConst n) = roundToDouble (mkRat n B) := by
  rw [C02_const n h]; exact ⟨rfl, rfl⟩

/-- why the conversion has to round: the double product for `0.29` lies below `29000` -/
theorem product_below_witness :
    let x := flPos 29000 B
    let y := dyFrac (x.1 * B) x.2
    let z := flPos y.1 y.2
    let f := dyFrac z.1 z.2
    f.1 / f.2 = 28999 ∧ rne f.1 f.2 = 29000 := by decide +kernel

/-! ## `fx_typing` -/

/-- **fx_typing**: see `Ebv.GenFixed.elabF_rep`; restated for expression objects — a node typed fixed denotes
`value · 10^5`, a node typed integer denotes `value` -/
theorem fx_typing (env : FEnv) (σ : State) (s : FExpr) (e : Expr) (f : Bool) (hok : s.ok env = true)
    (h : elabF env s = .ok (.ex e f)) :
    f = s.isFixed env ∧ (evalZ σ e : Rat) = s.semQ env σ * (if f then SQ else 1) := by
  obtain ⟨h1, h2, _⟩ := elabF_rep env σ s _ hok h
  exact ⟨h1, h2⟩

/-- the store scaling of `RegisterArray.__setitem__` / `Memory._set`: the stored tree evaluates to the scaled integer
(fixed destination) or to the floor (integer destination) of the value -/
theorem storeVal_rep (σ : State) (df : Bool) (fe : FE) (q : Rat) (h : Rep σ fe q) :
    evalZ σ (storeVal df fe) = storeQ df q := by
  obtain ⟨e, f⟩ := fe
  cases df <;> cases f <;>
    simp only [storeVal, storeQ, Rep, scale, Bool.false_eq_true, if_false, if_true, Bool.and_self, Bool.and_true,
      Bool.and_false, Bool.not_true, Bool.not_false] at h ⊢
  · rw [Rat.mul_one] at h
    rw [← h, Rat.floor_intCast]
  · simp only [evalZ, BinOp.evalZ]
    rw [← floor_div_int, cast_FB, h]
    congr 1
    rw [SQ_eq]; grind
  · rw [evalZ_imul]
    have : ((evalZ σ e * FB : Int) : Rat) = q * SQ := by rw [Rat.intCast_mul, cast_FB, h]; grind
    rw [← this, Rat.floor_intCast]
  · rw [← h, Rat.floor_intCast]

/-! ## `C02_ops`: the emitted code computes that integer -/

/-- **C02_ops (register destination)**: if the generator accepts `self.<view>[no] = e` for a tree of the fixed-point
fragment outside C01's program-level classes, the emitted code terminates from every state; if in that state every
`DIV`/`MOD` node has non-negative operands fitting the width (`divOk`), the destination agrees with the integer value
`evalZ` at the width of the view; every other owned register and the memory are unchanged -/
theorem C02_ops_reg (e : Expr) (no : Nat) (long : Bool) (g g' : GenState)
    (hp : PreReg e no long g) (hf : e.fxOnly = true) (h : setReg no long (.ex e) g = .ok ((), g')) :
    Emits g g' (fun σ σ' => (divOk σ long e → AgreeZ long (σ'.regs no) (evalZ σ e)) ∧
      (∀ n ∈ g.owners, n ≠ no → σ'.regs n = σ.regs n) ∧ σ'.mem = σ.mem) := by
  obtain ⟨⟨⟨c, hc, hst, hrun⟩, hstack⟩, _⟩ := setReg_correct e no long g g' hp h
  refine ⟨⟨c, hc, hst, ?_⟩, hstack⟩
  intro σ
  obtain ⟨σ', he, hv, hfr, hm⟩ := hrun σ
  refine ⟨σ', he, ?_, hfr, hm⟩
  intro hd
  rw [agreeZ_iff]
  exact Agree.trans hv ((agreeZ_iff _ _ _).mp (evalBV_eq_evalZ_fx σ long e hf hd))

/-- **C02_ops (memory destination)**: likewise for a variable of format `fmt` at `base + off` (`x` variables are
8-byte signed, `fmt = q`): the variable's bytes are the little-endian encoding of `evalZ` modulo `2^(8·size)` -/
theorem C02_ops_mem (e : Expr) (fmt : Fmt) (addr : Expr) (base : Nat) (off : Int) (g g' : GenState)
    (hs : addr.asSum = some (base, off)) (hp : PreMem e fmt base g) (hf : e.fxOnly = true)
    (h : setMem fmt addr (.ex e) g = .ok ((), g')) :
    Emits g g' (fun σ σ' => (∀ n ∈ g.owners, σ'.regs n = σ.regs n) ∧
      (divOk σ fmt.isLong e → σ'.mem = storeN σ.mem (σ.regs base + BitVec.ofInt 64 off) fmt.size
        (BitVec.ofInt 64 (evalZ σ e)).toNat)) := by
  obtain ⟨⟨⟨c, hc, hst, hrun⟩, hstack⟩, _⟩ := setMem_correct e fmt addr base off g g' hs hp h
  refine ⟨⟨c, hc, hst, ?_⟩, hstack⟩
  intro σ
  obtain ⟨σ', he, hfr, hm⟩ := hrun σ
  refine ⟨σ', he, hfr, ?_⟩
  intro hd
  rw [hm]
  exact storeN_agree fmt _ _ _ _ ((agreeZ_iff _ _ _).mp (evalBV_eq_evalZ_fx σ fmt.isLong e hf hd))

/-! ## statements and programs -/

/-- **the part of the language the theorem covers, defect classes of C01 excluded** (decidable): every register read
is owned, the tree is in the fixed-point fragment, and not in *narrow-reg-in-64* -/
def okF (o : List Nat) : CSt → Bool
  | .reg no long e =>
    C01.leavesOwnedB o e && e.frag && e.fxOnly && !narrowIn64 e long true (.reg no)
  | .mem fmt base _ e =>
    o.contains base && C01.leavesOwnedB o e && e.frag && e.fxOnly && !narrowIn64 e fmt.isLong false .any

def ownersF (o : List Nat) : CSt → List Nat
  | .reg no _ _ => if o.contains no then o else no :: o
  | .mem _ _ _ _ => o

/-- what a statement must do, with `val` the integer its destination has to hold (modulo the destination's width) -/
def specWith (o : List Nat) (val : State → Int) : CSt → State → State → Prop
  | .reg no long e => fun σ σ' =>
    (divOk σ long e → AgreeZ long (σ'.regs no) (val σ)) ∧
    (∀ n ∈ o, n ≠ no → σ'.regs n = σ.regs n) ∧ σ'.mem = σ.mem
  | .mem fmt base off e => fun σ σ' =>
    (∀ n ∈ o, σ'.regs n = σ.regs n) ∧
    (divOk σ fmt.isLong e → σ'.mem = storeN σ.mem (σ.regs base + BitVec.ofInt 64 off) fmt.size
      (BitVec.ofInt 64 (val σ)).toNat)

def _root_.Ebv.GenFixed.CSt.rhs : CSt → Expr
  | .reg _ _ e => e
  | .mem _ _ _ e => e

theorem stmtF_correct (c : CSt) (g g' : GenState) (hok : okF g.owners c = true) (h : c.emit g = .ok ((), g')) :
    Emits g g' (specWith g.owners (fun σ => evalZ σ c.rhs) c) ∧ g'.owners = ownersF g.owners c := by
  cases c with
  | reg no long e =>
    simp only [CSt.emit] at h
    simp only [okF, Bool.and_eq_true, Bool.not_eq_true'] at hok
    obtain ⟨⟨⟨h1, h2⟩, h3⟩, h5⟩ := hok
    have hp : PreReg e no long g := ⟨C01.leavesOwnedB_sound h1, h2, h5⟩
    exact ⟨C02_ops_reg e no long g g' hp h3 h, (setReg_correct e no long g g' hp h).2⟩
  | mem fmt base off e =>
    simp only [CSt.emit] at h
    simp only [okF, Bool.and_eq_true, Bool.not_eq_true'] at hok
    obtain ⟨⟨⟨⟨h0, h1⟩, h2⟩, h3⟩, h5⟩ := hok
    have hp : PreMem e fmt base g := ⟨by simpa using h0, C01.leavesOwnedB_sound h1, h2, h5⟩
    exact ⟨C02_ops_mem e fmt _ base off g g' rfl hp h3 h, (setMem_correct e fmt _ base off g g' rfl hp h).2⟩

/-- a surface statement with what it compiles to -/
structure Pair where
  st : FStmt
  c : CSt
deriving DecidableEq

def FStmt.rhs : FStmt → FExpr
  | .set _ s => s

def FStmt.destFixed (env : FEnv) : FStmt → Bool
  | .set (.reg _ _) _ => false
  | .set (.xreg _) _ => true
  | .set (.var name) _ => env.fx.contains name

/-- **the integer a statement's destination has to hold, in terms of what the user wrote**: the exact rational value
of the surface expression, times `10^5` for a fixed destination, dropped by floor for an integer one -/
def wantZ (env : FEnv) (st : FStmt) (σ : State) : Int := storeQ (FStmt.destFixed env st) ((FStmt.rhs st).semQ env σ)

def pairs (env : FEnv) : List FStmt → Option (List Pair)
  | [] => some []
  | st :: sts =>
    match compileF env st, pairs env sts with
    | .ok c, some ps => some (⟨st, c⟩ :: ps)
    | _, _ => Option.none

def oksF (env : FEnv) (o : List Nat) : List Pair → Bool
  | [] => true
  | p :: ps => okF o p.c && (FStmt.rhs p.st).ok env && oksF env (ownersF o p.c) ps

/-- sequential composition of the statement specifications, in terms of the surface expressions -/
def specsF (env : FEnv) : List Nat → List Pair → State → State → Prop
  | _, [] => fun σ σ' => σ'.regs = σ.regs ∧ σ'.mem = σ.mem
  | o, p :: ps => fun σ σ'' => ∃ σ', specWith o (wantZ env p.st) p.c σ σ' ∧ specsF env (ownersF o p.c) ps σ' σ''

/-- the compiled statement evaluates to what the surface statement asks for -/
theorem compile_want (env : FEnv) (σ : State) (st : FStmt) (c : CSt) (hc : compileF env st = .ok c)
    (hok : (FStmt.rhs st).ok env = true) : evalZ σ c.rhs = wantZ env st σ := by
  cases st with
  | set d s =>
    simp only [compileF, bind, Except.bind] at hc
    cases hv : elabF env s with
    | error e => rw [hv] at hc; cases hc
    | ok v =>
      rw [hv] at hc
      simp only [] at hc
      cases he : ensureF v with
      | error e => rw [he] at hc; cases hc
      | ok fe =>
        rw [he] at hc
        simp only [] at hc
        obtain ⟨_, hrep⟩ := ensureF_rep (elabF_rep env σ s v hok hv) he
        cases d with
        | reg view no =>
          simp only [pure, Except.pure, Except.ok.injEq] at hc; subst hc
          exact storeVal_rep σ false fe _ hrep
        | xreg no =>
          simp only [pure, Except.pure, Except.ok.injEq] at hc; subst hc
          exact storeVal_rep σ true fe _ hrep
        | var name =>
          simp only [] at hc
          cases hl : lookupVar env.locs name with
          | none => rw [hl] at hc; cases hc
          | some l =>
            rw [hl] at hc
            simp only [pure, Except.pure, Except.ok.injEq] at hc; subst hc
            exact storeVal_rep σ (env.fx.contains name) fe _ hrep

theorem specWith_congr (o : List Nat) (c : CSt) (v1 v2 : State → Int) (σ σ' : State) (h : v1 σ = v2 σ) :
    specWith o v1 c σ σ' → specWith o v2 c σ σ' := by
  cases c <;> simp only [specWith, h] <;> exact id

theorem stmtsF_correct (env : FEnv) : ∀ (sts : List FStmt) (ps : List Pair) (g g' : GenState),
    pairs env sts = some ps → oksF env g.owners ps = true → emitFStmts env sts g = .ok ((), g') →
    Emits g g' (specsF env g.owners ps) := by
  intro sts
  induction sts with
  | nil =>
    intro ps g g' hp _ h
    simp only [pairs, Option.some.injEq] at hp; subst hp
    simp only [emitFStmts] at h
    rw [pure_ok] at h
    cases h
    exact ⟨⟨[], by simp, by simp, fun σ => ⟨_, exec_nil σ, rfl, rfl⟩⟩, rfl⟩
  | cons st sts ih =>
    intro ps g g' hp hok h
    simp only [pairs] at hp
    split at hp
    · rename_i c ps' hc hps
      cases hp
      simp only [oksF, Bool.and_eq_true] at hok
      simp only [emitFStmts, emitFStmt, hc] at h
      rw [bind_ok] at h
      obtain ⟨u, g1, h1, h2⟩ := h
      obtain ⟨he, ho⟩ := stmtF_correct c g g1 hok.1.1 h1
      have hrest := ih ps' g1 g' hps (by rw [ho]; exact hok.2) h2
      rw [ho] at hrest
      obtain ⟨⟨c1, hc1, hs1, hr1⟩, hst1⟩ := he
      have he' : Emits g g1 (specWith g.owners (wantZ env st) c) :=
        ⟨⟨c1, hc1, hs1, fun σ => by
          obtain ⟨σ', hx, hsp⟩ := hr1 σ
          exact ⟨σ', hx, specWith_congr _ c _ _ σ σ' (compile_want env σ st c hc hok.1.2) hsp⟩⟩, hst1⟩
      exact C01.emits_seq he' hrest
    · cases hp

/-! ## the property -/

/-- every hypothesis of `C02_partial` as one decidable predicate on the program: every statement can be built, its
surface expression satisfies `FExpr.ok` (decimals in range, no `float // non-fixed`), the built
statement is well-typed, in the fixed-point fragment and in none of C01's program-level classes -/
def progOkF (p : FProg) : Bool :=
  match pairs p.env p.stmts with
  | some ps => oksF p.env p.owned ps
  | Option.none => false

/-- **C02 (partial)** — for every program satisfying `progOkF` that the generator accepts and every machine state:
running the emitted code (`Ebpf.run`, from its first instruction) falls out at its end, and statement by statement:
if every `DIV`/`MOD` node of the built tree has non-negative operands fitting the width (`divOk`: the fit
precondition; excludes the inherited class *divmod-negative* and fixed values whose scaled integer does not fit a short
destination's 32 bits), the destination holds — modulo its width — the exact rational value of the surface expression,
times `10^5` for a fixed destination, dropped by floor for an integer destination; every other owned register and all
other memory are unchanged. -/
theorem C02_partial (p : FProg) (code : List Insn) (hok : progOkF p = true) (hemit : emitFProg p = .ok code) (σ : State) :
    ∃ ps, pairs p.env p.stmts = some ps ∧
      ∃ σ', run code (code.length + 1) { σ with pc := 0 } = .fell { σ' with pc := code.length } ∧
        specsF p.env p.owned ps σ σ' := by
  unfold progOkF at hok
  split at hok
  · rename_i ps hps
    refine ⟨ps, hps, ?_⟩
    unfold emitFProg at hemit
    split at hemit
    · rename_i u g' hg
      cases hemit
      cases u
      obtain ⟨⟨c, hc, hst, hrun⟩, _⟩ := stmtsF_correct p.env p.stmts ps _ g' hps hok hg
      simp only [List.nil_append] at hc
      obtain ⟨σ', he, hsp⟩ := hrun σ
      rw [hc]
      exact ⟨σ', run_of_exec hst he _ (Nat.le_refl _), hsp⟩
    · cases hemit
  · cases hok

/-- Boolean form of the fit precondition -/
def divOkB (σ : State) (b : Bool) : Expr → Bool
  | .bin op l r _ _ =>
    divOkB σ b l && divOkB σ b r &&
      (!(op == .div || op == .mod) ||
        (decide (0 ≤ evalZ σ l) && decide (evalZ σ l < 2 ^ wbits b) && decide (0 ≤ evalZ σ r) && decide (evalZ σ r < 2 ^ wbits b)))
  | _ => true

theorem divOkB_sound (σ : State) (b : Bool) : ∀ e, divOkB σ b e = true → divOk σ b e := by
  intro e
  induction e with
  | bin op l r sg k ihl ihr =>
    intro h
    simp only [divOkB, Bool.and_eq_true, Bool.or_eq_true, Bool.not_eq_true', decide_eq_true_eq] at h
    refine ⟨ihl h.1.1, ihr h.1.2, fun hop => ?_⟩
    rcases h.2 with h2 | h2
    · rcases hop with hop | hop <;> subst hop <;> simp at h2
    · exact ⟨h2.1.1.1, h2.1.1.2, h2.1.2, h2.2⟩
  | _ => intro _; trivial

/-- class *divmod-negative* (inherited from C01, input level): a `DIV`/`MOD` node of the built tree has a negative
operand — every fixed × fixed product, `/`, `//`, `%` and every store of a fixed value into an integer destination -/
def negAtDiv (σ : State) : Expr → Bool
  | .bin op l r _ _ =>
    negAtDiv σ l || negAtDiv σ r ||
      ((op == .div || op == .mod) && (decide (evalZ σ l < 0) || decide (evalZ σ r < 0)))
  | _ => false

/-- signed fit at the divisions: what the property's precondition literally asks (no sign restriction) -/
def fitS (σ : State) (b : Bool) : Expr → Bool
  | .bin op l r _ _ =>
    fitS σ b l && fitS σ b r &&
      (!(op == .div || op == .mod) ||
        (decide (-(2 ^ (wbits b - 1)) ≤ evalZ σ l) && decide (evalZ σ l < 2 ^ (wbits b - 1)) &&
         decide (-(2 ^ (wbits b - 1)) ≤ evalZ σ r) && decide (evalZ σ r < 2 ^ (wbits b - 1))))
  | _ => true

/-- **the full-strength statement** (signed operands allowed): what the property text asks for.  Refuted below. -/
def C02_full : Prop := ∀ (p : FProg) (code : List Insn) (no : Nat) (s : FExpr) (e : Expr),
  p.stmts = [.set (.xreg no) s] → progOkF p = true → emitFProg p = .ok code →
  (compileF p.env (.set (.xreg no) s)).toOption = some (.reg no true e) → ∀ σ : State, fitS σ true e = true →
    ∃ σ' : State, run code (code.length + 1) { σ with pc := 0 } = .fell { σ' with pc := code.length } ∧
      σ'.regs no = BitVec.ofInt 64 (wantZ p.env (.set (.xreg no) s) σ)

/-! ## non-vacuity and refutations (concrete programs and machine states, closed by kernel evaluation of the
generator model and of `Ebpf.run`) -/

def codeOfF (p : FProg) : List Insn := match emitFProg p with | .ok c => c | .error _ => []

theorem codeOfF_ok (p : FProg) (h : (emitFProg p).toOption.isSome = true) : emitFProg p = .ok (codeOfF p) := by
  unfold codeOfF
  cases hc : emitFProg p with
  | ok c => rfl
  | error e => rw [hc] at h; simp [Except.toOption] at h

/-- `n` bytes at `addr` after running the code from `s` (0 if the run does not fall out at the end) -/
def memAfter (code : List Insn) (s : State) (addr n : Nat) : Nat :=
  match run code (code.length + 1) s with
  | .fell s' => loadN s'.mem (BitVec.ofNat 64 addr) n
  | _ => 0

def stdVarsF : List FVarDecl := [⟨"vq", some .q, .loc⟩, ⟨"vI", some .I, .loc⟩, ⟨"vx", Option.none, .loc⟩]

/-- `self.x[2] = self.x[3] * 2.5 + self.r[4] / 0.29`; `self.vq = self.vx // 3` -/
def eGood : FExpr := .bin .add (.bin .mul (.xreg 3) (.dec 250000)) (.bin .truediv (.reg .r 4) (.dec 29000))
def pGood : FProg := ⟨[1, 3, 4, 10], stdVarsF,
  [.set (.xreg 2) eGood, .set (.var "vq") (.bin .floordiv (.var "vx") (.int 3))]⟩
/-- x3 = 1.5, r4 = 2, vx = 7.5 -/
def sGood : State := C01.st0 [(3, 150000), (4, 2), (10, 4096)] [(4072, 0xb0), (4073, 0x71), (4074, 0x0b)]

/-- `pGood` satisfies every hypothesis of `C02_partial`, is accepted (12 instructions), the fit precondition holds in
`sGood`, and the results are 1.5·2.5 + 2/0.29 = 10.64655 and 7.5 // 3 = 2 -/
example : progOkF pGood = true ∧ (emitFProg pGood).toOption.isSome = true ∧ (codeOfF pGood).length = 12 ∧
    (match pairs pGood.env pGood.stmts with
      | some [a, b] => divOkB sGood true a.c.rhs && divOkB sGood true b.c.rhs
      | _ => false) = true ∧
    C01.regAfter (codeOfF pGood) sGood 2 = 1064655 ∧ memAfter (codeOfF pGood) sGood 4088 8 = 2 := by
  decide +kernel

/-- *divmod-negative* in a fixed × fixed product: `self.x[2] = self.x[3] * 2.5` -/
def eNeg : FExpr := .bin .mul (.xreg 3) (.dec 250000)
def pNeg : FProg := ⟨[1, 3, 10], stdVarsF, [.set (.xreg 2) eNeg]⟩
def tNeg : Expr := .bin .div (.bin .mul (.reg 3 true true) (.const 250000) true .plain) (.const 100000) true .plain
/-- x3 = −1.0 -/
def sNeg : State := C01.st0 [(3, 18446744073709451616), (10, 4096)]

theorem divmod_negative_mul_refuted :
    progOkF pNeg = true ∧ (emitFProg pNeg).toOption.isSome = true ∧
    (compileF pNeg.env (.set (.xreg 2) eNeg)).toOption = some (.reg 2 true tNeg) ∧
    negAtDiv sNeg tNeg = true ∧ fitS sNeg true tNeg = true ∧ evalZ sNeg tNeg = -250000 ∧
    C01.regAfter (codeOfF pNeg) sNeg 2 = 184467440487095 := by decide +kernel

/-- **the unchanged generator violates the full-strength statement**: −1.0 · 2.5 is stored as 1844674404.87095 -/
theorem C02_full_refuted : ¬ C02_full := by
  intro h
  obtain ⟨hok, hacc, hcomp, _, hfit, hval, hreg⟩ := divmod_negative_mul_refuted
  obtain ⟨σ', hrun, hv⟩ := h pNeg (codeOfF pNeg) 2 eNeg tNeg rfl hok (codeOfF_ok pNeg hacc) hcomp sNeg hfit
  have hc : compileF pNeg.env (.set (.xreg 2) eNeg) = .ok (.reg 2 true tNeg) := by
    cases hx : compileF pNeg.env (.set (.xreg 2) eNeg) with
    | error e => rw [hx] at hcomp; simp [Except.toOption] at hcomp
    | ok c => rw [hx] at hcomp; simp only [Except.toOption, Option.some.injEq] at hcomp; rw [hcomp]
  have hw := compile_want pNeg.env sNeg _ _ hc (by decide +kernel)
  simp only [CSt.rhs] at hw
  rw [← hw, hval] at hv
  have := C01.regAfter_of_run (k := 2) hrun
  have e : ({ sNeg with pc := 0 } : State) = sNeg := rfl
  rw [e, hreg, hv] at this
  revert this
  decide +kernel

/-- *divmod-negative* in a store of a fixed value into an integer variable: `self.vq = self.x[3]` with x3 = −2.5
stores 184467440737093; both −3 (floor) and −2 (truncation) would be acceptable -/
def pStore : FProg := ⟨[1, 3, 10], stdVarsF, [.set (.var "vq") (.xreg 3)]⟩
def sStore : State := C01.st0 [(3, 18446744073709301616), (10, 4096)]
theorem divmod_negative_store_refuted :
    progOkF pStore = true ∧ (emitFProg pStore).toOption.isSome = true ∧
    memAfter (codeOfF pStore) sStore 4088 8 = 184467440737093 ∧
    (BitVec.ofInt 64 (-3)).toNat = 18446744073709551613 ∧ (BitVec.ofInt 64 (-2)).toNat = 18446744073709551614 := by
  decide +kernel

/-- *fixed-to-short*: `self.vI = self.x[3]` with x3 = 50000.0 (scaled 5·10^9 does not fit 32 bits, the value 50000
does): the division by `FIXED_BASE` runs in 32 bits and stores 7050.  Outside the property's fit precondition (the
scaled operand does not fit the narrowest width involved); recorded, excluded from `C02_partial` by `divOk`. -/
def stShort : FStmt := .set (.var "vI") (.xreg 3)
def pShort : FProg := ⟨[1, 3, 10], stdVarsF, [stShort]⟩
def sShort : State := C01.st0 [(3, 5000000000), (10, 4096)]
theorem fixed_to_short_div32_refuted :
    progOkF pShort = true ∧ (emitFProg pShort).toOption.isSome = true ∧ fixedToShort pShort.env stShort = true ∧
    memAfter (codeOfF pShort) sShort 4084 4 = 7050 ∧
    (match pairs pShort.env pShort.stmts with
      | some [a] => divOkB sShort false a.c.rhs == false && evalZ sShort a.c.rhs == 50000
      | _ => false) = true := by
  decide +kernel

end Ebv.C02
