import Ebv.Props.C14
/-! C14 — histories: the same `Terminal` objects used again and again.

`to_operational` is called many times on one `Terminal` object during its life (bring-up, after a
watchdog fall-back, after `set_state`, after a failed attempt), and many `Terminal` objects live
in one process.  The theorems say that a use depends only on what the terminal reports from then
on: not on earlier uses of the same object (their targets, their outcomes, what they saw last),
and not on the uses of other objects.  So every theorem of `Ebv.Props.C14` holds for every call of
every history. -/
namespace Ebv.C14.Hist
open Ebv.AlDriver Ebv.Consts

theorem hist1_append (a b : List Op) : ∀ rs : List Resp,
    hist1 rs (a ++ b) = hist1 rs a ++ hist1 (rest1 rs a) b := by
  induction a with
  | nil => intro rs; rfl
  | cons op a ih => intro rs; simp [hist1, rest1, ih]

/-- what is left of the script after some uses is a suffix of it: uses only consume answers -/
theorem rest1_suffix (ops : List Op) : ∀ rs : List Resp, ∃ k, rest1 rs ops = rs.drop k := by
  induction ops with
  | nil => intro rs; exact ⟨0, rfl⟩
  | cons op ops ih =>
    intro rs
    obtain ⟨k, hk⟩ := ih (rs.drop (consumed (runOp op rs).1))
    exact ⟨consumed (runOp op rs).1 + k, by simp [rest1, hk, List.drop_drop]⟩

theorem hist1_length (ops : List Op) : ∀ rs : List Resp, (hist1 rs ops).length = ops.length := by
  induction ops with
  | nil => intro rs; rfl
  | cons op ops ih => intro rs; simp [hist1, ih]

/-- NO MEMORY: in every history of uses of one `Terminal` object, each use gives exactly the
result of that use on a fresh object, on the answers the terminal gives from then on — the
earlier uses (their kind, targets, outcomes, what they saw) matter only through the answers they
consumed -/
theorem hist1_use (pre : List Op) (op : Op) (post : List Op) (rs : List Resp) :
    (hist1 rs (pre ++ op :: post))[pre.length]? = some (runOp op (rest1 rs pre)) := by
  rw [hist1_append]
  rw [List.getElem?_append_right (by simp [hist1_length])]
  simp [hist1_length, hist1]

/-- in particular a `to_operational` call anywhere in a history is `toOperational` on a suffix of
the terminal's script -/
theorem hist1_call (pre : List Op) (target : Nat) (post : List Op) (rs : List Resp) :
    ∃ k, (hist1 rs (pre ++ .toOp target :: post))[pre.length]? = some (toOperational target (rs.drop k)) := by
  obtain ⟨k, hk⟩ := rest1_suffix pre rs
  exact ⟨k, by rw [hist1_use, hk]; rfl⟩

theorem scriptOf_set_self (scripts : List (List Resp)) (t : Nat) (rs : List Resp) (h : t < scripts.length) :
    scriptOf (scripts.set t rs) t = rs := by
  simp [scriptOf, h]

theorem scriptOf_set_other (scripts : List (List Resp)) (t u : Nat) (rs : List Resp) (h : u ≠ t) :
    scriptOf (scripts.set u rs) t = scriptOf scripts t := by
  simp [scriptOf, List.getElem?_set_ne h]

theorem scriptOf_out (scripts : List (List Resp)) (t : Nat) (h : scripts.length ≤ t) : scriptOf scripts t = [] := by
  simp [scriptOf, List.getElem?_eq_none h]

/-- PROJECTION / INDEPENDENCE OF INSTANCES: in a history over any number of terminals, in any
order, the results of the uses of terminal `t` are those of its own uses alone on its own script -/
theorem hist_projection (ops : List HOp) : ∀ (scripts : List (List Resp)) (t : Nat),
    projH t (histRun scripts ops) = hist1 (scriptOf scripts t) (opsOf t ops) := by
  induction ops with
  | nil => intro scripts t; rfl
  | cons h ops ih =>
    intro scripts t
    by_cases ht : h.term = t
    · subst ht
      by_cases hl : h.term < scripts.length
      · simp only [histRun, projH, opsOf, List.filter_cons, beq_self_eq_true, if_true, List.map_cons, hist1]
        have := ih (scripts.set h.term ((scriptOf scripts h.term).drop
          (consumed (runOp h.op (scriptOf scripts h.term)).1))) h.term
        rw [scriptOf_set_self _ _ _ hl] at this
        simp only [projH, opsOf] at this
        rw [this]
      · have hl' : scripts.length ≤ h.term := Nat.le_of_not_lt hl
        simp only [histRun, projH, opsOf, List.filter_cons, beq_self_eq_true, if_true, List.map_cons, hist1]
        have := ih (scripts.set h.term ((scriptOf scripts h.term).drop
          (consumed (runOp h.op (scriptOf scripts h.term)).1))) h.term
        have hs : scriptOf (scripts.set h.term ((scriptOf scripts h.term).drop
            (consumed (runOp h.op (scriptOf scripts h.term)).1))) h.term = [] :=
          scriptOf_out _ _ (by simpa using hl')
        rw [hs] at this
        simp only [projH, opsOf] at this
        rw [this, scriptOf_out _ _ hl']
        simp
    · have hb : (h.term == t) = false := by simp [ht]
      simp only [histRun, projH, opsOf, List.filter_cons, hb, Bool.false_eq_true, if_false]
      have := ih (scripts.set h.term ((scriptOf scripts h.term).drop
        (consumed (runOp h.op (scriptOf scripts h.term)).1))) t
      rw [scriptOf_set_other _ _ _ _ ht] at this
      simpa only [projH, opsOf] using this

/-- what terminal `t`'s uses give does not depend on the other terminals (their number, scripts,
uses) nor on how the uses of different terminals are interleaved -/
theorem hist_independent (scripts scripts' : List (List Resp)) (ops ops' : List HOp) (t : Nat)
    (hs : scriptOf scripts t = scriptOf scripts' t) (ho : opsOf t ops = opsOf t ops') :
    projH t (histRun scripts ops) = projH t (histRun scripts' ops') := by
  rw [hist_projection, hist_projection, hs, ho]

/-- every call starts by asking the terminal: nothing a call does is decided before the terminal
reported its present state in this call -/
theorem call_reads_first (target : Nat) (rs : List Resp) :
    (∃ r rest, rs = r :: rest ∧ (toOperational target rs).1.head? = some (.read r)) ∨
    (rs = [] ∧ toOperational target rs = ([.readBlocked], .blocked)) := by
  cases rs with
  | nil => exact Or.inr ⟨rfl, rfl⟩
  | cons r rest =>
    refine Or.inl ⟨r, rest, rfl, ?_⟩
    unfold toOperational
    by_cases hv : valid r.state = true <;> by_cases he : r.err = true <;> simp [hv, he]

/-- THE PROPERTY FOR EVERY CALL OF EVERY HISTORY: the `j`-th use of terminal `t` in a history over
many terminals, when it is `to_operational target`, is a read of the answer `r0` the terminal gives
at that moment, the acknowledge if `r0` carries the error flag, and then `body target r0 rs'` on the
answers that follow — the object all theorems of `Ebv.Props.C14` speak about (`writes_ascending`,
`never_above_target`, `write_after_report`, `returns_only_when_reached`, `returns_target_after_ack`,
`raises_on_error`, `never_falls_off`). -/
theorem hist_call_spec (scripts : List (List Resp)) (ops : List HOp) (t : Nat)
    (pre : List Op) (target : Nat) (post : List Op) (h : opsOf t ops = pre ++ .toOp target :: post)
    (r0 : Resp) (rs' : List Resp) (hr : rest1 (scriptOf scripts t) pre = r0 :: rs') (hv : valid r0.state = true) :
    (projH t (histRun scripts ops))[pre.length]? =
      some (.read r0 :: ((if r0.err then [.write ackValue] else []) ++ (body target r0 rs').1),
            (body target r0 rs').2) := by
  rw [hist_projection, h, hist1_use, hr]
  exact congrArg some (toOperational_eq target r0 rs' hv)

/-! non-vacuity: OP reached, the terminal falls back to SAFE-OP with an error on its own, the
second call on the same object acknowledges and walks up again; another terminal in between -/
def exScripts : List (List Resp) :=
  [[⟨4, false, 0⟩, ⟨8, false, 0⟩, ⟨4, true, 27⟩, ⟨1, false, 0⟩, ⟨2, false, 0⟩, ⟨4, false, 0⟩, ⟨8, false, 0⟩],
   [⟨2, false, 0⟩, ⟨2, false, 0⟩]]
def exOps : List HOp := [⟨0, .toOp 8⟩, ⟨1, .toOp 2⟩, ⟨1, .setState 1⟩, ⟨0, .toOp 8⟩, ⟨1, .getState⟩]
example : projH 0 (histRun exScripts exOps) =
    [([.read ⟨4, false, 0⟩, .write 8, .read ⟨8, false, 0⟩], .returned),
     ([.read ⟨4, true, 27⟩, .write 17, .write 2, .read ⟨1, false, 0⟩, .read ⟨2, false, 0⟩, .write 4,
       .read ⟨4, false, 0⟩, .write 8, .read ⟨8, false, 0⟩], .returned)] := by decide
example : projH 1 (histRun exScripts exOps) =
    [([.read ⟨2, false, 0⟩], .returned), ([.write 1], .fellOff), ([.read ⟨2, false, 0⟩], .returned)] := by decide

end Ebv.C14.Hist
