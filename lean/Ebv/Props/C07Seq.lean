import Ebv.Props.C07
import Ebv.Model.PktSeq
/-! C07 — statements between variables (`dst = src`, `dst += src`, through a register) for every pair of formats,
and sequences of statements in one program: what the emitted code computes (`Ebv.PktVar.execAll`) is the `struct`
semantics applied statement by statement (`specAll`), and a statement touches only its destination's bytes. -/
namespace Ebv.C07Seq
open Ebv.PktVar Ebv.Bytes Ebv.C07

theorem packZ_congr (f : Fmt) (a b : Int) (h : a % 2 ^ (8 * f.n) = b % 2 ^ (8 * f.n)) : packZ f a = packZ f b := by
  unfold packZ ofSigned; rw [h]

theorem length_packZ (f : Fmt) (v : Int) : (packZ f v).length = f.n := by
  unfold packZ; split <;> simp

/-- a register that holds `struct`'s value modulo `2^w`, read as integers -/
theorem reg_int (r : Nat) (z : Int) (w : Nat) (h : r % 2 ^ w = (z % (2 ^ w : Int)).toNat) :
    (r : Int) % 2 ^ w = z % 2 ^ w := by
  have hz : 0 ≤ z % (2 ^ w : Int) := Int.emod_nonneg _ (Int.ne_of_gt (Int.pow_pos (by decide)))
  have h2 : ((r % 2 ^ w : Nat) : Int) = z % (2 ^ w : Int) := by rw [h, Int.toNat_of_nonneg hz]
  rw [← h2, Int.natCast_emod]; simp

/-- the register calculated for a source holds `unpack`'s value modulo every destination width it is stored with:
64-bit calculation for any destination, 32-bit calculation for destinations of at most 4 bytes -/
theorem readReg_narrow (sf df : Fmt) (long : Bool) (bs : List UInt8) (hs : sf.ok = true) (hd : df.ok = true)
    (hl : bs.length = sf.n) (hw : long = true ∨ df.n ≤ 4) :
    (readReg sf long bs : Int) % 2 ^ (8 * df.n) = unpackZ sf bs % 2 ^ (8 * df.n) := by
  have h := reg_int _ _ _ (read_exact sf long bs hs hl)
  generalize (readReg sf long bs : Int) = a at h ⊢
  generalize unpackZ sf bs = b at h ⊢
  rcases ok_cases df hd with hn | hn | hn | hn <;> cases long <;>
    simp only [hn, Nat.reduceMul, Int.reducePow, Bool.false_eq_true, ↓reduceIte, false_or, Nat.reduceLeDiff] at h hw ⊢ <;> omega

theorem long_of_dst (df : Fmt) (hd : df.ok = true) : decide (df.n = 8) = true ∨ df.n ≤ 4 := by
  rcases ok_cases df hd with hn | hn | hn | hn <;> simp [hn]

/-- **copies**: for every pair of formats (B H I Q b h i q, native and explicit byte orders on both sides, any two
widths) and every byte string of the source's length, `dst = src` stores exactly `struct.pack(dst format)` of the value
`struct.unpack(src format)` reads, reduced to the destination's range (truncation when narrowing, the SOURCE's sign
when widening) -/
theorem copy_is_struct (sf df : Fmt) (bs : List UInt8) (hs : sf.ok = true) (hd : df.ok = true) (hl : bs.length = sf.n) :
    copyBytes sf df bs = packZ df (unpackZ sf bs) := by
  unfold copyBytes
  rw [write_exact]
  exact packZ_congr df _ _ (readReg_narrow sf df _ bs hs hd hl (long_of_dst df hd))

/-- the same through a register in between (`rk = src; dst = rk`; through `wk` for destinations of at most 4 bytes) -/
theorem via_is_struct (sf df : Fmt) (long : Bool) (bs : List UInt8) (hs : sf.ok = true) (hd : df.ok = true)
    (hl : bs.length = sf.n) (hw : long = true ∨ df.n ≤ 4) : viaBytes sf df long bs = packZ df (unpackZ sf bs) := by
  unfold viaBytes
  rw [write_exact]
  exact packZ_congr df _ _ (readReg_narrow sf df long bs hs hd hl hw)

theorem toNat_emod_M64 (z : Int) : (((z % (M64 : Int)).toNat : Nat) : Int) = z % (2 ^ 64 : Int) := by
  have hM : (M64 : Int) = (2 ^ 64 : Int) := by simp [M64]
  rw [hM, Int.toNat_of_nonneg (Int.emod_nonneg _ (by decide))]

/-- **in-place updates by a variable**: `dst += src` / `dst -= src` store `pack(dst format)` of the sum/difference of
the two `unpack`ed values, reduced to the destination's range -/
theorem iaddVar_is_struct (df sf : Fmt) (neg : Bool) (dbs sbs : List UInt8) (hd : df.ok = true) (hs : sf.ok = true)
    (hld : dbs.length = df.n) (hls : sbs.length = sf.n) :
    iaddVarBytes df sf neg dbs sbs =
      packZ df (if neg then unpackZ df dbs - unpackZ sf sbs else unpackZ df dbs + unpackZ sf sbs) := by
  have ha := readReg_narrow df df _ dbs hd hd hld (long_of_dst df hd)
  have hb := readReg_narrow sf df _ sbs hs hd hls (long_of_dst df hd)
  unfold iaddVarBytes
  simp only []
  rw [write_exact]
  apply packZ_congr
  rw [toNat_emod_M64]
  generalize (readReg df (decide (df.n = 8)) dbs : Int) = a at ha ⊢
  generalize (readReg sf (decide (df.n = 8)) sbs : Int) = b at hb ⊢
  generalize unpackZ df dbs = A at ha ⊢
  generalize unpackZ sf sbs = B at hb ⊢
  rcases ok_cases df hd with hn | hn | hn | hn <;> cases neg <;>
    simp only [hn, Nat.reduceMul, Int.reducePow, Bool.false_eq_true, ↓reduceIte] at ha hb ⊢ <;> omega

/-- in-place updates by a constant (`var += a`) -/
theorem iaddc_is_struct (f : Fmt) (bs : List UInt8) (a : Int) (hf : f.ok = true) (hl : bs.length = f.n) :
    iaddBytes f bs a = packZ f (unpackZ f bs + a) := by
  have ha := readReg_narrow f f _ bs hf hf hl (long_of_dst f hf)
  unfold iaddBytes
  rw [write_exact]
  apply packZ_congr
  rw [toNat_emod_M64]
  generalize (readReg f (decide (f.n = 8)) bs : Int) = x at ha ⊢
  generalize unpackZ f bs = X at ha ⊢
  rcases ok_cases f hf with hn | hn | hn | hn <;>
    simp only [hn, Nat.reduceMul, Int.reducePow] at ha ⊢ <;> omega

/-! ### statements on the memory (packet + local variables) -/

theorem loc_has (m : Mem) (i n : Nat) (h : m.has (.loc i) n) : ∃ a, m.loc[i]? = some a ∧ a.length = n := by
  simp only [Mem.has, List.getElem?_map, Option.map_eq_some_iff] at h
  exact h

theorem length_get (m : Mem) (r : Ref) (n : Nat) (h : m.has r n) : (m.get r n).length = n := by
  cases r with
  | pkt p =>
    simp only [Mem.has] at h
    simp only [Mem.get]
    rw [length_slice _ _ _ h]; omega
  | loc i =>
    obtain ⟨a, ha, hl⟩ := loc_has m i n h
    simp [Mem.get, List.getD, ha, hl]

/-- reading a variable back after a store gives the stored bytes (nothing is remembered from before the store) -/
theorem get_set_same (m : Mem) (r : Ref) (bs : List UInt8) (h : m.has r bs.length) :
    (m.set r bs).get r bs.length = bs := by
  cases r with
  | pkt p =>
    simp only [Mem.has] at h
    simp only [Mem.get, Mem.set]
    exact slice_setRange_same _ _ _ h
  | loc i =>
    obtain ⟨a, ha, _⟩ := loc_has m i _ h
    have hi : i < m.loc.length := by
      rcases Nat.lt_or_ge i m.loc.length with h' | h'
      · exact h'
      · rw [List.getElem?_eq_none h'] at ha; cases ha
    simp [Mem.get, Mem.set, List.getD, hi]

/-- the sizes of a memory: packet length and the sizes of the local variables' slots -/
def shape (m : Mem) : Nat × List Nat := (m.pkt.length, m.loc.map List.length)

theorem has_shape (m m' : Mem) (h : shape m = shape m') (r : Ref) (n : Nat) : m.has r n → m'.has r n := by
  simp only [shape, Prod.mk.injEq] at h
  cases r with
  | pkt p => simp only [Mem.has, h.1]; exact id
  | loc i => simp only [Mem.has, h.2]; exact id

theorem shape_set (m : Mem) (r : Ref) (bs : List UInt8) (h : m.has r bs.length) : shape (m.set r bs) = shape m := by
  cases r with
  | pkt p =>
    simp only [Mem.has] at h
    simp only [shape, Mem.set, length_setRange _ _ _ h]
  | loc i =>
    simp only [Mem.has] at h
    simp only [shape, Mem.set, List.map_set, Prod.mk.injEq, true_and]
    apply List.ext_getElem?
    intro j
    rw [List.getElem?_set]
    split
    · next hij => subst hij; split <;> simp_all
    · rfl

theorem wf_shape (st : Stmt) (m m' : Mem) (h : shape m = shape m') (hw : st.wf m) : st.wf m' := by
  have H := has_shape m m' h
  cases st <;> simp only [Stmt.wf] at hw ⊢
  · exact ⟨hw.1, hw.2.1, H _ _ hw.2.2.1, H _ _ hw.2.2.2⟩
  · exact ⟨hw.1, hw.2.1, H _ _ hw.2.2.1, H _ _ hw.2.2.2.1, hw.2.2.2.2⟩
  · exact ⟨hw.1, hw.2.1, H _ _ hw.2.2.1, H _ _ hw.2.2.2⟩
  · exact ⟨hw.1, H _ _ hw.2⟩
  · exact ⟨hw.1, H _ _ hw.2⟩
  · exact ⟨hw.1, H _ _ hw.2⟩

/-- **one statement**: on every memory on which it is well formed, the emitted code's effect is the `struct` semantics -/
theorem execMem_is_struct (st : Stmt) (m : Mem) (h : st.wf m) : execMem st m = specMem st m := by
  cases st <;> simp only [Stmt.wf] at h <;> simp only [execMem, specMem]
  · rw [copy_is_struct _ _ _ h.2.1 h.1 (length_get _ _ _ h.2.2.2)]
  · rw [via_is_struct _ _ _ _ h.2.1 h.1 (length_get _ _ _ h.2.2.2.1) h.2.2.2.2]
  · rw [iaddVar_is_struct _ _ _ _ _ h.1 h.2.1 (length_get _ _ _ h.2.2.1) (length_get _ _ _ h.2.2.2)]
  · rw [write_exact]
  · rw [iaddc_is_struct _ _ _ h.1 (length_get _ _ _ h.2)]

theorem shape_spec (st : Stmt) (m : Mem) (h : st.wf m) : shape (specMem st m) = shape m := by
  cases st <;> simp only [Stmt.wf] at h <;> simp only [specMem]
  · exact shape_set _ _ _ (by rw [length_packZ]; exact h.2.2.1)
  · exact shape_set _ _ _ (by rw [length_packZ]; exact h.2.2.1)
  · exact shape_set _ _ _ (by rw [length_packZ]; exact h.2.2.1)
  · exact shape_set _ _ _ (by rw [length_packZ]; exact h.2)
  · exact shape_set _ _ _ (by rw [length_packZ]; exact h.2)

/-- no statement changes the sizes, so a program well formed on the start memory stays well formed -/
theorem wf_exec (st : Stmt) (sts : List Stmt) (m : Mem) (h : st.wf m) (hs : wfAll sts m) : wfAll sts (execMem st m) := by
  intro st' hm
  apply wf_shape st' m _ _ (hs st' hm)
  rw [execMem_is_struct st m h, shape_spec st m h]

/-- **sequences**: a program of any number of statements (copies between any formats, through registers, updates by
variables and constants, constant stores, reads), each reading what the earlier ones stored, computes exactly the
`struct` semantics applied statement by statement — for all packets, local variables, offsets (overlapping or not) -/
theorem execAll_is_struct (sts : List Stmt) (m : Mem) (h : wfAll sts m) : execAll sts m = specAll sts m := by
  induction sts generalizing m with
  | nil => rfl
  | cons st sts ih =>
    have h1 : st.wf m := h st (List.mem_cons_self ..)
    have h2 : wfAll sts m := fun s hs => h s (List.mem_cons_of_mem _ hs)
    have := ih (execMem st m) (wf_exec st sts m h1 h2)
    simp only [execAll, specAll, List.foldl_cons] at this ⊢
    rw [this, execMem_is_struct st m h1]

/-- the effect of the later statements depends only on the memory the earlier ones left, not on which statements
produced it (no value is carried over from an earlier statement) -/
theorem execAll_append (a b : List Stmt) (m : Mem) : execAll (a ++ b) m = execAll b (execAll a m) := by
  simp [execAll, List.foldl_append]

theorem execAll_same_memory (a a' b : List Stmt) (m m' : Mem) (h : execAll a m = execAll a' m') :
    execAll (a ++ b) m = execAll (a' ++ b) m' := by
  rw [execAll_append, execAll_append, h]

/-! ### a statement touches only its destination -/

/-- what a statement with destination `dst` may change: nothing (no destination); for a packet destination at `p`
of `n` bytes only the packet bytes `p .. p+n-1` (the packet keeps its length, the local variables stay); for a local
destination only that variable -/
def Untouched (dst : Option (Ref × Nat)) (m m' : Mem) : Prop :=
  match dst with
  | none => m' = m
  | some (.pkt p, n) => m'.loc = m.loc ∧ m'.pkt.length = m.pkt.length ∧ ∀ i, i < p ∨ p + n ≤ i → m'.pkt[i]? = m.pkt[i]?
  | some (.loc j, _) => m'.pkt = m.pkt ∧ ∀ i, i ≠ j → m'.loc[i]? = m.loc[i]?

theorem set_untouched (m : Mem) (r : Ref) (bs : List UInt8) (h : m.has r bs.length) :
    Untouched (some (r, bs.length)) m (m.set r bs) := by
  cases r with
  | pkt p =>
    simp only [Mem.has] at h
    refine ⟨rfl, length_setRange _ _ _ h, fun i hi => ?_⟩
    exact getElem?_setRange_outside _ _ _ _ h hi
  | loc j =>
    refine ⟨rfl, fun i hi => ?_⟩
    simp only [Mem.set]
    rw [List.getElem?_set_ne (Ne.symm hi)]

/-- **no other byte changes**: every statement leaves every packet byte outside its destination, and every other
local variable, as they were -/
theorem exec_touches_only_dst (st : Stmt) (m : Mem) (h : st.wf m) : Untouched st.dst m (execMem st m) := by
  have key : ∀ (df : Fmt) (d : Ref) (v : Int), m.has d df.n → Untouched (some (d, df.n)) m (m.set d (packZ df v)) := by
    intro df d v hd
    have := set_untouched m d (packZ df v) (by rw [length_packZ]; exact hd)
    rwa [length_packZ] at this
  rw [execMem_is_struct st m h]
  cases st with
  | copy df d sf s => exact key _ _ _ h.2.2.1
  | via df d sf s long k => exact key _ _ _ h.2.2.1
  | iadd df d sf s neg => exact key _ _ _ h.2.2.1
  | const df d v => exact key _ _ _ h.2
  | iaddc df d a => exact key _ _ _ h.2
  | read k sf s long => rfl

/-- copies between packet variables, spelled out: the destination's bytes afterwards are `pack(dst fmt, unpack(src fmt,
source bytes))`, every other packet byte and the packet's length are unchanged — for all offsets (overlapping included) -/
theorem copy_pkt (df sf : Fmt) (p q : Nat) (m : Mem) (hd : df.ok = true) (hs : sf.ok = true)
    (hp : p + df.n ≤ m.pkt.length) (hq : q + sf.n ≤ m.pkt.length) :
    let m' := execMem (.copy df (.pkt p) sf (.pkt q)) m
    slice m'.pkt p (p + df.n) = packZ df (unpackZ sf (slice m.pkt q (q + sf.n))) ∧
      m'.pkt.length = m.pkt.length ∧ m'.loc = m.loc ∧ ∀ i, i < p ∨ p + df.n ≤ i → m'.pkt[i]? = m.pkt[i]? := by
  have hwf : (Stmt.copy df (.pkt p) sf (.pkt q)).wf m := ⟨hd, hs, hp, hq⟩
  have hu := exec_touches_only_dst _ m hwf
  have he := execMem_is_struct _ m hwf
  simp only [Stmt.dst, Untouched] at hu
  refine ⟨?_, hu.2.1, hu.1, hu.2.2⟩
  rw [he]
  simp only [specMem, Mem.set, Mem.get]
  have := slice_setRange_same m.pkt p (packZ df (unpackZ sf (slice m.pkt q (q + sf.n)))) (by rw [length_packZ]; exact hp)
  rwa [length_packZ] at this

theorem lookup_setReg (rs : Regs) (k v : Nat) : (setReg rs k v).lookup k = some v := by
  simp [setReg]

/-- a later read of a variable sees what the statement before stored there: the register holds `unpack` of the
stored `pack` (the same variable read before and after a store gives two independent values) -/
theorem read_after_store (st : Stmt) (d : Ref) (f : Fmt) (m : Mem) (k : Nat) (long : Bool) (rs : Regs) (h : st.wf m)
    (hdst : st.dst = some (d, f.n)) (hf : f.ok = true) :
    ∃ v, (execRegs (.read k f d long) (execMem st m) rs).lookup k = some v ∧
      v % 2 ^ (if long then 64 else 32) = want f long ((specMem st m).get d f.n) := by
  refine ⟨_, lookup_setReg _ _ _, ?_⟩
  rw [execMem_is_struct st m h]
  apply read_exact _ _ _ hf
  apply length_get
  have hsh := shape_spec st m h
  apply has_shape m _ hsh.symm
  cases st <;> simp only [Stmt.dst, Option.some.injEq, Prod.mk.injEq] at hdst <;> simp only [Stmt.wf] at h
  · rw [← hdst.1, ← hdst.2]; exact h.2.2.1
  · rw [← hdst.1, ← hdst.2]; exact h.2.2.1
  · rw [← hdst.1, ← hdst.2]; exact h.2.2.1
  · rw [← hdst.1, ← hdst.2]; exact h.2
  · rw [← hdst.1, ← hdst.2]; exact h.2
  · cases hdst

/-- every register a program sets by `rk = var` holds `unpack` of the variable's bytes AT THAT POINT of the program -/
theorem read_reg_is_struct (k : Nat) (f : Fmt) (s : Ref) (long : Bool) (m : Mem) (rs : Regs)
    (h : (Stmt.read k f s long).wf m) :
    ∃ v, (execRegs (.read k f s long) m rs).lookup k = some v ∧
      v % 2 ^ (if long then 64 else 32) = want f long (m.get s f.n) :=
  ⟨_, lookup_setReg _ _ _, read_exact _ _ _ h.1 (length_get _ _ _ h.2)⟩

/-! ### non-vacuity: concrete programs satisfy the hypotheses and show the conversions -/
def exMem : Mem := ⟨[0x80, 0x01, 0xfe, 0xff, 0, 0, 0, 0, 0, 0, 0, 0], [[0, 0]]⟩

-- `>B` at 0 copied to `>H` at 4 (the widening big-endian copy): 0x80 becomes 00 80
example : (Stmt.copy ⟨2, false, .be⟩ (.pkt 4) ⟨1, false, .be⟩ (.pkt 0)).wf exMem ∧
    (execMem (.copy ⟨2, false, .be⟩ (.pkt 4) ⟨1, false, .be⟩ (.pkt 0)) exMem).pkt = [0x80, 0x01, 0xfe, 0xff, 0, 0x80, 0, 0, 0, 0, 0, 0] := by
  refine ⟨⟨by decide, by decide, by decide, by decide⟩, by decide⟩
-- `<h` at 2 (= -2) copied to `>I` at 4: the source's sign is extended, ff ff ff fe
example : (execMem (.copy ⟨4, false, .be⟩ (.pkt 4) ⟨2, true, .le⟩ (.pkt 2)) exMem).pkt = [0x80, 0x01, 0xfe, 0xff, 0xff, 0xff, 0xff, 0xfe, 0, 0, 0, 0] := by decide
-- `>I` at 0 copied to `>H` at 6 (narrowing): the LOW half 0xfeff, not the first two bytes
example : (execMem (.copy ⟨2, false, .be⟩ (.pkt 6) ⟨4, false, .be⟩ (.pkt 0)) exMem).pkt = [0x80, 0x01, 0xfe, 0xff, 0, 0, 0xfe, 0xff, 0, 0, 0, 0] := by decide
-- a chain through a local variable and an overlapping destination; the program is well formed, so `execAll_is_struct` applies
def exProg : List Stmt :=
  [.copy ⟨2, true, .be⟩ (.loc 0) ⟨1, true, .native⟩ (.pkt 0), .read 6 ⟨2, false, .le⟩ (.pkt 1) true,
   .copy ⟨4, false, .le⟩ (.pkt 1) ⟨2, true, .be⟩ (.loc 0), .read 7 ⟨2, false, .le⟩ (.pkt 1) true,
   .iadd ⟨2, false, .be⟩ (.pkt 0) ⟨1, false, .native⟩ (.pkt 4) true]
example : wfAll exProg exMem := by
  intro st hst
  simp only [exProg, List.mem_cons, List.not_mem_nil, or_false] at hst
  rcases hst with rfl | rfl | rfl | rfl | rfl <;> simp only [Stmt.wf] <;> decide
example : (execAll exProg exMem).pkt = [0x7f, 0x81, 0xff, 0xff, 0xff, 0, 0, 0, 0, 0, 0, 0] ∧
    execAllRegs exProg exMem [] = [(7, 0xff80), (6, 0xfe01)] := by decide

end Ebv.C07Seq

