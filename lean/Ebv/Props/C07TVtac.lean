import Ebv.Props.C07TVlib
/-! C07 translation validation, tactics: symbolic execution of one regenerated packet-variable program under `runXdp`
(`fsim`: `xsim` of C22TV with the rules for the opcodes of these programs), and one closing tactic per statement shape.
`fmt_read t` / `fmt_write t` / `fmt_iadd t` prove `Spec t` for a table entry `t` given by name: both guard outcomes
are executed; what the bytecode computed is then matched with the `PktVar` model. -/
namespace Ebv.C07TV
open Ebv.Ebpf Ebv.XdpRun Ebv.Bytes Ebv.PktVar Ebv.Programs

/-- run the program from `⟨R, M, 0⟩`; the extra rules are the facts about the initial registers and memory -/
macro "fsim" "[" ls:Lean.Parser.Tactic.simpLemma,* "]" : tactic => `(tactic|
  simp (maxSteps := 400000) (disch := omega) only [runXdp_succ, cont_none, cont_some, reducePseudo, reduceFetch,
    op_mov64r, op_mov64i, op_add64i, op_add32i, op_ldxw, op_ldxh, op_ldxb, op_ldxdw,
    op_stw, op_stb, op_sth, op_stdw, op_stxb, op_stxh, op_stxw, op_stxdw, op_xaddw, op_xadddw,
    op_le16, op_le32, op_le64, op_be16, op_be32, op_be64, op_lddw, lddw2_some,
    op_lsh64i, op_arsh64i, op_lsh32i, op_arsh32i, op_exit, op_jle_r, jmp_fwd,
    afterStep_next, afterStep_exit, afterStep_bad, afterStep_ite, upd_apply,
    simm, imm32, BitVec.reduceOfInt, BitVec.reduceSignExtend, BitVec.reduceSetWidth, BitVec.reduceToNat,
    Nat.reduceAdd, Nat.reduceSub, Nat.reduceMul, Nat.reducePow, Nat.reduceEqDiff, Nat.reduceLeDiff,
    Nat.reduceLT, Nat.reduceGT, Nat.reduceMod, Nat.reduceDiv,
    Int.reduceAdd, Int.reduceLT, Int.reduceToNat, Int.reduceNeg, Int.reduceEq, Int.reduceNatCast, Int.reduceNegSucc,
    ofNat_add_lo, toNat_ofNat64, add32_ofNat, sext64_8, sext64_16, sext64_32, sext32_8, sext32_16,
    if_true, if_false, ite_true, ite_false, if_pos, if_neg, Nat.add_zero, reduceIte, Nat.zero_le, $ls,*])

set_option hygiene false in
/-- common preamble: the guard covers the access (decided on the entry); open the state and the layout; the load rules
for the packet (`hp`, `hp0`), the bound of the variable's raw value (`hb`); split on the guard (`hlen`); unfold the
entry; `data_end` is a 32-bit field (`hlt`) -/
macro "fmt_setup" t:ident : tactic => `(tactic| (
  refine ⟨by decide, ?_⟩
  intro e ctx dat s pkt hL
  refine ExitsWith.fuel 16 ?_
  obtain ⟨R, M, pc⟩ := s
  obtain ⟨hpc, hr1, hdata, hend, hpkt⟩ := hL
  have hp := hpkt.load
  have hp0 := hpkt.load0
  have hb := decLE_slice_bound pkt ($t).p ($t).n
  have hsw2 := byteSwap_lt 2 (decLE (slice pkt ($t).p (($t).p + ($t).n)) % 65536)
  have hsw4 := byteSwap_lt 4 (decLE (slice pkt ($t).p (($t).p + ($t).n)) % 4294967296)
  by_cases hlen : ($t).N < pkt.length
  all_goals
    simp only [$t:ident, newBytes, fmtOf, pass, Programs.xdpPass, Nat.reduceEqDiff, reduceIte] at *
    subst hpc
    have hlt : dat + pkt.length < 4294967296 := by rw [← hend]; exact loadN_lt' M 4 _))

set_option hygiene false in
/-- `r_k = var` -/
macro "fmt_read" t:ident : tactic => `(tactic| (
  show ReadSpec _
  fmt_setup $t
  · have hb' := hb (by omega)
    simp only [Nat.reduceAdd, Nat.reducePow] at *
    fsim [hr1, hdata, hend, hp, hp0, byteSwap2, byteSwap4]
    refine ⟨rfl, rfl, fun _ => ?_⟩
    simp only [upd_apply, Nat.reduceEqDiff, if_true, if_false]
    congr 1 <;> simp [readReg, PktVar.sext, sx, decBE_encLE2, decBE_encLE4, decBE_encLE8, Nat.mod_eq_of_lt hb']
  · fsim [hr1, hdata, hend]
    exact ⟨rfl, rfl, fun h => absurd h hlen⟩))

set_option hygiene false in
/-- `var = r_k` and `var = constant` (the latter: both sides are closed byte lists) -/
macro "fmt_write" t:ident : tactic => `(tactic| (
  show WriteSpec _
  fmt_setup $t
  · have hb' := hb (by omega)
    simp only [Nat.reduceAdd, Nat.reducePow] at *
    fsim [hr1, hdata, hend, hp, hp0, byteSwap2, byteSwap4]
    refine ⟨rfl, fun _ => ?_, fun h => absurd h (by omega)⟩
    refine store_post hpkt (by omega) _ _ _ _ _ (by omega) (by omega) ?_
    first
      | decide +kernel
      | (simp [writeBytes, toNat_ofNat64_mod, decBE_encLE1, decBE_encLE2, decBE_encLE4, decBE_encLE8, encLE1_mod,
          encLE2_mod, encLE4_mod, encLE8_mod]; done)
  · fsim [hr1, hdata, hend]
    exact ⟨rfl, fun h => absurd h hlen, fun _ => rfl⟩))

set_option hygiene false in
/-- `var += constant`: read-add-write with swaps kept opaque, or one atomic add; the stored value and the model's agree
modulo the variable's width -/
macro "fmt_iadd" t:ident : tactic => `(tactic| (
  show WriteSpec _
  fmt_setup $t
  · have hb' := hb (by omega)
    simp only [Nat.reduceAdd, Nat.reducePow] at *
    fsim [hr1, hdata, hend, hp, hp0, ofNat_add64]
    refine ⟨rfl, fun _ => ?_, fun h => absurd h (by omega)⟩
    refine store_post hpkt (by omega) _ _ _ _ _ (by omega) (by omega) ?_
    simp [iaddBytes, writeBytes, readReg, PktVar.sext, M64, sx, toNat_ofNat64_mod, encLE2_mod, encLE4_mod, encLE8_mod,
      byteSwap2m, byteSwap4m, swap8_eq, encLE1_mod, encLE1_m64, encLE2_m64, encLE4_m64, decBE_encLE1]
    first | with_reducible apply be_congr | with_reducible apply encLE_congr
    simp only [Nat.reducePow]
    clear hp hp0 hb hpkt hsw2 hsw4 hend hdata hr1 hlt hlen
    (repeat' split) <;> omega
  · fsim [hr1, hdata, hend]
    exact ⟨rfl, fun h => absurd h hlen, fun _ => rfl⟩))

/-! ### lifting the entries to the table -/
theorem all_nil {α : Type} {P : α → Prop} : ∀ t ∈ ([] : List α), P t := by intro t ht; cases ht
theorem all_cons {α : Type} {P : α → Prop} {a : α} {l : List α} (h : P a) (hl : ∀ t ∈ l, P t) :
    ∀ t ∈ a :: l, P t := by
  intro t ht
  rcases List.mem_cons.mp ht with rfl | h'
  · exact h
  · exact hl t h'
theorem all_append {α : Type} {P : α → Prop} {l1 l2 : List α} (h1 : ∀ t ∈ l1, P t) (h2 : ∀ t ∈ l2, P t) :
    ∀ t ∈ l1 ++ l2, P t := by
  intro t ht
  rcases List.mem_append.mp ht with h | h
  · exact h1 t h
  · exact h2 t h

end Ebv.C07TV
