import Ebv.Props.C06TVmain
/-! C06 translation validation, entry module: the theorems are in `C06TVmain` (parts a, b, c, one run, the link to the
schedule model), `C06TVtab` (`table_shape`), `C06TVsyn` (`table_syntax`, `table_covers`).  Here: non-vacuity — concrete
invocations satisfying `Lay` for a map variable, a computed address and a local variable, and what the theorems say on
them. -/
namespace Ebv.C06TV
open Ebv.Ebpf Ebv.XdpRun Ebv.Programs

/-- an environment whose map 40 has its value at address 4096; helpers leave a constant in r1–r5 -/
def exEnv : Env := ⟨fun fd => BitVec.ofInt 64 fd, fun h k => if h = 40 ∧ k = 0 then 4096 else 0, 0, fun _ _ => false,
  fun _ _ _ => 0xdead⟩
/-- r10 = 8192, the private register r8 = 7, r1 = 0, everything else junk -/
def exR : Nat → W := fun k => if k = 10 then 8192 else if k = 8 then 7 else if k = 1 then 0 else 0x1111
def exR' : Nat → W := fun k => if k = 10 then 8192 else if k = 8 then 1 else if k = 1 then 0 else 0x2222

theorem exPrivate (va n : Nat) : Private exEnv va n := fun _ _ _ _ _ _ _ => rfl

/-- `v -= r8 * 3 + 5` on a declared 4-byte map variable -/
theorem exLay : Lay Programs.xaddE_var_s4_en5 exEnv ⟨8192, 4096, 0⟩ exR := by
  constructor <;> simp [Programs.xaddE_var_s4_en5, exEnv, exR]
theorem exLay' : Lay Programs.xaddE_var_s4_en5 exEnv ⟨8192, 4096, 0⟩ exR' := by
  constructor <;> simp [Programs.xaddE_var_s4_en5, exEnv, exR']
/-- `m[r7 + r6] += r8` on an 8-byte map variable (r6 := r1 = 0 in the prologue) -/
theorem exLayCom : Lay Programs.xaddE_com_u8_rp exEnv ⟨8192, 4096, 0⟩ exR := by
  constructor <;> simp [Programs.xaddE_com_u8_rp, exEnv, exR]
/-- `v -= r8 * 3 + 7` on a local fixed-point variable 8 bytes below r10 -/
theorem exLayLoc : Lay Programs.xaddE_loc_fx_en7 exEnv ⟨8192, 0, 8⟩ exR := by
  constructor <;> simp [Programs.xaddE_loc_fx_en7, exEnv, exR]

theorem ex_mem : Programs.xaddE_var_s4_en5 ∈ Programs.xaddTable := by decide +kernel
theorem ex_mem_loc : Programs.xaddE_loc_fx_en7 ∈ Programs.xaddTable := by decide +kernel

/-- the amounts the theorems speak of, on these registers: −(7·3+5) mod 2^32, and −(7·3+7)·100000 mod 2^64 -/
example : amount Programs.xaddE_var_s4_en5 (exR 8) = 4294967270 := by decide
example : amount Programs.xaddE_loc_fx_en7 (exR 8) = 18446744073706751616 := by decide

/-- on this invocation `table_run`/`stmt_is_step` say: whatever the memory, if the variable held 30 the real program
leaves 4 in it (30 − 26) -/
example (M : Mem) (h : cell Programs.xaddE_var_s4_en5 ⟨8192, 4096, 0⟩ M = 30) :
    cell Programs.xaddE_var_s4_en5 ⟨8192, 4096, 0⟩ (runOnce exEnv Programs.xaddE_var_s4_en5 exR M) = 4 := by
  have h1 := stmt_is_step ex_mem exLay M
  rw [h] at h1
  have h2 : amount Programs.xaddE_var_s4_en5 (exR Programs.xaddE_var_s4_en5.areg) = 4294967270 := by decide
  simp only [Xadd.stepThread, threadOf, h2, Bool.false_eq_true, if_false, if_true, Prod.mk.injEq] at h1
  rw [← h1.1]; decide

/-- two instances (r8 = 7 and r8 = 1) under a schedule that interleaves them instruction by instruction: the model's
cell ends at 30 − 26 − 8 modulo 2^32, which is what the real code run twice in sequence leaves -/
example (M : Mem) (h : cell Programs.xaddE_var_s4_en5 ⟨8192, 4096, 0⟩ M = 30) :
    cell Programs.xaddE_var_s4_en5 ⟨8192, 4096, 0⟩ (runAll exEnv Programs.xaddE_var_s4_en5 [exR, exR'] M) = 4294967292 := by
  have hs := real_sum ex_mem [exR, exR'] (e := exEnv) (g := ⟨8192, 4096, 0⟩)
    (by intro R hR; simp at hR; rcases hR with rfl | rfl; exact exLay; exact exLay') M
  rw [hs, h]; decide

end Ebv.C06TV
