import Ebv.Props.C06TVlib
/-! C06 translation validation, composition (generic in the table entry): from the shape (`Spec`) and the text
(`Syntax`) of a compiled statement to one run of the whole program — it exits, and the final memory is the initial one
with the variable increased by the amount, everything else independent of the variable. -/
namespace Ebv.C06TV
open Ebv.Ebpf Ebv.XdpRun Ebv.Programs

/-- the variable's value in a memory -/
def cell (t : XaddProg) (g : Place) (M : Mem) : Nat := loadN M (BitVec.ofNat 64 (varAddr t g)) t.n

theorem pow_bits (n : Nat) : 2 ^ (8 * n) = 256 ^ n := by
  rw [Nat.pow_mul]

theorem cell_lt (t : XaddProg) (g : Place) (M : Mem) : cell t g M < 2 ^ (8 * t.n) := by
  rw [pow_bits]; exact loadN_lt' M t.n _

theorem pre_length {t : XaddProg} (hX : Syntax t) : (pre t).length = t.xpos := by
  have h := congrArg List.length hX.1
  simp only [List.length_append, List.length_cons] at h
  have h2 : (pre t).length = min t.xpos t.prog.length := by simp [pre]
  omega

theorem fetch_xadd {t : XaddProg} (hX : Syntax t) : fetch t.prog t.xpos = some (xinsn t) := by
  have hl := pre_length hX
  have : fetch (pre t ++ xinsn t :: post t) t.xpos = some (xinsn t) := by
    unfold fetch
    rw [List.getElem?_append_right (by omega), hl, Nat.sub_self]
    rfl
  rwa [← hX.1] at this

/-- **one run of the statement** from ANY memory `M` (registers as `Lay` says): the program exits with 0 and the
final memory `F M` has the variable increased by `amount` (modulo its width) — a function of the private register
alone — while `F M` off the variable does not depend on the variable's bytes -/
theorem stmt_run {t : XaddProg} (hS : Spec t) (hX : Syntax t) {e : Env} {g : Place} {R : Nat → W} (hL : Lay t e g R) :
    ∃ F : Mem → Mem,
      (∀ M fuel, t.steps + 9 ≤ fuel → ∃ R'' pc'', runXdp e t.prog fuel ⟨R, M, 0⟩ = .exit 0 ⟨R'', F M, pc''⟩) ∧
      (∀ M, cell t g (F M) = (cell t g M + amount t (R t.areg)) % 2 ^ (8 * t.n)) ∧
      (∀ M M2, EqOff (varAddr t g) t.n M M2 → EqOff (varAddr t g) t.n (F M) (F M2)) := by
  obtain ⟨hv, Rf, Mf, Pf, hpre, hsame, heqo, -, htgt, hamt, hpost, hpsame, hpeqo⟩ := hS e g R hL
  have hn := hX.2.1
  have hf := fetch_xadd hX
  refine ⟨fun M => Pf (storeN (Mf M) (BitVec.ofNat 64 (varAddr t g)) t.n
    (loadN (Mf M) (BitVec.ofNat 64 (varAddr t g)) t.n + (Rf M t.xsrc).toNat)), ?_, ?_, ?_⟩
  · intro M fuel hfuel
    -- pre, then the atomic add, then post
    have h1 : Steps e t.prog t.steps ⟨R, M, 0⟩ ⟨Rf M, Mf M, t.xpos⟩ := by
      have := hpre (xinsn t :: post t) M
      rwa [← hX.1] at this
    have h2 : Steps e t.prog 1 ⟨Rf M, Mf M, t.xpos⟩ ⟨Rf M, storeN (Mf M) (BitVec.ofNat 64 (varAddr t g)) t.n
        (loadN (Mf M) (BitVec.ofNat 64 (varAddr t g)) t.n + (Rf M t.xsrc).toNat), t.xpos + 1⟩ := by
      refine ⟨1, Nat.le_refl _, fun f => ?_⟩
      have := xadd_step t.prog (Rf M) (Mf M) t.xpos t.xdst t.xoff e t.n hn t.xsrc f hf
      rwa [htgt M] at this
    obtain ⟨R'', pc'', h3⟩ := hpost M (storeN (Mf M) (BitVec.ofNat 64 (varAddr t g)) t.n
        (loadN (Mf M) (BitVec.ofNat 64 (varAddr t g)) t.n + (Rf M t.xsrc).toNat))
    obtain ⟨k, hk, hrun⟩ := h1.trans h2
    refine ⟨R'', pc'', ?_⟩
    have h4 := h3 0
    rw [Nat.zero_add, ← hrun 8] at h4
    obtain ⟨j, rfl⟩ : ∃ j, fuel = (8 + k) + j := ⟨fuel - (8 + k), by omega⟩
    rw [runXdp_add e t.prog (8 + k) j _ (by rw [h4]; exact fun hc => by cases hc), h4]
  · intro M
    unfold cell
    rw [← (hpsame _).load hv, loadN_storeN_same _ _ _ _ _ hv (Nat.le_refl _), ← (hsame M).load hv, ← pow_bits,
      ← hamt M, Nat.add_mod_mod]
  · intro M M2 h
    exact hpeqo _ _ (EqOff.storeN_var _ _ hv (heqo M M2 h))

end Ebv.C06TV
