import Ebv.Props.C08
/-! C29 — process-based sync groups share device variables correctly.
`SimulatedEBPF.__init__` discovers the group's maps over the whole MRO and collects the variables of
the group and of all its devices (= subprograms) into one shared array; `DeviceVar` goes through the
`ArrayGlobalVarDesc` accessors of that array.  Both processes hold the same array and the same positions
(assumption: bytes written to the shared `multiprocessing` Array are the bytes read). -/
namespace Ebv.C29
open Ebv.Bytes Ebv.Collect Ebv.C08

/-! ### every DeviceVar is collected -/

theorem simDiscover_first (gmro : List (List MapAttr)) (n : Nat) (a : MapAttr)
    (hf : gmro.flatten.find? (·.attr = n) = some a) : a ∈ simDiscover gmro :=
  simDiscoverGo_first _ [] n a hf (by simp)

/-- a declaration of map `m` in a class yields a collected triple with its key -/
theorem classTriplesGo_key (m pid : Nat) (ds : Cls) (seen : List Nat) (d : Decl) (hd : d ∈ ds) (hm : d.map = m) :
    d.name ∈ seen ∨ ∃ t ∈ classTriplesGo m pid ds seen, t.key = (pid, d.name) := by
  induction ds generalizing seen with
  | nil => cases hd
  | cons e es ih =>
    unfold classTriplesGo
    split
    next hc =>
      rcases List.mem_cons.1 hd with rfl | hd'
      · exact Or.inr ⟨_, List.mem_cons_self, rfl⟩
      · rcases ih (e.name :: seen) hd' with h | ⟨t, ht, hk⟩
        · rcases List.mem_cons.1 h with h | h
          · exact Or.inr ⟨_, List.mem_cons_self, by simp [Triple.key, h]⟩
          · exact Or.inl h
        · exact Or.inr ⟨t, List.mem_cons_of_mem _ ht, hk⟩
    next hc =>
      rcases List.mem_cons.1 hd with rfl | hd'
      · have : d.name ∈ seen := by
          simp only [not_and, Decidable.not_not] at hc
          simpa using hc hm
        exact Or.inl this
      · exact ih seen hd'

theorem triples_key (m : Nat) (progs : List Prog) (p : Prog) (hp : p ∈ dedupProgs progs) (cls : Cls) (hc : cls ∈ p.mro)
    (d : Decl) (hd : d ∈ cls) (hm : d.map = m) : ∃ t ∈ triples m progs, t.key = (p.id, d.name) := by
  have hf : d ∈ p.mro.flatten := List.mem_flatten.2 ⟨cls, hc, hd⟩
  rcases classTriplesGo_key m p.id p.mro.flatten [] d hf hm with h | ⟨t, ht, hk⟩
  · cases h
  · exact ⟨t, List.mem_flatMap.2 ⟨p, hp, ht⟩, hk⟩

/-- every listed instance survives the de-duplication under its identity -/
theorem dedupGo_mem (ps : List Prog) (seen : List Nat) (p : Prog) (hp : p ∈ ps) :
    p.id ∈ seen ∨ ∃ q ∈ dedupGo ps seen, q.id = p.id := by
  induction ps generalizing seen with
  | nil => cases hp
  | cons x xs ih =>
    unfold dedupGo
    split
    next hc =>
      rcases List.mem_cons.1 hp with rfl | hp'
      · exact Or.inl (by simpa using hc)
      · exact ih seen hp'
    next hc =>
      rcases List.mem_cons.1 hp with rfl | hp'
      · exact Or.inr ⟨_, List.mem_cons_self, rfl⟩
      · rcases ih (x.id :: seen) hp' with h | ⟨q, hq, e⟩
        · rcases List.mem_cons.1 h with h | h
          · exact Or.inr ⟨x, List.mem_cons_self, h.symm⟩
          · exact Or.inl h
        · exact Or.inr ⟨q, List.mem_cons_of_mem _ hq, e⟩

theorem positionOf_isSome (ts : List Triple) (t : Triple) (ht : t ∈ ts) : (positionOf ts t.key).isSome := by
  have hm : t ∈ sortDesc ts := (mem_sortDesc t ts).2 ht
  have : t ∈ (place 0 (sortDesc ts)).map Prod.fst := by rw [place_fst]; exact hm
  obtain ⟨x, hx, hx1⟩ := List.mem_map.1 this
  exact lookupLast_isSome t.key _ x hx (by rw [hx1])

/-- **devicevars_collected**: for any group class chain in which the first map attribute called `n` is
the map `a.map` the DeviceVars are bound to, and any list of devices with any class chains:
the group gets a shared array of the collected size for it, and every DeviceVar (declaration of that map)
of every class of every device (each instance once, `dedupGo_mem`) has a position in it -/
theorem devicevars_collected (gmro : List (List MapAttr)) (progs : List Prog) (n : Nat) (a : MapAttr)
    (hf : gmro.flatten.find? (·.attr = n) = some a) :
    (a, total (triples a.map progs)) ∈ initMaps (simDiscover gmro) progs ∧
    ∀ p ∈ dedupProgs progs, ∀ cls ∈ p.mro, ∀ d ∈ cls, d.map = a.map →
      (positionOf (triples a.map progs) (p.id, d.name)).isSome := by
  refine ⟨?_, ?_⟩
  · unfold initMaps
    exact List.mem_map.2 ⟨a, simDiscover_first gmro n a hf, rfl⟩
  · intro p hp cls hc d hd hm
    obtain ⟨t, ht, hk⟩ := triples_key a.map progs p hp cls hc d hd hm
    rw [← hk]; exact positionOf_isSome _ t ht

/-! ### disjointness and round trip, from C08 -/

/-- **devices_disjoint_full**: variables of different devices never share storage — for any devices and
class chains, including DeviceVars redeclared in subclasses and devices listed twice -/
def devices_disjoint_full : Prop :=
  ∀ (m : Nat) (progs : List Prog) (d₁ d₂ n₁ n₂ p₁ s₁ p₂ s₂ : Nat), d₁ ≠ d₂ →
    rangeOf (triples m progs) (d₁, n₁) = some (p₁, s₁) → rangeOf (triples m progs) (d₂, n₂) = some (p₂, s₂) →
    p₁ + s₁ ≤ p₂ ∨ p₂ + s₂ ≤ p₁

theorem devices_disjoint_full_proved : devices_disjoint_full := by
  intro m progs d₁ d₂ n₁ n₂ p₁ s₁ p₂ s₂ hd h₁ h₂
  exact (collect_disjoint m progs).1 (d₁, n₁) (d₂, n₂) p₁ s₁ p₂ s₂ (fun e => hd (Prod.mk.inj e).1) h₁ h₂

/-- and every variable lies inside the shared array the group allocates -/
theorem devices_inside (m : Nat) (progs : List Prog) (k : Key) (p s : Nat)
    (h : rangeOf (triples m progs) k = some (p, s)) : p + s ≤ (zeros (total (triples m progs))).length := by
  rw [length_zeros]; exact (collect_disjoint m progs).2.1 _ _ _ h

/-- writing one variable leaves every variable with a disjoint range unchanged -/
theorem other_var_unchanged (fmt fmt₂ : Fmt) (vs : List Int) (data data' : List UInt8) (pos pos₂ : Nat)
    (hs : pySet data fmt pos vs = .ok data')
    (hd : pos + fmtsize fmt ≤ pos₂ ∨ pos₂ + fmtsize fmt₂ ≤ pos) :
    unpack fmt₂ data' pos₂ = unpack fmt₂ data pos₂ := by
  unfold pySet at hs
  cases hp : pack fmt vs with
  | none => simp [hp] at hs
  | some bs =>
    obtain ⟨hl, _⟩ := pack_spec fmt vs bs hp
    simp only [hp] at hs
    split at hs
    next hr =>
      have e : data' = setRange data pos bs := by injection hs with hs; exact hs.symm
      subst e
      unfold unpack
      rw [length_setRange _ _ _ hr, slice_setRange_disjoint _ _ _ _ _ hr (by omega) (by omega)]
    next => cases hs

/-- **shared_roundtrip**: a value one process writes into the shared array is what the other process
(same array, same positions) reads, for every format -/
theorem shared_roundtrip (fmt : Fmt) (vs : List Int) (arr : List UInt8) (pos : Nat) (bs : List UInt8)
    (hp : pack fmt vs = some bs) (hr : pos + fmtsize fmt ≤ arr.length) :
    ∃ arr', pySet arr fmt pos vs = .ok arr' ∧ unpack fmt arr' pos = .ok vs := by
  obtain ⟨d, h1, _, h3, _⟩ := py_roundtrip fmt vs arr pos bs hp hr
  exact ⟨d, h1, h3⟩

/-! ### devices that change their group

A device can be put into a new sync group after it was laid out in another one (an application regrouping its
devices, a group created again with one more device in front).  `SimulatedEBPF.__init__` collects the shared
map anew for the new group; the positions live in the devices' `__dict__`s, which have seen the earlier layout. -/

theorem collects_of_size (a : MapAttr) (progs : List Prog) (k : Key) (s : Nat)
    (h : accessSizeOf (triples a.map progs) k = some s) : (⟨[a], progs⟩ : NewObj).collects k := by
  obtain ⟨t, ht, hk, _⟩ := accessSizeOf_mem _ k s h
  exact ⟨a, List.mem_cons_self, by rw [← hk]; exact positionOf_isSome _ t ht⟩

/-- **regrouped_layout**: after any history of group creations, a group none of whose devices was put into a later
group has every device variable exactly at the position of a layout from scratch -/
theorem regrouped_layout (σ : Dicts) (before after : List NewObj) (a : MapAttr) (progs : List Prog)
    (hlater : ∀ o' ∈ after, ∀ q' ∈ o'.progs, ∀ q ∈ progs, q'.id ≠ q.id) (k : Key) (s : Nat)
    (h : accessSizeOf (triples a.map progs) k = some s) :
    (runNews σ (before ++ ⟨[a], progs⟩ :: after)).get k = positionOf (triples a.map progs) k := by
  rw [history_layout σ before after ⟨[a], progs⟩ k (collects_of_size a progs k s h) hlater, freshPos_single]

/-- **regrouped_devices_disjoint**: however the process got there - devices laid out before in other groups, in
another order, alone - variables of different devices of the group never share storage, and lie inside its array -/
theorem regrouped_devices_disjoint (σ : Dicts) (before after : List NewObj) (a : MapAttr) (progs : List Prog)
    (hlater : ∀ o' ∈ after, ∀ q' ∈ o'.progs, ∀ q ∈ progs, q'.id ≠ q.id)
    (d₁ d₂ n₁ n₂ p₁ s₁ p₂ s₂ : Nat) (hd : d₁ ≠ d₂)
    (h₁ : (runNews σ (before ++ ⟨[a], progs⟩ :: after)).get (d₁, n₁) = some p₁)
    (z₁ : accessSizeOf (triples a.map progs) (d₁, n₁) = some s₁)
    (h₂ : (runNews σ (before ++ ⟨[a], progs⟩ :: after)).get (d₂, n₂) = some p₂)
    (z₂ : accessSizeOf (triples a.map progs) (d₂, n₂) = some s₂) :
    (p₁ + s₁ ≤ p₂ ∨ p₂ + s₂ ≤ p₁) ∧ p₁ + s₁ ≤ total (triples a.map progs) := by
  rw [regrouped_layout σ before after a progs hlater _ s₁ z₁] at h₁
  rw [regrouped_layout σ before after a progs hlater _ s₂ z₂] at h₂
  have r₁ := (rangeOf_eq _ _ p₁ s₁).2 ⟨h₁, z₁⟩
  have r₂ := (rangeOf_eq _ _ p₂ s₂).2 ⟨h₂, z₂⟩
  exact ⟨devices_disjoint_full_proved a.map progs d₁ d₂ n₁ n₂ p₁ s₁ p₂ s₂ hd r₁ r₂,
         (collect_disjoint a.map progs).2.1 _ _ _ r₁⟩

/-- the seeded scenario: device 1 was laid out alone (its `I` at 4, behind the group's `wkc_errors`... at 0 here),
then a new group lists device 2 (`Q`) in front of it: device 1 moves behind device 2's variable -/
example : (runNews [] [⟨[⟨0, 0⟩], [⟨100, [[⟨50, 0, .arr false 1 .I⟩]]⟩, ⟨1, [[⟨0, 0, .arr false 1 .I⟩]]⟩]⟩,
    ⟨[⟨0, 0⟩], [⟨101, [[⟨50, 0, .arr false 1 .I⟩]]⟩, ⟨2, [[⟨0, 0, .arr false 1 .Q⟩]]⟩, ⟨1, [[⟨0, 0, .arr false 1 .I⟩]]⟩]⟩]).get (1, 0)
    = some 12 := by decide

/-! ### the code before the repair -/

/-- group (id 0) with `wkc_errors:'I'` (name 50); device 1 of class `D1(D0)`, `D0` declares `a:'B', b:'B'`,
`D1` redeclares `a:'Q'`; device 2 declares `a:'B'` -/
def overrideGroup : List Prog :=
  [⟨0, [[⟨50, 0, .arr false 1 .I⟩]]⟩,
   ⟨1, [[⟨0, 0, .arr false 1 .Q⟩], [⟨0, 0, .arr false 1 .B⟩, ⟨1, 0, .arr false 1 .B⟩]]⟩,
   ⟨2, [[⟨0, 0, .arr false 1 .B⟩]]⟩]

/-- with the old collection device 1's `a` (8 bytes at 12) covered device 2's `a` (at 14) -/
theorem devices_disjoint_old_refuted : ¬ ∀ (m : Nat) (progs : List Prog) (d₁ d₂ n₁ n₂ p₁ s₁ p₂ s₂ : Nat), d₁ ≠ d₂ →
    rangeOf (triplesOld m progs) (d₁, n₁) = some (p₁, s₁) → rangeOf (triplesOld m progs) (d₂, n₂) = some (p₂, s₂) →
    p₁ + s₁ ≤ p₂ ∨ p₂ + s₂ ≤ p₁ := by
  intro h
  have := h 0 overrideGroup 1 2 0 0 12 8 14 1 (by decide) (by decide) (by decide)
  omega

example : rangeOf (triples 0 overrideGroup) (1, 0) = some (0, 8) := by decide
example : rangeOf (triples 0 overrideGroup) (2, 0) = some (13, 1) := by decide

/-! ### `DeviceVar` dispatch -/

theorem devGet_none (d : Option (List Int)) (a : Except Err (List Int)) : devGet .none d a = .selfRef := rfl
theorem devGet_plain_default (a : Except Err (List Int)) : devGet .plain none a = .val [0] := rfl
theorem devGet_plain (v : List Int) (a : Except Err (List Int)) : devGet .plain (some v) a = .val v := rfl
theorem devGet_loaded (d : Option (List Int)) (v : List Int) : devGet .loaded d (.ok v) = .val v := rfl

/-! ### non-vacuity -/

/-- `ProcessSyncGroup`: `properties` (attr 0 → map 0) in its own class; two devices of one class, one of another -/
def sampleGroup : List Prog :=
  [⟨0, [[⟨50, 0, .arr false 1 .I⟩]]⟩,
   ⟨1, [[⟨0, 0, .arr false 1 .I⟩, ⟨1, 0, .arr false 1 .q⟩, ⟨2, 0, .arr false 3 .B⟩]]⟩,
   ⟨2, [[⟨0, 0, .arr false 1 .H⟩]]⟩,
   ⟨3, [[⟨0, 0, .arr false 1 .I⟩, ⟨1, 0, .arr false 1 .q⟩, ⟨2, 0, .arr false 3 .B⟩]]⟩]

example : ([[⟨0, 0⟩], [], []] : List (List MapAttr)).flatten.find? (·.attr = 0) = some ⟨0, 0⟩ := by decide
example : ((triples 0 sampleGroup).map Triple.key).Nodup := by decide
example : total (triples 0 sampleGroup) = 40 := by decide
example : rangeOf (triples 0 sampleGroup) (1, 0) = some (20, 4) := by decide
example : rangeOf (triples 0 sampleGroup) (3, 2) = some (31, 3) := by decide
example : rangeOf (triples 0 sampleGroup) (0, 50) = some (16, 4) := by decide

end Ebv.C29
