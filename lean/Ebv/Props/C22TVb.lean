import Ebv.Props.C22TVa
/-! C22 translation validation, part b: the "lost frame" paths of a group frame (index byte = low byte of the
group's counter): the counter advances to the next even value and the frame takes the active role. -/
namespace Ebv.C22TV
open Ebv.Ebpf Ebv.XdpRun Ebv.Bytes Ebv.Dispatch

variable {a : Addrs} {e : Env} {s : State} {p : List UInt8} {cs : List Nat} {dc : Nat} {reg : Nat → Bool}

/-- fields behind the index byte are not affected by rewriting it -/
theorem slice_setRange17 (p : List UInt8) (w c d : Nat) (h : 18 ≤ p.length) (hc : 18 ≤ c) (hcd : c ≤ d) :
    slice (setRange p 17 (encLE 1 w)) c d = slice p c d :=
  slice_setRange_disjoint p 17 (encLE 1 w) c d (by simp; omega) (by simp; omega) hcd

/-- final memory of a frame that took a role (counter advanced to `c'`, index byte rewritten) -/
theorem leaf3 (hL : Layout geo a e s p cs dc reg) (z G v w c' : Nat) (hG : G < 64) (h17 : 17 < p.length)
    (hv : v % 4294967296 = c') (hw : w % 256 = c' % 256) :
    MemRel geo a s.mem (storeN (storeN (storeN s.mem (BitVec.ofNat 64 (a.stk - 4)) 4 z)
        (BitVec.ofNat 64 (a.mp + G * 4)) 4 v) (BitVec.ofNat 64 (a.dat + 17)) 1 w)
      (setRange p 17 [UInt8.ofNat (c' % 256)]) (cs.set G c') dc p.length := by
  refine MemRel.congr (rel3 hL z G v w hG h17) ?_ (by rw [hv]) rfl
  simp only [encLE, hw]

/-- the same, handed to user space: the ethertype is overwritten with the identification datagram's data -/
theorem leaf4 (hL : Layout geo a e s p cs dc reg) (z G v w c' : Nat) (hG : G < 64) (h30 : 30 < p.length)
    (hv : v % 4294967296 = c') (hw : w % 256 = c' % 256) :
    MemRel geo a s.mem (storeN (storeN (storeN (storeN s.mem (BitVec.ofNat 64 (a.stk - 4)) 4 z)
        (BitVec.ofNat 64 (a.mp + G * 4)) 4 v) (BitVec.ofNat 64 (a.dat + 17)) 1 w) (BitVec.ofNat 64 (a.dat + 12)) 2
        (decLE (slice p 26 28) % 256 * 256 + decLE (slice p 26 28) / 256 % 256))
      (setEthertypeFromData (setRange p 17 [UInt8.ofNat (c' % 256)])) (cs.set G c') dc p.length := by
  have h3 := leaf3 hL z G v w c' hG (by omega) hv hw
  have := MemRel.store_pkt hL.regions geo_ok h3 12 2
    (decLE (slice p 26 28) % 256 * 256 + decLE (slice p 26 28) / 256 % 256) (by omega)
  refine MemRel.congr this ?_ rfl rfl
  have e1 : [UInt8.ofNat (c' % 256)] = encLE 1 c' := by simp [encLE]
  rw [setEt_eq, e1, slice_setRange17 p c' 26 28 (by omega) (by omega) (by omega)]

set_option hygiene false in
/-- preamble of the group-frame paths: on top of `xsetup`, the conditions that lead to the counter logic in the form
the program tests them, the group `G`, its counter `c`, and the load rules for the memory after the index store -/
macro "gsetup" : tactic => `(tactic| (
  xsetup
  rw [decBE_slice2 p 12 (by omega)] at het
  rw [← decLE_slice1 p 16 (by omega)] at hcmd
  have hb := decLE_slice_lt p 12 2 (by omega)
  have hb16 := decLE_slice_lt p 16 1 (by omega)
  have hb17 := decLE_slice_lt p 17 1 (by omega)
  have hb26 := decLE_slice_lt p 26 2 (by omega)
  have h17 : 17 < p.length := by omega
  have hp3 := fun z v w => (loads_of_rel hL' (rel3 hL' z _ v w hg h17)).1
  have hd3 := fun z v w => (loads_of_rel hL' (rel3 hL' z _ v w hg h17)).2.1
  have he3 := fun z v w => (loads_of_rel hL' (rel3 hL' z _ v w hg h17)).2.2.1
  simp only [Nat.reduceAdd, Nat.reducePow] at *))

set_option maxRecDepth 4000 in
set_option maxHeartbeats 2000000 in
theorem path_lost_reg (hL : Layout geo a e s p cs dc reg) (h : 30 < p.length)
    (het : decBE (slice p 12 14) = 34980) (hcmd : getU8 p 16 = 0) (hg : decLE (slice p 18 22) < 64)
    (hk : getU8 p 17 = cs.getD (decLE (slice p 18 22)) 0 % 256) (hr : reg (decLE (slice p 18 22)) = true) :
    Post geo a e s.mem p.length (decLE (slice p 18 22))
      ⟨.run, setRange p 17 [UInt8.ofNat ((cs.getD (decLE (slice p 18 22)) 0 + 1 + cs.getD (decLE (slice p 18 22)) 0 % 2) % 4294967296 % 256)],
        cs.set (decLE (slice p 18 22)) ((cs.getD (decLE (slice p 18 22)) 0 + 1 + cs.getD (decLE (slice p 18 22)) 0 % 2) % 4294967296), dc⟩
      (runXdp e Programs.etherXdp 90 s) := by
  rw [← decLE_slice1 p 17 (by omega)] at hk
  gsetup
  generalize hG : decLE (slice p 18 22) = G at *
  xsim [hr10, hr1, hlook, htail, hmp, hp1, hd1, he1, hc41, hc11, hr, Nat.and_one_is_mod, hp3, hd3, he3, hG]
  refine ⟨rfl, leaf3 hL' 0 G _ _ _ hg h17 (by omega) (by omega), ?_, ?_, ?_⟩
  all_goals simp only [upd_apply, callR_apply, Nat.reduceEqDiff, Nat.reduceLeDiff, if_true, if_false, addr]
set_option maxRecDepth 4000 in
set_option maxHeartbeats 2000000 in
theorem path_lost_unreg (hL : Layout geo a e s p cs dc reg) (h : 30 < p.length)
    (het : decBE (slice p 12 14) = 34980) (hcmd : getU8 p 16 = 0) (hg : decLE (slice p 18 22) < 64)
    (hk : getU8 p 17 = cs.getD (decLE (slice p 18 22)) 0 % 256) (hr : reg (decLE (slice p 18 22)) = false) :
    Post geo a e s.mem p.length (decLE (slice p 18 22))
      ⟨.pass, setEthertypeFromData (setRange p 17 [UInt8.ofNat ((cs.getD (decLE (slice p 18 22)) 0 + 1 + cs.getD (decLE (slice p 18 22)) 0 % 2) % 4294967296 % 256)]),
        cs.set (decLE (slice p 18 22)) ((cs.getD (decLE (slice p 18 22)) 0 + 1 + cs.getD (decLE (slice p 18 22)) 0 % 2) % 4294967296), dc⟩
      (runXdp e Programs.etherXdp 90 s) := by
  rw [← decLE_slice1 p 17 (by omega)] at hk
  gsetup
  generalize hG : decLE (slice p 18 22) = G at *
  xsim [hr10, hr1, hlook, htail, hmp, hp1, hd1, he1, hc41, hc11, hr, Nat.and_one_is_mod, hp3, hd3, he3, hG,
    slice_setRange17, Bool.false_eq_true]
  exact ⟨rfl, leaf4 hL' 0 G _ _ _ hg h (by omega) (by omega)⟩

end Ebv.C22TV
