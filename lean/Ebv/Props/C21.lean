import Ebv.Model.FastGroup
import Ebv.Model.Dispatch
import Ebv.Props.C22
/-! C21 — fast-group frames only write outputs computed in the same pass. -/
namespace Ebv.C21
open Ebv.FastGroup Ebv.Dispatch Ebv.Consts

/-! ### user space: sterile frames -/

theorem sterile_length (starts : List Nat) (frame : List UInt8) : (sterile starts frame).length = frame.length := by
  unfold sterile
  induction starts generalizing frame with
  | nil => rfl
  | cons s ss ih => simp [List.foldl, ih]

/-- in a sterile frame the command byte of every write datagram is NOP and every other byte is as assembled -/
theorem sterile_disables (starts : List Nat) (frame : List UInt8) (i : Nat) (hi : i < frame.length) :
    (sterile starts frame)[i]? = if i ∈ starts then some (UInt8.ofNat cmd_NOP) else frame[i]? := by
  unfold sterile
  induction starts generalizing frame with
  | nil => simp
  | cons s ss ih =>
    simp only [List.foldl, List.mem_cons]
    rw [ih (frame.set s (UInt8.ofNat cmd_NOP)) (by simpa using hi)]
    by_cases h1 : i ∈ ss
    · simp [h1]
    · by_cases h2 : i = s
      · subst h2; simp [h1, hi]
      · have : ¬ s = i := fun h => h2 h.symm
        simp [h1, h2, List.getElem?_set, this]

/-! ### kernel side: one pass of the group's program -/

theorem activateOne_length (w : Writer) (p : List UInt8) (e : Nat) : (activateOne w p e).1.length = p.length := by
  simp [activateOne]

theorem activateOne_get (w : Writer) (p : List UInt8) (e : Nat) (i : Nat)
    (hw : w.cmdPos < p.length ∧ w.wkcPos + 1 < p.length ∧ w.cmdPos ≠ w.wkcPos ∧ w.cmdPos ≠ w.wkcPos + 1) :
    (activateOne w p e).1[i]? =
      if i = w.wkcPos + 1 then some 0 else if i = w.wkcPos then some 0
      else if i = w.cmdPos then some (UInt8.ofNat w.cmd) else p[i]? := by
  obtain ⟨h1, h2, h3, h4⟩ := hw
  simp only [activateOne, List.getElem?_set, List.length_set]
  by_cases a : w.wkcPos + 1 = i
  · subst a; simp [h2]
  · have a' : ¬ i = w.wkcPos + 1 := fun h => a h.symm
    simp only [a, a', ↓reduceIte]
    by_cases b : w.wkcPos = i
    · subst b; simp; omega
    · have b' : ¬ i = w.wkcPos := fun h => b h.symm
      simp only [b, b', ↓reduceIte]
      by_cases c : w.cmdPos = i
      · subst c; simp [h1]
      · have c' : ¬ i = w.cmdPos := fun h => c h.symm
        simp [c, c']

theorem wkcAt_congr (p q : List UInt8) (pos : Nat) (h0 : p[pos]? = q[pos]?) (h1 : p[pos + 1]? = q[pos + 1]?) :
    wkcAt p pos = wkcAt q pos := by
  simp [wkcAt, List.getD, h0, h1]

/-- what a pass with output enabled does, for any list of write datagrams whose positions are distinct
and inside the packet -/
theorem activateAll_exact (ws : List Writer) (p : List UInt8) (e : Nat) (h : wf ws p.length = true) :
    let r := activateAll ws p e
    r.1.length = p.length ∧
    (∀ i, (∀ w ∈ ws, i ∉ positions w) → r.1[i]? = p[i]?) ∧
    (∀ w ∈ ws, r.1[w.cmdPos]? = some (UInt8.ofNat w.cmd) ∧ r.1[w.wkcPos]? = some 0 ∧ r.1[w.wkcPos + 1]? = some 0) ∧
    r.2 % FastGroup.M32 = (e + mismatches ws p) % FastGroup.M32 := by
  induction ws generalizing p e with
  | nil => simp [activateAll, mismatches]
  | cons w ws ih =>
    simp only [wf, List.all_cons, Bool.and_eq_true, decide_eq_true_eq, List.flatMap_cons, List.nodup_append] at h
    obtain ⟨⟨hw, hall⟩, hnd1, hnd2, hdisj⟩ := h
    have hwf' : wf ws (activateOne w p e).1.length = true := by
      simp only [wf, Bool.and_eq_true, decide_eq_true_eq, activateOne_length]
      exact ⟨hall, hnd2⟩
    have ih := ih (activateOne w p e).1 (activateOne w p e).2 hwf'
    simp only [activateAll]
    have hget := activateOne_get w p e
    have hw4 : w.cmdPos < p.length ∧ w.wkcPos + 1 < p.length ∧ w.cmdPos ≠ w.wkcPos ∧ w.cmdPos ≠ w.wkcPos + 1 :=
      ⟨hw.1, hw.2.1, hw.2.2.1, hw.2.2.2.1⟩
    obtain ⟨ih1, ih2, ih3, ih4⟩ := ih
    -- positions of w are not positions of the remaining writers
    have hsep : ∀ x ∈ positions w, ∀ w' ∈ ws, x ∉ positions w' := by
      intro x hx w' hw' hx'
      exact hdisj x hx x (List.mem_flatMap.2 ⟨w', hw', hx'⟩) rfl
    refine ⟨by rw [ih1, activateOne_length], ?_, ?_, ?_⟩
    · intro i hi
      rw [ih2 i (fun w' hw' => hi w' (List.mem_cons_of_mem _ hw'))]
      have := hi w (List.mem_cons_self ..)
      simp only [positions, List.mem_cons, List.not_mem_nil, or_false, not_or] at this
      rw [hget i hw4]
      simp [this.1, this.2.1, this.2.2]
    · intro w' hw'
      rcases List.mem_cons.1 hw' with rfl | hw'
      · have n1 := hsep w'.cmdPos (by simp [positions])
        have n2 := hsep w'.wkcPos (by simp [positions])
        have n3 := hsep (w'.wkcPos + 1) (by simp [positions])
        rw [ih2 _ n1, ih2 _ n2, ih2 _ n3, hget _ hw4, hget _ hw4, hget _ hw4]
        refine ⟨?_, ?_, ?_⟩ <;> simp [hw4.2.2.1, hw4.2.2.2]
      · exact ih3 w' hw'
    · rw [ih4]
      have hm : mismatches ws (activateOne w p e).1 = mismatches ws p := by
        unfold mismatches
        congr 1
        apply List.filter_congr
        intro w' hw'
        have e0 : (activateOne w p e).1[w'.wkcPos]? = p[w'.wkcPos]? := by
          rw [hget _ hw4]
          have a := hsep w.cmdPos (by simp [positions]) w' hw'
          have b := hsep w.wkcPos (by simp [positions]) w' hw'
          have c := hsep (w.wkcPos + 1) (by simp [positions]) w' hw'
          simp only [positions, List.mem_cons, List.not_mem_nil, or_false, not_or] at a b c
          have : ¬ w'.wkcPos = w.wkcPos + 1 := fun h => c.2.1 h.symm
          have : ¬ w'.wkcPos = w.wkcPos := fun h => b.2.1 h.symm
          have : ¬ w'.wkcPos = w.cmdPos := fun h => a.2.1 h.symm
          simp [*]
        have e1 : (activateOne w p e).1[w'.wkcPos + 1]? = p[w'.wkcPos + 1]? := by
          rw [hget _ hw4]
          have a := hsep w.cmdPos (by simp [positions]) w' hw'
          have b := hsep w.wkcPos (by simp [positions]) w' hw'
          have c := hsep (w.wkcPos + 1) (by simp [positions]) w' hw'
          simp only [positions, List.mem_cons, List.not_mem_nil, or_false, not_or] at a b c
          have : ¬ w'.wkcPos + 1 = w.wkcPos + 1 := fun h => c.2.2 h.symm
          have : ¬ w'.wkcPos + 1 = w.wkcPos := fun h => b.2.2 h.symm
          have : ¬ w'.wkcPos + 1 = w.cmdPos := fun h => a.2.2 h.symm
          have : ¬ w'.wkcPos = w.wkcPos := fun h => b.2.1 h.symm
          simp [*]
        rw [wkcAt_congr _ _ _ e0 e1]
      rw [hm]
      by_cases hm0 : wkcAt p w.wkcPos = w.expected
      · simp [activateOne, mismatches, List.filter_cons, hm0]
      · simp only [activateOne, mismatches, List.filter_cons, hm0, ne_eq, not_false_eq_true, ↓reduceIte,
          decide_true, List.length_cons, FastGroup.M32]
        omega

/-- the group's program re-enables the write datagrams only when it runs with output enabled;
otherwise the frame and the error counter are returned untouched -/
theorem program_only_when_enabled (ws : List Writer) (size : Nat) (p : List UInt8) (e : Nat)
    (h : enables size p e = false) : program ws size p e = (p, e) := by
  simp only [enables, Bool.and_eq_false_iff, decide_eq_false_iff_not, ne_eq, Decidable.not_not] at h
  unfold program
  rcases h with h | h
  · simp [h]
  · simp [h]

/-- with output enabled the program re-enables exactly the write datagrams, clears their working
counters, counts one error per mismatch and changes nothing else -/
theorem program_activates (ws : List Writer) (size : Nat) (p : List UInt8) (e : Nat)
    (h : enables size p e = true) (hwf : wf ws p.length = true) :
    let r := program ws size p e
    r.1.length = p.length ∧
    (∀ i, (∀ w ∈ ws, i ∉ positions w) → r.1[i]? = p[i]?) ∧
    (∀ w ∈ ws, r.1[w.cmdPos]? = some (UInt8.ofNat w.cmd) ∧ r.1[w.wkcPos]? = some 0 ∧ r.1[w.wkcPos + 1]? = some 0) ∧
    r.2 % FastGroup.M32 = (e + mismatches ws p) % FastGroup.M32 := by
  simp only [enables, Bool.and_eq_true, decide_eq_true_eq] at h
  have : program ws size p e = activateAll ws p e := by
    unfold program; simp [h.1, h.2]
  rw [this]
  exact activateAll_exact ws p e hwf

theorem wf_mono (ws : List Writer) (len len' : Nat) (hl : len ≤ len') (h : wf ws len = true) : wf ws len' = true := by
  simp only [wf, Bool.and_eq_true, List.all_eq_true, decide_eq_true_eq] at h ⊢
  refine ⟨fun w hw => ?_, h.2⟩
  have := h.1 w hw
  omega

/-- the same, with well-formedness stated for the group's own frame size (what the layouts produced by
`SterilePacket.append_writer` satisfy) -/
theorem program_activates_frame (ws : List Writer) (size : Nat) (p : List UInt8) (e : Nat)
    (h : enables size p e = true) (hwf : wf ws (size + ETHERNET_HEADER) = true) :
    let r := program ws size p e
    r.1.length = p.length ∧
    (∀ i, (∀ w ∈ ws, i ∉ positions w) → r.1[i]? = p[i]?) ∧
    (∀ w ∈ ws, r.1[w.cmdPos]? = some (UInt8.ofNat w.cmd) ∧ r.1[w.wkcPos]? = some 0 ∧ r.1[w.wkcPos + 1]? = some 0) ∧
    r.2 % FastGroup.M32 = (e + mismatches ws p) % FastGroup.M32 := by
  have hl : size + ETHERNET_HEADER ≤ p.length := by
    simp only [enables, Bool.and_eq_true, decide_eq_true_eq] at h
    have := h.1
    simp only [ETHERNET_HEADER] at this ⊢
    omega
  exact program_activates ws size p e h (wf_mono ws _ _ hl hwf)

/-! ### histories: a frame with enabled writers is never returned to the bus passively -/

/-- frames whose write datagrams are enabled carry an odd index byte -/
def Inv (s : Sys) : Prop := ∀ f ∈ s.flight, f.enabled = true → f.idx % 2 = 1

theorem inv_evStep (reg : Bool) (s : Sys) (e : Ev) (h : Inv s) :
    Inv (evStep reg s e).1 ∧ (evStep reg s e).2 ≠ .passive true := by
  cases e with
  | inject =>
    refine ⟨?_, by simp [evStep]⟩
    intro f hf
    simp only [evStep, List.mem_append, List.mem_singleton] at hf
    rcases hf with hf | rfl
    · exact h f hf
    · simp
  | lose i =>
    refine ⟨?_, by simp [evStep]⟩
    intro f hf
    exact h f (List.mem_of_mem_eraseIdx hf)
  | deliver i output =>
    simp only [evStep]
    cases hf : s.flight[i]? with
    | none => exact ⟨h, by simp⟩
    | some f =>
      have hfm : f ∈ s.flight := List.mem_of_getElem? hf
      have hp := C22.step_parity s.c f.idx reg
      simp only
      cases ha : (step s.c f.idx reg).action with
      | run =>
        refine ⟨?_, by simp⟩
        intro g hg
        rcases List.mem_or_eq_of_mem_set hg with hg | rfl
        · exact h g hg
        · intro _; exact (hp.2.1 ha).2
      | tx =>
        have hev := hp.2.2.2 ha
        have hne : f.enabled = false := by
          cases hfe : f.enabled with
          | false => rfl
          | true => have := h f hfm hfe; omega
        refine ⟨?_, by simp [hne]⟩
        intro g hg
        rcases List.mem_or_eq_of_mem_set hg with hg | rfl
        · exact h g hg
        · simp [hne]
      | pass =>
        refine ⟨?_, by simp⟩
        intro g hg
        exact h g (List.mem_of_mem_eraseIdx hg)
      | drop => exact absurd ha (C22.step_ne_drop _ _ _)

/-- in every history starting with no frame in flight, no frame goes back onto the bus with enabled write
datagrams unless the group's program processed it in that pass -/
theorem tx_enabled_implies_ran (reg : Bool) (evs : List Ev) (s : Sys) (h : Inv s) :
    Obs.passive true ∉ (runHist reg s evs).2 := by
  induction evs generalizing s with
  | nil => simp [runHist]
  | cons e evs ih =>
    simp only [runHist, List.mem_cons, not_or]
    have := inv_evStep reg s e h
    exact ⟨fun h' => this.2 h'.symm, ih _ this.1⟩

theorem tx_enabled_implies_ran_from_start (reg : Bool) (evs : List Ev) (c : Nat) :
    Obs.passive true ∉ (runHist reg ⟨c, []⟩ evs).2 :=
  tx_enabled_implies_ran reg evs _ (by intro f hf; simp at hf)

/-! ### non-vacuity -/
example : wf [⟨30, 46, 5, 1⟩, ⟨48, 70, 11, 2⟩] 72 = true := by decide
example : enables 58 (List.replicate 72 0) 1 = true := by decide
example : (program [⟨30, 46, 5, 1⟩] 58 (List.replicate 72 0) 7).2 = 8 := by decide

end Ebv.C21
