import Ebv.Props.C26TVc
/-! C26 translation validation, part d: lower velocity limit (pc 67–73), the 16-bit store (pc 74) and the two
limit-switch tests (pc 75–90) of `Programs.motorGroup`. -/
namespace Ebv.C26TV
open Ebv.Ebpf Ebv.XdpRun Ebv.Bytes Ebv.Motor

variable {a : Addrs} {e : Env} {M0 M : W → BitVec 8} {q : List UInt8} {cs : List Nat} {er len : Nat} {R : Nat → W}

theorem toInt_zero64 : (0#64 : W).toInt = 0 := by decide

set_option maxRecDepth 4000 in
set_option maxHeartbeats 2000000 in
/-- pc 67–73: lower velocity limit -/
theorem seg_vmax_lo (hreg : Regions geo a len) (hrel : MemRel geo a M0 M q cs er len) (h : 63 < len)
    (h7 : R 7 = BitVec.ofNat 64 a.mp) (h9 : R 9 = BitVec.ofNat 64 a.dat) (h0 : (R 0).toInt = vR3 (inp q cs)) :
    ∃ R', Steps e Programs.motorGroup 7 ⟨R, M, 67⟩ ⟨R', M, 74⟩ ∧
      R' 7 = BitVec.ofNat 64 a.mp ∧ R' 9 = BitVec.ofNat 64 a.dat ∧ (R' 0).toInt = vR4 (inp q cs) := by
  vsetup
  have hs : (R 0 + BitVec.ofNat 64 (cs.getD 1 0)).toInt = wrapS 64 (vR3 (inp q cs) + (inp q cs).vmax) := by
    rw [tI_add, h0, tI_ofNat _ (by omega)]; rfl
  have hn : (0#64 - BitVec.ofNat 64 (cs.getD 1 0)).toInt = wrapS 64 (0 - ((inp q cs).vmax : Int)) := by
    rw [tI_sub, toInt_zero64, tI_ofNat _ (by omega)]; rfl
  by_cases hc : 0 ≤ wrapS 64 (vR3 (inp q cs) + (inp q cs).vmax)
  · refine ⟨?R', ⟨4, by omega, fun f => ?eq⟩, ?h7, ?h9, ?v⟩
    case eq =>
      ysim [h7, h9, hv1, hs, toInt_zero64, hc]
      rfl
    case v =>
      simp only [upd_apply, Nat.reduceEqDiff, if_false, h0, vR4]
      rw [if_neg (by omega)]
    all_goals simp only [upd_apply, Nat.reduceEqDiff, if_false, h7, h9]
  · refine ⟨?R2, ⟨7, by omega, fun f => ?eq2⟩, ?h72, ?h92, ?v2⟩
    case eq2 =>
      ysim [h7, h9, hv1, hs, toInt_zero64, hc]
      rfl
    case v2 =>
      simp only [upd_apply, Nat.reduceEqDiff, if_false, if_true, hn, vR4]
      rw [if_pos (by omega)]
    all_goals simp only [upd_apply, Nat.reduceEqDiff, if_false, h7, h9]

/-- the low 16 bits of a register, as the signed 16-bit value the store leaves in the frame -/
theorem st16 (x : W) : x.toNat % 65536 = ofSigned 2 (wrapS 16 x.toInt) := by
  have hx : x.toNat < 18446744073709551616 := x.isLt
  have e1 : (2 : Int) ^ 16 = 65536 := by decide
  have e2 : (2 : Int) ^ (16 - 1) = 32768 := by decide
  have e4 : (2 : Nat) ^ 64 = 18446744073709551616 := by decide
  rw [BitVec.toInt_eq_toNat_cond]
  simp only [ofSigned, wrapS, e1, e2, e4]
  split <;> split <;> omega

theorem encLE_mod (n : Nat) : ∀ v, encLE n (v % 256 ^ n) = encLE n v := by
  intro v
  apply List.ext_getElem?
  intro i
  by_cases hi : i < n
  · rw [encLE_getElem? n _ i hi, encLE_getElem? n _ i hi]
    congr 2
    have : 256 ^ n = 256 ^ i * 256 ^ (n - i) := by rw [← Nat.pow_add]; congr 1; omega
    rw [this, Nat.mod_mul_right_div_self]
    have h2 : 256 ^ (n - i) = 256 * 256 ^ (n - i - 1) := by rw [← Nat.pow_succ']; congr 1; omega
    rw [h2, Nat.mod_mul_right_mod]
  · simp [hi]

set_option maxRecDepth 4000 in
set_option maxHeartbeats 2000000 in
/-- pc 74: the 16-bit store of the velocity -/
theorem seg_store (hreg : Regions geo a len) (hrel : MemRel geo a M0 M q cs er len) (h : 63 < len)
    (h9 : R 9 = BitVec.ofNat 64 a.dat) :
    ∃ M', Steps e Programs.motorGroup 1 ⟨R, M, 74⟩ ⟨R, M', 75⟩ ∧
      MemRel geo a M0 M' (setRange q 60 (encLE 2 (ofSigned 2 (wrapS 16 (R 0).toInt)))) cs er len := by
  ssetup
  refine ⟨?M', ⟨1, by omega, fun f => ?eq⟩, ?rel⟩
  case eq =>
    ysim [h9]
    rfl
  case rel =>
    have := MemRel.store_pkt hreg geo_ok hrel 60 2 (R 0).toNat (by omega)
    rw [← encLE_mod 2 (R 0).toNat, show 256 ^ 2 = 65536 from rfl, st16] at this
    exact this

theorem toInt_zero32 : (0#32 : BitVec 32).toInt = 0 := by decide

theorem and_lit_eq_zero (b k : Nat) (hb : b < 2 ^ 64) (hk : k < 2 ^ 64) :
    (BitVec.ofNat 64 b &&& BitVec.ofNat 64 k = 0#64) = (b &&& k = 0) := by
  apply propext
  rw [← BitVec.toNat_inj]
  simp only [BitVec.toNat_and, BitVec.toNat_ofNat, Nat.mod_eq_of_lt hb, Nat.mod_eq_of_lt hk]

/-- `LSH32 16; ARSH32 16` on a zero-extended 16-bit load, as a 32-bit signed compare sees it -/
theorem sext16_32_toInt (X : Nat) (h : X < 65536) :
    (BitVec.setWidth 32 (BitVec.setWidth 64 ((BitVec.setWidth 32 (BitVec.setWidth 64
      (BitVec.setWidth 32 (BitVec.ofNat 64 X) <<< 16))).sshiftRight 16))).toInt = toSigned 2 X := by
  rw [BitVec.setWidth_setWidth_of_le _ (by omega), BitVec.setWidth_setWidth_of_le _ (by omega),
    BitVec.setWidth_ofNat_of_le (by omega)]
  have := Ebv.Gen.shl_sshr_signExtend 16 32 (BitVec.ofNat 16 X) (by omega) (by omega)
  rw [BitVec.setWidth_ofNat_of_le_of_lt (by omega) (by omega), show (32 - 16 : Nat) = 16 from rfl] at this
  rw [BitVec.setWidth_eq, BitVec.setWidth_eq, this, BitVec.toInt_signExtend_of_le (by omega)]
  exact toInt_ofNat_signed 2 (Or.inl rfl) X h

set_option maxRecDepth 4000 in
set_option maxHeartbeats 2000000 in
/-- pc 75–82: an active low limit switch zeroes a negative velocity -/
theorem seg_low (hreg : Regions geo a len) (hrel : MemRel geo a M0 M q cs er len) (h : 63 < len)
    (h9 : R 9 = BitVec.ofNat 64 a.dat) :
    ∃ R' M', Steps e Programs.motorGroup 8 ⟨R, M, 75⟩ ⟨R', M', 83⟩ ∧ R' 9 = BitVec.ofNat 64 a.dat ∧
      MemRel geo a M0 M' (if decLE (slice q 41 42) &&& 16 ≠ 0 ∧ toSigned 2 (decLE (slice q 60 62)) < 0 then
        setRange q 60 (encLE 2 0) else q) cs er len := by
  ssetup
  have hb41 := decLE_slice_lt' q 41 1 (by omega)
  have hb60 := decLE_slice_lt' q 60 2 (by omega)
  simp only [Nat.reduceAdd, Nat.reducePow] at hb41 hb60
  have hsx := sext16_32_toInt _ hb60
  by_cases hb : decLE (slice q 41 42) &&& 16 = 0
  · refine ⟨?R', ?M', ⟨3, by omega, fun f => ?eq⟩, ?h9, ?rel⟩
    case eq =>
      ysim [h9, hlp, and_lit_eq_zero, hb]
      rfl
    case rel => rw [if_neg (by simp [hb])]; exact hrel
    simp only [upd_apply, Nat.reduceEqDiff, if_false, h9]
  · by_cases hv : 0 ≤ toSigned 2 (decLE (slice q 60 62))
    · refine ⟨?R2, ?M2, ⟨6, by omega, fun f => ?eq2⟩, ?h92, ?rel2⟩
      case eq2 =>
        ysim [h9, hlp, and_lit_eq_zero, hb, hsx, toInt_zero32, hv]
        rfl
      case rel2 => rw [if_neg (by omega)]; exact hrel
      simp only [upd_apply, Nat.reduceEqDiff, if_false, h9]
    · refine ⟨?R3, ?M3, ⟨7, by omega, fun f => ?eq3⟩, ?h93, ?rel3⟩
      case eq3 =>
        ysim [h9, hlp, and_lit_eq_zero, hb, hsx, toInt_zero32, hv]
        rfl
      case rel3 =>
        rw [if_pos ⟨hb, by omega⟩]
        exact MemRel.store_pkt hreg geo_ok hrel 60 2 0 (by omega)
      simp only [upd_apply, Nat.reduceEqDiff, if_false, h9]

set_option maxRecDepth 4000 in
set_option maxHeartbeats 2000000 in
/-- pc 83–90: an active high limit switch zeroes a positive velocity -/
theorem seg_high (hreg : Regions geo a len) (hrel : MemRel geo a M0 M q cs er len) (h : 63 < len)
    (h9 : R 9 = BitVec.ofNat 64 a.dat) :
    ∃ R' M', Steps e Programs.motorGroup 8 ⟨R, M, 83⟩ ⟨R', M', 91⟩ ∧ R' 9 = BitVec.ofNat 64 a.dat ∧
      MemRel geo a M0 M' (if decLE (slice q 41 42) &&& 8 ≠ 0 ∧ 0 < toSigned 2 (decLE (slice q 60 62)) then
        setRange q 60 (encLE 2 0) else q) cs er len := by
  ssetup
  have hb41 := decLE_slice_lt' q 41 1 (by omega)
  have hb60 := decLE_slice_lt' q 60 2 (by omega)
  simp only [Nat.reduceAdd, Nat.reducePow] at hb41 hb60
  have hsx := sext16_32_toInt _ hb60
  by_cases hb : decLE (slice q 41 42) &&& 8 = 0
  · refine ⟨?R', ?M', ⟨3, by omega, fun f => ?eq⟩, ?h9, ?rel⟩
    case eq =>
      ysim [h9, hlp, and_lit_eq_zero, hb]
      rfl
    case rel => rw [if_neg (by simp [hb])]; exact hrel
    simp only [upd_apply, Nat.reduceEqDiff, if_false, h9]
  · by_cases hv : toSigned 2 (decLE (slice q 60 62)) ≤ 0
    · refine ⟨?R2, ?M2, ⟨6, by omega, fun f => ?eq2⟩, ?h92, ?rel2⟩
      case eq2 =>
        ysim [h9, hlp, and_lit_eq_zero, hb, hsx, toInt_zero32, hv]
        rfl
      case rel2 => rw [if_neg (by omega)]; exact hrel
      simp only [upd_apply, Nat.reduceEqDiff, if_false, h9]
    · refine ⟨?R3, ?M3, ⟨7, by omega, fun f => ?eq3⟩, ?h93, ?rel3⟩
      case eq3 =>
        ysim [h9, hlp, and_lit_eq_zero, hb, hsx, toInt_zero32, hv]
        rfl
      case rel3 =>
        rw [if_pos ⟨hb, by omega⟩]
        exact MemRel.store_pkt hreg geo_ok hrel 60 2 0 (by omega)
      simp only [upd_apply, Nat.reduceEqDiff, if_false, h9]

end Ebv.C26TV
