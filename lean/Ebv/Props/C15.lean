import Ebv.Model.Mbx
/-! C15 — mailbox exchanges with a terminal are serialised and counted.

* `counter_cycle`, `counter_next`: the counter sequence is 0,1,2,…,7,1,2,… for any number of calls.
* `inproc_serialised`, `inproc_counted`: any number of tasks sharing a `MailboxLock`, any schedule.
* cross-process (second half of the file): `crossproc_serialised`, `creation_window_safe`, `addr_accepted`
  are stated at full strength as `def … : Prop`; each is refuted on a concrete witness and the part that
  does hold is proved as `…_partial` for any number of processes and any schedule. -/
namespace Ebv.C15
open Ebv.Mbx Ebv.Consts

/-! ### the counter cycle -/

/-- the cycle of the property text: 0 ↦ 1, 1 ↦ 2, …, 6 ↦ 7, 7 ↦ 1 -/
def cyc (c : Nat) : Nat := if c = 7 then 1 else c + 1

/-- one call: the stored successor is the next element of the cycle and never 0 -/
theorem counter_next (c : Nat) (h : c ≤ 7) :
    nextCounter c = cyc c ∧ 1 ≤ nextCounter c ∧ nextCounter c ≤ 7 := by
  unfold nextCounter cyc mbxMod
  split <;> omega

def iter : Nat → Nat → Nat
  | 0, c => c
  | k + 1, c => iter k (nextCounter c)

theorem counters_get (c n k : Nat) (h : k < n) : (counters c n)[k]? = some (iter k c) := by
  induction n generalizing c k with
  | zero => omega
  | succ n ih =>
    cases k with
    | zero => simp [counters, iter]
    | succ k => simpa [counters, iter] using ih (nextCounter c) k (by omega)

theorem iter_closed (k : Nat) : iter (k + 1) mbxStart = k % 7 + 1 := by
  have gen : ∀ k c, 1 ≤ c → c ≤ 7 → iter k c = (c - 1 + k) % 7 + 1 := by
    intro k
    induction k with
    | zero => intro c h1 h2; simp only [iter]; omega
    | succ k ih =>
      intro c h1 h2
      have hn := counter_next c h2
      simp only [iter]
      rw [ih _ hn.2.1 hn.2.2, hn.1]
      unfold cyc; split <;> omega
  have h1 : iter (k + 1) mbxStart = iter k 1 := by simp [iter, nextCounter, mbxStart, mbxMod]
  rw [h1, gen k 1 (by omega) (by omega)]; simp

/-- the `k`-th of any number `n` of successive calls returns 0 for the first and then 1,2,…,7,1,2,…:
no repeat, no gap, never 0 again -/
theorem counter_cycle (n k : Nat) (h : k < n) :
    (counters mbxStart n)[k]? = some (if k = 0 then 0 else (k - 1) % 7 + 1) := by
  rw [counters_get _ _ _ h]
  cases k with
  | zero => simp [iter, mbxStart]
  | succ k => simp [iter_closed]

theorem counters_length (c n : Nat) : (counters c n).length = n := by
  induction n generalizing c with
  | zero => rfl
  | succ n ih => simp [counters, ih]

/-! ### tasks of one process: the shape of what a task still has to do -/

inductive Mode where
  | out | inn | pend
deriving DecidableEq

/-- `wf m p`: `p` is a continuation of `prog …` for a task that is outside a critical section (`out`),
inside between two exchanges (`inn`), or inside with a request out (`pend`) -/
def wf : Mode → List Step → Bool
  | .out, [] => true
  | .out, .acq :: r => wf .inn r
  | .inn, .send :: r => wf .pend r
  | .pend, .recv :: r => wf .inn r
  | .inn, .rel :: r => wf .out r
  | _, _ => false

theorem wf_exchanges (n : Nat) (q : List Step) : wf .inn (exchanges n ++ q) = wf .inn q := by
  induction n with
  | zero => rfl
  | succ n ih => simpa [exchanges, wf] using ih

theorem wf_prog (ns : List Nat) : wf .out (prog ns) = true := by
  induction ns with
  | nil => rfl
  | cons n ns ih =>
    simp only [prog, critical, List.cons_append, wf, List.append_assoc]
    rw [wf_exchanges]
    simpa [wf] using ih

theorem wf_out {p : List Step} (h : wf .out p = true) : p = [] ∨ ∃ r, p = .acq :: r ∧ wf .inn r = true := by
  cases p with
  | nil => exact .inl rfl
  | cons a r => cases a <;> simp_all [wf]

theorem wf_inn {p : List Step} (h : wf .inn p = true) :
    (∃ r, p = .send :: r ∧ wf .pend r = true) ∨ (∃ r, p = .rel :: r ∧ wf .out r = true) := by
  cases p with
  | nil => simp [wf] at h
  | cons a r => cases a <;> simp_all [wf]

theorem wf_pend {p : List Step} (h : wf .pend p = true) : ∃ r, p = .recv :: r ∧ wf .inn r = true := by
  cases p with
  | nil => simp [wf] at h
  | cons a r => cases a <;> simp_all [wf]

def modeOf (k : Chk) (t : Nat) : Mode :=
  if k.holder = some t then (if k.pend then .pend else .inn) else .out

/-- what ties the lock state to the property's view of the trace so far -/
structure Inv (s : St) (k : Chk) : Prop where
  progs : ∀ t, wf (modeOf k t) (s.progs t) = true
  lock : s.locked = k.holder.isSome
  pend : k.holder = none → k.pend = false
  woken : s.woken = true → s.locked = false ∧ s.waiters ≠ []
  ctr : follows k.last s.counter = true

theorem init_inv (tasks : List (List Nat)) : Inv (init tasks) chk0 where
  progs t := by simp [modeOf, chk0, init, wf_prog]
  lock := rfl
  pend _ := rfl
  woken h := by simp [init] at h
  ctr := by simp [follows, chk0, init, mbxStart, mbxMod]

theorem modeOf_other {k : Chk} {t u : Nat} (h : k.holder = some t) (hu : u ≠ t) : modeOf k u = .out := by
  simp [modeOf, h, Ne.symm hu]

theorem modeOf_free {k : Chk} (h : k.holder = none) (u : Nat) : modeOf k u = .out := by
  simp [modeOf, h]

theorem free_holder {s : St} {k : Chk} (h : Inv s k) (hfree : s.locked = false) : k.holder = none := by
  have := h.lock; rw [hfree] at this
  cases hk : k.holder with
  | none => rfl
  | some x => rw [hk] at this; simp at this

/-- task `t` takes the free lock -/
theorem inv_acquire {s : St} {k : Chk} {t : Nat} {r : List Step} (h : Inv s k) (hfree : s.locked = false)
    (hr : wf .inn r = true) (w : List Nat) :
    Inv { s with locked := true, woken := false, waiters := w, progs := setProg s.progs t r }
        { k with holder := some t } := by
  have hnone := free_holder h hfree
  have hp := h.pend hnone
  refine ⟨?_, rfl, by simp, by simp, h.ctr⟩
  intro u
  by_cases hu : u = t
  · subst hu; simp [modeOf, hp, setProg, hr]
  · have := h.progs u
    rw [modeOf_free hnone] at this
    simp only [setProg, hu, ↓reduceIte]
    rw [modeOf_other (k := { k with holder := some t }) rfl hu]; exact this

theorem step_inv (s : St) (k : Chk) (t : Nat) (h : Inv s k) :
    ∃ k', Inv (step s t).1 k' ∧ ∀ rest, check k ((step s t).2 ++ rest) = check k' rest := by
  by_cases hh : k.holder = some t
  · have hlock : s.locked = true := by rw [h.lock, hh]; rfl
    by_cases hp : k.pend = true
    · -- a request is out: the task reads the response
      have hm : modeOf k t = .pend := by simp [modeOf, hh, hp]
      obtain ⟨r, hpr, hr⟩ := wf_pend (hm ▸ h.progs t)
      refine ⟨{ k with pend := false }, ?_, ?_⟩
      · simp only [step, hpr]
        refine ⟨?_, h.lock, fun hn => by simp, h.woken, h.ctr⟩
        intro u
        by_cases hu : u = t
        · subst hu; simp [modeOf, hh, setProg, hr]
        · have := h.progs u
          rw [modeOf_other hh hu] at this
          simp only [setProg, hu, ↓reduceIte]
          rw [modeOf_other (k := { k with pend := false }) hh hu]; exact this
      · intro rest; simp [step, hpr, check, chk1, hh, hp]
    · have hp' : k.pend = false := by simpa using hp
      have hm : modeOf k t = .inn := by simp [modeOf, hh, hp']
      rcases wf_inn (hm ▸ h.progs t) with ⟨r, hpr, hr⟩ | ⟨r, hpr, hr⟩
      · -- next message leaves with the stored counter
        refine ⟨{ k with last := some s.counter, pend := true }, ?_, ?_⟩
        · simp only [step, hpr, hlock, ↓reduceIte]
          refine ⟨?_, by simp [hh], fun hn => by simp [hh] at hn, ?_, by simp [follows]⟩
          · intro u
            by_cases hu : u = t
            · subst hu; simp [modeOf, hh, setProg, hr]
            · have := h.progs u
              rw [modeOf_other hh hu] at this
              simp only [setProg, hu, ↓reduceIte]
              rw [modeOf_other (k := { k with last := some s.counter, pend := true }) hh hu]; exact this
          · intro hw
            have := (h.woken hw).1
            simp [hlock] at this
        · intro rest; simp [step, hpr, hlock, check, chk1, hh, hp', h.ctr]
      · -- release
        refine ⟨{ k with holder := none }, ?_, ?_⟩
        · simp only [step, hpr]
          refine ⟨?_, rfl, fun _ => hp', fun hw => ⟨rfl, by simpa using hw⟩, h.ctr⟩
          intro u
          rw [modeOf_free (k := { k with holder := none }) rfl]
          by_cases hu : u = t
          · subst hu; simp [setProg, hr]
          · have := h.progs u
            rw [modeOf_other hh hu] at this
            simpa [setProg, hu] using this
        · intro rest; simp [step, hpr, check, chk1, hh, hp']
  · have hm : modeOf k t = .out := by simp [modeOf, hh]
    rcases wf_out (hm ▸ h.progs t) with hpr | ⟨r, hpr, hr⟩
    · exact ⟨k, by simpa [step, hpr] using h, fun rest => by simp [step, hpr]⟩
    · by_cases hw : t ∈ s.waiters
      · by_cases hwk : (s.woken && s.waiters.head? == some t) = true
        · have hwoken : s.woken = true := by simp at hwk; exact hwk.1
          have hfree := (h.woken hwoken).1
          have hnone := free_holder h hfree
          refine ⟨{ k with holder := some t }, ?_, ?_⟩
          · simp only [step, hpr, hw, ↓reduceIte, hwk]
            exact inv_acquire h hfree hr _
          · intro rest; simp [step, hpr, hw, hwk, check, chk1, hnone]
        · exact ⟨k, by simpa [step, hpr, hw, hwk] using h, fun rest => by simp [step, hpr, hw, hwk]⟩
      · by_cases hf : (!s.locked && s.waiters.isEmpty) = true
        · have hfree : s.locked = false := by simp at hf; exact hf.1
          have hemp : s.waiters = [] := by simp at hf; exact hf.2
          have hnw : s.woken = false := by
            cases hwk : s.woken with
            | false => rfl
            | true => exact absurd hemp (h.woken hwk).2
          have hnone := free_holder h hfree
          refine ⟨{ k with holder := some t }, ?_, ?_⟩
          · simp only [step, hpr, hw, ↓reduceIte, hf]
            have := inv_acquire (t := t) h hfree hr s.waiters
            simpa [hnw] using this
          · intro rest; simp [step, hpr, hw, hf, check, chk1, hnone]
        · refine ⟨k, ?_, fun rest => by simp [step, hpr, hw, hf]⟩
          simp only [step, hpr, hw, ↓reduceIte, hf]
          exact ⟨h.progs, h.lock, h.pend, fun hwk => ⟨(h.woken hwk).1, by simp⟩, h.ctr⟩

theorem run_ok (s : St) (k : Chk) (sched : List Nat) (h : Inv s k) : check k (run s sched) = true := by
  induction sched generalizing s k with
  | nil => rfl
  | cons t ts ih =>
    obtain ⟨k', hi, hc⟩ := step_inv s k t h
    simp only [run]
    rw [hc]; exact ih _ _ hi

/-- **in-process**: for any number of tasks with any numbers of critical sections and exchanges, under every
schedule of the event loop, the trace satisfies `check`: critical sections of different tasks never
overlap, every request is followed by its own response before the next request, every message carries the
successor (in the cycle) of the previous message of *any* task, and `assert self.locked()` never fails -/
theorem inproc_serialised (tasks : List (List Nat)) (sched : List Nat) :
    check chk0 (run (init tasks) sched) = true :=
  run_ok _ _ _ (init_inv tasks)

theorem step_sent (s : St) (t : Nat) :
    (sent (step s t).2 = [] ∧ (step s t).1.counter = s.counter) ∨
    (sent (step s t).2 = [s.counter] ∧ (step s t).1.counter = nextCounter s.counter) := by
  unfold step
  split
  · simp [sent]
  · split
    · split <;> simp [sent]
    · split <;> simp [sent]
  · split <;> simp [sent]
  · simp [sent]
  · simp [sent]

theorem sent_append (a b : List Ev) : sent (a ++ b) = sent a ++ sent b := by
  induction a with
  | nil => rfl
  | cons e a ih => cases e <;> simp [sent, ih]

theorem sent_run (s : St) (sched : List Nat) :
    sent (run s sched) = counters s.counter (sent (run s sched)).length := by
  induction sched generalizing s with
  | nil => rfl
  | cons t ts ih =>
    simp only [run, sent_append]
    rcases step_sent s t with ⟨h1, h2⟩ | ⟨h1, h2⟩
    · rw [h1]; simpa [h2] using ih (step s t).1
    · rw [h1]
      have := ih (step s t).1
      rw [h2] at this
      simp only [List.singleton_append, List.length_cons, counters]
      rw [← this]

/-- **in-process, counted**: the counters of all messages of all tasks, in the order they leave, are exactly
0,1,…,7,1,… (`counter_cycle` gives each position) -/
theorem inproc_counted (tasks : List (List Nat)) (sched : List Nat) :
    sent (run (init tasks) sched) = counters mbxStart (sent (run (init tasks) sched)).length :=
  sent_run _ _

/-! non-vacuity: three tasks contend; task 1 and 2 queue, release wakes task 1 while task 2 keeps waiting -/
example : run (init [[1], [2], [1]]) [0, 1, 2, 0, 1, 0, 2, 0, 1, 1, 1, 2, 1, 1, 1, 2, 2, 2, 2]
    = [.acq 0, .send 0 0, .recv 0, .rel 0, .acq 1, .send 1 1, .recv 1, .send 1 2, .recv 1, .rel 1,
       .acq 2, .send 2 3, .recv 2, .rel 2] := by decide
example : (after (init [[1], [2], [1]]) [0, 1, 2, 0, 1, 0, 2, 0]).waiters = [1, 2] ∧
    (after (init [[1], [2], [1]]) [0, 1, 2, 0, 1, 0, 2, 0]).woken = true := by decide

/-! ### processes sharing the lock file: the statements at full strength -/

/-- any number of processes with any number of tasks each, lock file already initialised with a valid
counter in the terminal's byte: every schedule is serialised and counted and nobody fails -/
def crossproc_serialised : Prop :=
  ∀ (size off : Nat) (data : List Nat) (tasks : List (List (List Nat))) (sched : List (Nat × Nat)),
    fileOk off data = true → checkX xchk0 (runX (initX size off (some data) tasks) sched) = true

/-- the lock file does not exist yet (even with a single mailbox task per process): whoever opens it while
another process is creating it gets a valid counter, and everything stays serialised and counted -/
def creation_window_safe : Prop :=
  ∀ (size off : Nat) (tasks : List (List (List Nat))) (sched : List (Nat × Nat)),
    off < size → oneTask tasks = true → checkX xchk0 (runX (initX size off none tasks) sched) = true

/-- every address `find_free_address` can hand out (`randint(lo, hi)`, both ends included) is accepted by
`ParallelMailboxLock(LockFile(name, lo, hi), address)` -/
def addr_accepted : Prop :=
  ∀ no, addrLo ≤ no → no ≤ addrHi → lockCtorOk addrLo addrHi no = true

/-! ### refutations on concrete witnesses -/

/-- two tasks of process 0 share the lock object: the second `lockf` succeeds as well -/
def sameProcSched : List (Nat × Nat) :=
  [(0,0), (0,0), (0,0), (0,0), (0,0), (0,1), (0,1), (0,1), (0,0), (0,0), (0,0), (0,1), (0,1)]

/-- both tasks are inside at once, the counter 0 is used twice, the first exit sets `counter = None` and the
second `__aexit__` dies with TypeError still holding nothing -/
theorem same_process_witness :
    runX (initX 4 1 (some [0, 0, 0, 0]) [[[1], [1]]]) sameProcSched =
      [.creat 0 false, .opened 0, .lockOk 0 0, .pread 0 0 0, .send 0 0 0, .lockOk 0 1, .pread 0 1 0, .send 0 1 0,
       .recv 0 0, .pwrite 0 0 1, .unlock 0 0, .recv 0 1, .pwriteNone 0 1] := by decide

theorem crossproc_serialised_refuted : ¬ crossproc_serialised := by
  intro h
  have := h 4 1 [0, 0, 0, 0] [[[1], [1]]] sameProcSched (by decide)
  revert this; decide

/-- process 0 creates the file; process 1 arrives before the zeros are written -/
def windowSched : List (Nat × Nat) := [(0,0), (1,0), (1,0), (1,0), (1,0), (0,0), (0,0), (0,0)]

/-- the opener reads 0 bytes (ValueError) and keeps the record lock: the creator then spins on `lockf` -/
theorem creation_window_witness :
    runX (initX 4 1 none [[[1]], [[1]]]) windowSched =
      [.creat 0 true, .creat 1 false, .opened 1, .lockOk 1 0, .preadEmpty 1 0, .winit 0, .lockBusy 0 0, .lockBusy 0 0] := by
  decide

theorem creation_window_safe_refuted : ¬ creation_window_safe := by
  intro h
  have := h 4 1 [[[1]], [[1]]] windowSched (by decide) (by decide)
  revert this; decide

theorem addr_accepted_refuted : ¬ addr_accepted := by
  intro h
  have := h addrHi (by decide) (by decide)
  revert this; decide

/-- what does hold: every address below the upper end is accepted -/
theorem addr_accepted_partial (no : Nat) (h1 : addrLo ≤ no) (h2 : no < addrHi) : lockCtorOk addrLo addrHi no = true := by
  simp [lockCtorOk, h1, h2]

/-! ### what does hold: one mailbox task per process, any number of processes, any schedule -/

inductive XMode where
  | out | got | inn | pend | exiting
deriving DecidableEq

def wfX : XMode → List PStep → Bool
  | .out, [] => true
  | .out, .lock :: r => wfX .got r
  | .got, .pread :: r => wfX .inn r
  | .inn, .send :: r => wfX .pend r
  | .pend, .recv :: r => wfX .inn r
  | .inn, .pwrite :: r => wfX .exiting r
  | .exiting, .unlock :: r => wfX .out r
  | _, _ => false

theorem wfX_exchanges (n : Nat) (q : List PStep) : wfX .inn (exchangesX n ++ q) = wfX .inn q := by
  induction n with
  | zero => rfl
  | succ n ih => simpa [exchangesX, wfX] using ih

theorem wfX_prog (ns : List Nat) : wfX .out (progX ns) = true := by
  induction ns with
  | nil => rfl
  | cons n ns ih =>
    simp only [progX, criticalX, List.cons_append, wfX, List.append_assoc]
    rw [wfX_exchanges]
    simpa [wfX] using ih

theorem wfX_out {p : List PStep} (h : wfX .out p = true) : p = [] ∨ ∃ r, p = .lock :: r ∧ wfX .got r = true := by
  cases p with
  | nil => exact .inl rfl
  | cons a r => cases a <;> simp_all [wfX]

theorem wfX_got {p : List PStep} (h : wfX .got p = true) : ∃ r, p = .pread :: r ∧ wfX .inn r = true := by
  cases p with
  | nil => simp [wfX] at h
  | cons a r => cases a <;> simp_all [wfX]

theorem wfX_inn {p : List PStep} (h : wfX .inn p = true) :
    (∃ r, p = .send :: r ∧ wfX .pend r = true) ∨ (∃ r, p = .pwrite :: r ∧ wfX .exiting r = true) := by
  cases p with
  | nil => simp [wfX] at h
  | cons a r => cases a <;> simp_all [wfX]

theorem wfX_pend {p : List PStep} (h : wfX .pend p = true) : ∃ r, p = .recv :: r ∧ wfX .inn r = true := by
  cases p with
  | nil => simp [wfX] at h
  | cons a r => cases a <;> simp_all [wfX]

theorem wfX_exiting {p : List PStep} (h : wfX .exiting p = true) : ∃ r, p = .unlock :: r ∧ wfX .out r = true := by
  cases p with
  | nil => simp [wfX] at h
  | cons a r => cases a <;> simp_all [wfX]

theorem follows_le {l : Option Nat} {v : Nat} (h : follows l v = true) : v ≤ mbxMod := by
  cases l with
  | none => simpa [follows] using h
  | some x =>
    simp only [follows, beq_iff_eq] at h
    subst h; unfold nextCounter mbxMod; omega

theorem putByte_get (data : List Nat) (off v : Nat) : (putByte data off v)[off]? = some v := by
  unfold putByte
  split
  · rename_i h; simp [h]
  · rename_i h
    have : (data ++ List.replicate (off - data.length) 0).length = off := by simp; omega
    rw [List.getElem?_append_right (by omega)]
    simp [this]

/-- the role a process plays for the property: `none` = not the holder -/
def roleOf (k : XChk) (m : XMode) (q : Nat) : Option XMode := if k.holder = some (q, 0) then some m else none

structure PInv (P : Proc) (role : Option XMode) (last : Option Nat) : Prop where
  others : ∀ t, t ≠ 0 → P.progs t = []
  wf : wfX (role.getD .out) (P.progs 0) = true
  notCreated : P.init ≠ .created
  ready : role.isSome = true → P.init = .ready
  busy : P.busy = if role = some .got ∨ role = some .exiting then some 0 else none
  ctr : role = some .inn ∨ role = some .pend → ∃ c, P.ctr = some c ∧ follows last c = true

theorem PInv.relast {P : Proc} {l l' : Option Nat} (h : PInv P none l) : PInv P none l' :=
  ⟨h.others, h.wf, h.notCreated, h.ready, h.busy, by simp⟩

structure XInv (s : XSt) (k : XChk) (m : XMode) : Prop where
  present : s.file.present = true
  procs : ∀ q, PInv (s.procs q) (roleOf k m q) k.last
  owner : s.file.owner = k.holder.map (·.1)
  task0 : ∀ p t, k.holder = some (p, t) → t = 0
  mode : k.holder = none ↔ m = .out
  pend : k.pend = true ↔ m = .pend
  byte : ∃ v, s.file.data[s.off]? = some v ∧ (m ≠ .inn → m ≠ .pend → follows k.last v = true)

theorem xinv_procs_same {s : XSt} {k : XChk} {m : XMode} {p : Nat} {P' : Proc} (h : XInv s k m)
    (hp : PInv P' (roleOf k m p) k.last) : ∀ q, PInv (setProc s.procs p P' q) (roleOf k m q) k.last := by
  intro q
  by_cases hq : q = p
  · subst hq; simpa [setProc] using hp
  · simpa [setProc, hq] using h.procs q

theorem xinv_procs_holder {s : XSt} {k k' : XChk} {m m' : XMode} {p : Nat} {P' : Proc} (h : XInv s k m)
    (h1 : k.holder = none ∨ k.holder = some (p, 0)) (h2 : k'.holder = none ∨ k'.holder = some (p, 0))
    (hp : PInv P' (roleOf k' m' p) k'.last) : ∀ q, PInv (setProc s.procs p P' q) (roleOf k' m' q) k'.last := by
  intro q
  by_cases hq : q = p
  · subst hq; simpa [setProc] using hp
  · have r1 : roleOf k m q = none := by rcases h1 with h1 | h1 <;> simp [roleOf, h1, Ne.symm hq]
    have r2 : roleOf k' m' q = none := by rcases h2 with h2 | h2 <;> simp [roleOf, h2, Ne.symm hq]
    have := h.procs q
    rw [r1] at this
    rw [r2]
    simpa [setProc, hq] using this.relast

theorem roleOf_holder {k : XChk} {p : Nat} (hh : k.holder = some (p, 0)) (m : XMode) :
    roleOf k m p = some m := by simp [roleOf, hh]

theorem role_none_of_init {P : Proc} {role : Option XMode} {l : Option Nat} (h : PInv P role l)
    (hi : P.init ≠ .ready) : role = none := by
  cases hr : role with
  | none => rfl
  | some x => exact absurd (h.ready (by simp [hr])) hi

/-- a step of `LockFile.__init__` of a process that finds the file present -/
theorem xinv_init_step {s : XSt} {k : XChk} {m : XMode} {p : Nat} (h : XInv s k m) (i : InitSt)
    (hi : (s.procs p).init ≠ .ready) (hi' : i ≠ .created) :
    XInv { s with procs := setProc s.procs p { s.procs p with init := i } } k m := by
  have hP := h.procs p
  have hrole := role_none_of_init hP hi
  refine ⟨h.present, xinv_procs_same h ?_, h.owner, h.task0, h.mode, h.pend, h.byte⟩
  rw [hrole] at hP ⊢
  exact ⟨hP.others, hP.wf, hi', by simp, hP.busy, by simp⟩

theorem stepX_inv (s : XSt) (k : XChk) (m : XMode) (pt : Nat × Nat) (h : XInv s k m) :
    ∃ k' m', XInv (stepX s pt).1 k' m' ∧ ∀ rest, checkX k ((stepX s pt).2 ++ rest) = checkX k' rest := by
  obtain ⟨p, t⟩ := pt
  have hP := h.procs p
  cases hinit : (s.procs p).init with
  | fresh =>
    refine ⟨k, m, ?_, fun rest => by simp [stepX, hinit, h.present, checkX, xchk1]⟩
    simp only [stepX, hinit, h.present, ↓reduceIte]
    exact xinv_init_step h .opening (by simp [hinit]) (by simp)
  | created => exact absurd hinit hP.notCreated
  | opening =>
    refine ⟨k, m, ?_, fun rest => by simp [stepX, hinit, checkX, xchk1]⟩
    simp only [stepX, hinit]
    exact xinv_init_step h .ready (by simp [hinit]) (by simp)
  | ready =>
    cases hb : ((s.procs p).busy.isSome && (s.procs p).busy != some t) with
    | true => exact ⟨k, m, by simpa [stepX, hinit, hb] using h, fun rest => by simp [stepX, hinit, hb]⟩
    | false =>
      by_cases ht : t = 0
      case neg =>
        have := hP.others t ht
        exact ⟨k, m, by simpa [stepX, hinit, hb, this] using h, fun rest => by simp [stepX, hinit, hb, this]⟩
      subst ht
      by_cases hh : k.holder = some (p, 0)
      · have hrole : roleOf k m p = some m := by simp [roleOf, hh]
        rw [hrole] at hP
        have hwf := hP.wf
        simp only [Option.getD_some] at hwf
        have hne : k.holder ≠ none := by simp [hh]
        cases hm : m with
        | out => exact absurd (h.mode.2 hm) hne
        | got =>
          subst hm
          obtain ⟨r, hpr, hr⟩ := wfX_got hwf
          obtain ⟨v, hv, hf⟩ := h.byte
          have hf := hf (by simp) (by simp)
          have hpend : k.pend = false := by
            cases hk : k.pend with
            | false => rfl
            | true => have := h.pend.1 hk; simp at this
          refine ⟨k, .inn, ?_, fun rest => by simp [stepX, hinit, hb, hpr, hv, checkX, xchk1, hh, follows_le hf]⟩
          simp only [stepX, hinit, hb, hpr, hv]
          refine ⟨h.present, xinv_procs_holder h (.inr hh) (.inr hh) ?_, h.owner, h.task0, by simp [hh],
            by simp [hpend], ⟨v, hv, by simp⟩⟩
          rw [roleOf_holder hh]
          exact ⟨fun u hu => by simpa [contProg, hu] using hP.others u hu, by simpa [contProg] using hr,
            by simp, fun _ => rfl, by simp, fun _ => ⟨v, rfl, hf⟩⟩
        | inn =>
          subst hm
          obtain ⟨c, hc, hfc⟩ := hP.ctr (.inl rfl)
          have hpend : k.pend = false := by
            cases hk : k.pend with
            | false => rfl
            | true => have := h.pend.1 hk; simp at this
          obtain ⟨v, hv, -⟩ := h.byte
          rcases wfX_inn hwf with ⟨r, hpr, hr⟩ | ⟨r, hpr, hr⟩
          · -- the next message leaves with the counter read under the lock
            refine ⟨{ k with last := some c, pend := true }, .pend, ?_,
              fun rest => by simp [stepX, hinit, hb, hpr, hc, checkX, xchk1, hh, hpend, hfc]⟩
            simp only [stepX, hinit, hb, hpr, hc]
            refine ⟨h.present, xinv_procs_holder h (.inr hh) (.inr hh) ?_, h.owner, h.task0, by simp [hh],
              by simp, ⟨v, hv, by simp⟩⟩
            rw [roleOf_holder (k := { k with last := some c, pend := true }) hh]
            exact ⟨fun u hu => by simpa [contProg, hu] using hP.others u hu, by simpa [contProg] using hr,
              by simp, fun _ => rfl, by simp [hP.busy], fun _ => ⟨nextCounter c, rfl, by simp [follows]⟩⟩
          · -- `__aexit__`: the counter goes back into the file
            refine ⟨k, .exiting, ?_,
              fun rest => by simp [stepX, hinit, hb, hpr, hc, checkX, xchk1, hh, hpend]⟩
            simp only [stepX, hinit, hb, hpr, hc]
            refine ⟨h.present, xinv_procs_holder h (.inr hh) (.inr hh) ?_, h.owner, h.task0, by simp [hh],
              by simp [hpend], ⟨c, putByte_get _ _ _, fun _ _ => hfc⟩⟩
            rw [roleOf_holder hh]
            exact ⟨fun u hu => by simpa [contProg, hu] using hP.others u hu, by simpa [contProg] using hr,
              by simp, fun _ => rfl, by simp, by simp⟩
        | pend =>
          subst hm
          obtain ⟨c, hc, hfc⟩ := hP.ctr (.inr rfl)
          have hpend : k.pend = true := h.pend.2 rfl
          obtain ⟨v, hv, -⟩ := h.byte
          obtain ⟨r, hpr, hr⟩ := wfX_pend hwf
          refine ⟨{ k with pend := false }, .inn, ?_,
            fun rest => by simp [stepX, hinit, hb, hpr, checkX, xchk1, hh, hpend]⟩
          simp only [stepX, hinit, hb, hpr]
          refine ⟨h.present, xinv_procs_holder h (.inr hh) (.inr hh) ?_, h.owner, h.task0, by simp [hh],
            by simp, ⟨v, hv, by simp⟩⟩
          rw [roleOf_holder (k := { k with pend := false }) hh]
          exact ⟨fun u hu => by simpa [contProg, hu] using hP.others u hu, by simpa [contProg] using hr,
            by simp, fun _ => rfl, by simp [hP.busy], fun _ => ⟨c, hc, hfc⟩⟩
        | exiting =>
          subst hm
          have hpend : k.pend = false := by
            cases hk : k.pend with
            | false => rfl
            | true => have := h.pend.1 hk; simp at this
          obtain ⟨v, hv, hf⟩ := h.byte
          have hf := hf (by simp) (by simp)
          obtain ⟨r, hpr, hr⟩ := wfX_exiting hwf
          have hown : s.file.owner = some p := by rw [h.owner, hh]; rfl
          refine ⟨{ k with holder := none }, .out, ?_,
            fun rest => by simp [stepX, hinit, hb, hpr, checkX, xchk1, hh]⟩
          simp only [stepX, hinit, hb, hpr, hown]
          refine ⟨h.present, xinv_procs_holder h (.inr hh) (.inl rfl) ?_, by simp, by simp, by simp,
            by simp [hpend], ⟨v, hv, fun _ _ => hf⟩⟩
          have : roleOf { k with holder := none } .out p = none := by simp [roleOf]
          rw [this]
          exact ⟨fun u hu => by simpa [contProg, hu] using hP.others u hu, by simpa [contProg] using hr,
            by simp, by simp, by simp, by simp⟩
      · have hrole : roleOf k m p = none := by simp [roleOf, hh]
        rw [hrole] at hP
        have hwf := hP.wf
        simp only [Option.getD_none] at hwf
        rcases wfX_out hwf with hpr | ⟨r, hpr, hr⟩
        · exact ⟨k, m, by simpa [stepX, hinit, hb, hpr] using h, fun rest => by simp [stepX, hinit, hb, hpr]⟩
        · cases hk : k.holder with
          | none =>
            have hown : s.file.owner = none := by rw [h.owner, hk]; rfl
            have hm : m = .out := h.mode.1 hk
            subst hm
            have hpend : k.pend = false := by
              cases hkp : k.pend with
              | false => rfl
              | true => have := h.pend.1 hkp; simp at this
            obtain ⟨v, hv, hf⟩ := h.byte
            have hf := hf (by simp) (by simp)
            refine ⟨{ k with holder := some (p, 0) }, .got, ?_,
              fun rest => by simp [stepX, hinit, hb, hpr, hown, checkX, xchk1, hk]⟩
            simp only [stepX, hinit, hb, hpr, hown]
            refine ⟨h.present, xinv_procs_holder h (.inl hk) (.inr rfl) ?_, by simp, ?_, by simp,
              by simp [hpend], ⟨v, hv, fun _ _ => hf⟩⟩
            · rw [roleOf_holder (k := { k with holder := some (p, 0) }) rfl]
              exact ⟨fun u hu => by simpa [contProg, hu] using hP.others u hu, by simpa [contProg] using hr,
                by simp, fun _ => rfl, by simp, by simp⟩
            · intro p' t' hpt; simp at hpt; exact hpt.2.symm
          | some qt =>
            obtain ⟨q, t'⟩ := qt
            have ht' : t' = 0 := h.task0 q t' hk
            subst ht'
            have hqp : q ≠ p := fun e => hh (by rw [hk, e])
            have hown : s.file.owner = some q := by rw [h.owner, hk]; rfl
            exact ⟨k, m, by simpa [stepX, hinit, hb, hpr, hown, hqp] using h,
              fun rest => by simp [stepX, hinit, hb, hpr, hown, hqp, checkX, xchk1]⟩

theorem runX_ok (s : XSt) (k : XChk) (m : XMode) (sched : List (Nat × Nat)) (h : XInv s k m) :
    checkX k (runX s sched) = true := by
  induction sched generalizing s k m with
  | nil => rfl
  | cons pt rest ih =>
    obtain ⟨k', m', hi, hc⟩ := stepX_inv s k m pt h
    simp only [runX]
    rw [hc]; exact ih _ _ _ hi

theorem oneTask_getD {tasks : List (List (List Nat))} (h : oneTask tasks = true) (q t : Nat) (ht : t ≠ 0) :
    (tasks.getD q []).getD t [] = [] := by
  have hl : (tasks.getD q []).length ≤ 1 := by
    rw [List.getD_eq_getElem?_getD]
    cases hq : tasks[q]? with
    | none => simp
    | some ts =>
      have hmem := List.mem_of_getElem? hq
      simp only [oneTask, List.all_eq_true, decide_eq_true_eq] at h
      simpa using h ts hmem
  rw [List.getD_eq_getElem?_getD, List.getElem?_eq_none (by omega)]
  rfl

/-- a process that has not taken the lock, anywhere in `LockFile.__init__` except between create and write -/
theorem pinv_idle {tasks : List (List (List Nat))} (h : oneTask tasks = true) (q : Nat) (i : InitSt) (hi : i ≠ .created)
    (l : Option Nat) :
    PInv { init := i, ctr := none, busy := none, progs := fun t => progX ((tasks.getD q []).getD t []) } none l :=
  ⟨fun t ht => by show progX ((tasks.getD q []).getD t []) = []; rw [oneTask_getD h q t ht]; rfl,
    by simp [wfX_prog], hi, by simp, by simp, by simp⟩

theorem fileOk_byte {off : Nat} {data : List Nat} (h : fileOk off data = true) :
    ∃ v, data[off]? = some v ∧ follows none v = true := by
  unfold fileOk at h
  cases hd : data[off]? with
  | none => simp [hd] at h
  | some v => exact ⟨v, rfl, by simpa [hd, follows] using h⟩

theorem initX_inv (size off : Nat) (data : List Nat) (tasks : List (List (List Nat)))
    (hf : fileOk off data = true) (h1 : oneTask tasks = true) :
    XInv (initX size off (some data) tasks) xchk0 .out := by
  obtain ⟨v, hv, hfv⟩ := fileOk_byte hf
  refine ⟨rfl, fun q => ?_, rfl, by simp [xchk0], by simp [xchk0], by simp [xchk0], ⟨v, hv, fun _ _ => hfv⟩⟩
  have : roleOf xchk0 .out q = none := by simp [roleOf, xchk0]
  rw [this]
  exact pinv_idle h1 q .fresh (by simp) _

/-- **cross-process, what holds**: any number of processes, one mailbox task each, lock file initialised:
under every schedule of the file operations the exchanges are serialised, the counters of successive messages
of all processes are consecutive in the cycle, every counter read from the file is valid, nobody fails -/
theorem crossproc_serialised_partial (size off : Nat) (data : List Nat) (tasks : List (List (List Nat)))
    (sched : List (Nat × Nat)) (hf : fileOk off data = true) (h1 : oneTask tasks = true) :
    checkX xchk0 (runX (initX size off (some data) tasks) sched) = true :=
  runX_ok _ _ _ _ (initX_inv size off data tasks hf h1)

/-- **creation, what holds**: if the creating process gets through `LockFile.__init__` (create, write) before
any other process runs, then for any number of processes (one mailbox task each) and any continuation of the
schedule everything is serialised and counted from 0 -/
theorem creation_window_safe_partial (size off : Nat) (tasks : List (List (List Nat))) (p t1 t2 : Nat)
    (rest : List (Nat × Nat)) (ho : off < size) (h1 : oneTask tasks = true) :
    checkX xchk0 (runX (initX size off none tasks) ((p, t1) :: (p, t2) :: rest)) = true := by
  have e1 : stepX (initX size off none tasks) (p, t1) =
      ({ (initX size off none tasks) with
          file := { present := true, data := [], owner := none },
          procs := setProc (initX size off none tasks).procs p
            { init := .created, ctr := none, busy := none, progs := fun t => progX ((tasks.getD p []).getD t []) } },
       [.creat p true]) := by
    simp [stepX, initX]
  simp only [runX, e1]
  generalize hs1 : ({ (initX size off none tasks) with
          file := { present := true, data := [], owner := none },
          procs := setProc (initX size off none tasks).procs p
            { init := .created, ctr := none, busy := none, progs := fun t => progX ((tasks.getD p []).getD t []) } } : XSt) = s1
  have e2 : stepX s1 (p, t2) =
      ({ s1 with
          file := { present := true, data := writeInit [] size, owner := none },
          procs := setProc s1.procs p
            { init := .ready, ctr := none, busy := none, progs := fun t => progX ((tasks.getD p []).getD t []) } },
       [.winit p]) := by
    subst hs1; simp [stepX, initX, setProc]
  rw [e2]
  simp only [List.singleton_append, checkX, xchk1]
  apply runX_ok _ _ .out
  subst hs1
  refine ⟨rfl, fun q => ?_, rfl, by simp [xchk0], by simp [xchk0], by simp [xchk0],
    ⟨0, by simp [writeInit, initX, ho], fun _ _ => by simp [follows, xchk0]⟩⟩
  have : roleOf xchk0 .out q = none := by simp [roleOf, xchk0]
  rw [this]
  by_cases hq : q = p
  · subst hq; simpa [setProc] using pinv_idle h1 q .ready (by simp) _
  · simpa [setProc, hq, initX] using pinv_idle h1 q .fresh (by simp) _

/-! ### non-vacuity -/

/-- two processes contend for the byte; the second spins on `lockf`, then continues the count -/
example : runX (initX 4 1 (some [0, 5, 0, 0]) [[[1]], [[2]]])
      [(0,0), (0,0), (1,0), (1,0), (0,0), (1,0), (0,0), (0,0), (0,0), (1,0), (0,0), (0,0),
       (1,0), (1,0), (1,0), (1,0), (1,0), (1,0), (1,0), (1,0)] =
    [.creat 0 false, .opened 0, .creat 1 false, .opened 1, .lockOk 0 0, .lockBusy 1 0, .pread 0 0 5, .send 0 0 5,
     .recv 0 0, .lockBusy 1 0, .pwrite 0 0 6, .unlock 0 0, .lockOk 1 0, .pread 1 0 6, .send 1 0 6, .recv 1 0,
     .send 1 0 7, .recv 1 0, .pwrite 1 0 1, .unlock 1 0] := by decide
example : fileOk 1 [0, 5, 0, 0] = true ∧ oneTask [[[1]], [[2]]] = true := by decide
/-- creation completed first: the second process opens an initialised file -/
example : runX (initX 4 1 none [[[1]], [[1]]]) [(0,3), (0,0), (1,0), (1,0), (1,0), (1,0), (1,0)] =
    [.creat 0 true, .winit 0, .creat 1 false, .opened 1, .lockOk 1 0, .pread 1 0 0, .send 1 0 0] := by decide
example : (afterX (initX 4 1 none [[[1]], [[1]]]) windowSched).file.owner = some 1 := by decide

end Ebv.C15
