import Ebv.Model.Mbx
/-! C15 — mailbox exchanges with a terminal are serialised and counted.

* `counter_cycle`, `counter_next`: the counter sequence is 0,1,2,…,7,1,2,… for any number of calls.
* `inproc_serialised`, `inproc_counted`: any number of tasks sharing a `MailboxLock`, any schedule.
* cross-process (second half of the file): `crossproc_serialised`, `creation_window_safe`, `addr_accepted`
  are stated at full strength as `def … : Prop`; each is refuted on a concrete witness and the part that
  does hold is proved as `…_partial` for any number of processes and any schedule. -/
namespace Ebv.C15
open Ebv.Mbx Ebv.Consts

/-! ### the counter cycle -/

/-- the cycle of the property text: 0 ↦ 1, 1 ↦ 2, …, 6 ↦ 7, 7 ↦ 1 -/
def cyc (c : Nat) : Nat := if c = 7 then 1 else c + 1

/-- one call: the stored successor is the next element of the cycle and never 0 -/
theorem counter_next (c : Nat) (h : c ≤ 7) :
    nextCounter c = cyc c ∧ 1 ≤ nextCounter c ∧ nextCounter c ≤ 7 := by
  unfold nextCounter cyc mbxMod
  split <;> omega

def iter : Nat → Nat → Nat
  | 0, c => c
  | k + 1, c => iter k (nextCounter c)

theorem counters_get (c n k : Nat) (h : k < n) : (counters c n)[k]? = some (iter k c) := by
  induction n generalizing c k with
  | zero => omega
  | succ n ih =>
    cases k with
    | zero => simp [counters, iter]
    | succ k => simpa [counters, iter] using ih (nextCounter c) k (by omega)

theorem iter_closed (k : Nat) : iter (k + 1) mbxStart = k % 7 + 1 := by
  have gen : ∀ k c, 1 ≤ c → c ≤ 7 → iter k c = (c - 1 + k) % 7 + 1 := by
    intro k
    induction k with
    | zero => intro c h1 h2; simp only [iter]; omega
    | succ k ih =>
      intro c h1 h2
      have hn := counter_next c h2
      simp only [iter]
      rw [ih _ hn.2.1 hn.2.2, hn.1]
      unfold cyc; split <;> omega
  have h1 : iter (k + 1) mbxStart = iter k 1 := by simp [iter, nextCounter, mbxStart, mbxMod]
  rw [h1, gen k 1 (by omega) (by omega)]; simp

/-- the `k`-th of any number `n` of successive calls returns 0 for the first and then 1,2,…,7,1,2,…:
no repeat, no gap, never 0 again -/
theorem counter_cycle (n k : Nat) (h : k < n) :
    (counters mbxStart n)[k]? = some (if k = 0 then 0 else (k - 1) % 7 + 1) := by
  rw [counters_get _ _ _ h]
  cases k with
  | zero => simp [iter, mbxStart]
  | succ k => simp [iter_closed]

theorem counters_length (c n : Nat) : (counters c n).length = n := by
  induction n generalizing c with
  | zero => rfl
  | succ n ih => simp [counters, ih]

/-! ### tasks of one process: the shape of what a task still has to do -/

inductive Mode where
  | out | inn | pend
deriving DecidableEq

/-- `wf m p`: `p` is a continuation of `prog …` for a task that is outside a critical section (`out`),
inside between two exchanges (`inn`), or inside with a request out (`pend`) -/
def wf : Mode → List Step → Bool
  | .out, [] => true
  | .out, .acq :: r => wf .inn r
  | .inn, .send :: r => wf .pend r
  | .pend, .recv :: r => wf .inn r
  | .inn, .rel :: r => wf .out r
  | _, _ => false

theorem wf_exchanges (n : Nat) (q : List Step) : wf .inn (exchanges n ++ q) = wf .inn q := by
  induction n with
  | zero => rfl
  | succ n ih => simpa [exchanges, wf] using ih

theorem wf_prog (ns : List Nat) : wf .out (prog ns) = true := by
  induction ns with
  | nil => rfl
  | cons n ns ih =>
    simp only [prog, critical, List.cons_append, wf, List.append_assoc]
    rw [wf_exchanges]
    simpa [wf] using ih

theorem wf_out {p : List Step} (h : wf .out p = true) : p = [] ∨ ∃ r, p = .acq :: r ∧ wf .inn r = true := by
  cases p with
  | nil => exact .inl rfl
  | cons a r => cases a <;> simp_all [wf]

theorem wf_inn {p : List Step} (h : wf .inn p = true) :
    (∃ r, p = .send :: r ∧ wf .pend r = true) ∨ (∃ r, p = .rel :: r ∧ wf .out r = true) := by
  cases p with
  | nil => simp [wf] at h
  | cons a r => cases a <;> simp_all [wf]

theorem wf_pend {p : List Step} (h : wf .pend p = true) : ∃ r, p = .recv :: r ∧ wf .inn r = true := by
  cases p with
  | nil => simp [wf] at h
  | cons a r => cases a <;> simp_all [wf]

def modeOf (k : Chk) (t : Nat) : Mode :=
  if k.holder = some t then (if k.pend then .pend else .inn) else .out

/-- what ties the lock state to the property's view of the trace so far -/
structure Inv (s : St) (k : Chk) : Prop where
  progs : ∀ t, wf (modeOf k t) (s.progs t) = true
  lock : s.locked = k.holder.isSome
  pend : k.holder = none → k.pend = false
  woken : s.woken = true → s.locked = false ∧ s.waiters ≠ []
  ctr : follows k.last s.counter = true

theorem init_inv (tasks : List (List Nat)) : Inv (init tasks) chk0 where
  progs t := by simp [modeOf, chk0, init, wf_prog]
  lock := rfl
  pend _ := rfl
  woken h := by simp [init] at h
  ctr := by simp [follows, chk0, init, mbxStart, mbxMod]

theorem modeOf_other {k : Chk} {t u : Nat} (h : k.holder = some t) (hu : u ≠ t) : modeOf k u = .out := by
  simp [modeOf, h, Ne.symm hu]

theorem modeOf_free {k : Chk} (h : k.holder = none) (u : Nat) : modeOf k u = .out := by
  simp [modeOf, h]

theorem free_holder {s : St} {k : Chk} (h : Inv s k) (hfree : s.locked = false) : k.holder = none := by
  have := h.lock; rw [hfree] at this
  cases hk : k.holder with
  | none => rfl
  | some x => rw [hk] at this; simp at this

/-- task `t` takes the free lock -/
theorem inv_acquire {s : St} {k : Chk} {t : Nat} {r : List Step} (h : Inv s k) (hfree : s.locked = false)
    (hr : wf .inn r = true) (w : List Nat) :
    Inv { s with locked := true, woken := false, waiters := w, progs := setProg s.progs t r }
        { k with holder := some t } := by
  have hnone := free_holder h hfree
  have hp := h.pend hnone
  refine ⟨?_, rfl, by simp, by simp, h.ctr⟩
  intro u
  by_cases hu : u = t
  · subst hu; simp [modeOf, hp, setProg, hr]
  · have := h.progs u
    rw [modeOf_free hnone] at this
    simp only [setProg, hu, ↓reduceIte]
    rw [modeOf_other (k := { k with holder := some t }) rfl hu]; exact this

theorem step_inv (s : St) (k : Chk) (t : Nat) (h : Inv s k) :
    ∃ k', Inv (step s t).1 k' ∧ ∀ rest, check k ((step s t).2 ++ rest) = check k' rest := by
  by_cases hh : k.holder = some t
  · have hlock : s.locked = true := by rw [h.lock, hh]; rfl
    by_cases hp : k.pend = true
    · -- a request is out: the task reads the response
      have hm : modeOf k t = .pend := by simp [modeOf, hh, hp]
      obtain ⟨r, hpr, hr⟩ := wf_pend (hm ▸ h.progs t)
      refine ⟨{ k with pend := false }, ?_, ?_⟩
      · simp only [step, hpr]
        refine ⟨?_, h.lock, fun hn => by simp, h.woken, h.ctr⟩
        intro u
        by_cases hu : u = t
        · subst hu; simp [modeOf, hh, setProg, hr]
        · have := h.progs u
          rw [modeOf_other hh hu] at this
          simp only [setProg, hu, ↓reduceIte]
          rw [modeOf_other (k := { k with pend := false }) hh hu]; exact this
      · intro rest; simp [step, hpr, check, chk1, hh, hp]
    · have hp' : k.pend = false := by simpa using hp
      have hm : modeOf k t = .inn := by simp [modeOf, hh, hp']
      rcases wf_inn (hm ▸ h.progs t) with ⟨r, hpr, hr⟩ | ⟨r, hpr, hr⟩
      · -- next message leaves with the stored counter
        refine ⟨{ k with last := some s.counter, pend := true }, ?_, ?_⟩
        · simp only [step, hpr, hlock, ↓reduceIte]
          refine ⟨?_, by simp [hh], fun hn => by simp [hh] at hn, ?_, by simp [follows]⟩
          · intro u
            by_cases hu : u = t
            · subst hu; simp [modeOf, hh, setProg, hr]
            · have := h.progs u
              rw [modeOf_other hh hu] at this
              simp only [setProg, hu, ↓reduceIte]
              rw [modeOf_other (k := { k with last := some s.counter, pend := true }) hh hu]; exact this
          · intro hw
            have := (h.woken hw).1
            simp [hlock] at this
        · intro rest; simp [step, hpr, hlock, check, chk1, hh, hp', h.ctr]
      · -- release
        refine ⟨{ k with holder := none }, ?_, ?_⟩
        · simp only [step, hpr]
          refine ⟨?_, rfl, fun _ => hp', fun hw => ⟨rfl, by simpa using hw⟩, h.ctr⟩
          intro u
          rw [modeOf_free (k := { k with holder := none }) rfl]
          by_cases hu : u = t
          · subst hu; simp [setProg, hr]
          · have := h.progs u
            rw [modeOf_other hh hu] at this
            simpa [setProg, hu] using this
        · intro rest; simp [step, hpr, check, chk1, hh, hp']
  · have hm : modeOf k t = .out := by simp [modeOf, hh]
    rcases wf_out (hm ▸ h.progs t) with hpr | ⟨r, hpr, hr⟩
    · exact ⟨k, by simpa [step, hpr] using h, fun rest => by simp [step, hpr]⟩
    · by_cases hw : t ∈ s.waiters
      · by_cases hwk : (s.woken && s.waiters.head? == some t) = true
        · have hwoken : s.woken = true := by simp at hwk; exact hwk.1
          have hfree := (h.woken hwoken).1
          have hnone := free_holder h hfree
          refine ⟨{ k with holder := some t }, ?_, ?_⟩
          · simp only [step, hpr, hw, ↓reduceIte, hwk]
            exact inv_acquire h hfree hr _
          · intro rest; simp [step, hpr, hw, hwk, check, chk1, hnone]
        · exact ⟨k, by simpa [step, hpr, hw, hwk] using h, fun rest => by simp [step, hpr, hw, hwk]⟩
      · by_cases hf : (!s.locked && s.waiters.isEmpty) = true
        · have hfree : s.locked = false := by simp at hf; exact hf.1
          have hemp : s.waiters = [] := by simp at hf; exact hf.2
          have hnw : s.woken = false := by
            cases hwk : s.woken with
            | false => rfl
            | true => exact absurd hemp (h.woken hwk).2
          have hnone := free_holder h hfree
          refine ⟨{ k with holder := some t }, ?_, ?_⟩
          · simp only [step, hpr, hw, ↓reduceIte, hf]
            have := inv_acquire (t := t) h hfree hr s.waiters
            simpa [hnw] using this
          · intro rest; simp [step, hpr, hw, hf, check, chk1, hnone]
        · refine ⟨k, ?_, fun rest => by simp [step, hpr, hw, hf]⟩
          simp only [step, hpr, hw, ↓reduceIte, hf]
          exact ⟨h.progs, h.lock, h.pend, fun hwk => ⟨(h.woken hwk).1, by simp⟩, h.ctr⟩

theorem run_ok (s : St) (k : Chk) (sched : List Nat) (h : Inv s k) : check k (run s sched) = true := by
  induction sched generalizing s k with
  | nil => rfl
  | cons t ts ih =>
    obtain ⟨k', hi, hc⟩ := step_inv s k t h
    simp only [run]
    rw [hc]; exact ih _ _ hi

/-- **in-process**: for any number of tasks with any numbers of critical sections and exchanges, under every
schedule of the event loop, the trace satisfies `check`: critical sections of different tasks never
overlap, every request is followed by its own response before the next request, every message carries the
successor (in the cycle) of the previous message of *any* task, and `assert self.locked()` never fails -/
theorem inproc_serialised (tasks : List (List Nat)) (sched : List Nat) :
    check chk0 (run (init tasks) sched) = true :=
  run_ok _ _ _ (init_inv tasks)

theorem step_sent (s : St) (t : Nat) :
    (sent (step s t).2 = [] ∧ (step s t).1.counter = s.counter) ∨
    (sent (step s t).2 = [s.counter] ∧ (step s t).1.counter = nextCounter s.counter) := by
  unfold step
  split
  · simp [sent]
  · split
    · split <;> simp [sent]
    · split <;> simp [sent]
  · split <;> simp [sent]
  · simp [sent]
  · simp [sent]

theorem sent_append (a b : List Ev) : sent (a ++ b) = sent a ++ sent b := by
  induction a with
  | nil => rfl
  | cons e a ih => cases e <;> simp [sent, ih]

theorem sent_run (s : St) (sched : List Nat) :
    sent (run s sched) = counters s.counter (sent (run s sched)).length := by
  induction sched generalizing s with
  | nil => rfl
  | cons t ts ih =>
    simp only [run, sent_append]
    rcases step_sent s t with ⟨h1, h2⟩ | ⟨h1, h2⟩
    · rw [h1]; simpa [h2] using ih (step s t).1
    · rw [h1]
      have := ih (step s t).1
      rw [h2] at this
      simp only [List.singleton_append, List.length_cons, counters]
      rw [← this]

/-- **in-process, counted**: the counters of all messages of all tasks, in the order they leave, are exactly
0,1,…,7,1,… (`counter_cycle` gives each position) -/
theorem inproc_counted (tasks : List (List Nat)) (sched : List Nat) :
    sent (run (init tasks) sched) = counters mbxStart (sent (run (init tasks) sched)).length :=
  sent_run _ _

/-! non-vacuity: three tasks contend; task 1 and 2 queue, release wakes task 1 while task 2 keeps waiting -/
example : run (init [[1], [2], [1]]) [0, 1, 2, 0, 1, 0, 2, 0, 1, 1, 1, 2, 1, 1, 1, 2, 2, 2, 2]
    = [.acq 0, .send 0 0, .recv 0, .rel 0, .acq 1, .send 1 1, .recv 1, .send 1 2, .recv 1, .rel 1,
       .acq 2, .send 2 3, .recv 2, .rel 2] := by decide
example : (after (init [[1], [2], [1]]) [0, 1, 2, 0, 1, 0, 2, 0]).waiters = [1, 2] ∧
    (after (init [[1], [2], [1]]) [0, 1, 2, 0, 1, 0, 2, 0]).woken = true := by decide

end Ebv.C15
