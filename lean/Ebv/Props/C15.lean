import Ebv.Model.Mbx
/-! C15 — mailbox exchanges with a terminal are serialised and counted.

* `counter_cycle`, `counter_next`: the counter sequence is 0,1,2,…,7,1,2,… for any number of calls.
* `inproc_serialised`, `inproc_counted`: any number of tasks sharing a `MailboxLock`, any schedule.
* cross-process (second half of the file, the repaired lock.py: task lock around the record lock, short read = 0,
  ftruncate to one byte per address): `crossproc_serialised` (any number of processes AND tasks, every schedule),
  `creation_window_safe` (file absent, every schedule, including any activity inside the creator's two steps),
  `holder_can_proceed` (whoever holds the record lock can always run on to its unlock), `addr_accepted`.
  The schedules that refuted these statements on the code before the three `fix:` commits are kept as
  `same_process_witness_now` / `creation_window_witness_now`, evaluated on the repaired model.
* exchanges that FAIL or are CANCELLED (`Sec.cut`: the block is left by an exception while its request is out; an
  error between two exchanges is a block with fewer exchanges).  All statements above quantify over such blocks as
  well; in addition `failed_total` (exactly one counter per message that left, abandoned requests included),
  `counter_tracks_bus` / `file_tracks_bus` (what the lock keeps for the next user — the `MailboxLock`'s counter, the
  terminal's byte in the lock file whenever the record lock is free — is the successor of the latest counter on the
  bus, whatever the outcomes of the earlier exchanges), witnesses `failed_exchange_witness`,
  `failed_crossproc_witness`. -/
namespace Ebv.C15
open Ebv.Mbx Ebv.Consts

/-! ### the counter cycle -/

/-- the cycle of the property text: 0 ↦ 1, 1 ↦ 2, …, 6 ↦ 7, 7 ↦ 1 -/
def cyc (c : Nat) : Nat := if c = 7 then 1 else c + 1

/-- one call: the stored successor is the next element of the cycle and never 0 -/
theorem counter_next (c : Nat) (h : c ≤ 7) :
    nextCounter c = cyc c ∧ 1 ≤ nextCounter c ∧ nextCounter c ≤ 7 := by
  unfold nextCounter cyc mbxMod
  split <;> omega

def iter : Nat → Nat → Nat
  | 0, c => c
  | k + 1, c => iter k (nextCounter c)

theorem counters_get (c n k : Nat) (h : k < n) : (counters c n)[k]? = some (iter k c) := by
  induction n generalizing c k with
  | zero => omega
  | succ n ih =>
    cases k with
    | zero => simp [counters, iter]
    | succ k => simpa [counters, iter] using ih (nextCounter c) k (by omega)

theorem iter_closed (k : Nat) : iter (k + 1) mbxStart = k % 7 + 1 := by
  have gen : ∀ k c, 1 ≤ c → c ≤ 7 → iter k c = (c - 1 + k) % 7 + 1 := by
    intro k
    induction k with
    | zero => intro c h1 h2; simp only [iter]; omega
    | succ k ih =>
      intro c h1 h2
      have hn := counter_next c h2
      simp only [iter]
      rw [ih _ hn.2.1 hn.2.2, hn.1]
      unfold cyc; split <;> omega
  have h1 : iter (k + 1) mbxStart = iter k 1 := by simp [iter, nextCounter, mbxStart, mbxMod]
  rw [h1, gen k 1 (by omega) (by omega)]; simp

/-- the `k`-th of any number `n` of successive calls returns 0 for the first and then 1,2,…,7,1,2,…:
no repeat, no gap, never 0 again -/
theorem counter_cycle (n k : Nat) (h : k < n) :
    (counters mbxStart n)[k]? = some (if k = 0 then 0 else (k - 1) % 7 + 1) := by
  rw [counters_get _ _ _ h]
  cases k with
  | zero => simp [iter, mbxStart]
  | succ k => simp [iter_closed]

theorem counters_length (c n : Nat) : (counters c n).length = n := by
  induction n generalizing c with
  | zero => rfl
  | succ n ih => simp [counters, ih]

/-! ### tasks of one process: the shape of what a task still has to do -/

inductive Mode where
  | out | inn | pend
deriving DecidableEq

/-- `wf m p`: `p` is a continuation of `prog …` for a task that is outside a critical section (`out`),
inside between two exchanges (`inn`), or inside with a request out (`pend`) -/
def wf : Mode → List Step → Bool
  | .out, [] => true
  | .out, .acq :: r => wf .inn r
  | .inn, .send :: r => wf .pend r
  | .pend, .recv :: r => wf .inn r
  | .inn, .rel :: r => wf .out r
  | .pend, .abort :: r => wf .inn r
  | _, _ => false

theorem wf_exchanges (n : Nat) (q : List Step) : wf .inn (exchanges n ++ q) = wf .inn q := by
  induction n with
  | zero => rfl
  | succ n ih => simpa [exchanges, wf] using ih

theorem wf_prog (ns : List Sec) : wf .out (prog ns) = true := by
  induction ns with
  | nil => rfl
  | cons x xs ih =>
    simp only [prog, critical, List.cons_append, wf, List.append_assoc]
    rw [wf_exchanges]
    cases hc : x.cut <;> simpa [ending, wf] using ih

theorem wf_out {p : List Step} (h : wf .out p = true) : p = [] ∨ ∃ r, p = .acq :: r ∧ wf .inn r = true := by
  cases p with
  | nil => exact .inl rfl
  | cons a r => cases a <;> simp_all [wf]

theorem wf_inn {p : List Step} (h : wf .inn p = true) :
    (∃ r, p = .send :: r ∧ wf .pend r = true) ∨ (∃ r, p = .rel :: r ∧ wf .out r = true) := by
  cases p with
  | nil => simp [wf] at h
  | cons a r => cases a <;> simp_all [wf]

theorem wf_pend {p : List Step} (h : wf .pend p = true) :
    ∃ r, (p = .recv :: r ∨ p = .abort :: r) ∧ wf .inn r = true := by
  cases p with
  | nil => simp [wf] at h
  | cons a r => cases a <;> simp_all [wf]

def modeOf (k : Chk) (t : Nat) : Mode :=
  if k.holder = some t then (if k.pend then .pend else .inn) else .out

/-- what ties the lock state to the property's view of the trace so far -/
structure Inv (s : St) (k : Chk) : Prop where
  progs : ∀ t, wf (modeOf k t) (s.progs t) = true
  lock : s.locked = k.holder.isSome
  pend : k.holder = none → k.pend = false
  woken : s.woken = true → s.locked = false ∧ s.waiters ≠ []
  ctr : follows k.last s.counter = true

theorem init_inv (tasks : List (List Sec)) : Inv (init tasks) chk0 where
  progs t := by simp [modeOf, chk0, init, wf_prog]
  lock := rfl
  pend _ := rfl
  woken h := by simp [init] at h
  ctr := by simp [follows, chk0, init, mbxStart, mbxMod]

theorem modeOf_other {k : Chk} {t u : Nat} (h : k.holder = some t) (hu : u ≠ t) : modeOf k u = .out := by
  simp [modeOf, h, Ne.symm hu]

theorem modeOf_free {k : Chk} (h : k.holder = none) (u : Nat) : modeOf k u = .out := by
  simp [modeOf, h]

theorem free_holder {s : St} {k : Chk} (h : Inv s k) (hfree : s.locked = false) : k.holder = none := by
  have := h.lock; rw [hfree] at this
  cases hk : k.holder with
  | none => rfl
  | some x => rw [hk] at this; simp at this

/-- task `t` takes the free lock -/
theorem inv_acquire {s : St} {k : Chk} {t : Nat} {r : List Step} (h : Inv s k) (hfree : s.locked = false)
    (hr : wf .inn r = true) (w : List Nat) :
    Inv { s with locked := true, woken := false, waiters := w, progs := setProg s.progs t r }
        { k with holder := some t } := by
  have hnone := free_holder h hfree
  have hp := h.pend hnone
  refine ⟨?_, rfl, by simp, by simp, h.ctr⟩
  intro u
  by_cases hu : u = t
  · subst hu; simp [modeOf, hp, setProg, hr]
  · have := h.progs u
    rw [modeOf_free hnone] at this
    simp only [setProg, hu, ↓reduceIte]
    rw [modeOf_other (k := { k with holder := some t }) rfl hu]; exact this

theorem step_inv (s : St) (k : Chk) (t : Nat) (h : Inv s k) :
    ∃ k', Inv (step s t).1 k' ∧ ∀ rest, check k ((step s t).2 ++ rest) = check k' rest := by
  by_cases hh : k.holder = some t
  · have hlock : s.locked = true := by rw [h.lock, hh]; rfl
    by_cases hp : k.pend = true
    · -- a request is out: the task reads the response
      have hm : modeOf k t = .pend := by simp [modeOf, hh, hp]
      obtain ⟨r, hpr, hr⟩ := wf_pend (hm ▸ h.progs t)
      have hprogs : ∀ u, wf (modeOf { k with pend := false } u) (setProg s.progs t r u) = true := by
        intro u
        by_cases hu : u = t
        · subst hu; simp [modeOf, hh, setProg, hr]
        · have := h.progs u
          rw [modeOf_other hh hu] at this
          simp only [setProg, hu, ↓reduceIte]
          rw [modeOf_other (k := { k with pend := false }) hh hu]; exact this
      refine ⟨{ k with pend := false }, ?_, ?_⟩
      · -- the response is read, or the exception that ends the block abandons the request: same lock state
        rcases hpr with hpr | hpr <;> simp only [step, hpr] <;>
          exact ⟨hprogs, h.lock, fun hn => by simp, h.woken, h.ctr⟩
      · intro rest; rcases hpr with hpr | hpr <;> simp [step, hpr, check, chk1, hh, hp]
    · have hp' : k.pend = false := by simpa using hp
      have hm : modeOf k t = .inn := by simp [modeOf, hh, hp']
      rcases wf_inn (hm ▸ h.progs t) with ⟨r, hpr, hr⟩ | ⟨r, hpr, hr⟩
      · -- next message leaves with the stored counter
        refine ⟨{ k with last := some s.counter, pend := true }, ?_, ?_⟩
        · simp only [step, hpr, hlock, ↓reduceIte]
          refine ⟨?_, by simp [hh], fun hn => by simp [hh] at hn, ?_, by simp [follows]⟩
          · intro u
            by_cases hu : u = t
            · subst hu; simp [modeOf, hh, setProg, hr]
            · have := h.progs u
              rw [modeOf_other hh hu] at this
              simp only [setProg, hu, ↓reduceIte]
              rw [modeOf_other (k := { k with last := some s.counter, pend := true }) hh hu]; exact this
          · intro hw
            have := (h.woken hw).1
            simp [hlock] at this
        · intro rest; simp [step, hpr, hlock, check, chk1, hh, hp', h.ctr]
      · -- release
        refine ⟨{ k with holder := none }, ?_, ?_⟩
        · simp only [step, hpr]
          refine ⟨?_, rfl, fun _ => hp', fun hw => ⟨rfl, by simpa using hw⟩, h.ctr⟩
          intro u
          rw [modeOf_free (k := { k with holder := none }) rfl]
          by_cases hu : u = t
          · subst hu; simp [setProg, hr]
          · have := h.progs u
            rw [modeOf_other hh hu] at this
            simpa [setProg, hu] using this
        · intro rest; simp [step, hpr, check, chk1, hh, hp']
  · have hm : modeOf k t = .out := by simp [modeOf, hh]
    rcases wf_out (hm ▸ h.progs t) with hpr | ⟨r, hpr, hr⟩
    · exact ⟨k, by simpa [step, hpr] using h, fun rest => by simp [step, hpr]⟩
    · by_cases hw : t ∈ s.waiters
      · by_cases hwk : (s.woken && s.waiters.head? == some t) = true
        · have hwoken : s.woken = true := by simp at hwk; exact hwk.1
          have hfree := (h.woken hwoken).1
          have hnone := free_holder h hfree
          refine ⟨{ k with holder := some t }, ?_, ?_⟩
          · simp only [step, hpr, hw, ↓reduceIte, hwk]
            exact inv_acquire h hfree hr _
          · intro rest; simp [step, hpr, hw, hwk, check, chk1, hnone]
        · exact ⟨k, by simpa [step, hpr, hw, hwk] using h, fun rest => by simp [step, hpr, hw, hwk]⟩
      · by_cases hf : (!s.locked && s.waiters.isEmpty) = true
        · have hfree : s.locked = false := by simp at hf; exact hf.1
          have hemp : s.waiters = [] := by simp at hf; exact hf.2
          have hnw : s.woken = false := by
            cases hwk : s.woken with
            | false => rfl
            | true => exact absurd hemp (h.woken hwk).2
          have hnone := free_holder h hfree
          refine ⟨{ k with holder := some t }, ?_, ?_⟩
          · simp only [step, hpr, hw, ↓reduceIte, hf]
            have := inv_acquire (t := t) h hfree hr s.waiters
            simpa [hnw] using this
          · intro rest; simp [step, hpr, hw, hf, check, chk1, hnone]
        · refine ⟨k, ?_, fun rest => by simp [step, hpr, hw, hf]⟩
          simp only [step, hpr, hw, ↓reduceIte, hf]
          exact ⟨h.progs, h.lock, h.pend, fun hwk => ⟨(h.woken hwk).1, by simp⟩, h.ctr⟩

theorem run_ok (s : St) (k : Chk) (sched : List Nat) (h : Inv s k) : check k (run s sched) = true := by
  induction sched generalizing s k with
  | nil => rfl
  | cons t ts ih =>
    obtain ⟨k', hi, hc⟩ := step_inv s k t h
    simp only [run]
    rw [hc]; exact ih _ _ hi

/-- **in-process**: for any number of tasks with any numbers of critical sections and exchanges, under every
schedule of the event loop, the trace satisfies `check`: critical sections of different tasks never
overlap, every request is followed by its own response before the next request, every message carries the
successor (in the cycle) of the previous message of *any* task, and `assert self.locked()` never fails -/
theorem inproc_serialised (tasks : List (List Sec)) (sched : List Nat) :
    check chk0 (run (init tasks) sched) = true :=
  run_ok _ _ _ (init_inv tasks)

theorem step_sent (s : St) (t : Nat) :
    (sent (step s t).2 = [] ∧ (step s t).1.counter = s.counter) ∨
    (sent (step s t).2 = [s.counter] ∧ (step s t).1.counter = nextCounter s.counter) := by
  unfold step
  split
  · simp [sent]
  · split
    · split <;> simp [sent]
    · split <;> simp [sent]
  · split <;> simp [sent]
  · simp [sent]
  · simp [sent]
  · simp [sent]

theorem sent_append (a b : List Ev) : sent (a ++ b) = sent a ++ sent b := by
  induction a with
  | nil => rfl
  | cons e a ih => cases e <;> simp [sent, ih]

theorem sent_run (s : St) (sched : List Nat) :
    sent (run s sched) = counters s.counter (sent (run s sched)).length := by
  induction sched generalizing s with
  | nil => rfl
  | cons t ts ih =>
    simp only [run, sent_append]
    rcases step_sent s t with ⟨h1, h2⟩ | ⟨h1, h2⟩
    · rw [h1]; simpa [h2] using ih (step s t).1
    · rw [h1]
      have := ih (step s t).1
      rw [h2] at this
      simp only [List.singleton_append, List.length_cons, counters]
      rw [← this]

/-- **in-process, counted**: the counters of all messages of all tasks, in the order they leave, are exactly
0,1,…,7,1,… (`counter_cycle` gives each position) -/
theorem inproc_counted (tasks : List (List Sec)) (sched : List Nat) :
    sent (run (init tasks) sched) = counters mbxStart (sent (run (init tasks) sched)).length :=
  sent_run _ _

theorem lastFrom_append (l : Option Nat) (a b : List Ev) : lastFrom l (a ++ b) = lastFrom (lastFrom l a) b := by
  induction a generalizing l with
  | nil => rfl
  | cons e a ih => cases e <;> simp [lastFrom, ih]

theorem step_last (s : St) (t : Nat) (l : Option Nat) (h : follows l s.counter = true) :
    follows (lastFrom l (step s t).2) (step s t).1.counter = true := by
  unfold step
  split
  · simpa [lastFrom] using h
  · split
    · split <;> simpa [lastFrom] using h
    · split <;> simpa [lastFrom] using h
  · split
    · simp [lastFrom, follows]
    · simpa [lastFrom] using h
  · simpa [lastFrom] using h
  · simpa [lastFrom] using h
  · simpa [lastFrom] using h

theorem run_last (s : St) (sched : List Nat) (l : Option Nat) (h : follows l s.counter = true) :
    follows (lastFrom l (run s sched)) (after s sched).counter = true := by
  induction sched generalizing s l with
  | nil => simpa [run, after, lastFrom] using h
  | cons t ts ih =>
    simp only [run, after, lastFrom_append]
    exact ih _ _ (step_last s t l h)

/-- **the lock is left in the state the next user expects**: after every schedule — blocks left normally, by an
error between two exchanges, or by an exception/cancellation that abandons a request — the counter stored in the
`MailboxLock` is the successor of the counter of the latest message on the bus (a counter ≤ 7 while nothing has
been sent): whoever sends next continues the cycle -/
theorem counter_tracks_bus (tasks : List (List Sec)) (sched : List Nat) :
    follows (lastFrom none (run (init tasks) sched)) (after (init tasks) sched).counter = true :=
  run_last _ _ _ (by simp [follows, init, mbxStart, mbxMod])

/-! non-vacuity: three tasks contend; task 1 and 2 queue, release wakes task 1 while task 2 keeps waiting -/
example : run (init [[1], [2], [1]]) [0, 1, 2, 0, 1, 0, 2, 0, 1, 1, 1, 2, 1, 1, 1, 2, 2, 2, 2]
    = [.acq 0, .send 0 0, .recv 0, .rel 0, .acq 1, .send 1 1, .recv 1, .send 1 2, .recv 1, .rel 1,
       .acq 2, .send 2 3, .recv 2, .rel 2] := by decide
example : (after (init [[1], [2], [1]]) [0, 1, 2, 0, 1, 0, 2, 0]).waiters = [1, 2] ∧
    (after (init [[1], [2], [1]]) [0, 1, 2, 0, 1, 0, 2, 0]).woken = true := by decide

/-! non-vacuity for blocks that are left by an exception: task 0's first block is cut right after its request
(counter 0) while task 1 waits for the lock; task 1 continues with 1, completes that exchange, sends 2 and is cut;
task 0 comes back with 3 -/
theorem failed_exchange_witness :
    run (init [[⟨0, true⟩, 1], [⟨1, true⟩]]) [0, 1, 0, 0, 0, 1, 1, 1, 1, 1, 1, 0, 0, 0, 0]
      = [.acq 0, .send 0 0, .abort 0, .rel 0, .acq 1, .send 1 1, .recv 1, .send 1 2, .abort 1, .rel 1,
         .acq 0, .send 0 3, .recv 0, .rel 0] ∧
    secMessages [⟨0, true⟩, 1] + secMessages [⟨1, true⟩] = 4 := by decide

/-! ### retries: attempts that fail before anything is written consume no counter

The sections of a task may be attempts of operations that failed before their next message was written
(`Op.sections`).  `retries_serialised`/`retries_counted` are the statements above read for such tasks;
`retries_total` adds that once everybody is done the counters that left are exactly one per message — none
was used up by a failed attempt. -/

theorem sends_append (a b : List Step) : sends (a ++ b) = sends a + sends b := by
  induction a with
  | nil => simp [sends]
  | cons x a ih => cases x <;> simp [sends, ih] <;> omega

theorem sends_exchanges (n : Nat) : sends (exchanges n) = n := by
  induction n with
  | zero => rfl
  | succ n ih => simp [exchanges, sends, ih]

theorem sends_prog (ns : List Sec) : sends (prog ns) = (ns.map Sec.messages).sum := by
  induction ns with
  | nil => rfl
  | cons x xs ih =>
    simp only [prog, critical, List.cons_append, sends, sends_append, sends_exchanges, ih, List.map_cons,
      List.sum_cons, Sec.messages]
    cases x.cut <;> simp [ending, sends] <;> omega

theorem sum_okSections (l : List Nat) :
    ((l.map fun n => ({ n := n, cut := false } : Sec)).map Sec.messages).sum = l.sum := by
  induction l with
  | nil => rfl
  | cons a l ih => simp only [List.map_cons, List.sum_cons, ih]; simp [Sec.messages]

theorem sum_opSections (ops : List Op) : ((opSections ops).map Sec.messages).sum = opMessages ops := by
  induction ops with
  | nil => rfl
  | cons o ops ih =>
    simp only [opSections, List.flatMap_cons, List.map_append, List.sum_append, opMessages, List.map_cons,
      List.sum_cons] at ih ⊢
    rw [ih]
    have := sum_okSections (o.fails ++ [o.n])
    simp only [List.sum_append, List.sum_cons, List.sum_nil, Nat.add_zero] at this
    simp only [Op.sections, Op.messages]
    omega

theorem tot_succ (n : Nat) (f : Nat → List Step) : tot (n + 1) f = tot n f + sends (f n) := by
  simp [tot, List.range_succ]

theorem tot_setProg (n : Nat) (f : Nat → List Step) (t : Nat) (p : List Step) :
    tot n (setProg f t p) + (if t < n then sends (f t) else 0) = tot n f + (if t < n then sends p else 0) := by
  induction n with
  | zero => simp [tot]
  | succ n ih =>
    rw [tot_succ, tot_succ]
    by_cases h1 : t < n
    · have h2 : t < n + 1 := by omega
      have h3 : n ≠ t := by omega
      simp only [h1, h2, ↓reduceIte, setProg, h3] at ih ⊢
      omega
    · by_cases h2 : t = n
      · subst h2
        simp only [Nat.lt_irrefl, ↓reduceIte, Nat.add_zero, Nat.lt_succ_self, setProg] at ih ⊢
        omega
      · have h3 : ¬ t < n + 1 := by omega
        have h4 : n ≠ t := fun h => h2 h.symm
        simp only [h1, h3, ↓reduceIte, setProg, h4, Nat.add_zero] at ih ⊢
        omega

theorem step_nil (s : St) (t : Nat) (h : s.progs t = []) : step s t = (s, []) := by
  simp [step, h]

theorem setProg_self (f : Nat → List Step) (t : Nat) : setProg f t (f t) = f := by
  funext u
  by_cases h : u = t <;> simp [setProg, h]

/-- one step of a task: only its own continuation changes, and it shrinks by exactly the messages that left -/
theorem step_progs (s : St) (k : Chk) (t : Nat) (h : Inv s k) :
    ∃ p', (step s t).1.progs = setProg s.progs t p' ∧
      (sent (step s t).2).length + sends p' = sends (s.progs t) := by
  have hwf := h.progs t
  cases hp : s.progs t with
  | nil =>
    rw [step_nil s t hp]
    exact ⟨[], by rw [← hp, setProg_self], by simp [sent, sends]⟩
  | cons a r =>
    cases a with
    | acq =>
      simp only [step, hp]
      split
      · split
        · exact ⟨r, rfl, by simp [sent, sends]⟩
        · exact ⟨.acq :: r, by rw [← hp, setProg_self], by simp [sent, sends]⟩
      · split
        · exact ⟨r, rfl, by simp [sent, sends]⟩
        · exact ⟨.acq :: r, by rw [← hp, setProg_self], by simp [sent, sends]⟩
    | send =>
      have hl : s.locked = true := by
        rw [hp] at hwf
        unfold modeOf at hwf
        by_cases hh : k.holder = some t
        · rw [h.lock, hh]; rfl
        · simp [hh, wf] at hwf
      simp only [step, hp, hl, ↓reduceIte]
      exact ⟨r, rfl, by simp [sent, sends]; omega⟩
    | recv =>
      simp only [step, hp]
      exact ⟨r, rfl, by simp [sent, sends]⟩
    | rel =>
      simp only [step, hp]
      exact ⟨r, rfl, by simp [sent, sends]⟩
    | abort =>
      simp only [step, hp]
      exact ⟨r, rfl, by simp [sent, sends]⟩

theorem sent_tot (n : Nat) (sched : List Nat) : ∀ (s : St) (k : Chk), Inv s k → (∀ t, n ≤ t → s.progs t = []) →
    (sent (run s sched)).length + tot n (after s sched).progs = tot n s.progs := by
  induction sched with
  | nil => intro s k _ _; simp [run, after, sent]
  | cons t ts ih =>
    intro s k hinv hout
    by_cases htn : t < n
    · obtain ⟨k', hinv', _⟩ := step_inv s k t hinv
      obtain ⟨p', hp1, hp2⟩ := step_progs s k t hinv
      have hout' : ∀ u, n ≤ u → (step s t).1.progs u = [] := by
        intro u hu
        have hut : u ≠ t := by omega
        rw [hp1]; simp [setProg, hut, hout u hu]
      have := ih (step s t).1 k' hinv' hout'
      have hs := tot_setProg n s.progs t p'
      simp only [run, after, sent_append, List.length_append]
      rw [hp1] at this
      simp only [htn, ↓reduceIte] at hs
      omega
    · have h0 : s.progs t = [] := hout t (by omega)
      simp only [run, after, step_nil s t h0, List.nil_append]
      exact ih s k hinv hout

theorem tot_zero (n : Nat) (f : Nat → List Step) (h : ∀ t, f t = []) : tot n f = 0 := by
  induction n with
  | zero => rfl
  | succ n ih => rw [tot_succ, ih, h n]; rfl

theorem map_range_getD {α β : Type} (l : List α) (d : α) (g : α → β) :
    (List.range l.length).map (fun t => g (l.getD t d)) = l.map g := by
  induction l with
  | nil => rfl
  | cons a l ih =>
    rw [List.length_cons, List.range_succ_eq_map]
    simp only [List.map_cons, List.map_map]
    rw [← ih]
    simp [Function.comp_def]

theorem tot_init (tasks : List (List Sec)) :
    tot tasks.length (init tasks).progs = (tasks.map secMessages).sum := by
  simp only [tot, init, sends_prog]
  rw [map_range_getD tasks [] (fun xs => (xs.map Sec.messages).sum)]
  rfl

/-- the statements above, read for tasks whose sections are attempts of operations -/
theorem retries_serialised (tasks : List (List Op)) (sched : List Nat) :
    check chk0 (run (init (tasks.map opSections)) sched) = true :=
  inproc_serialised _ _

theorem retries_counted (tasks : List (List Op)) (sched : List Nat) :
    sent (run (init (tasks.map opSections)) sched)
      = counters mbxStart (sent (run (init (tasks.map opSections)) sched)).length :=
  inproc_counted _ _

/-- **failed and cancelled exchanges, counted to the end**: any number of tasks, each with any blocks, each block
with any number of complete exchanges and — if `cut` — a last request after which the block was left by an exception
(abort answer, unprocessed datagram, timeout, cancellation at any point once the request is out).  Under every
schedule after which all tasks are done, the counters on the bus are 0,1,…,7,1,… with exactly one per message that
left, abandoned requests included: the exchange after a failed or cancelled one neither repeats its counter nor
skips one, whoever performs it -/
theorem failed_total (tasks : List (List Sec)) (sched : List Nat)
    (hdone : ∀ t, (after (init tasks) sched).progs t = []) :
    sent (run (init tasks) sched) = counters mbxStart ((tasks.map secMessages).sum) := by
  have h := sent_tot tasks.length sched (init tasks) chk0 (init_inv _)
    (by
      intro t ht
      have hn : tasks[t]? = none := List.getElem?_eq_none (by simpa using ht)
      simp [init, List.getD, hn, prog])
  rw [tot_init] at h
  have h0 : tot tasks.length (after (init tasks) sched).progs = 0 := tot_zero _ _ hdone
  rw [h0] at h
  rw [inproc_counted, ← h]
  simp

/-- **retries, counted to the end**: any number of tasks, each with any operations, each operation with any
number of attempts that failed before their next message was written; under every schedule after which all
tasks are done, the counters on the wire are 0,1,…,7,1,… with exactly one per message that left
(`opMessages`): a failed attempt neither repeats nor skips a counter -/
theorem retries_total (tasks : List (List Op)) (sched : List Nat)
    (hdone : ∀ t, (after (init (tasks.map opSections)) sched).progs t = []) :
    sent (run (init (tasks.map opSections)) sched)
      = counters mbxStart ((tasks.map opMessages).sum) := by
  rw [failed_total _ _ hdone, List.map_map]
  have hs : (tasks.map (secMessages ∘ opSections)) = tasks.map opMessages := by
    apply List.map_congr_left
    intro ops _
    exact sum_opSections ops
  rw [hs]

/-! non-vacuity: task 0 reads (one exchange) after two attempts that failed before sending, task 1 writes a
value in three exchanges after an attempt that got one message out -/
def exOps : List (List Op) := [[⟨1, [0, 0]⟩], [⟨3, [1]⟩]]
example : sent (run (init (exOps.map opSections)) [0, 0, 1, 0, 1, 1, 1, 0, 0, 1, 0, 1, 1, 1, 1, 1, 1, 1, 1, 0, 0, 0, 0])
    = [0, 1, 2, 3, 4] := by decide
example : (exOps.map opMessages).sum = 5 := by decide

/-! ### processes sharing the lock file -/

inductive XMode where
  | out | got | inn | pend | exiting
deriving DecidableEq

def wfX : XMode → List PStep → Bool
  | .out, [] => true
  | .out, .enter :: r => wfX .got r
  | .got, .pread :: r => wfX .inn r
  | .inn, .send :: r => wfX .pend r
  | .pend, .recv :: r => wfX .inn r
  | .inn, .pwrite :: r => wfX .exiting r
  | .exiting, .unlock :: r => wfX .out r
  | .pend, .abort :: r => wfX .inn r
  | _, _ => false

theorem wfX_exchanges (n : Nat) (q : List PStep) : wfX .inn (exchangesX n ++ q) = wfX .inn q := by
  induction n with
  | zero => rfl
  | succ n ih => simpa [exchangesX, wfX] using ih

theorem wfX_prog (ns : List Sec) : wfX .out (progX ns) = true := by
  induction ns with
  | nil => rfl
  | cons x xs ih =>
    simp only [progX, criticalX, List.cons_append, wfX, List.append_assoc]
    rw [wfX_exchanges]
    cases hc : x.cut <;> simpa [endingX, wfX] using ih

theorem wfX_out {p : List PStep} (h : wfX .out p = true) : p = [] ∨ ∃ r, p = .enter :: r ∧ wfX .got r = true := by
  cases p with
  | nil => exact .inl rfl
  | cons a r => cases a <;> simp_all [wfX]

theorem wfX_got {p : List PStep} (h : wfX .got p = true) : ∃ r, p = .pread :: r ∧ wfX .inn r = true := by
  cases p with
  | nil => simp [wfX] at h
  | cons a r => cases a <;> simp_all [wfX]

theorem wfX_inn {p : List PStep} (h : wfX .inn p = true) :
    (∃ r, p = .send :: r ∧ wfX .pend r = true) ∨ (∃ r, p = .pwrite :: r ∧ wfX .exiting r = true) := by
  cases p with
  | nil => simp [wfX] at h
  | cons a r => cases a <;> simp_all [wfX]

theorem wfX_pend {p : List PStep} (h : wfX .pend p = true) :
    ∃ r, (p = .recv :: r ∨ p = .abort :: r) ∧ wfX .inn r = true := by
  cases p with
  | nil => simp [wfX] at h
  | cons a r => cases a <;> simp_all [wfX]

theorem wfX_exiting {p : List PStep} (h : wfX .exiting p = true) : ∃ r, p = .unlock :: r ∧ wfX .out r = true := by
  cases p with
  | nil => simp [wfX] at h
  | cons a r => cases a <;> simp_all [wfX]

/-- only a task outside a critical section has `enter` next -/
theorem wfX_enter {m : XMode} {r : List PStep} (h : wfX m (.enter :: r) = true) : m = .out := by
  cases m <;> simp_all [wfX]

theorem follows_le {l : Option Nat} {v : Nat} (h : follows l v = true) : v ≤ mbxMod := by
  cases l with
  | none => simpa [follows] using h
  | some x =>
    simp only [follows, beq_iff_eq] at h
    subst h; unfold nextCounter mbxMod; omega

theorem cur_putByte (data : List Nat) (off v : Nat) : cur (putByte data off v) off = v := by
  unfold cur putByte
  split
  · rename_i h; simp [h]
  · rename_i h
    have : (data ++ List.replicate (off - data.length) 0).length = off := by simp; omega
    rw [List.getElem?_append_right (by omega)]
    simp [this]

/-- ftruncate to a larger size does not change what any reader gets -/
theorem cur_truncTo (data : List Nat) (n off : Nat) : cur (truncTo data n) off = cur data off := by
  unfold cur truncTo
  by_cases h : off < data.length
  · rw [List.getElem?_append_left h]
  · rw [List.getElem?_append_right (by omega), List.getElem?_eq_none (l := data) (by omega)]
    simp [List.getElem?_replicate]
    split <;> rfl

/-- the task of process `q` that is the holder in the property's view, if any -/
def holdOf (k : XChk) (q : Nat) : Option Nat :=
  match k.holder with
  | some (p, t) => if p = q then some t else none
  | none => none

structure PInv (P : Proc) (hold : Option Nat) (m : XMode) (last : Option Nat) : Prop where
  wf : ∀ t, wfX (if hold = some t then m else .out) (P.progs t) = true
  tl : ∀ t, hold = some t → P.tholder = some t
  woken : P.twoken = true → P.tholder = none ∧ P.twaiters ≠ []
  ctr : hold.isSome = true → m = .inn ∨ m = .pend → ∃ c, P.ctr = some c ∧ follows last c = true
  ready : hold.isSome = true → P.init = .ready
  busy : ∀ u, P.busy = some u → P.tholder = some u

theorem PInv.relast {P : Proc} {m m' : XMode} {l l' : Option Nat} (h : PInv P none m l) : PInv P none m' l' :=
  ⟨by simpa using h.wf, by simp, h.woken, by simp, by simp, h.busy⟩

structure XInv (s : XSt) (k : XChk) (m : XMode) : Prop where
  procs : ∀ q, PInv (s.procs q) (holdOf k q) m k.last
  owner : s.file.owner = k.holder.map (·.1)
  mode : k.holder = none ↔ m = .out
  pend : k.pend = true ↔ m = .pend
  byte : m ≠ .inn → m ≠ .pend → follows k.last (cur s.file.data s.off) = true

theorem holdOf_self {k : XChk} {p t : Nat} (h : k.holder = some (p, t)) : holdOf k p = some t := by
  simp [holdOf, h]

theorem holdOf_other {k : XChk} {p q : Nat} (h : k.holder = none ∨ ∃ t, k.holder = some (p, t)) (hq : q ≠ p) :
    holdOf k q = none := by
  rcases h with h | ⟨t, h⟩ <;> simp [holdOf, h, Ne.symm hq]

/-- a step of process `p` that does not change the property's view -/
theorem xinv_procs_same {s : XSt} {k : XChk} {m : XMode} {p : Nat} {P' : Proc} (h : XInv s k m)
    (hp : PInv P' (holdOf k p) m k.last) : ∀ q, PInv (setProc s.procs p P' q) (holdOf k q) m k.last := by
  intro q
  by_cases hq : q = p
  · subst hq; simpa [setProc] using hp
  · simpa [setProc, hq] using h.procs q

/-- a step of process `p` while the holder is, and stays, nobody or a task of `p` -/
theorem xinv_procs_holder {s : XSt} {k k' : XChk} {m m' : XMode} {p : Nat} {P' : Proc} (h : XInv s k m)
    (h1 : k.holder = none ∨ ∃ t, k.holder = some (p, t)) (h2 : k'.holder = none ∨ ∃ t, k'.holder = some (p, t))
    (hp : PInv P' (holdOf k' p) m' k'.last) : ∀ q, PInv (setProc s.procs p P' q) (holdOf k' q) m' k'.last := by
  intro q
  by_cases hq : q = p
  · subst hq; simpa [setProc] using hp
  · have := h.procs q
    rw [holdOf_other h1 hq] at this
    rw [holdOf_other h2 hq]
    simpa [setProc, hq] using this.relast

/-- `LockFile.__init__` of any process, at any time: nothing the property sees changes -/
theorem xinv_init_step {s : XSt} {k : XChk} {m : XMode} {p : Nat} (h : XInv s k m) (i : InitSt) (f : File)
    (hi : (s.procs p).init ≠ .ready) (hf : f.owner = s.file.owner) (hc : cur f.data s.off = cur s.file.data s.off) :
    XInv { s with file := f, procs := setProc s.procs p { s.procs p with init := i } } k m := by
  have hP := h.procs p
  have hnone : holdOf k p = none := by
    cases hr : holdOf k p with
    | none => rfl
    | some x => exact absurd (hP.ready (by simp [hr])) hi
  rw [hnone] at hP
  refine ⟨xinv_procs_same h (hnone ▸ ⟨hP.wf, hP.tl, hP.woken, hP.ctr, by simp, hP.busy⟩), by simpa [hf] using h.owner,
    h.mode, h.pend, ?_⟩
  intro h1 h2; simpa [hc] using h.byte h1 h2

theorem holdOf_eq {k : XChk} {p t : Nat} : holdOf k p = some t ↔ k.holder = some (p, t) := by
  unfold holdOf
  cases hk : k.holder with
  | none => simp
  | some qt =>
    obtain ⟨q, t'⟩ := qt
    by_cases hq : q = p
    · subst hq; simp
    · simp [hq]

theorem pend_false {s : XSt} {k : XChk} {m : XMode} (h : XInv s k m) (hm : m ≠ .pend) : k.pend = false := by
  cases hk : k.pend with
  | false => rfl
  | true => exact absurd (h.pend.1 hk) hm

/-- the `lockf` attempt of a task that holds its process's task lock -/
theorem tryLock_inv {s : XSt} {k : XChk} {m : XMode} {p t : Nat} {r : List PStep} {P : Proc} (h : XInv s k m)
    (hnot : k.holder ≠ some (p, t)) (hP : PInv P (holdOf k p) m k.last) (hth : P.tholder = some t)
    (hrdy : P.init = .ready)
    (hr : wfX .got r = true) :
    ∃ k' m', XInv (tryLock s p t P r).1 k' m' ∧
      (∀ rest, checkX k ((tryLock s p t P r).2 ++ rest) = checkX k' rest) ∧
      k'.last = lastFromX k.last (tryLock s p t P r).2 := by
  cases hk : k.holder with
  | none =>
    have hown : s.file.owner = none := by rw [h.owner, hk]; rfl
    have hm : m = .out := h.mode.1 hk
    subst hm
    have hpend := pend_false h (by simp)
    have hho : holdOf k p = none := by simp [holdOf, hk]
    rw [hho] at hP
    refine ⟨{ k with holder := some (p, t) }, .got, ?_, fun rest => by simp [tryLock, hown, checkX, xchk1, hk],
      by simp [tryLock, hown, lastFromX]⟩
    have hfree : (s.file.owner.isSome && s.file.owner != some p) = false := by simp [hown]
    simp only [tryLock, hfree, Bool.false_eq_true, ↓reduceIte]
    refine ⟨xinv_procs_holder h (.inl hk) (.inr ⟨t, rfl⟩) ?_, by simp, by simp, by simp [hpend],
      fun _ _ => h.byte (by simp) (by simp)⟩
    rw [holdOf_self (k := { k with holder := some (p, t) }) rfl]
    refine ⟨fun u => ?_, fun u hu => by simp at hu; subst hu; exact hth,
      fun hw => absurd (hP.woken hw).1 (by simp [hth]), by simp, fun _ => hrdy, fun u hu => by simp at hu; subst hu; exact hth⟩
    by_cases hu : u = t
    · subst hu; simpa [contProg] using hr
    · have := hP.wf u
      simp only [reduceCtorEq, ↓reduceIte] at this
      simpa [contProg, hu, Ne.symm hu] using this
  | some qt =>
    obtain ⟨q, t'⟩ := qt
    have hqp : q ≠ p := by
      intro e; subst e
      have := hP.tl t' (holdOf_self hk)
      rw [hth] at this
      exact hnot (by rw [hk]; simp at this; rw [this])
    have hown : s.file.owner = some q := by rw [h.owner, hk]; rfl
    refine ⟨k, m, ?_, fun rest => by simp [tryLock, hown, hqp, checkX, xchk1], by simp [tryLock, hown, hqp, lastFromX]⟩
    have hbusy : (s.file.owner.isSome && s.file.owner != some p) = true := by simp [hown, hqp]
    simp only [tryLock, hbusy, ↓reduceIte]
    exact ⟨xinv_procs_same h ⟨hP.wf, hP.tl, hP.woken, hP.ctr, hP.ready, by simp⟩, h.owner, h.mode, h.pend, h.byte⟩

/-- a task of `p` other than `t` keeps its shape when `t` moves on -/
theorem wf_cont {P : Proc} {hold : Option Nat} {m m' : XMode} {l : Option Nat} {t : Nat} {r : List PStep}
    (hP : PInv P hold m l) (hh : hold = some t) (hr : wfX m' r = true) (hold' : Option Nat)
    (h' : hold' = some t ∨ (hold' = none ∧ m' = .out)) :
    ∀ u, wfX (if hold' = some u then m' else .out) (contProg P t r u) = true := by
  intro u
  by_cases hu : u = t
  · subst hu
    rcases h' with h' | ⟨h', hm⟩
    · simpa [contProg, h'] using hr
    · subst hm; simpa [contProg, h'] using hr
  · have := hP.wf u
    rw [hh] at this
    have hne : ¬ (some t = some u) := by simp [Ne.symm hu]
    simp only [hne, ↓reduceIte] at this
    rcases h' with h' | ⟨h', _⟩ <;> simpa [contProg, hu, h', Ne.symm hu] using this

/-- once the file exists it stays (removal is not part of this property) -/
theorem started_step (s : XSt) (pt : Nat × Nat) (hs : s.file.present = true) :
    (stepX s pt).1.file.present = true := by
  unfold stepX tryLock
  simp only []
  repeat' split
  all_goals simp_all

theorem stepX_off (s : XSt) (pt : Nat × Nat) : (stepX s pt).1.off = s.off := by
  unfold stepX tryLock
  simp only []
  repeat' split
  all_goals simp_all

theorem afterX_off (s : XSt) (sc : List (Nat × Nat)) : (afterX s sc).off = s.off := by
  induction sc generalizing s with
  | nil => rfl
  | cons pt rest ih => simp only [afterX]; rw [ih, stepX_off]

theorem stepX_inv (s : XSt) (k : XChk) (m : XMode) (pt : Nat × Nat) (h : XInv s k m)
    (hpres : s.file.present = true) :
    ∃ k' m', XInv (stepX s pt).1 k' m' ∧ (∀ rest, checkX k ((stepX s pt).2 ++ rest) = checkX k' rest) ∧
      k'.last = lastFromX k.last (stepX s pt).2 := by
  obtain ⟨p, t⟩ := pt
  have hP := h.procs p
  cases hinit : (s.procs p).init with
  | fresh =>
    refine ⟨k, m, ?_, fun rest => by simp [stepX, hinit, hpres, checkX, xchk1], by simp [stepX, hinit, hpres, lastFromX]⟩
    simp only [stepX, hinit, hpres, ↓reduceIte]
    exact xinv_init_step h .opening s.file (by simp [hinit]) rfl rfl
  | created =>
    refine ⟨k, m, ?_, fun rest => by simp [stepX, hinit, checkX, xchk1], by simp [stepX, hinit, lastFromX]⟩
    simp only [stepX, hinit]
    exact xinv_init_step h .ready _ (by simp [hinit]) rfl (cur_truncTo _ _ _)
  | opening =>
    refine ⟨k, m, ?_, fun rest => by simp [stepX, hinit, checkX, xchk1], by simp [stepX, hinit, lastFromX]⟩
    simp only [stepX, hinit]
    exact xinv_init_step h .ready s.file (by simp [hinit]) rfl rfl
  | ready =>
    cases hb : ((s.procs p).busy.isSome && (s.procs p).busy != some t) with
    | true => exact ⟨k, m, by simpa [stepX, hinit, hb] using h, fun rest => by simp [stepX, hinit, hb],
        by simp [stepX, hinit, hb, lastFromX]⟩
    | false =>
      by_cases hh : k.holder = some (p, t)
      · have hho : holdOf k p = some t := holdOf_self hh
        rw [hho] at hP
        have hwf := hP.wf t
        simp only [↓reduceIte] at hwf
        have hne : k.holder ≠ none := by simp [hh]
        have h1 : k.holder = none ∨ ∃ t, k.holder = some (p, t) := .inr ⟨t, hh⟩
        cases hm : m with
        | out => exact absurd (h.mode.2 hm) hne
        | got =>
          subst hm
          obtain ⟨r, hpr, hr⟩ := wfX_got hwf
          have hf := h.byte (by simp) (by simp)
          have hpend := pend_false h (by simp)
          refine ⟨k, .inn, ?_, fun rest => ?_, ?_⟩
          · simp only [stepX, hinit, hb, hpr]
            refine ⟨xinv_procs_holder h h1 h1 ?_, h.owner, by simp [hh], by simp [hpend], by simp⟩
            rw [hho]
            exact ⟨wf_cont hP rfl hr _ (.inl rfl), hP.tl, hP.woken, fun _ _ => ⟨_, rfl, hf⟩, fun _ => rfl, by simp⟩
          · cases hd : s.file.data[s.off]? with
            | none => simp [stepX, hinit, hb, hpr, hd, checkX, xchk1, hh]
            | some v =>
              have : v ≤ mbxMod := by have := follows_le hf; simpa [cur, hd] using this
              simp [stepX, hinit, hb, hpr, hd, checkX, xchk1, hh, this]
          · cases hd : s.file.data[s.off]? <;> simp [stepX, hinit, hb, hpr, hd, lastFromX]
        | inn =>
          subst hm
          obtain ⟨c, hc, hfc⟩ := hP.ctr rfl (.inl rfl)
          have hpend := pend_false h (by simp)
          rcases wfX_inn hwf with ⟨r, hpr, hr⟩ | ⟨r, hpr, hr⟩
          · refine ⟨{ k with last := some c, pend := true }, .pend, ?_,
              fun rest => by simp [stepX, hinit, hb, hpr, hc, checkX, xchk1, hh, hpend, hfc],
              by simp [stepX, hinit, hb, hpr, hc, lastFromX]⟩
            simp only [stepX, hinit, hb, hpr, hc]
            refine ⟨xinv_procs_holder h h1 (.inr ⟨t, hh⟩) ?_, h.owner, by simp [hh], by simp, by simp⟩
            rw [holdOf_self (k := { k with last := some c, pend := true }) hh]
            exact ⟨wf_cont hP rfl hr _ (.inl rfl), hP.tl, hP.woken, fun _ _ => ⟨nextCounter c, rfl, by simp [follows]⟩,
              fun _ => rfl, hP.busy⟩
          · refine ⟨k, .exiting, ?_, fun rest => by simp [stepX, hinit, hb, hpr, hc, checkX, xchk1, hh, hpend],
              by simp [stepX, hinit, hb, hpr, hc, lastFromX]⟩
            simp only [stepX, hinit, hb, hpr, hc]
            refine ⟨xinv_procs_holder h h1 h1 ?_, h.owner, by simp [hh], by simp [hpend],
              fun _ _ => by simpa [cur_putByte] using hfc⟩
            rw [hho]
            exact ⟨wf_cont hP rfl hr _ (.inl rfl), hP.tl, hP.woken, by simp, fun _ => rfl,
              fun u hu => by simp at hu; subst hu; exact hP.tl _ rfl⟩
        | pend =>
          subst hm
          obtain ⟨c, hc, hfc⟩ := hP.ctr rfl (.inr rfl)
          have hpend : k.pend = true := h.pend.2 rfl
          obtain ⟨r, hpr, hr⟩ := wfX_pend hwf
          -- the response is read, or the exception that ends the block abandons the request: the counter the
          -- lock object holds is the same in both cases, and `__aexit__` will write it
          rcases hpr with hpr | hpr <;> (
            refine ⟨{ k with pend := false }, .inn, ?_,
              fun rest => by simp [stepX, hinit, hb, hpr, checkX, xchk1, hh, hpend],
              by simp [stepX, hinit, hb, hpr, lastFromX]⟩
            simp only [stepX, hinit, hb, hpr]
            refine ⟨xinv_procs_holder h h1 (.inr ⟨t, hh⟩) ?_, h.owner, by simp [hh], by simp, by simp⟩
            rw [holdOf_self (k := { k with pend := false }) hh]
            exact ⟨wf_cont hP rfl hr _ (.inl rfl), hP.tl, hP.woken, fun _ _ => ⟨c, hc, hfc⟩, fun _ => rfl, hP.busy⟩)
        | exiting =>
          subst hm
          have hpend := pend_false h (by simp)
          have hf := h.byte (by simp) (by simp)
          obtain ⟨r, hpr, hr⟩ := wfX_exiting hwf
          have hown : s.file.owner = some p := by rw [h.owner, hh]; rfl
          refine ⟨{ k with holder := none }, .out, ?_, fun rest => by simp [stepX, hinit, hb, hpr, checkX, xchk1, hh],
            by simp [stepX, hinit, hb, hpr, lastFromX]⟩
          simp only [stepX, hinit, hb, hpr, hown]
          refine ⟨xinv_procs_holder h h1 (.inl rfl) ?_, by simp, by simp, by simp [hpend], fun _ _ => hf⟩
          have : holdOf { k with holder := none } p = none := by simp [holdOf]
          rw [this]
          exact ⟨wf_cont hP rfl hr _ (.inr ⟨rfl, rfl⟩), by simp, fun hw => ⟨rfl, by simpa using hw⟩, by simp, by simp, by simp⟩
      · have hnot : holdOf k p ≠ some t := fun e => hh (holdOf_eq.1 e)
        have hwf := hP.wf t
        simp only [hnot, ↓reduceIte] at hwf
        rcases wfX_out hwf with hpr | ⟨r, hpr, hr⟩
        · exact ⟨k, m, by simpa [stepX, hinit, hb, hpr] using h, fun rest => by simp [stepX, hinit, hb, hpr],
            by simp [stepX, hinit, hb, hpr, lastFromX]⟩
        · cases hth : ((s.procs p).tholder == some t) with
          | true =>
            have := tryLock_inv (r := r) h hh hP (by simpa using hth) hinit hr
            simpa [stepX, hinit, hb, hpr, hth] using this
          | false =>
            by_cases hw : t ∈ (s.procs p).twaiters
            · cases hwk : ((s.procs p).twoken && (s.procs p).twaiters.head? == some t) with
              | false => exact ⟨k, m, by simpa [stepX, hinit, hb, hpr, hth, hw, hwk] using h,
                  fun rest => by simp [stepX, hinit, hb, hpr, hth, hw, hwk],
                  by simp [stepX, hinit, hb, hpr, hth, hw, hwk, lastFromX]⟩
              | true =>
                have hwoken : (s.procs p).twoken = true := by simp at hwk; exact hwk.1
                refine ⟨k, m, ?_, fun rest => by simp [stepX, hinit, hb, hpr, hth, hw, hwk],
                  by simp [stepX, hinit, hb, hpr, hth, hw, hwk, lastFromX]⟩
                simp only [stepX, hinit, hb, hpr, hth, hw, hwk, Bool.false_eq_true, ↓reduceIte]
                refine ⟨xinv_procs_same h ⟨hP.wf, fun u hu => ?_, by simp, hP.ctr, fun _ => rfl, by simp⟩, h.owner, h.mode, h.pend, h.byte⟩
                have := hP.tl u hu
                rw [(hP.woken hwoken).1] at this
                cases this
            · cases hf : ((s.procs p).tholder.isNone && (s.procs p).twaiters.isEmpty) with
              | true =>
                have hnone : (s.procs p).tholder = none := by simp at hf; exact hf.1
                have hemp : (s.procs p).twaiters = [] := by simp at hf; exact hf.2
                have hP1 : PInv { s.procs p with tholder := some t } (holdOf k p) m k.last :=
                  ⟨hP.wf, fun u hu => (by have := hP.tl u hu; rw [hnone] at this; cases this),
                   fun hwk => absurd hemp (hP.woken hwk).2, hP.ctr, hP.ready,
                   fun u hu => (by have := hP.busy u hu; rw [hnone] at this; cases this)⟩
                have := tryLock_inv (r := r) h hh hP1 rfl hinit hr
                simpa [stepX, hinit, hb, hpr, hth, hw, hf] using this
              | false =>
                refine ⟨k, m, ?_, fun rest => by simp [stepX, hinit, hb, hpr, hth, hw, hf],
                  by simp [stepX, hinit, hb, hpr, hth, hw, hf, lastFromX]⟩
                simp only [stepX, hinit, hb, hpr, hth, hw, hf, Bool.false_eq_true, ↓reduceIte]
                exact ⟨xinv_procs_same h ⟨hP.wf, hP.tl, fun hwk => ⟨(hP.woken hwk).1, by simp⟩, hP.ctr, fun _ => rfl, hP.busy⟩,
                  h.owner, h.mode, h.pend, h.byte⟩

theorem runX_ok (s : XSt) (k : XChk) (m : XMode) (sched : List (Nat × Nat)) (h : XInv s k m)
    (hp : s.file.present = true) : checkX k (runX s sched) = true := by
  induction sched generalizing s k m with
  | nil => rfl
  | cons pt rest ih =>
    obtain ⟨k', m', hi, hc, -⟩ := stepX_inv s k m pt h hp
    simp only [runX]
    rw [hc]; exact ih _ _ _ hi (started_step s pt hp)

theorem afterX_inv (s : XSt) (k : XChk) (m : XMode) (sched : List (Nat × Nat)) (h : XInv s k m)
    (hp : s.file.present = true) : ∃ k' m', XInv (afterX s sched) k' m' := by
  induction sched generalizing s k m with
  | nil => exact ⟨k, m, h⟩
  | cons pt rest ih =>
    obtain ⟨k', m', hi, -, -⟩ := stepX_inv s k m pt h hp
    exact ih _ _ _ hi (started_step s pt hp)

theorem lastFromX_append (l : Option Nat) (a b : List XEv) :
    lastFromX l (a ++ b) = lastFromX (lastFromX l a) b := by
  induction a generalizing l with
  | nil => rfl
  | cons e a ih => cases e <;> simp [lastFromX, ih]

/-- the invariant after a schedule, for the view whose `last` is the counter of the latest message on the bus -/
theorem afterX_track (s : XSt) (k : XChk) (m : XMode) (sched : List (Nat × Nat)) (h : XInv s k m)
    (hp : s.file.present = true) :
    ∃ k' m', XInv (afterX s sched) k' m' ∧ k'.last = lastFromX k.last (runX s sched) := by
  induction sched generalizing s k m with
  | nil => exact ⟨k, m, h, rfl⟩
  | cons pt rest ih =>
    obtain ⟨k1, m1, hi, -, hl⟩ := stepX_inv s k m pt h hp
    obtain ⟨k2, m2, hi2, hl2⟩ := ih _ _ _ hi (started_step s pt hp)
    exact ⟨k2, m2, hi2, by simp only [runX, lastFromX_append]; rw [hl2, hl]⟩

/-- when nobody holds the record lock, the terminal's byte continues the count of the bus -/
theorem free_byte {s : XSt} {k : XChk} {m : XMode} (h : XInv s k m) (hfree : s.file.owner = none) :
    follows k.last (cur s.file.data s.off) = true := by
  have hk : k.holder = none := by
    have := h.owner; rw [hfree] at this
    cases hh : k.holder with
    | none => rfl
    | some x => rw [hh] at this; simp at this
  have hm := h.mode.1 hk
  subst hm
  exact h.byte (by simp) (by simp)

/-- no task has started: any state of `LockFile.__init__`, nobody holds or waits for the task lock -/
theorem pinv_idle (tasks : List (List (List Sec))) (q : Nat) (i : InitSt) (l : Option Nat) :
    PInv { init := i, ctr := none, busy := none, tholder := none, twoken := false, twaiters := [],
           progs := fun t => progX ((tasks.getD q []).getD t []) } none .out l :=
  ⟨fun t => by simp [wfX_prog], by simp, by simp, by simp, by simp, by simp⟩

theorem initX_inv (size off : Nat) (data : List Nat) (tasks : List (List (List Sec))) (hf : fileOk off data = true) :
    XInv (initX size off (some data) tasks) xchk0 .out := by
  refine ⟨fun q => ?_, rfl, by simp [xchk0], by simp [xchk0], fun _ _ => by simpa [fileOk, follows, xchk0, initX] using hf⟩
  have : holdOf xchk0 q = none := by simp [holdOf, xchk0]
  rw [this]
  exact pinv_idle tasks q .fresh _

/-- **cross-process**: any number of processes, any number of tasks per process, any numbers of critical sections
and exchanges, lock file present with a counter in the terminal's byte: under every schedule of the file
operations and of the tasks, critical sections of different users never overlap, each request is answered before
the next one leaves, the counters of successive messages of all users are consecutive in the cycle, every counter
read from the file is valid, and no user fails -/
theorem crossproc_serialised (size off : Nat) (data : List Nat) (tasks : List (List (List Sec)))
    (sched : List (Nat × Nat)) (hf : fileOk off data = true) :
    checkX xchk0 (runX (initX size off (some data) tasks) sched) = true :=
  runX_ok _ _ _ _ (initX_inv size off data tasks hf) rfl

/-- the state right after some process created the file (nothing else has happened) -/
theorem created_inv (size off : Nat) (tasks : List (List (List Sec))) (p : Nat) :
    XInv { (initX size off none tasks) with
            file := { present := true, data := [], owner := none },
            procs := setProc (initX size off none tasks).procs p
              { ((initX size off none tasks).procs p) with init := .created } } xchk0 .out := by
  refine ⟨fun q => ?_, rfl, by simp [xchk0], by simp [xchk0], fun _ _ => by simp [follows, xchk0, cur]⟩
  have : holdOf xchk0 q = none := by simp [holdOf, xchk0]
  rw [this]
  by_cases hq : q = p
  · subst hq; simpa [setProc, initX] using pinv_idle tasks q .created _
  · simpa [setProc, hq, initX] using pinv_idle tasks q .fresh _

/-- **creation**: the lock file does not exist.  For any number of processes and tasks and every schedule — in
particular with other processes opening, locking, reading and writing between the creator's `O_EXCL` open and
its `ftruncate` — every user obtains a valid counter (0 on a short read), nobody fails, and everything is
serialised and counted from 0 -/
theorem creation_window_safe (size off : Nat) (tasks : List (List (List Sec))) (sched : List (Nat × Nat)) :
    checkX xchk0 (runX (initX size off none tasks) sched) = true := by
  cases sched with
  | nil => rfl
  | cons pt rest =>
    obtain ⟨p, t⟩ := pt
    have e1 : stepX (initX size off none tasks) (p, t) =
        ({ (initX size off none tasks) with
            file := { present := true, data := [], owner := none },
            procs := setProc (initX size off none tasks).procs p
              { ((initX size off none tasks).procs p) with init := .created } }, [.creat p true]) := by
      simp [stepX, initX]
    simp only [runX, e1, List.singleton_append, checkX, xchk1]
    exact runX_ok _ _ _ _ (created_inv size off tasks p) rfl

/-- **nobody spins forever on a dead lock**: in every reachable state, if the record lock is held by process `p`
then one task of `p` holds it together with the task lock, the process is free to run that task, and the task's
next step is none of the steps that can wait (`enter`): the holder can always proceed to its `unlock` -/
theorem holder_can_proceed (size off : Nat) (file : Option (List Nat)) (tasks : List (List (List Sec)))
    (sched : List (Nat × Nat)) (hf : ∀ d, file = some d → fileOk off d = true) (p : Nat)
    (ho : (afterX (initX size off file tasks) sched).file.owner = some p) :
    ∃ t st r, ((afterX (initX size off file tasks) sched).procs p).progs t = st :: r ∧ st ≠ .enter ∧
      ((afterX (initX size off file tasks) sched).procs p).init = .ready ∧
      ((afterX (initX size off file tasks) sched).procs p).tholder = some t ∧
      (((afterX (initX size off file tasks) sched).procs p).busy = none ∨
       ((afterX (initX size off file tasks) sched).procs p).busy = some t) := by
  have key : ∀ s k m, XInv s k m → s.file.owner = some p →
      ∃ t st r, (s.procs p).progs t = st :: r ∧ st ≠ .enter ∧ (s.procs p).init = .ready ∧
        (s.procs p).tholder = some t ∧ ((s.procs p).busy = none ∨ (s.procs p).busy = some t) := by
    intro s k m h hown
    rw [h.owner] at hown
    cases hk : k.holder with
    | none => simp [hk] at hown
    | some qt =>
      obtain ⟨q, t⟩ := qt
      simp [hk] at hown; subst hown
      have hP := h.procs q
      rw [holdOf_self hk] at hP
      have hm : m ≠ .out := fun e => by have := h.mode.2 e; simp [hk] at this
      have hwf := hP.wf t
      simp only [↓reduceIte] at hwf
      have hth := hP.tl t rfl
      have hb : (s.procs q).busy = none ∨ (s.procs q).busy = some t := by
        cases hbz : (s.procs q).busy with
        | none => exact .inl rfl
        | some u => have := hP.busy u hbz; rw [hth] at this; simp at this; subst this; exact .inr rfl
      cases hpr : (s.procs q).progs t with
      | nil => rw [hpr] at hwf; cases m <;> simp_all [wfX]
      | cons st r =>
        refine ⟨t, st, r, hpr, ?_, hP.ready rfl, hth, hb⟩
        intro e; subst e; rw [hpr] at hwf; exact hm (wfX_enter hwf)
  cases file with
  | some d =>
    obtain ⟨k', m', hi⟩ := afterX_inv _ _ _ sched (initX_inv size off d tasks (hf d rfl)) rfl
    exact key _ _ _ hi ho
  | none =>
    cases sched with
    | nil => simp [afterX, initX] at ho
    | cons pt rest =>
      obtain ⟨q, t⟩ := pt
      have e1 : stepX (initX size off none tasks) (q, t) =
          ({ (initX size off none tasks) with
              file := { present := true, data := [], owner := none },
              procs := setProc (initX size off none tasks).procs q
                { ((initX size off none tasks).procs q) with init := .created } }, [.creat q true]) := by
        simp [stepX, initX]
      simp only [afterX, e1] at ho ⊢
      obtain ⟨k', m', hi⟩ := afterX_inv _ _ _ rest (created_inv size off tasks q) rfl
      exact key _ _ _ hi ho

/-- **the lock file is left in the state the next user expects**: any number of processes and tasks, blocks that
end normally, by an error between two exchanges, or by an exception/cancellation that abandons the request that is
out; lock file present (with a counter in the terminal's byte) or absent; every schedule.  Whenever nobody holds the
record lock, the terminal's byte in the file (0 if the file is still short) is the successor of the counter of the
latest message on the bus (a counter ≤ 7 while nothing has been sent): the next user — another task, another
process, the same one again — reads exactly the counter the terminal expects, whatever happened to the earlier
exchanges -/
theorem file_tracks_bus (size off : Nat) (file : Option (List Nat)) (tasks : List (List (List Sec)))
    (sched : List (Nat × Nat)) (hf : ∀ d, file = some d → fileOk off d = true)
    (hfree : (afterX (initX size off file tasks) sched).file.owner = none) :
    follows (lastFromX none (runX (initX size off file tasks) sched))
      (cur (afterX (initX size off file tasks) sched).file.data off) = true := by
  cases file with
  | some d =>
    obtain ⟨k', m', hi, hl⟩ := afterX_track _ _ _ sched (initX_inv size off d tasks (hf d rfl)) rfl
    have := free_byte hi hfree
    rw [hl, afterX_off] at this
    exact this
  | none =>
    cases sched with
    | nil => simp [afterX, runX, lastFromX, initX, follows, cur]
    | cons pt rest =>
      obtain ⟨q, t⟩ := pt
      have e1 : stepX (initX size off none tasks) (q, t) =
          ({ (initX size off none tasks) with
              file := { present := true, data := [], owner := none },
              procs := setProc (initX size off none tasks).procs q
                { ((initX size off none tasks).procs q) with init := .created } }, [.creat q true]) := by
        simp [stepX, initX]
      simp only [afterX, runX, e1, List.singleton_append, lastFromX] at hfree ⊢
      obtain ⟨k', m', hi, hl⟩ := afterX_track _ _ _ rest (created_inv size off tasks q) rfl
      have := free_byte hi hfree
      rw [hl, afterX_off] at this
      exact this

/-- **addresses**: every address `find_free_address` can hand out (`randint(lo, hi)`, both ends included) is
accepted by `ParallelMailboxLock(LockFile(name, lo, hi), address)`, and the created file has a byte for it -/
theorem addr_accepted (no : Nat) (h1 : addrLo ≤ no) (h2 : no ≤ addrHi) :
    lockCtorOk addrLo addrHi no = true ∧ no - addrLo < (truncTo [] (addrHi - addrLo + 1)).length := by
  refine ⟨by simp [lockCtorOk, h1, h2], ?_⟩
  simp [truncTo]; omega

/-! ### non-vacuity; the former counterexample schedules on the repaired code -/

/-- two tasks of process 0 share the lock object: the second waits for the task lock -/
def sameProcSched : List (Nat × Nat) :=
  [(0,0), (0,0), (0,0), (0,0), (0,0), (0,1), (0,1), (0,1), (0,0), (0,0), (0,0), (0,1), (0,1), (0,1), (0,1), (0,1),
   (0,1), (0,1)]

theorem same_process_witness_now :
    runX (initX 3 1 (some [0, 0, 0, 0]) [[[1], [1]]]) sameProcSched =
      [.creat 0 false, .opened 0, .lockOk 0 0, .pread 0 0 0, .send 0 0 0, .recv 0 0, .pwrite 0 0 1, .unlock 0 0,
       .lockOk 0 1, .pread 0 1 1, .send 0 1 1, .recv 0 1, .pwrite 0 1 2, .unlock 0 1] := by decide

/-- process 0 creates the file; process 1 opens, locks, reads and writes before the creator's ftruncate -/
def windowSched : List (Nat × Nat) :=
  [(0,0), (1,0), (1,0), (1,0), (1,0), (1,0), (1,0), (1,0), (1,0), (0,0), (0,0), (0,0), (0,0), (0,0), (0,0), (0,0)]

theorem creation_window_witness_now :
    runX (initX 3 1 none [[[1]], [[1]]]) windowSched =
      [.creat 0 true, .creat 1 false, .opened 1, .lockOk 1 0, .preadEmpty 1 0, .send 1 0 0, .recv 1 0, .pwrite 1 0 1,
       .unlock 1 0, .winit 0, .lockOk 0 0, .pread 0 0 1, .send 0 0 1, .recv 0 0, .pwrite 0 0 2, .unlock 0 0] ∧
    (afterX (initX 3 1 none [[[1]], [[1]]]) windowSched).file.data = [0, 2, 0, 0] := by decide

/-- process 0 sends a request with counter 5 and its block is left by an exception (the request stays unanswered)
while process 1 spins on the record lock; `__aexit__` writes 6, process 1 reads 6 and continues 6, then 7 is stored -/
theorem failed_crossproc_witness :
    runX (initX 3 1 (some [0, 5, 0, 0]) [[[⟨0, true⟩]], [[1]]])
      [(0,0), (0,0), (1,0), (1,0), (0,0), (0,0), (0,0), (1,0), (0,0), (0,0), (0,0),
       (1,0), (1,0), (1,0), (1,0), (1,0), (1,0)] =
    [.creat 0 false, .opened 0, .creat 1 false, .opened 1, .lockOk 0 0, .pread 0 0 5, .send 0 0 5, .lockBusy 1 0,
     .abort 0 0, .pwrite 0 0 6, .unlock 0 0, .lockOk 1 0, .pread 1 0 6, .send 1 0 6, .recv 1 0, .pwrite 1 0 7,
     .unlock 1 0] ∧
    (afterX (initX 3 1 (some [0, 5, 0, 0]) [[[⟨0, true⟩]], [[1]]])
      [(0,0), (0,0), (1,0), (1,0), (0,0), (0,0), (0,0), (1,0), (0,0), (0,0), (0,0)]).file.data = [0, 6, 0, 0] := by
  decide

/-- two processes contend for the byte; the second spins on `lockf`, then continues the count 5,6,7,1 -/
example : runX (initX 3 1 (some [0, 5, 0, 0]) [[[1]], [[2]]])
      [(0,0), (0,0), (1,0), (1,0), (0,0), (1,0), (0,0), (0,0), (0,0), (1,0), (0,0), (0,0),
       (1,0), (1,0), (1,0), (1,0), (1,0), (1,0), (1,0), (1,0)] =
    [.creat 0 false, .opened 0, .creat 1 false, .opened 1, .lockOk 0 0, .lockBusy 1 0, .pread 0 0 5, .send 0 0 5,
     .recv 0 0, .lockBusy 1 0, .pwrite 0 0 6, .unlock 0 0, .lockOk 1 0, .pread 1 0 6, .send 1 0 6, .recv 1 0,
     .send 1 0 7, .recv 1 0, .pwrite 1 0 1, .unlock 1 0] := by decide
example : fileOk 1 [0, 5, 0, 0] = true := by decide
/-- a waiter of the task lock is woken by `unlock` and owns the task lock before it calls `lockf` -/
example : ((afterX (initX 3 1 (some [0, 0, 0, 0]) [[[1], [1]]]) (sameProcSched.take 12)).procs 0).tholder = some 1 := by
  decide
example : lockCtorOk addrLo addrHi addrHi = true := by decide

end Ebv.C15
