import Ebv.Model.Parallel
/-! C23 — processes sharing an interface coordinate the dispatcher safely.

Clauses (state predicates of `Ebv.Parallel`, over every state reachable by any schedule of any number of
participants): `EthertypesDistinct`, `SingleInstaller`, `InstalledWhileRunning`, `FmmuWindowsDisjoint`. -/
namespace Ebv.C23
open Ebv.Parallel Ebv.Consts

/-- no injected environment fault (netlink attach works) -/
def NoFault (cfgs : List Cfg) : Prop := cfgs.all (fun c => !c.attachFails) = true

instance (cfgs : List Cfg) : Decidable (NoFault cfgs) := by unfold NoFault; infer_instance

/-! ### frame lemmas -/

@[simp] theorem setP_len (s : Sys) (i : Nat) (p : Proc) : (setP s i p).procs.length = s.procs.length := by
  simp [setP]
@[simp] theorem setP_lockdir (s : Sys) (i : Nat) (p : Proc) : (setP s i p).lockdir = s.lockdir := rfl
@[simp] theorem setP_pin (s : Sys) (i : Nat) (p : Proc) : (setP s i p).pin = s.pin := rfl
@[simp] theorem setP_attached (s : Sys) (i : Nat) (p : Proc) : (setP s i p).attached = s.attached := rfl
@[simp] theorem setP_fm (s : Sys) (i : Nat) (p : Proc) : (setP s i p).fm = s.fm := rfl
@[simp] theorem setP_fmLock (s : Sys) (i : Nat) (p : Proc) : (setP s i p).fmLock = s.fmLock := rfl
@[simp] theorem setP_mbx (s : Sys) (i : Nat) (p : Proc) : (setP s i p).mbx = s.mbx := rfl

theorem getP_setP_same (s : Sys) (i : Nat) (p : Proc) (hi : i < s.procs.length) : getP (setP s i p) i = p := by
  simp [getP, setP, List.getD, hi]

theorem getP_setP_ne (s : Sys) (i j : Nat) (p : Proc) (h : j ≠ i) : getP (setP s i p) j = getP s j := by
  simp [getP, setP, List.getD, List.getElem?_set_ne (Ne.symm h)]

theorem getP_setP (s : Sys) (i j : Nat) (p : Proc) (hi : i < s.procs.length) :
    getP (setP s i p) j = if j = i then p else getP s j := by
  by_cases h : j = i
  · subst h; simp [getP_setP_same _ _ _ hi]
  · simp [h, getP_setP_ne _ _ _ _ h]

/-! ### full-strength statements -/

def ethertypes_distinct_full : Prop :=
  ∀ (cfgs : List Cfg) (fm0 : Option (List Nat)) (sched : List Nat), NoFault cfgs →
    EthertypesDistinct (run (init cfgs fm0) sched)

def single_installer_full : Prop :=
  ∀ (cfgs : List Cfg) (fm0 : Option (List Nat)) (sched : List Nat), NoFault cfgs →
    SingleInstaller (run (init cfgs fm0) sched)

def installed_while_running : Prop :=
  ∀ (cfgs : List Cfg) (fm0 : Option (List Nat)) (sched : List Nat), NoFault cfgs →
    InstalledWhileRunning (run (init cfgs fm0) sched)

def fmmu_windows_disjoint : Prop :=
  ∀ (cfgs : List Cfg) (fm0 : Option (List Nat)) (sched : List Nat), NoFault cfgs →
    FmmuWindowsDisjoint (run (init cfgs fm0) sched)

/-! ### refutations on concrete witness schedules (the same cases as `findings/C23.json`) -/

theorem installedB_sound (s : Sys) (h : InstalledWhileRunning s) : installedB s = true := by
  unfold installedB
  rw [List.all_eq_true]
  intro i hi
  have hi' : i < s.procs.length := List.mem_range.mp hi
  by_cases hr : (getP s i).pc = .running
  · obtain ⟨m, ha, hp, hg⟩ := h i hi' hr
    simp [ha, hp, hg]
  · simp [hr]

theorem windowsDisjointB_sound (s : Sys) (h : FmmuWindowsDisjoint s) : windowsDisjointB s = true := by
  unfold windowsDisjointB allPairs
  rw [List.all_eq_true]
  intro i hi
  rw [List.all_eq_true]
  intro j hj
  have hi' : i < s.procs.length := List.mem_range.mp hi
  have hj' : j < s.procs.length := List.mem_range.mp hj
  by_cases hij : i = j
  · simp [hij]
  · by_cases hr : (getP s i).pc = .running ∧ (getP s j).pc = .running
    · simp [h i j hi' hj' hij hr.1 hr.2]
    · have : ((getP s i).pc == Pc.running && (getP s j).pc == Pc.running) = false := by
        simp only [Bool.and_eq_false_iff, beq_eq_false_iff_ne, ne_eq]
        by_cases h1 : (getP s i).pc = .running
        · right; intro h2; exact hr ⟨h1, h2⟩
        · left; exact h1
      simp [this]

/-- last leaver / new starter: participant 0 installs, runs, leaves, removes its member file and the lock
directory (14 operations); participant 1 then becomes installer, attaches, pins and runs (14 operations);
participant 0 continues its `finally` block with `detach` — of participant 1's dispatcher. -/
def raceCfgs : List Cfg := [{}, { fmDraws := [7] }]
def raceSched : List Nat := List.replicate 14 0 ++ List.replicate 14 1 ++ [0, 0]

theorem installed_while_running_refuted : ¬ installed_while_running := by
  intro h
  have := installedB_sound _ (h raceCfgs none raceSched (by decide))
  revert this
  decide +kernel

/-- create-then-initialise window of the FMMU bitmap: participant 0 creates the file (10 operations, the
last one `os.open(… O_EXCL)`); participant 1 finds an empty file, repairs it and takes process number 7;
participant 0's unlocked initialising `os.write` wipes that bit; participant 2 is given number 7 as well. -/
def windowCfgs : List Cfg :=
  [{}, { etDraws := [12288], fmDraws := [7] }, { etDraws := [12288, 12289], fmDraws := [7] }]
def windowSched : List Nat :=
  List.replicate 10 0 ++ List.replicate 16 1 ++ [0] ++ List.replicate 15 2

/-- `get_next_addr` has no upper bound: after `fmWindow / fmGroup` calls participant 0 (process number 1)
holds an address inside the window of process number 2, which participant 1 owns; the bitmap file was
initialised by participant 0 long before participant 1 opened it. -/
def overflowCfgs : List Cfg := [{ nAddr := fmWindow / fmGroup }, { etDraws := [12288], fmDraws := [2] }]
def overflowSched : List Nat := List.replicate 11 0 ++ List.replicate 14 1

theorem fmmu_windows_disjoint_refuted : ¬ fmmu_windows_disjoint := by
  intro h
  have := windowsDisjointB_sound _ (h windowCfgs none windowSched (by decide))
  revert this
  decide +kernel

/-- the second, independent way the clause fails (no concurrent creation involved) -/
theorem fmmu_windows_overflow_refuted :
    ¬ FmmuWindowsDisjoint (run (init overflowCfgs none) overflowSched) := by
  intro h
  have := windowsDisjointB_sound _ h
  revert this
  decide +kernel

/-! ### the invariant behind `ethertypes_distinct` and `single_installer` -/

theorem getP_congr {s1 s : Sys} (h : s1.procs = s.procs) (j : Nat) : getP s1 j = getP s j := by
  simp [getP, h]

def _root_.Ebv.Parallel.Pc.late : Pc → Bool
  | .attach | .objPin => true
  | _ => false

structure Inv (s : Sys) : Prop where
  nofault : ∀ i, i < s.procs.length → (getP s i).attachFails = false
  mem : ∀ i, i < s.procs.length → (getP s i).pc.member = true →
    ∃ ms, s.lockdir = some ms ∧ ((getP s i).et, i) ∈ ms
  dist : EthertypesDistinct s
  single : SingleInstaller s
  pinFree : ∀ i, i < s.procs.length → (getP s i).pc.late = true → s.pin = none
  noRmtree : ∀ i, i < s.procs.length → (getP s i).pc ≠ .excRmtree

/-- an operation of participant `i` that leaves the lock directory alone, does not create the pin, and
does not make `i` a member / installer if it was not one -/
theorem inv_local {s : Sys} (hI : Inv s) {i : Nat} (hi : i < s.procs.length) (s1 : Sys) (p' : Proc)
    (hpr : s1.procs = s.procs) (hl : s1.lockdir = s.lockdir) (hp : s1.pin = s.pin ∨ s1.pin = none)
    (hf : p'.attachFails = (getP s i).attachFails)
    (hm : p'.pc.member = true → (getP s i).pc.member = true ∧ p'.et = (getP s i).et)
    (hin : p'.pc.install = true → (getP s i).pc.install = true)
    (hlate : p'.pc.late = true → (getP s i).pc.late = true ∨ s1.pin = none)
    (hnr : p'.pc ≠ .excRmtree) : Inv (setP s1 i p') := by
  have hi1 : i < s1.procs.length := by rw [hpr]; exact hi
  have hg : ∀ j, getP (setP s1 i p') j = if j = i then p' else getP s j := by
    intro j; rw [getP_setP _ _ _ _ hi1]; split <;> simp [getP_congr hpr]
  have hlen : (setP s1 i p').procs.length = s.procs.length := by simp [hpr]
  refine ⟨?_, ?_, ?_, ?_, ?_, ?_⟩
  · intro j hj; rw [hg]; rw [hlen] at hj
    split
    · next h => subst h; rw [hf]; exact hI.nofault _ hj
    · exact hI.nofault _ hj
  · intro j hj hmj; rw [hlen] at hj; rw [hg] at hmj ⊢
    simp only [setP_lockdir, hl]
    split at hmj
    · next h =>
      subst h; simp only [if_true]
      obtain ⟨h1, h2⟩ := hm hmj
      rw [h2]; exact hI.mem _ hj h1
    · next h => simp only [h, if_false]; exact hI.mem _ hj hmj
  · intro a b ha hb hab hma hmb
    rw [hlen] at ha hb; rw [hg] at hma hmb ⊢; rw [hg]
    by_cases h1 : a = i <;> by_cases h2 : b = i <;> simp only [h1, h2, if_true, if_false] at hma hmb ⊢
    · exact absurd (h1.trans h2.symm) hab
    · obtain ⟨m1, e1⟩ := hm hma; rw [e1]; exact hI.dist i b hi hb (by omega) m1 hmb
    · obtain ⟨m1, e1⟩ := hm hmb; rw [e1]; exact hI.dist a i ha hi (by omega) hma m1
    · exact hI.dist a b ha hb hab hma hmb
  · intro a b ha hb hab
    rw [hlen] at ha hb; rw [hg, hg]
    by_cases h1 : a = i <;> by_cases h2 : b = i <;> simp only [h1, h2, if_true, if_false]
    · exact absurd (h1.trans h2.symm) hab
    · intro ⟨x, y⟩; exact hI.single i b hi hb (by omega) ⟨hin x, y⟩
    · intro ⟨x, y⟩; exact hI.single a i ha hi (by omega) ⟨x, hin y⟩
    · exact hI.single a b ha hb hab
  · intro j hj hlj; rw [hlen] at hj; rw [hg] at hlj
    simp only [setP_pin]
    split at hlj
    · rcases hlate hlj with h | h
      · rcases hp with e | e
        · rw [e]; exact hI.pinFree _ hi h
        · exact e
      · exact h
    · rcases hp with e | e
      · rw [e]; exact hI.pinFree _ hj hlj
      · exact e
  · intro j hj; rw [hlen] at hj; rw [hg]
    split
    · exact hnr
    · exact hI.noRmtree _ hj

theorem install_member (pc : Pc) (h : pc.install = true) : pc.member = true := by
  cases pc <;> simp_all [Pc.install, Pc.member]
theorem late_install (pc : Pc) (h : pc.late = true) : pc.install = true := by
  cases pc <;> simp_all [Pc.install, Pc.late]

/-- nobody holds a member file (lock directory absent or empty): `rename` succeeds / `rmdir` succeeds -/
theorem inv_nomem {s : Sys} (hI : Inv s) {i : Nat} (hi : i < s.procs.length) (s1 : Sys) (p' : Proc)
    (hpr : s1.procs = s.procs) (hp : s1.pin = s.pin ∨ s1.pin = none)
    (hno : ∀ j, j < s.procs.length → (getP s j).pc.member = false)
    (hf : p'.attachFails = (getP s i).attachFails)
    (hm : p'.pc.member = true → s1.lockdir = some [(p'.et, i)])
    (hlate : p'.pc.late = false) (hnr : p'.pc ≠ .excRmtree) : Inv (setP s1 i p') := by
  have hi1 : i < s1.procs.length := by rw [hpr]; exact hi
  have hg : ∀ j, getP (setP s1 i p') j = if j = i then p' else getP s j := by
    intro j; rw [getP_setP _ _ _ _ hi1]; split <;> simp [getP_congr hpr]
  have hlen : (setP s1 i p').procs.length = s.procs.length := by simp [hpr]
  have hnoI : ∀ j, j < s.procs.length → (getP s j).pc.install = false := by
    intro j hj; cases h : (getP s j).pc.install
    · rfl
    · have := install_member _ h; rw [hno j hj] at this; cases this
  refine ⟨?_, ?_, ?_, ?_, ?_, ?_⟩
  · intro j hj; rw [hg]; rw [hlen] at hj
    split
    · next h => subst h; rw [hf]; exact hI.nofault _ hj
    · exact hI.nofault _ hj
  · intro j hj hmj; rw [hlen] at hj; rw [hg] at hmj ⊢
    split at hmj
    · next h => subst h; simp only [if_true, setP_lockdir]; exact ⟨_, hm hmj, by simp⟩
    · rw [hno j hj] at hmj; cases hmj
  · intro a b ha hb hab hma hmb
    rw [hlen] at ha hb; rw [hg] at hma hmb
    by_cases h1 : a = i <;> by_cases h2 : b = i <;> simp only [h1, h2, if_true, if_false] at hma hmb
    · exact absurd (h1.trans h2.symm) hab
    · rw [hno b hb] at hmb; cases hmb
    · rw [hno a ha] at hma; cases hma
    · rw [hno b hb] at hmb; cases hmb
  · intro a b ha hb hab
    rw [hlen] at ha hb; rw [hg, hg]
    by_cases h1 : a = i <;> by_cases h2 : b = i <;> simp only [h1, h2, if_true, if_false]
    · exact absurd (h1.trans h2.symm) hab
    · intro ⟨_, y⟩; rw [hnoI b hb] at y; cases y
    · intro ⟨x, _⟩; rw [hnoI a ha] at x; cases x
    · intro ⟨x, _⟩; rw [hnoI a ha] at x; cases x
  · intro j hj hlj; rw [hlen] at hj; rw [hg] at hlj
    split at hlj
    · rw [hlate] at hlj; cases hlj
    · have := late_install _ hlj; rw [hnoI j hj] at this; cases this
  · intro j hj; rw [hlen] at hj; rw [hg]
    split
    · exact hnr
    · exact hI.noRmtree _ hj

end Ebv.C23
