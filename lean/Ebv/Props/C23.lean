import Ebv.Model.Parallel
/-! C23 — processes sharing an interface coordinate the dispatcher safely.

Clauses (state predicates of `Ebv.Parallel`, over every state reachable by any schedule of any number of
participants): `EthertypesDistinct`, `SingleInstaller`, `InstalledWhileRunning`, `FmmuWindowsDisjoint`. -/
namespace Ebv.C23
open Ebv.Parallel Ebv.Consts

/-- no injected environment fault (netlink attach works) -/
def NoFault (cfgs : List Cfg) : Prop := cfgs.all (fun c => !c.attachFails) = true

instance (cfgs : List Cfg) : Decidable (NoFault cfgs) := by unfold NoFault; infer_instance

/-! ### frame lemmas -/

@[simp] theorem setP_len (s : Sys) (i : Nat) (p : Proc) : (setP s i p).procs.length = s.procs.length := by
  simp [setP]
@[simp] theorem setP_lockdir (s : Sys) (i : Nat) (p : Proc) : (setP s i p).lockdir = s.lockdir := rfl
@[simp] theorem setP_pin (s : Sys) (i : Nat) (p : Proc) : (setP s i p).pin = s.pin := rfl
@[simp] theorem setP_attached (s : Sys) (i : Nat) (p : Proc) : (setP s i p).attached = s.attached := rfl
@[simp] theorem setP_fm (s : Sys) (i : Nat) (p : Proc) : (setP s i p).fm = s.fm := rfl
@[simp] theorem setP_fmLock (s : Sys) (i : Nat) (p : Proc) : (setP s i p).fmLock = s.fmLock := rfl
@[simp] theorem setP_mbx (s : Sys) (i : Nat) (p : Proc) : (setP s i p).mbx = s.mbx := rfl

theorem getP_setP_same (s : Sys) (i : Nat) (p : Proc) (hi : i < s.procs.length) : getP (setP s i p) i = p := by
  simp [getP, setP, List.getD, hi]

theorem getP_setP_ne (s : Sys) (i j : Nat) (p : Proc) (h : j ≠ i) : getP (setP s i p) j = getP s j := by
  simp [getP, setP, List.getD, List.getElem?_set_ne (Ne.symm h)]

theorem getP_setP (s : Sys) (i j : Nat) (p : Proc) (hi : i < s.procs.length) :
    getP (setP s i p) j = if j = i then p else getP s j := by
  by_cases h : j = i
  · subst h; simp [getP_setP_same _ _ _ hi]
  · simp [h, getP_setP_ne _ _ _ _ h]

/-! ### full-strength statements -/

def ethertypes_distinct_full : Prop :=
  ∀ (cfgs : List Cfg) (fm0 : Option (List Nat)) (sched : List Nat), NoFault cfgs →
    EthertypesDistinct (run (init cfgs fm0) sched)

def single_installer_full : Prop :=
  ∀ (cfgs : List Cfg) (fm0 : Option (List Nat)) (sched : List Nat), NoFault cfgs →
    SingleInstaller (run (init cfgs fm0) sched)

def installed_while_running : Prop :=
  ∀ (cfgs : List Cfg) (fm0 : Option (List Nat)) (sched : List Nat), NoFault cfgs →
    InstalledWhileRunning (run (init cfgs fm0) sched)

/-- no hypothesis at all: any participants, any draws, any earlier contents of the bitmap file, faults included -/
def fmmu_windows_disjoint_full : Prop :=
  ∀ (cfgs : List Cfg) (fm0 : Option (List Nat)) (sched : List Nat),
    FmmuWindowsDisjoint (run (init cfgs fm0) sched)

/-! ### refutations on concrete witness schedules (the same cases as `findings/C23.json`) -/

theorem installedB_sound (s : Sys) (h : InstalledWhileRunning s) : installedB s = true := by
  unfold installedB
  rw [List.all_eq_true]
  intro i hi
  have hi' : i < s.procs.length := List.mem_range.mp hi
  by_cases hr : (getP s i).pc = .running
  · obtain ⟨m, ha, hp, hg⟩ := h i hi' hr
    simp [ha, hp, hg]
  · simp [hr]

theorem windowsDisjointB_sound (s : Sys) (h : FmmuWindowsDisjoint s) : windowsDisjointB s = true := by
  unfold windowsDisjointB allPairs
  rw [List.all_eq_true]
  intro i hi
  rw [List.all_eq_true]
  intro j hj
  have hi' : i < s.procs.length := List.mem_range.mp hi
  have hj' : j < s.procs.length := List.mem_range.mp hj
  by_cases hij : i = j
  · simp [hij]
  · by_cases hr : (getP s i).pc = .running ∧ (getP s j).pc = .running
    · simp [h i j hi' hj' hij hr.1 hr.2]
    · have : ((getP s i).pc == Pc.running && (getP s j).pc == Pc.running) = false := by
        simp only [Bool.and_eq_false_iff, beq_eq_false_iff_ne, ne_eq]
        by_cases h1 : (getP s i).pc = .running
        · right; intro h2; exact hr ⟨h1, h2⟩
        · left; exact h1
      simp [this]

/-- last leaver / new starter: participant 0 installs, runs, leaves, removes its member file and the lock
directory (19 operations); participant 1 then becomes installer, attaches, pins and runs (14 operations);
participant 0 continues its `finally` block with `detach` — of participant 1's dispatcher. -/
def raceCfgs : List Cfg := [{}, { fmDraws := [7] }]
def raceSched : List Nat := List.replicate 19 0 ++ List.replicate 14 1 ++ [0, 0]

theorem installed_while_running_refuted : ¬ installed_while_running := by
  intro h
  have := installedB_sound _ (h raceCfgs none raceSched (by decide))
  revert this
  decide +kernel

/-! ### the invariant behind `ethertypes_distinct` and `single_installer` -/

theorem getP_congr {s1 s : Sys} (h : s1.procs = s.procs) (j : Nat) : getP s1 j = getP s j := by
  simp [getP, h]

def _root_.Ebv.Parallel.Pc.late : Pc → Bool
  | .attach | .objPin => true
  | _ => false

structure Inv (s : Sys) : Prop where
  nofault : ∀ i, i < s.procs.length → (getP s i).attachFails = false
  mem : ∀ i, i < s.procs.length → (getP s i).pc.member = true →
    ∃ ms, s.lockdir = some ms ∧ ((getP s i).et, i) ∈ ms
  dist : EthertypesDistinct s
  single : SingleInstaller s
  pinFree : ∀ i, i < s.procs.length → (getP s i).pc.late = true → s.pin = none
  noRmtree : ∀ i, i < s.procs.length → (getP s i).pc ≠ .excRmtree

/-- an operation of participant `i` that leaves the lock directory alone, does not create the pin, and
does not make `i` a member / installer if it was not one -/
theorem inv_local {s : Sys} (hI : Inv s) {i : Nat} (hi : i < s.procs.length) (s1 : Sys) (p' : Proc)
    (hpr : s1.procs = s.procs) (hl : s1.lockdir = s.lockdir) (hp : s1.pin = s.pin ∨ s1.pin = none)
    (hf : p'.attachFails = (getP s i).attachFails)
    (hm : p'.pc.member = true → (getP s i).pc.member = true ∧ p'.et = (getP s i).et)
    (hin : p'.pc.install = true → (getP s i).pc.install = true)
    (hlate : p'.pc.late = true → (getP s i).pc.late = true ∨ s1.pin = none)
    (hnr : p'.pc ≠ .excRmtree) : Inv (setP s1 i p') := by
  have hi1 : i < s1.procs.length := by rw [hpr]; exact hi
  have hg : ∀ j, getP (setP s1 i p') j = if j = i then p' else getP s j := by
    intro j; rw [getP_setP _ _ _ _ hi1]; split <;> simp [getP_congr hpr]
  have hlen : (setP s1 i p').procs.length = s.procs.length := by simp [hpr]
  refine ⟨?_, ?_, ?_, ?_, ?_, ?_⟩
  · intro j hj; rw [hg]; rw [hlen] at hj
    split
    · next h => subst h; rw [hf]; exact hI.nofault _ hj
    · exact hI.nofault _ hj
  · intro j hj hmj; rw [hlen] at hj; rw [hg] at hmj ⊢
    simp only [setP_lockdir, hl]
    split at hmj
    · next h =>
      subst h; simp only [if_true]
      obtain ⟨h1, h2⟩ := hm hmj
      rw [h2]; exact hI.mem _ hj h1
    · next h => simp only [h, if_false]; exact hI.mem _ hj hmj
  · intro a b ha hb hab hma hmb
    rw [hlen] at ha hb; rw [hg] at hma hmb ⊢; rw [hg]
    by_cases h1 : a = i <;> by_cases h2 : b = i <;> simp only [h1, h2, if_true, if_false] at hma hmb ⊢
    · exact absurd (h1.trans h2.symm) hab
    · obtain ⟨m1, e1⟩ := hm hma; rw [e1]; exact hI.dist i b hi hb (by omega) m1 hmb
    · obtain ⟨m1, e1⟩ := hm hmb; rw [e1]; exact hI.dist a i ha hi (by omega) hma m1
    · exact hI.dist a b ha hb hab hma hmb
  · intro a b ha hb hab
    rw [hlen] at ha hb; rw [hg, hg]
    by_cases h1 : a = i <;> by_cases h2 : b = i <;> simp only [h1, h2, if_true, if_false]
    · exact absurd (h1.trans h2.symm) hab
    · intro ⟨x, y⟩; exact hI.single i b hi hb (by omega) ⟨hin x, y⟩
    · intro ⟨x, y⟩; exact hI.single a i ha hi (by omega) ⟨x, hin y⟩
    · exact hI.single a b ha hb hab
  · intro j hj hlj; rw [hlen] at hj; rw [hg] at hlj
    simp only [setP_pin]
    split at hlj
    · rcases hlate hlj with h | h
      · rcases hp with e | e
        · rw [e]; exact hI.pinFree _ hi h
        · exact e
      · exact h
    · rcases hp with e | e
      · rw [e]; exact hI.pinFree _ hj hlj
      · exact e
  · intro j hj; rw [hlen] at hj; rw [hg]
    split
    · exact hnr
    · exact hI.noRmtree _ hj

theorem install_member (pc : Pc) (h : pc.install = true) : pc.member = true := by
  cases pc <;> simp_all [Pc.install, Pc.member]
theorem late_install (pc : Pc) (h : pc.late = true) : pc.install = true := by
  cases pc <;> simp_all [Pc.install, Pc.late]

/-- nobody holds a member file (lock directory absent or empty): `rename` succeeds / `rmdir` succeeds -/
theorem inv_nomem {s : Sys} (hI : Inv s) {i : Nat} (hi : i < s.procs.length) (s1 : Sys) (p' : Proc)
    (hpr : s1.procs = s.procs)
    (hno : ∀ j, j < s.procs.length → (getP s j).pc.member = false)
    (hf : p'.attachFails = (getP s i).attachFails)
    (hm : p'.pc.member = true → s1.lockdir = some [(p'.et, i)])
    (hlate : p'.pc.late = false) (hnr : p'.pc ≠ .excRmtree) : Inv (setP s1 i p') := by
  have hi1 : i < s1.procs.length := by rw [hpr]; exact hi
  have hg : ∀ j, getP (setP s1 i p') j = if j = i then p' else getP s j := by
    intro j; rw [getP_setP _ _ _ _ hi1]; split <;> simp [getP_congr hpr]
  have hlen : (setP s1 i p').procs.length = s.procs.length := by simp [hpr]
  have hnoI : ∀ j, j < s.procs.length → (getP s j).pc.install = false := by
    intro j hj; cases h : (getP s j).pc.install
    · rfl
    · have := install_member _ h; rw [hno j hj] at this; cases this
  refine ⟨?_, ?_, ?_, ?_, ?_, ?_⟩
  · intro j hj; rw [hg]; rw [hlen] at hj
    split
    · next h => subst h; rw [hf]; exact hI.nofault _ hj
    · exact hI.nofault _ hj
  · intro j hj hmj; rw [hlen] at hj; rw [hg] at hmj ⊢
    split at hmj
    · next h => subst h; simp only [if_true, setP_lockdir]; exact ⟨_, hm hmj, by simp⟩
    · rw [hno j hj] at hmj; cases hmj
  · intro a b ha hb hab hma hmb
    rw [hlen] at ha hb; rw [hg] at hma hmb
    by_cases h1 : a = i <;> by_cases h2 : b = i <;> simp only [h1, h2, if_true, if_false] at hma hmb
    · exact absurd (h1.trans h2.symm) hab
    · rw [hno b hb] at hmb; cases hmb
    · rw [hno a ha] at hma; cases hma
    · rw [hno b hb] at hmb; cases hmb
  · intro a b ha hb hab
    rw [hlen] at ha hb; rw [hg, hg]
    by_cases h1 : a = i <;> by_cases h2 : b = i <;> simp only [h1, h2, if_true, if_false]
    · exact absurd (h1.trans h2.symm) hab
    · intro ⟨_, y⟩; rw [hnoI b hb] at y; cases y
    · intro ⟨x, _⟩; rw [hnoI a ha] at x; cases x
    · intro ⟨x, _⟩; rw [hnoI a ha] at x; cases x
  · intro j hj hlj; rw [hlen] at hj; rw [hg] at hlj
    split at hlj
    · rw [hlate] at hlj; cases hlj
    · have := late_install _ hlj; rw [hnoI j hj] at this; cases this
  · intro j hj; rw [hlen] at hj; rw [hg]
    split
    · exact hnr
    · exact hI.noRmtree _ hj

theorem hasName_of_mem {ms : List (Nat × Nat)} {e j : Nat} (h : (e, j) ∈ ms) : hasName ms e = true := by
  simp only [hasName, List.any_eq_true]; exact ⟨_, h, by simp⟩

theorem mem_rmName {ms : List (Nat × Nat)} {e e' j : Nat} (h : (e, j) ∈ ms) (hne : e ≠ e') :
    (e, j) ∈ rmName ms e' := by
  simp only [rmName, List.mem_filter]; exact ⟨h, by simpa using hne⟩

/-- `open(lockdir/<et>.lock, 'x')` succeeds: the name was free, `i` becomes a (non-installing) member -/
theorem inv_join {s : Sys} (hI : Inv s) {i : Nat} (hi : i < s.procs.length) (s1 : Sys) (p' : Proc)
    (ms : List (Nat × Nat)) (hpr : s1.procs = s.procs) (hl0 : s.lockdir = some ms)
    (hfree : hasName ms p'.et = false) (hl : s1.lockdir = some (ms ++ [(p'.et, i)])) (hp : s1.pin = s.pin)
    (hf : p'.attachFails = (getP s i).attachFails)
    (hin : p'.pc.install = false) (hnr : p'.pc ≠ .excRmtree) : Inv (setP s1 i p') := by
  have hi1 : i < s1.procs.length := by rw [hpr]; exact hi
  have hg : ∀ j, getP (setP s1 i p') j = if j = i then p' else getP s j := by
    intro j; rw [getP_setP _ _ _ _ hi1]; split <;> simp [getP_congr hpr]
  have hlen : (setP s1 i p').procs.length = s.procs.length := by simp [hpr]
  have hother : ∀ j, j < s.procs.length → (getP s j).pc.member = true → (getP s j).et ≠ p'.et := by
    intro j hj hmj e
    obtain ⟨ms', h1, h2⟩ := hI.mem j hj hmj
    rw [hl0] at h1; cases h1
    rw [e] at h2; rw [hasName_of_mem h2] at hfree; cases hfree
  refine ⟨?_, ?_, ?_, ?_, ?_, ?_⟩
  · intro j hj; rw [hg]; rw [hlen] at hj
    split
    · next h => subst h; rw [hf]; exact hI.nofault _ hj
    · exact hI.nofault _ hj
  · intro j hj hmj; rw [hlen] at hj; rw [hg] at hmj ⊢
    simp only [setP_lockdir, hl]
    split at hmj
    · next h => subst h; simp
    · next h =>
      simp only [h, if_false]
      obtain ⟨ms', h1, h2⟩ := hI.mem j hj hmj
      rw [hl0] at h1; cases h1
      exact ⟨_, rfl, List.mem_append_left _ h2⟩
  · intro a b ha hb hab hma hmb
    rw [hlen] at ha hb; rw [hg] at hma hmb ⊢; rw [hg]
    by_cases h1 : a = i <;> by_cases h2 : b = i <;> simp only [h1, h2, if_true, if_false] at hma hmb ⊢
    · exact absurd (h1.trans h2.symm) hab
    · exact fun e => hother b hb hmb e.symm
    · exact hother a ha hma
    · exact hI.dist a b ha hb hab hma hmb
  · intro a b ha hb hab
    rw [hlen] at ha hb; rw [hg, hg]
    by_cases h1 : a = i <;> by_cases h2 : b = i <;> simp only [h1, h2, if_true, if_false]
    · exact absurd (h1.trans h2.symm) hab
    · intro ⟨x, _⟩; rw [hin] at x; cases x
    · intro ⟨_, y⟩; rw [hin] at y; cases y
    · exact hI.single a b ha hb hab
  · intro j hj hlj; rw [hlen] at hj; rw [hg] at hlj
    simp only [setP_pin, hp]
    split at hlj
    · have := late_install _ hlj; rw [hin] at this; cases this
    · exact hI.pinFree _ hj hlj
  · intro j hj; rw [hlen] at hj; rw [hg]
    split
    · exact hnr
    · exact hI.noRmtree _ hj

/-- `os.remove(lockdir/<et>.lock)` by the member `i` itself: only its own file goes -/
theorem inv_leave {s : Sys} (hI : Inv s) {i : Nat} (hi : i < s.procs.length) (s1 : Sys) (p' : Proc)
    (ms : List (Nat × Nat)) (hpr : s1.procs = s.procs) (hl0 : s.lockdir = some ms)
    (hwas : (getP s i).pc.member = true)
    (hl : s1.lockdir = some (rmName ms (getP s i).et)) (hp : s1.pin = s.pin)
    (hf : p'.attachFails = (getP s i).attachFails)
    (hm : p'.pc.member = false) (hnr : p'.pc ≠ .excRmtree) : Inv (setP s1 i p') := by
  have hi1 : i < s1.procs.length := by rw [hpr]; exact hi
  have hg : ∀ j, getP (setP s1 i p') j = if j = i then p' else getP s j := by
    intro j; rw [getP_setP _ _ _ _ hi1]; split <;> simp [getP_congr hpr]
  have hlen : (setP s1 i p').procs.length = s.procs.length := by simp [hpr]
  have hin : p'.pc.install = false := by
    cases h : p'.pc.install
    · rfl
    · have := install_member _ h; rw [hm] at this; cases this
  refine ⟨?_, ?_, ?_, ?_, ?_, ?_⟩
  · intro j hj; rw [hg]; rw [hlen] at hj
    split
    · next h => subst h; rw [hf]; exact hI.nofault _ hj
    · exact hI.nofault _ hj
  · intro j hj hmj; rw [hlen] at hj; rw [hg] at hmj ⊢
    simp only [setP_lockdir, hl]
    split at hmj
    · rw [hm] at hmj; cases hmj
    · next h =>
      simp only [h, if_false]
      obtain ⟨ms', h1, h2⟩ := hI.mem j hj hmj
      rw [hl0] at h1; cases h1
      exact ⟨_, rfl, mem_rmName h2 (hI.dist j i hj hi h hmj hwas)⟩
  · intro a b ha hb hab hma hmb
    rw [hlen] at ha hb; rw [hg] at hma hmb ⊢; rw [hg]
    by_cases h1 : a = i <;> by_cases h2 : b = i <;> simp only [h1, h2, if_true, if_false] at hma hmb ⊢
    · exact absurd (h1.trans h2.symm) hab
    · rw [hm] at hma; cases hma
    · rw [hm] at hmb; cases hmb
    · exact hI.dist a b ha hb hab hma hmb
  · intro a b ha hb hab
    rw [hlen] at ha hb; rw [hg, hg]
    by_cases h1 : a = i <;> by_cases h2 : b = i <;> simp only [h1, h2, if_true, if_false]
    · exact absurd (h1.trans h2.symm) hab
    · intro ⟨x, _⟩; rw [hin] at x; cases x
    · intro ⟨_, y⟩; rw [hin] at y; cases y
    · exact hI.single a b ha hb hab
  · intro j hj hlj; rw [hlen] at hj; rw [hg] at hlj
    simp only [setP_pin, hp]
    split at hlj
    · have := late_install _ hlj; rw [hin] at this; cases this
    · exact hI.pinFree _ hj hlj
  · intro j hj; rw [hlen] at hj; rw [hg]
    split
    · exact hnr
    · exact hI.noRmtree _ hj

/-- `obj_pin` succeeds: the only participant in the install section leaves it -/
theorem inv_pin {s : Sys} (hI : Inv s) {i : Nat} (hi : i < s.procs.length) (s1 : Sys) (p' : Proc)
    (hpr : s1.procs = s.procs) (hl : s1.lockdir = s.lockdir)
    (hwas : (getP s i).pc.install = true)
    (hf : p'.attachFails = (getP s i).attachFails) (he : p'.et = (getP s i).et)
    (hin : p'.pc.install = false) (hnr : p'.pc ≠ .excRmtree) : Inv (setP s1 i p') := by
  have hi1 : i < s1.procs.length := by rw [hpr]; exact hi
  have hg : ∀ j, getP (setP s1 i p') j = if j = i then p' else getP s j := by
    intro j; rw [getP_setP _ _ _ _ hi1]; split <;> simp [getP_congr hpr]
  have hlen : (setP s1 i p').procs.length = s.procs.length := by simp [hpr]
  refine ⟨?_, ?_, ?_, ?_, ?_, ?_⟩
  · intro j hj; rw [hg]; rw [hlen] at hj
    split
    · next h => subst h; rw [hf]; exact hI.nofault _ hj
    · exact hI.nofault _ hj
  · intro j hj hmj; rw [hlen] at hj; rw [hg] at hmj ⊢
    simp only [setP_lockdir, hl]
    split at hmj
    · next h => subst h; simp only [if_true]; rw [he]; exact hI.mem _ hj (install_member _ hwas)
    · next h => simp only [h, if_false]; exact hI.mem _ hj hmj
  · intro a b ha hb hab hma hmb
    rw [hlen] at ha hb; rw [hg] at hma hmb ⊢; rw [hg]
    by_cases h1 : a = i <;> by_cases h2 : b = i <;> simp only [h1, h2, if_true, if_false] at hma hmb ⊢
    · exact absurd (h1.trans h2.symm) hab
    · rw [he]; exact hI.dist i b hi hb (by omega) (install_member _ hwas) hmb
    · rw [he]; exact hI.dist a i ha hi (by omega) hma (install_member _ hwas)
    · exact hI.dist a b ha hb hab hma hmb
  · intro a b ha hb hab
    rw [hlen] at ha hb; rw [hg, hg]
    by_cases h1 : a = i <;> by_cases h2 : b = i <;> simp only [h1, h2, if_true, if_false]
    · exact absurd (h1.trans h2.symm) hab
    · intro ⟨x, _⟩; rw [hin] at x; cases x
    · intro ⟨_, y⟩; rw [hin] at y; cases y
    · exact hI.single a b ha hb hab
  · intro j hj hlj; rw [hlen] at hj; rw [hg] at hlj
    split at hlj
    · have := late_install _ hlj; rw [hin] at this; cases this
    · next h => exact absurd ⟨late_install _ hlj, hwas⟩ (hI.single j i hj hi h)
  · intro j hj; rw [hlen] at hj; rw [hg]
    split
    · exact hnr
    · exact hI.noRmtree _ hj

@[simp] theorem drawEt_pc (p : Proc) : (drawEt p).2.pc = p.pc := by unfold drawEt; split <;> rfl
@[simp] theorem drawEt_af (p : Proc) : (drawEt p).2.attachFails = p.attachFails := by unfold drawEt; split <;> rfl

theorem nomem {s : Sys} (hI : Inv s) (h : s.lockdir = none ∨ s.lockdir = some []) :
    ∀ j, j < s.procs.length → (getP s j).pc.member = false := by
  intro j hj
  cases hm : (getP s j).pc.member
  · rfl
  · obtain ⟨ms, h1, h2⟩ := hI.mem j hj hm
    rcases h with h | h <;> rw [h] at h1 <;> cases h1
    cases h2

theorem inv_step {s : Sys} (hI : Inv s) (i : Nat) : Inv (step s i) := by
  unfold step
  split
  case isFalse => exact hI
  case isTrue hi =>
    generalize hp : getP s i = p
    cases hpc : p.pc <;> simp only [stepStart, stepFiles, stepExit, hpc]
    all_goals (repeat' split)
    all_goals (try (apply inv_local hI hi <;> simp_all [emit, Pc.member, Pc.install, Pc.late]; done))
    all_goals (try exact hI)
    all_goals (try exact hI)
    all_goals first
      | (exfalso; have := hI.nofault i hi; simp_all; done)
      | (exfalso; have := hI.noRmtree i hi; simp_all; done)
      | (exfalso; have := hI.pinFree i hi (by simp_all [Pc.late]); simp_all; done)
      | skip
    all_goals first
      | (apply inv_leave hI hi <;> first | rfl | assumption | (simp_all [emit, Pc.member, Pc.install, Pc.late]; done))
      | (apply inv_join hI hi <;> first | rfl | assumption | (simp_all [emit, Pc.member, Pc.install, Pc.late]; done))
      | (apply inv_pin hI hi <;> first | rfl | assumption | (simp_all [emit, Pc.member, Pc.install, Pc.late]; done))
      | (apply inv_nomem hI hi <;> first | rfl | exact nomem hI (by simp_all) | (simp_all [emit, Pc.member, Pc.install, Pc.late]; done))
      | skip

theorem inv_run {s : Sys} (hI : Inv s) (sched : List Nat) : Inv (run s sched) := by
  induction sched generalizing s with
  | nil => exact hI
  | cons i r ih => exact ih (inv_step hI i)

theorem getP_init (cfgs : List Cfg) (fm0 : Option (List Nat)) (i : Nat) (hi : i < (init cfgs fm0).procs.length) :
    (getP (init cfgs fm0) i).pc = .mkdtemp ∧ ∃ c ∈ cfgs, (getP (init cfgs fm0) i).attachFails = c.attachFails := by
  simp only [init, List.length_map] at hi
  simp only [getP, init, List.getD, List.getElem?_map, List.getElem?_eq_getElem hi, Option.map_some, Option.getD_some]
  exact ⟨trivial, cfgs[i], List.getElem_mem hi, rfl⟩

theorem inv_init (cfgs : List Cfg) (fm0 : Option (List Nat)) (h : NoFault cfgs) : Inv (init cfgs fm0) := by
  have hpc : ∀ i, i < (init cfgs fm0).procs.length → (getP (init cfgs fm0) i).pc = .mkdtemp :=
    fun i hi => (getP_init cfgs fm0 i hi).1
  refine ⟨?_, ?_, ?_, ?_, ?_, ?_⟩
  · intro i hi
    obtain ⟨_, c, hc, e⟩ := getP_init cfgs fm0 i hi
    rw [e]
    have := List.all_eq_true.mp h c hc
    simpa using this
  · intro i hi hm; rw [hpc i hi] at hm; cases hm
  · intro i j hi _ _ hm; rw [hpc i hi] at hm; cases hm
  · intro i j hi _ _ ⟨hm, _⟩; rw [hpc i hi] at hm; cases hm
  · intro i hi hm; rw [hpc i hi] at hm; cases hm
  · intro i hi; rw [hpc i hi]; decide

/-- **C23, ethertypes**: in every state reachable by any schedule of any number of participants, two
participants holding a member file (in particular two running participants) have different ethertypes. -/
theorem ethertypes_distinct : ethertypes_distinct_full :=
  fun cfgs fm0 sched h => (inv_run (inv_init cfgs fm0 h) sched).dist

/-- **C23, single installer**: at most one participant is between its successful `rename` and its `obj_pin`. -/
theorem single_installer : single_installer_full :=
  fun cfgs fm0 sched h => (inv_run (inv_init cfgs fm0 h) sched).single

/-! ### the bitmap file: bit-level lemmas -/

theorem pwriteByte_len {f : List Nat} {k v : Nat} (h : k < f.length) : (pwriteByte f k v).length = f.length := by
  simp [pwriteByte, h]

theorem pwriteByte_getD {f : List Nat} {k v : Nat} (h : k < f.length) (j : Nat) :
    (pwriteByte f k v).getD j 0 = if j = k then v else f.getD j 0 := by
  simp only [pwriteByte, h, if_true, List.getD_eq_getElem?_getD, List.getElem?_set]
  by_cases e : k = j
  · subst e; simp
  · have : ¬ j = k := fun x => e x.symm
    simp [e, this]

theorem bitSet_setBit {f : List Nat} {k b : Nat} (h : k < f.length) (m : Nat) :
    bitSet (pwriteByte f k (f.getD k 0 ||| 2 ^ b)) m = (bitSet f m || (m / 8 == k && m % 8 == b)) := by
  simp only [bitSet, pwriteByte_getD h]
  by_cases e : m / 8 = k
  · simp only [e, if_true, Nat.testBit_or, Nat.testBit_two_pow, beq_self_eq_true, Bool.true_and]
    congr 1
    by_cases e2 : b = m % 8
    · subst e2; simp
    · have : ¬ m % 8 = b := fun x => e2 x.symm
      simp [e2, this]
  · simp [e]

theorem bitSet_clearBit {f : List Nat} {k b : Nat} (h : k < f.length) (m : Nat) :
    bitSet (pwriteByte f k (clearBit (f.getD k 0) b)) m = (bitSet f m && !(m / 8 == k && m % 8 == b)) := by
  simp only [bitSet, pwriteByte_getD h]
  by_cases e : m / 8 = k
  · simp only [e, if_true, clearBit, Nat.testBit_xor, Nat.testBit_and, Nat.testBit_two_pow, beq_self_eq_true, Bool.true_and]
    by_cases e2 : b = m % 8
    · subst e2; simp
    · have : ¬ m % 8 = b := fun x => e2 x.symm
      simp [e2, this]
  · simp [e]

/-! ### the invariant behind `fmmu_windows_disjoint` -/

/-- owns a process number in the bitmap (from the `pwrite` that sets its bit to the one that clears it) -/
def _root_.Ebv.Parallel.Pc.owns : Pc → Bool
  | .fmUnlock | .running | .removeMember | .rmdir | .detach | .removePin | .mbxRemove
  | .fmRLock | .fmRRead | .fmRClear => true
  | _ => false

/-- holds the record lock of the bitmap file -/
def _root_.Ebv.Parallel.Pc.locked : Pc → Bool
  | .fmRead | .fmFix | .fmTrunc | .fmSet | .fmUnlock | .fmRRead | .fmRClear | .fmRUnlock => true
  | _ => false

/-- is repairing a short bitmap file -/
def _root_.Ebv.Parallel.Pc.fixing : Pc → Bool
  | .fmFix | .fmTrunc => true
  | _ => false

def fmOf (s : Sys) : List Nat := s.fm.getD []

structure FInv (s : Sys) : Prop where
  own : ∀ i, i < s.procs.length → (getP s i).pc.owns = true →
    bitSet (fmOf s) (getP s i).fmNo = true ∧ (getP s i).fmNo < fmProcs ∧ fmSize ≤ (fmOf s).length
  dist : ∀ i j, i < s.procs.length → j < s.procs.length → i ≠ j →
    (getP s i).pc.owns = true → (getP s j).pc.owns = true → (getP s i).fmNo ≠ (getP s j).fmNo
  lock : ∀ i, i < s.procs.length → (getP s i).pc.locked = true → s.fmLock = some i
  bufSet : ∀ i, i < s.procs.length → (getP s i).pc = .fmSet →
    (getP s i).fmBuf = (fmOf s).take fmSize ∧ fmSize ≤ (fmOf s).length
  bufClr : ∀ i, i < s.procs.length → (getP s i).pc = .fmRClear →
    (getP s i).fmBuf = [(fmOf s).getD ((getP s i).fmNo / 8) 0]
  short : ∀ i, i < s.procs.length → (getP s i).pc = .fmFix → (fmOf s).length < fmSize
  zeroed : ∀ i, i < s.procs.length → (getP s i).pc = .fmTrunc → fmOf s = fmZero ∧ (getP s i).fmBuf = fmZero
  noOwn : ∀ i, i < s.procs.length → (getP s i).pc.fixing = true →
    ∀ j, j < s.procs.length → (getP s j).pc.owns = false

/-- the obligations of one operation of participant `i`, with the frame for everybody else -/
theorem finv_update {s : Sys} (hI : FInv s) {i : Nat} (hi : i < s.procs.length) (s1 : Sys) (p' : Proc)
    (hpr : s1.procs = s.procs)
    (hkeep : ∀ j, j < s.procs.length → j ≠ i → (getP s j).pc.owns = true →
      bitSet (fmOf s1) (getP s j).fmNo = true ∧ fmSize ≤ (fmOf s1).length)
    (hown : p'.pc.owns = true →
      (bitSet (fmOf s1) p'.fmNo = true ∧ p'.fmNo < fmProcs ∧ fmSize ≤ (fmOf s1).length) ∧
      ∀ j, j < s.procs.length → j ≠ i → (getP s j).pc.owns = true → (getP s j).fmNo ≠ p'.fmNo)
    (hlock : (p'.pc.locked = true → s1.fmLock = some i) ∧
      ∀ j, j < s.procs.length → j ≠ i → (getP s j).pc.locked = true → s1.fmLock = some j)
    (hbs : (p'.pc = .fmSet → p'.fmBuf = (fmOf s1).take fmSize ∧ fmSize ≤ (fmOf s1).length) ∧
      ∀ j, j < s.procs.length → j ≠ i → (getP s j).pc = .fmSet →
        (getP s j).fmBuf = (fmOf s1).take fmSize ∧ fmSize ≤ (fmOf s1).length)
    (hbc : (p'.pc = .fmRClear → p'.fmBuf = [(fmOf s1).getD (p'.fmNo / 8) 0]) ∧
      ∀ j, j < s.procs.length → j ≠ i → (getP s j).pc = .fmRClear →
        (getP s j).fmBuf = [(fmOf s1).getD ((getP s j).fmNo / 8) 0])
    (hsh : (p'.pc = .fmFix → (fmOf s1).length < fmSize) ∧
      ∀ j, j < s.procs.length → j ≠ i → (getP s j).pc = .fmFix → (fmOf s1).length < fmSize)
    (hz : (p'.pc = .fmTrunc → fmOf s1 = fmZero ∧ p'.fmBuf = fmZero) ∧
      ∀ j, j < s.procs.length → j ≠ i → (getP s j).pc = .fmTrunc → fmOf s1 = fmZero ∧ (getP s j).fmBuf = fmZero)
    (hno : (p'.pc.fixing = true ∨ ∃ j, j < s.procs.length ∧ j ≠ i ∧ (getP s j).pc.fixing = true) →
      p'.pc.owns = false ∧ ∀ j, j < s.procs.length → j ≠ i → (getP s j).pc.owns = false) :
    FInv (setP s1 i p') := by
  have hi1 : i < s1.procs.length := by rw [hpr]; exact hi
  have hg : ∀ j, getP (setP s1 i p') j = if j = i then p' else getP s j := by
    intro j; rw [getP_setP _ _ _ _ hi1]; split <;> simp [getP_congr hpr]
  have hlen : (setP s1 i p').procs.length = s.procs.length := by simp [hpr]
  have hfm : fmOf (setP s1 i p') = fmOf s1 := rfl
  refine ⟨?_, ?_, ?_, ?_, ?_, ?_, ?_, ?_⟩
  · intro j hj ho; rw [hlen] at hj; rw [hg] at ho ⊢; rw [hfm]
    split at ho
    · next h => simp only [h, if_true]; exact (hown ho).1
    · next h =>
      simp only [h, if_false]
      exact ⟨(hkeep j hj h ho).1, (hI.own j hj ho).2.1, (hkeep j hj h ho).2⟩
  · intro a b ha hb hab hoa hob
    rw [hlen] at ha hb; rw [hg] at hoa hob ⊢; rw [hg]
    by_cases h1 : a = i <;> by_cases h2 : b = i <;> simp only [h1, h2, if_true, if_false] at hoa hob ⊢
    · exact absurd (h1.trans h2.symm) hab
    · exact fun e => (hown hoa).2 b hb h2 hob e.symm
    · exact (hown hob).2 a ha h1 hoa
    · exact hI.dist a b ha hb hab hoa hob
  · intro j hj hl; rw [hlen] at hj; rw [hg] at hl
    simp only [setP_fmLock]
    split at hl
    · next h => rw [h]; exact hlock.1 hl
    · next h => exact hlock.2 j hj h hl
  · intro j hj hpc; rw [hlen] at hj; rw [hg] at hpc ⊢; rw [hfm]
    split at hpc
    · next h => simp only [h, if_true]; exact hbs.1 hpc
    · next h => simp only [h, if_false]; exact hbs.2 j hj h hpc
  · intro j hj hpc; rw [hlen] at hj; rw [hg] at hpc ⊢; rw [hfm]
    split at hpc
    · next h => simp only [h, if_true]; exact hbc.1 hpc
    · next h => simp only [h, if_false]; exact hbc.2 j hj h hpc
  · intro j hj hpc; rw [hlen] at hj; rw [hg] at hpc; rw [hfm]
    split at hpc
    · exact hsh.1 hpc
    · next h => exact hsh.2 j hj h hpc
  · intro j hj hpc; rw [hlen] at hj; rw [hg] at hpc ⊢; rw [hfm]
    split at hpc
    · next h => simp only [h, if_true]; exact hz.1 hpc
    · next h => simp only [h, if_false]; exact hz.2 j hj h hpc
  · intro j hj hf k hk; rw [hlen] at hj hk; rw [hg] at hf; rw [hg]
    have hh : p'.pc.fixing = true ∨ ∃ j, j < s.procs.length ∧ j ≠ i ∧ (getP s j).pc.fixing = true := by
      split at hf
      · exact Or.inl hf
      · next h => exact Or.inr ⟨j, hj, h, hf⟩
    obtain ⟨h1, h2⟩ := hno hh
    split
    · exact h1
    · next h => exact h2 k hk h

/-- an operation that does not write the bitmap file and does not make `i` an owner or a repairer -/
theorem finv_same {s : Sys} (hI : FInv s) {i : Nat} (hi : i < s.procs.length) (s1 : Sys) (p' : Proc)
    (hpr : s1.procs = s.procs) (hfm : fmOf s1 = fmOf s)
    (hlock : (p'.pc.locked = true → s1.fmLock = some i) ∧
      ∀ j, j < s.procs.length → j ≠ i → (getP s j).pc.locked = true → s1.fmLock = some j)
    (hown : p'.pc.owns = true → (getP s i).pc.owns = true ∧ p'.fmNo = (getP s i).fmNo)
    (hbs : p'.pc = .fmSet → p'.fmBuf = (fmOf s).take fmSize ∧ fmSize ≤ (fmOf s).length)
    (hbc : p'.pc = .fmRClear → p'.fmBuf = [(fmOf s).getD (p'.fmNo / 8) 0])
    (hsh : p'.pc = .fmFix → (fmOf s).length < fmSize)
    (hz : p'.pc = .fmTrunc → (getP s i).pc = .fmTrunc ∧ p'.fmBuf = (getP s i).fmBuf)
    (hfx : p'.pc.fixing = true → (getP s i).pc.fixing = true ∨ ∀ j, j < s.procs.length → (getP s j).pc.owns = false) :
    FInv (setP s1 i p') := by
  refine finv_update hI hi s1 p' hpr ?_ ?_ hlock ?_ ?_ ?_ ?_ ?_
  · intro j hj _ ho; rw [hfm]; exact ⟨(hI.own j hj ho).1, (hI.own j hj ho).2.2⟩
  · intro ho
    obtain ⟨h1, h2⟩ := hown ho
    rw [hfm, h2]
    exact ⟨hI.own i hi h1, fun j hj hne hoj => hI.dist j i hj hi hne hoj h1⟩
  · rw [hfm]; exact ⟨hbs, fun j hj _ h => hI.bufSet j hj h⟩
  · rw [hfm]; exact ⟨hbc, fun j hj _ h => hI.bufClr j hj h⟩
  · rw [hfm]; exact ⟨hsh, fun j hj _ h => hI.short j hj h⟩
  · rw [hfm]
    refine ⟨fun h => ?_, fun j hj _ h => hI.zeroed j hj h⟩
    obtain ⟨a, b⟩ := hz h
    rw [b]; exact hI.zeroed i hi a
  · intro h
    have key : ∀ j, j < s.procs.length → (getP s j).pc.owns = false := by
      rcases h with h | ⟨j, hj, _, h⟩
      · rcases hfx h with a | a
        · exact hI.noOwn i hi a
        · exact a
      · exact hI.noOwn j hj h
    refine ⟨?_, fun j hj _ => key j hj⟩
    cases ho : p'.pc.owns
    · rfl
    · have := key i hi; rw [(hown ho).1] at this; cases this

theorem finv_local {s : Sys} (hI : FInv s) {i : Nat} (hi : i < s.procs.length) (s1 : Sys) (p' : Proc)
    (hpr : s1.procs = s.procs) (hfm : fmOf s1 = fmOf s) (hlk : s1.fmLock = s.fmLock)
    (hlocked : p'.pc.locked = true → (getP s i).pc.locked = true)
    (hown : p'.pc.owns = true → (getP s i).pc.owns = true ∧ p'.fmNo = (getP s i).fmNo)
    (hbs : p'.pc = .fmSet → p'.fmBuf = (fmOf s).take fmSize ∧ fmSize ≤ (fmOf s).length)
    (hbc : p'.pc = .fmRClear → p'.fmBuf = [(fmOf s).getD (p'.fmNo / 8) 0])
    (hsh : p'.pc = .fmFix → (fmOf s).length < fmSize)
    (hz : p'.pc = .fmTrunc → (getP s i).pc = .fmTrunc ∧ p'.fmBuf = (getP s i).fmBuf)
    (hfx : p'.pc.fixing = true → (getP s i).pc.fixing = true ∨ ∀ j, j < s.procs.length → (getP s j).pc.owns = false) :
    FInv (setP s1 i p') :=
  finv_same hI hi s1 p' hpr hfm
    ⟨fun h => by rw [hlk]; exact hI.lock i hi (hlocked h), fun j hj _ h => by rw [hlk]; exact hI.lock j hj h⟩
    hown hbs hbc hsh hz hfx

theorem nobody_locked {s : Sys} (hI : FInv s) {i : Nat} (h : canLock s i = true) :
    ∀ j, j < s.procs.length → j ≠ i → (getP s j).pc.locked = false := by
  intro j hj hne
  cases hl : (getP s j).pc.locked
  · rfl
  · have := hI.lock j hj hl
    simp only [canLock, this] at h
    exact absurd (by simpa using h) hne

theorem finv_acquire {s : Sys} (hI : FInv s) {i : Nat} (hi : i < s.procs.length) (s1 : Sys) (p' : Proc)
    (hpr : s1.procs = s.procs) (hfm : fmOf s1 = fmOf s) (hlk : s1.fmLock = some i) (hcan : canLock s i = true)
    (hown : p'.pc.owns = true → (getP s i).pc.owns = true ∧ p'.fmNo = (getP s i).fmNo)
    (hpc : p'.pc = .fmRead ∨ p'.pc = .fmRRead) : FInv (setP s1 i p') :=
  finv_same hI hi s1 p' hpr hfm
    ⟨fun _ => hlk, fun j hj hne h => by rw [nobody_locked hI hcan j hj hne] at h; cases h⟩
    hown (by rcases hpc with h | h <;> rw [h] <;> intro x <;> cases x)
    (by rcases hpc with h | h <;> rw [h] <;> intro x <;> cases x)
    (by rcases hpc with h | h <;> rw [h] <;> intro x <;> cases x)
    (by rcases hpc with h | h <;> rw [h] <;> intro x <;> cases x)
    (by rcases hpc with h | h <;> rw [h] <;> intro x <;> cases x)

theorem other_not_locked {s : Sys} (hI : FInv s) {i : Nat} (hi : i < s.procs.length)
    (hl : (getP s i).pc.locked = true) : ∀ j, j < s.procs.length → j ≠ i → (getP s j).pc.locked = false := by
  intro j hj hne
  cases h : (getP s j).pc.locked
  · rfl
  · exact absurd (Option.some.inj ((hI.lock j hj h).symm.trans (hI.lock i hi hl))) hne

theorem finv_release {s : Sys} (hI : FInv s) {i : Nat} (hi : i < s.procs.length) (s1 : Sys) (p' : Proc)
    (hpr : s1.procs = s.procs) (hfm : fmOf s1 = fmOf s)
    (hwas : (getP s i).pc.locked = true) (hnow : p'.pc.locked = false)
    (hown : p'.pc.owns = true → (getP s i).pc.owns = true ∧ p'.fmNo = (getP s i).fmNo)
    (hpc : p'.pc ≠ .fmSet ∧ p'.pc ≠ .fmRClear ∧ p'.pc.fixing = false) : FInv (setP s1 i p') :=
  finv_same hI hi s1 p' hpr hfm
    ⟨fun h => (by rw [hnow] at h; cases h),
     fun j hj hne h => (by rw [other_not_locked hI hi hwas j hj hne] at h; cases h)⟩
    hown (fun h => absurd h hpc.1) (fun h => absurd h hpc.2.1)
    (fun h => by have := hpc.2.2; rw [h] at this; cases this)
    (fun h => by have := hpc.2.2; rw [h] at this; cases this)
    (fun h => by rw [hpc.2.2] at h; cases h)

theorem rmNo_eq (p : Proc) : rmNo p = p.fmNo := by
  have : granted p ≤ maxGroups := Nat.min_le_right _ _
  simp only [rmNo, lastAddr, maxGroups, fmWindow, fmGroup] at this ⊢
  omega

theorem no_byte {f : List Nat} {n : Nat} (hf : fmSize ≤ f.length) (hn : n < fmProcs) : n / 8 < f.length := by
  simp only [fmSize, fmProcs] at hn hf; omega

theorem pickNo_lt {buf : List Nat} {ds : List Nat} {n : Nat}
    (h : pickNo buf ds = some n) : n < fmProcs ∧ bitSet buf n = false := by
  induction ds with
  | nil =>
    simp only [pickNo] at h
    have h1 := List.find?_some h
    have h2 := List.mem_of_find?_eq_some h
    simp only [Bool.and_eq_true, decide_eq_true_eq, Bool.not_eq_true'] at h1
    exact ⟨List.mem_range.mp h2, h1.2⟩
  | cons d r ih =>
    simp only [pickNo] at h
    split at h
    · next hb =>
      cases h
      simp only [Bool.and_eq_true, decide_eq_true_eq, Bool.not_eq_true'] at hb
      exact ⟨hb.1.2, hb.2⟩
    · exact ih h

theorem fixing_locked (pc : Pc) (h : pc.fixing = true) : pc.locked = true := by
  cases pc <;> simp_all [Pc.fixing, Pc.locked]
theorem fixing_not_owns (pc : Pc) (h : pc.fixing = true) : pc.owns = false := by
  cases pc <;> simp_all [Pc.fixing, Pc.owns]

/-- an operation of the lock holder that keeps the lock: nobody else is at a pc that needs the lock -/
theorem finv_write {s : Sys} (hI : FInv s) {i : Nat} (hi : i < s.procs.length) (s1 : Sys) (p' : Proc)
    (hpr : s1.procs = s.procs) (hlk : s1.fmLock = s.fmLock)
    (hwas : (getP s i).pc.locked = true)
    (hkeep : ∀ j, j < s.procs.length → j ≠ i → (getP s j).pc.owns = true →
      bitSet (fmOf s1) (getP s j).fmNo = true ∧ fmSize ≤ (fmOf s1).length)
    (hown : p'.pc.owns = true →
      (bitSet (fmOf s1) p'.fmNo = true ∧ p'.fmNo < fmProcs ∧ fmSize ≤ (fmOf s1).length) ∧
      ∀ j, j < s.procs.length → j ≠ i → (getP s j).pc.owns = true → (getP s j).fmNo ≠ p'.fmNo)
    (hbs : p'.pc = .fmSet → p'.fmBuf = (fmOf s1).take fmSize ∧ fmSize ≤ (fmOf s1).length)
    (hbc : p'.pc = .fmRClear → p'.fmBuf = [(fmOf s1).getD (p'.fmNo / 8) 0])
    (hsh : p'.pc = .fmFix → (fmOf s1).length < fmSize)
    (hz : p'.pc = .fmTrunc → fmOf s1 = fmZero ∧ p'.fmBuf = fmZero)
    (hno : p'.pc.fixing = true → ∀ j, j < s.procs.length → (getP s j).pc.owns = false) :
    FInv (setP s1 i p') := by
  have hnl := other_not_locked hI hi hwas
  have contra : ∀ j, j < s.procs.length → j ≠ i → ∀ q : Prop, (getP s j).pc.locked = true → q :=
    fun j hj hne q h => by rw [hnl j hj hne] at h; cases h
  refine finv_update hI hi s1 p' hpr hkeep hown ?_ ?_ ?_ ?_ ?_ ?_
  · exact ⟨fun _ => by rw [hlk]; exact hI.lock i hi hwas, fun j hj hne h => contra j hj hne _ h⟩
  · exact ⟨hbs, fun j hj hne h => contra j hj hne _ (by rw [h]; rfl)⟩
  · exact ⟨hbc, fun j hj hne h => contra j hj hne _ (by rw [h]; rfl)⟩
  · exact ⟨hsh, fun j hj hne h => contra j hj hne _ (by rw [h]; rfl)⟩
  · exact ⟨hz, fun j hj hne h => contra j hj hne _ (by rw [h]; rfl)⟩
  · intro h
    rcases h with h | ⟨j, hj, hne, h⟩
    · exact ⟨fixing_not_owns _ h, fun j hj _ => hno h j hj⟩
    · exact contra j hj hne _ (fixing_locked _ h)

theorem pwrite0_zero {f : List Nat} (h : f.length < fmSize) : pwrite0 f fmZero = fmZero := by
  have : List.drop fmZero.length f = [] := by
    apply List.drop_eq_nil_of_le; simp [fmZero]; omega
  simp [pwrite0, this]

/-- `os.pwrite(fd, zeros, 0)` of the repair path: the file was short, nobody owns a number -/
theorem finv_fix {s : Sys} (hI : FInv s) {i : Nat} (hi : i < s.procs.length) (s1 : Sys) (p' : Proc)
    (hpr : s1.procs = s.procs) (hlk : s1.fmLock = s.fmLock) (hpc : (getP s i).pc = .fmFix)
    (hfm0 : s1.fm = some (pwrite0 (s.fm.getD []) fmZero)) (hpc' : p'.pc = .fmTrunc) (hb : p'.fmBuf = fmZero) :
    FInv (setP s1 i p') := by
  have hfm : fmOf s1 = pwrite0 (fmOf s) fmZero := by simp only [fmOf, hfm0, Option.getD_some]
  have hno := hI.noOwn i hi (by rw [hpc]; rfl)
  have hf : fmOf s1 = fmZero := by rw [hfm]; exact pwrite0_zero (hI.short i hi hpc)
  refine finv_write hI hi s1 p' hpr hlk (by rw [hpc]; rfl) ?_ ?_ ?_ ?_ ?_ ?_ ?_
  · intro j hj _ h; rw [hno j hj] at h; cases h
  · rw [hpc']; intro h; cases h
  · rw [hpc']; intro h; cases h
  · rw [hpc']; intro h; cases h
  · rw [hpc']; intro h; cases h
  · exact fun _ => ⟨hf, hb⟩
  · exact fun _ => hno

/-- `os.ftruncate(fd, 64)` of the repair path -/
theorem finv_trunc {s : Sys} (hI : FInv s) {i : Nat} (hi : i < s.procs.length) (s1 : Sys) (p' : Proc)
    (hpr : s1.procs = s.procs) (hlk : s1.fmLock = s.fmLock) (hpc : (getP s i).pc = .fmTrunc)
    (hfm0 : s1.fm = some ((s.fm.getD []).take fmSize)) (hpc' : p'.pc = .fmSet) (hb : p'.fmBuf = (getP s i).fmBuf) :
    FInv (setP s1 i p') := by
  have hfm : fmOf s1 = (fmOf s).take fmSize := by simp only [fmOf, hfm0, Option.getD_some]
  have hno := hI.noOwn i hi (by rw [hpc]; rfl)
  obtain ⟨hz, hbz⟩ := hI.zeroed i hi hpc
  have hf : fmOf s1 = fmZero := by rw [hfm, hz]; simp [fmZero]
  refine finv_write hI hi s1 p' hpr hlk (by rw [hpc]; rfl) ?_ ?_ ?_ ?_ ?_ ?_ ?_
  · intro j hj _ h; rw [hno j hj] at h; cases h
  · rw [hpc']; intro h; cases h
  · intro _; rw [hb, hbz, hf]; simp [fmZero]
  · rw [hpc']; intro h; cases h
  · rw [hpc']; intro h; cases h
  · rw [hpc']; intro h; cases h
  · rw [hpc']; intro h; cases h

theorem getD_take {f : List Nat} {k m : Nat} (h : k < m) : (f.take m).getD k 0 = f.getD k 0 := by
  simp [List.getD_eq_getElem?_getD, List.getElem?_take, h]

theorem bitSet_take {f : List Nat} {n : Nat} (hn : n < fmProcs) : bitSet (f.take fmSize) n = bitSet f n := by
  have : n / 8 < fmSize := by simp only [fmSize, fmProcs] at hn ⊢; omega
  simp only [bitSet, getD_take this]

/-- the `pwrite` that sets the chosen bit -/
theorem finv_set {s : Sys} (hI : FInv s) {i : Nat} (hi : i < s.procs.length) (s1 : Sys) (p' : Proc) (n : Nat)
    (hpr : s1.procs = s.procs) (hpc : (getP s i).pc = .fmSet)
    (hpick : pickNo (getP s i).fmBuf (getP s i).fmDraws = some n)
    (hfm0 : s1.fm = some (pwriteByte (s.fm.getD []) (n / 8) ((getP s i).fmBuf.getD (n / 8) 0 ||| 2 ^ (n % 8))))
    (hlk : s1.fmLock = s.fmLock) (hpc' : p'.pc = .fmUnlock) (hno : p'.fmNo = n) : FInv (setP s1 i p') := by
  have hfm : fmOf s1 = pwriteByte (fmOf s) (n / 8) ((getP s i).fmBuf.getD (n / 8) 0 ||| 2 ^ (n % 8)) := by
    simp only [fmOf, hfm0, Option.getD_some]
  obtain ⟨hbuf, hlen⟩ := hI.bufSet i hi hpc
  obtain ⟨hn, hfree⟩ := pickNo_lt hpick
  rw [hbuf, bitSet_take hn] at hfree
  have hk := no_byte hlen hn
  have hk' : n / 8 < fmSize := by simp only [fmSize, fmProcs] at hn ⊢; omega
  rw [hbuf, getD_take hk'] at hfm
  refine finv_write hI hi s1 p' hpr hlk (by rw [hpc]; rfl) ?_ ?_ ?_ ?_ ?_ ?_ ?_
  · intro j hj _ ho
    rw [hfm, bitSet_setBit hk, (hI.own j hj ho).1, pwriteByte_len hk]
    exact ⟨rfl, hlen⟩
  · intro _
    rw [hno, hfm, bitSet_setBit hk, pwriteByte_len hk]
    refine ⟨⟨by simp, hn, hlen⟩, ?_⟩
    intro j hj _ ho e
    have := (hI.own j hj ho).1
    rw [e, hfree] at this; cases this
  · rw [hpc']; intro h; cases h
  · rw [hpc']; intro h; cases h
  · rw [hpc']; intro h; cases h
  · rw [hpc']; intro h; cases h
  · rw [hpc']; intro h; cases h

/-- the `pwrite` of `FMMULock.remove` that clears the own bit -/
theorem finv_clear {s : Sys} (hI : FInv s) {i : Nat} (hi : i < s.procs.length) (s1 : Sys) (p' : Proc) (k v : Nat)
    (hpr : s1.procs = s.procs) (hpc : (getP s i).pc = .fmRClear)
    (hk0 : k = rmNo (getP s i) / 8) (hv : v = clearBit ((getP s i).fmBuf.getD 0 0) (rmNo (getP s i) % 8))
    (hfm0 : s1.fm = some (pwriteByte (s.fm.getD []) k v))
    (hlk : s1.fmLock = s.fmLock) (hpc' : p'.pc = .fmRUnlock) : FInv (setP s1 i p') := by
  have hfm : fmOf s1 = pwriteByte (fmOf s) k v := by simp only [fmOf, hfm0, Option.getD_some]
  rw [hk0, hv] at hfm
  have hbuf := hI.bufClr i hi hpc
  have ho : (getP s i).pc.owns = true := by rw [hpc]; rfl
  obtain ⟨_, hn, hlen⟩ := hI.own i hi ho
  have hk := no_byte hlen hn
  rw [rmNo_eq, hbuf] at hfm
  simp only [List.getD_cons_zero] at hfm
  refine finv_write hI hi s1 p' hpr hlk (by rw [hpc]; rfl) ?_ ?_ ?_ ?_ ?_ ?_ ?_
  · intro j hj hne hoj
    rw [hfm, bitSet_clearBit hk, (hI.own j hj hoj).1, pwriteByte_len hk]
    refine ⟨?_, hlen⟩
    have hd := hI.dist j i hj hi hne hoj ho
    have : ¬ ((getP s j).fmNo / 8 = (getP s i).fmNo / 8 ∧ (getP s j).fmNo % 8 = (getP s i).fmNo % 8) := by
      intro ⟨a, b⟩; omega
    simp only [Bool.true_and, Bool.not_eq_true', Bool.and_eq_false_iff, beq_eq_false_iff_ne, ne_eq]
    by_cases a : (getP s j).fmNo / 8 = (getP s i).fmNo / 8
    · right; exact fun b => this ⟨a, b⟩
    · left; exact a
  · rw [hpc']; intro h; cases h
  · rw [hpc']; intro h; cases h
  · rw [hpc']; intro h; cases h
  · rw [hpc']; intro h; cases h
  · rw [hpc']; intro h; cases h
  · rw [hpc']; intro h; cases h

@[simp] theorem drawEt_fmDraws (p : Proc) : (drawEt p).2.fmDraws = p.fmDraws := by unfold drawEt; split <;> rfl
@[simp] theorem drawEt_nAddr (p : Proc) : (drawEt p).2.nAddr = p.nAddr := by unfold drawEt; split <;> rfl
@[simp] theorem drawEt_fmNo (p : Proc) : (drawEt p).2.fmNo = p.fmNo := by unfold drawEt; split <;> rfl
@[simp] theorem drawEt_fmBuf (p : Proc) : (drawEt p).2.fmBuf = p.fmBuf := by unfold drawEt; split <;> rfl

theorem take_len_eq {f : List Nat} (h : (f.take fmSize).length = fmSize) : fmSize ≤ f.length := by
  simp only [List.length_take] at h; omega
theorem take_len_ne {f : List Nat} (h : ¬ (f.take fmSize).length = fmSize) : f.length < fmSize := by
  simp only [List.length_take] at h; omega

theorem no_owner_of_short {s : Sys} (hI : FInv s) (h : (fmOf s).length < fmSize) :
    ∀ j, j < s.procs.length → (getP s j).pc.owns = false := by
  intro j hj
  cases ho : (getP s j).pc.owns
  · rfl
  · have := (hI.own j hj ho).2.2; omega

theorem finv_step {s : Sys} (hI : FInv s) (i : Nat) : FInv (step s i) := by
  unfold step
  split
  case isFalse => exact hI
  case isTrue hi =>
    generalize hp : getP s i = p
    cases hpc : p.pc <;> simp only [stepStart, stepFiles, stepExit, hpc]
    all_goals (repeat' split)
    all_goals (try exact hI)
    all_goals (try (apply finv_local hI hi <;> first | rfl | (simp_all [emit, Pc.owns, Pc.locked, Pc.fixing]; done)))
    all_goals subst hp
    all_goals first
      | (apply finv_acquire hI hi <;> first | rfl | assumption | exact Or.inl rfl | exact Or.inr rfl | (simp_all [emit, Pc.owns]; done))
      | (apply finv_release hI hi <;> first | rfl | (rw [hpc]; rfl) | (simp_all [emit, Pc.owns, Pc.fixing]; done))
      | (apply finv_fix hI hi <;> first | rfl | exact hpc)
      | (apply finv_trunc hI hi <;> first | rfl | exact hpc)
      | (refine finv_clear hI hi _ _ (rmNo (getP s i) / 8) (clearBit ((getP s i).fmBuf.getD 0 0) (rmNo (getP s i) % 8)) ?_ hpc ?_ ?_ ?_ ?_ ?_ <;> rfl)
      | skip
    case fmRead.isTrue h =>
      have hl := take_len_eq h
      apply finv_local hI hi <;> first | rfl | (simp_all [emit, Pc.owns, Pc.locked, Pc.fixing, fmOf]; done)
    case fmRead.isFalse h =>
      have hl := take_len_ne h
      have hno := no_owner_of_short hI hl
      apply finv_local hI hi <;> first | rfl | exact fun _ => Or.inr hno | exact fun _ => hl | (simp_all [emit, Pc.owns, Pc.locked, Pc.fixing]; done)
    case fmRRead.isTrue =>
      have hr := rmNo_eq (getP s i)
      apply finv_local hI hi <;> first | rfl | (simp_all [emit, Pc.owns, Pc.locked, Pc.fixing, fmOf]; done)
    case h_1 n hn =>
      apply finv_set hI hi _ _ n <;> first | rfl | exact hpc | exact hn

theorem finv_run {s : Sys} (hI : FInv s) (sched : List Nat) : FInv (run s sched) := by
  induction sched generalizing s with
  | nil => exact hI
  | cons i r ih => exact ih (finv_step hI i)

theorem finv_init (cfgs : List Cfg) (fm0 : Option (List Nat)) : FInv (init cfgs fm0) := by
  have hpc : ∀ i, i < (init cfgs fm0).procs.length → (getP (init cfgs fm0) i).pc = .mkdtemp :=
    fun i hi => (getP_init cfgs fm0 i hi).1
  refine ⟨?_, ?_, ?_, ?_, ?_, ?_, ?_, ?_⟩
  · intro i hi h; rw [hpc i hi] at h; cases h
  · intro i j hi _ _ h; rw [hpc i hi] at h; cases h
  · intro i hi h; rw [hpc i hi] at h; cases h
  · intro i hi h; rw [hpc i hi] at h; cases h
  · intro i hi h; rw [hpc i hi] at h; cases h
  · intro i hi h; rw [hpc i hi] at h; cases h
  · intro i hi h; rw [hpc i hi] at h; cases h
  · intro i hi h; rw [hpc i hi] at h; cases h

/-- **C23, FMMU windows**: for every schedule of any number of participants, any `randrange` draws, any
number of `get_fmmu_addr` calls (calls beyond the process's range fail), any earlier contents of the bitmap
file (absent, short, garbage) and with or without injected faults, the logical address windows of running
participants are pairwise disjoint. -/
theorem fmmu_windows_disjoint : fmmu_windows_disjoint_full := by
  intro cfgs fm0 sched
  have hI := finv_run (finv_init cfgs fm0) sched
  generalize run (init cfgs fm0) sched = s at hI ⊢
  intro i j hi hj hij hri hrj
  have hoi : (getP s i).pc.owns = true := by rw [hri]; rfl
  have hoj : (getP s j).pc.owns = true := by rw [hrj]; rfl
  have hd := hI.dist i j hi hj hij hoi hoj
  have hci : granted (getP s i) ≤ maxGroups := Nat.min_le_right _ _
  have hcj : granted (getP s j) ≤ maxGroups := Nat.min_le_right _ _
  simp only [disjoint, winLo, winLen, winBase, Bool.or_eq_true]
  simp only [maxGroups, fmWindow, fmGroup] at hci hcj ⊢
  rcases Nat.lt_or_gt_of_ne hd with h | h
  · left; exact decide_eq_true (by omega)
  · right; exact decide_eq_true (by omega)

/-! ### the addresses `get_fmmu_addr` hands out (what a participant actually receives) -/

/-- every address handed to a participant lies, with its whole block, inside the participant's own window, and its
process-number field (`a / fmWindow`, all 9 bits of it) is the participant's own number -/
theorem given_in_window (p : Proc) (a : Nat) (ha : a ∈ givenAddrs p) :
    winLo p ≤ a ∧ a + fmGroup ≤ winLo p + winLen p ∧ a / fmWindow = p.fmNo := by
  simp only [givenAddrs, List.mem_map, List.mem_range] at ha
  obtain ⟨k, hk, rfl⟩ := ha
  have hc : granted p ≤ maxGroups := Nat.min_le_right _ _
  simp only [winLo, winLen, winBase, lastAddr]
  simp only [maxGroups, fmWindow, fmGroup] at hc ⊢
  exact ⟨by omega, by omega, by omega⟩

/-- the k-th call returns the k-th block above the window start: distinct calls give distinct, non-overlapping blocks -/
theorem given_nodup_blocks (p : Proc) (k l : Nat) (_hk : k < granted p) (_hl : l < granted p) (h : k ≠ l) :
    disjoint (lastAddr p.fmNo (k + 1)) fmGroup (lastAddr p.fmNo (l + 1)) fmGroup = true := by
  simp only [disjoint, lastAddr, Bool.or_eq_true]
  simp only [fmWindow, fmGroup]
  rcases Nat.lt_or_gt_of_ne h with h | h
  · left; exact decide_eq_true (by omega)
  · right; exact decide_eq_true (by omega)

def fmmu_given_disjoint_full : Prop :=
  ∀ (cfgs : List Cfg) (fm0 : Option (List Nat)) (sched : List Nat),
    GivenDisjoint (run (init cfgs fm0) sched)

/-- **C23, addresses handed out**: for every schedule, any draws, any earlier bitmap contents and any number of
`get_fmmu_addr` calls, no block named by an address handed to one running participant overlaps a block named by an
address handed to another (in particular two participants whose process numbers differ in one bit only). -/
theorem fmmu_given_disjoint : fmmu_given_disjoint_full := by
  intro cfgs fm0 sched i j hi hj hij hri hrj a ha b hb
  have hw := fmmu_windows_disjoint cfgs fm0 sched i j hi hj hij hri hrj
  obtain ⟨ha1, ha2, _⟩ := given_in_window _ a ha
  obtain ⟨hb1, hb2, _⟩ := given_in_window _ b hb
  simp only [disjoint, Bool.or_eq_true, decide_eq_true_eq] at hw ⊢
  rcases hw with h | h
  · left; omega
  · right; omega

/-- non-vacuity: process numbers 255 and 511 (they differ in the top bit only), two and three calls -/
example : givenAddrs { fmNo := 255, nAddr := 2 } = [255 * 4194304 + 4096, 255 * 4194304 + 8192] := by decide
example : (givenAddrs { fmNo := 511, nAddr := 3 }).map (· / fmWindow) = [511, 511, 511] := by decide

/-! ### the invariant behind `installed_while_running_partial` -/

/-- member that is past the start section and has not begun to leave -/
def _root_.Ebv.Parallel.Pc.post : Pc → Bool
  | .mbxOpen | .mbxWrite | .mbxReopen | .fmOpen | .fmLock | .fmRead | .fmFix | .fmTrunc | .fmSet
  | .fmUnlock | .running => true
  | _ => false

def _root_.Ebv.Parallel.Pc.hasTable : Pc → Bool
  | .removeOld | .attach | .objPin => true
  | _ => false

structure WI (s : Sys) : Prop where
  instPin : ∀ i, i < s.procs.length → (getP s i).pc.install = true → s.pin = none
  instProgs : ∀ i, i < s.procs.length → (getP s i).pc.hasTable = true → (getP s i).progs = some i
  instAtt : ∀ i, i < s.procs.length → (getP s i).pc = .objPin → s.attached = some i
  lateDir : ∀ i, i < s.procs.length → (getP s i).pc.lateExit = true → s.lockdir = none
  pinAtt : ∀ m, s.pin = some m → s.attached = some m ∨ s.lockdir = none
  post : ∀ i, i < s.procs.length → (getP s i).pc.post = true →
    ∃ m, s.pin = some m ∧ (getP s i).progs = some m

theorem wi_update {s : Sys} (hW : WI s) {i : Nat} (hi : i < s.procs.length) (s1 : Sys) (p' : Proc)
    (hpr : s1.procs = s.procs)
    (h1 : (p'.pc.install = true → s1.pin = none) ∧
      ∀ j, j < s.procs.length → j ≠ i → (getP s j).pc.install = true → s1.pin = none)
    (h2 : p'.pc.hasTable = true → p'.progs = some i)
    (h3 : (p'.pc = .objPin → s1.attached = some i) ∧
      ∀ j, j < s.procs.length → j ≠ i → (getP s j).pc = .objPin → s1.attached = some j)
    (h4 : (p'.pc.lateExit = true → s1.lockdir = none) ∧
      ∀ j, j < s.procs.length → j ≠ i → (getP s j).pc.lateExit = true → s1.lockdir = none)
    (h5 : ∀ m, s1.pin = some m → s1.attached = some m ∨ s1.lockdir = none)
    (h6 : (p'.pc.post = true → ∃ m, s1.pin = some m ∧ p'.progs = some m) ∧
      ∀ j, j < s.procs.length → j ≠ i → (getP s j).pc.post = true →
        ∃ m, s1.pin = some m ∧ (getP s j).progs = some m) : WI (setP s1 i p') := by
  have hi1 : i < s1.procs.length := by rw [hpr]; exact hi
  have hg : ∀ j, getP (setP s1 i p') j = if j = i then p' else getP s j := by
    intro j; rw [getP_setP _ _ _ _ hi1]; split <;> simp [getP_congr hpr]
  have hlen : (setP s1 i p').procs.length = s.procs.length := by simp [hpr]
  refine ⟨?_, ?_, ?_, ?_, ?_, ?_⟩
  · intro j hj h; rw [hlen] at hj; rw [hg] at h; simp only [setP_pin]
    split at h
    · exact h1.1 h
    · next hne => exact h1.2 j hj hne h
  · intro j hj h; rw [hlen] at hj; rw [hg] at h ⊢
    split at h
    · next e => simp only [e, if_true]; exact h2 h
    · next hne => simp only [hne, if_false]; exact hW.instProgs j hj h
  · intro j hj h; rw [hlen] at hj; rw [hg] at h; simp only [setP_attached]
    split at h
    · next e => rw [e]; exact h3.1 h
    · next hne => exact h3.2 j hj hne h
  · intro j hj h; rw [hlen] at hj; rw [hg] at h; simp only [setP_lockdir]
    split at h
    · exact h4.1 h
    · next hne => exact h4.2 j hj hne h
  · intro m hm; simp only [setP_pin, setP_attached, setP_lockdir] at hm ⊢; exact h5 m hm
  · intro j hj h; rw [hlen] at hj; rw [hg] at h ⊢; simp only [setP_pin]
    split at h
    · next e => simp only [e, if_true]; exact h6.1 h
    · next hne => simp only [hne, if_false]; exact h6.2 j hj hne h

theorem wi_local {s : Sys} (hW : WI s) {i : Nat} (hi : i < s.procs.length) (s1 : Sys) (p' : Proc)
    (hpr : s1.procs = s.procs) (hp : s1.pin = s.pin) (ha : s1.attached = s.attached)
    (hl : s.lockdir = none → s1.lockdir = none)
    (k1 : p'.pc.install = true → (getP s i).pc.install = true)
    (k2 : p'.pc.hasTable = true → ((getP s i).pc.hasTable = true ∧ p'.progs = (getP s i).progs) ∨ p'.progs = some i)
    (k3 : p'.pc = .objPin → (getP s i).pc = .objPin)
    (k4 : p'.pc.lateExit = true → (getP s i).pc.lateExit = true ∨ s1.lockdir = none)
    (k6 : p'.pc.post = true → ((getP s i).pc.post = true ∧ p'.progs = (getP s i).progs) ∨
      ∃ m, s.pin = some m ∧ p'.progs = some m) :
    WI (setP s1 i p') := by
  refine wi_update hW hi s1 p' hpr ?_ ?_ ?_ ?_ ?_ ?_
  · rw [hp]; exact ⟨fun h => hW.instPin i hi (k1 h), fun j hj _ h => hW.instPin j hj h⟩
  · intro h
    rcases k2 h with ⟨a, b⟩ | b
    · rw [b]; exact hW.instProgs i hi a
    · exact b
  · rw [ha]; exact ⟨fun h => hW.instAtt i hi (k3 h), fun j hj _ h => hW.instAtt j hj h⟩
  · refine ⟨fun h => ?_, fun j hj _ h => hl (hW.lateDir j hj h)⟩
    rcases k4 h with a | a
    · exact hl (hW.lateDir i hi a)
    · exact a
  · intro m hm; rw [hp] at hm; rw [ha]
    rcases hW.pinAtt m hm with h | h
    · exact Or.inl h
    · exact Or.inr (hl h)
  · rw [hp]
    refine ⟨fun h => ?_, fun j hj _ h => hW.post j hj h⟩
    rcases k6 h with ⟨a, b⟩ | b
    · rw [b]; exact hW.post i hi a
    · exact b

theorem post_member (pc : Pc) (h : pc.post = true) : pc.member = true := by
  cases pc <;> simp_all [Pc.post, Pc.member]
theorem hasTable_install (pc : Pc) (h : pc.hasTable = true) : pc.install = true := by
  cases pc <;> simp_all [Pc.hasTable, Pc.install]

theorem noneLate_spec {s : Sys} (h : noneLate s = true) : ∀ j, j < s.procs.length → (getP s j).pc.lateExit = false := by
  intro j hj
  have := List.all_eq_true.mp h j (List.mem_range.mpr hj)
  simpa using this

/-- `rename` succeeds: nobody is a member, no last leaver is in its late exit, no old programs file -/
theorem wi_fresh {s : Sys} (hW : WI s) {i : Nat} (hi : i < s.procs.length) (s1 : Sys) (p' : Proc)
    (hpr : s1.procs = s.procs) (hp : s1.pin = none)
    (hno : ∀ j, j < s.procs.length → (getP s j).pc.member = false)
    (hnl : ∀ j, j < s.procs.length → (getP s j).pc.lateExit = false)
    (hpc : p'.pc = .createMap) : WI (setP s1 i p') := by
  have nm : ∀ j, j < s.procs.length → ∀ q : Prop, (getP s j).pc.member = true → q :=
    fun j hj q h => by rw [hno j hj] at h; cases h
  refine wi_update hW hi s1 p' hpr ⟨fun _ => hp, fun _ _ _ _ => hp⟩ ?_ ?_ ?_ ?_ ?_
  · rw [hpc]; intro h; cases h
  · refine ⟨(by rw [hpc]; intro h; cases h), fun j hj _ h => nm j hj _ ?_⟩
    rw [h]; rfl
  · refine ⟨(by rw [hpc]; intro h; cases h), fun j hj _ h => ?_⟩
    rw [hnl j hj] at h; cases h
  · intro m hm; rw [hp] at hm; cases hm
  · refine ⟨(by rw [hpc]; intro h; cases h), fun j hj _ h => nm j hj _ (post_member _ h)⟩

/-- netlink attach by the installer -/
theorem wi_attach {s : Sys} (hB : Inv s) (hW : WI s) {i : Nat} (hi : i < s.procs.length) (s1 : Sys) (p' : Proc)
    (hpr : s1.procs = s.procs) (hp : s1.pin = s.pin) (ha : s1.attached = some i) (hl : s1.lockdir = s.lockdir)
    (hwas : (getP s i).pc = .attach) (hpc : p'.pc = .objPin) (hg : p'.progs = (getP s i).progs) :
    WI (setP s1 i p') := by
  have hin : (getP s i).pc.install = true := by rw [hwas]; rfl
  have hpn := hW.instPin i hi hin
  have oth : ∀ j, j < s.procs.length → j ≠ i → ∀ q : Prop, (getP s j).pc.install = true → q :=
    fun j hj hne q h => absurd ⟨h, hin⟩ (hB.single j i hj hi hne)
  refine wi_update hW hi s1 p' hpr ?_ ?_ ?_ ?_ ?_ ?_
  · rw [hp, hpn]; exact ⟨fun _ => rfl, fun _ _ _ _ => rfl⟩
  · intro _; rw [hg]; exact hW.instProgs i hi (by rw [hwas]; rfl)
  · refine ⟨fun _ => ha, fun j hj hne h => oth j hj hne _ (by rw [h]; rfl)⟩
  · rw [hl]; exact ⟨(by rw [hpc]; intro h; cases h), fun j hj _ h => hW.lateDir j hj h⟩
  · intro m hm; rw [hp, hpn] at hm; cases hm
  · rw [hp, hpn]
    refine ⟨(by rw [hpc]; intro h; cases h), fun j hj _ h => ?_⟩
    obtain ⟨m, hm, _⟩ := hW.post j hj h; rw [hpn] at hm; cases hm

/-- `obj_pin` succeeds -/
theorem wi_pin {s : Sys} (hB : Inv s) (hW : WI s) {i : Nat} (hi : i < s.procs.length) (s1 : Sys) (p' : Proc)
    (hpr : s1.procs = s.procs) (hp : s1.pin = some i) (ha : s1.attached = s.attached) (hl : s1.lockdir = s.lockdir)
    (hwas : (getP s i).pc = .objPin) (hpc : p'.pc = .mbxOpen) (hg : p'.progs = (getP s i).progs) :
    WI (setP s1 i p') := by
  have hin : (getP s i).pc.install = true := by rw [hwas]; rfl
  have hpn := hW.instPin i hi hin
  have oth : ∀ j, j < s.procs.length → j ≠ i → ∀ q : Prop, (getP s j).pc.install = true → q :=
    fun j hj hne q h => absurd ⟨h, hin⟩ (hB.single j i hj hi hne)
  refine wi_update hW hi s1 p' hpr ?_ ?_ ?_ ?_ ?_ ?_
  · exact ⟨(by rw [hpc]; intro h; cases h), fun j hj hne h => oth j hj hne _ h⟩
  · rw [hpc]; intro h; cases h
  · exact ⟨(by rw [hpc]; intro h; cases h), fun j hj hne h => oth j hj hne _ (by rw [h]; rfl)⟩
  · rw [hl]; exact ⟨(by rw [hpc]; intro h; cases h), fun j hj _ h => hW.lateDir j hj h⟩
  · intro m hm; rw [hp] at hm; cases hm; rw [ha]; exact Or.inl (hW.instAtt i hi hwas)
  · rw [hp]
    refine ⟨fun _ => ⟨i, rfl, ?_⟩, fun j hj _ h => ?_⟩
    · rw [hg]; exact hW.instProgs i hi (by rw [hwas]; rfl)
    · obtain ⟨m, hm, _⟩ := hW.post j hj h; rw [hpn] at hm; cases hm

/-- `detach` / `remove(programs)` by the last leaver: the lock directory is gone, so nobody is a member -/
theorem wi_late {s : Sys} (hB : Inv s) (hW : WI s) {i : Nat} (hi : i < s.procs.length) (s1 : Sys) (p' : Proc)
    (hpr : s1.procs = s.procs) (hl : s1.lockdir = s.lockdir)
    (hwas : (getP s i).pc.lateExit = true)
    (hpa : (s1.pin = s.pin ∧ s1.attached = none ∧ p'.pc = .removePin) ∨
      (s1.pin = none ∧ p'.pc = .mbxRemove)) : WI (setP s1 i p') := by
  have hd := hW.lateDir i hi hwas
  have nm : ∀ j, j < s.procs.length → ∀ q : Prop, (getP s j).pc.member = true → q := by
    intro j hj q h
    obtain ⟨ms, h1, _⟩ := hB.mem j hj h
    rw [hd] at h1; cases h1
  have hpc : p'.pc = .removePin ∨ p'.pc = .mbxRemove := by
    rcases hpa with ⟨_, _, h⟩ | ⟨_, h⟩
    · exact Or.inl h
    · exact Or.inr h
  refine wi_update hW hi s1 p' hpr ?_ ?_ ?_ ?_ ?_ ?_
  · refine ⟨?_, fun j hj _ h => nm j hj _ (install_member _ h)⟩
    rcases hpc with h | h <;> rw [h] <;> intro x <;> cases x
  · rcases hpc with h | h <;> rw [h] <;> intro x <;> cases x
  · refine ⟨?_, fun j hj _ h => nm j hj _ (by rw [h]; rfl)⟩
    rcases hpc with h | h <;> rw [h] <;> intro x <;> cases x
  · rw [hl]; exact ⟨fun _ => hd, fun j hj _ h => hW.lateDir j hj h⟩
  · intro m _; rw [hl]; exact Or.inr hd
  · refine ⟨?_, fun j hj _ h => nm j hj _ (post_member _ h)⟩
    rcases hpc with h | h <;> rw [h] <;> intro x <;> cases x

theorem wi_step {s : Sys} (hB : Inv s) (hW : WI s) (i : Nat) (hok : okStep s i = true) : WI (step s i) := by
  unfold step
  split
  case isFalse => exact hW
  case isTrue hi =>
    generalize hp : getP s i = p
    cases hpc : p.pc <;> simp only [stepStart, stepFiles, stepExit, hpc]
    all_goals (repeat' split)
    all_goals (try exact hW)
    all_goals (try (apply wi_local hW hi <;> first | rfl | (simp_all [emit, Pc.install, Pc.hasTable, Pc.lateExit, Pc.post]; done)))
    all_goals subst hp
    all_goals first
      | (exfalso; have := hW.instPin i hi (by rw [hpc]; rfl); simp_all; done)
      | (apply wi_attach hB hW hi <;> first | rfl | exact hpc)
      | (apply wi_pin hB hW hi <;> first | rfl | exact hpc)
      | (apply wi_late hB hW hi <;> first | rfl | (rw [hpc]; rfl) | exact Or.inl ⟨rfl, rfl, rfl⟩ | exact Or.inr ⟨rfl, rfl⟩)
      | skip
    all_goals
      (have hq : noneLate s = true ∧ s.pin = none := by
        simp only [okStep, hpc, Pc.startSec] at hok
        simp_all
       apply wi_fresh hW hi <;> first
         | rfl | exact hq.2 | exact nomem hB (by simp_all) | exact noneLate_spec hq.1)

theorem wi_run {s : Sys} (hB : Inv s) (hW : WI s) (sched : List Nat) (hq : Quiet s sched = true) :
    Inv (run s sched) ∧ WI (run s sched) := by
  induction sched generalizing s with
  | nil => exact ⟨hB, hW⟩
  | cons i r ih =>
    simp only [Quiet, Bool.and_eq_true] at hq
    exact ih (inv_step hB i) (wi_step hB hW i hq.1) hq.2

theorem wi_init (cfgs : List Cfg) (fm0 : Option (List Nat)) : WI (init cfgs fm0) := by
  have hpc : ∀ i, i < (init cfgs fm0).procs.length → (getP (init cfgs fm0) i).pc = .mkdtemp :=
    fun i hi => (getP_init cfgs fm0 i hi).1
  refine ⟨?_, ?_, ?_, ?_, ?_, ?_⟩
  · intro i hi h; rw [hpc i hi] at h; cases h
  · intro i hi h; rw [hpc i hi] at h; cases h
  · intro i hi h; rw [hpc i hi] at h; cases h
  · intro i hi h; rw [hpc i hi] at h; cases h
  · intro m h; cases h
  · intro i hi h; rw [hpc i hi] at h; cases h

/-- **C23, installed while running (partial)**: along every schedule (any number of participants, crashes
included) that never lets a participant perform an operation of its start section while a last leaver is
between its `rmdir` and the end of `remove(programs)`, and never lets a `rename` succeed while an old
programs file exists, every running participant finds a dispatcher attached, the program table pinned, and
both are the table it uses itself. -/
theorem installed_while_running_partial (cfgs : List Cfg) (fm0 : Option (List Nat)) (sched : List Nat)
    (hf : NoFault cfgs) (hq : Quiet (init cfgs fm0) sched = true) :
    InstalledWhileRunning (run (init cfgs fm0) sched) := by
  obtain ⟨hB, hW⟩ := wi_run (inv_init cfgs fm0 hf) (wi_init cfgs fm0) sched hq
  generalize run (init cfgs fm0) sched = s at hB hW
  intro i hi hr
  have hp : (getP s i).pc.post = true := by rw [hr]; rfl
  obtain ⟨m, hm, hg⟩ := hW.post i hi hp
  refine ⟨m, ?_, hm, hg⟩
  rcases hW.pinAtt m hm with h | h
  · exact h
  · obtain ⟨ms, h1, _⟩ := hB.mem i hi (post_member _ hp)
    rw [h] at h1; cases h1

/-- the hypothesis about old programs files is needed on its own: participant 0 installs; participant 1 joins
but both its `obj_get` come too early, it stays in its `except` path; participant 0 runs and leaves (its
`rmdir` fails: participant 1's file is still there, so dispatcher and pin stay); participant 1's clean-up then
empties the lock directory.  No last leaver is ever in its late exit.  Participant 2 renames over the empty
directory, participant 3 joins and picks up the *old* table, runs — and participant 2 removes the old
programs file. -/
def staleCfgs : List Cfg := [{}, { etDraws := [12288] }, {}, { etDraws := [12288], fmDraws := [3] }]
def staleSched : List Nat :=
  List.replicate 3 0 ++ List.replicate 8 1 ++ List.replicate 16 0 ++ [1] ++ List.replicate 3 2 ++
    List.replicate 14 3 ++ List.replicate 2 2

theorem installed_while_running_stale_refuted :
    ¬ InstalledWhileRunning (run (init staleCfgs none) staleSched) := by
  intro h
  have := installedB_sound _ h
  revert this
  decide +kernel

theorem ethertypesDistinctB_sound (s : Sys) (h : EthertypesDistinct s) : ethertypesDistinctB s = true := by
  unfold ethertypesDistinctB allPairs
  rw [List.all_eq_true]
  intro i hi
  rw [List.all_eq_true]
  intro j hj
  have hi' : i < s.procs.length := List.mem_range.mp hi
  have hj' : j < s.procs.length := List.mem_range.mp hj
  by_cases hij : i = j
  · simp [hij]
  · cases hmi : (getP s i).pc.member
    · simp [hmi]
    · cases hmj : (getP s j).pc.member
      · simp [hmj]
      · simp [hij, h i j hi' hj' hij hmi hmj]

/-- without `NoFault` even the ethertype clause fails: the installer's `except` path runs
`shutil.rmtree(lockdir)` and with it removes the member files of participants that joined meanwhile.
Participant 0's attach fails after participant 1 (ethertype 12288) joined; participant 2 starts a new
session; participant 1's second `obj_get` now succeeds and it runs without a member file; participant 3
draws 12288 and gets it. -/
def faultCfgs : List Cfg :=
  [{ attachFails := true }, { etDraws := [12288] }, {}, { etDraws := [12288], fmDraws := [3] }]
def faultSched : List Nat :=
  List.replicate 5 0 ++ List.replicate 7 1 ++ List.replicate 2 0 ++ List.replicate 7 2 ++
    List.replicate 10 1 ++ List.replicate 14 3

theorem ethertypes_distinct_fault_refuted :
    ¬ EthertypesDistinct (run (init faultCfgs none) faultSched) := by
  intro h
  have := ethertypesDistinctB_sound _ h
  revert this
  decide +kernel

/-! ### non-vacuity -/

/-- an orderly life cycle satisfies `Quiet`: 0 installs and runs, 1 joins and runs, 0 leaves (not last), 1
leaves as last leaver and tears everything down, then 2 starts a new session and runs -/
def orderlyCfgs : List Cfg := [{}, { etDraws := [12288], fmDraws := [2] }, { fmDraws := [5] }]
def orderlySched : List Nat :=
  List.replicate 16 0 ++ List.replicate 14 1 ++ List.replicate 3 0 ++ List.replicate 11 1 ++ List.replicate 14 2

example : NoFault orderlyCfgs ∧ Quiet (init orderlyCfgs none) orderlySched = true := by decide +kernel
example : (getP (run (init orderlyCfgs none) orderlySched) 2).pc = .running ∧
    (getP (run (init orderlyCfgs none) orderlySched) 1).pc = .done := by decide +kernel
/-- two participants run side by side with different ethertypes and different process numbers -/
def sideBySide : Sys := run (init orderlyCfgs none) (orderlySched.take 30)
example : (getP sideBySide 0).pc = .running ∧ (getP sideBySide 1).pc = .running ∧
    (getP sideBySide 0).et ≠ (getP sideBySide 1).et ∧
    (getP sideBySide 0).fmNo = 1 ∧ (getP sideBySide 1).fmNo = 2 := by decide +kernel
/-- the witness schedules violate exactly the excluded hypotheses -/
example : Quiet (init raceCfgs none) raceSched = false := by decide +kernel
example : Quiet (init staleCfgs none) staleSched = false := by decide +kernel
/-- a participant asking for more addresses than its range holds fails in the body and leaves -/
def greedy : Sys := run (init [{ nAddr := fmWindow / fmGroup }] none) (List.replicate 25 0)
example : (getP greedy 0).pc = .failed ∧ greedy.attached = none ∧ greedy.pin = none := by decide +kernel

end Ebv.C23
