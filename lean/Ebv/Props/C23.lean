import Ebv.Model.Parallel
/-! C23 — processes sharing an interface coordinate the dispatcher safely.

Clauses (state predicates of `Ebv.Parallel`, over every state reachable by any schedule of any number of
participants): `EthertypesDistinct`, `SingleInstaller`, `InstalledWhileRunning`, `FmmuWindowsDisjoint`. -/
namespace Ebv.C23
open Ebv.Parallel Ebv.Consts

/-- no injected environment fault (netlink attach works) -/
def NoFault (cfgs : List Cfg) : Prop := ∀ c ∈ cfgs, c.attachFails = false

/-! ### full-strength statements -/

def ethertypes_distinct_full : Prop :=
  ∀ (cfgs : List Cfg) (fm0 : Option (List Nat)) (sched : List Nat), NoFault cfgs →
    EthertypesDistinct (run (init cfgs fm0) sched)

def single_installer_full : Prop :=
  ∀ (cfgs : List Cfg) (fm0 : Option (List Nat)) (sched : List Nat), NoFault cfgs →
    SingleInstaller (run (init cfgs fm0) sched)

def installed_while_running : Prop :=
  ∀ (cfgs : List Cfg) (fm0 : Option (List Nat)) (sched : List Nat), NoFault cfgs →
    InstalledWhileRunning (run (init cfgs fm0) sched)

def fmmu_windows_disjoint : Prop :=
  ∀ (cfgs : List Cfg) (fm0 : Option (List Nat)) (sched : List Nat), NoFault cfgs →
    FmmuWindowsDisjoint (run (init cfgs fm0) sched)

/-! ### refutations on concrete witness schedules (the same cases as `findings/C23.json`) -/

theorem installedB_sound (s : Sys) (h : InstalledWhileRunning s) : installedB s = true := by
  unfold installedB
  rw [List.all_eq_true]
  intro i hi
  have hi' : i < s.procs.length := List.mem_range.mp hi
  by_cases hr : (getP s i).pc = .running
  · obtain ⟨m, ha, hp, hg⟩ := h i hi' hr
    simp [ha, hp, hg]
  · simp [hr]

theorem windowsDisjointB_sound (s : Sys) (h : FmmuWindowsDisjoint s) : windowsDisjointB s = true := by
  unfold windowsDisjointB allPairs
  rw [List.all_eq_true]
  intro i hi
  rw [List.all_eq_true]
  intro j hj
  have hi' : i < s.procs.length := List.mem_range.mp hi
  have hj' : j < s.procs.length := List.mem_range.mp hj
  by_cases hij : i = j
  · simp [hij]
  · by_cases hr : (getP s i).pc = .running ∧ (getP s j).pc = .running
    · simp [h i j hi' hj' hij hr.1 hr.2]
    · have : ((getP s i).pc == Pc.running && (getP s j).pc == Pc.running) = false := by
        simp only [Bool.and_eq_false_iff, beq_eq_false_iff_ne, ne_eq]
        by_cases h1 : (getP s i).pc = .running
        · right; intro h2; exact hr ⟨h1, h2⟩
        · left; exact h1
      simp [this]

/-- last leaver / new starter: participant 0 installs, runs, leaves, removes its member file and the lock
directory (14 operations); participant 1 then becomes installer, attaches, pins and runs (14 operations);
participant 0 continues its `finally` block with `detach` — of participant 1's dispatcher. -/
def raceCfgs : List Cfg := [{}, { fmDraws := [7] }]
def raceSched : List Nat := List.replicate 14 0 ++ List.replicate 14 1 ++ [0, 0]

theorem installed_while_running_refuted : ¬ installed_while_running := by
  intro h
  have := installedB_sound _ (h raceCfgs none raceSched (by decide))
  revert this
  decide

end Ebv.C23
