import Ebv.Props.C23
import Ebv.Model.FmmuLock
/-! C23, histories of the FMMU bitmap (`Ebv.FmmuLock`): any number of participants, each executing any
script of `FMMULock(...)` / `get_next_addr()` / `remove()` operations (allocate, release, allocate again,
two objects at once), interleaved call by call in any order, with participants killed at any point and any
earlier contents of the bitmap file:

* the windows of objects in use never overlap (`alloc_remove_interleaving_safe`),
* the addresses handed out lie in the object's own window (`hist_given_in_window`),
* the bitmap is exact: the bit of every allocated-and-not-yet-released object is set, and every set bit was set
  in the file found at the start or belongs to such an object (`hist_bitmap_exact`, `hist_bitmap_exact_fresh`),
* `remove` clears its own bit and nobody else's (`remove_preserves_others`, `remove_clears_own_bit`),
* without the lock around `remove`'s read-modify-write the first statement is false (`unlocked_remove_refuted`). -/
namespace Ebv.C23Hist
open Ebv.Consts Ebv.FmmuLock
open Ebv.Parallel (bitSet pwriteByte pwrite0 fmZero pickNo clearBit lastAddr winBase maxGroups disjoint)

/-! ### frame lemmas -/

@[simp] theorem setP_len (s : Sys) (i : Nat) (p : Proc) : (setP s i p).procs.length = s.procs.length := by
  simp [setP]

theorem getP_setP (s : Sys) (i j : Nat) (p : Proc) (hi : i < s.procs.length) :
    getP (setP s i p) j = if j = i then p else getP s j := by
  by_cases h : j = i
  · subst h; simp [getP, setP, List.getD, hi]
  · simp [h, getP, setP, List.getD, List.getElem?_set_ne (Ne.symm h)]

theorem getO_setO (s : Sys) (g a : Nat) (o : Obj) (hg : g < s.objs.length) :
    getO (setO s g o) a = if a = g then o else getO s a := by
  by_cases h : a = g
  · subst h; simp [getO, setO, List.getD, hg]
  · simp [h, getO, setO, List.getD, List.getElem?_set_ne (Ne.symm h)]

theorem getO_ge {s : Sys} {a : Nat} (h : s.objs.length ≤ a) : getO s a = {} := by
  simp [getO, List.getD_eq_getElem?_getD, List.getElem?_eq_none h]

theorem own_lt {s : Sys} {a : Nat} (h : (getO s a).own = true) : a < s.objs.length := by
  by_cases hl : a < s.objs.length
  · exact hl
  · rw [getO_ge (by omega)] at h; simp at h

theorem run_lt {s : Sys} {a : Nat} (h : (getO s a).run = true) : a < s.objs.length := by
  by_cases hl : a < s.objs.length
  · exact hl
  · rw [getO_ge (by omega)] at h; simp at h

/-- the objects after the constructor's `pwrite` appended a new one -/
theorem getO_append (s : Sys) (o : Obj) (f : Option (List Nat)) (a : Nat) :
    getO { s with fm := f, objs := s.objs ++ [o] } a = if a = s.objs.length then o else getO s a := by
  simp only [getO, List.getD_eq_getElem?_getD, List.getElem?_append]
  by_cases h1 : a < s.objs.length
  · have : a ≠ s.objs.length := by omega
    simp [h1, this]
  · by_cases h2 : a = s.objs.length
    · subst h2; simp
    · have h4 : a - s.objs.length ≠ 0 := by omega
      simp [h1, h2, h4]

/-- the objects after a participant was killed -/
theorem getO_kill (s : Sys) (i a : Nat) (l : Option Nat) :
    getO { s with fmLock := l, objs := s.objs.map fun o => if o.owner = i then { o with run := false } else o } a =
      if (getO s a).owner = i then { getO s a with run := false } else getO s a := by
  simp only [getO, List.getD_eq_getElem?_getD, List.getElem?_map]
  cases s.objs[a]? with
  | none => simp
  | some o => simp

/-! ### the invariant -/

def _root_.Ebv.FmmuLock.Pc.locked : Pc → Bool
  | .read | .fix | .trunc | .set | .unlock | .rread | .rclear | .runlock => true
  | _ => false

def _root_.Ebv.FmmuLock.Pc.fixing : Pc → Bool
  | .fix | .trunc => true
  | _ => false

def _root_.Ebv.FmmuLock.Pc.hasCur : Pc → Bool
  | .unlock | .rread | .rclear => true
  | _ => false

def _root_.Ebv.FmmuLock.Pc.stopping : Pc → Bool
  | .rread | .rclear => true
  | _ => false

/-- what the holder of the record lock knows (every clause is about a program counter inside a locked section) -/
structure Hold (s : Sys) (p : Proc) : Prop where
  bufSet : p.pc = .set → p.buf = (fmOf s).take fmSize ∧ fmSize ≤ (fmOf s).length
  short : p.pc = .fix → (fmOf s).length < fmSize
  zeroed : p.pc = .trunc → fmOf s = fmZero ∧ p.buf = fmZero
  noOwn : p.pc.fixing = true → ∀ a, (getO s a).own = false
  cur : p.pc.hasCur = true → (getO s p.cur).own = true
  bufClr : p.pc = .rclear → p.buf = [(fmOf s).getD ((getO s p.cur).no / 8) 0]
  curStop : p.pc.stopping = true → (getO s p.cur).run = false

/-- facts about the objects and the bitmap; `f0` = the bytes of the file found at the start -/
structure ObjFacts (f0 : List Nat) (s : Sys) : Prop where
  own : ∀ a, (getO s a).own = true →
    bitSet (fmOf s) (getO s a).no = true ∧ (getO s a).no < fmProcs ∧ fmSize ≤ (fmOf s).length
  dist : ∀ a b, a ≠ b → (getO s a).own = true → (getO s b).own = true → (getO s a).no ≠ (getO s b).no
  runOwn : ∀ a, (getO s a).run = true → (getO s a).own = true
  kle : ∀ a, (getO s a).k ≤ maxGroups
  exact : ∀ n, bitSet (fmOf s) n = true → bitSet f0 n = true ∨ ∃ a, (getO s a).own = true ∧ (getO s a).no = n

structure HInv (f0 : List Nat) (s : Sys) : Prop where
  obj : ObjFacts f0 s
  lock : ∀ i, i < s.procs.length → (getP s i).pc.locked = true → s.fmLock = some i
  hold : ∀ i, i < s.procs.length → Hold s (getP s i)

theorem hold_mono {s s1 : Sys} {p : Proc} (hf : fmOf s1 = fmOf s)
    (ho : ∀ a, (getO s1 a).own = (getO s a).own ∧ (getO s1 a).no = (getO s a).no ∧
      ((getO s1 a).run = true → (getO s a).run = true)) (h : Hold s p) : Hold s1 p := by
  refine ⟨?_, ?_, ?_, ?_, ?_, ?_, ?_⟩
  · rw [hf]; exact h.bufSet
  · rw [hf]; exact h.short
  · rw [hf]; exact h.zeroed
  · intro hx a; rw [(ho a).1]; exact h.noOwn hx a
  · intro hx; rw [(ho _).1]; exact h.cur hx
  · intro hx; rw [hf, (ho _).2.1]; exact h.bufClr hx
  · intro hx
    cases hr : (getO s1 p.cur).run
    · rfl
    · have := (ho _).2.2 hr; rw [h.curStop hx] at this; cases this

theorem hold_vac {s : Sys} {p : Proc} (h : p.pc.locked = false) : Hold s p := by
  refine ⟨?_, ?_, ?_, ?_, ?_, ?_, ?_⟩ <;> intro hx <;> exfalso <;> revert h hx <;> cases p.pc <;>
    simp [Pc.locked, Pc.fixing, Pc.hasCur, Pc.stopping]

/-- split a `Hold` goal into its clauses and discharge those that do not concern the program counter -/
macro "hold_intro" hpc:term : tactic =>
  `(tactic| (refine ⟨?_, ?_, ?_, ?_, ?_, ?_, ?_⟩ <;> intro hx <;>
      (try (exfalso; rw [$hpc:term] at hx; revert hx; decide))))

theorem hold_plain {s : Sys} {p : Proc} (hpc : p.pc = .read ∨ p.pc = .runlock) : Hold s p := by
  rcases hpc with hpc | hpc <;> hold_intro hpc

theorem hold_set {s : Sys} {p : Proc} (hpc : p.pc = .set)
    (h : p.buf = (fmOf s).take fmSize ∧ fmSize ≤ (fmOf s).length) : Hold s p := by
  hold_intro hpc
  exact h

theorem hold_fix {s : Sys} {p : Proc} (hpc : p.pc = .fix) (h : (fmOf s).length < fmSize)
    (hno : ∀ a, (getO s a).own = false) : Hold s p := by
  hold_intro hpc
  · exact h
  · exact hno

theorem hold_trunc {s : Sys} {p : Proc} (hpc : p.pc = .trunc) (h : fmOf s = fmZero ∧ p.buf = fmZero)
    (hno : ∀ a, (getO s a).own = false) : Hold s p := by
  hold_intro hpc
  · exact h
  · exact hno

theorem hold_unlock {s : Sys} {p : Proc} (hpc : p.pc = .unlock) (hc : (getO s p.cur).own = true) : Hold s p := by
  hold_intro hpc
  exact hc

theorem hold_rread {s : Sys} {p : Proc} (hpc : p.pc = .rread) (hc : (getO s p.cur).own = true)
    (hs : (getO s p.cur).run = false) : Hold s p := by
  hold_intro hpc
  · exact hc
  · exact hs

theorem hold_rclear {s : Sys} {p : Proc} (hpc : p.pc = .rclear) (hc : (getO s p.cur).own = true)
    (hb : p.buf = [(fmOf s).getD ((getO s p.cur).no / 8) 0]) (hs : (getO s p.cur).run = false) : Hold s p := by
  hold_intro hpc
  · exact hc
  · exact hb
  · exact hs

/-! ### assembling the invariant after an operation of participant `i` -/

theorem hinv_mk {f0 : List Nat} {s : Sys} {i : Nat} (hi : i < s.procs.length) (s1 : Sys) (p' : Proc)
    (hpr : s1.procs = s.procs) (hobj : ObjFacts f0 s1)
    (hlock : (p'.pc.locked = true → s1.fmLock = some i) ∧
      ∀ j, j < s.procs.length → j ≠ i → (getP s j).pc.locked = true → s1.fmLock = some j)
    (hhold : Hold s1 p' ∧ ∀ j, j < s.procs.length → j ≠ i → Hold s1 (getP s j)) :
    HInv f0 (setP s1 i p') := by
  have hi1 : i < s1.procs.length := by rw [hpr]; exact hi
  have hg : ∀ j, getP (setP s1 i p') j = if j = i then p' else getP s j := by
    intro j; rw [getP_setP _ _ _ _ hi1]; split
    · rfl
    · simp [getP, hpr]
  have hs : ∀ q, Hold s1 q → Hold (setP s1 i p') q :=
    fun q h => hold_mono (s := s1) (s1 := setP s1 i p') rfl (fun _ => ⟨rfl, rfl, id⟩) h
  refine ⟨⟨hobj.own, hobj.dist, hobj.runOwn, hobj.kle, hobj.exact⟩, ?_, ?_⟩
  · intro j hj hl
    simp only [setP_len, hpr] at hj
    rw [hg] at hl
    show s1.fmLock = some j
    split at hl
    · next h => rw [h]; exact hlock.1 hl
    · next h => exact hlock.2 j hj h hl
  · intro j hj
    simp only [setP_len, hpr] at hj
    rw [hg]
    split
    · exact hs _ hhold.1
    · next h => exact hs _ (hhold.2 j hj h)

/-- the objects keep their bits and numbers, the file is the same -/
theorem objs_mono {f0 : List Nat} {s s1 : Sys} (hO : ObjFacts f0 s) (hf : fmOf s1 = fmOf s)
    (ho : ∀ a, (getO s1 a).own = (getO s a).own ∧ (getO s1 a).no = (getO s a).no ∧
      ((getO s1 a).run = true → (getO s a).own = true) ∧ (getO s1 a).k ≤ maxGroups) : ObjFacts f0 s1 := by
  refine ⟨?_, ?_, ?_, ?_, ?_⟩
  · intro a ha; rw [(ho a).1] at ha; rw [hf, (ho a).2.1]; exact hO.own a ha
  · intro a b hab ha hb; rw [(ho a).1] at ha; rw [(ho b).1] at hb; rw [(ho a).2.1, (ho b).2.1]
    exact hO.dist a b hab ha hb
  · intro a ha; rw [(ho a).1]; exact (ho a).2.2.1 ha
  · intro a; exact (ho a).2.2.2
  · intro n hn; rw [hf] at hn
    rcases hO.exact n hn with h | ⟨a, h1, h2⟩
    · exact Or.inl h
    · exact Or.inr ⟨a, by rw [(ho a).1]; exact h1, by rw [(ho a).2.1]; exact h2⟩

theorem bitSet_fmZero (n : Nat) : bitSet fmZero n = false := by
  simp only [bitSet, fmZero, List.getD_eq_getElem?_getD, List.getElem?_replicate]
  split <;> simp

/-- the file has just been zeroed and nobody owns a number -/
theorem objs_zero {f0 : List Nat} {s s1 : Sys} (hO : ObjFacts f0 s) (hz : fmOf s1 = fmZero)
    (ho : ∀ a, getO s1 a = getO s a) (hno : ∀ a, (getO s a).own = false) : ObjFacts f0 s1 := by
  refine ⟨?_, ?_, ?_, ?_, ?_⟩
  · intro a ha; rw [ho, hno] at ha; cases ha
  · intro a b _ ha; rw [ho, hno] at ha; cases ha
  · intro a ha; rw [ho] at ha ⊢; exact hO.runOwn a ha
  · intro a; rw [ho]; exact hO.kle a
  · intro n hn; rw [hz, bitSet_fmZero] at hn; cases hn

theorem others_unlocked {f0 : List Nat} {s : Sys} (hI : HInv f0 s) {i : Nat} (hi : i < s.procs.length)
    (hl : (getP s i).pc.locked = true) : ∀ j, j < s.procs.length → j ≠ i → (getP s j).pc.locked = false := by
  intro j hj hne
  cases h : (getP s j).pc.locked
  · rfl
  · exact absurd (Option.some.inj ((hI.lock j hj h).symm.trans (hI.lock i hi hl))) hne

theorem nobody_locked {f0 : List Nat} {s : Sys} (hI : HInv f0 s) {i : Nat} (h : canLock s.fmLock i = true) :
    ∀ j, j < s.procs.length → j ≠ i → (getP s j).pc.locked = false := by
  intro j hj hne
  cases hl : (getP s j).pc.locked
  · rfl
  · have := hI.lock j hj hl
    simp only [canLock, this] at h
    exact absurd (by simpa using h) hne

/-- an operation of the lock holder, or the one that takes the free lock: nobody else is inside a locked section -/
theorem hinv_excl {f0 : List Nat} {s : Sys} {i : Nat} (hi : i < s.procs.length) (s1 : Sys) (p' : Proc)
    (hpr : s1.procs = s.procs) (hobj : ObjFacts f0 s1)
    (hno : ∀ j, j < s.procs.length → j ≠ i → (getP s j).pc.locked = false)
    (hl : p'.pc.locked = true → s1.fmLock = some i) (hh : Hold s1 p') : HInv f0 (setP s1 i p') :=
  hinv_mk hi s1 p' hpr hobj
    ⟨hl, fun j hj hne h => (by rw [hno j hj hne] at h; cases h)⟩
    ⟨hh, fun j hj hne => hold_vac (hno j hj hne)⟩

/-- an operation outside the locked sections that leaves file, lock, bits and numbers alone -/
theorem hinv_local {f0 : List Nat} {s : Sys} (hI : HInv f0 s) {i : Nat} (hi : i < s.procs.length) (s1 : Sys) (p' : Proc)
    (hpr : s1.procs = s.procs) (hf : fmOf s1 = fmOf s) (hlk : s1.fmLock = s.fmLock)
    (ho : ∀ a, (getO s1 a).own = (getO s a).own ∧ (getO s1 a).no = (getO s a).no ∧
      ((getO s1 a).run = true → (getO s a).run = true) ∧ (getO s1 a).k ≤ maxGroups)
    (hpc : p'.pc.locked = false) : HInv f0 (setP s1 i p') :=
  hinv_mk hi s1 p' hpr
    (objs_mono hI.obj hf fun a => ⟨(ho a).1, (ho a).2.1, fun h => hI.obj.runOwn a ((ho a).2.2.1 h), (ho a).2.2.2⟩)
    ⟨fun h => (by rw [hpc] at h; cases h), fun j hj _ h => (by rw [hlk]; exact hI.lock j hj h)⟩
    ⟨hold_vac hpc, fun j hj _ => hold_mono hf (fun a => ⟨(ho a).1, (ho a).2.1, (ho a).2.2.1⟩) (hI.hold j hj)⟩

theorem same_objs {f0 : List Nat} {s : Sys} (hI : HInv f0 s) :
    ∀ a, (getO s a).own = (getO s a).own ∧ (getO s a).no = (getO s a).no ∧
      ((getO s a).run = true → (getO s a).run = true) ∧ (getO s a).k ≤ maxGroups :=
  fun a => ⟨rfl, rfl, id, hI.obj.kle a⟩

theorem liveObj_run {s : Sys} {p : Proc} {k g : Nat} (h : liveObj s p k = some g) : (getO s g).run = true := by
  unfold liveObj at h
  split at h
  · split at h
    · next hr => cases h; exact hr
    · cases h
  · cases h

theorem rmNo_eq {o : Obj} (h : o.k ≤ maxGroups) : rmNo o = o.no := by
  simp only [rmNo, lastAddr, maxGroups, fmWindow, fmGroup] at h ⊢
  omega

/-- changing `k` or `run` of one object -/
theorem setO_fields {s : Sys} {g : Nat} {o' : Obj} (hg : g < s.objs.length)
    (h1 : o'.own = (getO s g).own) (h2 : o'.no = (getO s g).no) (a : Nat) :
    (getO (setO s g o') a).own = (getO s a).own ∧ (getO (setO s g o') a).no = (getO s a).no := by
  rw [getO_setO _ _ _ _ hg]
  split
  · next h => subst h; exact ⟨h1, h2⟩
  · exact ⟨rfl, rfl⟩

/-- the constructor's `pwrite`: a free bit is set, a new object owns it -/
theorem objs_set {f0 : List Nat} {s s1 : Sys} (hO : ObjFacts f0 s) {n : Nat} (o : Obj)
    (ho : o.own = true ∧ o.no = n ∧ o.run = false ∧ o.k = 0)
    (hn : n < fmProcs) (hfree : bitSet (fmOf s) n = false) (hlen : fmSize ≤ (fmOf s).length)
    (hbit : ∀ m, bitSet (fmOf s1) m = (bitSet (fmOf s) m || (m / 8 == n / 8 && m % 8 == n % 8)))
    (hlen1 : (fmOf s1).length = (fmOf s).length)
    (hgo : ∀ a, getO s1 a = if a = s.objs.length then o else getO s a) : ObjFacts f0 s1 := by
  have hold : ∀ a, (getO s a).own = true → a ≠ s.objs.length := fun a h => Nat.ne_of_lt (own_lt h)
  have hne : ∀ b, (getO s b).own = true → (getO s b).no ≠ n := by
    intro b hb e
    have := (hO.own b hb).1
    rw [e, hfree] at this; cases this
  refine ⟨?_, ?_, ?_, ?_, ?_⟩
  · intro a ha
    rw [hgo] at ha ⊢
    by_cases h : a = s.objs.length
    · simp only [h, if_true]
      rw [ho.2.1, hbit, hlen1]
      exact ⟨by simp, hn, hlen⟩
    · simp only [h, if_false] at ha ⊢
      obtain ⟨h1, h2, h3⟩ := hO.own a ha
      rw [hbit, h1, hlen1]
      exact ⟨by simp, h2, h3⟩
  · intro a b hab ha hb
    rw [hgo] at ha hb ⊢; rw [hgo]
    by_cases h1 : a = s.objs.length <;> by_cases h2 : b = s.objs.length <;>
      simp only [h1, h2, if_true, if_false] at ha hb ⊢
    · exact absurd (h1.trans h2.symm) hab
    · rw [ho.2.1]; exact fun e => hne b hb e.symm
    · rw [ho.2.1]; exact hne a ha
    · exact hO.dist a b hab ha hb
  · intro a ha
    rw [hgo] at ha ⊢
    by_cases h : a = s.objs.length
    · simp only [h, if_true] at ha; rw [ho.2.2.1] at ha; cases ha
    · simp only [h, if_false] at ha ⊢; exact hO.runOwn a ha
  · intro a
    rw [hgo]
    by_cases h : a = s.objs.length
    · simp only [h, if_true]; rw [ho.2.2.2]; exact Nat.zero_le _
    · simp only [h, if_false]; exact hO.kle a
  · intro m hm
    rw [hbit, Bool.or_eq_true] at hm
    rcases hm with hm | hm
    · rcases hO.exact m hm with h | ⟨a, h1, h2⟩
      · exact Or.inl h
      · refine Or.inr ⟨a, ?_, ?_⟩ <;> rw [hgo] <;> simp only [hold a h1, if_false] <;> assumption
    · simp only [Bool.and_eq_true, beq_iff_eq] at hm
      have : m = n := by omega
      refine Or.inr ⟨s.objs.length, ?_, ?_⟩ <;> rw [hgo] <;> simp only [if_true]
      · exact ho.1
      · rw [ho.2.1, this]

/-- the `pwrite` of `remove`: the own bit is cleared, every other owner keeps its bit -/
theorem objs_clear {f0 : List Nat} {s s1 : Sys} (hO : ObjFacts f0 s) {g : Nat}
    (hown : (getO s g).own = true) (hrun : (getO s g).run = false)
    (hbit : ∀ m, bitSet (fmOf s1) m =
      (bitSet (fmOf s) m && !(m / 8 == (getO s g).no / 8 && m % 8 == (getO s g).no % 8)))
    (hlen1 : (fmOf s1).length = (fmOf s).length)
    (hgo : ∀ a, getO s1 a = if a = g then { getO s g with own := false } else getO s a) : ObjFacts f0 s1 := by
  have hkeep : ∀ m, m ≠ (getO s g).no → bitSet (fmOf s1) m = bitSet (fmOf s) m := by
    intro m hm
    rw [hbit]
    have : (m / 8 == (getO s g).no / 8 && m % 8 == (getO s g).no % 8) = false := by
      cases h : (m / 8 == (getO s g).no / 8 && m % 8 == (getO s g).no % 8)
      · rfl
      · simp only [Bool.and_eq_true, beq_iff_eq] at h; omega
    rw [this]; simp
  have hgone : bitSet (fmOf s1) (getO s g).no = false := by rw [hbit]; simp
  refine ⟨?_, ?_, ?_, ?_, ?_⟩
  · intro a ha
    rw [hgo] at ha ⊢
    by_cases h : a = g
    · simp only [h, if_true] at ha; cases ha
    · simp only [h, if_false] at ha ⊢
      obtain ⟨h1, h2, h3⟩ := hO.own a ha
      rw [hkeep _ (hO.dist a g h ha hown), hlen1]
      exact ⟨h1, h2, h3⟩
  · intro a b hab ha hb
    rw [hgo] at ha hb ⊢; rw [hgo]
    by_cases h1 : a = g
    · simp only [h1, if_true] at ha; cases ha
    · by_cases h2 : b = g
      · simp only [h2, if_true] at hb; cases hb
      · simp only [h1, h2, if_false] at ha hb ⊢
        exact hO.dist a b hab ha hb
  · intro a ha
    rw [hgo] at ha ⊢
    by_cases h : a = g
    · simp only [h, if_true] at ha
      have : (getO s g).run = true := ha
      rw [hrun] at this; cases this
    · simp only [h, if_false] at ha ⊢; exact hO.runOwn a ha
  · intro a
    rw [hgo]
    by_cases h : a = g
    · simp only [h, if_true]; exact hO.kle g
    · simp only [h, if_false]; exact hO.kle a
  · intro m hm
    by_cases hmg : m = (getO s g).no
    · rw [hmg, hgone] at hm; cases hm
    · rw [hkeep m hmg] at hm
      rcases hO.exact m hm with h | ⟨a, h1, h2⟩
      · exact Or.inl h
      · have hag : a ≠ g := by intro e; rw [e] at h2; exact hmg h2.symm
        refine Or.inr ⟨a, ?_, ?_⟩ <;> rw [hgo] <;> simp only [hag, if_false] <;> assumption

/-! ### one operation -/

theorem hinv_idle {f0 : List Nat} {s : Sys} (hI : HInv f0 s) {i : Nat} (hi : i < s.procs.length)
    (hpc : (getP s i).pc = .idle) : HInv f0 (stepIdle s i (getP s i)) := by
  have hnl : (getP s i).pc.locked = false := by rw [hpc]; rfl
  unfold stepIdle
  split
  · exact hI
  · -- FMMULock(...): os.open
    exact hinv_local hI hi _ _ rfl rfl rfl (fun a => same_objs hI a) rfl
  · -- get_next_addr
    next k r _ =>
    cases hlo : liveObj s (getP s i) k with
    | none => exact hinv_local hI hi s _ rfl rfl rfl (same_objs hI) hnl
    | some g =>
      have hr := liveObj_run hlo
      have hg := run_lt hr
      simp only [doAddr]
      split
      · next hlt =>
        refine hinv_local hI hi _ _ rfl rfl rfl (fun a => ?_) hnl
        have h12 := setO_fields (s := s) (o' := { getO s g with k := (getO s g).k + 1 }) hg rfl rfl a
        refine ⟨h12.1, h12.2, ?_, ?_⟩
        · rw [getO_setO _ _ _ _ hg]
          split
          · next h => subst h; exact fun _ => hr
          · exact id
        · rw [getO_setO _ _ _ _ hg]
          split
          · show (getO s g).k + 1 ≤ maxGroups
            omega
          · exact hI.obj.kle a
      · exact hinv_local hI hi s _ rfl rfl rfl (same_objs hI) hnl
  · -- remove(): lockf
    next k r _ =>
    cases hlo : liveObj s (getP s i) k with
    | none => exact hinv_local hI hi s _ rfl rfl rfl (same_objs hI) hnl
    | some g =>
      have hr := liveObj_run hlo
      have hg := run_lt hr
      simp only [doRm]
      split
      · next hc =>
        have hgo : ∀ a, getO (setO { s with fmLock := some i } g { getO s g with run := false }) a =
            if a = g then { getO s g with run := false } else getO s a := fun a => getO_setO _ _ _ _ hg
        refine hinv_excl hi _ _ rfl ?_ (nobody_locked hI hc) (fun _ => rfl) ?_
        · refine objs_mono hI.obj rfl (fun a => ?_)
          rw [hgo]
          split
          · next h => subst h; exact ⟨rfl, rfl, fun h => by simp at h, hI.obj.kle _⟩
          · exact ⟨rfl, rfl, hI.obj.runOwn a, hI.obj.kle a⟩
        · refine hold_rread rfl ?_ ?_
          · show (getO _ g).own = true
            rw [hgo]; simp only [if_true]; exact hI.obj.runOwn g hr
          · show (getO _ g).run = false
            rw [hgo]; simp only [if_true]
      · exact hI

theorem plain_objs {f0 : List Nat} {s : Sys} (hO : ObjFacts f0 s) :
    ∀ a, (getO s a).own = (getO s a).own ∧ (getO s a).no = (getO s a).no ∧
      ((getO s a).run = true → (getO s a).own = true) ∧ (getO s a).k ≤ maxGroups :=
  fun a => ⟨rfl, rfl, hO.runOwn a, hO.kle a⟩

theorem hinv_busy {f0 : List Nat} {s : Sys} (hI : HInv f0 s) {i : Nat} (hi : i < s.procs.length) :
    HInv f0 (stepBusy s i (getP s i)) := by
  have hH := hI.hold i hi
  unfold stepBusy
  split
  · -- lockf(LOCK_EX) of the constructor
    split
    · next hc =>
      exact hinv_excl hi _ _ rfl (objs_mono hI.obj rfl fun a => plain_objs hI.obj a) (nobody_locked hI hc)
        (fun _ => rfl) (hold_plain (Or.inl rfl))
    · exact hI
  · -- pread 64
    next hp =>
    have hl : (getP s i).pc.locked = true := by rw [hp]; rfl
    have hno := others_unlocked hI hi hl
    have hlk := hI.lock i hi hl
    dsimp only
    by_cases hlen : ((s.fm.getD []).take fmSize).length = fmSize
    · rw [if_pos hlen]
      exact hinv_excl hi s _ rfl hI.obj hno (fun _ => hlk) (hold_set rfl ⟨rfl, C23.take_len_eq hlen⟩)
    · rw [if_neg hlen]
      have hsh : (fmOf s).length < fmSize := C23.take_len_ne hlen
      refine hinv_excl hi s _ rfl hI.obj hno (fun _ => hlk) (hold_fix rfl hsh fun a => ?_)
      cases h : (getO s a).own
      · rfl
      · have := (hI.obj.own a h).2.2; omega
  · -- pwrite zeros
    next hp =>
    have hl : (getP s i).pc.locked = true := by rw [hp]; rfl
    have hno := others_unlocked hI hi hl
    have hlk := hI.lock i hi hl
    have hnoOwn := hH.noOwn (by rw [hp]; rfl)
    have hz : fmOf { s with fm := some (pwrite0 (s.fm.getD []) fmZero) } = fmZero := C23.pwrite0_zero (hH.short hp)
    exact hinv_excl hi _ _ rfl (objs_zero hI.obj hz (fun _ => rfl) hnoOwn) hno (fun _ => hlk)
      (hold_trunc rfl ⟨hz, rfl⟩ hnoOwn)
  · -- ftruncate
    next hp =>
    have hl : (getP s i).pc.locked = true := by rw [hp]; rfl
    have hno := others_unlocked hI hi hl
    have hlk := hI.lock i hi hl
    have hnoOwn := hH.noOwn (by rw [hp]; rfl)
    obtain ⟨hz0, hbz⟩ := hH.zeroed hp
    have hz : fmOf { s with fm := some ((s.fm.getD []).take fmSize) } = fmZero := by
      show (fmOf s).take fmSize = fmZero
      rw [hz0]; simp [fmZero]
    refine hinv_excl hi _ _ rfl (objs_zero hI.obj hz (fun _ => rfl) hnoOwn) hno (fun _ => hlk) (hold_set rfl ⟨?_, ?_⟩)
    · show (getP s i).buf = _
      rw [hz, hbz]; simp [fmZero]
    · rw [hz]; simp [fmZero]
  · -- pwrite of the chosen bit
    next hp =>
    have hl : (getP s i).pc.locked = true := by rw [hp]; rfl
    have hno := others_unlocked hI hi hl
    have hlk := hI.lock i hi hl
    cases hpick : pickNo (getP s i).buf (getP s i).draws with
    | none => exact hI
    | some n =>
      simp only [doSet]
      obtain ⟨hbuf, hlen⟩ := hH.bufSet hp
      obtain ⟨hn, hfree⟩ := C23.pickNo_lt hpick
      rw [hbuf, C23.bitSet_take hn] at hfree
      have hk := C23.no_byte hlen hn
      have hk' : n / 8 < fmSize := by simp only [fmSize, fmProcs] at hn ⊢; omega
      have hv : (getP s i).buf.getD (n / 8) 0 = (fmOf s).getD (n / 8) 0 := by rw [hbuf, C23.getD_take hk']
      rw [hv]
      refine hinv_excl hi _ _ rfl ?_ hno (fun _ => hlk) (hold_unlock rfl ?_)
      · refine objs_set hI.obj (n := n) { owner := i, no := n, own := true } ⟨rfl, rfl, rfl, rfl⟩ hn hfree hlen
          (fun m => C23.bitSet_setBit hk m) (C23.pwriteByte_len hk) (fun a => getO_append s _ _ a)
      · show (getO _ s.objs.length).own = true
        rw [getO_append]; simp only [if_true]
  · -- lockf(LOCK_UN): the constructor returns
    next hp =>
    have hl : (getP s i).pc.locked = true := by rw [hp]; rfl
    have hno := others_unlocked hI hi hl
    have hc := hH.cur (by rw [hp]; rfl)
    have hg := own_lt hc
    refine hinv_excl hi _ _ rfl ?_ hno (fun h => by simp [Pc.locked] at h) (hold_vac rfl)
    have hgo : ∀ a, getO (setO { s with fmLock := none } (getP s i).cur { getO s (getP s i).cur with run := true }) a =
        if a = (getP s i).cur then { getO s (getP s i).cur with run := true } else getO s a :=
      fun a => getO_setO _ _ _ _ hg
    refine objs_mono hI.obj rfl (fun a => ?_)
    rw [hgo]
    split
    · next h => subst h; exact ⟨rfl, rfl, fun _ => hc, hI.obj.kle _⟩
    · exact plain_objs hI.obj a
  · -- pread 1
    next hp =>
    have hl : (getP s i).pc.locked = true := by rw [hp]; rfl
    have hno := others_unlocked hI hi hl
    have hlk := hI.lock i hi hl
    have hc := hH.cur (by rw [hp]; rfl)
    have hs := hH.curStop (by rw [hp]; rfl)
    dsimp only
    rw [rmNo_eq (hI.obj.kle _)]
    split
    · exact hinv_excl hi s _ rfl hI.obj hno (fun _ => hlk) (hold_rclear rfl hc rfl hs)
    · exact hinv_excl hi s _ rfl hI.obj hno (fun _ => hlk) (hold_plain (Or.inr rfl))
  · -- pwrite 1
    next hp =>
    have hl : (getP s i).pc.locked = true := by rw [hp]; rfl
    have hno := others_unlocked hI hi hl
    have hlk := hI.lock i hi hl
    have hc := hH.cur (by rw [hp]; rfl)
    have hs := hH.curStop (by rw [hp]; rfl)
    have hb := hH.bufClr hp
    have hg := own_lt hc
    obtain ⟨_, hnc, hlenc⟩ := hI.obj.own _ hc
    have hk := C23.no_byte hlenc hnc
    dsimp only
    rw [rmNo_eq (hI.obj.kle _), hb]
    simp only [List.getD_cons_zero]
    refine hinv_excl hi _ _ rfl ?_ hno (fun _ => hlk) (hold_plain (Or.inr rfl))
    exact objs_clear hI.obj (g := (getP s i).cur) hc hs (fun m => C23.bitSet_clearBit hk m) (C23.pwriteByte_len hk)
      (fun a => getO_setO _ _ _ _ hg)
  · -- lockf(LOCK_UN) of remove
    next hp =>
    have hl : (getP s i).pc.locked = true := by rw [hp]; rfl
    have hno := others_unlocked hI hi hl
    exact hinv_excl hi _ _ rfl (objs_mono hI.obj rfl fun a => plain_objs hI.obj a) hno
      (fun h => by simp [Pc.locked] at h) (hold_vac rfl)
  · exact hI

theorem hinv_step {f0 : List Nat} {s : Sys} (hI : HInv f0 s) (i : Nat) : HInv f0 (step s i) := by
  unfold step
  split
  · next hi =>
    dsimp only
    split
    · next hpc => exact hinv_idle hI hi hpc
    · exact hinv_busy hI hi
  · exact hI

def killed (s : Sys) (i : Nat) : Sys :=
  { s with fmLock := if s.fmLock = some i then none else s.fmLock,
           objs := s.objs.map fun o => if o.owner = i then { o with run := false } else o }

theorem getO_killed (s : Sys) (i a : Nat) :
    getO (killed s i) a = if (getO s a).owner = i then { getO s a with run := false } else getO s a :=
  getO_kill s i a _

/-- a participant is killed: its record lock is dropped, its objects are no longer in use, its bits stay -/
theorem hinv_kill {f0 : List Nat} {s : Sys} (hI : HInv f0 s) (i : Nat) : HInv f0 (kill s i) := by
  unfold kill
  split
  · next hi =>
    show HInv f0 (setP (killed s i) i _)
    have hf : ∀ a, (getO (killed s i) a).own = (getO s a).own ∧ (getO (killed s i) a).no = (getO s a).no ∧
        ((getO (killed s i) a).run = true → (getO s a).run = true) ∧ (getO (killed s i) a).k ≤ maxGroups := by
      intro a
      rw [getO_killed]
      split
      · exact ⟨rfl, rfl, fun h => by simp at h, hI.obj.kle a⟩
      · exact ⟨rfl, rfl, id, hI.obj.kle a⟩
    refine hinv_mk hi _ _ rfl
      (objs_mono (s := s) (s1 := killed s i) hI.obj rfl fun a => ⟨(hf a).1, (hf a).2.1, fun h => hI.obj.runOwn a ((hf a).2.2.1 h), (hf a).2.2.2⟩)
      ⟨fun h => by simp [Pc.locked] at h, fun j hj hne h => ?_⟩
      ⟨hold_vac rfl, fun j hj _ => hold_mono (s := s) (s1 := killed s i) rfl (fun a => ⟨(hf a).1, (hf a).2.1, (hf a).2.2.1⟩) (hI.hold j hj)⟩
    have := hI.lock j hj h
    show (if s.fmLock = some i then none else s.fmLock) = some j
    rw [this]
    have : ¬ (some j = some i) := fun e => hne (Option.some.inj e)
    simp [this]
  · exact hI

theorem hinv_run {f0 : List Nat} {s : Sys} (hI : HInv f0 s) (evs : List Ev) : HInv f0 (run s evs) := by
  induction evs generalizing s with
  | nil => exact hI
  | cons e r ih =>
    cases e with
    | step i => exact ih (hinv_step hI i)
    | kill i => exact ih (hinv_kill hI i)

theorem getO_init (scripts : List (List Op)) (fm0 : Option (List Nat)) (a : Nat) : getO (init scripts fm0) a = {} := by
  simp [getO, init]

theorem getP_init (scripts : List (List Op)) (fm0 : Option (List Nat)) (i : Nat) :
    (getP (init scripts fm0) i).pc = .idle := by
  simp only [getP, init, List.getD_eq_getElem?_getD, List.getElem?_map]
  cases scripts[i]? <;> rfl

theorem hinv_init (scripts : List (List Op)) (fm0 : Option (List Nat)) : HInv (fm0.getD []) (init scripts fm0) := by
  refine ⟨⟨?_, ?_, ?_, ?_, ?_⟩, ?_, ?_⟩
  · intro a h; rw [getO_init] at h; simp at h
  · intro a b _ h; rw [getO_init] at h; simp at h
  · intro a h; rw [getO_init] at h; simp at h
  · intro a; rw [getO_init]; exact Nat.zero_le _
  · intro n h; exact Or.inl h
  · intro i _ h; rw [getP_init] at h; cases h
  · intro i _; exact hold_vac (by rw [getP_init]; rfl)

/-! ### the theorems -/

/-- **C23, histories of the bitmap**: for any number of participants, any scripts of allocations,
`get_next_addr` calls and releases (restarts, several objects per participant), any call-by-call
interleaving, any kills and any earlier contents of the bitmap file, the windows of the objects in use
(constructor returned, `remove` not begun, owner alive) are pairwise disjoint. -/
theorem alloc_remove_interleaving_safe (scripts : List (List Op)) (fm0 : Option (List Nat)) (evs : List Ev) :
    WindowsDisjoint (run (init scripts fm0) evs) := by
  have hI := hinv_run (hinv_init scripts fm0) evs
  generalize run (init scripts fm0) evs = s at hI ⊢
  intro a b hab hra hrb
  have hd := hI.obj.dist a b hab (hI.obj.runOwn a hra) (hI.obj.runOwn b hrb)
  have hca := hI.obj.kle a
  have hcb := hI.obj.kle b
  simp only [disjoint, winLo, winLen, winBase, Bool.or_eq_true]
  simp only [maxGroups, fmWindow, fmGroup] at hca hcb ⊢
  rcases Nat.lt_or_gt_of_ne hd with h | h
  · left; exact decide_eq_true (by omega)
  · right; exact decide_eq_true (by omega)

/-- every address `get_next_addr` returned lies, with its whole block, in the object's own window and carries its number -/
theorem hist_given_in_window (scripts : List (List Op)) (fm0 : Option (List Nat)) (evs : List Ev) (a x : Nat)
    (hx : x ∈ givenAddrs (getO (run (init scripts fm0) evs) a)) :
    winLo (getO (run (init scripts fm0) evs) a) ≤ x ∧
    x + fmGroup ≤ winLo (getO (run (init scripts fm0) evs) a) + winLen (getO (run (init scripts fm0) evs) a) ∧
    x / fmWindow = (getO (run (init scripts fm0) evs) a).no := by
  have hI := hinv_run (hinv_init scripts fm0) evs
  generalize run (init scripts fm0) evs = s at hI hx ⊢
  have hc := hI.obj.kle a
  simp only [givenAddrs, List.mem_map, List.mem_range] at hx
  obtain ⟨j, hj, rfl⟩ := hx
  simp only [winLo, winLen, winBase, lastAddr]
  simp only [maxGroups, fmWindow, fmGroup] at hc ⊢
  exact ⟨by omega, by omega, by omega⟩

/-- the bitmap is exact at every moment: the bit of every object that has allocated and not yet released is
set, two such objects have different numbers, and every set bit was already set in the file found at the start
or belongs to such an object -/
theorem hist_bitmap_exact (scripts : List (List Op)) (fm0 : Option (List Nat)) (evs : List Ev) :
    let s := run (init scripts fm0) evs
    (∀ a, (getO s a).own = true → bitSet (fmOf s) (getO s a).no = true) ∧
    (∀ a b, a ≠ b → (getO s a).own = true → (getO s b).own = true → (getO s a).no ≠ (getO s b).no) ∧
    (∀ n, bitSet (fmOf s) n = true → bitSet (fm0.getD []) n = true ∨ ∃ a, (getO s a).own = true ∧ (getO s a).no = n) := by
  intro s
  have hI := hinv_run (hinv_init scripts fm0) evs
  exact ⟨fun a h => (hI.obj.own a h).1, hI.obj.dist, hI.obj.exact⟩

theorem bitSet_nil (n : Nat) : bitSet [] n = false := by simp [bitSet]

/-- starting without a bitmap file: a bit is set iff an object that allocated and has not yet released owns that number -/
theorem hist_bitmap_exact_fresh (scripts : List (List Op)) (evs : List Ev) (n : Nat) :
    bitSet (fmOf (run (init scripts none) evs)) n = true ↔
      ∃ a, (getO (run (init scripts none) evs) a).own = true ∧ (getO (run (init scripts none) evs) a).no = n := by
  have h := hist_bitmap_exact scripts none evs
  constructor
  · intro hn
    rcases h.2.2 n hn with h0 | h1
    · rw [show (none : Option (List Nat)).getD [] = [] from rfl, bitSet_nil] at h0; cases h0
    · exact h1
  · rintro ⟨a, h1, h2⟩
    rw [← h2]; exact h.1 a h1

/-! ### `remove` touches its own bit only -/

def Reachable (s : Sys) : Prop := ∃ scripts fm0 evs, s = run (init scripts fm0) evs

theorem reachable_inv {s : Sys} (h : Reachable s) : ∃ f0, HInv f0 s := by
  obtain ⟨scripts, fm0, evs, rfl⟩ := h
  exact ⟨_, hinv_run (hinv_init scripts fm0) evs⟩

/-- the `pwrite` of `remove` by participant `i`: what it does to the objects and to the file -/
theorem step_rclear {f0 : List Nat} {s : Sys} (hI : HInv f0 s) {i : Nat} (hi : i < s.procs.length)
    (hpc : (getP s i).pc = .rclear) :
    (∀ a, getO (step s i) a =
      if a = (getP s i).cur then { getO s (getP s i).cur with own := false } else getO s a) ∧
    fmOf (step s i) = pwriteByte (fmOf s) ((getO s (getP s i).cur).no / 8)
      (clearBit ((fmOf s).getD ((getO s (getP s i).cur).no / 8) 0) ((getO s (getP s i).cur).no % 8)) := by
  have hH := hI.hold i hi
  have hc := hH.cur (by rw [hpc]; rfl)
  have hb := hH.bufClr hpc
  have hg := own_lt hc
  have hne : (getP s i).pc ≠ .idle := by rw [hpc]; decide
  have hs : step s i = stepBusy s i (getP s i) := by
    unfold step; rw [if_pos hi]; dsimp only; rw [if_neg hne]
  rw [hs]
  simp only [stepBusy, hpc]
  rw [rmNo_eq (hI.obj.kle _), hb]
  simp only [List.getD_cons_zero]
  exact ⟨fun a => getO_setO _ _ _ _ hg, rfl⟩

/-- **`remove` preserves the others**: when a participant's `remove` writes the byte back, every other object
that has allocated and not yet released keeps its number and its bit (whatever happened between `remove`'s read
and this write, in any reachable state) -/
theorem remove_preserves_others {s : Sys} (hr : Reachable s) {i a : Nat} (hi : i < s.procs.length)
    (hpc : (getP s i).pc = .rclear) (ha : a ≠ (getP s i).cur) (hown : (getO s a).own = true) :
    (getO (step s i) a).own = true ∧ (getO (step s i) a).no = (getO s a).no ∧
      bitSet (fmOf (step s i)) (getO s a).no = true := by
  obtain ⟨f0, hI⟩ := reachable_inv hr
  have hg := (step_rclear hI hi hpc).1 a
  rw [if_neg ha] at hg
  have hI' := hinv_step hI i
  have h1 : (getO (step s i) a).own = true := by rw [hg]; exact hown
  refine ⟨h1, by rw [hg], ?_⟩
  have := (hI'.obj.own a h1).1
  rw [hg] at this
  exact this

/-- … and clears its own bit: afterwards the number is free again, whatever the object did before -/
theorem remove_clears_own_bit {s : Sys} (hr : Reachable s) {i : Nat} (hi : i < s.procs.length)
    (hpc : (getP s i).pc = .rclear) :
    bitSet (fmOf (step s i)) (getO s (getP s i).cur).no = false ∧
      (getO (step s i) (getP s i).cur).own = false := by
  obtain ⟨f0, hI⟩ := reachable_inv hr
  obtain ⟨hgo, hfm⟩ := step_rclear hI hi hpc
  have hc := (hI.hold i hi).cur (by rw [hpc]; rfl)
  obtain ⟨_, hn, hlen⟩ := hI.obj.own _ hc
  refine ⟨?_, by rw [hgo]; simp⟩
  rw [hfm, C23.bitSet_clearBit (C23.no_byte hlen hn)]
  simp

/-! ### without the lock around `remove`'s read-modify-write the windows can overlap -/

theorem windowsDisjointB_sound (s : Sys) (h : WindowsDisjoint s) : windowsDisjointB s = true := by
  unfold windowsDisjointB
  rw [List.all_eq_true]
  intro a _
  rw [List.all_eq_true]
  intro b _
  by_cases hab : a = b
  · simp [hab]
  · cases hra : (getO s a).run
    · simp
    · cases hrb : (getO s b).run
      · simp
      · simp [h a b hab hra hrb]

/-- participant 0 allocates number 9 and releases it; between the `pread` and the `pwrite` of its unlocked
`remove` participant 1 allocates number 10 (same byte) and keeps running; the stale byte written back clears
bit 10; participant 2 then draws 10 and gets it -/
def racyScripts : List (List Op) := [[.new [9], .rm 0], [.new [10]], [.new [10, 11]]]
def racySched : List Nat :=
  List.replicate 7 0 ++ [0] ++ List.replicate 5 1 ++ [0, 0] ++ List.replicate 5 2

theorem unlocked_remove_refuted : ¬ WindowsDisjoint (runNoLockRm (init racyScripts none) racySched) := by
  intro h
  have := windowsDisjointB_sound _ h
  revert this
  decide +kernel

/-! ### non-vacuity -/

/-- under the real (locked) `remove` the same participants: 1 has to wait for 0, 2 is given 11 -/
def lockedRacy : Sys := run (init racyScripts none) ((racySched ++ [0] ++ List.replicate 6 1 ++ List.replicate 6 2).map .step)
example : ((lockedRacy.objs.map fun o => (o.no, o.run)) = [(9, false), (10, true), (11, true)]) ∧
    bitSet (fmOf lockedRacy) 9 = false ∧ bitSet (fmOf lockedRacy) 10 = true := by decide +kernel

/-- a restart: allocate 9, use it, release it, allocate again with the same draw: 9 is handed out again -/
def restart : Sys :=
  run (init [[.new [9], .addr 0, .rm 0, .new [9], .addr 1]] none) ((List.replicate 18 0).map .step)
example : (restart.objs.map fun o => (o.no, o.k, o.own, o.run)) = [(9, 1, false, false), (9, 1, true, true)] := by
  decide +kernel

/-- two objects in one participant while a second participant allocates and a third is killed inside its constructor -/
def twoObjs : Sys :=
  run (init [[.new [9], .new [9, 12]], [.new [9, 12, 13]], [.new [14]]] none)
    ((List.replicate 12 0 ++ List.replicate 4 2).map .step ++ [.kill 2] ++ (List.replicate 5 1).map .step)
example : (twoObjs.objs.map fun o => (o.owner, o.no, o.own, o.run)) =
    [(0, 9, true, true), (0, 12, true, true), (2, 14, true, false), (1, 13, true, true)] ∧
    twoObjs.fmLock = none := by decide +kernel

end Ebv.C23Hist
