import Ebv.Props.C20
/-! C20, mappings of one terminal started concurrently (`Ebv.Fmmu.cstep`: `map_fmmu` cut at every await).

The holders of an FMMU — mappings that began and whose `finally` has not run yet, wherever they are suspended — satisfy the
invariant of the sequential machine after **every** event of **every** interleaving, for every number of FMMUs.  The
proof is a simulation: every event is at most one `step` on `CSt.st`. -/
namespace Ebv.C20
open Ebv.Fmmu Ebv.Consts

structure CInv (c : CSt) : Prop where
  inv : Inv c.st
  aligned : c.phase.length = c.st.live.length
  fresh : ∀ p ∈ c.phase, p.1 < c.next

theorem cinv_init (n : Nat) : CInv (cinit n) :=
  ⟨inv_init n, by simp [cinit, init], by simp [cinit]⟩

theorem step_enter_cases (cfg : Cfg) (s : St) (w : Bool) (l : Nat) :
    ((step cfg s (.enter w l false)).1 = s ∧ ∃ e, (step cfg s (.enter w l false)).2.1 = .failed e) ∨
    (∃ i : Int, (step cfg s (.enter w l false)).2.1 = .entered i ∧
      (step cfg s (.enter w l false)).1.live = s.live ++ [⟨i, l, w⟩] ∧
      (step cfg s (.enter w l false)).2.2 = [activateWr cfg i l w]) := by
  rcases enter_spec s.table w l with ⟨_, he⟩ | ⟨i, _, _, _, he⟩
  · left; simp [step, stepEnter, enterResult, he]
  · right; exact ⟨i, by simp [step, stepEnter, enterResult, he]⟩

theorem step_exit_live (cfg : Cfg) (s : St) (k : Nat) (mode : ExitMode) (m : Live) (hk : s.live[k]? = some m) :
    (step cfg s (.exit k mode)).1.live = s.live.eraseIdx k := by
  simp [step, stepExit, exitResult, hk]

theorem release_inv (cfg : Cfg) (c : CSt) (k : Nat) (h : CInv c) (hk : k < c.st.live.length) : CInv (release cfg c k) := by
  obtain ⟨m, hm⟩ : ∃ m, c.st.live[k]? = some m := ⟨_, List.getElem?_eq_getElem hk⟩
  refine ⟨step_inv cfg c.st _ h.inv, ?_, ?_⟩
  · simp only [release]
    rw [step_exit_live cfg c.st k .exc m hm, List.length_eraseIdx, List.length_eraseIdx, h.aligned]
  · intro p hp
    exact h.fresh p (List.mem_of_mem_eraseIdx hp)

theorem holder_some (c : CSt) (k : Nat) (p : Nat × Phase) (m : Live) (h : holder c k = some (p, m)) :
    c.phase[k]? = some p ∧ c.st.live[k]? = some m := by
  unfold holder at h
  cases h1 : c.phase[k]? with
  | none => simp [h1] at h
  | some p' =>
    cases h2 : c.st.live[k]? with
    | none => simp [h1, h2] at h
    | some m' => simp [h1, h2] at h; exact ⟨by rw [h.1], by rw [h.2]⟩

theorem set_phase_inv (c : CSt) (k id : Nat) (ph ph' : Phase) (h : CInv c) (hk : c.phase[k]? = some (id, ph)) :
    CInv { c with phase := c.phase.set k (id, ph') } := by
  refine ⟨h.inv, by simpa using h.aligned, ?_⟩
  intro p hp
  rcases List.mem_or_eq_of_mem_set hp with hp | rfl
  · exact h.fresh p hp
  · exact h.fresh (id, ph) (List.mem_of_getElem? hk)

/-- every event of every interleaving preserves the invariant -/
theorem cstep_inv (cfg : Cfg) (c : CSt) (e : Ev) (h : CInv c) : CInv (cstep cfg c e).1 := by
  cases e with
  | «begin» w l =>
    simp only [cstep]
    rcases step_enter_cases cfg c.st w l with ⟨h1, e, h2⟩ | ⟨i, h2, h3, _⟩
    · simp only [beginResult, h2]
      exact ⟨h.inv, h.aligned, fun p hp => Nat.lt_succ_of_lt (h.fresh p hp)⟩
    · simp only [beginResult, h2]
      refine ⟨step_inv cfg c.st _ h.inv, by simp [h3, h.aligned], ?_⟩
      intro p hp
      simp only [List.mem_append, List.mem_singleton] at hp
      rcases hp with hp | rfl
      · exact Nat.lt_succ_of_lt (h.fresh p hp)
      · exact Nat.lt_succ_self _
  | ack id ok =>
    simp only [cstep]
    cases hh : holder c (posOf c id) with
    | none => simpa [ackResult] using h
    | some pm =>
      obtain ⟨⟨id', ph⟩, m⟩ := pm
      obtain ⟨hp, hm⟩ := holder_some c _ _ _ hh
      have hk : posOf c id < c.st.live.length := (List.getElem?_eq_some_iff.1 hm).1
      cases ph with
      | entering =>
        cases ok with
        | true => simpa [ackResult] using set_phase_inv c _ id' .entering .body h hp
        | false => simpa [ackResult] using release_inv cfg c _ h hk
      | body => simpa [ackResult] using h
      | closing => simpa [ackResult] using release_inv cfg c _ h hk
  | leave id exc =>
    simp only [cstep]
    cases hh : holder c (posOf c id) with
    | none => simpa [leaveResult] using h
    | some pm =>
      obtain ⟨⟨id', ph⟩, m⟩ := pm
      obtain ⟨hp, hm⟩ := holder_some c _ _ _ hh
      have hk : posOf c id < c.st.live.length := (List.getElem?_eq_some_iff.1 hm).1
      cases ph with
      | entering => simpa [leaveResult] using h
      | closing => simpa [leaveResult] using h
      | body =>
        cases exc with
        | true => simpa [leaveResult] using release_inv cfg c _ h hk
        | false => simpa [leaveResult] using set_phase_inv c _ id' .body .closing h hp

theorem crun_inv (cfg : Cfg) (es : List Ev) (c : CSt) (h : CInv c) : CInv (crun cfg c es) := by
  induction es generalizing c with
  | nil => exact h
  | cons e es ih => exact ih _ (cstep_inv cfg c e h)

theorem cstep_length (cfg : Cfg) (c : CSt) (e : Ev) (h : CInv c) : (cstep cfg c e).1.st.table.length = c.st.table.length := by
  have hs : ∀ op, (step cfg c.st op).1.table.length = c.st.table.length := fun op => step_length cfg c.st op h.inv
  cases e with
  | «begin» w l =>
    simp only [cstep]
    rcases step_enter_cases cfg c.st w l with ⟨h1, e, h2⟩ | ⟨i, h2, _, _⟩
    · simp [beginResult, h2]
    · simp [beginResult, h2, hs]
  | ack id ok =>
    simp only [cstep]
    cases hh : holder c (posOf c id) with
    | none => simp [ackResult]
    | some pm =>
      obtain ⟨⟨id', ph⟩, m⟩ := pm
      cases ph <;> cases ok <;> simp [ackResult, release, hs]
  | leave id exc =>
    simp only [cstep]
    cases hh : holder c (posOf c id) with
    | none => simp [leaveResult]
    | some pm =>
      obtain ⟨⟨id', ph⟩, m⟩ := pm
      cases ph <;> cases exc <;> simp [leaveResult, release, hs]

theorem crun_length (cfg : Cfg) (es : List Ev) (c : CSt) (h : CInv c) : (crun cfg c es).st.table.length = c.st.table.length := by
  induction es generalizing c with
  | nil => rfl
  | cons e es ih =>
    simp only [crun]
    rw [ih _ (cstep_inv cfg c e h), cstep_length cfg c e h]

/-! ### the property under every interleaving -/

variable (n : Nat) (cfg : Cfg) (es : List Ev)

/-- **mappings that hold an FMMU — entering, in their body or closing, in any interleaving — hold pairwise different ones** -/
theorem conc_holders_distinct : (crun cfg (cinit n) es).st.live.Pairwise (fun a b => a.index ≠ b.index) :=
  (crun_inv cfg es _ (cinv_init n)).inv.distinct

/-- each holder's FMMU is one of the terminal's `n` and the slot holds the holder's own logical address -/
theorem conc_holders_own : ∀ m ∈ (crun cfg (cinit n) es).st.live,
    ∃ i : Nat, i < n ∧ m.index = (i : Int) ∧ (crun cfg (cinit n) es).st.table[i]? = some (some m.logical) := by
  intro m hm
  obtain ⟨i, h1, h2⟩ := (crun_inv cfg es _ (cinv_init n)).inv.owns m hm
  refine ⟨i, ?_, h1, h2⟩
  have hl : (crun cfg (cinit n) es).st.table.length = n := by
    rw [crun_length cfg es _ (cinv_init n)]; simp [cinit, init]
  rcases Nat.lt_or_ge i n with h' | h'
  · exact h'
  · rw [List.getElem?_eq_none (by rw [hl]; exact h')] at h2; simp at h2

/-- no FMMU stays taken without a holder -/
theorem conc_no_leak : ∀ (i l : Nat), (crun cfg (cinit n) es).st.table[i]? = some (some l) →
    ∃ m ∈ (crun cfg (cinit n) es).st.live, m.index = (i : Int) :=
  (crun_inv cfg es _ (cinv_init n)).inv.noLeak

/-- the mappings whose body is running are among the holders: they too hold pairwise different FMMUs -/
theorem conc_body_distinct : (crun cfg (cinit n) es).inBody.Pairwise (fun a b => a.index ≠ b.index) := by
  have hd := conc_holders_distinct n cfg es
  have hsub : ((crun cfg (cinit n) es).inBody).Sublist (crun cfg (cinit n) es).st.live := by
    unfold CSt.inBody
    generalize (crun cfg (cinit n) es).phase = ps
    generalize (crun cfg (cinit n) es).st.live = ls
    induction ps generalizing ls with
    | nil => simp
    | cons p ps ih =>
      cases ls with
      | nil => simp
      | cons m ls =>
        simp only [List.zip_cons_cons, List.filter_cons]
        split
        · simpa using (ih ls).cons_cons m
        · exact (ih ls).cons m
  exact hd.sublist hsub

/-- **a mapping that begins while every FMMU of its range is held fails and changes nothing** — also while the holders
are still suspended in their activation writes -/
theorem conc_full_fails (c : CSt) (w : Bool) (l : Nat)
    (h : ∀ i, i < top c.st.table.length w → c.st.table[i]? ≠ some none) :
    cstep cfg c (.begin w l) = ({ c with next := c.next + 1 }, .done (.failed .valueError), []) := by
  simp [cstep, full_fails_step cfg c.st w l false h, beginResult]

/-- a mapping that begins while an FMMU of its range is free records it before it is suspended -/
theorem conc_begin_records (c : CSt) (w : Bool) (l : Nat) (i : Nat) (hi : i < top c.st.table.length w)
    (hfree : c.st.table[i]? = some none) (hmax : ∀ j, i < j → j < top c.st.table.length w → c.st.table[j]? ≠ some none) :
    (cstep cfg c (.begin w l)).2 = (.waiting, [activateWr cfg i l w]) ∧
    (cstep cfg c (.begin w l)).1.st.table = c.st.table.set i (some l) ∧
    (cstep cfg c (.begin w l)).1.st.live = c.st.live ++ [⟨i, l, w⟩] := by
  have he := free_succeeds c.st.table w l i hi hfree hmax
  simp [cstep, step, stepEnter, enterResult, he, beginResult]

/-! ### the sequential operations are the interleavings without overlap -/

theorem posOf_fresh (c : CSt) (h : CInv c) (ph : Phase) : (c.phase ++ [(c.next, ph)]).findIdx (·.1 == c.next) = c.phase.length := by
  rw [List.findIdx_append]
  have : c.phase.findIdx (·.1 == c.next) = c.phase.length := by
    rw [List.findIdx_eq_length]
    intro p hp
    have := h.fresh p hp
    simp; omega
  simp [this]

/-- the state after a `begin` that found FMMU `i` free -/
def begun (c : CSt) (i : Nat) (l : Nat) (w : Bool) : CSt :=
  { st := { table := c.st.table.set i (some l), live := c.st.live ++ [⟨i, l, w⟩] },
    phase := c.phase ++ [(c.next, .entering)], next := c.next + 1 }

/-- `begin` followed at once by its `ack` is the sequential `enter` -/
theorem cstep_seq_enter (c : CSt) (h : CInv c) (w : Bool) (l : Nat) (ok : Bool) :
    (cstep cfg (cstep cfg c (.begin w l)).1 (.ack c.next ok)).1.st = (step cfg c.st (.enter w l (!ok))).1 := by
  rcases enter_spec c.st.table w l with ⟨_, he⟩ | ⟨i, hi, hf, _, he⟩
  · have hb : cstep cfg c (.begin w l) = ({ c with next := c.next + 1 }, .done (.failed .valueError), []) := by
      simp [cstep, step, stepEnter, enterResult, he, beginResult]
    have hpos : ∀ p ∈ c.phase, (p.1 == c.next) = false := by
      intro p hp; have := h.fresh p hp; simp; omega
    have hn : holder { c with next := c.next + 1 } (posOf { c with next := c.next + 1 } c.next) = none := by
      have : posOf { c with next := c.next + 1 } c.next = c.phase.length := by
        simp only [posOf]; rw [List.findIdx_eq_length]; exact hpos
      simp [holder, this]
    rw [hb]
    simp only [cstep, hn, ackResult]
    simp [step, stepEnter, enterResult, he]
  · have hlt : i < c.st.table.length := by have := top_le c.st.table.length w; omega
    have hb : (cstep cfg c (.begin w l)).1 = begun c i l w := by
      simp [cstep, step, stepEnter, enterResult, he, beginResult, begun]
    rw [hb]
    have hpos := posOf_fresh c h .entering
    have hh : holder (begun c i l w) c.phase.length = some ((c.next, .entering), ⟨i, l, w⟩) := by
      simp [holder, begun, h.aligned]
    have hp2 : posOf (begun c i l w) c.next = c.phase.length := hpos
    simp only [cstep, hp2, hh, ackResult]
    cases ok with
    | true => simp [step, stepEnter, enterResult, he, begun]
    | false =>
      simp only [Bool.false_eq_true, if_false, release, Bool.not_false, begun]
      have hl : (c.st.live ++ [(⟨i, l, w⟩ : Live)])[c.phase.length]? = some ⟨i, l, w⟩ := by simp [h.aligned]
      have he2 : (c.st.live ++ [(⟨i, l, w⟩ : Live)]).eraseIdx c.st.live.length = c.st.live := by
        rw [List.eraseIdx_append_of_length_le (Nat.le_refl _)]; simp
      simp [step, stepExit, exitResult, stepEnter, enterResult, he, h.aligned, he2]

theorem posOf_set (c : CSt) (id id' : Nat) (ph ph' : Phase) (hp : c.phase[posOf c id]? = some (id', ph)) :
    id' = id ∧ posOf { c with phase := c.phase.set (posOf c id) (id', ph') } id = posOf c id := by
  obtain ⟨hlt, hget⟩ := List.getElem?_eq_some_iff.1 hp
  have hk := (List.findIdx_eq (p := (·.1 == id)) hlt).1 rfl
  have hget' : c.phase[posOf c id] = (id', ph) := hget
  have hid : id' = id := by
    have := hk.1
    rw [hget'] at this
    simpa using this
  refine ⟨hid, ?_⟩
  have hlt' : posOf c id < (c.phase.set (posOf c id) (id', ph')).length := by rw [List.length_set]; exact hlt
  show List.findIdx (·.1 == id) (c.phase.set (posOf c id) (id', ph')) = posOf c id
  rw [List.findIdx_eq hlt']
  refine ⟨by simp [hid], ?_⟩
  intro j hj
  have hne : posOf c id ≠ j := Nat.ne_of_gt hj
  have hj2 : j < c.phase.length := Nat.lt_trans hj hlt
  have := hk.2 j hj
  simpa [List.getElem_set_ne hne] using this

/-- `leave` (body ended normally) followed at once by its `ack` is the sequential `exit` of that mapping, in every mode
(the modes differ in outcome and register writes, not in what `finally` does) -/
theorem cstep_seq_exit (c : CSt) (id id' : Nat) (m : Live) (ok : Bool) (mode : ExitMode)
    (hh : holder c (posOf c id) = some ((id', .body), m)) :
    (cstep cfg (cstep cfg c (.leave id false)).1 (.ack id ok)).1.st = (step cfg c.st (.exit (posOf c id) mode)).1 := by
  obtain ⟨hp, hm⟩ := holder_some c _ _ _ hh
  obtain ⟨_, hpos⟩ := posOf_set c id id' .body .closing hp
  have hl : (cstep cfg c (.leave id false)).1 = { c with phase := c.phase.set (posOf c id) (id', .closing) } := by
    simp [cstep, hh, leaveResult]
  rw [hl]
  have hlt := (List.getElem?_eq_some_iff.1 hp).1
  have hh2 : holder { c with phase := c.phase.set (posOf c id) (id', .closing) } (posOf c id) = some ((id', .closing), m) := by
    simp [holder, hm, hlt]
  simp only [cstep, hpos, hh2, ackResult, release]
  simp [step, stepExit, exitResult, hm]

/-- `leave` by an exception is the sequential `exit` at once -/
theorem cstep_seq_exit_exc (c : CSt) (id id' : Nat) (m : Live) (mode : ExitMode)
    (hh : holder c (posOf c id) = some ((id', .body), m)) :
    (cstep cfg c (.leave id true)).1.st = (step cfg c.st (.exit (posOf c id) mode)).1 := by
  obtain ⟨_, hm⟩ := holder_some c _ _ _ hh
  simp only [cstep, hh, leaveResult, release]
  simp [step, stepExit, exitResult, hm]

/-! ### non-vacuity: two output mappings of a 2-FMMU terminal started together, and what recording the slot only after the
write came back would do -/

example : (ctrace cfg0 (cinit 2) [.begin true 100, .begin true 200, .ack 1 true, .ack 0 true, .begin true 300,
      .leave 0 false, .ack 0 true, .begin true 400]).map (fun r => (r.1, r.2.2)) =
    [(.waiting, [none, some 100]), (.waiting, [some 200, some 100]), (.done (.entered 0), [some 200, some 100]),
     (.done (.entered 1), [some 200, some 100]), (.done (.failed .valueError), [some 200, some 100]),
     (.waiting, [some 200, some 100]), (.done .exited, [some 200, none]), (.waiting, [some 200, some 400])] := by decide

/-- the slot must be recorded before the first await: on a table that was not updated the second mapping chooses the very
FMMU the first one is still programming, and a one-FMMU terminal would serve a second mapping instead of refusing it -/
theorem late_record_shares :
    (slotChoice [none, none] true).toOption = some 1 ∧
    (enter [none, none] true 100).toOption.map (·.1) = some 1 ∧ (enter [none, none] true 200).toOption.map (·.1) = some 1 ∧
    (enter [none, some 100] true 200).toOption.map (·.1) = some 0 ∧
    (enter [none] false 100).toOption.map (·.1) = some 0 ∧ (enter [some 100] false 200).toOption = none := by
  decide

end Ebv.C20
