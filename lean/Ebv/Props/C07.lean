import Ebv.Model.PktVar
/-! C07 — packet variables access exactly their declared bytes and byte order. -/
namespace Ebv.C07
open Ebv.PktVar Ebv.Bytes

theorem ok_cases (f : Fmt) (h : f.ok = true) : f.n = 1 ∨ f.n = 2 ∨ f.n = 4 ∨ f.n = 8 := by
  simp [Fmt.ok] at h; omega

/-- the value `struct.unpack` gives, as the destination register holds it (two's complement, 64 or 32 bits) -/
def want (f : Fmt) (long : Bool) (bs : List UInt8) : Nat :=
  (unpackZ f bs % (2 ^ (if long then 64 else 32) : Int)).toNat

theorem decBE_lt (bs : List UInt8) : decBE bs < 256 ^ bs.length := by
  have := decLE_lt bs.reverse
  simpa [decBE] using this

theorem decBE_one (bs : List UInt8) (h : bs.length = 1) : decBE bs = decLE bs := by
  match bs, h with
  | [b], _ => rfl

/-- the sign-extension shift pair, arithmetically -/
def sext (n w raw : Nat) : Nat := if 2 ^ (8 * n - 1) ≤ raw then raw + 2 ^ w - 2 ^ (8 * n) else raw

theorem sext_low (n w raw : Nat) (hn : n = 1 ∨ n = 2 ∨ n = 4 ∨ n = 8) (hw : w = 32 ∨ w = 64) (h8 : 8 * n ≤ w)
    (hr : raw < 256 ^ n) : sext n w raw % 2 ^ (8 * n) = raw := by
  unfold sext
  rcases hn with rfl | rfl | rfl | rfl <;> rcases hw with rfl | rfl <;>
    simp only [Nat.reduceMul, Nat.reducePow, Nat.reduceSub] at * <;> split <;> omega

theorem sext_signed (n w raw : Nat) (hn : n = 1 ∨ n = 2 ∨ n = 4 ∨ n = 8) (hw : w = 32 ∨ w = 64) (h8 : 8 * n ≤ w)
    (hr : raw < 256 ^ n) : sext n w raw % 2 ^ w = (toSigned n raw % (2 ^ w : Int)).toNat := by
  unfold sext toSigned
  rcases hn with rfl | rfl | rfl | rfl <;> rcases hw with rfl | rfl <;>
    simp only [Nat.reduceMul, Nat.reducePow, Nat.reduceSub, Int.reducePow] at * <;> split <;> split <;> omega

theorem unsigned_mod (w raw : Nat) : raw % 2 ^ w = ((raw : Int) % (2 ^ w : Int)).toNat := by
  have h2 : ((raw : Int) % (2 ^ w : Int)) = ((raw % 2 ^ w : Nat) : Int) := by
    rw [Int.natCast_emod]; simp
  rw [h2, Int.toNat_natCast]

/-- wider-or-equal signed formats: reduction modulo the destination width forgets the sign -/
theorem signed_wide (n w raw : Nat) (hn : n = 4 ∨ n = 8) (hw : w = 32 ∨ w = 64) (h8 : w ≤ 8 * n) :
    raw % 2 ^ w = (toSigned n raw % (2 ^ w : Int)).toNat := by
  unfold toSigned
  rcases hn with rfl | rfl <;> rcases hw with rfl | rfl <;>
    simp only [Nat.reduceMul, Nat.reducePow, Nat.reduceSub, Int.reducePow] at * <;> split <;> omega

/-- the model's sign extension agrees with `struct`'s two's complement reading, modulo the destination width -/
theorem sext_want (f : Fmt) (long : Bool) (u : Nat) (hf : f.ok = true) (hu : u < 256 ^ f.n) :
    PktVar.sext f long u % 2 ^ (if long then 64 else 32) =
      ((if f.signed then toSigned f.n u else (u : Int)) % (2 ^ (if long then 64 else 32) : Int)).toNat := by
  have hn := ok_cases f hf
  generalize hw : (if long then 64 else 32) = w
  have hw' : w = 32 ∨ w = 64 := by cases long <;> simp at hw <;> omega
  unfold PktVar.sext
  simp only [hw]
  generalize hE : (f.signed && (decide (f.n ≤ 2) || decide (f.n = 4) && long)) = ext
  cases hs : f.signed
  · have he : ext = false := by rw [← hE, hs]; rfl
    subst he
    simp only [Bool.false_and, Bool.false_eq_true, ↓reduceIte]
    exact unsigned_mod w u
  · simp only [↓reduceIte]
    cases he : ext
    · -- no shift pair: n = 8, or n = 4 into a 32-bit destination
      simp only [Bool.false_and, Bool.false_eq_true, ↓reduceIte]
      have : (f.n = 4 ∨ f.n = 8) ∧ w ≤ 8 * f.n := by
        subst he
        simp only [hs, Bool.true_and, Bool.or_eq_false_iff, decide_eq_false_iff_not, Nat.not_le,
          Bool.and_eq_false_iff] at hE
        cases hlg : long <;> simp [hlg] at hE hw <;> omega
      exact signed_wide f.n w u this.1 hw' this.2
    · have h8 : 8 * f.n ≤ w := by
        subst he
        simp only [Bool.and_eq_true, Bool.or_eq_true, decide_eq_true_eq] at hE
        rcases hE.2 with h | ⟨h, h'⟩
        · rcases hw' with rfl | rfl <;> omega
        · subst h'; simp at hw; omega
      have := sext_signed f.n w u hn hw' h8 hu
      simpa [C07.sext] using this

/-- **reads**: for every format (B H I Q b h i q, native and explicit byte orders) and every byte string of the
format's length, the bits of the destination register that the destination view defines hold exactly
`struct.unpack`'s value (full strength since the `fix:` commit that extends the sign after the byte swap). -/
theorem read_exact (f : Fmt) (long : Bool) (bs : List UInt8) (hf : f.ok = true) (hl : bs.length = f.n) :
    readReg f long bs % 2 ^ (if long then 64 else 32) = want f long bs := by
  have hraw : decLE bs < 256 ^ f.n := hl ▸ decLE_lt bs
  have hbe : decBE bs < 256 ^ f.n := hl ▸ decBE_lt bs
  have hbs : encLE f.n (decLE bs) = bs := hl ▸ encLE_decLE bs
  have h1 : f.n = 1 → decBE bs = decLE bs := fun h => decBE_one bs (hl.trans h)
  have hm : decLE bs % 2 ^ (8 * f.n) = decLE bs := Nat.mod_eq_of_lt (by rw [Nat.pow_mul]; exact hraw)
  unfold readReg want unpackZ
  cases ho : f.order
  · exact sext_want f long _ hf hraw
  · simp only [hm, ite_self]; exact sext_want f long _ hf hraw
  · by_cases hn1 : f.n = 1
    · simp only [hn1, ↓reduceIte]; rw [h1 hn1]; rw [← hn1] at *; exact sext_want f long _ hf hraw
    · simp only [hn1, ↓reduceIte, hm, hbs]; exact sext_want f long _ hf hbe

/-- the pre-fix order of operations (sign extension before the swap), for which the statement fails -/
def read_old_full : Prop := ∀ (f : Fmt) (long : Bool) (bs : List UInt8), f.ok = true → bs.length = f.n →
  readRegOld f long bs % 2 ^ (if long then 64 else 32) = want f long bs

theorem read_old_refuted : ¬ read_old_full := by
  intro h
  have := h ⟨2, true, .be⟩ true [0xff, 0xfe] (by decide) (by decide)
  revert this
  decide

/-! ### writes -/

theorem encLE_mod (n v : Nat) : encLE n (v % 256 ^ n) = encLE n v := by
  induction n generalizing v with
  | zero => rfl
  | succ n ih =>
    simp only [encLE, Nat.pow_succ]
    have h1 : v % (256 ^ n * 256) % 256 = v % 256 := by
      rw [Nat.mul_comm]; exact Nat.mod_mul_right_mod v 256 (256 ^ n)
    have h2 : v % (256 ^ n * 256) / 256 = (v / 256) % 256 ^ n := by
      rw [Nat.mul_comm, Nat.mod_mul_right_div_self]
    rw [h1, h2, ih]

theorem length_writeBytes (f : Fmt) (v : Nat) : (writeBytes f v).length = f.n := by
  unfold writeBytes; split <;> simp

/-- **writes**: for every format and every register value the stored bytes are exactly `struct.pack`'s bytes
of the value reduced to the format's range -/
theorem write_exact (f : Fmt) (v : Nat) : writeBytes f v = packZ f (v : Int) := by
  have hof : ofSigned f.n (v : Int) = v % 256 ^ f.n := by
    unfold ofSigned
    have : (2 : Int) ^ (8 * f.n) = ((256 ^ f.n : Nat) : Int) := by
      rw [Int.pow_mul]; simp
    rw [this, ← Int.natCast_emod, Int.toNat_natCast]
  unfold writeBytes packZ
  cases f.order <;> simp only [hof, encLE_mod, encBE]
  -- big endian: the swap instruction followed by a little-endian store
  have := encLE_decLE (encLE f.n v).reverse
  simp only [List.length_reverse, length_encLE] at this
  simp only [decBE, this]

/-- a write changes only the variable's own bytes -/
theorem write_own_bytes (f : Fmt) (v : Nat) (pkt : List UInt8) (p i : Nat) (h : p + f.n ≤ pkt.length)
    (hi : i < p ∨ p + f.n ≤ i) : (setRange pkt p (writeBytes f v))[i]? = pkt[i]? := by
  apply getElem?_setRange_outside <;> simp only [length_writeBytes] <;> assumption

/-- and reading the variable back gives the written bytes -/
theorem write_then_slice (f : Fmt) (v : Nat) (pkt : List UInt8) (p : Nat) (h : p + f.n ≤ pkt.length) :
    slice (setRange pkt p (writeBytes f v)) p (p + f.n) = writeBytes f v := by
  have := slice_setRange_same pkt p (writeBytes f v) (by simpa [length_writeBytes] using h)
  simpa [length_writeBytes] using this

/-! ### the size guard -/

/-- the guarded body runs exactly on packets longer than the declared size -/
theorem guard_iff (N len : Nat) : guardRuns N len = true ↔ len > N := by simp [guardRuns]

/-- whenever the guarded body runs, every access of `n` bytes at offset `p` with `p + n ≤ N + 1` is inside the packet -/
theorem guard_covers (N len p n : Nat) (h : guardRuns N len = true) (hp : p + n ≤ N + 1) : p + n ≤ len := by
  simp [guardRuns] at h; omega

/-! ### non-vacuity -/
example : (⟨2, true, .native⟩ : Fmt).ok = true ∧
    readReg ⟨2, true, .native⟩ true [0xfe, 0xff] = 2 ^ 64 - 2 ∧ readReg ⟨2, true, .be⟩ true [0xff, 0xfe] = 2 ^ 64 - 2 := by decide
example : writeBytes ⟨4, false, .be⟩ 0x11223344 = [0x11, 0x22, 0x33, 0x44] := by decide

end Ebv.C07
