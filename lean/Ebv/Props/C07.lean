import Ebv.Model.PktVar
/-! C07 — packet variables access exactly their declared bytes and byte order. -/
namespace Ebv.C07
open Ebv.PktVar Ebv.Bytes

theorem ok_cases (f : Fmt) (h : f.ok = true) : f.n = 1 ∨ f.n = 2 ∨ f.n = 4 ∨ f.n = 8 := by
  simp [Fmt.ok] at h; omega

/-- the value `struct.unpack` gives, as the destination register holds it (two's complement, 64 or 32 bits) -/
def want (f : Fmt) (long : Bool) (bs : List UInt8) : Nat :=
  (unpackZ f bs % (2 ^ (if long then 64 else 32) : Int)).toNat

theorem decBE_lt (bs : List UInt8) : decBE bs < 256 ^ bs.length := by
  have := decLE_lt bs.reverse
  simpa [decBE] using this

theorem decBE_one (bs : List UInt8) (h : bs.length = 1) : decBE bs = decLE bs := by
  match bs, h with
  | [b], _ => rfl

/-- the sign-extension shift pair, arithmetically -/
def sext (n w raw : Nat) : Nat := if 2 ^ (8 * n - 1) ≤ raw then raw + 2 ^ w - 2 ^ (8 * n) else raw

theorem sext_low (n w raw : Nat) (hn : n = 1 ∨ n = 2 ∨ n = 4 ∨ n = 8) (hw : w = 32 ∨ w = 64) (h8 : 8 * n ≤ w)
    (hr : raw < 256 ^ n) : sext n w raw % 2 ^ (8 * n) = raw := by
  unfold sext
  rcases hn with rfl | rfl | rfl | rfl <;> rcases hw with rfl | rfl <;>
    simp only [Nat.reduceMul, Nat.reducePow, Nat.reduceSub] at * <;> split <;> omega

theorem sext_signed (n w raw : Nat) (hn : n = 1 ∨ n = 2 ∨ n = 4 ∨ n = 8) (hw : w = 32 ∨ w = 64) (h8 : 8 * n ≤ w)
    (hr : raw < 256 ^ n) : sext n w raw % 2 ^ w = (toSigned n raw % (2 ^ w : Int)).toNat := by
  unfold sext toSigned
  rcases hn with rfl | rfl | rfl | rfl <;> rcases hw with rfl | rfl <;>
    simp only [Nat.reduceMul, Nat.reducePow, Nat.reduceSub, Int.reducePow] at * <;> split <;> split <;> omega

theorem unsigned_mod (w raw : Nat) : raw % 2 ^ w = ((raw : Int) % (2 ^ w : Int)).toNat := by
  have h2 : ((raw : Int) % (2 ^ w : Int)) = ((raw % 2 ^ w : Nat) : Int) := by
    rw [Int.natCast_emod]; simp
  rw [h2, Int.toNat_natCast]

/-- wider-or-equal signed formats: reduction modulo the destination width forgets the sign -/
theorem signed_wide (n w raw : Nat) (hn : n = 4 ∨ n = 8) (hw : w = 32 ∨ w = 64) (h8 : w ≤ 8 * n) :
    raw % 2 ^ w = (toSigned n raw % (2 ^ w : Int)).toNat := by
  unfold toSigned
  rcases hn with rfl | rfl <;> rcases hw with rfl | rfl <;>
    simp only [Nat.reduceMul, Nat.reducePow, Nat.reduceSub, Int.reducePow] at * <;> split <;> omega

/-- **reads (partial)**: for every format outside the known class — unsigned, or native order, or one byte, or as
wide as the destination — and every byte string of the format's length, the bits of the destination register that
the destination view defines hold exactly `struct.unpack`'s value. -/
theorem read_exact_partial (f : Fmt) (long : Bool) (bs : List UInt8) (hf : f.ok = true) (hl : bs.length = f.n)
    (hc : ¬ SignedExplicit f long) :
    readReg f long bs % 2 ^ (if long then 64 else 32) = want f long bs := by
  have hn := ok_cases f hf
  have hraw : decLE bs < 256 ^ f.n := hl ▸ decLE_lt bs
  have hbe : decBE bs < 256 ^ f.n := hl ▸ decBE_lt bs
  have hbs : encLE f.n (decLE bs) = bs := hl ▸ encLE_decLE bs
  have h1 : f.n = 1 → decBE bs = decLE bs := fun h => decBE_one bs (hl.trans h)
  generalize hw : (if long then 64 else 32) = w at *
  have hw' : w = 32 ∨ w = 64 := by cases long <;> simp at hw <;> omega
  -- the value before the LE/BE instruction
  have hv1 : ∀ ext : Bool, (if (ext && decide (2 ^ (8 * f.n - 1) ≤ decLE bs)) = true then decLE bs + 2 ^ w - 2 ^ (8 * f.n) else decLE bs)
      = if ext then sext f.n w (decLE bs) else decLE bs := by
    intro ext; cases ext <;> simp [sext]
  unfold readReg want unpackZ
  simp only [hw, hv1]
  generalize hE : (f.signed && (decide (f.n ≤ 2) || decide (f.n = 4) && long)) = ext
  have hm : decLE bs % 2 ^ (8 * f.n) = decLE bs := Nat.mod_eq_of_lt (by rw [Nat.pow_mul]; exact hraw)
  -- facts about the shift pair
  have hext8 : ext = true → 8 * f.n < w ∧ f.signed = true := by
    intro he; subst he
    simp only [Bool.and_eq_true, Bool.or_eq_true, decide_eq_true_eq] at hE
    refine ⟨?_, hE.1⟩
    rcases hE.2 with h | ⟨h, h'⟩
    · rcases hw' with rfl | rfl <;> omega
    · subst h'; simp at hw; omega
  have hnoext : ext = false → f.signed = true → (f.n = 4 ∨ f.n = 8) ∧ w ≤ 8 * f.n := by
    intro he hs; subst he
    simp only [hs, Bool.true_and, Bool.or_eq_false_iff, decide_eq_false_iff_not, Nat.not_le,
      Bool.and_eq_false_iff] at hE
    cases hlg : long <;> simp [hlg] at hE hw <;> omega
  -- the value of the model for each byte order
  have key : ∀ u : Nat, u < 256 ^ f.n →
      (f.signed = false → u % 2 ^ w = ((u : Int) % (2 ^ w : Int)).toNat) ∧
      (f.signed = true → ext = true → sext f.n w u % 2 ^ w = (toSigned f.n u % (2 ^ w : Int)).toNat) ∧
      (f.signed = true → ext = false → u % 2 ^ w = (toSigned f.n u % (2 ^ w : Int)).toNat) := by
    intro u hu
    refine ⟨fun _ => unsigned_mod w u, fun _ he => sext_signed f.n w u hn hw' (Nat.le_of_lt (hext8 he).1) hu,
      fun hs he => signed_wide f.n w u (hnoext he hs).1 hw' (hnoext he hs).2⟩
  have hexcl : f.order ≠ .native → f.signed = true → ext = true → f.n ≠ 1 → False := by
    intro ho hs he hn1
    apply hc
    exact ⟨ho, hs, by omega, by rw [hw]; exact (hext8 he).1⟩
  cases hs : f.signed
  · -- unsigned: no shift pair
    have he : ext = false := by rw [← hE, hs]; rfl
    subst he
    cases ho : f.order
    · exact (key _ hraw).1 hs
    · simp only [Bool.false_eq_true, ↓reduceIte, hm, ite_self]; exact (key _ hraw).1 hs
    · simp only [Bool.false_eq_true, ↓reduceIte, hm, hbs]
      by_cases hn1 : f.n = 1
      · simp only [hn1, ↓reduceIte]; rw [h1 hn1]; exact (key _ hraw).1 hs
      · simp only [hn1, ↓reduceIte]; exact (key _ hbe).1 hs
  · cases he : ext
    · -- signed without shift pair: at least as wide as the destination
      have hne1 : f.n ≠ 1 := by have := (hnoext he hs).1; omega
      cases ho : f.order
      · exact (key _ hraw).2.2 hs he
      · simp only [Bool.false_eq_true, ↓reduceIte, hm, hne1]; exact (key _ hraw).2.2 hs he
      · simp only [Bool.false_eq_true, ↓reduceIte, hm, hbs, hne1]; exact (key _ hbe).2.2 hs he
    · -- signed with shift pair
      cases ho : f.order
      · exact (key _ hraw).2.1 hs he
      · by_cases hn1 : f.n = 1
        · simp only [hn1, ↓reduceIte]; rw [← hn1]; exact (key _ hraw).2.1 hs he
        · exact (hexcl (by simp [ho]) hs he hn1).elim
      · by_cases hn1 : f.n = 1
        · simp only [hn1, ↓reduceIte]; rw [h1 hn1, ← hn1]; exact (key _ hraw).2.1 hs he
        · exact (hexcl (by simp [ho]) hs he hn1).elim

/-- the full statement (every format, including signed formats with an explicit byte order) -/
def read_full : Prop := ∀ (f : Fmt) (long : Bool) (bs : List UInt8), f.ok = true → bs.length = f.n →
  readReg f long bs % 2 ^ (if long then 64 else 32) = want f long bs

/-- **the unchanged code violates the full statement**: a `>h` variable holding ff fe (−2) read into a 64-bit
register gives 65534: the value is sign-extended before the byte swap and the swap instruction zero-extends. -/
theorem read_full_refuted : ¬ read_full := by
  intro h
  have := h ⟨2, true, .be⟩ true [0xff, 0xfe] (by decide) (by decide)
  revert this
  decide

/-! ### writes -/

theorem encLE_mod (n v : Nat) : encLE n (v % 256 ^ n) = encLE n v := by
  induction n generalizing v with
  | zero => rfl
  | succ n ih =>
    simp only [encLE, Nat.pow_succ]
    have h1 : v % (256 ^ n * 256) % 256 = v % 256 := by
      rw [Nat.mul_comm]; exact Nat.mod_mul_right_mod v 256 (256 ^ n)
    have h2 : v % (256 ^ n * 256) / 256 = (v / 256) % 256 ^ n := by
      rw [Nat.mul_comm, Nat.mod_mul_right_div_self]
    rw [h1, h2, ih]

theorem length_writeBytes (f : Fmt) (v : Nat) : (writeBytes f v).length = f.n := by
  unfold writeBytes; split <;> simp

/-- **writes**: for every format and every register value the stored bytes are exactly `struct.pack`'s bytes
of the value reduced to the format's range -/
theorem write_exact (f : Fmt) (v : Nat) : writeBytes f v = packZ f (v : Int) := by
  have hof : ofSigned f.n (v : Int) = v % 256 ^ f.n := by
    unfold ofSigned
    have : (2 : Int) ^ (8 * f.n) = ((256 ^ f.n : Nat) : Int) := by
      rw [Int.pow_mul]; simp
    rw [this, ← Int.natCast_emod, Int.toNat_natCast]
  unfold writeBytes packZ
  cases f.order <;> simp only [hof, encLE_mod, encBE]
  -- big endian: the swap instruction followed by a little-endian store
  have := encLE_decLE (encLE f.n v).reverse
  simp only [List.length_reverse, length_encLE] at this
  simp only [decBE, this]

/-- a write changes only the variable's own bytes -/
theorem write_own_bytes (f : Fmt) (v : Nat) (pkt : List UInt8) (p i : Nat) (h : p + f.n ≤ pkt.length)
    (hi : i < p ∨ p + f.n ≤ i) : (setRange pkt p (writeBytes f v))[i]? = pkt[i]? := by
  apply getElem?_setRange_outside <;> simp only [length_writeBytes] <;> assumption

/-- and reading the variable back gives the written bytes -/
theorem write_then_slice (f : Fmt) (v : Nat) (pkt : List UInt8) (p : Nat) (h : p + f.n ≤ pkt.length) :
    slice (setRange pkt p (writeBytes f v)) p (p + f.n) = writeBytes f v := by
  have := slice_setRange_same pkt p (writeBytes f v) (by simpa [length_writeBytes] using h)
  simpa [length_writeBytes] using this

/-! ### the size guard -/

/-- the guarded body runs exactly on packets longer than the declared size -/
theorem guard_iff (N len : Nat) : guardRuns N len = true ↔ len > N := by simp [guardRuns]

/-- whenever the guarded body runs, every access of `n` bytes at offset `p` with `p + n ≤ N + 1` is inside the packet -/
theorem guard_covers (N len p n : Nat) (h : guardRuns N len = true) (hp : p + n ≤ N + 1) : p + n ≤ len := by
  simp [guardRuns] at h; omega

/-! ### non-vacuity -/
example : (⟨2, true, .native⟩ : Fmt).ok = true ∧ ¬ SignedExplicit ⟨2, true, .native⟩ true ∧
    readReg ⟨2, true, .native⟩ true [0xfe, 0xff] = 2 ^ 64 - 2 := by decide
example : writeBytes ⟨4, false, .be⟩ 0x11223344 = [0x11, 0x22, 0x33, 0x44] := by decide

end Ebv.C07
