import Ebv.Lemmas.XdpOps2
import Ebv.Lemmas.XdpRel
import Ebv.Lemmas.XdpList
import Ebv.Generated.ProgramsGroups
/-! C21 translation validation, shared part: geometry of a bare fast group's map (only `wkc_errors`, seen through
`MemRel` as `dc` with no counters), load rules, the effect of one `activate` step on frame and error counter, and the
tactics the per-layout files use. -/
namespace Ebv.C21TV
open Ebv.Ebpf Ebv.XdpRun Ebv.Bytes

/-- map geometry of a bare group: `wkc_errors` at offset 0, nothing else -/
def geoOf (fd : Int) (sz : Nat) : Geo := ⟨fd, 0, sz, 4, 0, 0⟩

theorem geo_ok (fd : Int) : GeoOk (geoOf fd 8) := by
  refine ⟨?_, ?_, ?_⟩ <;> simp [geoOf, disjointIv]

variable {fd : Int} {a : Addrs} {e : Env} {s : State} {p : List UInt8} {er : Nat} {reg : Nat → Bool}

theorem rel1 (hL : Layout (geoOf fd 8) a e s p [] er reg) (z : Nat) :
    MemRel (geoOf fd 8) a s.mem (storeN s.mem (BitVec.ofNat 64 (a.stk - 4)) 4 z) p [] er p.length :=
  MemRel.store_stack hL.regions (geo_ok fd) (MemRel.init hL) (a.stk - 4) 4 z (by have := hL.regions.stk_lo; omega)
    (by have := hL.regions.stk_lo; omega)

theorem ctx_loads (hL : Layout (geoOf fd 8) a e s p [] er reg) (z : Nat) :
    loadN (storeN s.mem (BitVec.ofNat 64 (a.stk - 4)) 4 z) (BitVec.ofNat 64 a.ctx) 4 = a.dat ∧
    loadN (storeN s.mem (BitVec.ofNat 64 (a.stk - 4)) 4 z) (BitVec.ofNat 64 (a.ctx + 4)) 4 = a.dat + p.length := by
  have hd := hL.data
  have he := hL.data_end
  simp only [addr] at hd he
  have h := rel1 hL z
  constructor
  · have := h.load_ctx hL.regions 0 4 (by omega)
    rw [Nat.add_zero] at this; rw [this, hd]
  · rw [h.load_ctx hL.regions 4 4 (by omega), he]

theorem err_load {M0 M : W → BitVec 8} {q : List UInt8} {len : Nat} (h : MemRel (geoOf fd 8) a M0 M q [] er len) :
    loadN M (BitVec.ofNat 64 a.mp) 4 = er := by
  have := h.drop; simpa [geoOf, addr] using this

theorem ld_map0_st_pkt {len : Nat} (hr : Regions (geoOf fd 8) a len) (M : W → BitVec 8) (k n v m : Nat)
    (hk : k + n ≤ len) (hj : m ≤ 8) :
    loadN (storeN M (BitVec.ofNat 64 (a.dat + k)) n v) (BitVec.ofNat 64 a.mp) m = loadN M (BitVec.ofNat 64 a.mp) m := by
  obtain ⟨s1, s2, c1, p1, m0, m1, d1, d2, d3, d4, d5, d6⟩ := hr
  simp only [disjointIv, geoOf] at *
  exact loadN_storeN_disj M _ n v _ m (by omega) (by omega) (by omega)

/-- one `activate` step on the frame and on the error counter -/
def actP (q : List UInt8) (cmdPos wkcPos cmd : Nat) : List UInt8 :=
  setRange (setRange q cmdPos (encLE 1 cmd)) wkcPos (encLE 2 0)
def actE (q : List UInt8) (wkcPos expected er : Nat) : Nat :=
  if decLE (slice q wkcPos (wkcPos + 2)) = expected then er else (er + 1) % 4294967296

theorem actP_length (q : List UInt8) (c w cmd : Nat) (hc : c + 1 ≤ q.length) (hw : w + 2 ≤ q.length) :
    (actP q c w cmd).length = q.length := by
  unfold actP
  rw [length_setRange_enc _ w 2 0 (by rw [length_setRange_enc _ c 1 cmd hc]; exact hw), length_setRange_enc _ c 1 cmd hc]

/-- `MemRel` after the stores of one `activate` step (working counter as expected / not) -/
theorem rel_act_ok {M0 M : W → BitVec 8} {q : List UInt8} {len : Nat} (hr : Regions (geoOf fd 8) a len)
    (h : MemRel (geoOf fd 8) a M0 M q [] er len) (c w cmd : Nat) (hc : c + 1 ≤ len) (hw : w + 2 ≤ len) :
    MemRel (geoOf fd 8) a M0 (storeN (storeN M (BitVec.ofNat 64 (a.dat + c)) 1 cmd) (BitVec.ofNat 64 (a.dat + w)) 2 0)
      (actP q c w cmd) [] er len :=
  MemRel.store_pkt hr (geo_ok fd) (MemRel.store_pkt hr (geo_ok fd) h c 1 cmd hc) w 2 0 hw

theorem rel_act_err {M0 M : W → BitVec 8} {q : List UInt8} {len : Nat} (hr : Regions (geoOf fd 8) a len)
    (h : MemRel (geoOf fd 8) a M0 M q [] er len) (c w cmd v : Nat) (hc : c + 1 ≤ len) (hw : w + 2 ≤ len) :
    MemRel (geoOf fd 8) a M0 (storeN (storeN (storeN M (BitVec.ofNat 64 (a.dat + c)) 1 cmd) (BitVec.ofNat 64 a.mp) 4 v)
      (BitVec.ofNat 64 (a.dat + w)) 2 0) (actP q c w cmd) [] (v % 4294967296) len :=
  MemRel.store_pkt hr (geo_ok fd)
    (MemRel.store_drop hr (geo_ok fd) (MemRel.store_pkt hr (geo_ok fd) h c 1 cmd hc) v) w 2 0 hw

/-- one step of `Ebv.FastGroup.activateOne` in terms of `actP`/`actE` -/
theorem activateOne_eq (q : List UInt8) (c w cmd ex er : Nat) (hc : c < q.length) (hw : w + 2 ≤ q.length)
    (hcmd : cmd < 256) :
    FastGroup.activateOne ⟨c, w, cmd, ex⟩ q er = (actP q c w cmd, actE q w ex er) := by
  have e1 : encLE 1 cmd = [UInt8.ofNat cmd] := by simp [encLE, Nat.mod_eq_of_lt hcmd]
  have e2 : encLE 2 0 = [0, 0] := by decide
  unfold FastGroup.activateOne actP actE
  rw [e1, e2, setRange_one q c _ hc, setRange_two _ w 0 0 (by simp; omega), wkcAt_eq q w hw]
  simp only [FastGroup.M32]
  congr 1
  by_cases h : decLE (slice q w (w + 2)) = ex <;> simp [h]

end Ebv.C21TV
