import Ebv.Props.C22TVb
/-! C22 translation validation, part c: the "normal" paths of a group frame (index byte one behind the counter's
low byte, or a fresh frame with index 0): the counter advances by one; with an odd counter the frame is returned to
the bus passively (XDP_TX), with an even one it takes the active role. -/
namespace Ebv.C22TV
open Ebv.Ebpf Ebv.XdpRun Ebv.Bytes Ebv.Dispatch

variable {a : Addrs} {e : Env} {s : State} {p : List UInt8} {cs : List Nat} {dc : Nat} {reg : Nat → Bool}

theorem and_255 (x : Nat) : x &&& 255 = x % 256 := Nat.and_two_pow_sub_one_eq_mod x 8

set_option hygiene false in
/-- preamble of the normal paths: `gsetup`, then split on which of the two tests of the program recognises the frame -/
macro "nsetup" : tactic => `(tactic| (
  rw [← decLE_slice1 p 17 (by omega)] at hk hn
  gsetup
  generalize hG : decLE (slice p 18 22) = G at *
  by_cases hs : (decLE (slice p 17 18) + 1) % 256 = cs.getD G 0 % 256))

set_option hygiene false in
macro "nsim" : tactic => `(tactic|
  xsim [hr10, hr1, hlook, htail, hmp, hp1, hd1, he1, hc41, hc11, hr, Nat.and_one_is_mod, and_255, hp3, hd3, he3, hG,
    slice_setRange17, Bool.false_eq_true])

set_option maxRecDepth 4000 in
set_option maxHeartbeats 2000000 in
theorem path_normal_tx (hL : Layout geo a e s p cs dc reg) (h : 30 < p.length)
    (het : decBE (slice p 12 14) = 34980) (hcmd : getU8 p 16 = 0) (hg : decLE (slice p 18 22) < 64)
    (hk : getU8 p 17 ≠ cs.getD (decLE (slice p 18 22)) 0 % 256)
    (hn : (getU8 p 17 + 1) % 256 = cs.getD (decLE (slice p 18 22)) 0 % 256 ∨ getU8 p 17 = 0)
    (hodd : cs.getD (decLE (slice p 18 22)) 0 % 2 = 1) :
    Post geo a e s.mem p.length (decLE (slice p 18 22))
      ⟨.tx, setRange p 17 [UInt8.ofNat ((cs.getD (decLE (slice p 18 22)) 0 + 1) % 4294967296 % 256)],
        cs.set (decLE (slice p 18 22)) ((cs.getD (decLE (slice p 18 22)) 0 + 1) % 4294967296), dc⟩
      (runXdp e Programs.etherXdp 90 s) := by
  have hr : True := trivial
  nsetup
  · nsim
    exact ⟨rfl, leaf3 hL' 0 G _ _ _ hg h17 (by omega) (by omega)⟩
  · have h0 : decLE (slice p 17 18) = 0 := by omega
    nsim
    exact ⟨rfl, leaf3 hL' 0 G _ _ _ hg h17 (by omega) (by omega)⟩

set_option maxRecDepth 4000 in
set_option maxHeartbeats 2000000 in
theorem path_normal_reg (hL : Layout geo a e s p cs dc reg) (h : 30 < p.length)
    (het : decBE (slice p 12 14) = 34980) (hcmd : getU8 p 16 = 0) (hg : decLE (slice p 18 22) < 64)
    (hk : getU8 p 17 ≠ cs.getD (decLE (slice p 18 22)) 0 % 256)
    (hn : (getU8 p 17 + 1) % 256 = cs.getD (decLE (slice p 18 22)) 0 % 256 ∨ getU8 p 17 = 0)
    (heven : cs.getD (decLE (slice p 18 22)) 0 % 2 = 0) (hr : reg (decLE (slice p 18 22)) = true) :
    Post geo a e s.mem p.length (decLE (slice p 18 22))
      ⟨.run, setRange p 17 [UInt8.ofNat ((cs.getD (decLE (slice p 18 22)) 0 + 1) % 4294967296 % 256)],
        cs.set (decLE (slice p 18 22)) ((cs.getD (decLE (slice p 18 22)) 0 + 1) % 4294967296), dc⟩
      (runXdp e Programs.etherXdp 90 s) := by
  nsetup
  · nsim
    refine ⟨rfl, leaf3 hL' 0 G _ _ _ hg h17 (by omega) (by omega), ?_, ?_, ?_⟩
    all_goals simp only [upd_apply, callR_apply, Nat.reduceEqDiff, Nat.reduceLeDiff, if_true, if_false, addr]
  · have h0 : decLE (slice p 17 18) = 0 := by omega
    nsim
    refine ⟨rfl, leaf3 hL' 0 G _ _ _ hg h17 (by omega) (by omega), ?_, ?_, ?_⟩
    all_goals simp only [upd_apply, callR_apply, Nat.reduceEqDiff, Nat.reduceLeDiff, if_true, if_false, addr]

set_option maxRecDepth 4000 in
set_option maxHeartbeats 2000000 in
theorem path_normal_unreg (hL : Layout geo a e s p cs dc reg) (h : 30 < p.length)
    (het : decBE (slice p 12 14) = 34980) (hcmd : getU8 p 16 = 0) (hg : decLE (slice p 18 22) < 64)
    (hk : getU8 p 17 ≠ cs.getD (decLE (slice p 18 22)) 0 % 256)
    (hn : (getU8 p 17 + 1) % 256 = cs.getD (decLE (slice p 18 22)) 0 % 256 ∨ getU8 p 17 = 0)
    (heven : cs.getD (decLE (slice p 18 22)) 0 % 2 = 0) (hr : reg (decLE (slice p 18 22)) = false) :
    Post geo a e s.mem p.length (decLE (slice p 18 22))
      ⟨.pass, setEthertypeFromData (setRange p 17 [UInt8.ofNat ((cs.getD (decLE (slice p 18 22)) 0 + 1) % 4294967296 % 256)]),
        cs.set (decLE (slice p 18 22)) ((cs.getD (decLE (slice p 18 22)) 0 + 1) % 4294967296), dc⟩
      (runXdp e Programs.etherXdp 90 s) := by
  nsetup
  · nsim
    exact ⟨rfl, leaf4 hL' 0 G _ _ _ hg h (by omega) (by omega)⟩
  · have h0 : decLE (slice p 17 18) = 0 := by omega
    nsim
    exact ⟨rfl, leaf4 hL' 0 G _ _ _ hg h (by omega) (by omega)⟩

end Ebv.C22TV
