import Ebv.Lemmas.Homo
import Ebv.Lemmas.Assign
/-! # C01 — integer DSL expressions compute the exact value

Model: `Ebv.Gen` (tied to ebpfcat/ebpf.py by exact opcode-list correspondence, harness/vh/props/c01.py).
Instruction semantics: `Ebv.Ebpf` (validated three-way).  Proof chain:

* `Ebv.Gen.calc_correct` (Lemmas/Calc.lean): structural induction over expression trees — the emitted segment
  computes `evalBV` into the result register at the requested width, other owned registers and memory unchanged,
  `owners` restored;
* `Ebv.Gen.evalBV_eq_evalZ` (Lemmas/Homo.lean): induction — on the ring fragment `evalBV` is the image of the
  mathematical value `evalZ` (Python integers);
* `assign_correct_reg`, `assign_correct_mem`, `stmts_correct`, `C01_partial` below: statements and programs, in
  terms of `Ebpf.run`;
* `*_refuted`: the defect classes of the unchanged generator, each on a concrete witness. -/
namespace Ebv.C01
open Ebv.Ebpf Ebv.Gen

/-- **assign_correct (register destination)**: `self.<view>[no] = e`.  If the generator accepts, the emitted
code terminates from every machine state; afterwards the destination register holds the mathematical value of `e`
modulo 2^64 (views `r`, `sr`) or, in its low half, modulo 2^32 (views `w`, `sw`); every other owned register and
the memory are unchanged. -/
theorem assign_correct_reg (e : Expr) (no : Nat) (long : Bool) (g g' : GenState)
    (hp : PreReg e no long g) (hr : e.ringOnly = true)
    (h : setReg no long (.ex e) g = .ok ((), g')) :
    Emits g g' (fun σ σ' => (shiftsOk σ long e → AgreeZ long (σ'.regs no) (evalZ σ e)) ∧
      (∀ n ∈ g.owners, n ≠ no → σ'.regs n = σ.regs n) ∧ σ'.mem = σ.mem) := by
  obtain ⟨⟨⟨c, hc, hst, hrun⟩, hstack⟩, _⟩ := setReg_correct e no long g g' hp h
  refine ⟨⟨c, hc, hst, ?_⟩, hstack⟩
  intro σ
  obtain ⟨σ', he, hv, hfr, hm⟩ := hrun σ
  refine ⟨σ', he, ?_, hfr, hm⟩
  intro hs
  rw [agreeZ_iff]
  exact Agree.trans hv ((agreeZ_iff _ _ _).mp (evalBV_eq_evalZ σ long e hr hs))

/-- **assign_correct (memory destination)**: `self.<variable> = e` for a variable of format `fmt` at
`base + off`.  Afterwards the variable's bytes are the little-endian encoding of the mathematical value of `e`
modulo 2^(8·size); every owned register and every other byte of memory are unchanged. -/
theorem assign_correct_mem (e : Expr) (fmt : Fmt) (addr : Expr) (base : Nat) (off : Int) (g g' : GenState)
    (hs : addr.asSum = some (base, off)) (hp : PreMem e fmt base g) (hr : e.ringOnly = true)
    (h : setMem fmt addr (.ex e) g = .ok ((), g')) :
    Emits g g' (fun σ σ' => (∀ n ∈ g.owners, σ'.regs n = σ.regs n) ∧
      (shiftsOk σ fmt.isLong e → σ'.mem = storeN σ.mem (σ.regs base + BitVec.ofInt 64 off) fmt.size
        (BitVec.ofInt 64 (evalZ σ e)).toNat)) := by
  obtain ⟨⟨⟨c, hc, hst, hrun⟩, hstack⟩, _⟩ := setMem_correct e fmt addr base off g g' hs hp h
  refine ⟨⟨c, hc, hst, ?_⟩, hstack⟩
  intro σ
  obtain ⟨σ', he, hfr, hm⟩ := hrun σ
  refine ⟨σ', he, hfr, ?_⟩
  intro hsh
  rw [hm]
  exact storeN_agree fmt _ _ _ _ ((agreeZ_iff _ _ _).mp (evalBV_eq_evalZ σ fmt.isLong e hr hsh))

/-! ## statements after elaboration -/

/-- the address object of a variable: `Sum(Register(base), Constant(off))` -/
def sumAddr (base : Nat) (off : Int) : Expr := .bin .add (.reg base true false) (.const off) (off < 0) .sum

theorem sumAddr_asSum (base : Nat) (off : Int) : (sumAddr base off).asSum = some (base, off) := rfl

/-- a statement with its right-hand side already built by the operator overloads -/
inductive CStmt where
  | reg (no : Nat) (long : Bool) (e : Expr)
  | mem (fmt : Fmt) (base : Nat) (off : Int) (e : Expr)

def CStmt.emit : CStmt → GenM Unit
  | .reg no long e => setReg no long (.ex e)
  | .mem fmt base off e => setMem fmt (sumAddr base off) (.ex e)

def leavesOwnedB (o : List Nat) : Expr → Bool
  | .const _ => true
  | .reg no _ _ => o.contains no
  | .bin _ l r _ _ => leavesOwnedB o l && leavesOwnedB o r
  | .neg a => leavesOwnedB o a
  | .abs a => leavesOwnedB o a
  | .mem _ a => leavesOwnedB o a

theorem leavesOwnedB_sound {o : List Nat} : ∀ {e : Expr}, leavesOwnedB o e = true → leavesOwned o e := by
  intro e
  induction e with
  | const v => intro _; trivial
  | reg no lg sg => intro h; simpa [leavesOwnedB, leavesOwned] using h
  | bin op l r sg k ihl ihr => intro h; simp only [leavesOwnedB, Bool.and_eq_true] at h; exact ⟨ihl h.1, ihr h.2⟩
  | neg a ih => intro h; exact ih h
  | abs a ih => intro h; exact ih h
  | mem f a ih => intro h; exact ih h

/-- **the part of the language the theorem covers, with the defect classes excluded** (decidable): well-typed
(every register read is owned), inside the proved fragment, and in none of the classes `unary-in-place`,
`narrow-reg-in-64`, `unary-32-in-64` -/
def CStmt.ok (o : List Nat) : CStmt → Bool
  | .reg no long e =>
    leavesOwnedB o e && e.frag && e.ringOnly && !unaryInPlace e true && !narrowIn64 e long true (.reg no) &&
      !neg32in64 e long
  | .mem fmt base _ e =>
    o.contains base && leavesOwnedB o e && e.frag && e.ringOnly && !unaryInPlace e false &&
      !narrowIn64 e fmt.isLong false .any && !neg32in64 e fmt.isLong

/-- `owners` after the statement -/
def CStmt.owners (o : List Nat) : CStmt → List Nat
  | .reg no _ _ => if o.contains no then o else no :: o
  | .mem _ _ _ _ => o

/-- **what the statement must do** (`o` = registers owned before it): under the shift-range precondition the
destination holds the mathematical value modulo 2^(8·size) in the destination's format; every other owned register
is unchanged; memory is unchanged except the destination's bytes -/
def CStmt.spec (o : List Nat) : CStmt → State → State → Prop
  | .reg no long e => fun σ σ' =>
    (shiftsOk σ long e → AgreeZ long (σ'.regs no) (evalZ σ e)) ∧
    (∀ n ∈ o, n ≠ no → σ'.regs n = σ.regs n) ∧ σ'.mem = σ.mem
  | .mem fmt base off e => fun σ σ' =>
    (∀ n ∈ o, σ'.regs n = σ.regs n) ∧
    (shiftsOk σ fmt.isLong e → σ'.mem = storeN σ.mem (σ.regs base + BitVec.ofInt 64 off) fmt.size
      (BitVec.ofInt 64 (evalZ σ e)).toNat)

def emitC : List CStmt → GenM Unit
  | [] => pure ()
  | s :: ss => do s.emit; emitC ss

def oks (o : List Nat) : List CStmt → Bool
  | [] => true
  | s :: ss => s.ok o && oks (s.owners o) ss

/-- sequential composition of the statement specifications -/
def specs (o : List Nat) : List CStmt → State → State → Prop
  | [] => fun σ σ' => σ'.regs = σ.regs ∧ σ'.mem = σ.mem
  | s :: ss => fun σ σ'' => ∃ σ', s.spec o σ σ' ∧ specs (s.owners o) ss σ' σ''

theorem stmt_correct (s : CStmt) (g g' : GenState) (hok : s.ok g.owners = true) (h : s.emit g = .ok ((), g')) :
    Emits g g' (s.spec g.owners) ∧ g'.owners = s.owners g.owners := by
  cases s with
  | reg no long e =>
    simp only [CStmt.emit] at h
    simp only [CStmt.ok, Bool.and_eq_true, Bool.not_eq_true'] at hok
    obtain ⟨⟨⟨⟨⟨h1, h2⟩, h3⟩, h4⟩, h5⟩, h6⟩ := hok
    have hp : PreReg e no long g := ⟨leavesOwnedB_sound h1, h2, h4, h5, h6⟩
    exact ⟨assign_correct_reg e no long g g' hp h3 h, (setReg_correct e no long g g' hp h).2⟩
  | mem fmt base off e =>
    simp only [CStmt.emit] at h
    simp only [CStmt.ok, Bool.and_eq_true, Bool.not_eq_true'] at hok
    obtain ⟨⟨⟨⟨⟨⟨h0, h1⟩, h2⟩, h3⟩, h4⟩, h5⟩, h6⟩ := hok
    have hp : PreMem e fmt base g := ⟨by simpa using h0, leavesOwnedB_sound h1, h2, h4, h5, h6⟩
    exact ⟨assign_correct_mem e fmt _ base off g g' (sumAddr_asSum base off) hp h3 h,
      (setMem_correct e fmt _ base off g g' (sumAddr_asSum base off) hp h).2⟩

theorem emits_seq {g g1 g2 : GenState} {P Q : State → State → Prop} (h1 : Emits g g1 P) (h2 : Emits g1 g2 Q) :
    Emits g g2 (fun σ σ'' => ∃ σ', P σ σ' ∧ Q σ' σ'') := by
  obtain ⟨⟨c1, hc1, hs1, hr1⟩, hst1⟩ := h1
  obtain ⟨⟨c2, hc2, hs2, hr2⟩, hst2⟩ := h2
  refine ⟨⟨c1 ++ c2, by rw [hc2, hc1, List.append_assoc], ?_, ?_⟩, by rw [hst2, hst1]⟩
  · intro i hi
    rcases List.mem_append.mp hi with hi | hi
    · exact hs1 i hi
    · exact hs2 i hi
  · intro σ
    obtain ⟨σ1, he1, hp⟩ := hr1 σ
    obtain ⟨σ2, he2, hq⟩ := hr2 σ1
    exact ⟨σ2, by rw [exec_append he1]; exact he2, σ1, hp, hq⟩

theorem stmts_correct (ss : List CStmt) : ∀ (g g' : GenState), oks g.owners ss = true → emitC ss g = .ok ((), g') →
    Emits g g' (specs g.owners ss) := by
  induction ss with
  | nil =>
    intro g g' _ h
    simp only [emitC] at h
    rw [pure_ok] at h
    cases h
    exact ⟨⟨[], by simp, by simp, fun σ => ⟨_, exec_nil σ, rfl, rfl⟩⟩, rfl⟩
  | cons s ss ih =>
    intro g g' hok h
    simp only [oks, Bool.and_eq_true] at hok
    simp only [emitC] at h
    rw [bind_ok] at h
    obtain ⟨u, g1, h1, h2⟩ := h
    obtain ⟨he, ho⟩ := stmt_correct s g g1 hok.1 h1
    have := ih g1 g' (by rw [ho]; exact hok.2) h2
    rw [ho] at this
    exact emits_seq he this

/-! ## from surface programs to `Ebpf.run` -/

/-- the statement after the operator overloads have built its right-hand side (`None` if Python raises) -/
def compile (env : List VarLoc) : Stmt → Option CStmt
  | .set d s =>
    match elabE env s with
    | .ok v =>
      match ensureExpr v with
      | .ok e =>
        match d with
        | .reg view no => some (.reg no view.long e)
        | .var name => (lookupVar env name).map fun l => .mem l.fmt l.base l.off e
      | .error _ => none
    | .error _ => none

def compileAll (env : List VarLoc) : List Stmt → Option (List CStmt)
  | [] => some []
  | s :: ss => match compile env s, compileAll env ss with
    | some c, some cs => some (c :: cs)
    | _, _ => none

theorem setReg_ensure {v : PyVal} {e : Expr} (h : ensureExpr v = .ok e) (no : Nat) (long : Bool) :
    setReg no long v = setReg no long (.ex e) := by
  cases v <;> simp [ensureExpr, typeError] at h <;> subst h <;> rfl

theorem setMem_ensure {v : PyVal} {e : Expr} (h : ensureExpr v = .ok e) (fmt : Fmt) (addr : Expr) :
    setMem fmt addr v = setMem fmt addr (.ex e) := by
  cases v <;> simp [ensureExpr, typeError] at h <;> subst h <;> rfl

theorem emitStmt_compile {env : List VarLoc} {st : Stmt} {cs : CStmt} (h : compile env st = some cs) :
    emitStmt env st = cs.emit := by
  cases st with
  | set d s =>
    funext g
    simp only [compile] at h
    simp only [emitStmt]
    cases hv : elabE env s with
    | error err => rw [hv] at h; simp at h
    | ok v =>
      rw [hv] at h
      simp only [] at h ⊢
      cases he : ensureExpr v with
      | error err => rw [he] at h; simp at h
      | ok e =>
        rw [he] at h
        simp only [] at h
        cases d with
        | reg view no =>
          simp only [Option.some.injEq] at h
          subst h
          simp only [CStmt.emit, setReg_ensure he]
        | var name =>
          simp only [] at h ⊢
          cases hl : lookupVar env name with
          | none => rw [hl] at h; simp at h
          | some l =>
            rw [hl] at h
            simp only [Option.map_some, Option.some.injEq] at h
            subst h
            simp only [CStmt.emit, varExpr, setMem_ensure he]
            rfl

theorem emitStmts_compile {env : List VarLoc} : ∀ {ss : List Stmt} {cs : List CStmt},
    compileAll env ss = some cs → emitStmts env ss = emitC cs := by
  intro ss
  induction ss with
  | nil => intro cs h; simp [compileAll] at h; subst h; rfl
  | cons s ss ih =>
    intro cs h
    simp only [compileAll] at h
    split at h
    · rename_i c cs' h1 h2
      cases h
      simp only [emitStmts, emitC, emitStmt_compile h1, ih h2]
    · cases h

/-- **C01 (partial)**: for every program all of whose statements are in the proved fragment and in none of the
defect classes (`oks`, decidable), if the generator accepts the program then for every machine state the emitted
code, run by the instruction-set semantics `Ebpf.run` from its first instruction, falls out at its end in a state
that satisfies the statement specifications in sequence (`specs`): each destination holds the mathematical value of
its expression modulo 2^(8·size) in the destination's format, every other owned register and all other memory are
unchanged. -/
theorem C01_partial (p : Prog) (cs : List CStmt) (code : List Insn)
    (hcomp : compileAll (layout p.vars) p.stmts = some cs) (hok : oks p.owned cs = true)
    (hemit : emitProg p = .ok code) (σ : State) :
    ∃ σ', run code (code.length + 1) { σ with pc := 0 } = .fell { σ' with pc := code.length } ∧
      specs p.owned cs σ σ' := by
  unfold emitProg at hemit
  rw [emitStmts_compile hcomp] at hemit
  split at hemit
  · rename_i u g' hg
    cases hemit
    cases u
    obtain ⟨⟨c, hc, hst, hrun⟩, _⟩ := stmts_correct cs (initState p) g' hok hg
    simp only [initState, List.nil_append] at hc
    obtain ⟨σ', he, hsp⟩ := hrun σ
    rw [hc]
    exact ⟨σ', run_of_exec hst he _ (Nat.le_refl _), hsp⟩
  · cases hemit

end Ebv.C01
