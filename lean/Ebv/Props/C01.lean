import Ebv.Lemmas.Homo
import Ebv.Lemmas.Assign
import Ebv.Lemmas.Surface
import Ebv.Lemmas.Typing
/-! # C01 — integer DSL expressions compute the exact value

Model: `Ebv.Gen` (tied to ebpfcat/ebpf.py by exact opcode-list correspondence, harness/vh/props/c01.py).
Instruction semantics: `Ebv.Ebpf` (validated three-way).  Proof chain:

* `Ebv.Gen.calc_correct` (Lemmas/Calc.lean): structural induction over expression trees — the emitted segment
  computes `evalBV` into the result register at the requested width, other owned registers and memory unchanged,
  `owners` restored;
* `Ebv.Gen.evalBV_eq_evalZ` (Lemmas/Homo.lean): induction — on the ring fragment `evalBV` is the image of the
  mathematical value `evalZ` (Python integers);
* `assign_correct_reg`, `assign_correct_mem`, `stmts_correct`, `C01_partial` below: statements and programs, in
  terms of `Ebpf.run`;
* `*_refuted`: the defect classes of the unchanged generator, each on a concrete witness;
* `before_fix_*`: regression witnesses of the repaired classes (`Sum - expression`, `abs` in 32 bits, unary operators
  in place, unary operators in 32 bits inside a 64-bit computation, the typing of `register ± int` and of `&`);
* `typing_exact` (from `Gen.elab_psigned`, Lemmas/Typing.lean): the `signed` attribute the operator overloads give an
  expression is the signedness the property defines for its text (`SExpr.psigned`). -/
namespace Ebv.C01
open Ebv.Ebpf Ebv.Gen

/-- **assign_correct (register destination)**: `self.<view>[no] = e`.  If the generator accepts, the emitted
code terminates from every machine state; afterwards the destination register holds the mathematical value of `e`
modulo 2^64 (views `r`, `sr`) or, in its low half, modulo 2^32 (views `w`, `sw`); every other owned register and
the memory are unchanged. -/
theorem assign_correct_reg (e : Expr) (no : Nat) (long : Bool) (g g' : GenState)
    (hp : PreReg e no long g) (hr : e.ringOnly = true)
    (h : setReg no long (.ex e) g = .ok ((), g')) :
    Emits g g' (fun σ σ' => (shiftsOk σ long e → AgreeZ long (σ'.regs no) (evalZ σ e)) ∧
      (∀ n ∈ g.owners, n ≠ no → σ'.regs n = σ.regs n) ∧ σ'.mem = σ.mem) := by
  obtain ⟨⟨⟨c, hc, hst, hrun⟩, hstack⟩, _⟩ := setReg_correct e no long g g' hp h
  refine ⟨⟨c, hc, hst, ?_⟩, hstack⟩
  intro σ
  obtain ⟨σ', he, hv, hfr, hm⟩ := hrun σ
  refine ⟨σ', he, ?_, hfr, hm⟩
  intro hs
  rw [agreeZ_iff]
  exact Agree.trans hv ((agreeZ_iff _ _ _).mp (evalBV_eq_evalZ σ long e hr hs))

/-- **assign_correct (memory destination)**: `self.<variable> = e` for a variable of format `fmt` at
`base + off`.  Afterwards the variable's bytes are the little-endian encoding of the mathematical value of `e`
modulo 2^(8·size); every owned register and every other byte of memory are unchanged. -/
theorem assign_correct_mem (e : Expr) (fmt : Fmt) (addr : Expr) (base : Nat) (off : Int) (g g' : GenState)
    (hs : addr.asSum = some (base, off)) (hp : PreMem e fmt base g) (hr : e.ringOnly = true)
    (h : setMem fmt addr (.ex e) g = .ok ((), g')) :
    Emits g g' (fun σ σ' => (∀ n ∈ g.owners, σ'.regs n = σ.regs n) ∧
      (shiftsOk σ fmt.isLong e → σ'.mem = storeN σ.mem (σ.regs base + BitVec.ofInt 64 off) fmt.size
        (BitVec.ofInt 64 (evalZ σ e)).toNat)) := by
  obtain ⟨⟨⟨c, hc, hst, hrun⟩, hstack⟩, _⟩ := setMem_correct e fmt addr base off g g' hs hp h
  refine ⟨⟨c, hc, hst, ?_⟩, hstack⟩
  intro σ
  obtain ⟨σ', he, hfr, hm⟩ := hrun σ
  refine ⟨σ', he, hfr, ?_⟩
  intro hsh
  rw [hm]
  exact storeN_agree fmt _ _ _ _ ((agreeZ_iff _ _ _).mp (evalBV_eq_evalZ σ fmt.isLong e hr hsh))

/-! ## statements after elaboration -/

/-- the address object of a variable: `Sum(Register(base), Constant(off))` -/
def sumAddr (base : Nat) (off : Int) : Expr := .bin .add (.reg base true false) (.const off) (off < 0) .sum

theorem sumAddr_asSum (base : Nat) (off : Int) : (sumAddr base off).asSum = some (base, off) := rfl

/-- a statement with its right-hand side already built by the operator overloads -/
inductive CStmt where
  | reg (no : Nat) (long : Bool) (e : Expr)
  | mem (fmt : Fmt) (base : Nat) (off : Int) (e : Expr)
deriving DecidableEq

def CStmt.emit : CStmt → GenM Unit
  | .reg no long e => setReg no long (.ex e)
  | .mem fmt base off e => setMem fmt (sumAddr base off) (.ex e)

def leavesOwnedB (o : List Nat) : Expr → Bool
  | .const _ => true
  | .reg no _ _ => o.contains no
  | .bin _ l r _ _ => leavesOwnedB o l && leavesOwnedB o r
  | .neg a => leavesOwnedB o a
  | .abs a => leavesOwnedB o a
  | .mem _ a => leavesOwnedB o a

theorem leavesOwnedB_sound {o : List Nat} : ∀ {e : Expr}, leavesOwnedB o e = true → leavesOwned o e := by
  intro e
  induction e with
  | const v => intro _; trivial
  | reg no lg sg => intro h; simpa [leavesOwnedB, leavesOwned] using h
  | bin op l r sg k ihl ihr => intro h; simp only [leavesOwnedB, Bool.and_eq_true] at h; exact ⟨ihl h.1, ihr h.2⟩
  | neg a ih => intro h; exact ih h
  | abs a ih => intro h; exact ih h
  | mem f a ih => intro h; exact ih h

/-- **the part of the language the theorem covers, with the defect classes excluded** (decidable): well-typed
(every register read is owned), inside the proved fragment, and not in the class `narrow-reg-in-64` -/
def CStmt.ok (o : List Nat) : CStmt → Bool
  | .reg no long e =>
    leavesOwnedB o e && e.frag && e.ringOnly && !narrowIn64 e long true (.reg no)
  | .mem fmt base _ e =>
    o.contains base && leavesOwnedB o e && e.frag && e.ringOnly && !narrowIn64 e fmt.isLong false .any

/-- `owners` after the statement -/
def CStmt.owners (o : List Nat) : CStmt → List Nat
  | .reg no _ _ => if o.contains no then o else no :: o
  | .mem _ _ _ _ => o

/-- **what the statement must do** (`o` = registers owned before it): under the shift-range precondition the
destination holds the mathematical value modulo 2^(8·size) in the destination's format; every other owned register
is unchanged; memory is unchanged except the destination's bytes -/
def CStmt.spec (o : List Nat) : CStmt → State → State → Prop
  | .reg no long e => fun σ σ' =>
    (shiftsOk σ long e → AgreeZ long (σ'.regs no) (evalZ σ e)) ∧
    (∀ n ∈ o, n ≠ no → σ'.regs n = σ.regs n) ∧ σ'.mem = σ.mem
  | .mem fmt base off e => fun σ σ' =>
    (∀ n ∈ o, σ'.regs n = σ.regs n) ∧
    (shiftsOk σ fmt.isLong e → σ'.mem = storeN σ.mem (σ.regs base + BitVec.ofInt 64 off) fmt.size
      (BitVec.ofInt 64 (evalZ σ e)).toNat)

def emitC : List CStmt → GenM Unit
  | [] => pure ()
  | s :: ss => do s.emit; emitC ss

def oks (o : List Nat) : List CStmt → Bool
  | [] => true
  | s :: ss => s.ok o && oks (s.owners o) ss

/-- sequential composition of the statement specifications -/
def specs (o : List Nat) : List CStmt → State → State → Prop
  | [] => fun σ σ' => σ'.regs = σ.regs ∧ σ'.mem = σ.mem
  | s :: ss => fun σ σ'' => ∃ σ', s.spec o σ σ' ∧ specs (s.owners o) ss σ' σ''

theorem stmt_correct (s : CStmt) (g g' : GenState) (hok : s.ok g.owners = true) (h : s.emit g = .ok ((), g')) :
    Emits g g' (s.spec g.owners) ∧ g'.owners = s.owners g.owners := by
  cases s with
  | reg no long e =>
    simp only [CStmt.emit] at h
    simp only [CStmt.ok, Bool.and_eq_true, Bool.not_eq_true'] at hok
    obtain ⟨⟨⟨h1, h2⟩, h3⟩, h5⟩ := hok
    have hp : PreReg e no long g := ⟨leavesOwnedB_sound h1, h2, h5⟩
    exact ⟨assign_correct_reg e no long g g' hp h3 h, (setReg_correct e no long g g' hp h).2⟩
  | mem fmt base off e =>
    simp only [CStmt.emit] at h
    simp only [CStmt.ok, Bool.and_eq_true, Bool.not_eq_true'] at hok
    obtain ⟨⟨⟨⟨h0, h1⟩, h2⟩, h3⟩, h5⟩ := hok
    have hp : PreMem e fmt base g := ⟨by simpa using h0, leavesOwnedB_sound h1, h2, h5⟩
    exact ⟨assign_correct_mem e fmt _ base off g g' (sumAddr_asSum base off) hp h3 h,
      (setMem_correct e fmt _ base off g g' (sumAddr_asSum base off) hp h).2⟩

theorem emits_seq {g g1 g2 : GenState} {P Q : State → State → Prop} (h1 : Emits g g1 P) (h2 : Emits g1 g2 Q) :
    Emits g g2 (fun σ σ'' => ∃ σ', P σ σ' ∧ Q σ' σ'') := by
  obtain ⟨⟨c1, hc1, hs1, hr1⟩, hst1⟩ := h1
  obtain ⟨⟨c2, hc2, hs2, hr2⟩, hst2⟩ := h2
  refine ⟨⟨c1 ++ c2, by rw [hc2, hc1, List.append_assoc], ?_, ?_⟩, by rw [hst2, hst1]⟩
  · intro i hi
    rcases List.mem_append.mp hi with hi | hi
    · exact hs1 i hi
    · exact hs2 i hi
  · intro σ
    obtain ⟨σ1, he1, hp⟩ := hr1 σ
    obtain ⟨σ2, he2, hq⟩ := hr2 σ1
    exact ⟨σ2, by rw [exec_append he1]; exact he2, σ1, hp, hq⟩

theorem stmts_correct (ss : List CStmt) : ∀ (g g' : GenState), oks g.owners ss = true → emitC ss g = .ok ((), g') →
    Emits g g' (specs g.owners ss) := by
  induction ss with
  | nil =>
    intro g g' _ h
    simp only [emitC] at h
    rw [pure_ok] at h
    cases h
    exact ⟨⟨[], by simp, by simp, fun σ => ⟨_, exec_nil σ, rfl, rfl⟩⟩, rfl⟩
  | cons s ss ih =>
    intro g g' hok h
    simp only [oks, Bool.and_eq_true] at hok
    simp only [emitC] at h
    rw [bind_ok] at h
    obtain ⟨u, g1, h1, h2⟩ := h
    obtain ⟨he, ho⟩ := stmt_correct s g g1 hok.1 h1
    have := ih g1 g' (by rw [ho]; exact hok.2) h2
    rw [ho] at this
    exact emits_seq he this

/-! ## from surface programs to `Ebpf.run` -/

/-- the statement after the operator overloads have built its right-hand side (`None` if Python raises) -/
def compile (env : List VarLoc) : Stmt → Option CStmt
  | .set d s =>
    match elabE env s with
    | .ok v =>
      match ensureExpr v with
      | .ok e =>
        match d with
        | .reg view no => some (.reg no view.long e)
        | .var name => (lookupVar env name).map fun l => .mem l.fmt l.base l.off e
      | .error _ => none
    | .error _ => none

def compileAll (env : List VarLoc) : List Stmt → Option (List CStmt)
  | [] => some []
  | s :: ss => match compile env s, compileAll env ss with
    | some c, some cs => some (c :: cs)
    | _, _ => none

theorem setReg_ensure {v : PyVal} {e : Expr} (h : ensureExpr v = .ok e) (no : Nat) (long : Bool) :
    setReg no long v = setReg no long (.ex e) := by
  cases v <;> simp [ensureExpr] at h <;> subst h <;> rfl

theorem setMem_ensure {v : PyVal} {e : Expr} (h : ensureExpr v = .ok e) (fmt : Fmt) (addr : Expr) :
    setMem fmt addr v = setMem fmt addr (.ex e) := by
  cases v <;> simp [ensureExpr] at h <;> subst h <;> rfl

theorem emitStmt_compile {env : List VarLoc} {st : Stmt} {cs : CStmt} (h : compile env st = some cs) :
    emitStmt env st = cs.emit := by
  cases st with
  | set d s =>
    funext g
    simp only [compile] at h
    simp only [emitStmt]
    cases hv : elabE env s with
    | error err => rw [hv] at h; simp at h
    | ok v =>
      rw [hv] at h
      simp only [] at h ⊢
      cases he : ensureExpr v with
      | error err => rw [he] at h; simp at h
      | ok e =>
        rw [he] at h
        simp only [] at h
        cases d with
        | reg view no =>
          simp only [Option.some.injEq] at h
          subst h
          simp only [CStmt.emit, setReg_ensure he]
        | var name =>
          simp only [] at h ⊢
          cases hl : lookupVar env name with
          | none => rw [hl] at h; simp at h
          | some l =>
            rw [hl] at h
            simp only [Option.map_some, Option.some.injEq] at h
            subst h
            simp only [CStmt.emit, varExpr, setMem_ensure he]
            rfl

theorem emitStmts_compile {env : List VarLoc} : ∀ {ss : List Stmt} {cs : List CStmt},
    compileAll env ss = some cs → emitStmts env ss = emitC cs := by
  intro ss
  induction ss with
  | nil => intro cs h; simp [compileAll] at h; subst h; rfl
  | cons s ss ih =>
    intro cs h
    simp only [compileAll] at h
    split at h
    · rename_i c cs' h1 h2
      cases h
      simp only [emitStmts, emitC, emitStmt_compile h1, ih h2]
    · cases h

/-- **C01 on built trees**: for every program all of whose statements are in the proved fragment and in none of the
defect classes (`oks`, decidable), if the generator accepts the program then for every machine state the emitted
code, run by the instruction-set semantics `Ebpf.run` from its first instruction, falls out at its end in a state
that satisfies the statement specifications in sequence (`specs`): each destination holds the mathematical value of
its expression modulo 2^(8·size) in the destination's format, every other owned register and all other memory are
unchanged. -/
theorem C01_core (p : Prog) (cs : List CStmt) (code : List Insn)
    (hcomp : compileAll (layout p.vars) p.stmts = some cs) (hok : oks p.owned cs = true)
    (hemit : emitProg p = .ok code) (σ : State) :
    ∃ σ', run code (code.length + 1) { σ with pc := 0 } = .fell { σ' with pc := code.length } ∧
      specs p.owned cs σ σ' := by
  unfold emitProg at hemit
  rw [emitStmts_compile hcomp] at hemit
  split at hemit
  · rename_i u g' hg
    cases hemit
    cases u
    obtain ⟨⟨c, hc, hst, hrun⟩, _⟩ := stmts_correct cs (initState p) g' hok hg
    simp only [initState, List.nil_append] at hc
    obtain ⟨σ', he, hsp⟩ := hrun σ
    rw [hc]
    exact ⟨σ', run_of_exec hst he _ (Nat.le_refl _), hsp⟩
  · cases hemit

/-! ## in terms of the surface program -/

def CStmt.rhs : CStmt → Expr
  | .reg _ _ e => e
  | .mem _ _ _ e => e

def _root_.Ebv.Gen.Stmt.rhs : Stmt → SExpr
  | .set _ s => s

/-- the surface-level side condition (decidable): no computed addresses.  (Until `Sum.__sub__` was repaired this
also excluded the class *sum-minus*, `Sum - expression`; see `before_fix_sum_minus` below.) -/
def _root_.Ebv.Gen.Stmt.surfaceOk (_env : List VarLoc) (st : Stmt) : Bool := st.rhs.noM

theorem compile_evalZ (env : List VarLoc) (σ : State) {st : Stmt} {cs : CStmt} (hc : compile env st = some cs)
    (hok : st.surfaceOk env = true) : evalZ σ cs.rhs = st.rhs.evalZ env σ := by
  cases st with
  | set d s =>
    simp only [Stmt.surfaceOk, Stmt.rhs] at hok
    simp only [compile] at hc
    cases hv : elabE env s with
    | error err => rw [hv] at hc; simp at hc
    | ok v =>
      rw [hv] at hc
      simp only [] at hc
      cases he : ensureExpr v with
      | error err => rw [he] at hc; simp at hc
      | ok e =>
        rw [he] at hc
        simp only [] at hc
        have hev : evalZ σ e = v.evalZ σ := by
          cases v <;> simp [ensureExpr] at he <;> subst he <;> rfl
        have hrhs : cs.rhs = e := by
          cases d with
          | reg view no => simp only [Option.some.injEq] at hc; subst hc; rfl
          | var name =>
            simp only [] at hc
            cases hl : lookupVar env name with
            | none => rw [hl] at hc; simp at hc
            | some l => rw [hl] at hc; simp only [Option.map_some, Option.some.injEq] at hc; subst hc; rfl
        rw [hrhs, hev]
        exact elab_evalZ env σ s v hok hv

/-- the specification of a statement **in terms of the surface expression the user wrote**: the destination holds
the Python-integer value of that expression modulo 2^(8·size), in the destination's format -/
def specS (env : List VarLoc) (o : List Nat) (st : Stmt) : CStmt → State → State → Prop
  | .reg no long e => fun σ σ' =>
    (shiftsOk σ long e → AgreeZ long (σ'.regs no) (st.rhs.evalZ env σ)) ∧
    (∀ n ∈ o, n ≠ no → σ'.regs n = σ.regs n) ∧ σ'.mem = σ.mem
  | .mem fmt base off e => fun σ σ' =>
    (∀ n ∈ o, σ'.regs n = σ.regs n) ∧
    (shiftsOk σ fmt.isLong e → σ'.mem = storeN σ.mem (σ.regs base + BitVec.ofInt 64 off) fmt.size
      (BitVec.ofInt 64 (st.rhs.evalZ env σ)).toNat)

def specsS (env : List VarLoc) : List Nat → List Stmt → List CStmt → State → State → Prop
  | _, [], [] => fun σ σ' => σ'.regs = σ.regs ∧ σ'.mem = σ.mem
  | o, st :: sts, c :: cs => fun σ σ'' => ∃ σ', specS env o st c σ σ' ∧ specsS env (c.owners o) sts cs σ' σ''
  | _, _, _ => fun _ _ => False

theorem specs_surface (env : List VarLoc) : ∀ (sts : List Stmt) (cs : List CStmt) (o : List Nat) (σ σ' : State),
    compileAll env sts = some cs → (sts.all (·.surfaceOk env)) = true → specs o cs σ σ' → specsS env o sts cs σ σ' := by
  intro sts
  induction sts with
  | nil =>
    intro cs o σ σ' hc _ h
    simp [compileAll] at hc; subst hc
    exact h
  | cons st sts ih =>
    intro cs o σ σ'' hc hok h
    simp only [compileAll] at hc
    split at hc
    · rename_i c cs' h1 h2
      cases hc
      simp only [List.all_cons, Bool.and_eq_true] at hok
      obtain ⟨σ', hsp, hrest⟩ := h
      refine ⟨σ', ?_, ih cs' _ σ' σ'' h2 hok.2 hrest⟩
      have hz := fun τ => compile_evalZ env τ h1 hok.1
      cases c with
      | reg no long e => simp only [CStmt.spec, specS, CStmt.rhs] at hsp hz ⊢; rw [← hz σ]; exact hsp
      | mem fmt base off e => simp only [CStmt.spec, specS, CStmt.rhs] at hsp hz ⊢; rw [← hz σ]; exact hsp
    · cases hc

/-! ## the property -/

/-- every hypothesis of `C01_partial` as one decidable predicate on the program: surface side conditions (no
computed addresses), every statement's right-hand side can be built, and every built statement is
well-typed, inside the proved fragment and not in the class *narrow-reg-in-64* -/
def progOk (p : Prog) : Bool :=
  p.stmts.all (·.surfaceOk (layout p.vars)) &&
    (match compileAll (layout p.vars) p.stmts with
      | some cs => oks p.owned cs
      | none => false)

/-- **C01 (partial)** — integer DSL expressions compute the exact value.  For every program satisfying `progOk`
that the generator accepts and every machine state: running the emitted code (`Ebpf.run`, from its first
instruction) falls out at its end, and statement by statement the destination holds the Python-integer value of
the surface expression modulo 2^(8·size) in the destination's format (under the shift-range precondition), while
every other owned register and all memory outside the destination are unchanged. -/
theorem C01_partial (p : Prog) (code : List Insn) (hok : progOk p = true) (hemit : emitProg p = .ok code) (σ : State) :
    ∃ cs, compileAll (layout p.vars) p.stmts = some cs ∧
      ∃ σ', run code (code.length + 1) { σ with pc := 0 } = .fell { σ' with pc := code.length } ∧
        specsS (layout p.vars) p.owned p.stmts cs σ σ' := by
  simp only [progOk, Bool.and_eq_true] at hok
  obtain ⟨hs, hc⟩ := hok
  split at hc
  · rename_i cs hcs
    obtain ⟨σ', hrun, hsp⟩ := C01_core p cs code hcs hc hemit σ
    exact ⟨cs, hcs, σ', hrun, specs_surface _ _ _ _ _ _ hcs hs hsp⟩
  · cases hc

/-- the statement without the class exclusions: well-typed programs of the ring fragment (stages 1–2) -/
def CStmt.typed (o : List Nat) : CStmt → Bool
  | .reg _ _ e => leavesOwnedB o e && e.frag && e.ringOnly
  | .mem _ base _ e => o.contains base && leavesOwnedB o e && e.frag && e.ringOnly

def typeds (o : List Nat) : List CStmt → Bool
  | [] => true
  | s :: ss => s.typed o && typeds (s.owners o) ss

def progTyped (p : Prog) : Bool :=
  p.stmts.all (·.rhs.noM) &&
    (match compileAll (layout p.vars) p.stmts with
      | some cs => typeds p.owned cs
      | none => false)

/-- **the full-strength statement** (what the property text asks for on the ring fragment) -/
def C01_full : Prop := ∀ (p : Prog) (code : List Insn), progTyped p = true → emitProg p = .ok code → ∀ σ : State,
  ∃ cs, compileAll (layout p.vars) p.stmts = some cs ∧
    ∃ σ', run code (code.length + 1) { σ with pc := 0 } = .fell { σ' with pc := code.length } ∧
      specsS (layout p.vars) p.owned p.stmts cs σ σ'

/-! ## non-vacuity and refutations (concrete programs and machine states; closed by kernel evaluation of the
generator model and of `Ebpf.run`) -/

/-- a machine state given by a few register values and memory bytes (everything else 0) -/
def st0 (regs : List (Nat × Nat)) (mem : List (Nat × Nat) := []) : State :=
  { regs := fun k => BitVec.ofNat 64 (((regs.find? (·.1 == k)).map (·.2)).getD 0),
    mem := fun a => BitVec.ofNat 8 (((mem.find? (·.1 == a.toNat)).map (·.2)).getD 0), pc := 0 }

def codeOf (p : Prog) : List Insn := match emitProg p with | .ok c => c | .error _ => []

theorem codeOf_ok (p : Prog) (h : (emitProg p).toOption.isSome = true) : emitProg p = .ok (codeOf p) := by
  unfold codeOf
  cases hc : emitProg p with
  | ok c => rfl
  | error e => rw [hc] at h; simp [Except.toOption] at h

/-- register `k` after running the code from `s` (0 if the run does not fall out at the end) -/
def regAfter (code : List Insn) (s : State) (k : Nat) : Nat :=
  match run code (code.length + 1) s with
  | .fell s' => (s'.regs k).toNat
  | _ => 0

theorem regAfter_of_run {code : List Insn} {s s' : State} {k : Nat}
    (h : run code (code.length + 1) s = .fell { s' with pc := code.length }) : regAfter code s k = (s'.regs k).toNat := by
  unfold regAfter; rw [h]

def stdVars : List VarDecl := [⟨"vq", .q, .loc⟩, ⟨"vh", .h, .loc⟩, ⟨"vb", .b, .loc⟩, ⟨"vI", .I, .loc⟩]

/-- the value the property asks for, as a 64-bit pattern -/
def want (p : Prog) (σ : State) (s : SExpr) : Nat := (BitVec.ofInt 64 (s.evalZ (layout p.vars) σ)).toNat

/-- `self.w2 = (self.r3 + self.vh) * 5 - (self.sw4 << 3)`; `self.vq = -(self.vb * self.r3) ^ 0x123456789`:
satisfies every hypothesis of `C01_partial` and is accepted by the generator (18 instructions) -/
def pGood : Prog := ⟨[1, 3, 4, 10], stdVars,
  [.set (.reg .w 2) (.bin .sub (.bin .mul (.bin .add (.reg .r 3) (.var "vh")) (.c 5)) (.bin .lsh (.reg .sw 4) (.c 3))),
   .set (.var "vq") (.bin .xor (.neg (.bin .mul (.var "vb") (.reg .r 3))) (.c 0x123456789))]⟩

example : progOk pGood = true ∧ (emitProg pGood).toOption.isSome = true ∧ (codeOf pGood).length = 18 := by
  decide +kernel

/-! ### unary operators work on a copy (repaired: was class *unary-in-place*)

`self.vq = -self.r3`.  Before the fix `Unary.calculate` handed its own arguments on to the operand; an unforced
`Register.calculate` yields the register itself, so the `NEG` negated the user's r3.  Now the operator asks for a
register first (`get_free_register(dst)`) and forces its operand into it. -/
def p1 : Prog := ⟨[1, 3, 10], stdVars, [.set (.var "vq") (.neg (.reg .r 3))]⟩
def s1 : State := st0 [(3, 1), (10, 4096)]

/-- what `self.vq = -self.r3` emitted **before the fix** -/
def before_fix_code1 : List Insn :=
  [⟨Consts.op_NEG + Consts.op_LONG, 3, 0, 0, 0⟩, ⟨Consts.op_STX + Consts.op_DW, 10, 3, -8, 0⟩]

/-- **regression witness** (formerly `unary_in_place_refuted`): the old code leaves −1 in r3 (it was 1); the repaired
generator copies r3 into the free register r0 and negates that, `p1` satisfies every hypothesis of `C01_partial`, and
r3 keeps its value -/
theorem before_fix_unary_in_place :
    regAfter before_fix_code1 s1 3 = 18446744073709551615 ∧
    progOk p1 = true ∧
    (emitProg p1).toOption = some [⟨Consts.op_MOV + Consts.op_REG + Consts.op_LONG, 0, 3, 0, 0⟩,
      ⟨Consts.op_NEG + Consts.op_LONG, 0, 0, 0, 0⟩, ⟨Consts.op_STX + Consts.op_DW, 10, 0, -8, 0⟩] ∧
    regAfter (codeOf p1) s1 3 = 1 := by
  decide +kernel

/-! ### unary operators in a 64-bit computation (repaired: was class *unary-32-in-64*)

`self.r2 = -self.vb`.  `Memory.calculate` loads the byte sign-extended to the 64 bits it is asked for but yields its
own width flag (32 bits); `Unary.calculate` took that flag and negated in 32 bits, which clears the upper half.  Now
`long = long or arg_long`: 64 bits if the caller asks for them or the operand has them. -/
def e2 : SExpr := .neg (.var "vb")
def p2 : Prog := ⟨[1, 10], stdVars, [.set (.reg .r 2) e2]⟩
def s2 : State := st0 [(10, 4096)] [(4085, 1)]

/-- what `self.r2 = -self.vb` emitted **before the fix** (the last instruction is the 32-bit `NEG`) -/
def before_fix_code2 : List Insn :=
  [⟨Consts.op_LD + Consts.op_B, 2, 10, -11, 0⟩, ⟨Consts.op_LSH + Consts.op_LONG, 2, 0, 0, 56⟩,
   ⟨Consts.op_ARSH + Consts.op_LONG, 2, 0, 0, 56⟩, ⟨Consts.op_NEG, 2, 0, 0, 0⟩]

/-- **regression witness** (formerly `unary_32_in_64_refuted`): with vb = 1 the old code leaves 0xffffffff in r2 where
the property asks for −1; the repaired generator negates in 64 bits, `p2` satisfies every hypothesis of `C01_partial`
and the code computes −1 -/
theorem before_fix_unary_32_in_64 :
    regAfter before_fix_code2 s2 2 = 4294967295 ∧ want p2 s2 e2 = 18446744073709551615 ∧
    progOk p2 = true ∧
    (emitProg p2).toOption = some [⟨Consts.op_LD + Consts.op_B, 2, 10, -11, 0⟩, ⟨Consts.op_LSH + Consts.op_LONG, 2, 0, 0, 56⟩,
      ⟨Consts.op_ARSH + Consts.op_LONG, 2, 0, 0, 56⟩, ⟨Consts.op_NEG + Consts.op_LONG, 2, 0, 0, 0⟩] ∧
    regAfter (codeOf p2) s2 2 = 18446744073709551615 := by decide +kernel

/-- *narrow-reg-in-64*: `self.sr2 = self.sw3 * 1` with sw3 = −1 is zero-extended -/
def e3 : SExpr := .bin .mul (.reg .sw 3) (.c 1)
def p3 : Prog := ⟨[1, 3, 10], stdVars, [.set (.reg .sr 2) e3]⟩
def s3 : State := st0 [(3, 0xffffffff), (10, 4096)]
theorem narrow_reg_in_64_refuted : progTyped p3 = true ∧ (emitProg p3).toOption.isSome = true ∧
    regAfter (codeOf p3) s3 2 = 4294967295 ∧ want p3 s3 e3 = 18446744073709551615 := by decide +kernel

/-- **the generator still violates the full-strength statement** (witness: *narrow-reg-in-64*) -/
theorem C01_full_refuted : ¬ C01_full := by
  intro h
  obtain ⟨ht, hacc, hreg, hwant⟩ := narrow_reg_in_64_refuted
  obtain ⟨cs, hcs, σ', hrun, hsp⟩ := h p3 (codeOf p3) ht (codeOf_ok p3 hacc) s3
  have hcs' : compileAll (layout p3.vars) p3.stmts =
      some [CStmt.reg 2 true (.bin .mul (.reg 3 false true) (.const 1) true .plain)] := by
    decide +kernel
  rw [hcs'] at hcs
  cases hcs
  simp only [p3, specsS, specS] at hsp
  obtain ⟨σ1, ⟨hval, _, _⟩, hregs, _⟩ := hsp
  have hv := hval ⟨trivial, trivial, fun h => by cases h⟩
  simp only [AgreeZ, if_true] at hv
  have h2 : (σ'.regs 2).toNat = want p3 s3 e3 := by rw [hregs, hv]; rfl
  have := regAfter_of_run (k := 2) hrun
  have e : ({ s3 with pc := 0 } : State) = s3 := rfl
  rw [e, hreg, h2, hwant] at this
  revert this
  decide

/-! ### `Sum - expression`, `Sum ± int`, one `Sum` object used twice (repaired: was class *sum-minus*)

`self.r2 = (self.r5 + 3) - self.r3`.  Before the fix `Sum.__sub__` fell back to `__add__` for a non-integer operand
and built `Binary(Sum(r5, 3), r3, ADD)`; `Sum ± int` changed the `Constant` of the `Sum` in place and returned `None`.
The regression witness keeps the old tree by hand; the statement about the generator as it is now is `C01_partial`
at full strength (`p4` satisfies `progOk`). -/
def e4 : SExpr := .bin .sub (.bin .add (.reg .r 5) (.c 3)) (.reg .r 3)
def p4 : Prog := ⟨[1, 3, 5, 10], stdVars, [.set (.reg .r 2) e4]⟩
def s4 : State := st0 [(3, 4), (5, 10), (10, 4096)]

/-- the `Expression` object the operator overloads build for a surface expression -/
def builtTree (p : Prog) (e : SExpr) : Option Expr :=
  match elabE (layout p.vars) e with
  | .ok (.ex x) => some x
  | _ => none

/-- the object `(self.r5 + 3) - self.r3` was **before the fix**: `Binary(Sum(r5, 3), r3, ADD)` -/
def before_fix_tree4 : Expr :=
  .bin .add (.bin .add (.reg 5 true false) (.const 3) false .sum) (.reg 3 true false) false .plain

/-- what `self.r2 = <that object>` emits -/
def before_fix_code4 : List Insn :=
  match setReg 2 true (.ex before_fix_tree4) (initState p4) with
  | .ok (_, g) => g.code
  | .error _ => []

/-- **regression witness** (formerly `sum_minus_refuted`): the tree the unrepaired `Sum.__sub__` built computes
r5 + 3 + r3 = 17 where the surface expression means 9; the repaired operator protocol builds the `SUB` tree, `p4`
satisfies every hypothesis of `C01_partial`, is accepted, and the emitted code computes 9 -/
theorem before_fix_sum_minus :
    regAfter before_fix_code4 s4 2 = 17 ∧ want p4 s4 e4 = 9 ∧
    builtTree p4 e4 = some (.bin .sub (.bin .add (.reg 5 true false) (.const 3) false .sum)
      (.reg 3 true false) false .plain) ∧
    progOk p4 = true ∧ (emitProg p4).toOption.isSome = true ∧ regAfter (codeOf p4) s4 2 = 9 := by decide +kernel

/-- one `Sum` object used twice with different added constants, `s = self.r5 + 3; self.r2 = (s + 4) * (2 + (s - 1))`:
`Sum ± int` and `int + Sum` build new `Sum` objects (r5 + 7, r5 + 2, r5 + 2), `s` keeps its constant; inside
`C01_partial`, accepted, (10 + 7) · (2 + 12) = 238 -/
def e4s : SExpr := .bin .add (.reg .r 5) (.c 3)
def e4a : SExpr := .bin .mul (.bin .add e4s (.c 4)) (.bin .add (.c 2) (.bin .sub e4s (.c 1)))
def p4a : Prog := ⟨[1, 3, 5, 10], stdVars, [.set (.reg .r 2) e4a]⟩

example : builtTree p4a (.bin .add e4s (.c 4)) = some (.bin .add (.reg 5 true false) (.const 7) false .sum) ∧
    builtTree p4a (.bin .add (.c (-9)) (.bin .sub e4s (.c 1))) = some (.bin .add (.reg 5 true false) (.const (-7)) true .sum) ∧
    builtTree p4a e4s = some (.bin .add (.reg 5 true false) (.const 3) false .sum) ∧
    progOk p4a = true ∧ (emitProg p4a).toOption.isSome = true ∧
    regAfter (codeOf p4a) s4 2 = 238 ∧ want p4a s4 e4a = 238 := by decide +kernel

/-! ### `abs` in a 32-bit computation (repaired: was class *abs-32*)

`self.w2 = abs(self.sw3)`.  Before the fix `Absolute.calculate_unary` tested the sign with the 64-bit `JSGE` on a
register whose upper half is zero after the 32-bit move, so nothing was negated.  Now the sign test and the negation
have the width of the computation (`JSGE + SHORT`, 32-bit `NEG`); 64-bit computations emit what they did before. -/
def e5 : SExpr := .abs (.reg .sw 3)
def p5 : Prog := ⟨[1, 3, 10], stdVars, [.set (.reg .w 2) e5]⟩
def s5 : State := st0 [(3, 0xffffffff), (10, 4096)]

/-- what `self.w2 = abs(self.sw3)` emitted **before the fix** -/
def before_fix_code5 : List Insn :=
  [⟨Consts.op_MOV + Consts.op_REG, 2, 3, 0, 0⟩, ⟨Consts.op_JSGE, 2, 0, 1, 0⟩, ⟨Consts.op_NEG + Consts.op_LONG, 2, 0, 0, 0⟩]

/-- **regression witness** (formerly `abs_32_refuted`): with sw3 = −1 the old code leaves 0xffffffff in w2 where the
property asks for 1; the repaired generator emits the 32-bit sign test and negation and computes 1; the 64-bit
`self.r2 = abs(self.sr3)` is emitted as before -/
theorem before_fix_abs_32 :
    regAfter before_fix_code5 s5 2 % 2 ^ 32 = 4294967295 ∧ want p5 s5 e5 % 2 ^ 32 = 1 ∧
    (emitProg p5).toOption = some [⟨Consts.op_MOV + Consts.op_REG, 2, 3, 0, 0⟩,
      ⟨Consts.op_JSGE + Consts.op_SHORT, 2, 0, 1, 0⟩, ⟨Consts.op_NEG, 2, 0, 0, 0⟩] ∧
    regAfter (codeOf p5) s5 2 % 2 ^ 32 = 1 ∧
    (emitProg ⟨[1, 3, 10], stdVars, [.set (.reg .r 2) (.abs (.reg .sr 3))]⟩).toOption =
      some [⟨Consts.op_MOV + Consts.op_REG + Consts.op_LONG, 2, 3, 0, 0⟩, ⟨Consts.op_JSGE, 2, 0, 1, 0⟩,
        ⟨Consts.op_NEG + Consts.op_LONG, 2, 0, 0, 0⟩] := by decide +kernel

/-! ### the typing of `register ± int` and of `&` (repaired; the checks had not seen it, see DESIGN §10.5)

`self.sr2 = (self.sr3 + 1) >> 1`.  `Sum.__init__` took the signedness of `register ± int` from the sign of the number
alone (`right.value < 0`) and forgot the register's: `sr3 + 1` was unsigned, so `>>` chose the logical `RSH`.  Two
relatives: the number a `Sum` keeps is the merged one (`r3 - 1` keeps −1 and was signed although `w3 - 1`, `r3 - r4` are
not; `(r3 + -1) + 1` keeps 0 and lost its signedness), and `&` was always unsigned (`sr3 & sr4` is negative when both
are).  The object trees of the unrepaired code are kept by hand. -/
def e8 : SExpr := .bin .rsh (.bin .add (.reg .sr 3) (.c 1)) (.c 1)
def p8 : Prog := ⟨[1, 3, 4, 10], stdVars, [.set (.reg .sr 2) e8]⟩
def s8 : State := st0 [(3, 18446744073709551611), (4, 18446744073709551612), (10, 4096)]     -- sr3 = −5, sr4 = −4

/-- what `self.sr2 = <tree>` emits in the initial state of `p8` -/
def codeOfTree (t : Expr) : List Insn :=
  match setReg 2 true (.ex t) (initState p8) with
  | .ok (_, g) => g.code
  | .error _ => []

/-- the object `(self.sr3 + 1) >> 1` was **before the fix**: the `Sum` unsigned, hence `RSH` -/
def before_fix_tree8 : Expr :=
  .bin .rsh (.bin .add (.reg 3 true true) (.const 1) false .sum) (.const 1) false .plain

/-- **regression witness**: with sr3 = −5 the old tree shifts logically (0x7ffffffffffffffe) where the property asks
for (−4) >> 1 = −2; the repaired operator protocol types the `Sum` signed and builds the `ARSH` tree, `psigned` of the
text says signed, and the emitted code computes −2 -/
theorem before_fix_sum_signed :
    regAfter (codeOfTree before_fix_tree8) s8 2 = 9223372036854775806 ∧ want p8 s8 e8 = 18446744073709551614 ∧
    builtTree p8 e8 = some (.bin .arsh (.bin .add (.reg 3 true true) (.const 1) true .sum) (.const 1) true .plain) ∧
    (SExpr.bin .add (.reg .sr 3) (.c 1)).psigned (layout p8.vars) = true ∧
    (emitProg p8).toOption.isSome = true ∧ regAfter (codeOf p8) s8 2 = 18446744073709551614 := by decide +kernel

/-- the merged number: `r3 - 1` keeps −1 but is unsigned like `w3 - 1` (it was signed); `(r3 + -1) + 1` keeps 0 but
stays signed (it was unsigned); `(r3 - 1) + 1` is unsigned; the text decides, as `psigned` says -/
theorem before_fix_sum_merged :
    builtTree p8 (.bin .sub (.reg .r 3) (.c 1)) = some (.bin .add (.reg 3 true false) (.const (-1)) false .sum) ∧
    builtTree p8 (.bin .add (.bin .add (.reg .r 3) (.c (-1))) (.c 1)) =
      some (.bin .add (.reg 3 true false) (.const 0) true .sum) ∧
    builtTree p8 (.bin .add (.bin .sub (.reg .r 3) (.c 1)) (.c 1)) =
      some (.bin .add (.reg 3 true false) (.const 0) false .sum) ∧
    (SExpr.bin .sub (.reg .r 3) (.c 1)).psigned (layout p8.vars) = false ∧
    (SExpr.bin .add (.bin .add (.reg .r 3) (.c (-1))) (.c 1)).psigned (layout p8.vars) = true := by decide +kernel

/-- `self.sr2 = (self.sr3 & self.sr4) >> 1`, as it was **before the fix**: the `AndExpression` unsigned, hence `RSH` -/
def e8a : SExpr := .bin .rsh (.bin .and (.reg .sr 3) (.reg .sr 4)) (.c 1)
def before_fix_tree8a : Expr :=
  .bin .rsh (.bin .and (.reg 3 true true) (.reg 4 true true) false .and) (.const 1) false .plain

/-- **regression witness**: −5 & −4 = −8, (−8) >> 1 = −4; the old tree shifts logically; now `&` of two signed operands is
signed (with one unsigned operand it stays unsigned: the result cannot be negative) -/
theorem before_fix_and_signed :
    regAfter (codeOfTree before_fix_tree8a) s8 2 = 9223372036854775804 ∧ want p8 s8 e8a = 18446744073709551612 ∧
    builtTree p8 e8a = some (.bin .arsh (.bin .and (.reg 3 true true) (.reg 4 true true) true .and) (.const 1) true .plain) ∧
    builtTree p8 (.bin .and (.reg .sr 3) (.reg .r 4)) = some (.bin .and (.reg 3 true true) (.reg 4 true false) false .and) ∧
    regAfter (codeOfTree ((builtTree p8 e8a).getD (.const 0))) s8 2 = 18446744073709551612 := by decide +kernel

/-- **the implementation's typing is the property's typing**: for every statement of every program, the `signed`
attribute of the object the operator overloads build for the right-hand side (`Expr.signed`; for a folded Python `int`
the sign of the number) is `psigned` of the expression as written -/
theorem typing_exact (p : Prog) (d : Dest) (e : SExpr) (v : PyVal) (_hst : Stmt.set d e ∈ p.stmts)
    (h : elabE (layout p.vars) e = .ok v) : v.signed = e.psigned (layout p.vars) :=
  (elab_psigned (layout p.vars) e v h).2

/-- *divmod-negative* (stage 3): `self.sr2 = self.sr3 // 2` with sr3 = −6: the unsigned DIV gives neither the
flooring nor the truncating quotient (both −3) -/
def e6 : SExpr := .bin .floordiv (.reg .sr 3) (.c 2)
def p6 : Prog := ⟨[1, 3, 10], stdVars, [.set (.reg .sr 2) e6]⟩
def s6 : State := st0 [(3, 18446744073709551610), (10, 4096)]
theorem divmod_negative_refuted : (emitProg p6).toOption.isSome = true ∧
    regAfter (codeOf p6) s6 2 = 9223372036854775805 ∧ want p6 s6 e6 = 18446744073709551613 ∧
    Int.fdiv (-6) 2 = Int.tdiv (-6) 2 := by decide +kernel

/-- *rshift-negative-logical* (stage 3): `self.w2 = (self.w3 - self.w4) >> 1` with w3 = 0, w4 = 2: the value is
typed unsigned, the shift is logical -/
def e7 : SExpr := .bin .rsh (.bin .sub (.reg .w 3) (.reg .w 4)) (.c 1)
def p7 : Prog := ⟨[1, 3, 4, 10], stdVars, [.set (.reg .w 2) e7]⟩
def s7 : State := st0 [(3, 0), (4, 2), (10, 4096)]
theorem rshift_negative_refuted : (emitProg p7).toOption.isSome = true ∧
    regAfter (codeOf p7) s7 2 % 2 ^ 32 = 2147483647 ∧ want p7 s7 e7 % 2 ^ 32 = 4294967295 := by decide +kernel

/-! ## the inlined sign extension of `load` is what the generic path produces -/

/-- `regs[dst] = (regs[dst] << shift) >> shift` through `RegisterArray.__setitem__` (view `sr` if `lg` else `sw`) -/
def shiftExpr (dst : Nat) (lg : Bool) (shift : Int) : Expr :=
  .bin .arsh (.bin .lsh (.reg dst lg true) (.const shift) true .plain) (.const shift) true .plain

theorem load_shift_is_setitem (dst : Nat) (lg : Bool) (shift : Int) (hs : isSmall shift = true)
    (hr : 0 ≤ shift ∧ shift < (if lg then 64 else 32)) (g : GenState) :   -- `Binary.calculate` refuses other shift counts
    setReg dst lg (.ex (shiftExpr dst lg shift)) g =
      (do addOwner dst
          emit ⟨Consts.op_LSH + longBit lg, dst, 0, 0, shift⟩
          emit ⟨Consts.op_ARSH + longBit lg, dst, 0, 0, shift⟩ : GenM Unit) g := by
  by_cases hm : dst ∈ g.owners <;>
    simp [setReg, shiftExpr, ensureExpr, calculate, binRight, binFinish, Expr.asSmallConst, hs, Expr.containsOpt,
      Expr.contains, getFree, bind, GenM.bind, pure, GenM.pure, addOwner, getOwners, hm, emit, release, BinOp.opcode,
      badImm, hr.1, hr.2]

/-- the shift counts `load` uses are inside that range: 32 or 64 minus the 8, 16 or 32 bits of the format -/
theorem load_shift_in_range (fmt : Fmt) (lg : Bool) (h : fmt = .h ∨ fmt = .b ∨ (lg = true ∧ fmt = .i)) :
    0 ≤ ((if lg then 64 else 32) - fmt.size * 8 : Int) ∧ ((if lg then 64 else 32) - fmt.size * 8 : Int) < (if lg then 64 else 32) := by
  rcases h with h | h | ⟨h1, h⟩ <;> subst h <;> cases lg <;> simp_all [Fmt.size]

end Ebv.C01
