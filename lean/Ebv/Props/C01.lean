import Ebv.Model.Gen
/-! C01 — placeholder while the proofs are being built (replaced below). -/
namespace Ebv.C01
end Ebv.C01
