import Ebv.Props.C26TVd
import Ebv.Lemmas.XdpList
/-! C26 translation validation, part e: the frame the segments leave (`pkRaw`, in the order the program writes it)
equals `activate` + enable bit + the velocity `Ebv.Motor.program` computes from the inputs read from the frame. -/
namespace Ebv.C26TV
open Ebv.Ebpf Ebv.XdpRun Ebv.Bytes Ebv.Motor

def pkAct (p : List UInt8) : List UInt8 := setRange (setRange p 48 (encLE 1 5)) 62 (encLE 2 0)
def pkEn (q : List UInt8) (cs : List Nat) : List UInt8 :=
  setRange q 58 (encLE 1 (if cs.getD 0 0 = 0 then decLE (slice q 58 59) &&& 254 else decLE (slice q 58 59) ||| 1))
def pkVel (q : List UInt8) (v : Int) : List UInt8 := setRange q 60 (encLE 2 (ofSigned 2 v))
def pkLow (q : List UInt8) : List UInt8 :=
  if decLE (slice q 41 42) &&& 16 ≠ 0 ∧ toSigned 2 (decLE (slice q 60 62)) < 0 then setRange q 60 (encLE 2 0) else q
def pkHigh (q : List UInt8) : List UInt8 :=
  if decLE (slice q 41 42) &&& 8 ≠ 0 ∧ 0 < toSigned 2 (decLE (slice q 60 62)) then setRange q 60 (encLE 2 0) else q
def errAct (p : List UInt8) (er : Nat) : Nat := if decLE (slice p 62 64) = 1 then er else (er + 1) % 4294967296

/-- the frame as the segments leave it, in the order the program writes it -/
def pkRaw (p : List UInt8) (cs : List Nat) : List UInt8 :=
  pkHigh (pkLow (pkVel (pkEn (pkAct p) cs) (wrapS 16 (vR4 (inp (pkEn (pkAct p) cs) cs)))))

theorem wrap16_fits (x : Int) : fitsS 2 (wrapS 16 x) = true := by
  have e1 : (2 : Int) ^ 16 = 65536 := by decide
  have e2 : (2 : Int) ^ (16 - 1) = 32768 := by decide
  simp only [fitsS, wrapS, e1, e2, Bool.and_eq_true, decide_eq_true_eq]
  split <;> omega

theorem ofSigned2_lt (v : Int) : ofSigned 2 v < 65536 := by
  have e : (2 : Int) ^ (8 * 2) = 65536 := by decide
  simp only [ofSigned, e]; omega

/-- reading back the velocity field just written -/
theorem vel_readback (q : List UInt8) (v : Int) (h : 62 ≤ q.length) (hv : fitsS 2 v = true) :
    toSigned 2 (decLE (slice (setRange q 60 (encLE 2 (ofSigned 2 v))) 60 62)) = v := by
  rw [show (62 : Nat) = 60 + 2 from rfl, slice_setRange_enc_same q 60 2 _ (by omega),
    decLE_encLE 2 _ (by have := ofSigned2_lt v; simpa using this), toSigned_ofSigned 2 (by omega) v hv]


theorem ofSigned2_zero : ofSigned 2 0 = 0 := by decide

theorem pkLow_pkVel (q : List UInt8) (v : Int) (h : 62 ≤ q.length) (hv : fitsS 2 v = true) :
    pkLow (pkVel q v) = pkVel q (if decLE (slice q 41 42) &&& 16 ≠ 0 ∧ v < 0 then 0 else v) := by
  unfold pkLow
  rw [show pkVel q v = setRange q 60 (encLE 2 (ofSigned 2 v)) from rfl, vel_readback q v h hv,
    slice_setRange_enc q 60 2 _ 41 42 (by omega) (by omega) (by omega)]
  split
  · rw [← ofSigned2_zero, setRange_setRange_same q 60 2 _ _ (by omega)]; rfl
  · rfl

theorem pkHigh_pkVel (q : List UInt8) (v : Int) (h : 62 ≤ q.length) (hv : fitsS 2 v = true) :
    pkHigh (pkVel q v) = pkVel q (if decLE (slice q 41 42) &&& 8 ≠ 0 ∧ 0 < v then 0 else v) := by
  unfold pkHigh
  rw [show pkVel q v = setRange q 60 (encLE 2 (ofSigned 2 v)) from rfl, vel_readback q v h hv,
    slice_setRange_enc q 60 2 _ 41 42 (by omega) (by omega) (by omega)]
  split
  · rw [← ofSigned2_zero, setRange_setRange_same q 60 2 _ _ (by omega)]; rfl
  · rfl

/-- the fields the control law reads are not touched by `activate` and the enable bit -/
theorem inp_pkEn_pkAct (p : List UInt8) (cs : List Nat) (h : 63 < p.length) : inp (pkEn (pkAct p) cs) cs = inp p cs := by
  have l1 := length_setRange_enc p 48 1 5 (by omega)
  have l2 := length_setRange_enc (setRange p 48 (encLE 1 5)) 62 2 0 (by omega)
  have hs : ∀ c d, c ≤ d → d ≤ 48 → slice (pkEn (pkAct p) cs) c d = slice p c d := fun c d hcd hd => by
    unfold pkEn pkAct
    rw [slice_setRange_enc _ 58 1 _ c d (by omega) (by omega) hcd,
      slice_setRange_enc _ 62 2 _ c d (by omega) (by omega) hcd,
      slice_setRange_enc _ 48 1 _ c d (by omega) (by omega) hcd]
  have h60 : slice (pkEn (pkAct p) cs) 60 62 = slice p 60 62 := by
    unfold pkEn pkAct
    rw [slice_setRange_enc _ 58 1 _ 60 62 (by omega) (by omega) (by omega),
      slice_setRange_enc _ 62 2 _ 60 62 (by omega) (by omega) (by omega),
      slice_setRange_enc _ 48 1 _ 60 62 (by omega) (by omega) (by omega)]
  simp only [inp, hs 42 46 (by omega) (by omega), hs 41 42 (by omega) (by omega), h60]

theorem program_eq (i : Inputs) : program i =
    (if i.high && decide ((if i.low && decide (wrapS 16 (vR4 i) < 0) then 0 else wrapS 16 (vR4 i)) > 0) then 0
      else (if i.low && decide (wrapS 16 (vR4 i) < 0) then 0 else wrapS 16 (vR4 i))) := rfl

/-- the frame the enabled pass leaves: `activate`, the enable bit, and the velocity `Motor.program` computes -/
theorem pkRaw_eq (p : List UInt8) (cs : List Nat) (h : 63 < p.length) :
    pkRaw p cs = pkVel (pkEn (pkAct p) cs) (program (inp p cs)) := by
  have l1 := length_setRange_enc p 48 1 5 (by omega)
  have l2 := length_setRange_enc (setRange p 48 (encLE 1 5)) 62 2 0 (by omega)
  have l3 : (pkEn (pkAct p) cs).length = p.length := by
    unfold pkEn pkAct; rw [length_setRange_enc _ 58 1 _ (by omega), l2, l1]
  unfold pkRaw
  rw [inp_pkEn_pkAct p cs h, pkLow_pkVel _ _ (by omega) (wrap16_fits _)]
  have hs41 : slice (pkEn (pkAct p) cs) 41 42 = slice p 41 42 := by
    unfold pkEn pkAct
    rw [slice_setRange_enc _ 58 1 _ 41 42 (by omega) (by omega) (by omega),
      slice_setRange_enc _ 62 2 _ 41 42 (by omega) (by omega) (by omega),
      slice_setRange_enc _ 48 1 _ 41 42 (by omega) (by omega) (by omega)]
  rw [pkHigh_pkVel _ _ (by omega) (by split <;> first | decide | exact wrap16_fits _), hs41, program_eq]
  congr 1
  simp [inp]
end Ebv.C26TV
