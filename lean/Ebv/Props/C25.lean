import Ebv.Model.Addr
/-! C25 — terminal addresses assigned by the master are unique.

All theorems hold for every configuration (any number of terminals, any pre-configured
addresses, any set of concurrent `get_serial` / `initialize` tasks), every script of raw PRNG
outputs and every schedule (`run cfg sched`, `sched : List Nat` unbounded), i.e. at every point of
every interleaving of the tasks at their `await`s, including the window between the bus acting on
a request and the task seeing the answer.

**Assumption about other parties** (explicit in the model, not provable from the code): during the
run a station-address register changes only through the master's own `APWR pos 0x10` requests
(`process … (.wrS a)` is the only place where `St.bus` changes).  Addresses configured *before*
the run — by an earlier run, another master or a tool — are arbitrary (`cfg.bus`); they are not
"handed out" by this master, so `in_range`/`handed_out_once` do not speak about them, but
`never_answered` protects them: no address at which a terminal answers is ever returned.
The PRNG is arbitrary: `draw r` is `randint(*terminal_addr_range)` for an arbitrary raw `r`.
-/
namespace Ebv.C25
open Ebv.Addr Ebv.Consts

/-- the address a task has drawn and not yet written into a register -/
def cur : Pc → Option Nat
  | .prS a | .prD a _ | .wrS a => some a
  | _ => none
/-- the address a task may still get back from `find_free_address` -/
def cand : Pc → Option Nat
  | .prS a | .prD a false => some a
  | _ => none
/-- the address whose probe went unanswered and which the task has not yet written:
from the unanswered probe until the master's own write -/
def hold : Pc → Option Nat
  | .prD a false | .wrS a => some a
  | _ => none

theorem cand_cur {p : Pc} {a : Nat} (h : cand p = some a) : cur p = some a := by
  cases p with
  | prD b ans => cases ans <;> simp_all [cand, cur]
  | _ => simp_all [cand, cur]
theorem hold_cur {p : Pc} {a : Nat} (h : hold p = some a) : cur p = some a := by
  cases p with
  | prD b ans => cases ans <;> simp_all [hold, cur]
  | _ => simp_all [hold, cur]

structure Inv (st : St) : Prop where
  u1 : ∀ i a, cur (st.pc i) = some a → a ∈ st.used
  u2 : ∀ i j a, cur (st.pc i) = some a → cur (st.pc j) = some a → i = j
  r1 : st.returned.Nodup
  r2 : ∀ a ∈ st.returned, a ∈ st.used
  r3 : ∀ i a, cand (st.pc i) = some a → a ∉ st.returned
  r4 : ∀ i a, st.pc i = .wrS a → a ∈ st.returned
  h : ∀ i a, hold (st.pc i) = some a → a ∉ st.bus
  a1 : ∀ a ∈ st.answered, a ∈ st.used ∧ a ∉ st.returned ∧ ∀ i, cand (st.pc i) ≠ some a
  c1 : ∀ i a, st.pc i = .prD a false → a ∈ st.cleared
  c2 : ∀ a ∈ st.returned, a ∈ st.cleared
  w : ∀ a ∈ st.written, a ∈ st.returned

/-- the default range of the library (regenerated) is a range -/
theorem range_ok : addrLo ≤ addrHi := by decide

/-- whatever range is configured (`lo ≤ hi`, otherwise `randint` raises) and whatever the PRNG gives, the number drawn lies
in the configured range -/
theorem draw_range (cfg : Cfg) (hv : cfg.lo ≤ cfg.hi) (r : Nat) : cfg.lo ≤ draw cfg r ∧ draw cfg r ≤ cfg.hi := by
  have : r % (cfg.hi - cfg.lo + 1) < cfg.hi - cfg.lo + 1 := Nat.mod_lt _ (by omega)
  unfold draw randint
  omega

theorem drawFresh_spec {cfg : Cfg} {used ds : List Nat} {a : Nat} {rest : List Nat}
    (h : drawFresh cfg used ds = some (a, rest)) : a ∉ used ∧ (cfg.lo ≤ cfg.hi → cfg.lo ≤ a ∧ a ≤ cfg.hi) := by
  induction ds with
  | nil => simp [drawFresh] at h
  | cons r rs ih =>
    unfold drawFresh at h
    by_cases hm : draw cfg r ∈ used
    · simp only [hm, ↓reduceIte] at h; exact ih h
    · simp only [hm, ↓reduceIte, Option.some.injEq, Prod.mk.injEq] at h
      rw [← h.1]; exact ⟨hm, fun hv => draw_range cfg hv r⟩

/-- a task moves to a wait state that carries no drawn-and-unwritten address; nothing else that
the invariant looks at changes -/
theorem inv_neutral {st st' : St} (hI : Inv st) (i : Nat) (p : Pc) (hp : cur p = none)
    (hpc : st'.pc = upd st.pc i p) (h1 : st'.bus = st.bus) (h2 : st'.used = st.used)
    (h3 : st'.returned = st.returned) (h4 : st'.answered = st.answered)
    (h5 : st'.cleared = st.cleared) (h6 : st'.written = st.written) : Inv st' := by
  have hcand : cand p = none := by
    cases hc : cand p with
    | none => rfl
    | some a => rw [cand_cur hc] at hp; cases hp
  have hhold : hold p = none := by
    cases hc : hold p with
    | none => rfl
    | some a => rw [hold_cur hc] at hp; cases hp
  have hw : ∀ a, p ≠ .wrS a := by intro a h; subst h; simp [cur] at hp
  have hd : ∀ a, p ≠ .prD a false := by intro a h; subst h; simp [cur] at hp
  have pcj : ∀ j, j ≠ i → st'.pc j = st.pc j := by intro j hj; simp [hpc, upd, hj]
  have pci : st'.pc i = p := by simp [hpc, upd]
  constructor
  · intro j a hc
    rw [h2]
    by_cases hj : j = i
    · subst hj; rw [pci, hp] at hc; cases hc
    · rw [pcj j hj] at hc; exact hI.u1 j a hc
  · intro j k a hj' hk'
    by_cases hj : j = i
    · subst hj; rw [pci, hp] at hj'; cases hj'
    · by_cases hk : k = i
      · subst hk; rw [pci, hp] at hk'; cases hk'
      · rw [pcj j hj] at hj'; rw [pcj k hk] at hk'; exact hI.u2 j k a hj' hk'
  · rw [h3]; exact hI.r1
  · rw [h3, h2]; exact hI.r2
  · intro j a hc
    rw [h3]
    by_cases hj : j = i
    · subst hj; rw [pci, hcand] at hc; cases hc
    · rw [pcj j hj] at hc; exact hI.r3 j a hc
  · intro j a hc
    rw [h3]
    by_cases hj : j = i
    · subst hj; rw [pci] at hc; exact absurd hc (hw a)
    · rw [pcj j hj] at hc; exact hI.r4 j a hc
  · intro j a hc
    rw [h1]
    by_cases hj : j = i
    · subst hj; rw [pci, hhold] at hc; cases hc
    · rw [pcj j hj] at hc; exact hI.h j a hc
  · intro a ha
    rw [h4] at ha
    obtain ⟨x, y, z⟩ := hI.a1 a ha
    refine ⟨h2 ▸ x, h3 ▸ y, ?_⟩
    intro j
    by_cases hj : j = i
    · subst hj; rw [pci, hcand]; simp
    · rw [pcj j hj]; exact z j
  · intro j a hc
    rw [h5]
    by_cases hj : j = i
    · subst hj; rw [pci] at hc; exact absurd hc (hd a)
    · rw [pcj j hj] at hc; exact hI.c1 j a hc
  · rw [h3, h5]; exact hI.c2
  · rw [h6, h3]; exact hI.w

/-- `find_free_address` draws a number that is not in `used_addresses`, inserts it and sends the probe -/
theorem inv_beginFind (cfg : Cfg) {st : St} (hI : Inv st) (tid : Nat) : Inv (beginFind cfg st tid) := by
  unfold beginFind
  cases hd : drawFresh cfg st.used st.draws with
  | none =>
    exact ⟨hI.u1, hI.u2, hI.r1, hI.r2, hI.r3, hI.r4, hI.h, hI.a1, hI.c1, hI.c2, hI.w⟩
  | some pr =>
    obtain ⟨a, rest⟩ := pr
    have hnew := (drawFresh_spec hd).1
    have pcj : ∀ j, j ≠ tid → upd st.pc tid (.prS a) j = st.pc j := by intro j hj; simp [upd, hj]
    have pci : upd st.pc tid (.prS a) tid = .prS a := by simp [upd]
    constructor
    · intro j b hc
      by_cases hj : j = tid
      · subst hj; simp only [pci, cur, Option.some.injEq] at hc; subst hc; simp
      · simp only [pcj j hj] at hc; exact List.mem_cons_of_mem _ (hI.u1 j b hc)
    · intro j k b hj' hk'
      by_cases hj : j = tid
      · by_cases hk : k = tid
        · rw [hj, hk]
        · subst hj
          simp only [pci, cur, Option.some.injEq] at hj'; subst hj'
          simp only [pcj k hk] at hk'
          exact absurd (hI.u1 k _ hk') hnew
      · by_cases hk : k = tid
        · subst hk
          simp only [pci, cur, Option.some.injEq] at hk'; subst hk'
          simp only [pcj j hj] at hj'
          exact absurd (hI.u1 j _ hj') hnew
        · simp only [pcj j hj] at hj'; simp only [pcj k hk] at hk'; exact hI.u2 j k b hj' hk'
    · exact hI.r1
    · intro b hb; exact List.mem_cons_of_mem _ (hI.r2 b hb)
    · intro j b hc
      by_cases hj : j = tid
      · subst hj; simp only [pci, cand, Option.some.injEq] at hc; subst hc
        intro hr; exact hnew (hI.r2 _ hr)
      · simp only [pcj j hj] at hc; exact hI.r3 j b hc
    · intro j b hc
      by_cases hj : j = tid
      · subst hj; simp [pci] at hc
      · simp only [pcj j hj] at hc; exact hI.r4 j b hc
    · intro j b hc
      by_cases hj : j = tid
      · subst hj; simp [pci, hold] at hc
      · simp only [pcj j hj] at hc; exact hI.h j b hc
    · intro b hb
      obtain ⟨x, y, z⟩ := hI.a1 b hb
      refine ⟨List.mem_cons_of_mem _ x, y, ?_⟩
      intro j
      by_cases hj : j = tid
      · subst hj; simp only [pci, cand, ne_eq, Option.some.injEq]
        intro hab; subst hab; exact hnew x
      · simp only [pcj j hj]; exact z j
    · intro j b hc
      by_cases hj : j = tid
      · subst hj; simp [pci] at hc
      · simp only [pcj j hj] at hc; exact hI.c1 j b hc
    · exact hI.c2
    · exact hI.w

/-- the bus acts on a probe -/
theorem inv_probe {st : St} (hI : Inv st) (tid a : Nat) (hpc : st.pc tid = .prS a) (ev : List Ev) :
    Inv { st with pc := upd st.pc tid (.prD a (decide (a ∈ st.bus))),
                  answered := if decide (a ∈ st.bus) then a :: st.answered else st.answered,
                  cleared := if decide (a ∈ st.bus) then st.cleared else a :: st.cleared,
                  log := ev } := by
  have hcur : cur (st.pc tid) = some a := by simp [hpc, cur]
  have hcand : cand (st.pc tid) = some a := by simp [hpc, cand]
  have pcj : ∀ j p, j ≠ tid → upd st.pc tid p j = st.pc j := by intro j p hj; simp [upd, hj]
  have pci : ∀ p, upd st.pc tid p tid = p := by intro p; simp [upd]
  have curj : ∀ j, cur (upd st.pc tid (.prD a (decide (a ∈ st.bus))) j) = cur (st.pc j) := by
    intro j
    by_cases hj : j = tid
    · subst hj; rw [pci, hcur]; simp [cur]
    · rw [pcj j _ hj]
  constructor
  · intro j b hc; simp only [curj] at hc; exact hI.u1 j b hc
  · intro j k b hj hk; simp only [curj] at hj hk; exact hI.u2 j k b hj hk
  · exact hI.r1
  · exact hI.r2
  · intro j b hc
    by_cases hj : j = tid
    · subst hj
      simp only [pci] at hc
      have : b = a := by
        cases hb : decide (a ∈ st.bus) <;> simp [hb, cand] at hc; exact hc.symm
      subst this; exact hI.r3 j b hcand
    · simp only [pcj j _ hj] at hc; exact hI.r3 j b hc
  · intro j b hc
    by_cases hj : j = tid
    · subst hj; simp [pci] at hc
    · simp only [pcj j _ hj] at hc; exact hI.r4 j b hc
  · intro j b hc
    by_cases hj : j = tid
    · subst hj
      simp only [pci] at hc
      cases hb : decide (a ∈ st.bus) with
      | true => simp [hb, hold] at hc
      | false =>
        simp only [hb, hold, Option.some.injEq] at hc; subst hc
        simpa using hb
    · simp only [pcj j _ hj] at hc; exact hI.h j b hc
  · intro b hb
    have key : b = a ∧ decide (a ∈ st.bus) = true ∨ b ∈ st.answered := by
      cases hd : decide (a ∈ st.bus) <;> simp [hd] at hb ⊢
      · exact hb
      · exact hb
    rcases key with ⟨rfl, hans⟩ | hb
    · refine ⟨hI.u1 tid b hcur, hI.r3 tid b hcand, ?_⟩
      intro j
      by_cases hj : j = tid
      · subst hj; simp [pci, hans, cand]
      · simp only [pcj j _ hj]
        intro hc; exact hj (hI.u2 j tid b (cand_cur hc) hcur)
    · obtain ⟨x, y, z⟩ := hI.a1 b hb
      refine ⟨x, y, ?_⟩
      intro j
      by_cases hj : j = tid
      · subst hj
        simp only [pci]
        intro hc
        have : b = a := by
          cases hd : decide (a ∈ st.bus) <;> simp [hd, cand] at hc; exact hc.symm
        subst this; exact z j hcand
      · simp only [pcj j _ hj]; exact z j
  · intro j b hc
    by_cases hj : j = tid
    · subst hj
      simp only [pci, Pc.prD.injEq] at hc
      obtain ⟨rfl, hd⟩ := hc
      simp [hd]
    · simp only [pcj j _ hj] at hc
      have := hI.c1 j b hc
      cases hd : decide (a ∈ st.bus) <;> simp [this]
  · intro b hb
    have := hI.c2 b hb
    cases hd : decide (a ∈ st.bus) <;> simp [this]
  · exact hI.w

/-- the bus acts on the master's write of an address it got from `find_free_address` -/
theorem inv_write {st : St} (hI : Inv st) (tid a pos : Nat) (hpc : st.pc tid = .wrS a) (ev : List Ev) :
    Inv { st with bus := st.bus.set pos a, written := a :: st.written,
                  pc := upd st.pc tid (.wrD a), log := ev } := by
  have hcur : cur (st.pc tid) = some a := by simp [hpc, cur]
  have pcj : ∀ j, j ≠ tid → upd st.pc tid (.wrD a) j = st.pc j := by intro j hj; simp [upd, hj]
  have pci : upd st.pc tid (.wrD a) tid = .wrD a := by simp [upd]
  have curj : ∀ j b, cur (upd st.pc tid (.wrD a) j) = some b → cur (st.pc j) = some b ∧ j ≠ tid := by
    intro j b hc
    by_cases hj : j = tid
    · subst hj; simp [pci, cur] at hc
    · rw [pcj j hj] at hc; exact ⟨hc, hj⟩
  constructor
  · intro j b hc; exact hI.u1 j b (curj j b hc).1
  · intro j k b hj hk; exact hI.u2 j k b (curj j b hj).1 (curj k b hk).1
  · exact hI.r1
  · exact hI.r2
  · intro j b hc; have := curj j b (cand_cur hc); simp only [pcj j this.2] at hc; exact hI.r3 j b hc
  · intro j b hc
    by_cases hj : j = tid
    · subst hj; simp [pci] at hc
    · simp only [pcj j hj] at hc; exact hI.r4 j b hc
  · intro j b hc
    have hj := curj j b (hold_cur hc)
    simp only [pcj j hj.2] at hc
    intro hm
    rcases List.mem_or_eq_of_mem_set hm with hm | rfl
    · exact hI.h j b hc hm
    · exact hj.2 (hI.u2 j tid b hj.1 hcur)
  · intro b hb
    obtain ⟨x, y, z⟩ := hI.a1 b hb
    refine ⟨x, y, ?_⟩
    intro j hc
    have hj := curj j b (cand_cur hc)
    simp only [pcj j hj.2] at hc; exact z j hc
  · intro j b hc
    by_cases hj : j = tid
    · subst hj; simp [pci] at hc
    · simp only [pcj j hj] at hc; exact hI.c1 j b hc
  · exact hI.c2
  · intro b hb
    rcases List.mem_cons.1 hb with rfl | hb
    · exact hI.r4 tid b hpc
    · exact hI.w b hb

/-- the unanswered probe reaches the task: `find_free_address` returns -/
theorem inv_return {st : St} (hI : Inv st) (tid a : Nat) (hpc : st.pc tid = .prD a false) (ev : List Ev) :
    Inv { st with returned := st.returned ++ [a], pc := upd st.pc tid (.wrS a), log := ev } := by
  have hcur : cur (st.pc tid) = some a := by simp [hpc, cur]
  have hcand : cand (st.pc tid) = some a := by simp [hpc, cand]
  have hhold : hold (st.pc tid) = some a := by simp [hpc, hold]
  have pcj : ∀ j, j ≠ tid → upd st.pc tid (.wrS a) j = st.pc j := by intro j hj; simp [upd, hj]
  have pci : upd st.pc tid (.wrS a) tid = .wrS a := by simp [upd]
  have curj : ∀ j, cur (upd st.pc tid (.wrS a) j) = cur (st.pc j) := by
    intro j
    by_cases hj : j = tid
    · subst hj; rw [pci, hcur]; simp [cur]
    · rw [pcj j hj]
  constructor
  · intro j b hc; simp only [curj] at hc; exact hI.u1 j b hc
  · intro j k b hj hk; simp only [curj] at hj hk; exact hI.u2 j k b hj hk
  · have := hI.r3 tid a hcand
    simp only [List.nodup_append, List.nodup_cons, List.not_mem_nil, not_false_eq_true,
      List.nodup_nil, and_self, List.mem_cons, or_false, true_and]
    exact ⟨hI.r1, fun x hx y hy => by subst hy; intro h; subst h; exact this hx⟩
  · intro b hb
    rcases List.mem_append.1 hb with hb | hb
    · exact hI.r2 b hb
    · simp at hb; subst hb; exact hI.u1 tid b hcur
  · intro j b hc
    by_cases hj : j = tid
    · subst hj; simp [pci, cand] at hc
    · simp only [pcj j hj] at hc
      intro hm
      rcases List.mem_append.1 hm with hm | hm
      · exact hI.r3 j b hc hm
      · simp at hm; subst hm; exact hj (hI.u2 j tid b (cand_cur hc) hcur)
  · intro j b hc
    by_cases hj : j = tid
    · subst hj; simp only [pci, Pc.wrS.injEq] at hc; subst hc; simp
    · simp only [pcj j hj] at hc; exact List.mem_append_left _ (hI.r4 j b hc)
  · intro j b hc
    by_cases hj : j = tid
    · subst hj; simp only [pci, hold, Option.some.injEq] at hc; subst hc; exact hI.h j _ hhold
    · simp only [pcj j hj] at hc; exact hI.h j b hc
  · intro b hb
    obtain ⟨x, y, z⟩ := hI.a1 b hb
    refine ⟨x, ?_, ?_⟩
    · intro hm
      rcases List.mem_append.1 hm with hm | hm
      · exact y hm
      · simp at hm; subst hm; exact z tid hcand
    · intro j
      by_cases hj : j = tid
      · subst hj; simp [pci, cand]
      · simp only [pcj j hj]; exact z j
  · intro j b hc
    by_cases hj : j = tid
    · subst hj; simp [pci] at hc
    · simp only [pcj j hj] at hc; exact hI.c1 j b hc
  · intro b hb
    rcases List.mem_append.1 hb with hb | hb
    · exact hI.c2 b hb
    · simp at hb; subst hb; exact hI.c1 tid b hpc
  · intro b hb; exact List.mem_append_left _ (hI.w b hb)

theorem inv_process (cfg : Cfg) {st : St} (hI : Inv st) (tid : Nat) : Inv (process cfg st tid) := by
  unfold process
  cases hpc : st.pc tid with
  | rdS => exact inv_neutral hI tid _ (by simp [cur]) rfl rfl rfl rfl rfl rfl rfl
  | prS a => exact inv_probe hI tid a hpc _
  | wrS a => exact inv_write hI tid a _ hpc _
  | tlS k a => exact inv_neutral hI tid _ (by simp [cur]) rfl rfl rfl rfl rfl rfl rfl
  | rdD v => exact hI
  | prD a ans => exact hI
  | wrD a => exact hI
  | tlD k a => exact hI
  | done => exact hI

theorem inv_deliver (cfg : Cfg) {st : St} (hI : Inv st) (tid : Nat) : Inv (deliver cfg st tid) := by
  unfold deliver
  cases hpc : st.pc tid with
  | rdS => exact hI
  | prS a => exact hI
  | wrS a => exact hI
  | tlS k a => exact hI
  | done => exact hI
  | rdD v =>
    by_cases hv : v = 0
    · simp only [hv, ↓reduceIte]; exact inv_beginFind cfg hI tid
    · simp only [hv, ↓reduceIte]
      exact inv_neutral hI tid _ (by simp [cur]) rfl rfl rfl rfl rfl rfl rfl
  | prD a ans =>
    cases ans with
    | true => exact inv_beginFind cfg hI tid
    | false => exact inv_return hI tid a hpc _
  | wrD a =>
    dsimp only
    split
    · exact inv_neutral hI tid (.tlS tailLen a) rfl rfl rfl rfl rfl rfl rfl rfl
    · exact inv_neutral hI tid .done rfl rfl rfl rfl rfl rfl rfl rfl
  | tlD k a =>
    cases k with
    | zero => exact inv_neutral hI tid _ (by simp [cur]) rfl rfl rfl rfl rfl rfl rfl
    | succ k => exact inv_neutral hI tid _ (by simp [cur]) rfl rfl rfl rfl rfl rfl rfl

/-- the queue plays no role in the invariant -/
theorem inv_queue {st : St} (hI : Inv st) (q : List Nat) : Inv { st with queue := q } :=
  ⟨hI.u1, hI.u2, hI.r1, hI.r2, hI.r3, hI.r4, hI.h, hI.a1, hI.c1, hI.c2, hI.w⟩

theorem inv_step (cfg : Cfg) (s : Nat) {st : St} (hI : Inv st) : Inv (step cfg s st) := by
  unfold step
  split
  · exact hI
  · split
    · exact hI
    · dsimp only
      split
      · exact inv_process cfg hI _
      · exact inv_queue (inv_deliver cfg hI _) _

theorem inv_start (cfg : Cfg) {st : St} (hI : Inv st) (tid : Nat) : Inv (startTask cfg st tid) := by
  unfold startTask
  split
  · exact hI
  · split
    · exact inv_queue (inv_neutral (st' := { st with pc := upd st.pc tid .rdS }) hI tid .rdS rfl
        rfl rfl rfl rfl rfl rfl rfl) _
    · simp only
      split
      · exact inv_beginFind cfg hI tid
      · exact inv_queue (inv_beginFind cfg hI tid) _

theorem inv_base (cfg : Cfg) : Inv (base cfg) := by
  constructor <;> simp [base, cur, cand, hold]

theorem inv_foldl_start (cfg : Cfg) (ids : List Nat) {st : St} (hI : Inv st) :
    Inv (ids.foldl (startTask cfg) st) := by
  induction ids generalizing st with
  | nil => exact hI
  | cons i ids ih => exact ih (inv_start cfg hI i)

theorem inv_init (cfg : Cfg) : Inv (initSt cfg) := inv_foldl_start cfg _ (inv_base cfg)

theorem inv_foldl_step (cfg : Cfg) (sched : List Nat) {st : St} (hI : Inv st) :
    Inv (sched.foldl (fun st s => step cfg s st) st) := by
  induction sched generalizing st with
  | nil => exact hI
  | cons s sched ih => exact ih (inv_step cfg s hI)

/-- the invariant holds at every point of every interleaving -/
theorem inv_run (cfg : Cfg) (sched : List Nat) : Inv (run cfg sched) :=
  inv_foldl_step cfg sched (inv_init cfg)

/-! ### the property -/

/-! #### the configured range: everything in `used_addresses` was drawn from it -/

def UsedIn (cfg : Cfg) (st : St) : Prop := ∀ a ∈ st.used, cfg.lo ≤ a ∧ a ≤ cfg.hi

theorem usedIn_beginFind (cfg : Cfg) (hv : cfg.lo ≤ cfg.hi) {st : St} (h : UsedIn cfg st) (tid : Nat) :
    UsedIn cfg (beginFind cfg st tid) := by
  unfold beginFind
  cases hd : drawFresh cfg st.used st.draws with
  | none => exact h
  | some pr =>
    obtain ⟨a, rest⟩ := pr
    intro b hb
    rcases List.mem_cons.1 hb with rfl | hb
    · exact (drawFresh_spec hd).2 hv
    · exact h b hb

theorem process_used (cfg : Cfg) (st : St) (tid : Nat) : (process cfg st tid).used = st.used := by
  unfold process
  split <;> rfl

theorem usedIn_deliver (cfg : Cfg) (hv : cfg.lo ≤ cfg.hi) {st : St} (h : UsedIn cfg st) (tid : Nat) :
    UsedIn cfg (deliver cfg st tid) := by
  unfold deliver
  split
  · split
    · exact usedIn_beginFind cfg hv h tid
    · exact h
  · exact usedIn_beginFind cfg hv h tid
  · exact h
  · dsimp only
    split <;> exact h
  · exact h
  · exact h
  · exact h

theorem usedIn_step (cfg : Cfg) (hv : cfg.lo ≤ cfg.hi) (s : Nat) {st : St} (h : UsedIn cfg st) : UsedIn cfg (step cfg s st) := by
  unfold step
  split
  · exact h
  · split
    · exact h
    · dsimp only
      split
      · intro a ha; rw [process_used] at ha; exact h a ha
      · exact usedIn_deliver cfg hv h _

theorem usedIn_start (cfg : Cfg) (hv : cfg.lo ≤ cfg.hi) {st : St} (h : UsedIn cfg st) (tid : Nat) :
    UsedIn cfg (startTask cfg st tid) := by
  unfold startTask
  split
  · exact h
  · split
    · exact h
    · simp only
      split
      · exact usedIn_beginFind cfg hv h tid
      · exact usedIn_beginFind cfg hv h tid

theorem usedIn_run (cfg : Cfg) (hv : cfg.lo ≤ cfg.hi) (sched : List Nat) : UsedIn cfg (run cfg sched) := by
  have h0 : UsedIn cfg (initSt cfg) := by
    unfold initSt
    have : ∀ (ids : List Nat) (st : St), UsedIn cfg st → UsedIn cfg (ids.foldl (startTask cfg) st) := by
      intro ids
      induction ids with
      | nil => intro st h; exact h
      | cons i ids ih => intro st h; exact ih _ (usedIn_start cfg hv h i)
    exact this _ _ (by intro a ha; simp [base] at ha)
  unfold run
  have : ∀ (sched : List Nat) (st : St), UsedIn cfg st → UsedIn cfg (sched.foldl (fun st s => step cfg s st) st) := by
    intro sched
    induction sched with
    | nil => intro st h; exact h
    | cons s sched ih => intro st h; exact ih _ (usedIn_step cfg hv s h)
  exact this _ _ h0

/-- every address returned by `find_free_address` and every address the master writes into a
station-address register lies in the `terminal_addr_range` **configured for this master** (both ends included),
for every configured range -/
theorem in_range (cfg : Cfg) (hv : cfg.lo ≤ cfg.hi) (sched : List Nat) :
    ∀ a ∈ (run cfg sched).returned ++ (run cfg sched).written, cfg.lo ≤ a ∧ a ≤ cfg.hi := by
  intro a ha
  have hI := inv_run cfg sched
  have hU := usedIn_run cfg hv sched
  rcases List.mem_append.1 ha with ha | ha
  · exact hU a (hI.r2 a ha)
  · exact hU a (hI.r2 a (hI.w a ha))

/-- a master whose range was not configured uses the library's default (regenerated from /repo), which is a range -/
theorem in_range_default (bus serials draws : List Nat) (tasks : List Task) (sched : List Nat) :
    ∀ a ∈ (run { bus, serials, draws, tasks } sched).returned ++ (run { bus, serials, draws, tasks } sched).written,
      addrLo ≤ a ∧ a ≤ addrHi :=
  in_range { bus, serials, draws, tasks } range_ok sched

/-- `randint(lo, hi)` covers both ends of every configured range: `hi` itself can be drawn -/
theorem range_inclusive (cfg : Cfg) (hv : cfg.lo ≤ cfg.hi) : draw cfg 0 = cfg.lo ∧ draw cfg (cfg.hi - cfg.lo) = cfg.hi := by
  unfold draw randint
  refine ⟨by simp, ?_⟩
  rw [Nat.mod_eq_of_lt (by omega)]
  omega

/-- two masters with different configured ranges: the range of one plays no role for the other (the range is part of
the master's configuration, nothing else of it enters a run) -/
theorem range_is_per_master (c1 c2 : Cfg) (h1 : c1.lo ≤ c1.hi) (h2 : c2.lo ≤ c2.hi) (s1 s2 : List Nat) :
    (∀ a ∈ (run c1 s1).returned, c1.lo ≤ a ∧ a ≤ c1.hi) ∧ (∀ a ∈ (run c2 s2).returned, c2.lo ≤ a ∧ a ≤ c2.hi) :=
  ⟨fun a ha => in_range c1 h1 s1 a (List.mem_append_left _ ha), fun a ha => in_range c2 h2 s2 a (List.mem_append_left _ ha)⟩

/-- the addresses returned by `find_free_address` are pairwise distinct, every one of them is in
`used_addresses`, and the master only writes addresses it was handed out -/
theorem handed_out_once (cfg : Cfg) (sched : List Nat) :
    (run cfg sched).returned.Nodup ∧ (∀ a ∈ (run cfg sched).returned, a ∈ (run cfg sched).used) ∧
    (∀ a ∈ (run cfg sched).written, a ∈ (run cfg sched).returned) :=
  ⟨(inv_run cfg sched).r1, (inv_run cfg sched).r2, (inv_run cfg sched).w⟩

/-- the membership test and the insert into `used_addresses` are not separated by an `await`:
whatever two tasks have drawn and not yet written is distinct -/
theorem drawn_distinct (cfg : Cfg) (sched : List Nat) (i j a : Nat)
    (hi : cur ((run cfg sched).pc i) = some a) (hj : cur ((run cfg sched).pc j) = some a) : i = j :=
  (inv_run cfg sched).u2 i j a hi hj

/-- an address is returned only after an unanswered probe of it (`cleared`), no probe of it was
ever answered (`answered`), and from the unanswered probe until the master's own write of it no
terminal has that address (`hold`) -/
theorem never_answered (cfg : Cfg) (sched : List Nat) :
    (∀ a ∈ (run cfg sched).returned, a ∈ (run cfg sched).cleared ∧ a ∉ (run cfg sched).answered) ∧
    (∀ i a, hold ((run cfg sched).pc i) = some a → a ∉ (run cfg sched).bus) := by
  have hI := inv_run cfg sched
  refine ⟨fun a ha => ⟨hI.c2 a ha, fun hans => (hI.a1 a hans).2.1 ha⟩, hI.h⟩

/-! ### non-vacuity: two concurrent scans-tasks and an initialize drawing colliding numbers -/

/-- terminals: position 0 unaddressed, position 1 pre-configured 1005, position 2 unaddressed;
draws hit 1005 (answered), the same number twice, and both ends of the range -/
def exCfg : Cfg :=
  { bus := [0, 1005, 0], serials := [7, 0, 7],
    draws := [5, 5, 0, 29001 + 0, 29000, 3],
    tasks := [⟨.init, 2⟩, ⟨.serial, 0⟩, ⟨.serial, 1⟩, ⟨.serial, 2⟩] }

def exSched : List Nat := [0, 1, 0, 0, 2, 1, 0, 3, 1, 1, 0, 0, 2, 2, 0, 1, 0, 1] ++ List.replicate 20 0

example : (run exCfg exSched).returned = [1000, 30000, 1003] := by decide
example : (run exCfg exSched).answered = [1005] := by decide
example : (run exCfg exSched).bus = [30000, 1005, 1003] := by decide
example : finished (run exCfg exSched) = true := by decide
-- the same bus under a configured range that does not meet the default one
example : (run { exCfg with lo := 40000, hi := 40009, draws := [9, 9, 10, 3] } exSched).returned = [40009, 40000] := by decide
example : (run exCfg exSched).map = [(-1, 1005), (7, 30000)] := by decide

end Ebv.C25
