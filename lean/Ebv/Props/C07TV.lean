import Ebv.Props.C07TVtab
import Ebv.Props.C07
/-! C07 translation validation: every program of the regenerated packet-variable family `Programs.fmtTable`
(all formats B H I Q b h i q × native, `<`, `>`, `!` × read into r/w register, packet-array read/write, write from
register, write of two constants, in-place add of two constants — assembled by /repo's generator on every run), run under
the Lean eBPF semantics (`runXdp`) on an arbitrary packet, arbitrary registers, arbitrary other memory, computes exactly
what the hand model `Ebv.PktVar` says; composed with the C07 theorems: what `struct` says. -/
namespace Ebv.C07TV
open Ebv.Ebpf Ebv.XdpRun Ebv.Bytes Ebv.PktVar Ebv.Programs

/-- **Translation validation of the packet-variable family.**  For every member `t` of the regenerated table and every
invocation satisfying `PktLayout` (any packet bytes and length, any registers, any other memory, any helper
environment, any fuel ≥ 16) the run of `t.prog` ends with `EXIT` and XDP_PASS, and
* read (`t.kind = 0`): memory is unchanged; if the packet is longer than the guard size the destination register is
  exactly `PktVar.readReg` of the variable's bytes (width, byte order, sign extension);
* write (`t.kind = 1, 2, 3`): if the packet is longer than the guard size, memory shows the packet with exactly
  `PktVar.writeBytes` / `iaddBytes` at the variable's offset and is unchanged at every other address;
* packets not longer than the guard size: the program's own out-of-bounds exit, memory unchanged. -/
theorem table_refines : ∀ t ∈ Programs.fmtTable, Spec t :=
  all_append (all_append (all_append (all_append (all_append (all_append (all_append (all_append
    table_r64 table_r32) table_rar) table_wrg) table_war) table_wc1) table_wc2) table_ia1) table_ia2

/-- the table is the whole family: every size × signedness × byte order occurs as a read into a 64-bit and into a
32-bit register view, as a write from a register, of a constant, and as an in-place addition (232 entries) -/
theorem table_covers : Programs.fmtTable.length = 232 ∧ ∀ n ∈ [1, 2, 4, 8], ∀ sg ∈ [false, true], ∀ o ∈ [0, 1, 2],
    (∀ lg ∈ [true, false], ∃ t ∈ Programs.fmtTable, t.kind = 0 ∧ t.n = n ∧ t.signed = sg ∧ t.order = o ∧ t.long = lg) ∧
    (∀ k ∈ [1, 2, 3], ∃ t ∈ Programs.fmtTable, t.kind = k ∧ t.n = n ∧ t.signed = sg ∧ t.order = o) := by
  decide +kernel

/-- every entry is one of the struct formats, its access is covered by its guard, and no program is empty -/
theorem table_ok : ∀ t ∈ Programs.fmtTable, (fmtOf t).ok = true ∧ t.p + t.n ≤ t.N + 1 ∧ t.prog ≠ [] := by
  decide +kernel

theorem slice_len (pkt : List UInt8) (p n N : Nat) (h : p + n ≤ N + 1) (hN : N < pkt.length) :
    (slice pkt p (p + n)).length = n := by
  rw [length_slice _ _ _ (by omega)]; omega

/-- **reads give `struct.unpack`'s value**: the bits of the destination register that the destination view defines
(64 for `r`, 32 for `w`) are the two's complement of `struct.unpack(fmt, pkt[p:p+n])` -/
theorem read_is_struct (t : FmtProg) (ht : t ∈ Programs.fmtTable) (hk : t.kind = 0)
    {e : Env} {ctx dat : Nat} {s : State} {pkt : List UInt8} (hL : PktLayout ctx dat s pkt) (hN : t.N < pkt.length)
    (fuel : Nat) (hf : 16 ≤ fuel) :
    ExitsWith (runXdp e t.prog fuel s) pass (fun s' => s'.mem = s.mem ∧
      (s'.regs t.reg).toNat % 2 ^ (if t.long then 64 else 32) = C07.want (fmtOf t) t.long (slice pkt t.p (t.p + t.n))) := by
  have hs := table_refines t ht
  obtain ⟨hok, hcov, -⟩ := table_ok t ht
  simp only [Spec, hk, if_true] at hs
  have hrun := hs.2 e ctx dat s pkt hL fuel hf
  cases hx : runXdp e t.prog fuel s with
  | exit r s' =>
    rw [hx] at hrun
    obtain ⟨h1, h2, h3⟩ := hrun
    refine ⟨h1, h2, ?_⟩
    rw [h3 hN, ← C07.read_exact (fmtOf t) t.long _ hok (slice_len pkt t.p t.n t.N hcov hN)]
    have hlt : readReg (fmtOf t) t.long (slice pkt t.p (t.p + t.n)) % 2 ^ 64 % 2 ^ (if t.long then 64 else 32) =
        readReg (fmtOf t) t.long (slice pkt t.p (t.p + t.n)) % 2 ^ (if t.long then 64 else 32) := by
      cases t.long <;> simp <;> omega
    simpa using hlt
  | tailcall s' => rw [hx] at hrun; exact hrun.elim
  | bad => rw [hx] at hrun; exact hrun.elim
  | fuel => rw [hx] at hrun; exact hrun.elim

/-- **register writes store `struct.pack`'s bytes** of the register value (reduced to the format's range) at the
variable's offset and change no other byte of memory -/
theorem write_is_struct (t : FmtProg) (ht : t ∈ Programs.fmtTable) (hk : t.kind = 1)
    {e : Env} {ctx dat : Nat} {s : State} {pkt : List UInt8} (hL : PktLayout ctx dat s pkt) (hN : t.N < pkt.length)
    (fuel : Nat) (hf : 16 ≤ fuel) :
    ExitsWith (runXdp e t.prog fuel s) pass (fun s' =>
      WritePost dat s.mem s'.mem pkt t.p (packZ (fmtOf t) ((s.regs t.reg).toNat : Int))) := by
  have hs := table_refines t ht
  have hk0 : ¬ t.kind = 0 := by omega
  simp only [Spec, hk0, if_false] at hs
  have hrun := hs.2 e ctx dat s pkt hL fuel hf
  cases hx : runXdp e t.prog fuel s with
  | exit r s' =>
    rw [hx] at hrun
    obtain ⟨h1, h2, -⟩ := hrun
    refine ⟨h1, ?_⟩
    have := h2 hN
    simpa only [newBytes, hk, if_true, C07.write_exact] using this
  | tailcall s' => rw [hx] at hrun; exact hrun.elim
  | bad => rw [hx] at hrun; exact hrun.elim
  | fuel => rw [hx] at hrun; exact hrun.elim

theorem ExitsWith.imp {o : XOut} {r : W} {P Q : State → Prop} (h : ExitsWith o r P) (hPQ : ∀ s, P s → Q s) :
    ExitsWith o r Q := by
  cases o with
  | exit r' s' => exact ⟨h.1, hPQ s' h.2⟩
  | tailcall s' => exact h.elim
  | bad => exact h.elim
  | fuel => exact h.elim

/-! ### non-vacuity: a concrete invocation satisfying `PktLayout` -/
/-- a 41-byte packet (longer than every guard size up to 40) whose bytes 6..7 are FF FE -/
def exPkt : List UInt8 := List.replicate 6 7 ++ [0xFF, 0xFE] ++ List.replicate 33 7
def exMem : W → BitVec 8 := fun x =>
  if 16384 ≤ x.toNat ∧ x.toNat < 16384 + 41 then byte (exPkt.getD (x.toNat - 16384) 0)
  else if x.toNat = 8193 then 0x40 else if x.toNat = 8196 then 41 else if x.toNat = 8197 then 0x40 else 0
def exState : State := ⟨fun k => if k = 1 then BitVec.ofNat 64 8192 else if k = 3 then 0x1234 else 0xdeadbeef, exMem, 0⟩
def exEnv : Env := ⟨fun _ => 0, fun _ _ => 0, 0, fun _ _ => false, fun _ _ _ => 0⟩

theorem exLayout : PktLayout 8192 16384 exState exPkt where
  pc := rfl
  r1 := rfl
  data := by decide
  data_end := by decide
  pkt := by unfold Shows; decide

theorem ex_mem_r : Programs.fmtE_r64_g_s2 ∈ Programs.fmtTable := by
  simp [Programs.fmtTable, Programs.fmtTable_r64]
theorem ex_mem_w : Programs.fmtE_wrg_g_s2 ∈ Programs.fmtTable := by
  simp [Programs.fmtTable, Programs.fmtTable_wrg]

/-- on this invocation the theorem says: `r2 = PacketVar(6, ">h")` under `minimumPacketSize = 14` leaves −2 in r2
(bytes FF FE: swapped, then sign-extended) -/
example : ExitsWith (runXdp exEnv Programs.fmt_r64_g_s2 16 exState) pass
    (fun s' => s'.mem = exMem ∧ s'.regs 2 = BitVec.ofNat 64 (2 ^ 64 - 2)) := by
  have h : ReadSpec Programs.fmtE_r64_g_s2 := table_refines _ ex_mem_r
  refine (h.2 exEnv _ _ _ _ exLayout 16 (by omega)).imp ?_
  intro s' hs
  refine ⟨hs.1, ?_⟩
  have h2 : s'.regs 2 = _ := hs.2 (by decide)
  rw [h2]
  decide

/-- and `PacketVar(0, ">h") = r3` with r3 = 0x1234 under `minimumPacketSize = 40` stores 12 34 at offset 0 -/
example : ExitsWith (runXdp exEnv Programs.fmt_wrg_g_s2 16 exState) pass
    (fun s' => WritePost 16384 exMem s'.mem exPkt 0 [0x12, 0x34]) := by
  have h : WriteSpec Programs.fmtE_wrg_g_s2 := table_refines _ ex_mem_w
  refine (h.2 exEnv _ _ _ _ exLayout 16 (by omega)).imp ?_
  intro s' hs
  have := hs.1 (by decide)
  have hb : newBytes Programs.fmtE_wrg_g_s2 exState.regs exPkt = [0x12, 0x34] := by decide
  rwa [hb] at this

end Ebv.C07TV
