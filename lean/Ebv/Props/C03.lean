import Ebv.Model.CondClass
namespace Ebv.C03
theorem stub : True := trivial
end Ebv.C03
