import Ebv.Lemmas.CondProg
import Ebv.Lemmas.CondSurface
import Ebv.Lemmas.AbsSeg
import Ebv.Lemmas.TypingCond
/-! # C03 — conditional blocks run exactly the branch the condition selects

Model: `Ebv.Gen` + `Ebv.Model.GenCond` (comparisons, `with`/`Else`, placeholders patched by index, the
`AndComparison` splice), tied to ebpfcat/ebpf.py by exact opcode-list correspondence (harness/vh/props/c03.py).
Proof chain (Lemmas/Cond*.lean):

* `Ebpf.segRun_of_exec`, `SegRun.append`, `JumpRun.*` — the closed-segment lemmas: code whose jumps are forward and
  stay inside the segment runs, in every program `pre ++ seg ++ post`, from its first instruction to the one behind
  it; `Ebpf.run_of_reach` turns this into `Ebpf.run`;
* `Gen.calc_none`, `Gen.cmpCore_correct` — `SimpleComparison.compare` up to the placeholder, on top of C01's
  `calc_correct` (width `None`, the widening pair, release of the operand registers);
* `Gen.cond_correct` — induction on the condition tree: the code emitted by `compare negative`, patched by `target`
  for any position `L` behind it, falls through iff truth = ¬negative-sense and otherwise reaches exactly `L`,
  changing no owned register and no memory (`mtruth`: machine level; `mtruth_eq_truth`: = Python integers under
  the precondition);
* `Gen.with_correct` — induction on statements (`with`, `with … as Else` incl. the JSET splice, sequences, C01's
  assignments): the emitted code is a closed segment realising the structured big-step semantics;
* `Gen.abs_segment`, `Gen.abs_top_correct` (Lemmas/AbsSeg.lean) — the sign test + negation of `abs` as a closed segment at
  the width of the computation (the repaired class *abs-32*), and `abs` on top of an operand of C01's fragment;
* below: programs in terms of `Ebpf.run`, the decidable hypotheses, refutations of the defect classes that are left,
  `before_fix_*` regression witnesses of the repaired ones. -/
namespace Ebv.C03
open Ebv.Ebpf Ebv.Gen Ebv.C01

/-- **C03 at machine level** (no precondition on the inputs): for every statement program whose conditions and
assignments satisfy `okB`, if the generator accepts it, then from every machine state the emitted code, run by
`Ebpf.run` from its first instruction, falls out at its end, having executed exactly the branches the conditions'
machine-level truth values select (`KStmt.sem`). -/
theorem C03_core (p : CProg) (k : KStmt) (code : List Insn) (hcomp : compileS (layout p.vars) p.body = some k)
    (hok : k.okB p.owned = true) (hemit : emitCProg p = .ok code) (σ : State) :
    ∃ σ', run code (code.length + 1) { σ with pc := 0 } = .fell { σ' with pc := code.length } ∧
      k.sem CObj.mtruth p.owned σ σ' := by
  unfold emitCProg at hemit
  rw [emitS_compile _ _ _ hcomp] at hemit
  split at hemit
  · rename_i u g' hg
    cases hemit
    cases u
    obtain ⟨_, _, seg, hcode, hrun⟩ := with_correct k p.owned (KStmt.okB_sound k _ hok)
      { code := [], owners := p.owned, stack := 0 } g' (Sub.refl _) hg
    simp only [List.nil_append] at hcode
    obtain ⟨σ', hseg, hsem⟩ := hrun σ
    refine ⟨σ', ?_, hsem⟩
    have hr := hseg [] []
    simp only [List.nil_append, List.append_nil, List.length_nil, Nat.zero_add] at hr
    rw [hcode]
    exact run_of_reach hr rfl _ (by simp)
  · cases hemit

/-- every hypothesis of `C03_partial` as one decidable predicate on the program -/
def progOkC (p : CProg) : Bool :=
  match compileS (layout p.vars) p.body with
  | some k => k.okB p.owned && k.zokB
  | none => false

/-- **C03 (partial)** — conditional blocks run exactly the branch the condition selects.  For every statement
program (assignments, `with cond:`, `with cond as Else:` / `with Else:`, nested and sequenced; conditions built from
comparisons, bit tests, `~`, `&`, `|`) that satisfies `progOkC` and that the generator accepts, and every machine
state: the emitted code falls out at its end (control continues behind every construct), and along the way every
`with` body ran iff its condition — evaluated over Python integers on the state in front of it — was true, the
`Else` body iff it was false, whenever the compared values fit the width of the comparison (`CObj.pre`); evaluating
a condition changed no owned register and no memory. -/
theorem C03_partial (p : CProg) (code : List Insn) (hok : progOkC p = true) (hemit : emitCProg p = .ok code) (σ : State) :
    ∃ k, compileS (layout p.vars) p.body = some k ∧
      ∃ σ', run code (code.length + 1) { σ with pc := 0 } = .fell { σ' with pc := code.length } ∧
        k.semZ p.owned σ σ' := by
  unfold progOkC at hok
  split at hok
  · rename_i k hk
    simp only [Bool.and_eq_true] at hok
    obtain ⟨σ', hrun, hsem⟩ := C03_core p k code hk hok.1 hemit σ
    exact ⟨k, hk, σ', hrun, sem_semZ k _ σ σ' hok.2 hsem⟩
  · cases hok

/-- **surface level of conditions**: under the decidable side conditions `SCond.surfOk` (no computed addresses; no
operator is excluded — `Sum - expression`, formerly class *sum-minus*, is inside), the truth value `CObj.truth` that
`C03_partial` speaks about — that of the comparison object the operator overloads built — is the truth value of the
condition as written (`SCond.truthZ`: Python integers) -/
theorem C03_surface_truth (p : CProg) (c : SCond) (co : CObj) (σ : State) (hok : c.surfOk (layout p.vars) = true)
    (h : elabC (layout p.vars) c = .ok co) : co.truth σ = c.truthZ (layout p.vars) σ :=
  elabC_truth (layout p.vars) σ c co hok h

/-! ## the full-strength statement and its refutation -/

def operandTypedB (o : List Nat) (e : Expr) : Bool := leavesOwnedB o e && e.frag && e.ringOnly

def _root_.Ebv.Gen.CObj.typedB (o : List Nat) : CObj → Bool
  | .simple _ sg l r => operandTypedB o l && operandTypedB o r && (sg == (l.signed || r.signed))
  | .bits l r => operandTypedB o l && operandTypedB o r
  | .andor _ a b => a.typedB o && b.typedB o
  | .inv a => a.typedB o

def _root_.Ebv.Gen.KStmt.typedB : List Nat → KStmt → Bool
  | _, .skip => true
  | o, .set cs => cs.typed o
  | o, .seq a b => a.typedB o && b.typedB (a.own o)
  | o, .ifThen c body => c.typedB o && body.typedB o
  | o, .ifElse c body els => c.typedB o && body.typedB o && els.typedB o

/-- **the full-strength statement**: as `C03_partial`, for every well-typed program of the ring fragment, without
the class exclusions -/
def C03_full : Prop := ∀ (p : CProg) (k : KStmt) (code : List Insn),
  compileS (layout p.vars) p.body = some k → k.typedB p.owned = true → emitCProg p = .ok code → ∀ σ : State,
    ∃ σ', run code (code.length + 1) { σ with pc := 0 } = .fell { σ' with pc := code.length } ∧ k.semZ p.owned σ σ'

def codeOfC (p : CProg) : List Insn := match emitCProg p with | .ok c => c | .error _ => []

theorem codeOfC_ok (p : CProg) (h : (emitCProg p).toOption.isSome = true) : emitCProg p = .ok (codeOfC p) := by
  unfold codeOfC
  cases hc : emitCProg p with
  | ok c => rfl
  | error e => rw [hc] at h; simp [Except.toOption] at h

/-- truth value (Python integers) of the first condition of a program, `true` if it cannot be built -/
def truthOf (p : CProg) (c : SCond) (σ : State) : Bool :=
  match elabC (layout p.vars) c with | .ok o => o.truth σ | .error _ => true

def classesOf (p : CProg) : List String := progClasses (layout p.vars) p.owned p.body

instance (w : Nat) (z : Int) : Decidable (fitsS w z) := by unfold fitsS; infer_instance
instance (w : Nat) (z : Int) : Decidable (fitsU w z) := by unfold fitsU; infer_instance

/-- a signed right operand of a 64-bit unsigned left operand is computed in 64 bits (repaired; was class
*u64-vs-negative-short*): `with self.r5 <= self.lsi: self.r6 = 1` with r5 = 256, lsi = −2³¹ -/
def cU : SCond := .cmp .le (.reg .r 5) (.var "lsi")
def pU : CProg := ⟨[5, 6, 10], [⟨"lsi", .i, .loc⟩], .ifThen cU (.set (.reg .r 6) (.c 1))⟩
def sU : State := st0 [(5, 256), (6, 0), (10, 4096)] [(4095, 128)]

/-- what the program emitted **before the fix**: `SimpleComparison.compare` asked for the right operand in 64 bits only
when the *left* operand was signed; here lsi is loaded zero-extended and compared (signed) in 64 bits -/
def before_fix_codeU : List Insn :=
  [⟨Consts.op_LD + Consts.op_W, 0, 10, -4, 0⟩, ⟨Consts.op_JSGT + Consts.op_REG, 5, 0, 1, 0⟩,
   ⟨Consts.op_MOV + Consts.op_LONG, 6, 0, 0, 1⟩]

/-- **regression witness** (formerly `u64_vs_negative_short_refuted`): the old code runs the body although
256 ≤ −2³¹ is false; the repaired generator sign-extends lsi to 64 bits (the shift pair), `pU` is in no class, satisfies
every hypothesis of `C03_partial`, and the body does not run -/
theorem before_fix_u64_vs_negative_short :
    regAfter before_fix_codeU sU 6 = 1 ∧ truthOf pU cU sU = false ∧
    (emitCProg pU).toOption = some [⟨Consts.op_LD + Consts.op_W, 0, 10, -4, 0⟩, ⟨Consts.op_LSH + Consts.op_LONG, 0, 0, 0, 32⟩,
      ⟨Consts.op_ARSH + Consts.op_LONG, 0, 0, 0, 32⟩, ⟨Consts.op_JSGT + Consts.op_REG, 5, 0, 1, 0⟩,
      ⟨Consts.op_MOV + Consts.op_LONG, 6, 0, 0, 1⟩] ∧
    classesOf pU = [] ∧ progOkC pU = true ∧ regAfter (codeOfC pU) sU 6 = 0 := by
  decide +kernel

/-- *narrow-reg-in-64* at the comparison: `with self.w1 > 32767: self.r6 = 1` with r1 = 2³² (w1 = 0): all 64
bits of the register are compared -/
def cN : SCond := .cmp .gt (.reg .w 1) (.c 32767)
def pN : CProg := ⟨[1, 6, 10], [], .ifThen cN (.set (.reg .r 6) (.c 1))⟩
def sN : State := st0 [(1, 4294967296), (6, 0), (10, 4096)]

theorem narrow_reg_in_64_refuted : (emitCProg pN).toOption.isSome = true ∧
    classesOf pN = ["narrow-reg-in-64"] ∧ regAfter (codeOfC pN) sN 6 = 1 ∧ truthOf pN cN sN = false := by
  decide +kernel

/-- *widen-in-place*: `with self.w8 <= self.sr1: pass` sign-extends r8 itself (`r8 <<= 32; r8 s>>= 32`) -/
def pW : CProg := ⟨[1, 8, 10], [], .ifThen (.cmp .le (.reg .w 8) (.reg .sr 1)) .skip⟩
def sW : State := st0 [(1, 5), (8, 4520593757), (10, 4096)]

theorem widen_in_place_refuted : (emitCProg pW).toOption.isSome = true ∧
    classesOf pW = ["widen-in-place"] ∧ regAfter (codeOfC pW) sW 8 = 225626461 := by
  decide +kernel

/-- unary operators work on a copy (repaired with C01; was class *unary-in-place*): `with self.w1 < -self.w4: pass` -/
def pI : CProg := ⟨[1, 4, 10], [], .ifThen (.cmp .lt (.reg .w 1) (.neg (.reg .w 4))) .skip⟩
def sI : State := st0 [(1, 5), (4, 3), (10, 4096)]

/-- what the condition emitted **before the fix**: the `NEG` on the user's r4, then the jump -/
def before_fix_codeI : List Insn :=
  [⟨Consts.op_NEG, 4, 0, 0, 0⟩, ⟨Consts.op_JSGE + Consts.op_SHORT + Consts.op_REG, 1, 4, 0, 0⟩]

/-- **regression witness** (formerly `unary_in_place_refuted`): the old code changes r4 (3 → 2³² − 3); the repaired
generator negates a copy in the free register r0, `pI` is in no class, satisfies every hypothesis of `C03_partial`,
and r4 keeps its value -/
theorem before_fix_unary_in_place :
    regAfter before_fix_codeI sI 4 = 4294967293 ∧
    (emitCProg pI).toOption = some [⟨Consts.op_MOV + Consts.op_REG, 0, 4, 0, 0⟩, ⟨Consts.op_NEG, 0, 0, 0, 0⟩,
      ⟨Consts.op_JSGE + Consts.op_SHORT + Consts.op_REG, 1, 0, 0, 0⟩] ∧
    classesOf pI = [] ∧ progOkC pI = true ∧ regAfter (codeOfC pI) sI 4 = 3 := by
  decide +kernel

/-- unary operators in a 64-bit comparison (repaired with C01; was class *unary-32-in-64*):
`with self.lsq > -self.lsh: self.r6 = 1` with lsq = lsh = 3 -/
def cM : SCond := .cmp .gt (.var "lsq") (.neg (.var "lsh"))
def pM : CProg := ⟨[6, 10], [⟨"lsq", .q, .loc⟩, ⟨"lsh", .h, .loc⟩], .ifThen cM (.set (.reg .r 6) (.c 1))⟩
def sM : State := st0 [(6, 0), (10, 4096)] [(4088, 3), (4086, 3)]

/-- what the program emitted **before the fix**: −lsh is computed with the 32-bit `NEG` and compared in 64 bits -/
def before_fix_codeM : List Insn :=
  [⟨Consts.op_LD + Consts.op_DW, 0, 10, -8, 0⟩, ⟨Consts.op_LD + Consts.op_H, 1, 10, -10, 0⟩,
   ⟨Consts.op_LSH + Consts.op_LONG, 1, 0, 0, 48⟩, ⟨Consts.op_ARSH + Consts.op_LONG, 1, 0, 0, 48⟩, ⟨Consts.op_NEG, 1, 0, 0, 0⟩,
   ⟨Consts.op_JSLE + Consts.op_REG, 0, 1, 1, 0⟩, ⟨Consts.op_MOV + Consts.op_LONG, 6, 0, 0, 1⟩]

/-- **regression witness** (formerly `unary_32_in_64_refuted`): the old code skips the body although 3 > −3 (−3 became
2³² − 3); the repaired generator negates in 64 bits, `pM` is in no class, satisfies every hypothesis of `C03_partial`, and
the body runs -/
theorem before_fix_unary_32_in_64 :
    regAfter before_fix_codeM sM 6 = 0 ∧ truthOf pM cM sM = true ∧
    (emitCProg pM).toOption = some [⟨Consts.op_LD + Consts.op_DW, 0, 10, -8, 0⟩, ⟨Consts.op_LD + Consts.op_H, 1, 10, -10, 0⟩,
      ⟨Consts.op_LSH + Consts.op_LONG, 1, 0, 0, 48⟩, ⟨Consts.op_ARSH + Consts.op_LONG, 1, 0, 0, 48⟩,
      ⟨Consts.op_NEG + Consts.op_LONG, 1, 0, 0, 0⟩,
      ⟨Consts.op_JSLE + Consts.op_REG, 0, 1, 1, 0⟩, ⟨Consts.op_MOV + Consts.op_LONG, 6, 0, 0, 1⟩] ∧
    classesOf pM = [] ∧ progOkC pM = true ∧ regAfter (codeOfC pM) sM 6 = 1 := by
  decide +kernel

/-! ### the typing of `register ± int` and of `&` (repaired with C01; the checks had not seen it, see DESIGN §10.5)

A comparison is signed as soon as one operand is.  `Sum.__init__` typed `register ± int` by the sign of the number alone:
`self.sr2 + 1` was unsigned and `with self.sr2 + 1 < 5` an unsigned comparison.  The comparison objects of the unrepaired
code are kept by hand. -/
def bodyT : SStmt := .set (.reg .r 6) (.c 1)
def cT : SCond := .cmp .lt (.bin .add (.reg .sr 2) (.c 1)) (.c 5)
def pT : CProg := ⟨[2, 3, 6, 10], [], .ifThen cT bodyT⟩
def sT : State := st0 [(2, 18446744073709551613), (3, 18446744073709551612), (6, 0), (10, 4096)]   -- sr2 = −3, sr3 = −4

/-- the code of `with <comparison object>: self.r6 = 1` in the initial state of `pT` -/
def codeOfCObj (co : CObj) : List Insn :=
  match withThen co (emitS (layout pT.vars) bodyT) { code := [], owners := pT.owned, stack := 0 } with
  | .ok (_, g) => g.code
  | .error _ => []

/-- `self.sr2 + 1 < 5` as it was built **before the fix**: the `Sum` unsigned, so the unsigned opcode pair -/
def before_fix_cobjT : CObj := .simple .lt false (.bin .add (.reg 2 true true) (.const 1) false .sum) (.const 5)

/-- **regression witness**: with sr2 = −3 the old comparison (unsigned: 2⁶⁴ − 2 < 5) skips the body although −2 < 5; the
repaired operator protocol builds a signed comparison of a signed `Sum`, `pT` is in no class, satisfies every hypothesis
of `C03_partial`, and the body runs -/
theorem before_fix_sum_signed :
    regAfter (codeOfCObj before_fix_cobjT) sT 6 = 0 ∧ truthOf pT cT sT = true ∧
    (elabC (layout pT.vars) cT).toOption =
      some (.simple .lt true (.bin .add (.reg 2 true true) (.const 1) true .sum) (.const 5)) ∧
    classesOf pT = [] ∧ progOkC pT = true ∧ regAfter (codeOfC pT) sT 6 = 1 := by
  decide +kernel

/-- the merged number: `with self.r2 - 1 > 5` with r2 = 2⁶³ + 1.  The `Sum` keeps −1 and was signed (`w2 - 1`, `r2 - r3`
are not): the signed comparison sees −2⁶³ > 5 and skips the body.  Now the text decides: unsigned, the body runs -/
def cT2 : SCond := .cmp .gt (.bin .sub (.reg .r 2) (.c 1)) (.c 5)
def pT2 : CProg := ⟨[2, 3, 6, 10], [], .ifThen cT2 bodyT⟩
def sT2 : State := st0 [(2, 9223372036854775809), (6, 0), (10, 4096)]
def before_fix_cobjT2 : CObj := .simple .gt true (.bin .add (.reg 2 true false) (.const (-1)) true .sum) (.const 5)

theorem before_fix_sum_merged :
    regAfter (codeOfCObj before_fix_cobjT2) sT2 6 = 0 ∧ truthOf pT2 cT2 sT2 = true ∧
    (elabC (layout pT2.vars) cT2).toOption =
      some (.simple .gt false (.bin .add (.reg 2 true false) (.const (-1)) false .sum) (.const 5)) ∧
    classesOf pT2 = [] ∧ progOkC pT2 = true ∧ regAfter (codeOfC pT2) sT2 6 = 1 := by
  decide +kernel

/-- `&` of two signed operands: `with (self.sr2 & self.sr3) < 0` with −3 & −4 = −4.  The `AndExpression` was always
unsigned: an unsigned `< 0` never holds.  Now it is signed iff both operands are -/
def cT3 : SCond := .cmp .lt (.bin .and (.reg .sr 2) (.reg .sr 3)) (.c 0)
def pT3 : CProg := ⟨[2, 3, 6, 10], [], .ifThen cT3 bodyT⟩
def before_fix_cobjT3 : CObj :=
  .simple .lt false (.bin .and (.reg 2 true true) (.reg 3 true true) false .and) (.const 0)

theorem before_fix_and_signed :
    regAfter (codeOfCObj before_fix_cobjT3) sT 6 = 0 ∧ truthOf pT3 cT3 sT = true ∧
    (elabC (layout pT3.vars) cT3).toOption =
      some (.simple .lt true (.bin .and (.reg 2 true true) (.reg 3 true true) true .and) (.const 0)) ∧
    classesOf pT3 = [] ∧ (emitCProg pT3).toOption.isSome = true ∧ regAfter (codeOfC pT3) sT 6 = 1 := by
  decide +kernel

/-- **the comparison the generator builds is signed iff the property types one of the operands signed**
(`SExpr.psigned`: the text decides, not the objects): for every comparison `a op b` of every program, the comparison
object at the root (under the `~` of `==`) carries the flag `psigned a || psigned b`, unless it is a bit test
`(x & m) != 0` (a `JSET`, which has no signed/unsigned pair); for `with expr:` the flag is `psigned expr` -/
theorem comparison_typing_exact (p : CProg) (op : SCmp) (a b : SExpr) (co : CObj)
    (h : elabC (layout p.vars) (.cmp op a b) = .ok co) :
    co.rootSg = none ∨ co.rootSg = some (a.psigned (layout p.vars) || b.psigned (layout p.vars)) :=
  elabC_cmp_sg (layout p.vars) op a b co h

theorem truth_typing_exact (p : CProg) (e : SExpr) (co : CObj) (h : elabC (layout p.vars) (.truth e) = .ok co) :
    co.rootSg = none ∨ co.rootSg = some (e.psigned (layout p.vars)) :=
  elabC_truth_sg (layout p.vars) e co h

/-- *const-left-32*: `with 5 - self.lsq > 0: self.r6 = 1` with lsq = 2³² + 1: the subtraction is done in 32 bits
(width of the constant on the left), the body runs although 5 − lsq is negative -/
def cC : SCond := .cmp .gt (.bin .sub (.c 5) (.var "lsq")) (.c 0)
def pC : CProg := ⟨[6, 10], [⟨"lsq", .q, .loc⟩], .ifThen cC (.set (.reg .r 6) (.c 1))⟩
def sC : State := st0 [(6, 0), (10, 4096)] [(4088, 1), (4092, 1)]

theorem const_left_32_refuted : (emitCProg pC).toOption.isSome = true ∧
    classesOf pC = ["const-left-32"] ∧ regAfter (codeOfC pC) sC 6 = 1 ∧ truthOf pC cC sC = false := by
  decide +kernel

deriving instance DecidableEq for KStmt

/-- the elaborated witness program of *narrow-reg-in-64* -/
def cNo : CObj := .simple .gt false (.reg 1 false false) (.const 32767)
def kN : KStmt := .ifThen cNo (.set (.reg 6 true (.const 1)))

/-- **the generator still violates the full-strength statement** (witness: *narrow-reg-in-64*, pinned by the suite) -/
theorem C03_full_refuted : ¬ C03_full := by
  intro h
  obtain ⟨hacc, _, hreg, _⟩ := narrow_reg_in_64_refuted
  have hk : compileS (layout pN.vars) pN.body = some kN := by decide +kernel
  have htyped : kN.typedB pN.owned = true := by decide +kernel
  obtain ⟨σ', hrun, hsem⟩ := h pN kN (codeOfC pN) hk htyped (codeOfC_ok pN hacc) sN
  simp only [kN, KStmt.semZ] at hsem
  have hpre : cNo.pre sN := by
    simp only [cNo, CObj.pre, atomPre]
    refine ⟨by simp [shiftsOk], fun _ => by simp [shiftsOk], ?_⟩
    decide +kernel
  obtain ⟨σ1, hk1, hrest⟩ := hsem hpre
  have ht : cNo.truth sN = false := by decide +kernel
  rw [ht] at hrest
  simp only [Bool.false_eq_true, if_false] at hrest
  have h6 : σ'.regs 6 = sN.regs 6 := by
    rw [hrest.1 6 (by decide), hk1.1 6 (by decide)]
  have := regAfter_of_run (k := 6) hrun
  have e : ({ sN with pc := 0 } : State) = sN := rfl
  rw [e, hreg, h6] at this
  revert this
  decide +kernel

/-! ## non-vacuity -/

def vvars : List VarDecl := [⟨"vq", .q, .loc⟩, ⟨"vi", .i, .loc⟩, ⟨"vB", .B, .loc⟩, ⟨"res", .Q, .loc⟩]
def mark (n : Int) : SStmt := .set (.var "res") (.bin .or (.var "res") (.c n))

/-- nested `with` / `Else` blocks over `&`, `|`, `~`, a signed mixed-width comparison that is widened, a 32-bit
comparison, an unsigned one, a bit test with `Else` (the splice) and an expression used as condition:
```
with (self.vi < self.vq) & ~(self.vB >= 7) as Else:
    res |= 1
    with self.r3 & 0x80 as Else:  res |= 2
    with Else:                    res |= 4
with Else:
    with (self.sw4 + self.vi > -5) | (self.r3 != 0):  res |= 8
res |= 16
```
satisfies every hypothesis of `C03_partial` and is accepted by the generator -/
def pGood : CProg := ⟨[3, 4, 10], vvars,
  .seq (.ifElse (.and (.cmp .lt (.var "vi") (.var "vq")) (.not (.cmp .ge (.var "vB") (.c 7))))
      (.seq (mark 1) (.ifElse (.truth (.bin .and (.reg .r 3) (.c 128))) (mark 2) (mark 4)))
      (.ifThen (.or (.cmp .gt (.bin .add (.reg .sw 4) (.var "vi")) (.c (-5))) (.cmp .ne (.reg .r 3) (.c 0))) (mark 8)))
    (mark 16)⟩

example : progOkC pGood = true ∧ (emitCProg pGood).toOption.isSome = true ∧ (codeOfC pGood).length = 30 := by
  decide +kernel

/-- `Sum - expression` and one `Sum` used twice inside a condition (repaired; was class *sum-minus*, whose witness
`with (self.r5 + 3) - self.r3 > 9` with r5 = 10, r3 = 4 computed 17 and ran the body):
```
with (self.r5 + 3) - self.r3 > 9 as Else:            res |= 2
with Else:
    with ((self.r5 + 3) + 4) - self.r3 == 13:        res |= 4
res |= 8
```
inside `C03_partial` and `C03_surface_truth`, accepted; with r5 = 10, r3 = 4 the first condition is false (9 > 9), the
second true: res = 4 | 8 -/
def cS : SCond := .cmp .gt (.bin .sub (.bin .add (.reg .r 5) (.c 3)) (.reg .r 3)) (.c 9)
def cS2 : SCond := .cmp .eq (.bin .sub (.bin .add (.bin .add (.reg .r 5) (.c 3)) (.c 4)) (.reg .r 3)) (.c 13)
def pS : CProg := ⟨[3, 5, 10], vvars, .seq (.ifElse cS (mark 2) (.ifThen cS2 (mark 4))) (mark 8)⟩
def sS : State := st0 [(3, 4), (5, 10), (10, 4096)]

/-- the variable `res` (at r10 − 24 in `vvars`) after running the code -/
def resAfter (code : List Insn) (s : State) : Nat :=
  match run code (code.length + 1) s with
  | .fell s' => loadN s'.mem (s'.regs 10 + BitVec.ofInt 64 (-24)) 8
  | _ => 0

example : progOkC pS = true ∧ cS.surfOk (layout pS.vars) = true ∧ cS2.surfOk (layout pS.vars) = true ∧
    (emitCProg pS).toOption.isSome = true ∧ classesOf pS = [] ∧
    truthOf pS cS sS = false ∧ truthOf pS cS2 sS = true ∧ resAfter (codeOfC pS) sS = 12 := by
  decide +kernel

end Ebv.C03
