import Ebv.Model.Dispatch
/-! C22 — the dispatcher keeps fast groups running under loss and injection. -/
namespace Ebv.C22
open Ebv.Dispatch Ebv.Bytes Ebv.Consts

/-! ### one pass of the dispatcher over a packet -/

theorem step_action (c idx : Nat) (reg : Bool) :
    (step c idx reg).action = .run ∨ (step c idx reg).action = .tx ∨ (step c idx reg).action = .pass := by
  unfold step active
  split <;> (try split) <;> (try split) <;> simp

theorem step_ne_drop (c idx : Nat) (reg : Bool) : (step c idx reg).action ≠ .drop := by
  rcases step_action c idx reg with h | h | h <;> simp [h]

theorem step_run_registered (c idx : Nat) (reg : Bool) (h : (step c idx reg).action = .run) : reg = true := by
  unfold step active at h
  split at h <;> (try split at h) <;> (try split at h) <;> simp_all

/-- the dispatcher itself never drops (or aborts) a frame: with the bundled drop rate of 0 every
pass ends in TX, PASS or the tail call -/
theorem never_drops (p : List UInt8) (cs : List Nat) (dc : Nat) (reg : Nat → Bool) (rnd : Nat) :
    (dispatch p cs dc reg rnd).action ≠ .drop := by
  unfold dispatch
  have hr : ¬ rnd % 65536 < rate := by simp [rate, dispatcher_rate]
  simp only [hr, ↓reduceIte]
  split
  · simp
  · split
    · simp
    · split
      · simp
      · exact step_ne_drop _ _ _

/-- frames that are not EtherCAT, or do not start with the NOP identification datagram, pass unchanged -/
theorem foreign_unchanged (p : List UInt8) (cs : List Nat) (dc : Nat) (reg : Nat → Bool) (rnd : Nat)
    (h : decBE (slice p dispatcher_off_ethertype (dispatcher_off_ethertype + 2)) ≠ dispatcher_ethertype ∨
         getU8 p dispatcher_off_cmd0 ≠ 0) :
    dispatch p cs dc reg rnd = ⟨.pass, p, cs, dc⟩ := by
  unfold dispatch
  have hr : ¬ rnd % 65536 < rate := by simp [rate, dispatcher_rate]
  simp only [hr, ↓reduceIte, h]
  split <;> rfl

/-- frames too short to hold the identification datagram pass unchanged -/
theorem small_unchanged (p : List UInt8) (cs : List Nat) (dc : Nat) (reg : Nat → Bool) (rnd : Nat)
    (h : p.length ≤ dispatcher_minimumPacketSize) :
    dispatch p cs dc reg rnd = ⟨.pass, p, cs, dc⟩ := by
  unfold dispatch
  have : ¬ p.length > minimumPacketSize := by simp [minimumPacketSize]; exact h
  simp [this]

/-- what being a frame of group `g` means on the wire -/
def IsGroupFrame (p : List UInt8) (g : Nat) : Prop :=
  p.length > dispatcher_minimumPacketSize ∧
  decBE (slice p dispatcher_off_ethertype (dispatcher_off_ethertype + 2)) = dispatcher_ethertype ∧
  getU8 p dispatcher_off_cmd0 = 0 ∧ decLE (slice p dispatcher_off_addr0 (dispatcher_off_addr0 + 4)) = g

/-- a frame of a group with a table slot is decided by `step` on that group's counter and the frame's
index byte; only that counter changes -/
theorem group_frame_outcome (p : List UInt8) (g : Nat) (cs : List Nat) (dc : Nat) (reg : Nat → Bool) (rnd : Nat)
    (hp : IsGroupFrame p g) (hg : g < MAX_PROGS) :
    let s := step (cs.getD g 0) (getU8 p dispatcher_INDEX0) (reg g)
    let o := dispatch p cs dc reg rnd
    o.action = s.action ∧ o.counters = cs.set g s.c ∧ o.dropcounter = dc ∧
    getU8 o.packet dispatcher_INDEX0 = s.idx % 256 ∧ (o.action = .run → reg g = true) := by
  obtain ⟨hl, he, hc, hgr⟩ := hp
  have hr : ¬ rnd % 65536 < rate := by simp [rate, dispatcher_rate]
  have hl' : p.length > minimumPacketSize := by simpa [minimumPacketSize] using hl
  have hlen : 30 < p.length := by simpa [dispatcher_minimumPacketSize] using hl
  intro s o
  have ho : o = ⟨s.action,
      (if s.etFromData then setEthertypeFromData (setRange p dispatcher_INDEX0 [UInt8.ofNat s.idx])
       else setRange p dispatcher_INDEX0 [UInt8.ofNat s.idx]), cs.set g s.c, dc⟩ := by
    show dispatch p cs dc reg rnd = _
    unfold dispatch
    simp only [hl', not_true_eq_false, hr, ↓reduceIte, he, hc, ne_eq, or_self, hgr, hg]
    rfl
  rw [ho]
  refine ⟨rfl, rfl, rfl, ?_, fun h => step_run_registered _ _ _ h⟩
  have hidx : getU8 (setRange p dispatcher_INDEX0 [UInt8.ofNat s.idx]) dispatcher_INDEX0 = s.idx % 256 := by
    have := getElem?_setRange_inside p dispatcher_INDEX0 [UInt8.ofNat s.idx] 0
      (by simp [dispatcher_INDEX0]; omega) (by simp)
    simp only [Nat.add_zero] at this
    simp [getU8, List.getD, this]
  by_cases het : s.etFromData = true
  · simp only [het, ↓reduceIte]
    -- the ethertype write does not touch the index byte
    unfold setEthertypeFromData
    have hlen2 : (setRange p dispatcher_INDEX0 [UInt8.ofNat s.idx]).length = p.length :=
      length_setRange _ _ _ (by simp [dispatcher_INDEX0]; omega)
    have := getElem?_setRange_outside (setRange p dispatcher_INDEX0 [UInt8.ofNat s.idx]) dispatcher_off_ethertype
      (encBE 2 (decLE (slice (setRange p dispatcher_INDEX0 [UInt8.ofNat s.idx]) dispatcher_off_data0 (dispatcher_off_data0 + 2))))
      dispatcher_INDEX0 (by simp [dispatcher_off_ethertype]; omega) (by simp [dispatcher_off_ethertype, dispatcher_INDEX0])
    simp only [getU8, List.getD] at hidx ⊢
    rw [this]; exact hidx
  · simp only [het, Bool.false_eq_true, ↓reduceIte]
    exact hidx

/-- the only bytes a pass can change are the index byte and the two ethertype bytes -/
theorem dispatch_touches_only_index_and_ethertype (p : List UInt8) (cs : List Nat) (dc : Nat) (reg : Nat → Bool)
    (rnd : Nat) (i : Nat) (hi : i ≠ dispatcher_INDEX0 ∧ i ≠ dispatcher_off_ethertype ∧ i ≠ dispatcher_off_ethertype + 1) :
    (dispatch p cs dc reg rnd).packet[i]? = p[i]? := by
  unfold dispatch
  by_cases hl : ¬ p.length > minimumPacketSize
  · simp [hl]
  have hl : p.length > minimumPacketSize := by omega
  have hlen : 30 < p.length := by simpa [minimumPacketSize, dispatcher_minimumPacketSize] using hl
  have hE : ∀ q : List UInt8, q.length = p.length → (setEthertypeFromData q)[i]? = q[i]? := by
    intro q hq
    unfold setEthertypeFromData
    apply getElem?_setRange_outside
    · simp [dispatcher_off_ethertype]; omega
    · simp [dispatcher_off_ethertype] at hi ⊢; omega
  have hI : ∀ v : UInt8, (setRange p dispatcher_INDEX0 [v])[i]? = p[i]? := by
    intro v
    apply getElem?_setRange_outside
    · simp [dispatcher_INDEX0]; omega
    · simp [dispatcher_INDEX0] at hi ⊢; omega
  simp only [hl, not_true_eq_false, ↓reduceIte]
  split
  · rfl
  · split
    · rfl
    · split
      · exact hE p rfl
      · dsimp only
        split
        · rw [hE _ (length_setRange _ _ _ (by simp [dispatcher_INDEX0]; omega))]; exact hI _
        · exact hI _

/-- frames of a group without a registered program (or with a group number outside the table) never run a
program; when they are handed to user space they carry the ethertype stored in the identification datagram -/
theorem unregistered_reaches_user_space (p : List UInt8) (g : Nat) (cs : List Nat) (dc : Nat) (reg : Nat → Bool)
    (rnd : Nat) (hp : IsGroupFrame p g) (hu : ¬ g < MAX_PROGS ∨ reg g = false) :
    let o := dispatch p cs dc reg rnd
    o.action ≠ .run ∧
    (o.action = .pass → slice o.packet dispatcher_off_ethertype (dispatcher_off_ethertype + 2) =
        encBE 2 (decLE (slice p dispatcher_off_data0 (dispatcher_off_data0 + 2)))) ∧
    (o.action = .tx → (cs.getD g 0) % 2 = 1) := by
  obtain ⟨hl, he, hc, hgr⟩ := hp
  have hr : ¬ rnd % 65536 < rate := by simp [rate, dispatcher_rate]
  have hl' : p.length > minimumPacketSize := by simpa [minimumPacketSize] using hl
  have hlen : 30 < p.length := by simpa [dispatcher_minimumPacketSize] using hl
  -- writing the ethertype from the data field, then reading it back
  have hset : ∀ q : List UInt8, q.length = p.length →
      slice q dispatcher_off_data0 (dispatcher_off_data0 + 2) = slice p dispatcher_off_data0 (dispatcher_off_data0 + 2) →
      slice (setEthertypeFromData q) dispatcher_off_ethertype (dispatcher_off_ethertype + 2) =
        encBE 2 (decLE (slice p dispatcher_off_data0 (dispatcher_off_data0 + 2))) := by
    intro q hq hd
    unfold setEthertypeFromData
    rw [hd]
    have := slice_setRange_same q dispatcher_off_ethertype (encBE 2 (decLE (slice p dispatcher_off_data0 (dispatcher_off_data0 + 2))))
      (by simp [dispatcher_off_ethertype]; omega)
    simpa using this
  intro o
  by_cases hg : ¬ g < MAX_PROGS
  · have ho : o = ⟨.pass, setEthertypeFromData p, cs, dc⟩ := by
      show dispatch p cs dc reg rnd = _
      unfold dispatch
      simp only [hl', not_true_eq_false, hr, ↓reduceIte, he, hc, ne_eq, or_self, hgr, hg]
      simp
    rw [ho]
    exact ⟨by simp, fun _ => hset p rfl rfl, by simp⟩
  · have hg : g < MAX_PROGS := by omega
    have hreg : reg g = false := by rcases hu with h | h; exact absurd hg h; exact h
    have hgf := group_frame_outcome p g cs dc reg rnd ⟨hl, he, hc, hgr⟩ hg
    dsimp only at hgf
    obtain ⟨ha, _, _, _, hrun⟩ := hgf
    refine ⟨fun h => by simp [hrun h] at hreg, ?_, ?_⟩
    · intro hpass
      have ho : o.packet = (if (step (cs.getD g 0) (getU8 p dispatcher_INDEX0) (reg g)).etFromData
          then setEthertypeFromData (setRange p dispatcher_INDEX0 [UInt8.ofNat (step (cs.getD g 0) (getU8 p dispatcher_INDEX0) (reg g)).idx])
          else setRange p dispatcher_INDEX0 [UInt8.ofNat (step (cs.getD g 0) (getU8 p dispatcher_INDEX0) (reg g)).idx]) := by
        show (dispatch p cs dc reg rnd).packet = _
        unfold dispatch
        simp only [hl', not_true_eq_false, hr, ↓reduceIte, he, hc, ne_eq, or_self, hgr, hg]
      have hpass' : (step (cs.getD g 0) (getU8 p dispatcher_INDEX0) (reg g)).action = .pass := by
        rw [← ha]; exact hpass
      have het : (step (cs.getD g 0) (getU8 p dispatcher_INDEX0) (reg g)).etFromData = true := by
        revert hpass'
        unfold step active
        split <;> (try split) <;> (try split) <;> simp
      rw [ho, het]
      simp only [↓reduceIte]
      apply hset
      · exact length_setRange _ _ _ (by simp [dispatcher_INDEX0]; omega)
      · apply slice_setRange_disjoint
        · simp [dispatcher_INDEX0]; omega
        · simp [dispatcher_INDEX0, dispatcher_off_data0]
        · simp
    · intro htx
      have htx' : (step (cs.getD g 0) (getU8 p dispatcher_INDEX0) (reg g)).action = .tx := by
        rw [← ha]; exact htx
      revert htx'
      unfold step active
      rw [hreg]
      split <;> (try split) <;> simp_all


/-! ### histories: any order of deliveries, losses and injections, any number of frames in flight -/

/-- `runsLE k cur os`: among the frames that went back onto the bus, never more than `k` in a row
did so without the group's program running (`cur` = length of the current such run) -/
def runsLE (k : Nat) : Nat → List Obs → Bool
  | cur, [] => decide (cur ≤ k)
  | cur, .passive _ :: t => decide (cur + 1 ≤ k) && runsLE k (cur + 1) t
  | _, .ran _ :: t => runsLE k 0 t
  | cur, _ :: t => decide (cur ≤ k) && runsLE k cur t

theorem kind_normal (c idx : Nat) (h : kind c idx = .normal) :
    idx ≠ c % 256 ∧ ((idx + 1) % 256 = c % 256 ∨ idx = 0) := by
  unfold kind at h
  split at h
  · simp at h
  · split at h
    · rename_i h1 h2; exact ⟨h1, h2⟩
    · simp at h

theorem step_parity (c idx : Nat) (reg : Bool) :
    ((step c idx reg).action = .tx → c % 2 = 1 ∧ (step c idx reg).c % 2 = 0) ∧
    ((step c idx reg).action = .run → (step c idx reg).c % 2 = 1 ∧ (step c idx reg).idx % 2 = 1) ∧
    ((step c idx reg).action = .pass → reg = true → (step c idx reg).c = c) ∧
    ((step c idx reg).action = .tx → idx % 2 = 0) := by
  cases hk : kind c idx with
  | lost =>
    cases reg <;> simp only [step, hk, active, M32] <;> simp <;> omega
  | normal =>
    have hn := kind_normal c idx hk
    by_cases hc : c % 2 = 1
    · simp only [step, hk, hc, ↓reduceIte, M32]
      simp
      omega
    · cases reg <;> simp only [step, hk, hc, ↓reduceIte, active, M32] <;> simp <;> omega
  | stale => simp [step, hk]

/-- the parity invariant: for a registered group, after a frame was returned to the bus by the
dispatcher itself the loop counter is even, and with an even counter the next frame returned to the
bus has run the group's program -/
theorem passive_run_invariant (evs : List Ev) (s : Sys) (cur : Nat)
    (hcur : cur ≤ 1) (hinv : cur = 1 → s.c % 2 = 0) :
    runsLE 1 cur (runHist true s evs).2 = true := by
  induction evs generalizing s cur with
  | nil => simp [runHist, runsLE, hcur]
  | cons e evs ih =>
    simp only [runHist]
    cases e with
    | inject => simp only [evStep, runsLE, hcur, decide_true, Bool.true_and]; exact ih _ _ hcur hinv
    | lose i => simp only [evStep, runsLE, hcur, decide_true, Bool.true_and]; exact ih _ _ hcur hinv
    | deliver i output =>
      simp only [evStep]
      cases hf : s.flight[i]? with
      | none => simp only [runsLE, hcur, decide_true, Bool.true_and]; exact ih _ _ hcur hinv
      | some f =>
        simp only
        have hp := step_parity s.c f.idx true
        cases ha : (step s.c f.idx true).action with
        | run => simp only [runsLE]; exact ih _ 0 (by omega) (by omega)
        | tx =>
          have := hp.1 ha
          have hc0 : cur = 0 := by
            rcases Nat.lt_or_ge cur 1 with h | h
            · omega
            · have := hinv (by omega); omega
          subst hc0
          simp only [runsLE, Nat.zero_add, Nat.le_refl, decide_true, Bool.true_and]
          exact ih _ 1 (by omega) (fun _ => this.2)
        | pass =>
          simp only [runsLE, hcur, decide_true, Bool.true_and]
          exact ih _ cur hcur (fun h => by simpa [hp.2.2.1 ha rfl] using hinv h)
        | drop => exact absurd ha (step_ne_drop _ _ _)

/-- for a registered group, in any history, two frames are never returned to the bus one after the
other without the group's program running on one of them -/
theorem no_two_passive_in_a_row (evs : List Ev) (c : Nat) (flight : List Frame) :
    runsLE 1 0 (runHist true ⟨c, flight⟩ evs).2 = true :=
  passive_run_invariant evs _ 0 (by omega) (by omega)

theorem runsLE_mono (k : Nat) (cur : Nat) (os : List Obs) (h : runsLE k cur os = true) : runsLE (k + 1) cur os = true := by
  induction os generalizing cur with
  | nil => simp [runsLE] at *; omega
  | cons o os ih =>
    cases o <;> simp only [runsLE, Bool.and_eq_true, decide_eq_true_eq] at * <;>
      first | exact ih _ h | exact ⟨by omega, ih _ h.2⟩

/-- the property's wording: no more than two consecutive frames pass (are returned to the bus) without
running the group's program -/
theorem at_most_two_passive (evs : List Ev) (c : Nat) (flight : List Frame) :
    runsLE 2 0 (runHist true ⟨c, flight⟩ evs).2 = true :=
  runsLE_mono 1 0 _ (no_two_passive_in_a_row evs c flight)

/-- every delivery that does not run the group's program is either a single passive return or takes
the frame out of circulation (to user space) -/
theorem nonrun_is_passive_or_leaves (reg : Bool) (s : Sys) (i : Nat) (output : Bool) (f : Frame)
    (hf : s.flight[i]? = some f) :
    let r := evStep reg s (.deliver i output)
    (r.2 = .ran f.enabled ∧ r.1.flight.length = s.flight.length) ∨
    (r.2 = .passive f.enabled ∧ r.1.flight.length = s.flight.length ∧ s.c % 2 = 1 ∧ r.1.c % 2 = 0) ∨
    (r.2 = .passed ∧ r.1.flight.length + 1 = s.flight.length) := by
  have hi : i < s.flight.length := by
    rcases Nat.lt_or_ge i s.flight.length with h | h
    · exact h
    · simp [List.getElem?_eq_none h] at hf
  simp only [evStep, hf]
  have hp := step_parity s.c f.idx reg
  cases ha : (step s.c f.idx reg).action with
  | run => simp
  | tx => simp [hp.1 ha]
  | pass => simp [List.length_eraseIdx, hi]; omega
  | drop => exact absurd ha (step_ne_drop _ _ _)

/-- number of deliveries that actually met a frame -/
def effective : List Obs → Nat
  | [] => 0
  | .none :: t => effective t
  | _ :: t => effective t + 1

def noInject : List Ev → Bool
  | [] => true
  | .inject :: _ => false
  | _ :: t => noInject t

/-- frames of a group without a registered program never circulate forever: without further injections at
most `2n + 1` deliveries can happen before all `n` in-flight frames have been handed to user space -/
theorem unregistered_drains (evs : List Ev) (s : Sys) (h : noInject evs = true) :
    effective (runHist false s evs).2 ≤ 2 * s.flight.length + s.c % 2 := by
  induction evs generalizing s with
  | nil => simp [runHist, effective]
  | cons e evs ih =>
    simp only [runHist]
    cases e with
    | inject => simp [noInject] at h
    | lose i =>
      simp only [evStep, effective]
      have := ih ⟨s.c, s.flight.eraseIdx i⟩ (by simpa [noInject] using h)
      have hl := List.length_eraseIdx_le s.flight i
      simp only at this
      omega
    | deliver i output =>
      have h' : noInject evs = true := by simpa [noInject] using h
      cases hf : s.flight[i]? with
      | none =>
        simp only [evStep, hf, effective]
        exact ih s h'
      | some f =>
        have hi : i < s.flight.length := by
          rcases Nat.lt_or_ge i s.flight.length with h | h
          · exact h
          · simp [List.getElem?_eq_none h] at hf
        have hn := nonrun_is_passive_or_leaves false s i output f hf
        simp only at hn
        have hr : (evStep false s (.deliver i output)).2 ≠ .ran f.enabled := by
          simp only [evStep, hf]
          cases ha : (step s.c f.idx false).action with
          | run => exact absurd (step_run_registered _ _ _ ha) (by simp)
          | tx => simp
          | pass => simp
          | drop => exact absurd ha (step_ne_drop _ _ _)
        generalize evStep false s (.deliver i output) = r at hn hr
        obtain ⟨s', o⟩ := r
        have := ih s' h'
        rcases hn with ⟨h1, _⟩ | ⟨h1, h2, h3, h4⟩ | ⟨h1, h2⟩
        · exact absurd h1 hr
        · simp only at h1 h2 h3 h4
          subst h1
          simp only [effective]; omega
        · simp only at h1 h2
          subst h1
          simp only [effective]; omega

/-! ### non-vacuity -/
example : (runHist true ⟨0, []⟩ [.inject, .inject, .deliver 0 true, .deliver 1 true, .deliver 0 true, .deliver 1 true]).2 =
    [.none, .none, .ran false, .passive false, .ran true, .passive false] := by decide
example : IsGroupFrame ((List.replicate 12 0 ++ [0x88, 0xa4, 0, 0, 0, 9, 5, 0, 0, 0] ++ List.replicate 40 0)) 5 := by
  refine ⟨by decide, by decide, by decide, by decide⟩

end Ebv.C22
