import Ebv.Model.Collect
/-! C08 — array-map variables read back the same on both sides.
Theorems over the model `Ebv.Collect` of `ArrayMap.collect`, the Python-side accessors,
`PerCPUVar.__getitem__` and the byte-level program-side access. -/
namespace Ebv.C08
open Ebv.Bytes Ebv.Collect

/-! ### the sorted list and the cumulative positions -/

theorem mem_insertDesc (t x : Triple) (l : List Triple) : x ∈ insertDesc t l ↔ x = t ∨ x ∈ l := by
  induction l with
  | nil => simp [insertDesc]
  | cons u us ih =>
    unfold insertDesc
    split
    · simp only [List.mem_cons, ih]
      constructor <;> rintro (h | h | h) <;> simp [h]
    · simp only [List.mem_cons]

theorem mem_sortDesc (x : Triple) (l : List Triple) : x ∈ sortDesc l ↔ x ∈ l := by
  induction l with
  | nil => simp [sortDesc]
  | cons t ts ih => simp [sortDesc, mem_insertDesc, ih]

theorem sumSizes_insertDesc (t : Triple) (l : List Triple) : sumSizes (insertDesc t l) = t.size + sumSizes l := by
  induction l with
  | nil => simp [insertDesc, sumSizes]
  | cons u us ih =>
    unfold insertDesc
    split <;> simp [sumSizes, ih] <;> omega

theorem sumSizes_sortDesc (l : List Triple) : sumSizes (sortDesc l) = sumSizes l := by
  induction l with
  | nil => rfl
  | cons t ts ih => simp [sortDesc, sumSizes_insertDesc, sumSizes, ih]

/-- distinct keys, as a pairwise statement -/
def KeysDistinct (l : List Triple) : Prop := l.Pairwise (fun a b => a.key ≠ b.key)

theorem keysDistinct_iff (l : List Triple) : (l.map Triple.key).Nodup ↔ KeysDistinct l := by
  simp [List.Nodup, List.pairwise_map, KeysDistinct]

theorem distinct_insertDesc (t : Triple) (l : List Triple)
    (h : KeysDistinct l) (ht : ∀ u ∈ l, t.key ≠ u.key) : KeysDistinct (insertDesc t l) := by
  induction l with
  | nil => simp [insertDesc, KeysDistinct]
  | cons u us ih =>
    unfold KeysDistinct at h ⊢
    rw [List.pairwise_cons] at h
    unfold insertDesc
    split
    · rw [List.pairwise_cons]
      refine ⟨?_, ih h.2 (fun x hx => ht x (List.mem_cons_of_mem _ hx))⟩
      intro x hx
      rcases (mem_insertDesc t x us).1 hx with rfl | hx
      · exact fun e => ht u List.mem_cons_self e.symm
      · exact h.1 x hx
    · rw [List.pairwise_cons]
      exact ⟨ht, List.pairwise_cons.2 h⟩

theorem distinct_sortDesc (l : List Triple) (h : KeysDistinct l) : KeysDistinct (sortDesc l) := by
  induction l with
  | nil => simp [sortDesc, KeysDistinct]
  | cons t ts ih =>
    unfold KeysDistinct at h
    rw [List.pairwise_cons] at h
    simp only [sortDesc]
    apply distinct_insertDesc _ _ (ih h.2)
    intro u hu
    exact h.1 u ((mem_sortDesc u ts).1 hu)

/-- the list is sorted by size, descending -/
theorem sorted_insertDesc (t : Triple) (l : List Triple) (h : l.Pairwise (fun a b => b.size ≤ a.size)) :
    (insertDesc t l).Pairwise (fun a b => b.size ≤ a.size) := by
  induction l with
  | nil => simp [insertDesc]
  | cons u us ih =>
    rw [List.pairwise_cons] at h
    unfold insertDesc
    split
    · rw [List.pairwise_cons]
      refine ⟨?_, ih h.2⟩
      intro x hx
      rcases (mem_insertDesc t x us).1 hx with rfl | hx
      · omega
      · exact h.1 x hx
    · rw [List.pairwise_cons]
      refine ⟨?_, List.pairwise_cons.2 h⟩
      intro x hx
      rcases List.mem_cons.1 hx with rfl | hx
      · omega
      · have := h.1 x hx; omega

theorem sorted_sortDesc (l : List Triple) : (sortDesc l).Pairwise (fun a b => b.size ≤ a.size) := by
  induction l with
  | nil => simp [sortDesc]
  | cons t ts ih => exact sorted_insertDesc t _ ih

/-- every placed variable lies inside `[start, start + sum)`, and the placed ranges ascend without overlap -/
theorem place_bounds (l : List Triple) (s : Nat) :
    ∀ x ∈ place s l, s ≤ x.2 ∧ x.2 + x.1.size ≤ s + sumSizes l := by
  induction l generalizing s with
  | nil => simp [place]
  | cons t ts ih =>
    intro x hx
    simp only [place, List.mem_cons] at hx
    rcases hx with rfl | hx
    · simp [sumSizes]
    · have := ih (s + t.size) x hx
      simp only [sumSizes]; omega

theorem place_pairwise (l : List Triple) (s : Nat) :
    (place s l).Pairwise (fun a b => a.2 + a.1.size ≤ b.2) := by
  induction l generalizing s with
  | nil => simp [place]
  | cons t ts ih =>
    simp only [place, List.pairwise_cons]
    exact ⟨fun x hx => (place_bounds ts (s + t.size) x hx).1, ih _⟩

theorem place_fst (l : List Triple) (s : Nat) : (place s l).map Prod.fst = l := by
  induction l generalizing s with
  | nil => rfl
  | cons t ts ih => simp [place, ih]

theorem mem_place_fst {l : List Triple} {s : Nat} {x : Triple × Nat} (h : x ∈ place s l) : x.1 ∈ l := by
  have : x.1 ∈ (place s l).map Prod.fst := List.mem_map_of_mem h
  rwa [place_fst] at this

/-- two placed entries with different keys never overlap -/
theorem place_disjoint (l : List Triple) (s : Nat) (a b : Triple × Nat)
    (ha : a ∈ place s l) (hb : b ∈ place s l) (hk : a.1.key ≠ b.1.key) :
    a.2 + a.1.size ≤ b.2 ∨ b.2 + b.1.size ≤ a.2 := by
  have hp := place_pairwise l s
  generalize place s l = pl at ha hb hp
  induction pl with
  | nil => cases ha
  | cons x xs ih =>
    rw [List.pairwise_cons] at hp
    rcases List.mem_cons.1 ha with rfl | ha' <;> rcases List.mem_cons.1 hb with rfl | hb'
    · exact absurd rfl hk
    · exact Or.inl (hp.1 b hb')
    · exact Or.inr (hp.1 a ha')
    · exact ih ha' hb' hp.2

/-! ### `prog.__dict__[name]`: the last write wins -/

theorem lookupLast_mem (k : Key) (pl : List (Triple × Nat)) (p : Nat) (h : lookupLast k pl = some p) :
    ∃ t, (t, p) ∈ pl ∧ t.key = k := by
  induction pl with
  | nil => simp [lookupLast] at h
  | cons x xs ih =>
    obtain ⟨t, q⟩ := x
    simp only [lookupLast] at h
    cases hr : lookupLast k xs with
    | some q' =>
      rw [hr] at h
      obtain ⟨t', h1, h2⟩ := ih (by rw [hr]; exact h)
      exact ⟨t', List.mem_cons_of_mem _ h1, h2⟩
    | none =>
      rw [hr] at h
      by_cases hk : t.key = k
      · simp only [hk, if_true, Option.some.injEq] at h
        exact ⟨t, by rw [← h]; exact List.mem_cons_self, hk⟩
      · simp [hk] at h

theorem lookupLast_isSome (k : Key) (pl : List (Triple × Nat)) (x : Triple × Nat) (hx : x ∈ pl) (hk : x.1.key = k) :
    (lookupLast k pl).isSome := by
  induction pl with
  | nil => cases hx
  | cons y ys ih =>
    obtain ⟨t, q⟩ := y
    simp only [lookupLast]
    cases hr : lookupLast k ys with
    | some q' => simp
    | none =>
      rcases List.mem_cons.1 hx with rfl | hx'
      · simp [hk]
      · have := ih hx'; rw [hr] at this; cases this

theorem accessSizeOf_mem (ts : List Triple) (k : Key) (s : Nat) (h : accessSizeOf ts k = some s) :
    ∃ t ∈ ts, t.key = k ∧ t.size = s := by
  unfold accessSizeOf at h
  cases hf : ts.find? (·.key = k) with
  | none => simp [hf] at h
  | some t =>
    simp only [hf, Option.map_some, Option.some.injEq] at h
    exact ⟨t, List.mem_of_find?_eq_some hf, by simpa using List.find?_some hf, h⟩

/-- with distinct keys a key names one triple -/
theorem key_inj (ts : List Triple) (h : KeysDistinct ts) (a b : Triple) (ha : a ∈ ts) (hb : b ∈ ts)
    (hk : a.key = b.key) : a = b := by
  induction ts with
  | nil => cases ha
  | cons t ts ih =>
    unfold KeysDistinct at h
    rw [List.pairwise_cons] at h
    rcases List.mem_cons.1 ha with rfl | ha' <;> rcases List.mem_cons.1 hb with rfl | hb'
    · rfl
    · exact absurd hk (h.1 b hb')
    · exact absurd hk.symm (h.1 a ha')
    · exact ih h.2 ha' hb'

/-! ### the layout property -/

/-- the property's layout statement for one collected list: variables (key, position written last,
size of the descriptor Python resolves) are pairwise disjoint, inside the map value, and the map size
is a multiple of the rounding granularity -/
def LayoutOk (ts : List Triple) : Prop :=
  (∀ k₁ k₂ p₁ s₁ p₂ s₂, k₁ ≠ k₂ → rangeOf ts k₁ = some (p₁, s₁) → rangeOf ts k₂ = some (p₂, s₂) →
      p₁ + s₁ ≤ p₂ ∨ p₂ + s₂ ≤ p₁) ∧
  (∀ k p s, rangeOf ts k = some (p, s) → p + s ≤ total ts) ∧
  (∀ t ∈ ts, (rangeOf ts t.key).isSome) ∧
  total ts % Consts.arraymap_align = 0

theorem align_pos : 0 < Consts.arraymap_align := by decide

theorem le_roundUp (a n : Nat) (ha : 0 < a) : n ≤ roundUp a n := by
  unfold roundUp
  have h1 := Nat.div_add_mod (n + (a - 1)) a
  have h2 := Nat.mod_lt (n + (a - 1)) ha
  rw [Nat.mul_comm] at h1
  omega

theorem roundUp_mod (a n : Nat) : roundUp a n % a = 0 := by simp [roundUp]

theorem rangeOf_eq (ts : List Triple) (k : Key) (p s : Nat) :
    rangeOf ts k = some (p, s) ↔ positionOf ts k = some p ∧ accessSizeOf ts k = some s := by
  unfold rangeOf
  cases positionOf ts k <;> cases accessSizeOf ts k <;> simp

/-- with distinct keys, a variable's range is the slot of its one triple -/
theorem range_slot (ts : List Triple) (hd : KeysDistinct ts) (k : Key) (p s : Nat)
    (h : rangeOf ts k = some (p, s)) :
    ∃ t, (t, p) ∈ place 0 (sortDesc ts) ∧ t.key = k ∧ t.size = s := by
  obtain ⟨hp, hs⟩ := (rangeOf_eq ts k p s).1 h
  obtain ⟨t, hm, hk⟩ := lookupLast_mem k _ p hp
  obtain ⟨t', hm', hk', hs'⟩ := accessSizeOf_mem ts k s hs
  have ht : t ∈ ts := (mem_sortDesc t ts).1 (mem_place_fst hm)
  have : t = t' := key_inj ts hd t t' ht hm' (hk.trans hk'.symm)
  exact ⟨t, hm, hk, by rw [this]; exact hs'⟩

theorem layoutOk_of_distinct (ts : List Triple) (hd : KeysDistinct ts) : LayoutOk ts := by
  refine ⟨?_, ?_, ?_, roundUp_mod _ _⟩
  · intro k₁ k₂ p₁ s₁ p₂ s₂ hne h₁ h₂
    obtain ⟨t₁, m₁, e₁, z₁⟩ := range_slot ts hd k₁ p₁ s₁ h₁
    obtain ⟨t₂, m₂, e₂, z₂⟩ := range_slot ts hd k₂ p₂ s₂ h₂
    have := place_disjoint _ 0 (t₁, p₁) (t₂, p₂) m₁ m₂ (by simp only [e₁, e₂]; exact hne)
    simpa [z₁, z₂] using this
  · intro k p s h
    obtain ⟨t, m, _, z⟩ := range_slot ts hd k p s h
    have hb := (place_bounds _ 0 (t, p) m).2
    have hr := le_roundUp Consts.arraymap_align (sumSizes (sortDesc ts)) align_pos
    simp only [z] at hb
    unfold total; omega
  · intro t ht
    have hm : t ∈ sortDesc ts := (mem_sortDesc t ts).2 ht
    have : t ∈ (place 0 (sortDesc ts)).map Prod.fst := by rw [place_fst]; exact hm
    obtain ⟨x, hx, hx1⟩ := List.mem_map.1 this
    have h1 := lookupLast_isSome t.key _ x hx (by rw [hx1])
    have h2 : (accessSizeOf ts t.key).isSome := by
      unfold accessSizeOf
      rw [Option.isSome_map, List.find?_isSome]
      exact ⟨t, ht, by simp⟩
    unfold rangeOf positionOf
    cases h3 : lookupLast t.key (place 0 (sortDesc ts)) with
    | none => rw [h3] at h1; cases h1
    | some p =>
      cases h4 : accessSizeOf ts t.key with
      | none => rw [h4] at h2; cases h2
      | some s => simp

/-! ### the collected keys are distinct: one `unique` set per instance, every instance once -/

theorem classTriplesGo_spec (m pid : Nat) (ds : Cls) (seen : List Nat) :
    (∀ t ∈ classTriplesGo m pid ds seen, t.prog = pid ∧ t.name ∉ seen) ∧
    (classTriplesGo m pid ds seen).Pairwise (fun a b => a.name ≠ b.name) := by
  induction ds generalizing seen with
  | nil => simp [classTriplesGo]
  | cons d ds ih =>
    unfold classTriplesGo
    split
    next hc =>
      obtain ⟨h1, h2⟩ := ih (d.name :: seen)
      have hs : d.name ∉ seen := by simpa using hc.2
      refine ⟨?_, ?_⟩
      · intro t ht
        rcases List.mem_cons.1 ht with rfl | ht
        · exact ⟨rfl, hs⟩
        · have := h1 t ht
          exact ⟨this.1, fun h => this.2 (List.mem_cons_of_mem _ h)⟩
      · rw [List.pairwise_cons]
        exact ⟨fun t ht e => (h1 t ht).2 (by rw [← e]; exact List.mem_cons_self), h2⟩
    next => exact ih seen

theorem dedupGo_spec (ps : List Prog) (seen : List Nat) :
    (∀ p ∈ dedupGo ps seen, p.id ∉ seen) ∧ (dedupGo ps seen).Pairwise (fun a b => a.id ≠ b.id) := by
  induction ps generalizing seen with
  | nil => simp [dedupGo]
  | cons p ps ih =>
    unfold dedupGo
    split
    next => exact ih seen
    next hc =>
      obtain ⟨h1, h2⟩ := ih (p.id :: seen)
      have hs : p.id ∉ seen := by simpa using hc
      refine ⟨?_, ?_⟩
      · intro q hq
        rcases List.mem_cons.1 hq with rfl | hq
        · exact hs
        · exact fun h => (h1 q hq) (List.mem_cons_of_mem _ h)
      · rw [List.pairwise_cons]
        exact ⟨fun q hq e => (h1 q hq) (by rw [← e]; exact List.mem_cons_self), h2⟩

theorem keysDistinct_flatMap (m : Nat) (ps : List Prog) (h : ps.Pairwise (fun a b => a.id ≠ b.id)) :
    KeysDistinct (ps.flatMap (progTriples m)) := by
  induction ps with
  | nil => simp [KeysDistinct]
  | cons p ps ih =>
    rw [List.pairwise_cons] at h
    unfold KeysDistinct
    rw [List.flatMap_cons, List.pairwise_append]
    refine ⟨?_, ih h.2, ?_⟩
    · have hs := classTriplesGo_spec m p.id p.mro.flatten []
      refine hs.2.imp_of_mem ?_
      intro a b ha hb hn e
      exact hn (congrArg Prod.snd e)
    · intro a ha b hb e
      obtain ⟨q, hq, hbq⟩ := List.mem_flatMap.1 hb
      have h1 := (classTriplesGo_spec m p.id p.mro.flatten []).1 a ha
      have h2 := (classTriplesGo_spec m q.id q.mro.flatten []).1 b hbq
      have : a.prog = b.prog := congrArg Prod.fst e
      exact h.1 q hq (by rw [← h1.1, ← h2.1, this])

/-- no `(program, name)` is collected twice, whatever the class hierarchies and the subprogram list -/
theorem keysDistinct_triples (m : Nat) (progs : List Prog) : KeysDistinct (triples m progs) :=
  keysDistinct_flatMap m _ (dedupGo_spec progs []).2

/-- **collect_disjoint_full**: for every list of programs (the EBPF object and its subprograms, possibly
listed twice) with arbitrary class hierarchies, including overriding redeclarations, the variables of
map `m` occupy pairwise disjoint ranges inside the map value, every collected variable has a range, and
the map size is a multiple of 8 -/
def collect_disjoint_full : Prop := ∀ (m : Nat) (progs : List Prog), LayoutOk (triples m progs)

theorem collect_disjoint_full_proved : collect_disjoint_full :=
  fun m progs => layoutOk_of_distinct _ (keysDistinct_triples m progs)

theorem collect_disjoint (m : Nat) (progs : List Prog) : LayoutOk (triples m progs) :=
  collect_disjoint_full_proved m progs

theorem collect_total_mod (ts : List Triple) : total ts % Consts.arraymap_align = 0 := roundUp_mod _ _

/-- the probed witness of the old defect: a subprogram class `SB(SA)`, `SA` declares `a:'B', b:'B'`, `SB`
redeclares `a:'Q'`; the main program declares `z:'B'` (names a=0, b=1, z=2; program ids 0 and 1) -/
def overrideWitness : List Prog :=
  [⟨0, [[⟨2, 0, .arr false 1 .B⟩]]⟩,
   ⟨1, [[⟨0, 0, .arr false 1 .Q⟩], [⟨0, 0, .arr false 1 .B⟩, ⟨1, 0, .arr false 1 .B⟩]]⟩]

example : rangeOf (triples 0 overrideWitness) (1, 0) = some (0, 8) := by decide
example : rangeOf (triples 0 overrideWitness) (1, 1) = some (9, 1) := by decide
example : total (triples 0 overrideWitness) = 16 := by decide
example : layoutOkB (triples 0 overrideWitness) = true := by decide

/-! #### the code before the repair (`unique` reset for every class, instances not de-duplicated) -/

def triplesOld (m : Nat) (progs : List Prog) : List Triple :=
  progs.flatMap fun p => p.mro.flatMap fun cls => classTriplesGo m p.id cls []

/-- on the witness the old collection put `a` (8 bytes) at 9 in a 16-byte map, over `b` at 10 -/
theorem collect_disjoint_old_refuted : ¬ ∀ (m : Nat) (progs : List Prog), LayoutOk (triplesOld m progs) := by
  intro h
  have h2 := (h 0 overrideWitness).2.1 (1, 0) 9 8 (by decide)
  have : total (triplesOld 0 overrideWitness) = 16 := by decide
  omega

/-! ### alignment -/

theorem place_prefix (l : List Triple) (s : Nat) (x : Triple × Nat) (hx : x ∈ place s l) :
    ∃ pre suf, l = pre ++ x.1 :: suf ∧ x.2 = s + sumSizes pre := by
  induction l generalizing s with
  | nil => cases hx
  | cons t ts ih =>
    simp only [place, List.mem_cons] at hx
    rcases hx with rfl | hx
    · exact ⟨[], ts, rfl, by simp [sumSizes]⟩
    · obtain ⟨pre, suf, h1, h2⟩ := ih (s + t.size) hx
      exact ⟨t :: pre, suf, by rw [h1]; rfl, by simp only [sumSizes]; omega⟩

theorem dvd_sumSizes (d : Nat) (l : List Triple) (h : ∀ u ∈ l, d ∣ u.size) : d ∣ sumSizes l := by
  induction l with
  | nil => exact Nat.dvd_zero d
  | cons t ts ih =>
    exact Nat.dvd_add (h t List.mem_cons_self) (ih fun u hu => h u (List.mem_cons_of_mem _ hu))

/-- a slot is aligned to its size when every collected size that is at least as large is a multiple of it -/
theorem slot_aligned (ts : List Triple) (t : Triple) (p : Nat) (h : (t, p) ∈ place 0 (sortDesc ts))
    (hdiv : ∀ u ∈ ts, t.size ≤ u.size → t.size ∣ u.size) : t.size ∣ p := by
  obtain ⟨pre, suf, h1, h2⟩ := place_prefix _ 0 (t, p) h
  have hs := sorted_sortDesc ts
  rw [h1, List.pairwise_append] at hs
  have hpre : ∀ u ∈ pre, t.size ∣ u.size := by
    intro u hu
    have hle : t.size ≤ u.size := hs.2.2 u hu t List.mem_cons_self
    have hmem : u ∈ ts := (mem_sortDesc u ts).1 (by rw [h1]; exact List.mem_append_left _ hu)
    exact hdiv u hmem hle
  have := dvd_sumSizes t.size pre hpre
  simp only [Nat.zero_add] at h2
  rw [h2]; exact this

/-- **collect_sorted_aligned**: with distinct keys, every variable is aligned to its size when all
collected sizes that are not smaller are multiples of it -/
theorem collect_sorted_aligned (ts : List Triple) (hd : KeysDistinct ts) (k : Key) (p s : Nat)
    (h : rangeOf ts k = some (p, s)) (hdiv : ∀ u ∈ ts, s ≤ u.size → s ∣ u.size) : s ∣ p := by
  obtain ⟨t, m, _, z⟩ := range_slot ts hd k p s h
  have := slot_aligned ts t p m (by rw [z]; exact hdiv)
  rwa [z] at this

/-- full strength over programs: no hypothesis on the class hierarchies -/
theorem collect_aligned_full (m : Nat) (progs : List Prog) (k : Key) (p s : Nat)
    (h : rangeOf (triples m progs) k = some (p, s))
    (hdiv : ∀ u ∈ triples m progs, s ≤ u.size → s ∣ u.size) : s ∣ p :=
  collect_sorted_aligned _ (keysDistinct_triples m progs) k p s h hdiv

/-- the case XADD needs: all sizes are powers of two up to 8 (single-element formats and `x`) -/
theorem collect_aligned_pow2 (ts : List Triple) (hd : KeysDistinct ts) (k : Key) (p s : Nat)
    (h : rangeOf ts k = some (p, s)) (hpow : ∀ u ∈ ts, u.size = 1 ∨ u.size = 2 ∨ u.size = 4 ∨ u.size = 8) :
    s ∣ p := by
  apply collect_sorted_aligned ts hd k p s h
  obtain ⟨t, m, _, z⟩ := range_slot ts hd k p s h
  have hts := hpow t ((mem_sortDesc t ts).1 (mem_place_fst m))
  rw [z] at hts
  intro u hu hle
  rcases hpow u hu with e | e | e | e <;> rcases hts with f | f | f | f <;> rw [e, f] <;>
    first
    | decide
    | (exfalso; omega)

/-! ### Python-side round trip -/

theorem Ch.size_pos (c : Ch) : 0 < c.size := by cases c <;> decide

theorem fixed_size : Ch.q.size = fmtsize .fixed := by decide

theorem two_pow_eight (n : Nat) : (2 : Nat) ^ (8 * n) = 256 ^ n := by
  rw [Nat.pow_mul]

theorem ofSigned_lt (n : Nat) (v : Int) : ofSigned n v < 256 ^ n := by
  unfold ofSigned
  have hpos : (0 : Int) < 2 ^ (8 * n) := Int.pow_pos (by decide)
  have h1 := Int.emod_nonneg v (Int.ne_of_gt hpos)
  have h2 := Int.emod_lt_of_pos v hpos
  rw [← two_pow_eight]
  have : ((v % 2 ^ (8 * n)).toNat : Int) < ((2 ^ (8 * n) : Nat) : Int) := by
    rw [Int.toNat_of_nonneg h1]; push_cast; exact h2
  exact Int.ofNat_lt.mp this

theorem encElem_length (big : Bool) (c : Ch) (v : Int) (bs : List UInt8) (h : encElem big c v = some bs) :
    bs.length = c.size := by
  unfold encElem at h
  split at h
  · simp only [Option.some.injEq] at h
    rw [← h]; split <;> simp
  · cases h

theorem decElem_encElem (big : Bool) (c : Ch) (v : Int) (bs : List UInt8) (h : encElem big c v = some bs) :
    decElem big c bs = v := by
  unfold encElem at h
  split at h
  next hf =>
    simp only [Option.some.injEq] at h
    unfold fits at hf
    unfold decElem
    cases hs : c.signed
    · -- unsigned
      simp only [hs, Bool.false_eq_true, if_false] at hf h ⊢
      simp only [fitsU, Bool.and_eq_true, decide_eq_true_eq] at hf
      have hc : (v.toNat : Int) = v := Int.toNat_of_nonneg hf.1
      have hlt : v.toNat < 256 ^ c.size := by
        rw [← two_pow_eight]
        have : (v.toNat : Int) < ((2 ^ (8 * c.size) : Nat) : Int) := by rw [hc]; push_cast; exact hf.2
        exact Int.ofNat_lt.mp this
      rw [← h]
      cases big
      · simp only [Bool.false_eq_true, if_false, decLE_encLE _ _ hlt, hc]
      · simp only [if_true, decBE_encBE _ _ hlt, hc]
    · -- signed
      simp only [hs, if_true] at hf h ⊢
      have hlt := ofSigned_lt c.size v
      rw [← h]
      cases big
      · simp only [Bool.false_eq_true, if_false, decLE_encLE _ _ hlt]
        exact toSigned_ofSigned _ (Ch.size_pos c) v hf
      · simp only [if_true, decBE_encBE _ _ hlt]
        exact toSigned_ofSigned _ (Ch.size_pos c) v hf
  next => cases h

theorem packElems_spec (big : Bool) (c : Ch) (vs : List Int) (bs : List UInt8)
    (h : packElems big c vs = some bs) :
    bs.length = vs.length * c.size ∧ ∀ rest, unpackElems big c vs.length (bs ++ rest) = vs := by
  induction vs generalizing bs with
  | nil =>
    simp only [packElems, Option.some.injEq] at h
    subst h; simp [unpackElems]
  | cons v vs ih =>
    simp only [packElems] at h
    cases he : encElem big c v with
    | none => simp [he] at h
    | some a =>
      cases hr : packElems big c vs with
      | none => simp [he, hr] at h
      | some r =>
        simp only [he, hr, Option.some.injEq] at h
        subst h
        have hl := encElem_length big c v a he
        obtain ⟨l2, u2⟩ := ih r hr
        refine ⟨by simp [hl, l2, Nat.add_mul, Nat.add_comm], ?_⟩
        intro rest
        simp only [List.length_cons, unpackElems, List.append_assoc]
        have t1 : (a ++ (r ++ rest)).take c.size = a := by rw [← hl]; exact List.take_left
        have t2 : (a ++ (r ++ rest)).drop c.size = r ++ rest := by rw [← hl]; exact List.drop_left
        rw [t1, t2, decElem_encElem big c v a he, u2 rest]

theorem Ch.align_pos (c : Ch) : 0 < c.align := by cases c <;> decide

theorem le_memberOff (packed : Bool) (c : Ch) (pos : Nat) : pos ≤ memberOff packed c pos := by
  unfold memberOff
  split
  · exact Nat.le_refl _
  · exact le_roundUp _ _ (Ch.align_pos c)

theorem le_endM (packed : Bool) (cs : List Ch) (pos : Nat) : pos ≤ endM packed pos cs := by
  induction cs generalizing pos with
  | nil => exact Nat.le_refl _
  | cons c cs ih =>
    have := ih (memberOff packed c pos + c.size)
    have := le_memberOff packed c pos
    simp only [endM]; omega

theorem slice_mid (a e t : List UInt8) : slice (a ++ e ++ t) a.length (a.length + e.length) = e := by
  simp [slice]

/-- native or packed multi-member formats: `pack` has the size `calcsize` reports (with the alignment gaps)
and every member decodes, at its offset, to the value packed -/
theorem packM_spec (packed big : Bool) (cs : List Ch) : ∀ (pos : Nat) (vs : List Int) (bs : List UInt8),
    packM packed big pos cs vs = some bs →
    bs.length = endM packed pos cs - pos ∧
    ∀ (pre rest : List UInt8), pre.length = pos → decM packed big pos cs (pre ++ bs ++ rest) = vs := by
  induction cs with
  | nil =>
    intro pos vs bs h
    cases vs with
    | nil => simp only [packM, Option.some.injEq] at h; subst h; simp [endM, decM]
    | cons v vs => simp [packM] at h
  | cons c cs ih =>
    intro pos vs bs h
    cases vs with
    | nil => simp [packM] at h
    | cons v vs =>
      simp only [packM] at h
      cases he : encElem big c v with
      | none => simp [he] at h
      | some e =>
        cases hr : packM packed big (memberOff packed c pos + c.size) cs vs with
        | none => simp [he, hr] at h
        | some r =>
          simp only [he, hr, Option.some.injEq] at h
          subst h
          have hl := encElem_length big c v e he
          have ho := le_memberOff packed c pos
          have hE := le_endM packed cs (memberOff packed c pos + c.size)
          obtain ⟨l2, u2⟩ := ih _ vs r hr
          obtain ⟨z, hz⟩ : ∃ z, z = zeros (memberOff packed c pos - pos) := ⟨_, rfl⟩
          have hzl : z.length = memberOff packed c pos - pos := by rw [hz]; simp
          rw [← hz]
          refine ⟨by simp only [List.length_append, hzl, hl, l2, endM]; omega, ?_⟩
          intro pre rest hp
          have hpl : (pre ++ z).length = memberOff packed c pos := by
            simp only [List.length_append, hp, hzl]; omega
          have e1 : pre ++ (z ++ e ++ r) ++ rest = (pre ++ z) ++ e ++ (r ++ rest) := by
            simp [List.append_assoc]
          have e2 : pre ++ (z ++ e ++ r) ++ rest = (pre ++ z ++ e) ++ r ++ rest := by
            simp [List.append_assoc]
          simp only [decM]
          congr 1
          · rw [e1, ← hpl, ← hl, slice_mid, decElem_encElem big c v e he]
          · rw [e2]
            exact u2 _ rest (by rw [List.length_append, hpl, hl])

/-- what `pack` produces has the format's size and decodes to the packed values -/
theorem pack_spec (fmt : Fmt) (vs : List Int) (bs : List UInt8) (h : pack fmt vs = some bs) :
    bs.length = fmtsize fmt ∧ decode fmt bs = vs := by
  cases fmt with
  | fixed =>
    match vs, h with
    | [v], h =>
      simp only [pack] at h
      have hl := encElem_length false .q v bs h
      refine ⟨by rw [hl]; exact fixed_size, ?_⟩
      simp only [decode]
      rw [List.take_of_length_le (by omega), decElem_encElem false .q v bs h]
  | arr big n c =>
    simp only [pack] at h
    split at h
    next hn =>
      obtain ⟨l, u⟩ := packElems_spec big c vs bs h
      refine ⟨by simp [fmtsize, l, hn], ?_⟩
      have := u []
      simp only [List.append_nil, hn] at this
      exact this
    next => cases h
  | mixed packed big cs =>
    simp only [pack] at h
    obtain ⟨l, u⟩ := packM_spec packed big cs 0 vs bs h
    refine ⟨by simpa [fmtsize] using l, ?_⟩
    have := u [] [] rfl
    simpa [decode] using this

/-- **py_roundtrip**: for every format and every value tuple `pack` accepts, writing at a position
inside the map and reading back gives the values; the map keeps its length and only the variable's
own bytes change -/
theorem py_roundtrip (fmt : Fmt) (vs : List Int) (data : List UInt8) (pos : Nat) (bs : List UInt8)
    (hp : pack fmt vs = some bs) (hr : pos + fmtsize fmt ≤ data.length) :
    ∃ data', pySet data fmt pos vs = .ok data' ∧ data'.length = data.length ∧
      unpack fmt data' pos = .ok vs ∧
      ∀ i, i < pos ∨ pos + fmtsize fmt ≤ i → data'[i]? = data[i]? := by
  obtain ⟨hl, hd⟩ := pack_spec fmt vs bs hp
  have hr' : pos + bs.length ≤ data.length := by omega
  refine ⟨setRange data pos bs, ?_, length_setRange _ _ _ hr', ?_, ?_⟩
  · simp [pySet, hp, hr']
  · unfold unpack
    rw [length_setRange _ _ _ hr', if_pos hr, ← hl, slice_setRange_same _ _ _ hr', hd]
  · intro i hi
    exact getElem?_setRange_outside _ _ _ _ hr' (by omega)

/-! ### per-CPU maps -/

theorem unpack_drop (fmt : Fmt) (data : List UInt8) (d pos : Nat) (hd : d ≤ data.length) :
    unpack fmt (data.drop d) pos = unpack fmt data (d + pos) := by
  unfold unpack
  have e : slice (data.drop d) pos (pos + fmtsize fmt) = slice data (d + pos) (d + pos + fmtsize fmt) := by
    simp only [slice, List.drop_drop]
    congr 1; omega
  rw [e, List.length_drop]
  by_cases h : d + pos + fmtsize fmt ≤ data.length
  · rw [if_pos h, if_pos (by omega)]
  · rw [if_neg h, if_neg (by omega)]

/-- **percpu_slice**: CPU `k`'s value is read at `k * size + position` -/
theorem percpu_slice (data : List UInt8) (mapSize cpus : Nat) (fmt : Fmt) (pos k : Nat)
    (hk : k < cpus) (hd : k * mapSize ≤ data.length) :
    percpuGet data mapSize cpus fmt pos (k : Int) = unpack fmt data (k * mapSize + pos) := by
  unfold percpuGet
  rw [if_pos ⟨by omega, by omega⟩]
  simpa using unpack_drop fmt data (k * mapSize) pos hd

theorem percpu_index_error (data : List UInt8) (mapSize cpus : Nat) (fmt : Fmt) (pos : Nat) (k : Int)
    (hk : k < 0 ∨ (cpus : Int) ≤ k) : percpuGet data mapSize cpus fmt pos k = .error .index := by
  unfold percpuGet
  rw [if_neg (by omega)]

theorem flatten_drop (n : Nat) (blocks : List (List UInt8)) (k : Nat) (h : ∀ b ∈ blocks, b.length = n)
    (hk : k < blocks.length) :
    blocks.flatten.drop (k * n) = blocks[k] ++ (blocks.drop (k + 1)).flatten := by
  induction blocks generalizing k with
  | nil => simp at hk
  | cons b bs ih =>
    cases k with
    | zero => simp
    | succ k =>
      have hb : b.length = n := h b List.mem_cons_self
      have hk' : k < bs.length := by simpa using hk
      have e : (k + 1) * n = b.length + k * n := by rw [hb, Nat.add_mul]; omega
      simp only [List.flatten_cons, e, List.drop_append, List.getElem_cons_succ, List.drop_succ_cons]
      rw [List.drop_of_length_le (by omega), List.nil_append, Nat.add_sub_cancel_left]
      exact ih k (fun x hx => h x (List.mem_cons_of_mem _ hx)) hk'

theorem unpack_append (fmt : Fmt) (b rest : List UInt8) (pos : Nat) (h : pos + fmtsize fmt ≤ b.length) :
    unpack fmt (b ++ rest) pos = unpack fmt b pos := by
  unfold unpack
  rw [if_pos h, if_pos (by rw [List.length_append]; omega)]
  congr 2
  simp only [slice]
  rw [List.drop_append_of_le_length (by omega), List.take_append_of_le_length (by rw [List.length_drop]; omega)]

/-- when the lookup buffer is one block of `mapSize` bytes per CPU, CPU `k`'s variable is decoded from
CPU `k`'s block -/
theorem percpu_block (blocks : List (List UInt8)) (mapSize : Nat) (fmt : Fmt) (pos k : Nat)
    (h : ∀ b ∈ blocks, b.length = mapSize) (hk : k < blocks.length) (hp : pos + fmtsize fmt ≤ mapSize) :
    percpuGet blocks.flatten mapSize blocks.length fmt pos (k : Int) = unpack fmt blocks[k] pos := by
  unfold percpuGet
  rw [if_pos ⟨by omega, by omega⟩]
  simp only [Int.toNat_natCast]
  rw [flatten_drop mapSize blocks k h hk]
  exact unpack_append fmt _ _ pos (by rw [h _ (List.getElem_mem hk)]; exact hp)

/-- the kernel's per-CPU stride `round_up(value_size, 8)` equals the `map.size` the code multiplies by -/
theorem stride_total (ts : List Triple) : kernelStride (total ts) = total ts := by
  have h := collect_total_mod ts
  have e : Consts.arraymap_align = 8 := by decide
  rw [e] at h
  unfold kernelStride roundUp
  omega

/-! ### both sides address the same bytes -/

theorem single_cases (fmt : Fmt) (big : Bool) (c : Ch) (h : fmt.single = some (big, c)) :
    (fmt = .fixed ∧ big = false ∧ c = .q) ∨ fmt = .arr big 1 c := by
  cases fmt with
  | fixed => simp only [Fmt.single, Option.some.injEq, Prod.mk.injEq] at h; exact Or.inl ⟨rfl, h.1.symm, h.2.symm⟩
  | arr b n c' =>
    match n, h with
    | 1, h => simp only [Fmt.single, Option.some.injEq, Prod.mk.injEq] at h; rw [h.1, h.2]; exact Or.inr rfl
  | mixed _ _ _ => simp [Fmt.single] at h

theorem pack_single (fmt : Fmt) (big : Bool) (c : Ch) (h : fmt.single = some (big, c)) (v : Int) :
    pack fmt [v] = encElem big c v ∧ fmtsize fmt = c.size := by
  rcases single_cases fmt big c h with ⟨rfl, rfl, rfl⟩ | rfl
  · exact ⟨rfl, fixed_size.symm⟩
  · refine ⟨?_, by simp [fmtsize]⟩
    simp only [pack, List.length_cons, List.length_nil, Nat.zero_add, if_true, packElems]
    cases encElem big c v <;> simp

/-- **prog_store_py**: a program-side store of a value the format can hold writes exactly the bytes
the Python-side setter writes -/
theorem prog_store_eq_pySet (fmt : Fmt) (big : Bool) (c : Ch) (hs : fmt.single = some (big, c))
    (data : List UInt8) (pos : Nat) (v : Int) (hf : fits c v = true) :
    progStore data big c pos v = pySet data fmt pos [v] := by
  obtain ⟨hp, _⟩ := pack_single fmt big c hs v
  have hu : (v % 2 ^ (8 * c.size)).toNat = (if c.signed then ofSigned c.size v else v.toNat) := by
    cases hsg : c.signed
    · simp only [Bool.false_eq_true, if_false]
      unfold fits at hf
      simp only [hsg, Bool.false_eq_true, if_false, fitsU, Bool.and_eq_true, decide_eq_true_eq] at hf
      rw [Int.emod_eq_of_lt hf.1 hf.2]
    · simp [ofSigned]
  unfold progStore pySet
  rw [hp]
  simp only [encElem, hf, if_true, hu]
  cases big <;> simp

/-- **prog_load_py**: inside the map, a program-side load sees the value the Python-side getter returns -/
theorem prog_load_eq_unpack (fmt : Fmt) (big : Bool) (c : Ch) (hs : fmt.single = some (big, c))
    (data : List UInt8) (pos : Nat) (hr : pos + c.size ≤ data.length) :
    ∃ v, progLoad data big c pos = .ok v ∧ unpack fmt data pos = .ok [v] := by
  have hl : (slice data pos (pos + c.size)).take c.size = slice data pos (pos + c.size) := by
    apply List.take_of_length_le; simp [slice]; omega
  refine ⟨decElem big c (slice data pos (pos + c.size)), by simp [progLoad, hr], ?_⟩
  rcases single_cases fmt big c hs with ⟨rfl, rfl, rfl⟩ | rfl
  · unfold unpack
    rw [← fixed_size, if_pos hr]
    simp only [decode, hl]
  · unfold unpack
    have e : fmtsize (.arr big 1 c) = c.size := by simp [fmtsize]
    rw [e, if_pos hr]
    simp only [decode, unpackElems, hl]

/-! ### members of multi-member variables: the program's natural offsets are Python's -/

theorem decM_member (packed big : Bool) (cs : List Ch) : ∀ (pos j off : Nat) (c : Ch) (bs : List UInt8),
    memberAt packed pos cs j = some (off, c) →
    (decM packed big pos cs bs)[j]? = some (decElem big c (slice bs off (off + c.size))) ∧
    off + c.size ≤ endM packed pos cs := by
  induction cs with
  | nil => intro pos j off c bs h; simp [memberAt] at h
  | cons d ds ih =>
    intro pos j off c bs h
    cases j with
    | zero =>
      simp only [memberAt, Option.some.injEq, Prod.mk.injEq] at h
      obtain ⟨rfl, rfl⟩ := h
      exact ⟨by simp [decM], by simp only [endM]; exact le_endM _ _ _⟩
    | succ j =>
      simp only [memberAt] at h
      obtain ⟨h1, h2⟩ := ih _ j off c bs h
      exact ⟨by simpa [decM] using h1, by simpa [endM] using h2⟩

theorem slice_slice (data : List UInt8) (p n a b : Nat) (hb : b ≤ n) (hab : a ≤ b) :
    slice (slice data p (p + n)) a b = slice data (p + a) (p + b) := by
  simp only [slice, List.drop_take, List.drop_drop, List.take_take]
  congr 1; omega

/-- **member_load_eq_unpack**: for a multi-member variable inside the map, the program's load of member `j`
at `position + offset_j` (native alignment, or none for packed formats) yields the `j`-th value of the
tuple the Python-side getter returns -/
theorem member_load_eq_unpack (packed big : Bool) (cs : List Ch) (data : List UInt8) (p j off : Nat) (c : Ch)
    (hm : memberAt packed 0 cs j = some (off, c)) (hr : p + fmtsize (.mixed packed big cs) ≤ data.length) :
    ∃ vs v, unpack (.mixed packed big cs) data p = .ok vs ∧ vs[j]? = some v ∧ progLoad data big c (p + off) = .ok v := by
  obtain ⟨h1, h2⟩ := decM_member packed big cs 0 j off c (slice data p (p + endM packed 0 cs)) hm
  have hs : fmtsize (.mixed packed big cs) = endM packed 0 cs := rfl
  rw [hs] at hr
  refine ⟨_, _, by simp [unpack, hs, hr, decode], h1, ?_⟩
  unfold progLoad
  rw [if_pos (by omega), slice_slice data p _ off (off + c.size) h2 (by omega)]
  congr 3; omega

/-! ### which maps `EBPF.__init__` initialises -/

/-- the MRO walk finds, for every attribute name, the first map of that name -/
theorem simDiscoverGo_first (l : List MapAttr) (seen : List Nat) (n : Nat) (a : MapAttr)
    (hf : l.find? (·.attr = n) = some a) (hs : n ∉ seen) : a ∈ simDiscoverGo l seen := by
  induction l generalizing seen with
  | nil => simp at hf
  | cons b bs ih =>
    by_cases hb : b.attr = n
    · have : a = b := by simpa [List.find?, hb] using hf.symm
      subst this
      have hc : a.attr ∉ seen := by rw [hb]; exact hs
      simp [simDiscoverGo, hc]
    · have hf' : bs.find? (·.attr = n) = some a := by simpa [List.find?, hb] using hf
      unfold simDiscoverGo
      split
      · exact ih seen hf' hs
      · apply List.mem_cons_of_mem
        apply ih _ hf'
        simp only [List.mem_cons, not_or]
        exact ⟨fun e => hb e.symm, hs⟩

/-- full strength: the map an attribute name resolves to (first in the MRO, leaf class or any base) is initialised -/
def ebpf_init_full : Prop := ∀ (mro : List (List MapAttr)) (n : Nat) (a : MapAttr),
  mro.flatten.find? (·.attr = n) = some a → a ∈ ebpfDiscover mro

theorem ebpf_init_full_proved : ebpf_init_full :=
  fun mro n a hf => simDiscoverGo_first _ [] n a hf (by simp)

/-- before the repair only `self.__class__.__dict__` was looked at: a map of a base class was never initialised -/
def ebpfDiscoverOld (mro : List (List MapAttr)) : List MapAttr := mro.headD []

theorem ebpf_init_old_refuted : ¬ ∀ (mro : List (List MapAttr)) (n : Nat) (a : MapAttr),
    mro.flatten.find? (·.attr = n) = some a → a ∈ ebpfDiscoverOld mro := by
  intro h
  have := h [[], [⟨0, 0⟩]] 0 ⟨0, 0⟩ (by decide)
  revert this; decide

/-- a map that is not initialised has no bytes: every access is a `KeyError` -/
theorem uninitialised_keyError (progs : List Prog) (pid name : Nat) :
    (mkSt [] progs).locate pid name = .error .key := by
  unfold St.locate
  cases (findProg (mkSt [] progs).progs pid).bind (resolve · name) with
  | none => rfl
  | some d => simp [mkSt, mkStFrom, initMaps, St.array]

/-! ### histories: a layout does not depend on what the instances held before

`collect` is run every time an object is created, on instances that may have been laid out before (a
subprogram / device handed to a second program or group, a second object of the same class, a restart
with other subprograms).  Whatever the `__dict__`s held, every variable the new object collects ends at the
position of a layout computed from scratch; variables it does not collect keep theirs. -/

theorem Dicts.get_cons (σ : Dicts) (k k' : Key) (p : Nat) :
    Dicts.get ((k', p) :: σ) k = if k' = k then some p else Dicts.get σ k := by
  unfold Dicts.get
  by_cases h : k' = k <;> simp [List.find?_cons, h]

theorem writeAll_get (pl : List (Triple × Nat)) : ∀ (σ : Dicts) (k : Key),
    (writeAll σ pl).get k = match lookupLast k pl with | some q => some q | none => σ.get k := by
  induction pl with
  | nil => intro σ k; simp [writeAll, lookupLast]
  | cons x xs ih =>
    intro σ k
    obtain ⟨t, p⟩ := x
    simp only [writeAll, lookupLast]
    rw [ih]
    cases lookupLast k xs with
    | some q => rfl
    | none =>
      simp only [Dicts.get_cons]
      by_cases h : t.key = k <;> simp [h]

/-- **one `collect`, any past**: a collected variable gets the position of the fresh layout, any other
entry of any `__dict__` stays -/
theorem collectInto_get (σ : Dicts) (m : Nat) (progs : List Prog) (k : Key) :
    (collectInto σ m progs).get k =
      match positionOf (triples m progs) k with | some q => some q | none => σ.get k :=
  writeAll_get _ σ k

/-- what `__init__` leaves for a key: the position given by the last discovered map that collects it -/
def lastPos (found : List MapAttr) (progs : List Prog) (k : Key) (init : Option Nat) : Option Nat :=
  found.foldl (fun acc a => match positionOf (triples a.map progs) k with | some q => some q | none => acc) init

theorem collectAll_get (found : List MapAttr) (progs : List Prog) (k : Key) : ∀ (σ : Dicts),
    (collectAll σ found progs).get k = lastPos found progs k (σ.get k) := by
  induction found with
  | nil => intro σ; rfl
  | cons a as ih =>
    intro σ
    simp only [collectAll, lastPos, List.foldl_cons]
    have := ih (collectInto σ a.map progs)
    simp only [collectAll, lastPos] at this
    rw [this, collectInto_get]

theorem lastPos_free (found : List MapAttr) (progs : List Prog) (k : Key)
    (h : ∃ a ∈ found, (positionOf (triples a.map progs) k).isSome) :
    ∀ (i₁ i₂ : Option Nat), lastPos found progs k i₁ = lastPos found progs k i₂ := by
  induction found with
  | nil => obtain ⟨a, ha, _⟩ := h; cases ha
  | cons a as ih =>
    intro i₁ i₂
    simp only [lastPos, List.foldl_cons]
    cases hp : positionOf (triples a.map progs) k with
    | some q => rfl
    | none =>
      obtain ⟨b, hb, hs⟩ := h
      rcases List.mem_cons.1 hb with rfl | hb
      · rw [hp] at hs; cases hs
      · exact ih ⟨b, hb, hs⟩ i₁ i₂

theorem lastPos_none (found : List MapAttr) (progs : List Prog) (k : Key)
    (h : ∀ a ∈ found, positionOf (triples a.map progs) k = none) (i : Option Nat) : lastPos found progs k i = i := by
  induction found with
  | nil => rfl
  | cons a as ih =>
    simp only [lastPos, List.foldl_cons, h a List.mem_cons_self]
    exact ih (fun b hb => h b (List.mem_cons_of_mem _ hb))

/-- **collect_history_free**: for every variable the new object collects, the position after `__init__` is the
same whatever any `__dict__` held before - in particular the one of the first object of a process (`σ₂ = []`) -/
theorem collect_history_free (σ₁ σ₂ : Dicts) (found : List MapAttr) (progs : List Prog) (k : Key)
    (h : ∃ a ∈ found, (positionOf (triples a.map progs) k).isSome) :
    (collectAll σ₁ found progs).get k = (collectAll σ₂ found progs).get k := by
  rw [collectAll_get, collectAll_get]
  exact lastPos_free found progs k h _ _

/-- **collect_frame**: a variable the new object does not collect keeps the position it had -/
theorem collect_frame (σ : Dicts) (found : List MapAttr) (progs : List Prog) (k : Key)
    (h : ∀ a ∈ found, positionOf (triples a.map progs) k = none) :
    (collectAll σ found progs).get k = σ.get k := by
  rw [collectAll_get]; exact lastPos_none found progs k h _

theorem dedupGo_sub (ps : List Prog) (seen : List Nat) : ∀ p ∈ dedupGo ps seen, p ∈ ps := by
  induction ps generalizing seen with
  | nil => intro p hp; cases hp
  | cons x xs ih =>
    intro p hp
    unfold dedupGo at hp
    split at hp
    · exact List.mem_cons_of_mem _ (ih seen p hp)
    · rcases List.mem_cons.1 hp with rfl | hp
      · exact List.mem_cons_self
      · exact List.mem_cons_of_mem _ (ih _ p hp)

/-- only instances listed for the object are collected -/
theorem positionOf_prog (m : Nat) (progs : List Prog) (k : Key) (h : (positionOf (triples m progs) k).isSome) :
    ∃ q ∈ progs, q.id = k.1 := by
  cases hp : positionOf (triples m progs) k with
  | none => rw [hp] at h; cases h
  | some p =>
    obtain ⟨t, hm, hk⟩ := lookupLast_mem k _ p hp
    have ht : t ∈ triples m progs := (mem_sortDesc t _).1 (mem_place_fst hm)
    obtain ⟨q, hq, htq⟩ := List.mem_flatMap.1 ht
    have := ((classTriplesGo_spec m q.id q.mro.flatten []).1 t htq).1
    exact ⟨q, dedupGo_sub progs [] q hq, by rw [← hk, ← this]; rfl⟩

/-- every map of the object, laid out from scratch -/
def freshPos (o : NewObj) (k : Key) : Option Nat := (collectAll [] o.found o.progs).get k

def _root_.Ebv.Collect.NewObj.collects (o : NewObj) (k : Key) : Prop := ∃ a ∈ o.found, (positionOf (triples a.map o.progs) k).isSome

theorem runNews_frame (os : List NewObj) (k : Key) (h : ∀ o ∈ os, ∀ q ∈ o.progs, q.id ≠ k.1) :
    ∀ (σ : Dicts), (runNews σ os).get k = σ.get k := by
  induction os with
  | nil => intro σ; rfl
  | cons o os ih =>
    intro σ
    simp only [runNews]
    rw [ih (fun o' ho' => h o' (List.mem_cons_of_mem _ ho'))]
    apply collect_frame
    intro a _
    cases hp : positionOf (triples a.map o.progs) k with
    | none => rfl
    | some p =>
      obtain ⟨q, hq, he⟩ := positionOf_prog a.map o.progs k (by rw [hp]; rfl)
      exact absurd he (h o List.mem_cons_self q hq)

theorem runNews_append (a b : List NewObj) : ∀ (σ : Dicts), runNews σ (a ++ b) = runNews (runNews σ a) b := by
  induction a with
  | nil => intro σ; rfl
  | cons o os ih => intro σ; simp only [List.cons_append, runNews]; exact ih _

/-- **history_layout**: in any history of object creations - any objects before, any number after, any sharing of
instances with the earlier ones - an object none of whose instances is listed again later has every variable it
collected exactly where a layout from scratch puts it.  (With `collect_disjoint`: its variables have bytes of
their own, however the process got there.) -/
theorem history_layout (σ : Dicts) (before after : List NewObj) (o : NewObj) (k : Key) (hk : o.collects k)
    (hlater : ∀ o' ∈ after, ∀ q' ∈ o'.progs, ∀ q ∈ o.progs, q'.id ≠ q.id) :
    (runNews σ (before ++ o :: after)).get k = freshPos o k := by
  rw [runNews_append]
  simp only [runNews]
  obtain ⟨a, ha, hs⟩ := hk
  obtain ⟨q, hq, he⟩ := positionOf_prog a.map o.progs k hs
  rw [runNews_frame after k (fun o' ho' q' hq' => by rw [← he]; exact hlater o' ho' q' hq' q hq)]
  exact collect_history_free _ [] o.found o.progs k ⟨a, ha, hs⟩

/-- with one map (a `ProcessSyncGroup`'s `properties`, a program with one array map) the position is `positionOf` -/
theorem freshPos_single (a : MapAttr) (progs : List Prog) (k : Key) :
    freshPos ⟨[a], progs⟩ k = positionOf (triples a.map progs) k := by
  unfold freshPos
  rw [collectAll_get]
  simp only [lastPos, List.foldl_cons, List.foldl_nil, Dicts.get, List.find?_nil, Option.map_none]
  cases positionOf (triples a.map progs) k <;> rfl

/-- creating an object in a world is such a creation -/
theorem create_dicts (w : World) (main : Nat) (found : List MapAttr) (progs : List Prog) :
    (w.create main found progs).dicts = collectAll w.dicts found progs := rfl

/-- Python-side writes and reads never touch a `__dict__` -/
theorem pySet_dicts (w w' : World) (pid name : Nat) (vs : List Int) (h : w.pySet pid name vs = .ok w') :
    w'.dicts = w.dicts := by
  unfold World.pySet at h
  cases ho : w.objOf pid with
  | none => rw [ho] at h; cases h
  | some o =>
    rw [ho] at h
    simp only [World.setWith] at h
    cases hs : (w.view o).step (.pySet pid name vs) with
    | error e => rw [hs] at h; cases h
    | ok s' =>
      rw [hs] at h
      simp only [Except.map] at h
      injection h with h
      rw [← h]; rfl

/-- the seeded scenario on the model: device 1 (`I`) laid out alone, then in a group behind device 2 (`Q`):
it moves to offset 8 instead of keeping its stale 0 (where device 2's variable now is) -/
example : (runNews [] [⟨[⟨0, 0⟩], [⟨1, [[⟨0, 0, .arr false 1 .I⟩]]⟩]⟩,
    ⟨[⟨0, 0⟩], [⟨2, [[⟨0, 0, .arr false 1 .Q⟩]]⟩, ⟨1, [[⟨0, 0, .arr false 1 .I⟩]]⟩]⟩]).get (1, 0) = some 8 := by decide
example : (runNews [] [⟨[⟨0, 0⟩], [⟨1, [[⟨0, 0, .arr false 1 .I⟩]]⟩]⟩,
    ⟨[⟨0, 0⟩], [⟨2, [[⟨0, 0, .arr false 1 .Q⟩]]⟩, ⟨1, [[⟨0, 0, .arr false 1 .I⟩]]⟩]⟩]).get (2, 0) = some 0 := by decide

/-! ### non-vacuity: concrete inputs satisfy the hypotheses -/

/-- main program with a base class, two instances of one subprogram class; formats `3B`, `x`, `>H`, `64I`, `q` -/
def sample : List Prog :=
  [⟨0, [[⟨0, 0, .arr false 3 .B⟩, ⟨1, 0, .fixed⟩], [⟨2, 0, .arr true 1 .H⟩]]⟩,
   ⟨1, [[⟨0, 0, .arr false 64 .I⟩, ⟨3, 0, .arr false 1 .q⟩]]⟩,
   ⟨2, [[⟨0, 0, .arr false 64 .I⟩, ⟨3, 0, .arr false 1 .q⟩]]⟩]

example : ((triples 0 sample).map Triple.key).Nodup := by decide
example : total (triples 0 sample) = 544 := by decide
example : rangeOf (triples 0 sample) (0, 0) = some (536, 3) := by decide
example : rangeOf (triples 0 sample) (2, 3) = some (528, 8) := by decide
example : layoutOkB (triples 0 sample) = true := by decide
example : ¬ ((triplesOld 0 overrideWitness).map Triple.key).Nodup := by decide
example : ((triples 0 overrideWitness).map Triple.key).Nodup := by decide
example : pack (.arr true 1 .H) [0x1234] = some [0x12, 0x34] := by decide
example : pack (.arr false 3 .B) [1, 2, 3] = some [1, 2, 3] := by decide
example : pack .fixed [-150000] = some [0x10, 0xb6, 0xfd, 0xff, 0xff, 0xff, 0xff, 0xff] := by decide
example : pack (.arr false 1 .B) [256] = none := by decide
example : fmtsize (.mixed false false [.B, .I]) = 8 := by decide
example : fmtsize (.mixed false false [.H, .Q]) = 16 := by decide
example : fmtsize (.mixed false false [.I, .B]) = 5 := by decide
example : fmtsize (.mixed false false [.B, .B, .B, .H]) = 6 := by decide
example : fmtsize (.mixed true false [.B, .I]) = 5 := by decide
example : pack (.mixed false false [.B, .I]) [0x11, 0x22334455] = some [0x11, 0, 0, 0, 0x55, 0x44, 0x33, 0x22] := by decide
example : memberAt false 0 [.H, .Q] 1 = some (8, .Q) := by decide
example : parseFmt "BI" = some (.mixed false false [.B, .I]) := by decide
example : parseFmt "3BH" = some (.mixed false false [.B, .B, .B, .H]) := by decide
example : parseFmt "<BI" = some (.mixed true false [.B, .I]) := by decide
example : parseFmt "64I" = some (.arr false 64 .I) := by decide
example : parseFmt ">3h" = some (.arr true 3 .h) := by decide
example : parseFmt "x" = some .fixed := by decide

end Ebv.C08
