import Ebv.Lemmas.XdpExec
import Ebv.Lemmas.XdpRel
import Ebv.Generated.Programs
/-! C22 translation validation, part a: set-up and the paths of the regenerated dispatcher bytecode
`Programs.etherXdp` that leave a frame alone (too short, foreign ethertype, first datagram not a no-op).
Each path lemma symbolically executes the concrete instruction list under `runXdp`. -/
namespace Ebv.C22TV
open Ebv.Ebpf Ebv.XdpRun Ebv.Bytes Ebv.Dispatch

/-- the geometry of the regenerated program's maps -/
def geo : Geo := ⟨Programs.etherXdp_varFd, Programs.etherXdp_programsFd, Programs.etherXdp_varSize,
  Programs.etherXdp_offCounters, Programs.etherXdp_offDropcounter, Consts.MAX_PROGS⟩

theorem geo_ok : GeoOk geo := by
  refine ⟨?_, ?_, ?_⟩ <;>
    simp [geo, disjointIv, Programs.etherXdp_varSize, Programs.etherXdp_offCounters, Programs.etherXdp_offDropcounter,
      Consts.MAX_PROGS]

theorem slice_cons (p : List UInt8) (k m : Nat) (h : k < p.length) (hm : k < m) :
    slice p k m = p[k] :: slice p (k + 1) m := by
  simp only [slice]
  rw [List.drop_eq_getElem_cons h, show m - k = (m - (k + 1)) + 1 by omega, List.take_succ_cons]

theorem slice_self (p : List UInt8) (k : Nat) : slice p k k = [] := by simp [slice]

/-- a big-endian 16-bit field in terms of the little-endian load the program makes -/
theorem decBE_slice2 (p : List UInt8) (k : Nat) (h : k + 2 ≤ p.length) :
    decBE (slice p k (k + 2)) =
      decLE (slice p k (k + 2)) % 256 * 256 + decLE (slice p k (k + 2)) / 256 % 256 := by
  rw [slice_cons p k (k + 2) (by omega) (by omega), slice_cons p (k + 1) (k + 2) (by omega) (by omega), slice_self]
  have h1 : p[k].toNat < 256 := p[k].toNat_lt
  have h2 : p[k + 1].toNat < 256 := p[k + 1].toNat_lt
  simp only [decBE, List.reverse_cons, List.reverse_nil, List.nil_append, List.cons_append, decLE]
  omega

theorem decLE_slice_lt (p : List UInt8) (k n : Nat) (h : k + n ≤ p.length) : decLE (slice p k (k + n)) < 256 ^ n := by
  have := decLE_lt (slice p k (k + n))
  rwa [length_slice _ _ _ h, Nat.add_sub_cancel_left] at this

theorem MemRel.congr {g : Geo} {a : Addrs} {M0 M : W → BitVec 8} {p p' : List UInt8} {cs cs' : List Nat}
    {dc dc' len : Nat} (h : MemRel g a M0 M p cs dc len) (hp : p = p') (hc : cs = cs') (hd : dc = dc') :
    MemRel g a M0 M p' cs' dc' len := by
  subst hp hc hd; exact h

theorem store_counter' {a : Addrs} {M0 M : W → BitVec 8} {p : List UInt8} {cs : List Nat} {dc len : Nat}
    (hr : Regions geo a len) (h : MemRel geo a M0 M p cs dc len) (k v : Nat) (hk : k < 64) :
    MemRel geo a M0 (storeN M (BitVec.ofNat 64 (a.mp + k * 4)) 4 v) p (cs.set k (v % 4294967296)) dc len := by
  have := MemRel.store_counter hr geo_ok h k v (by simpa [geo, Consts.MAX_PROGS] using hk)
  simpa [addr, geo, Programs.etherXdp_offCounters, Nat.mul_comm] using this

variable {a : Addrs} {e : Env} {s : State} {p : List UInt8} {cs : List Nat} {dc : Nat} {reg : Nat → Bool}

/-! ### the memories a run goes through, and what loads from them give -/

/-- after the key of the map lookup is stored on the stack -/
theorem rel1 (hL : Layout geo a e s p cs dc reg) (z : Nat) :
    MemRel geo a s.mem (storeN s.mem (BitVec.ofNat 64 (a.stk - 4)) 4 z) p cs dc p.length :=
  MemRel.store_stack hL.regions geo_ok (MemRel.init hL) (a.stk - 4) 4 z (by have := hL.regions.stk_lo; omega)
    (by have := hL.regions.stk_lo; omega)

/-- after the XADD on the group's counter -/
theorem rel2 (hL : Layout geo a e s p cs dc reg) (z G v : Nat) (hG : G < 64) :
    MemRel geo a s.mem (storeN (storeN s.mem (BitVec.ofNat 64 (a.stk - 4)) 4 z) (BitVec.ofNat 64 (a.mp + G * 4)) 4 v)
      p (cs.set G (v % 4294967296)) dc p.length :=
  store_counter' hL.regions (rel1 hL z) G v hG

/-- after the new index byte is stored into the frame -/
theorem rel3 (hL : Layout geo a e s p cs dc reg) (z G v w : Nat) (hG : G < 64) (h17 : 17 < p.length) :
    MemRel geo a s.mem (storeN (storeN (storeN s.mem (BitVec.ofNat 64 (a.stk - 4)) 4 z)
        (BitVec.ofNat 64 (a.mp + G * 4)) 4 v) (BitVec.ofNat 64 (a.dat + 17)) 1 w)
      (setRange p 17 (encLE 1 w)) (cs.set G (v % 4294967296)) dc p.length :=
  MemRel.store_pkt hL.regions geo_ok (rel2 hL z G v hG) 17 1 w (by omega)

/-- loads from a memory related to the initial one: packet fields, context, counters -/
theorem loads_of_rel {M : W → BitVec 8} {p' : List UInt8} {cs' : List Nat} {dc' : Nat}
    (hL : Layout geo a e s p cs dc reg) (h : MemRel geo a s.mem M p' cs' dc' p.length) :
    (∀ k n, k + n ≤ p.length → loadN M (BitVec.ofNat 64 (a.dat + k)) n = decLE (slice p' k (k + n))) ∧
    loadN M (BitVec.ofNat 64 a.ctx) 4 = a.dat ∧ loadN M (BitVec.ofNat 64 (a.ctx + 4)) 4 = a.dat + p.length ∧
    (∀ k, k < 64 → loadN M (BitVec.ofNat 64 (a.mp + k * 4)) 4 = cs'.getD k 0) ∧
    (∀ k, k < 64 → loadN M (BitVec.ofNat 64 (a.mp + k * 4)) 1 = cs'.getD k 0 % 256) := by
  have hd := hL.data
  have he := hL.data_end
  simp only [addr] at hd he
  refine ⟨h.load_pkt, ?_, ?_, ?_, ?_⟩
  · have := h.load_ctx hL.regions 0 4 (by omega)
    rw [Nat.add_zero] at this; rw [this, hd]
  · rw [h.load_ctx hL.regions 4 4 (by omega), he]
  · intro k hk
    have := h.load_cnt4 k (by simpa [geo, Consts.MAX_PROGS] using hk)
    simpa [geo, Programs.etherXdp_offCounters, Nat.mul_comm] using this
  · intro k hk
    have := h.load_cnt1 k (by simpa [geo, Consts.MAX_PROGS] using hk)
    simpa [geo, Programs.etherXdp_offCounters, Nat.mul_comm] using this

set_option hygiene false in
/-- common preamble of the path lemmas: open the state and the layout (keeping a copy `hL'`), unfold the geometry,
derive the load rules for the memory after the stack store (`hp1` packet, `hd1`/`he1` context, `hc41`/`hc11` counters) -/
macro "xsetup" : tactic => `(tactic| (
  have hL' := hL
  have hp1 := fun z => (loads_of_rel hL (rel1 hL z)).1
  have hd1 := fun z => (loads_of_rel hL (rel1 hL z)).2.1
  have he1 := fun z => (loads_of_rel hL (rel1 hL z)).2.2.1
  have hc41 := fun z => (loads_of_rel hL (rel1 hL z)).2.2.2.1
  have hc11 := fun z => (loads_of_rel hL (rel1 hL z)).2.2.2.2
  obtain ⟨R, M, pc⟩ := s
  obtain ⟨hpc, hr10, hr1, hreg, hdata, hend, hpkt, hclen, hcnt, hdrop, hlook, htail⟩ := hL
  have hreg' := hreg
  obtain ⟨s1, s2, c1, p1, m0, m1, -, -, -, -, -, -⟩ := hreg'
  simp only [addr, geo, Programs.etherXdp_varFd, Programs.etherXdp_programsFd, Programs.etherXdp_varSize,
    Programs.etherXdp_offCounters, Programs.etherXdp_offDropcounter] at *
  subst hpc
  have hlt : a.dat + p.length < 4294967296 := by rw [← hend]; exact loadN_lt' M 4 _
  have hmp : ¬ a.mp = 0 := by omega
  clear hpkt hcnt hdrop hdata hend hclen))

theorem encLE2_swap (x : Nat) : encLE 2 (x % 256 * 256 + x / 256 % 256) = encBE 2 x := by
  have h1 : (x % 256 * 256 + x / 256 % 256) % 256 = x / 256 % 256 := by omega
  have h2 : (x % 256 * 256 + x / 256 % 256) / 256 % 256 = x % 256 := by omega
  simp only [encBE, encLE, h1, h2, List.reverse_cons, List.reverse_nil, List.nil_append, List.cons_append]

/-- the ethertype the program writes before handing a frame to user space -/
theorem setEt_eq (p : List UInt8) : setEthertypeFromData p =
    setRange p 12 (encLE 2 (decLE (slice p 26 28) % 256 * 256 + decLE (slice p 26 28) / 256 % 256)) := by
  simp [setEthertypeFromData, encLE2_swap, Consts.dispatcher_off_ethertype, Consts.dispatcher_off_data0]

set_option maxRecDepth 4000 in
set_option maxHeartbeats 2000000 in
theorem path_short (G : Nat) (hL : Layout geo a e s p cs dc reg) (h : p.length ≤ 30) :
    Post geo a e s.mem p.length G ⟨.pass, p, cs, dc⟩ (runXdp e Programs.etherXdp 90 s) := by
  xsetup
  xsim [hr10, hr1, hlook, htail, hmp, hp1, hd1, he1]
  exact ⟨rfl, rel1 hL' 0⟩

set_option maxRecDepth 4000 in
set_option maxHeartbeats 2000000 in
theorem path_ethertype (G : Nat) (hL : Layout geo a e s p cs dc reg) (h : 30 < p.length)
    (het : decBE (slice p 12 14) ≠ 34980) :
    Post geo a e s.mem p.length G ⟨.pass, p, cs, dc⟩ (runXdp e Programs.etherXdp 90 s) := by
  xsetup
  rw [decBE_slice2 p 12 (by omega)] at het
  have hb := decLE_slice_lt p 12 2 (by omega)
  simp only [Nat.reduceAdd, Nat.reducePow] at *
  xsim [hr10, hr1, hlook, htail, hmp, hp1, hd1, he1]
  exact ⟨rfl, rel1 hL' 0⟩

set_option maxRecDepth 4000 in
set_option maxHeartbeats 2000000 in
theorem path_cmd0 (G : Nat) (hL : Layout geo a e s p cs dc reg) (h : 30 < p.length)
    (het : decBE (slice p 12 14) = 34980) (hcmd : getU8 p 16 ≠ 0) :
    Post geo a e s.mem p.length G ⟨.pass, p, cs, dc⟩ (runXdp e Programs.etherXdp 90 s) := by
  xsetup
  rw [decBE_slice2 p 12 (by omega)] at het
  rw [← decLE_slice1 p 16 (by omega)] at hcmd
  have hb := decLE_slice_lt p 12 2 (by omega)
  have hb16 := decLE_slice_lt p 16 1 (by omega)
  simp only [Nat.reduceAdd, Nat.reducePow] at *
  xsim [hr10, hr1, hlook, htail, hmp, hp1, hd1, he1]
  exact ⟨rfl, rel1 hL' 0⟩

set_option maxRecDepth 4000 in
set_option maxHeartbeats 2000000 in
theorem path_biggroup (G : Nat) (hL : Layout geo a e s p cs dc reg) (h : 30 < p.length)
    (het : decBE (slice p 12 14) = 34980) (hcmd : getU8 p 16 = 0) (hg : 64 ≤ decLE (slice p 18 22)) :
    Post geo a e s.mem p.length G ⟨.pass, setEthertypeFromData p, cs, dc⟩ (runXdp e Programs.etherXdp 90 s) := by
  xsetup
  rw [decBE_slice2 p 12 (by omega)] at het
  rw [← decLE_slice1 p 16 (by omega)] at hcmd
  have hb := decLE_slice_lt p 12 2 (by omega)
  have hb16 := decLE_slice_lt p 16 1 (by omega)
  have hb18 := decLE_slice_lt p 18 4 (by omega)
  have hb26 := decLE_slice_lt p 26 2 (by omega)
  simp only [Nat.reduceAdd, Nat.reducePow] at *
  xsim [hr10, hr1, hlook, htail, hmp, hp1, hd1, he1]
  rw [setEt_eq]
  exact ⟨rfl, MemRel.store_pkt hreg geo_ok (rel1 hL' 0) 12 2 _ (by omega)⟩

end Ebv.C22TV
