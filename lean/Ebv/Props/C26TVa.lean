import Ebv.Lemmas.XdpOps2
import Ebv.Lemmas.XdpInt
import Ebv.Lemmas.XdpRel
import Ebv.Generated.ProgramsGroups
/-! C26 translation validation, part a: geometry of the regenerated Motor fast-group program
`Programs.motorGroup`, the load rules a `MemRel` gives, and the prologue (map lookup, length check, `wkc_errors`
check) up to the first instruction of `SterilePacket.activate`.  The map value is seen through `MemRel` as
`dc` = wkc_errors and `cs` = the five DeviceVars (set_enable, max_velocity, max_acceleration, target, proportional). -/
namespace Ebv.C26TV
open Ebv.Ebpf Ebv.XdpRun Ebv.Bytes

def geo : Geo := ⟨Programs.motorGroup_varFd, 0, Programs.motorGroup_varSize, Programs.motorGroup_off_set_enable,
  Programs.motorGroup_offWkcErrors, 5⟩

/-- the five DeviceVars are consecutive 32-bit words -/
theorem vars_layout : Programs.motorGroup_off_max_velocity = Programs.motorGroup_off_set_enable + 4 ∧
    Programs.motorGroup_off_max_acceleration = Programs.motorGroup_off_set_enable + 8 ∧
    Programs.motorGroup_off_target = Programs.motorGroup_off_set_enable + 12 ∧
    Programs.motorGroup_off_proportional = Programs.motorGroup_off_set_enable + 16 := by decide

theorem geo_ok : GeoOk geo := by
  refine ⟨?_, ?_, ?_⟩ <;>
    simp [geo, disjointIv, Programs.motorGroup_varSize, Programs.motorGroup_off_set_enable, Programs.motorGroup_offWkcErrors]

variable {a : Addrs} {e : Env} {s : State} {p : List UInt8} {cs : List Nat} {er : Nat} {reg : Nat → Bool}

/-- what loads from a memory related to packet `q`, variables `cs`, error counter `er` give -/
structure Loads (a : Addrs) (M : W → BitVec 8) (q : List UInt8) (cs : List Nat) (er len : Nat) : Prop where
  pkt : ∀ k n, k + n ≤ len → loadN M (BitVec.ofNat 64 (a.dat + k)) n = decLE (slice q k (k + n))
  err : loadN M (BitVec.ofNat 64 a.mp) 4 = er
  v0 : loadN M (BitVec.ofNat 64 (a.mp + 4)) 4 = cs.getD 0 0
  v1 : loadN M (BitVec.ofNat 64 (a.mp + 8)) 4 = cs.getD 1 0
  v2 : loadN M (BitVec.ofNat 64 (a.mp + 12)) 4 = cs.getD 2 0
  v3 : loadN M (BitVec.ofNat 64 (a.mp + 16)) 4 = cs.getD 3 0
  v4 : loadN M (BitVec.ofNat 64 (a.mp + 20)) 4 = cs.getD 4 0

theorem loads_of_rel {M0 M : W → BitVec 8} {q : List UInt8} {len : Nat} (h : MemRel geo a M0 M q cs er len) :
    Loads a M q cs er len := by
  have hv : ∀ k, k < 5 → loadN M (BitVec.ofNat 64 (a.mp + 4 + 4 * k)) 4 = cs.getD k 0 := fun k hk => by
    have := h.load_cnt4 k (by simpa [geo] using hk)
    simpa [geo, Programs.motorGroup_off_set_enable] using this
  refine ⟨h.load_pkt, ?_, ?_, ?_, ?_, ?_, ?_⟩
  · have := h.drop; simpa [geo, addr, Programs.motorGroup_offWkcErrors] using this
  · simpa using hv 0 (by omega)
  · simpa using hv 1 (by omega)
  · simpa using hv 2 (by omega)
  · simpa using hv 3 (by omega)
  · simpa using hv 4 (by omega)

/-- after the key of the map lookup is stored on the stack -/
theorem rel1 (hL : Layout geo a e s p cs er reg) (z : Nat) :
    MemRel geo a s.mem (storeN s.mem (BitVec.ofNat 64 (a.stk - 4)) 4 z) p cs er p.length :=
  MemRel.store_stack hL.regions geo_ok (MemRel.init hL) (a.stk - 4) 4 z (by have := hL.regions.stk_lo; omega)
    (by have := hL.regions.stk_lo; omega)

theorem ctx_loads (hL : Layout geo a e s p cs er reg) (z : Nat) :
    loadN (storeN s.mem (BitVec.ofNat 64 (a.stk - 4)) 4 z) (BitVec.ofNat 64 a.ctx) 4 = a.dat ∧
    loadN (storeN s.mem (BitVec.ofNat 64 (a.stk - 4)) 4 z) (BitVec.ofNat 64 (a.ctx + 4)) 4 = a.dat + p.length := by
  have hd := hL.data
  have he := hL.data_end
  simp only [addr] at hd he
  have h := rel1 hL z
  constructor
  · have := h.load_ctx hL.regions 0 4 (by omega)
    rw [Nat.add_zero] at this; rw [this, hd]
  · rw [h.load_ctx hL.regions 4 4 (by omega), he]

set_option hygiene false in
/-- preamble of the prologue lemmas: open state and layout, unfold the geometry, rules for the memory after the key store -/
macro "psetup" : tactic => `(tactic| (
  have hL' := hL
  have hl1 := fun z => loads_of_rel (rel1 hL z)
  have hp1 := fun z => (hl1 z).pkt
  have her1 := fun z => (hl1 z).err
  have hd1 := fun z => (ctx_loads hL z).1
  have he1 := fun z => (ctx_loads hL z).2
  obtain ⟨R, M, pc⟩ := s
  obtain ⟨hpc, hr10, hr1, hreg, hdata, hend, hpkt, hclen, hcnt, hdrop, hlook, htail⟩ := hL
  have hreg' := hreg
  obtain ⟨s1, s2, c1, p1, m0, m1, -, -, -, -, -, -⟩ := hreg'
  simp only [addr, geo, Programs.motorGroup_varFd, Programs.motorGroup_varSize, Programs.motorGroup_off_set_enable,
    Programs.motorGroup_offWkcErrors] at *
  subst hpc
  have hlt : a.dat + p.length < 4294967296 := by rw [← hend]; exact loadN_lt' M 4 _
  have hmp : ¬ a.mp = 0 := by omega
  have herlt : er < 4294967296 := by rw [← hdrop]; exact loadN_lt' M 4 _
  clear hl1 hpkt hcnt hdrop hdata hend hclen))

set_option maxRecDepth 4000 in
set_option maxHeartbeats 2000000 in
theorem exit_short (hL : Layout geo a e s p cs er reg) (h : p.length ≤ 63) :
    ∃ R' pc', runXdp e Programs.motorGroup 30 s = .exit 3 ⟨R', storeN s.mem (BitVec.ofNat 64 (a.stk - 4)) 4 0, pc'⟩ := by
  psetup
  ysim [hr10, hr1, hlook, hmp, hp1, hd1, he1, her1]
  exact ⟨_, _, rfl⟩

set_option maxRecDepth 4000 in
set_option maxHeartbeats 2000000 in
theorem exit_noerr (hL : Layout geo a e s p cs er reg) (h : 63 < p.length) (h0 : er = 0) :
    ∃ R' pc', runXdp e Programs.motorGroup 30 s = .exit 3 ⟨R', storeN s.mem (BitVec.ofNat 64 (a.stk - 4)) 4 0, pc'⟩ := by
  psetup
  ysim [hr10, hr1, hlook, hmp, hp1, hd1, he1, her1]
  exact ⟨_, _, rfl⟩

set_option maxRecDepth 4000 in
set_option maxHeartbeats 2000000 in
theorem prologue (hL : Layout geo a e s p cs er reg) (h : 63 < p.length) (h0 : er ≠ 0) :
    ∃ R', Steps e Programs.motorGroup 20 s ⟨R', storeN s.mem (BitVec.ofNat 64 (a.stk - 4)) 4 0, 20⟩ ∧
      R' 7 = BitVec.ofNat 64 a.mp ∧ R' 9 = BitVec.ofNat 64 a.dat := by
  psetup
  refine ⟨?R', ⟨16, by omega, fun f => ?eq⟩, ?h7, ?h9⟩
  case eq =>
    ysim [hr10, hr1, hlook, hmp, hp1, hd1, he1, her1]
    rfl
  all_goals simp only [upd_apply, callR_apply, Nat.reduceEqDiff, Nat.reduceLeDiff, if_true, if_false]
end Ebv.C26TV
