import Ebv.Model.Eeprom
/-! C17 — EEPROM contents and derived layouts are decoded exactly. -/
namespace Ebv.C17
open Ebv.Eeprom Ebv.Bytes Ebv.Consts

/-! ### windows of the image -/

@[simp] theorem length_window (img : List UInt8) (off n : Nat) : (window img off n).length = n := by
  induction n generalizing off with
  | zero => rfl
  | succ n ih => simp [window, ih]

theorem window_add (img : List UInt8) (off a b : Nat) :
    window img off (a + b) = window img off a ++ window img (off + a) b := by
  induction a generalizing off with
  | zero => simp [window]
  | succ a ih =>
    have : a + 1 + b = (a + b) + 1 := by omega
    rw [this]
    have h2 : off + 1 + a = off + (a + 1) := by omega
    simp only [window, List.cons_append, ih, h2]

theorem window_take (img : List UInt8) (off n k : Nat) (h : k ≤ n) :
    (window img off n).take k = window img off k := by
  obtain ⟨m, rfl⟩ := Nat.exists_eq_add_of_le h
  rw [window_add, List.take_left' (by simp)]

theorem window_drop (img : List UInt8) (off n k : Nat) (h : k ≤ n) :
    (window img off n).drop k = window img (off + k) (n - k) := by
  obtain ⟨m, rfl⟩ := Nat.exists_eq_add_of_le h
  rw [window_add, List.drop_left' (by simp)]
  congr 1
  omega

/-! ### the status word -/

theorem isBusy_status (d : Dev) (p : Poll) : isBusy (status d p) = p.busy := by
  unfold isBusy status
  rw [Nat.and_or_distrib_right, Nat.and_or_distrib_right, Nat.and_assoc]
  cases p.busy <;> cases d.mode8 <;> simp

theorem is8_status (d : Dev) (p : Poll) : is8 (status d p) = d.mode8 := by
  unfold is8 status
  rw [Nat.and_or_distrib_right, Nat.and_or_distrib_right, Nat.and_assoc]
  cases p.busy <;> cases d.mode8 <;> simp

/-! ### `_eeprom_read_one` -/

/-- the polling loop ends on an answer the device gave while not busy -/
theorem pollGo_spec (d : Dev) (n addr : Nat) (s : List Poll) (log : List Ev) :
    ∃ p : Poll, p.busy = false ∧ (pollGo d n addr s log).1 = (status d p, dataReg d addr p) := by
  induction s generalizing log with
  | nil => exact ⟨.idle, rfl, rfl⟩
  | cons p ps ih =>
    unfold pollGo
    rw [isBusy_status]
    cases hb : p.busy with
    | true => simpa using ih _
    | false => exact ⟨p, hb, by simp⟩

theorem pollIdle_spec (d : Dev) (n : Nat) (b : Bus) :
    ∃ p : Poll, p.busy = false ∧ (pollIdle d n b).1 = (status d p, dataReg d b.addr p) ∧
      (pollIdle d n b).2.addr = b.addr := by
  obtain ⟨p, hp, h⟩ := pollGo_spec d n b.addr b.script b.log
  exact ⟨p, hp, by simp [pollIdle, h], rfl⟩

/-- **read_one_exact**: for every image, word address, read mode, bus state and busy script
`_eeprom_read_one(start)` returns the 8 image bytes at byte offset `2*start`. -/
theorem read_one_exact (d : Dev) (start : Nat) (b : Bus) :
    (readOne d start b).1 = window d.image (2 * start) 8 := by
  unfold readOne
  obtain ⟨p1, hp1, h1, a1⟩ := pollIdle_spec d 8 (cmdRead (pollIdle d 0 b).2 start)
  simp only [h1, is8_status]
  cases hm : d.mode8 with
  | true => simp [dataReg, hp1, hm, cmdRead]
  | false =>
    obtain ⟨p2, hp2, h2, _⟩ := pollIdle_spec d 4 (cmdRead (pollIdle d 8 (cmdRead (pollIdle d 0 b).2 start)).2 (start + 2))
    simp only [h2]
    have e : 2 * (start + 2) = 2 * start + 4 := by omega
    simp [dataReg, hp1, hp2, hm, cmdRead, e, window_add _ (2 * start) 4 4]

theorem length_readOne (d : Dev) (start : Nat) (b : Bus) : (readOne d start b).1.length = 8 := by
  simp [read_one_exact]

/-! ### `get_data`: the carry-over buffer -/

/-- invariant of `read_eeprom`'s `(pos, data)`: the buffer holds exactly the image bytes from the
logical read position `cur` up to the position `2*pos` the device will be asked for next -/
def Inv (d : Dev) (st : RState) (cur : Nat) : Prop :=
  st.buf = window d.image cur (2 * st.pos - cur) ∧ cur ≤ 2 * st.pos

theorem fill_spec (d : Dev) (size f : Nat) (st : RState) (cur : Nat) (h : Inv d st cur)
    (hf : size ≤ (2 * st.pos - cur) + 8 * f) :
    Inv d (fill d size f st) cur ∧ size ≤ 2 * (fill d size f st).pos - cur := by
  induction f generalizing st with
  | zero => exact ⟨h, by simpa [fill] using hf⟩
  | succ f ih =>
    unfold fill
    have hl : st.buf.length = 2 * st.pos - cur := by rw [h.1]; simp
    by_cases hlt : st.buf.length < size
    · simp only [hlt, ↓reduceIte]
      apply ih
      · constructor
        · simp only [read_one_exact]
          have e : 2 * (st.pos + 4) - cur = (2 * st.pos - cur) + 8 := by have := h.2; omega
          have e2 : cur + (2 * st.pos - cur) = 2 * st.pos := by have := h.2; omega
          rw [e, window_add, e2, ← h.1]
        · have := h.2; simp only; omega
      · have := h.2; simp only; omega
    · simp only [hlt, ↓reduceIte]
      exact ⟨h, by omega⟩

/-- **get_data**: whatever is in the carry-over buffer, `get_data(size)` returns the next `size`
image bytes and leaves the invariant at the advanced position (any size, any read mode, any script). -/
theorem getData_spec (d : Dev) (size : Nat) (st : RState) (cur : Nat) (h : Inv d st cur) :
    (getData d size st).1 = window d.image cur size ∧ Inv d (getData d size st).2 (cur + size) := by
  obtain ⟨hi, hs⟩ := fill_spec d size size st cur h (by omega)
  unfold getData
  simp only
  generalize fill d size size st = st' at hi hs
  refine ⟨?_, ?_, ?_⟩
  · rw [hi.1, window_take _ _ _ _ hs]
  · simp only
    rw [hi.1, window_drop _ _ _ _ hs]
    congr 1; omega
  · simp only; have := hi.2; omega

/-! ### Python-dict facts -/

section dict
variable {κ ν : Type} [DecidableEq κ]

theorem dictGet_dictSet (m : List (κ × ν)) (k k' : κ) (v : ν) :
    dictGet (dictSet m k v) k' = if k = k' then some v else dictGet m k' := by
  induction m with
  | nil => simp [dictSet, dictGet]
  | cons kv t ih =>
    obtain ⟨k0, v0⟩ := kv
    by_cases h0 : k0 = k
    · subst h0; by_cases h1 : k0 = k' <;> simp [dictSet, dictGet, h1]
    · by_cases h1 : k0 = k'
      · subst h1
        have : ¬ k = k0 := fun h => h0 h.symm
        simp [dictSet, dictGet, h0, this]
      · simp [dictSet, dictGet, h0, h1, ih]

/-- the value of the last assignment to `k` in a list of assignments -/
def lastVal : List (κ × ν) → κ → Option ν
  | [], _ => none
  | (k', v) :: t, k =>
    match lastVal t k with
    | some x => some x
    | none => if k' = k then some v else none

/-- later duplicates overwrite, exactly as `d[k] = v` in a loop does -/
theorem dictGet_dictOfFrom (m kvs : List (κ × ν)) (k : κ) :
    dictGet (dictOfFrom m kvs) k = (lastVal kvs k).or (dictGet m k) := by
  induction kvs generalizing m with
  | nil => simp [dictOfFrom, lastVal]
  | cons kv t ih =>
    obtain ⟨k0, v0⟩ := kv
    have : dictOfFrom m ((k0, v0) :: t) = dictOfFrom (dictSet m k0 v0) t := rfl
    rw [this, ih, dictGet_dictSet]
    simp only [lastVal]
    cases lastVal t k <;> by_cases h : k0 = k <;> simp [h]

theorem lastVal_none (kvs : List (κ × ν)) (k : κ) (h : ∀ kv ∈ kvs, kv.1 ≠ k) : lastVal kvs k = none := by
  induction kvs with
  | nil => rfl
  | cons kv t ih =>
    obtain ⟨k0, v0⟩ := kv
    have h0 : k0 ≠ k := h (k0, v0) (by simp)
    simp [lastVal, ih (fun kv hkv => h kv (by simp [hkv])), h0]

/-- with distinct keys every assignment is found under its key -/
theorem lastVal_of_mem_nodup (kvs : List (κ × ν)) (k : κ) (v : ν)
    (hn : (kvs.map (·.1)).Nodup) (hm : (k, v) ∈ kvs) : lastVal kvs k = some v := by
  induction kvs with
  | nil => simp at hm
  | cons kv t ih =>
    obtain ⟨k0, v0⟩ := kv
    simp only [List.map_cons, List.nodup_cons, List.mem_map, not_exists, not_and] at hn
    simp only [List.mem_cons, Prod.mk.injEq] at hm
    simp only [lastVal]
    rcases hm with ⟨rfl, rfl⟩ | hm
    · rw [lastVal_none t k (fun kv hkv => hn.1 kv hkv)]
      simp
    · rw [ih hn.2 hm]

end dict

/-! ### `read_eeprom` on well-formed images -/

/-- one SII category as the generator of an image sees it -/
structure Cat where
  type : Nat
  payload : List UInt8
deriving Repr, DecidableEq

/-- a category that fits the SII header: type is not the end marker, payload a whole number of
16-bit words that fits the 16-bit word count -/
def Cat.ok (c : Cat) : Prop := c.type < 0xffff ∧ c.payload.length % 2 = 0 ∧ c.payload.length / 2 < 65536
instance (c : Cat) : Decidable c.ok := by unfold Cat.ok; infer_instance

def encCat (c : Cat) : List UInt8 := (encLE 2 c.type ++ encLE 2 (c.payload.length / 2)) ++ c.payload
def encCats : List Cat → List UInt8
  | [] => []
  | c :: cs => encCat c ++ encCats cs
def marker : List UInt8 := [0xff, 0xff]

/-- the image: 0x80 bytes of fixed fields, the categories, the end marker, anything after it -/
def mkImage (hdr : List UInt8) (cs : List Cat) (tail : List UInt8) : List UInt8 :=
  hdr ++ (encCats cs ++ (marker ++ tail))

theorem byteAt_append (pre : List UInt8) (a : UInt8) (t : List UInt8) :
    byteAt (pre ++ a :: t) pre.length = a := by
  simp [byteAt, List.getD_eq_getElem?_getD]

theorem window_mid (x pre rest : List UInt8) : window (pre ++ (x ++ rest)) pre.length x.length = x := by
  induction x generalizing pre with
  | nil => rfl
  | cons a x ih =>
    simp only [List.cons_append, List.length_cons, window, byteAt_append]
    have := ih (pre ++ [a])
    simp only [List.append_assoc, List.singleton_append, List.length_append, List.length_singleton] at this
    rw [this]

theorem window_mid' (img pre x rest : List UInt8) (cur n : Nat)
    (h : img = pre ++ (x ++ rest)) (hc : cur = pre.length) (hn : n = x.length) : window img cur n = x := by
  subst h hc hn; exact window_mid x pre rest

theorem length_encCats_ge (cs : List Cat) : cs.length ≤ (encCats cs).length := by
  induction cs with
  | nil => simp
  | cons c cs ih => simp [encCats, encCat]; omega

theorem catLoop_wf (d : Dev) (cs : List Cat) (hok : ∀ c ∈ cs, c.ok) (pre tail : List UInt8)
    (himg : d.image = pre ++ (encCats cs ++ (marker ++ tail)))
    (st : RState) (hinv : Inv d st pre.length) (acc : Cats) (f : Nat) (hf : cs.length < f) :
    (catLoop d f st acc).1 = some (dictOfFrom acc (cs.map fun c => (c.type, c.payload))) := by
  induction cs generalizing pre st acc f with
  | nil =>
    obtain ⟨f, rfl⟩ : ∃ f', f = f' + 1 := ⟨f - 1, by simp at hf; omega⟩
    unfold catLoop
    obtain ⟨h1, _⟩ := getData_spec d 4 st pre.length hinv
    have hw : window d.image pre.length 2 = marker :=
      window_mid' _ pre marker tail _ _ (by simpa [encCats] using himg) rfl rfl
    have hd : decLE ((getData d 4 st).1.take 2) = 0xffff := by
      rw [h1, window_take _ _ _ _ (by omega), hw]; decide
    simp [hd, dictOfFrom]
  | cons c cs ih =>
    obtain ⟨f, rfl⟩ : ∃ f', f = f' + 1 := ⟨f - 1, by simp at hf; omega⟩
    obtain ⟨ht, hev, hws⟩ := hok c (by simp)
    unfold catLoop
    obtain ⟨h1, i1⟩ := getData_spec d 4 st pre.length hinv
    -- the header
    have himg1 : d.image = pre ++ ((encLE 2 c.type ++ encLE 2 (c.payload.length / 2)) ++
        (c.payload ++ (encCats cs ++ (marker ++ tail)))) := by
      rw [himg]; simp [encCats, encCat]
    have hh : (getData d 4 st).1 = encLE 2 c.type ++ encLE 2 (c.payload.length / 2) := by
      rw [h1]; exact window_mid' _ pre _ _ _ _ himg1 rfl (by simp)
    have hd : decLE ((getData d 4 st).1.take 2) = c.type := by
      rw [hh, List.take_left' (by simp)]; exact decLE_encLE 2 _ (by omega)
    have hw : decLE ((getData d 4 st).1.drop 2) = c.payload.length / 2 := by
      rw [hh, List.drop_left' (by simp)]; exact decLE_encLE 2 _ (by omega)
    have hne : ¬ c.type = 0xffff := by omega
    simp only [hd, hw, hne, ↓reduceIte]
    -- the payload
    have hlen : c.payload.length / 2 * 2 = c.payload.length := by omega
    rw [hlen]
    obtain ⟨h2, i2⟩ := getData_spec d c.payload.length (getData d 4 st).2 (pre.length + 4) i1
    have himg2 : d.image = (pre ++ (encLE 2 c.type ++ encLE 2 (c.payload.length / 2))) ++
        (c.payload ++ (encCats cs ++ (marker ++ tail))) := by
      rw [himg1]; simp
    have hp : (getData d c.payload.length (getData d 4 st).2).1 = c.payload := by
      rw [h2]; exact window_mid' _ _ _ _ _ _ himg2 (by simp) rfl
    rw [hp]
    have himg3 : d.image = (pre ++ (encLE 2 c.type ++ encLE 2 (c.payload.length / 2)) ++ c.payload) ++
        (encCats cs ++ (marker ++ tail)) := by
      rw [himg2]; simp
    have hl3 : (pre ++ (encLE 2 c.type ++ encLE 2 (c.payload.length / 2)) ++ c.payload).length =
        pre.length + 4 + c.payload.length := by simp; omega
    have := ih (fun c' hc' => hok c' (by simp [hc'])) _ himg3 _
      (by rw [hl3]; exact i2) (dictSet acc c.type c.payload) f (by simp at hf; omega)
    rw [this]
    rfl

/-- **identity fields**, for every image (well-formed or not), read mode and busy script:
the four fields are the little-endian 32-bit values at words 8, 10, 12, 14 -/
theorem read_identity_exact (d : Dev) (b : Bus) :
    (readEeprom d b).vendorId = decLE (window d.image (2 * eeprom_VENDOR_ID) 4) ∧
    (readEeprom d b).productCode = decLE (window d.image (2 * eeprom_PRODUCT_CODE) 4) ∧
    (readEeprom d b).revisionNo = decLE (window d.image (2 * eeprom_REVISION) 4) ∧
    (readEeprom d b).serialNo = decLE (window d.image (2 * eeprom_SERIAL_NO) 4) := by
  simp only [readEeprom, read_one_exact]
  refine ⟨?_, ?_, ?_, ?_⟩
  · rw [window_take _ _ _ _ (by omega)]
  · rw [window_drop _ _ _ _ (by omega)]; rfl
  · rw [window_take _ _ _ _ (by omega)]
  · rw [window_drop _ _ _ _ (by omega)]; rfl

/-- **read_eeprom_exact**: for every list of categories (any number, any types incl. duplicates,
any even or odd word counts, any contents), every 0x80-byte fixed part, anything after the end
marker, both read modes, every bus state / busy script: the dict `read_eeprom` builds is
`{type: payload}` of the categories in image order (later duplicates overwrite). -/
theorem read_eeprom_exact (hdr : List UInt8) (cs : List Cat) (tail : List UInt8) (mode8 : Bool) (b : Bus)
    (hh : hdr.length = 2 * catStart) (hok : ∀ c ∈ cs, c.ok) :
    (readEeprom ⟨mkImage hdr cs tail, mode8⟩ b).eeprom =
      some (dictOfFrom [] (cs.map fun c => (c.type, c.payload))) := by
  simp only [readEeprom]
  apply catLoop_wf _ cs hok hdr tail rfl
  · constructor
    · simp [hh, window]
    · simp [hh]
  · have := length_encCats_ge cs
    simp [mkImage]; omega

/-- with distinct category types every category is found under its type with exactly its bytes -/
theorem read_eeprom_lookup (hdr : List UInt8) (cs : List Cat) (tail : List UInt8) (mode8 : Bool) (b : Bus)
    (hh : hdr.length = 2 * catStart) (hok : ∀ c ∈ cs, c.ok) (hn : (cs.map (·.type)).Nodup)
    (c : Cat) (hc : c ∈ cs) :
    ∃ m, (readEeprom ⟨mkImage hdr cs tail, mode8⟩ b).eeprom = some m ∧ dictGet m c.type = some c.payload := by
  refine ⟨_, read_eeprom_exact hdr cs tail mode8 b hh hok, ?_⟩
  rw [dictGet_dictOfFrom, lastVal_of_mem_nodup _ c.type c.payload]
  · rfl
  · simpa [List.map_map, Function.comp_def] using hn
  · exact List.mem_map.mpr ⟨c, hc, rfl⟩

/-! ### malformed images: `read_eeprom` still terminates on this device -/

theorem window_beyond (img : List UInt8) (off n : Nat) (h : img.length ≤ off) :
    window img off n = List.replicate n 0xff := by
  induction n generalizing off with
  | zero => rfl
  | succ n ih =>
    have : byteAt img off = 0xff := by
      simp [byteAt, List.getD_eq_getElem?_getD, List.getElem?_eq_none h]
    simp [window, this, ih (off + 1) (by omega), List.replicate_succ]

theorem catLoop_total (d : Dev) (f : Nat) (st : RState) (cur : Nat) (acc : Cats)
    (hinv : Inv d st cur) (h1 : 1 ≤ f) (hf : d.image.length + 4 ≤ cur + 4 * f) :
    (catLoop d f st acc).1 ≠ none := by
  induction f generalizing st cur acc with
  | zero => omega
  | succ f ih =>
    unfold catLoop
    obtain ⟨e1, i1⟩ := getData_spec d 4 st cur hinv
    by_cases hd : decLE ((getData d 4 st).1.take 2) = 0xffff
    · simp [hd]
    · simp only [hd, ↓reduceIte]
      obtain ⟨_, i2⟩ := getData_spec d (decLE ((getData d 4 st).1.drop 2) * 2) (getData d 4 st).2 (cur + 4) i1
      have hf1 : 1 ≤ f := by
        rcases Nat.eq_zero_or_pos f with rfl | h
        · exfalso; apply hd
          rw [e1, window_take _ _ _ _ (by omega), window_beyond _ _ _ (by omega)]; decide
        · exact h
      exact ih _ _ _ i2 hf1 (by omega)

/-- **read_eeprom_total**: for *every* image (no end marker, truncated categories, …), read mode and
busy script, the category loop ends by finding a marker (the 0xff padding at the latest); the fuel
of the model is never exhausted, so `eeprom` is never `none`. -/
theorem read_eeprom_total (d : Dev) (b : Bus) : (readEeprom d b).eeprom ≠ none := by
  simp only [readEeprom]
  apply catLoop_total d _ _ (2 * catStart)
  · exact ⟨by simp [window], by simp⟩
  · omega
  · omega

/-! ### `parse_sync_managers` -/

/-- one 8-byte sync-manager record of category 41: start address, length, control byte, and the
three bytes (status, activate, PDI control) the driver does not look at -/
structure SMEntry where
  offset : Nat
  size : Nat
  ctrl : Nat
  b5 : UInt8
  b6 : UInt8
  b7 : UInt8
deriving Repr, DecidableEq

def SMEntry.ok (e : SMEntry) : Prop := e.offset < 65536 ∧ e.size < 65536 ∧ e.ctrl < 256
instance (e : SMEntry) : Decidable e.ok := by unfold SMEntry.ok; infer_instance

def encSM (e : SMEntry) : List UInt8 :=
  encLE 2 e.offset ++ (encLE 2 e.size ++ [UInt8.ofNat e.ctrl, e.b5, e.b6, e.b7])
def encSMs : List SMEntry → List UInt8
  | [] => []
  | e :: es => encSM e ++ encSMs es

/-- index (counted from `i`) and contents of the last record whose control byte has kind `k`
in its low nibble: 0 = process data in, 2 = mailbox in, 4 = process data out, 6 = mailbox out -/
def lastOfKind (k : Nat) : Nat → List SMEntry → Option (Nat × SMEntry)
  | _, [] => none
  | i, e :: es =>
    match lastOfKind k (i + 1) es with
    | some r => some r
    | none => if e.ctrl % 16 = k then some (i, e) else none

def area (r : Option (Nat × SMEntry)) : Option (Nat × Nat) := r.map fun r => (r.2.offset, r.2.size)
def regAddr (r : Option (Nat × SMEntry)) (dflt : Nat) : Nat :=
  match r with
  | some r => smBase + 8 * r.1
  | none => dflt

/-- records `es` (numbered from `i0`) laid over a previous state `s` -/
def overlay (s : SM) (i0 : Nat) (es : List SMEntry) : SM :=
  { mbx_out := (area (lastOfKind 6 i0 es)).or s.mbx_out
    mbx_in := (area (lastOfKind 2 i0 es)).or s.mbx_in
    pdo_out := (area (lastOfKind 4 i0 es)).or s.pdo_out
    pdo_in := (area (lastOfKind 0 i0 es)).or s.pdo_in
    pdo_in_addr := regAddr (lastOfKind 0 i0 es) s.pdo_in_addr
    pdo_out_addr := regAddr (lastOfKind 4 i0 es) s.pdo_out_addr }

/-- what the table says: each area is the last record of its kind, the process-data register
addresses are `0x800 + 8 * (record number)`, defaults 0x818 / 0x810 when there is none -/
def smSpec (es : List SMEntry) : SM := overlay {} 0 es

theorem smStep_enc (s : SM) (i : Nat) (e : SMEntry) (rest : List UInt8) (h : e.ok) :
    smStep s i (encSM e ++ rest) = smAssign s i e.offset e.size e.ctrl := by
  obtain ⟨h1, h2, h3⟩ := h
  unfold smStep encSM
  have t1 : (encLE 2 e.offset ++ (encLE 2 e.size ++ [UInt8.ofNat e.ctrl, e.b5, e.b6, e.b7]) ++ rest).take 2
      = encLE 2 e.offset := by
    rw [List.append_assoc, List.take_left' (by simp)]
  have t2 : ((encLE 2 e.offset ++ (encLE 2 e.size ++ [UInt8.ofNat e.ctrl, e.b5, e.b6, e.b7]) ++ rest).drop 2).take 2
      = encLE 2 e.size := by
    rw [List.append_assoc, List.drop_left' (by simp), List.append_assoc, List.take_left' (by simp)]
  have t3 : ((encLE 2 e.offset ++ (encLE 2 e.size ++ [UInt8.ofNat e.ctrl, e.b5, e.b6, e.b7]) ++ rest).getD 4 0).toNat
      = e.ctrl := by
    simp [encLE, Nat.mod_eq_of_lt h3]
  rw [t1, t2, t3, decLE_encLE 2 _ (by omega), decLE_encLE 2 _ (by omega)]

theorem length_encSM (e : SMEntry) : (encSM e).length = 8 := by simp [encSM]

theorem overlay_cons (s : SM) (i0 : Nat) (e : SMEntry) (es : List SMEntry) :
    overlay (smAssign s (8 * i0) e.offset e.size e.ctrl) (i0 + 1) es = overlay s i0 (e :: es) := by
  simp only [overlay, lastOfKind, smAssign]
  cases lastOfKind 0 (i0 + 1) es <;> cases lastOfKind 2 (i0 + 1) es <;>
  cases lastOfKind 4 (i0 + 1) es <;> cases lastOfKind 6 (i0 + 1) es <;>
  by_cases h0 : e.ctrl % 16 = 0 <;> by_cases h2 : e.ctrl % 16 = 2 <;>
  by_cases h4 : e.ctrl % 16 = 4 <;> by_cases h6 : e.ctrl % 16 = 6 <;>
  first | omega | simp [h0, h2, h4, h6, area, regAddr]

theorem smGo_enc (es : List SMEntry) (hok : ∀ e ∈ es, e.ok) (s : SM) (i0 : Nat) :
    smGo es.length (8 * i0) (encSMs es) s = (overlay s i0 es, true) := by
  induction es generalizing s i0 with
  | nil => simp [smGo, overlay, lastOfKind, area, regAddr]
  | cons e es ih =>
    have hl : ¬ (encSM e ++ encSMs es).length < 5 := by simp [length_encSM]; omega
    simp only [List.length_cons, smGo, encSMs, hl, ↓reduceIte]
    rw [smStep_enc _ _ _ _ (hok e (by simp)), List.drop_left' (length_encSM e)]
    have := ih (fun e' h' => hok e' (by simp [h'])) (smAssign s (8 * i0) e.offset e.size e.ctrl) (i0 + 1)
    rw [show 8 * (i0 + 1) = 8 * i0 + 8 by omega] at this
    rw [this, overlay_cons]

theorem length_encSMs (es : List SMEntry) : (encSMs es).length = 8 * es.length := by
  induction es with
  | nil => rfl
  | cons e es ih => simp [encSMs, length_encSM, ih]; omega

/-- **sm_exact**: for every table of sync-manager records (any number, any order, repeated kinds,
unknown kinds), `parse_sync_managers` returns for each mailbox / process-data area the offset and
size stored in the last record of its kind and the address of that record's register block. -/
theorem sm_exact (es : List SMEntry) (hok : ∀ e ∈ es, e.ok) : parseSM (encSMs es) = (smSpec es, true) := by
  unfold parseSM smSpec
  rw [length_encSMs, show (8 * es.length + 7) / 8 = es.length by omega]
  exact smGo_enc es hok {} 0

end Ebv.C17
