import Ebv.Model.Eeprom
/-! C17 — EEPROM contents and derived layouts are decoded exactly.

All theorems are at full strength (no `_partial`): they quantify over every image / category list /
record table / entry list, both read modes and every bus state (busy script, status bits, junk in
the data register).

* `read_one_exact`            `_eeprom_read_one(start)` = the 8 image bytes at `2*start`
* `getData_spec`              the carry-over buffer invariant of `get_data`, any size
* `read_identity_exact`       vendor/product/revision/serial = image words 8..15 (any image)
* `read_eeprom_exact`, `read_eeprom_lookup`   result dict = the categories (later duplicates overwrite)
* `read_eeprom_total`         on any (malformed) image the loop ends at a marker / the 0xff padding
* `sm_exact`                  areas = last record of each kind, register address 0x800 + 8*i
* `pdo_exact`, `pdo_rejects`, `aligned_iff`   the inner `parse`: `(sm, Σ previous bits / 8, bit | format)`
                              for aligned tables, RuntimeError / KeyError for every other table
* `pdo_eeprom_source_exact`, `pdo_sdo_source_exact`   the two entry sources yield the stored triples
* `parse_pdos_eeprom_exact`, `parse_pdos_sdo_exact`, `apply_eeprom_exact`   the compositions -/
namespace Ebv.C17
open Ebv.Eeprom Ebv.Bytes Ebv.Consts

/-! ### windows of the image -/

@[simp] theorem length_window (img : List UInt8) (off n : Nat) : (window img off n).length = n := by
  induction n generalizing off with
  | zero => rfl
  | succ n ih => simp [window, ih]

theorem window_add (img : List UInt8) (off a b : Nat) :
    window img off (a + b) = window img off a ++ window img (off + a) b := by
  induction a generalizing off with
  | zero => simp [window]
  | succ a ih =>
    have : a + 1 + b = (a + b) + 1 := by omega
    rw [this]
    have h2 : off + 1 + a = off + (a + 1) := by omega
    simp only [window, List.cons_append, ih, h2]

theorem window_take (img : List UInt8) (off n k : Nat) (h : k ≤ n) :
    (window img off n).take k = window img off k := by
  obtain ⟨m, rfl⟩ := Nat.exists_eq_add_of_le h
  rw [window_add, List.take_left' (by simp)]

theorem window_drop (img : List UInt8) (off n k : Nat) (h : k ≤ n) :
    (window img off n).drop k = window img (off + k) (n - k) := by
  obtain ⟨m, rfl⟩ := Nat.exists_eq_add_of_le h
  rw [window_add, List.drop_left' (by simp)]
  congr 1
  omega

/-! ### the status word -/

theorem isBusy_status (d : Dev) (p : Poll) : isBusy (status d p) = p.busy := by
  unfold isBusy status
  rw [Nat.and_or_distrib_right, Nat.and_or_distrib_right, Nat.and_assoc]
  cases p.busy <;> cases d.mode8 <;> simp

theorem is8_status (d : Dev) (p : Poll) : is8 (status d p) = d.mode8 := by
  unfold is8 status
  rw [Nat.and_or_distrib_right, Nat.and_or_distrib_right, Nat.and_assoc]
  cases p.busy <;> cases d.mode8 <;> simp

/-! ### `_eeprom_read_one` -/

/-- the polling loop ends on an answer the device gave while not busy -/
theorem pollGo_spec (d : Dev) (n addr : Nat) (s : List Poll) (log : List Ev) :
    ∃ p : Poll, p.busy = false ∧ (pollGo d n addr s log).1 = (status d p, dataReg d addr p) := by
  induction s generalizing log with
  | nil => exact ⟨.idle, rfl, rfl⟩
  | cons p ps ih =>
    unfold pollGo
    rw [isBusy_status]
    cases hb : p.busy with
    | true => simpa using ih _
    | false => exact ⟨p, hb, by simp⟩

theorem pollIdle_spec (d : Dev) (n : Nat) (b : Bus) :
    ∃ p : Poll, p.busy = false ∧ (pollIdle d n b).1 = (status d p, dataReg d b.addr p) ∧
      (pollIdle d n b).2.addr = b.addr := by
  obtain ⟨p, hp, h⟩ := pollGo_spec d n b.addr b.script b.log
  exact ⟨p, hp, by simp [pollIdle, h], rfl⟩

/-- **read_one_exact**: for every image, word address, read mode, bus state and busy script
`_eeprom_read_one(start)` returns the 8 image bytes at byte offset `2*start`. -/
theorem read_one_exact (d : Dev) (start : Nat) (b : Bus) :
    (readOne d start b).1 = window d.image (2 * start) 8 := by
  unfold readOne
  obtain ⟨p1, hp1, h1, a1⟩ := pollIdle_spec d 8 (cmdRead (pollIdle d 0 b).2 start)
  simp only [h1, is8_status]
  cases hm : d.mode8 with
  | true => simp [dataReg, hp1, hm, cmdRead]
  | false =>
    obtain ⟨p2, hp2, h2, _⟩ := pollIdle_spec d 4 (cmdRead (pollIdle d 8 (cmdRead (pollIdle d 0 b).2 start)).2 (start + 2))
    simp only [h2]
    have e : 2 * (start + 2) = 2 * start + 4 := by omega
    simp [dataReg, hp1, hp2, hm, cmdRead, e, window_add _ (2 * start) 4 4]

theorem length_readOne (d : Dev) (start : Nat) (b : Bus) : (readOne d start b).1.length = 8 := by
  simp [read_one_exact]

/-! ### `get_data`: the carry-over buffer -/

/-- invariant of `read_eeprom`'s `(pos, data)`: the buffer holds exactly the image bytes from the
logical read position `cur` up to the position `2*pos` the device will be asked for next -/
def Inv (d : Dev) (st : RState) (cur : Nat) : Prop :=
  st.buf = window d.image cur (2 * st.pos - cur) ∧ cur ≤ 2 * st.pos

theorem fill_spec (d : Dev) (size f : Nat) (st : RState) (cur : Nat) (h : Inv d st cur)
    (hf : size ≤ (2 * st.pos - cur) + 8 * f) :
    Inv d (fill d size f st) cur ∧ size ≤ 2 * (fill d size f st).pos - cur := by
  induction f generalizing st with
  | zero => exact ⟨h, by simpa [fill] using hf⟩
  | succ f ih =>
    unfold fill
    have hl : st.buf.length = 2 * st.pos - cur := by rw [h.1]; simp
    by_cases hlt : st.buf.length < size
    · simp only [hlt, ↓reduceIte]
      apply ih
      · constructor
        · simp only [read_one_exact]
          have e : 2 * (st.pos + 4) - cur = (2 * st.pos - cur) + 8 := by have := h.2; omega
          have e2 : cur + (2 * st.pos - cur) = 2 * st.pos := by have := h.2; omega
          rw [e, window_add, e2, ← h.1]
        · have := h.2; simp only; omega
      · have := h.2; simp only; omega
    · simp only [hlt, ↓reduceIte]
      exact ⟨h, by omega⟩

/-- **get_data**: whatever is in the carry-over buffer, `get_data(size)` returns the next `size`
image bytes and leaves the invariant at the advanced position (any size, any read mode, any script). -/
theorem getData_spec (d : Dev) (size : Nat) (st : RState) (cur : Nat) (h : Inv d st cur) :
    (getData d size st).1 = window d.image cur size ∧ Inv d (getData d size st).2 (cur + size) := by
  obtain ⟨hi, hs⟩ := fill_spec d size size st cur h (by omega)
  unfold getData
  simp only
  generalize fill d size size st = st' at hi hs
  refine ⟨?_, ?_, ?_⟩
  · rw [hi.1, window_take _ _ _ _ hs]
  · simp only
    rw [hi.1, window_drop _ _ _ _ hs]
    congr 1; omega
  · simp only; have := hi.2; omega

/-! ### Python-dict facts -/

section dict
variable {κ ν : Type} [DecidableEq κ]

theorem dictGet_dictSet (m : List (κ × ν)) (k k' : κ) (v : ν) :
    dictGet (dictSet m k v) k' = if k = k' then some v else dictGet m k' := by
  induction m with
  | nil => simp [dictSet, dictGet]
  | cons kv t ih =>
    obtain ⟨k0, v0⟩ := kv
    by_cases h0 : k0 = k
    · subst h0; by_cases h1 : k0 = k' <;> simp [dictSet, dictGet, h1]
    · by_cases h1 : k0 = k'
      · subst h1
        have : ¬ k = k0 := fun h => h0 h.symm
        simp [dictSet, dictGet, h0, this]
      · simp [dictSet, dictGet, h0, h1, ih]

/-- the value of the last assignment to `k` in a list of assignments -/
def lastVal : List (κ × ν) → κ → Option ν
  | [], _ => none
  | (k', v) :: t, k =>
    match lastVal t k with
    | some x => some x
    | none => if k' = k then some v else none

/-- later duplicates overwrite, exactly as `d[k] = v` in a loop does -/
theorem dictGet_dictOfFrom (m kvs : List (κ × ν)) (k : κ) :
    dictGet (dictOfFrom m kvs) k = (lastVal kvs k).or (dictGet m k) := by
  induction kvs generalizing m with
  | nil => simp [dictOfFrom, lastVal]
  | cons kv t ih =>
    obtain ⟨k0, v0⟩ := kv
    have : dictOfFrom m ((k0, v0) :: t) = dictOfFrom (dictSet m k0 v0) t := rfl
    rw [this, ih, dictGet_dictSet]
    simp only [lastVal]
    cases lastVal t k <;> by_cases h : k0 = k <;> simp [h]

theorem lastVal_none (kvs : List (κ × ν)) (k : κ) (h : ∀ kv ∈ kvs, kv.1 ≠ k) : lastVal kvs k = none := by
  induction kvs with
  | nil => rfl
  | cons kv t ih =>
    obtain ⟨k0, v0⟩ := kv
    have h0 : k0 ≠ k := h (k0, v0) (by simp)
    simp [lastVal, ih (fun kv hkv => h kv (by simp [hkv])), h0]

/-- with distinct keys every assignment is found under its key -/
theorem lastVal_of_mem_nodup (kvs : List (κ × ν)) (k : κ) (v : ν)
    (hn : (kvs.map (·.1)).Nodup) (hm : (k, v) ∈ kvs) : lastVal kvs k = some v := by
  induction kvs with
  | nil => simp at hm
  | cons kv t ih =>
    obtain ⟨k0, v0⟩ := kv
    simp only [List.map_cons, List.nodup_cons, List.mem_map, not_exists, not_and] at hn
    simp only [List.mem_cons, Prod.mk.injEq] at hm
    simp only [lastVal]
    rcases hm with ⟨rfl, rfl⟩ | hm
    · rw [lastVal_none t k (fun kv hkv => hn.1 kv hkv)]
      simp
    · rw [ih hn.2 hm]

end dict

/-! ### `read_eeprom` on well-formed images -/

/-- one SII category as the generator of an image sees it -/
structure Cat where
  type : Nat
  payload : List UInt8
deriving Repr, DecidableEq

/-- a category that fits the SII header: type is not the end marker, payload a whole number of
16-bit words that fits the 16-bit word count -/
def Cat.ok (c : Cat) : Prop := c.type < 0xffff ∧ c.payload.length % 2 = 0 ∧ c.payload.length / 2 < 65536
instance (c : Cat) : Decidable c.ok := by unfold Cat.ok; infer_instance

def encCat (c : Cat) : List UInt8 := (encLE 2 c.type ++ encLE 2 (c.payload.length / 2)) ++ c.payload
def encCats : List Cat → List UInt8
  | [] => []
  | c :: cs => encCat c ++ encCats cs
def marker : List UInt8 := [0xff, 0xff]

/-- the image: 0x80 bytes of fixed fields, the categories, the end marker, anything after it -/
def mkImage (hdr : List UInt8) (cs : List Cat) (tail : List UInt8) : List UInt8 :=
  hdr ++ (encCats cs ++ (marker ++ tail))

theorem byteAt_append (pre : List UInt8) (a : UInt8) (t : List UInt8) :
    byteAt (pre ++ a :: t) pre.length = a := by
  simp [byteAt, List.getD_eq_getElem?_getD]

theorem window_mid (x pre rest : List UInt8) : window (pre ++ (x ++ rest)) pre.length x.length = x := by
  induction x generalizing pre with
  | nil => rfl
  | cons a x ih =>
    simp only [List.cons_append, List.length_cons, window, byteAt_append]
    have := ih (pre ++ [a])
    simp only [List.append_assoc, List.singleton_append, List.length_append, List.length_singleton] at this
    rw [this]

theorem window_mid' (img pre x rest : List UInt8) (cur n : Nat)
    (h : img = pre ++ (x ++ rest)) (hc : cur = pre.length) (hn : n = x.length) : window img cur n = x := by
  subst h hc hn; exact window_mid x pre rest

theorem length_encCats_ge (cs : List Cat) : cs.length ≤ (encCats cs).length := by
  induction cs with
  | nil => simp
  | cons c cs ih => simp [encCats, encCat]; omega

theorem catLoop_wf (d : Dev) (cs : List Cat) (hok : ∀ c ∈ cs, c.ok) (pre tail : List UInt8)
    (himg : d.image = pre ++ (encCats cs ++ (marker ++ tail)))
    (st : RState) (hinv : Inv d st pre.length) (acc : Cats) (f : Nat) (hf : cs.length < f) :
    (catLoop d f st acc).1 = some (dictOfFrom acc (cs.map fun c => (c.type, c.payload))) := by
  induction cs generalizing pre st acc f with
  | nil =>
    obtain ⟨f, rfl⟩ : ∃ f', f = f' + 1 := ⟨f - 1, by simp at hf; omega⟩
    unfold catLoop
    obtain ⟨h1, _⟩ := getData_spec d 4 st pre.length hinv
    have hw : window d.image pre.length 2 = marker :=
      window_mid' _ pre marker tail _ _ (by simpa [encCats] using himg) rfl rfl
    have hd : decLE ((getData d 4 st).1.take 2) = 0xffff := by
      rw [h1, window_take _ _ _ _ (by omega), hw]; decide
    simp [hd, dictOfFrom]
  | cons c cs ih =>
    obtain ⟨f, rfl⟩ : ∃ f', f = f' + 1 := ⟨f - 1, by simp at hf; omega⟩
    obtain ⟨ht, hev, hws⟩ := hok c (by simp)
    unfold catLoop
    obtain ⟨h1, i1⟩ := getData_spec d 4 st pre.length hinv
    -- the header
    have himg1 : d.image = pre ++ ((encLE 2 c.type ++ encLE 2 (c.payload.length / 2)) ++
        (c.payload ++ (encCats cs ++ (marker ++ tail)))) := by
      rw [himg]; simp [encCats, encCat]
    have hh : (getData d 4 st).1 = encLE 2 c.type ++ encLE 2 (c.payload.length / 2) := by
      rw [h1]; exact window_mid' _ pre _ _ _ _ himg1 rfl (by simp)
    have hd : decLE ((getData d 4 st).1.take 2) = c.type := by
      rw [hh, List.take_left' (by simp)]; exact decLE_encLE 2 _ (by omega)
    have hw : decLE ((getData d 4 st).1.drop 2) = c.payload.length / 2 := by
      rw [hh, List.drop_left' (by simp)]; exact decLE_encLE 2 _ (by omega)
    have hne : ¬ c.type = 0xffff := by omega
    simp only [hd, hw, hne, ↓reduceIte]
    -- the payload
    have hlen : c.payload.length / 2 * 2 = c.payload.length := by omega
    rw [hlen]
    obtain ⟨h2, i2⟩ := getData_spec d c.payload.length (getData d 4 st).2 (pre.length + 4) i1
    have himg2 : d.image = (pre ++ (encLE 2 c.type ++ encLE 2 (c.payload.length / 2))) ++
        (c.payload ++ (encCats cs ++ (marker ++ tail))) := by
      rw [himg1]; simp
    have hp : (getData d c.payload.length (getData d 4 st).2).1 = c.payload := by
      rw [h2]; exact window_mid' _ _ _ _ _ _ himg2 (by simp) rfl
    rw [hp]
    have himg3 : d.image = (pre ++ (encLE 2 c.type ++ encLE 2 (c.payload.length / 2)) ++ c.payload) ++
        (encCats cs ++ (marker ++ tail)) := by
      rw [himg2]; simp
    have hl3 : (pre ++ (encLE 2 c.type ++ encLE 2 (c.payload.length / 2)) ++ c.payload).length =
        pre.length + 4 + c.payload.length := by simp; omega
    have := ih (fun c' hc' => hok c' (by simp [hc'])) _ himg3 _
      (by rw [hl3]; exact i2) (dictSet acc c.type c.payload) f (by simp at hf; omega)
    rw [this]
    rfl

/-- **identity fields**, for every image (well-formed or not), read mode and busy script:
the four fields are the little-endian 32-bit values at words 8, 10, 12, 14 -/
theorem read_identity_exact (d : Dev) (b : Bus) :
    (readEeprom d b).vendorId = decLE (window d.image (2 * eeprom_VENDOR_ID) 4) ∧
    (readEeprom d b).productCode = decLE (window d.image (2 * eeprom_PRODUCT_CODE) 4) ∧
    (readEeprom d b).revisionNo = decLE (window d.image (2 * eeprom_REVISION) 4) ∧
    (readEeprom d b).serialNo = decLE (window d.image (2 * eeprom_SERIAL_NO) 4) := by
  simp only [readEeprom, read_one_exact]
  refine ⟨?_, ?_, ?_, ?_⟩
  · rw [window_take _ _ _ _ (by omega)]
  · rw [window_drop _ _ _ _ (by omega)]; rfl
  · rw [window_take _ _ _ _ (by omega)]
  · rw [window_drop _ _ _ _ (by omega)]; rfl

/-- **read_eeprom_exact**: for every list of categories (any number, any types incl. duplicates,
any even or odd word counts, any contents), every 0x80-byte fixed part, anything after the end
marker, both read modes, every bus state / busy script: the dict `read_eeprom` builds is
`{type: payload}` of the categories in image order (later duplicates overwrite). -/
theorem read_eeprom_exact (hdr : List UInt8) (cs : List Cat) (tail : List UInt8) (mode8 : Bool) (b : Bus)
    (hh : hdr.length = 2 * catStart) (hok : ∀ c ∈ cs, c.ok) :
    (readEeprom ⟨mkImage hdr cs tail, mode8⟩ b).eeprom =
      some (dictOfFrom [] (cs.map fun c => (c.type, c.payload))) := by
  simp only [readEeprom]
  apply catLoop_wf _ cs hok hdr tail rfl
  · constructor
    · simp [hh, window]
    · simp [hh]
  · have := length_encCats_ge cs
    simp [mkImage]; omega

/-- with distinct category types every category is found under its type with exactly its bytes -/
theorem read_eeprom_lookup (hdr : List UInt8) (cs : List Cat) (tail : List UInt8) (mode8 : Bool) (b : Bus)
    (hh : hdr.length = 2 * catStart) (hok : ∀ c ∈ cs, c.ok) (hn : (cs.map (·.type)).Nodup)
    (c : Cat) (hc : c ∈ cs) :
    ∃ m, (readEeprom ⟨mkImage hdr cs tail, mode8⟩ b).eeprom = some m ∧ dictGet m c.type = some c.payload := by
  refine ⟨_, read_eeprom_exact hdr cs tail mode8 b hh hok, ?_⟩
  rw [dictGet_dictOfFrom, lastVal_of_mem_nodup _ c.type c.payload]
  · rfl
  · simpa [List.map_map, Function.comp_def] using hn
  · exact List.mem_map.mpr ⟨c, hc, rfl⟩

/-! ### malformed images: `read_eeprom` still terminates on this device -/

theorem window_beyond (img : List UInt8) (off n : Nat) (h : img.length ≤ off) :
    window img off n = List.replicate n 0xff := by
  induction n generalizing off with
  | zero => rfl
  | succ n ih =>
    have : byteAt img off = 0xff := by
      simp [byteAt, List.getD_eq_getElem?_getD, List.getElem?_eq_none h]
    simp [window, this, ih (off + 1) (by omega), List.replicate_succ]

theorem catLoop_total (d : Dev) (f : Nat) (st : RState) (cur : Nat) (acc : Cats)
    (hinv : Inv d st cur) (h1 : 1 ≤ f) (hf : d.image.length + 4 ≤ cur + 4 * f) :
    (catLoop d f st acc).1 ≠ none := by
  induction f generalizing st cur acc with
  | zero => omega
  | succ f ih =>
    unfold catLoop
    obtain ⟨e1, i1⟩ := getData_spec d 4 st cur hinv
    by_cases hd : decLE ((getData d 4 st).1.take 2) = 0xffff
    · simp [hd]
    · simp only [hd, ↓reduceIte]
      obtain ⟨_, i2⟩ := getData_spec d (decLE ((getData d 4 st).1.drop 2) * 2) (getData d 4 st).2 (cur + 4) i1
      have hf1 : 1 ≤ f := by
        rcases Nat.eq_zero_or_pos f with rfl | h
        · exfalso; apply hd
          rw [e1, window_take _ _ _ _ (by omega), window_beyond _ _ _ (by omega)]; decide
        · exact h
      exact ih _ _ _ i2 hf1 (by omega)

/-- **read_eeprom_total**: for *every* image (no end marker, truncated categories, …), read mode and
busy script, the category loop ends by finding a marker (the 0xff padding at the latest); the fuel
of the model is never exhausted, so `eeprom` is never `none`. -/
theorem read_eeprom_total (d : Dev) (b : Bus) : (readEeprom d b).eeprom ≠ none := by
  simp only [readEeprom]
  apply catLoop_total d _ _ (2 * catStart)
  · exact ⟨by simp [window], by simp⟩
  · omega
  · omega

/-! ### `parse_sync_managers` -/

/-- one 8-byte sync-manager record of category 41: start address, length, control byte, and the
three bytes (status, activate, PDI control) the driver does not look at -/
structure SMEntry where
  offset : Nat
  size : Nat
  ctrl : Nat
  b5 : UInt8
  b6 : UInt8
  b7 : UInt8
deriving Repr, DecidableEq

def SMEntry.ok (e : SMEntry) : Prop := e.offset < 65536 ∧ e.size < 65536 ∧ e.ctrl < 256
instance (e : SMEntry) : Decidable e.ok := by unfold SMEntry.ok; infer_instance

def encSM (e : SMEntry) : List UInt8 :=
  encLE 2 e.offset ++ (encLE 2 e.size ++ [UInt8.ofNat e.ctrl, e.b5, e.b6, e.b7])
def encSMs : List SMEntry → List UInt8
  | [] => []
  | e :: es => encSM e ++ encSMs es

/-- index (counted from `i`) and contents of the last record whose control byte has kind `k`
in its low nibble: 0 = process data in, 2 = mailbox in, 4 = process data out, 6 = mailbox out -/
def lastOfKind (k : Nat) : Nat → List SMEntry → Option (Nat × SMEntry)
  | _, [] => none
  | i, e :: es =>
    match lastOfKind k (i + 1) es with
    | some r => some r
    | none => if e.ctrl % 16 = k then some (i, e) else none

def area (r : Option (Nat × SMEntry)) : Option (Nat × Nat) := r.map fun r => (r.2.offset, r.2.size)
def regAddr (r : Option (Nat × SMEntry)) (dflt : Nat) : Nat :=
  match r with
  | some r => smBase + 8 * r.1
  | none => dflt

/-- records `es` (numbered from `i0`) laid over a previous state `s` -/
def overlay (s : SM) (i0 : Nat) (es : List SMEntry) : SM :=
  { mbx_out := (area (lastOfKind 6 i0 es)).or s.mbx_out
    mbx_in := (area (lastOfKind 2 i0 es)).or s.mbx_in
    pdo_out := (area (lastOfKind 4 i0 es)).or s.pdo_out
    pdo_in := (area (lastOfKind 0 i0 es)).or s.pdo_in
    pdo_in_addr := regAddr (lastOfKind 0 i0 es) s.pdo_in_addr
    pdo_out_addr := regAddr (lastOfKind 4 i0 es) s.pdo_out_addr }

/-- what the table says: each area is the last record of its kind, the process-data register
addresses are `0x800 + 8 * (record number)`, defaults 0x818 / 0x810 when there is none -/
def smSpec (es : List SMEntry) : SM := overlay {} 0 es

theorem smStep_enc (s : SM) (i : Nat) (e : SMEntry) (rest : List UInt8) (h : e.ok) :
    smStep s i (encSM e ++ rest) = smAssign s i e.offset e.size e.ctrl := by
  obtain ⟨h1, h2, h3⟩ := h
  unfold smStep encSM
  have t1 : (encLE 2 e.offset ++ (encLE 2 e.size ++ [UInt8.ofNat e.ctrl, e.b5, e.b6, e.b7]) ++ rest).take 2
      = encLE 2 e.offset := by
    rw [List.append_assoc, List.take_left' (by simp)]
  have t2 : ((encLE 2 e.offset ++ (encLE 2 e.size ++ [UInt8.ofNat e.ctrl, e.b5, e.b6, e.b7]) ++ rest).drop 2).take 2
      = encLE 2 e.size := by
    rw [List.append_assoc, List.drop_left' (by simp), List.append_assoc, List.take_left' (by simp)]
  have t3 : ((encLE 2 e.offset ++ (encLE 2 e.size ++ [UInt8.ofNat e.ctrl, e.b5, e.b6, e.b7]) ++ rest).getD 4 0).toNat
      = e.ctrl := by
    simp [encLE, Nat.mod_eq_of_lt h3]
  rw [t1, t2, t3, decLE_encLE 2 _ (by omega), decLE_encLE 2 _ (by omega)]

theorem length_encSM (e : SMEntry) : (encSM e).length = 8 := by simp [encSM]

theorem overlay_cons (s : SM) (i0 : Nat) (e : SMEntry) (es : List SMEntry) :
    overlay (smAssign s (8 * i0) e.offset e.size e.ctrl) (i0 + 1) es = overlay s i0 (e :: es) := by
  simp only [overlay, lastOfKind, smAssign]
  cases lastOfKind 0 (i0 + 1) es <;> cases lastOfKind 2 (i0 + 1) es <;>
  cases lastOfKind 4 (i0 + 1) es <;> cases lastOfKind 6 (i0 + 1) es <;>
  by_cases h0 : e.ctrl % 16 = 0 <;> by_cases h2 : e.ctrl % 16 = 2 <;>
  by_cases h4 : e.ctrl % 16 = 4 <;> by_cases h6 : e.ctrl % 16 = 6 <;>
  first | omega | simp [h0, h2, h4, h6, area, regAddr]

theorem smGo_enc (es : List SMEntry) (hok : ∀ e ∈ es, e.ok) (s : SM) (i0 : Nat) :
    smGo es.length (8 * i0) (encSMs es) s = (overlay s i0 es, true) := by
  induction es generalizing s i0 with
  | nil => simp [smGo, overlay, lastOfKind, area, regAddr]
  | cons e es ih =>
    have hl : ¬ (encSM e ++ encSMs es).length < 5 := by simp [length_encSM]; omega
    simp only [List.length_cons, smGo, encSMs, hl, ↓reduceIte]
    rw [smStep_enc _ _ _ _ (hok e (by simp)), List.drop_left' (length_encSM e)]
    have := ih (fun e' h' => hok e' (by simp [h'])) (smAssign s (8 * i0) e.offset e.size e.ctrl) (i0 + 1)
    rw [show 8 * (i0 + 1) = 8 * i0 + 8 by omega] at this
    rw [this, overlay_cons]

theorem length_encSMs (es : List SMEntry) : (encSMs es).length = 8 * es.length := by
  induction es with
  | nil => rfl
  | cons e es ih => simp [encSMs, length_encSM, ih]; omega

/-- **sm_exact**: for every table of sync-manager records (any number, any order, repeated kinds,
unknown kinds), `parse_sync_managers` returns for each mailbox / process-data area the offset and
size stored in the last record of its kind and the address of that record's register block. -/
theorem sm_exact (es : List SMEntry) (hok : ∀ e ∈ es, e.ok) : parseSM (encSMs es) = (smSpec es, true) := by
  unfold parseSM smSpec
  rw [length_encSMs, show (8 * es.length + 7) / 8 = es.length by omega]
  exact smGo_enc es hok {} 0

/-! ### `parse_pdos`: the inner `parse` -/

/-- Σ of the bit sizes of the entries before position `i` -/
def bitsBefore (es : List Entry) (i : Nat) : Nat := ((es.take i).map (·.bits)).sum

/-- bit entries get the bit number inside the byte, byte entries the format letter of their size -/
def locOf (e : Entry) (bp : Nat) : Option Loc :=
  if e.bits < 8 then some (.bit (bp % 8)) else (fmtOf e.bits).map .fmt

/-- the `pdos` item entry number `i` must produce when the walk started at bit `bp0`:
none for padding (`idx == 0`), else `(idx, subidx) ↦ (sm, Σ previous bits / 8, bit or format)` -/
def mappedAt (sm bp0 : Nat) (es : List Entry) (i : Nat) : Option ((Nat × Nat) × (Nat × Nat × Loc)) :=
  match es[i]? with
  | none => none
  | some e =>
    if e.idx = 0 then none
    else (locOf e (bp0 + bitsBefore es i)).map fun l => ((e.idx, e.subidx), (sm, (bp0 + bitsBefore es i) / 8, l))

def mapped (sm bp0 : Nat) (es : List Entry) : List ((Nat × Nat) × (Nat × Nat × Loc)) :=
  (List.range es.length).filterMap (mappedAt sm bp0 es)

/-- every mapped byte entry (8 bits or more) has one of the sizes 8/16/32/64 and starts on a byte -/
def Aligned (bp0 : Nat) (es : List Entry) : Prop :=
  ∀ i e, es[i]? = some e → e.idx ≠ 0 → 8 ≤ e.bits → (fmtOf e.bits).isSome = true ∧ (bp0 + bitsBefore es i) % 8 = 0

theorem bitsBefore_cons (e : Entry) (es : List Entry) (i : Nat) :
    bitsBefore (e :: es) (i + 1) = e.bits + bitsBefore es i := by
  simp [bitsBefore]

theorem mappedAt_cons (sm bp0 : Nat) (e : Entry) (es : List Entry) (i : Nat) :
    mappedAt sm bp0 (e :: es) (i + 1) = mappedAt sm (bp0 + e.bits) es i := by
  simp only [mappedAt, List.getElem?_cons_succ, bitsBefore_cons, Nat.add_assoc]

theorem mapped_cons (sm bp0 : Nat) (e : Entry) (es : List Entry) :
    mapped sm bp0 (e :: es) = (mappedAt sm bp0 (e :: es) 0).toList ++ mapped sm (bp0 + e.bits) es := by
  unfold mapped
  rw [List.length_cons, List.range_succ_eq_map, List.filterMap_cons, List.filterMap_map]
  have : (mappedAt sm bp0 (e :: es) ∘ Nat.succ) = mappedAt sm (bp0 + e.bits) es := by
    funext i; exact mappedAt_cons sm bp0 e es i
  rw [this]
  cases mappedAt sm bp0 (e :: es) 0 <;> simp

theorem Aligned_cons {bp0 : Nat} {e : Entry} {es : List Entry} (h : Aligned bp0 (e :: es)) :
    Aligned (bp0 + e.bits) es := by
  intro i e' hi h0 h8
  have := h (i + 1) e' (by simpa using hi) h0 h8
  rw [bitsBefore_cons] at this
  exact ⟨this.1, by rw [Nat.add_assoc]; exact this.2⟩

theorem fmtOf_mod8 (b : Nat) (h : (fmtOf b).isSome = true) : b % 8 = 0 := by
  unfold fmtOf at h
  split at h; · omega
  split at h; · omega
  split at h; · omega
  split at h; · omega
  simp at h

theorem parseGo_exact (sm : Nat) (es : List Entry) (bp0 : Nat) (m : PdoDict) (h : Aligned bp0 es) :
    parseGo sm es bp0 m = (dictOfFrom m (mapped sm bp0 es), bp0 + bitsBefore es es.length, none) := by
  induction es generalizing bp0 m with
  | nil => simp [parseGo, mapped, dictOfFrom, bitsBefore]
  | cons e es ih =>
    have ih' := fun m' => ih (bp0 + e.bits) m' (Aligned_cons h)
    have hb : bp0 + bitsBefore (e :: es) (e :: es).length = bp0 + e.bits + bitsBefore es es.length := by
      rw [List.length_cons, bitsBefore_cons]; omega
    rw [mapped_cons, hb]
    unfold parseGo
    have h0' : bitsBefore (e :: es) 0 = 0 := by simp [bitsBefore]
    by_cases h0 : e.idx = 0
    · simp [h0, ih', mappedAt]
    · by_cases h8 : e.bits < 8
      · simp [h0, h8, ih', mappedAt, locOf, h0', dictOfFrom]
      · obtain ⟨hf, ha⟩ := h 0 e (by simp) h0 (by omega)
        rw [h0', Nat.add_zero] at ha
        have hm := fmtOf_mod8 _ hf
        obtain ⟨c, hc⟩ := Option.isSome_iff_exists.mp hf
        simp [h0, h8, ih', mappedAt, locOf, h0', dictOfFrom, hm, ha, hc]

/-- **pdo_exact**: for every entry list (any length; padding entries, bit entries, byte entries in
any order) that is `Aligned`, and every previous content `m` of `pdos`, the inner `parse` assigns
to each mapped entry exactly `(sm, Σ previous bits / 8, bit position or format letter)`, in order
(later duplicates of an `(idx, subidx)` overwrite), raises nothing and returns the total bit count. -/
theorem pdo_exact (sm : Nat) (es : List Entry) (m : PdoDict) (h : Aligned 0 es) :
    parseGo sm es 0 m = (dictOfFrom m (mapped sm 0 es), bitsBefore es es.length, none) := by
  simpa using parseGo_exact sm es 0 m h

/-- the first entry that breaks `Aligned`, if any: a byte entry not on a byte boundary or with a
size that is no multiple of 8 (`RuntimeError`), else with a size outside 8/16/32/64 (`KeyError`) -/
theorem pdo_rejects (sm : Nat) (es : List Entry) (bp0 : Nat) (m : PdoDict) (h : ¬ Aligned bp0 es) :
    (parseGo sm es bp0 m).2.2 = some .runtime ∨ (parseGo sm es bp0 m).2.2 = some .key := by
  induction es generalizing bp0 m with
  | nil => exfalso; apply h; intro i e hi; simp at hi
  | cons e es ih =>
    unfold parseGo
    have hrest : (e.idx = 0 ∨ e.bits < 8 ∨ ((fmtOf e.bits).isSome = true ∧ bp0 % 8 = 0)) →
        ¬ Aligned (bp0 + e.bits) es := by
      intro hh ha
      apply h
      intro i e' hi h0 h8
      cases i with
      | zero =>
        simp at hi; subst hi
        rcases hh with hh | hh | hh
        · exact absurd hh h0
        · omega
        · simpa [bitsBefore] using hh
      | succ i =>
        have := ha i e' (by simpa using hi) h0 h8
        rw [bitsBefore_cons]
        exact ⟨this.1, by rw [← Nat.add_assoc]; exact this.2⟩
    by_cases h0 : e.idx = 0
    · simpa [h0] using ih _ _ (hrest (Or.inl h0))
    · by_cases h8 : e.bits < 8
      · simpa [h0, h8] using ih _ _ (hrest (Or.inr (Or.inl h8)))
      · simp only [h0, h8, ↓reduceIte]
        by_cases hr : (e.bits % 8 != 0 || bp0 % 8 != 0) = true
        · simp [hr]
        · simp only [hr, Bool.false_eq_true, ↓reduceIte]
          cases hf : fmtOf e.bits with
          | none => simp
          | some c =>
            simp only
            apply ih
            apply hrest
            simp at hr
            exact Or.inr (Or.inr ⟨by simp [hf], hr.2⟩)

/-! ### the EEPROM source of `parse_pdos` (categories 50 / 51) -/

/-- one 8-byte PDO entry record: the entry and the bytes the driver skips (name index, data type,
two padding bytes) -/
structure EntryRec where
  e : Entry
  k1 : UInt8
  k2 : UInt8
  p6 : UInt8
  p7 : UInt8
deriving Repr, DecidableEq

/-- one PDO: 8-byte header (index, number of entries, sync manager, three more fields) + entries -/
structure PdoRec where
  idx : Nat
  sm : UInt8
  u1 : UInt8
  u2 : UInt8
  u3a : UInt8
  u3b : UInt8
  entries : List EntryRec
deriving Repr, DecidableEq

def EntryRec.ok (x : EntryRec) : Prop := x.e.idx < 65536 ∧ x.e.subidx < 256 ∧ x.e.bits < 256
def PdoRec.ok (p : PdoRec) : Prop := p.entries.length < 256 ∧ ∀ x ∈ p.entries, x.ok

def encEntry (x : EntryRec) : List UInt8 :=
  encLE 2 x.e.idx ++ [UInt8.ofNat x.e.subidx, x.k1, x.k2, UInt8.ofNat x.e.bits, x.p6, x.p7]
def encEntries : List EntryRec → List UInt8
  | [] => []
  | x :: xs => encEntry x ++ encEntries xs
def encPdo (p : PdoRec) : List UInt8 :=
  (encLE 2 p.idx ++ [UInt8.ofNat p.entries.length, p.sm, p.u1, p.u2, p.u3a, p.u3b]) ++ encEntries p.entries
def encPdos : List PdoRec → List UInt8
  | [] => []
  | p :: ps => encPdo p ++ encPdos ps

def entriesOf (ps : List PdoRec) : List Entry := ps.flatMap fun p => p.entries.map (·.e)

theorem length_encEntry (x : EntryRec) : (encEntry x).length = 8 := by simp [encEntry]

theorem takeEntries_enc (xs : List EntryRec) (rest : List UInt8) (hok : ∀ x ∈ xs, x.ok) :
    takeEntries xs.length (encEntries xs ++ rest) = (xs.map (·.e), rest, true) := by
  induction xs with
  | nil => simp [takeEntries, encEntries]
  | cons x xs ih =>
    obtain ⟨h1, h2, h3⟩ := hok x (by simp)
    have hl : ¬ (encEntry x ++ encEntries xs ++ rest).length < 8 := by simp [length_encEntry]
    simp only [List.length_cons, takeEntries, encEntries, hl, ↓reduceIte]
    rw [List.append_assoc, List.drop_left' (length_encEntry x), ih (fun y hy => hok y (by simp [hy]))]
    have t1 : (encEntry x ++ (encEntries xs ++ rest)).take 2 = encLE 2 x.e.idx := by
      rw [encEntry, List.append_assoc, List.take_left' (by simp)]
    have t2 : ((encEntry x ++ (encEntries xs ++ rest)).getD 2 0).toNat = x.e.subidx := by
      simp [encEntry, encLE, Nat.mod_eq_of_lt h2]
    have t3 : ((encEntry x ++ (encEntries xs ++ rest)).getD 5 0).toNat = x.e.bits := by
      simp [encEntry, encLE, Nat.mod_eq_of_lt h3]
    rw [t1, t2, t3, decLE_encLE 2 _ (by omega)]
    rfl

theorem pdoCatGo_enc (ps : List PdoRec) (hok : ∀ p ∈ ps, p.ok) (f : Nat) (hf : ps.length ≤ f) :
    pdoCatGo f (encPdos ps) = (entriesOf ps, true) := by
  induction ps generalizing f with
  | nil => cases f <;> simp [pdoCatGo, encPdos, entriesOf]
  | cons p ps ih =>
    obtain ⟨f, rfl⟩ : ∃ f', f = f' + 1 := ⟨f - 1, by simp at hf; omega⟩
    obtain ⟨hn, hx⟩ := hok p (by simp)
    have hl : (encPdo p ++ encPdos ps).length = 8 + ((encEntries p.entries).length + (encPdos ps).length) := by
      simp [encPdo]; omega
    have hl0 : ¬ (encPdo p ++ encPdos ps).length = 0 := by omega
    have hl8 : ¬ (encPdo p ++ encPdos ps).length < 8 := by omega
    have tn : ((encPdo p ++ encPdos ps).getD 2 0).toNat = p.entries.length := by
      simp [encPdo, encLE, Nat.mod_eq_of_lt hn]
    have td : (encPdo p ++ encPdos ps).drop 8 = encEntries p.entries ++ encPdos ps := by
      rw [encPdo, List.append_assoc, List.drop_left' (by simp)]
    show pdoCatGo (f + 1) (encPdo p ++ encPdos ps) = _
    rw [pdoCatGo]
    simp only [hl0, hl8, ↓reduceIte, tn, td, takeEntries_enc _ _ hx,
      ih (fun q hq => hok q (by simp [hq])) f (by simp at hf; omega)]
    simp [entriesOf]

theorem length_encPdos_ge (ps : List PdoRec) : ps.length ≤ (encPdos ps).length := by
  induction ps with
  | nil => simp
  | cons p ps ih => simp [encPdos, encPdo]; omega

/-- **pdo_eeprom_source_exact**: for every list of PDO records (any number of PDOs, 0..255 entries
each, any skipped bytes) the EEPROM source yields exactly the stored `(idx, subidx, bits)` triples
in order and raises nothing. -/
theorem pdo_eeprom_source_exact (ps : List PdoRec) (hok : ∀ p ∈ ps, p.ok) :
    pdoCat (encPdos ps) = (entriesOf ps, none) := by
  simp [pdoCat, pdoCatGo_enc ps hok _ (length_encPdos_ge ps)]

/-! ### the SDO source of `parse_pdos` (objects 0x1c12 / 0x1c13) -/

/-- one assigned PDO as the object dictionary describes it -/
structure PdoObj where
  pdo : Nat
  entries : List Entry
deriving Repr, DecidableEq

def encSdoEntry (e : Entry) : List UInt8 := [UInt8.ofNat e.bits, UInt8.ofNat e.subidx] ++ encLE 2 e.idx

/-- the object dictionary `od` describes the assignment `assign` at `index`: subindex 0 holds the
count, subindex i the 16-bit PDO index; each non-zero PDO object holds its entry count and
entries `(bits, subidx, idx)` -/
def Describes (od : OD) (index : Nat) (assign : List PdoObj) : Prop :=
  assign.length < 256 ∧
  dictGet od (index, 0) = some [UInt8.ofNat assign.length] ∧
  ∀ i a, assign[i]? = some a →
    a.pdo < 65536 ∧ dictGet od (index, i + 1) = some (encLE 2 a.pdo) ∧
    (a.pdo ≠ 0 →
      a.entries.length < 256 ∧
      dictGet od (a.pdo, 0) = some [UInt8.ofNat a.entries.length] ∧
      ∀ j e, a.entries[j]? = some e →
        e.idx < 65536 ∧ e.subidx < 256 ∧ e.bits < 256 ∧ dictGet od (a.pdo, j + 1) = some (encSdoEntry e))

def sdoEntriesOf (assign : List PdoObj) : List Entry :=
  assign.flatMap fun a => if a.pdo = 0 then [] else a.entries

theorem pdoEntries_spec (od : OD) (pdo : Nat) (l : List Entry) (j : Nat)
    (h : ∀ k e, l[k]? = some e →
      e.idx < 65536 ∧ e.subidx < 256 ∧ e.bits < 256 ∧ dictGet od (pdo, j + k) = some (encSdoEntry e)) :
    pdoEntries od pdo l.length j = (l, none) := by
  induction l generalizing j with
  | nil => rfl
  | cons e l ih =>
    obtain ⟨h1, h2, h3, hg⟩ := h 0 e (by simp)
    have hr : readBBH od pdo j = .ok e := by
      simp only [Nat.add_zero] at hg
      simp [readBBH, sdoGet, hg, encSdoEntry, encLE]
      have := decLE_encLE 2 e.idx (by omega)
      simp [encLE] at this
      cases e; simp_all [Nat.mod_eq_of_lt]
    simp only [List.length_cons, pdoEntries, hr]
    rw [ih (j + 1) (fun k e' hk => by
      have := h (k + 1) e' (by simpa using hk)
      rwa [show j + (k + 1) = j + 1 + k by omega] at this)]

theorem assignEntries_spec (od : OD) (index : Nat) (l : List PdoObj) (i : Nat)
    (h : ∀ k a, l[k]? = some a →
      a.pdo < 65536 ∧ dictGet od (index, i + k) = some (encLE 2 a.pdo) ∧
      (a.pdo ≠ 0 →
        a.entries.length < 256 ∧
        dictGet od (a.pdo, 0) = some [UInt8.ofNat a.entries.length] ∧
        ∀ j e, a.entries[j]? = some e →
          e.idx < 65536 ∧ e.subidx < 256 ∧ e.bits < 256 ∧ dictGet od (a.pdo, j + 1) = some (encSdoEntry e))) :
    assignEntries od index l.length i = (sdoEntriesOf l, none) := by
  induction l generalizing i with
  | nil => rfl
  | cons a l ih =>
    obtain ⟨h1, hg, hp⟩ := h 0 a (by simp)
    have ih' := ih (i + 1) (fun k a' hk => by
      have := h (k + 1) a' (by simpa using hk)
      rwa [show i + (k + 1) = i + 1 + k by omega] at this)
    have hr : readH od index i = .ok a.pdo := by
      simp only [Nat.add_zero] at hg
      have := decLE_encLE 2 a.pdo (by omega)
      simp [encLE] at this
      simp [readH, sdoGet, hg, encLE, this]
    simp only [List.length_cons, assignEntries, hr]
    by_cases h0 : a.pdo = 0
    · simp [h0, ih', sdoEntriesOf]
    · obtain ⟨hn, hc, he⟩ := hp h0
      have hb : readB od a.pdo 0 = .ok a.entries.length := by
        simp [readB, sdoGet, hc, Nat.mod_eq_of_lt hn]
      have hpe := pdoEntries_spec od a.pdo a.entries 1 (fun j e hj => by
        have := he j e hj
        rwa [show j + 1 = 1 + j by omega] at this)
      simp [h0, hb, hpe, ih', sdoEntriesOf]

/-- **pdo_sdo_source_exact**: for every assignment table (any number of assigned PDOs incl. empty
slots `0`, any entry lists) that the object dictionary describes, the SDO source yields exactly
the stored `(idx, subidx, bits)` triples of the non-zero PDOs in order and raises nothing. -/
theorem pdo_sdo_source_exact (od : OD) (index : Nat) (assign : List PdoObj) (h : Describes od index assign) :
    sdoEntries od index = (sdoEntriesOf assign, none) := by
  obtain ⟨hn, hc, ha⟩ := h
  have hb : readB od index 0 = .ok assign.length := by
    simp [readB, sdoGet, hc, Nat.mod_eq_of_lt hn]
  simp only [sdoEntries, hb]
  exact assignEntries_spec od index assign 1 (fun k a hk => by
    have := ha k a hk
    rwa [show k + 1 = 1 + k by omega] at this)

/-- `Aligned` as a program (so that concrete tables are checked by evaluation) -/
def alignedB : Nat → List Entry → Bool
  | _, [] => true
  | bp, e :: es =>
    (e.idx == 0 || decide (e.bits < 8) || ((fmtOf e.bits).isSome && bp % 8 == 0)) && alignedB (bp + e.bits) es

theorem aligned_iff (bp0 : Nat) (es : List Entry) : Aligned bp0 es ↔ alignedB bp0 es = true := by
  induction es generalizing bp0 with
  | nil => simp [alignedB, Aligned]
  | cons e es ih =>
    simp only [alignedB, Bool.and_eq_true, Bool.or_eq_true, beq_iff_eq, decide_eq_true_eq, ← ih]
    constructor
    · intro h
      refine ⟨?_, Aligned_cons h⟩
      by_cases h0 : e.idx = 0
      · exact Or.inl (Or.inl h0)
      · by_cases h8 : e.bits < 8
        · exact Or.inl (Or.inr h8)
        · have := h 0 e (by simp) h0 (by omega)
          exact Or.inr ⟨this.1, by simpa [bitsBefore] using this.2⟩
    · rintro ⟨hh, ha⟩ i e' hi h0 h8
      cases i with
      | zero =>
        simp at hi; subst hi
        rcases hh with (hh | hh) | hh
        · exact absurd hh h0
        · omega
        · simpa [bitsBefore] using hh
      | succ i =>
        have := ha i e' (by simpa using hi) h0 h8
        rw [bitsBefore_cons]
        exact ⟨this.1, by rw [← Nat.add_assoc]; exact this.2⟩

/-! ### `parse_pdos` as a whole, both sources -/

theorem parse_ok (sm : Nat) (es : List Entry) (m : PdoDict) (h : Aligned 0 es) :
    parse sm (es, none) m = (dictOfFrom m (mapped sm 0 es), .ok (bitsBefore es es.length)) := by
  simp [parse, pdo_exact sm es m h]

/-- **parse_pdos_eeprom_exact**: terminal without mailbox, RxPDO category 51 and TxPDO category 50
present with any PDO records whose entry lists are aligned: `pdos` is exactly the outputs mapped
with `SyncManager.OUT` followed by the inputs mapped with `SyncManager.IN`, and the returned pair
is the two bit totals. -/
theorem parse_pdos_eeprom_exact (od : OD) (eeprom : Cats) (pso psi : List PdoRec)
    (ho : dictGet eeprom catRxPdo = some (encPdos pso)) (hi : dictGet eeprom catTxPdo = some (encPdos psi))
    (hoko : ∀ p ∈ pso, p.ok) (hoki : ∀ p ∈ psi, p.ok)
    (hao : Aligned 0 (entriesOf pso)) (hai : Aligned 0 (entriesOf psi)) :
    parsePdos false od eeprom =
      (dictOfFrom (dictOfFrom [] (mapped sm_OUT 0 (entriesOf pso))) (mapped sm_IN 0 (entriesOf psi)),
       .ok (bitsBefore (entriesOf pso) (entriesOf pso).length, bitsBefore (entriesOf psi) (entriesOf psi).length)) := by
  simp [parsePdos, ho, hi, pdo_eeprom_source_exact pso hoko, pdo_eeprom_source_exact psi hoki,
    parse_ok _ _ _ hao, parse_ok _ _ _ hai]

/-- a missing category contributes nothing and 0 bits -/
theorem parse_pdos_eeprom_absent (od : OD) (eeprom : Cats)
    (ho : dictGet eeprom catRxPdo = none) (hi : dictGet eeprom catTxPdo = none) :
    parsePdos false od eeprom = ([], .ok (0, 0)) := by
  simp [parsePdos, ho, hi]

/-- **parse_pdos_sdo_exact**: terminal with mailbox whose object dictionary describes the
assignments at 0x1c12 / 0x1c13 with aligned entry lists. -/
theorem parse_pdos_sdo_exact (od : OD) (eeprom : Cats) (ao ai : List PdoObj)
    (ho : Describes od idxRxAssign ao) (hi : Describes od idxTxAssign ai)
    (hao : Aligned 0 (sdoEntriesOf ao)) (hai : Aligned 0 (sdoEntriesOf ai)) :
    parsePdos true od eeprom =
      (dictOfFrom (dictOfFrom [] (mapped sm_OUT 0 (sdoEntriesOf ao))) (mapped sm_IN 0 (sdoEntriesOf ai)),
       .ok (bitsBefore (sdoEntriesOf ao) (sdoEntriesOf ao).length,
            bitsBefore (sdoEntriesOf ai) (sdoEntriesOf ai).length)) := by
  simp [parsePdos, pdo_sdo_source_exact od _ _ ho, pdo_sdo_source_exact od _ _ hi,
    parse_ok _ _ _ hao, parse_ok _ _ _ hai]

/-! ### `apply_eeprom`: the pieces fit together -/

/-- **apply_eeprom_exact**: for every well-formed image whose sync-manager category 41 holds the
records `es`: the registers at 0x800 are loaded with exactly those bytes, the areas are those of
`sm_exact`, and the PDO layout is `parse_pdos` run on the decoded categories with the source
chosen by the decoded mailbox areas. -/
theorem apply_eeprom_exact (hdr : List UInt8) (cs : List Cat) (tail : List UInt8) (mode8 : Bool) (b : Bus) (od : OD)
    (es : List SMEntry) (hh : hdr.length = 2 * catStart) (hok : ∀ c ∈ cs, c.ok) (hes : ∀ e ∈ es, e.ok)
    (hsm : dictGet (dictOfFrom [] (cs.map fun c => (c.type, c.payload))) catSM = some (encSMs es)) :
    let a := applyEeprom ⟨mkImage hdr cs tail, mode8⟩ b od
    let cats := dictOfFrom [] (cs.map fun c => (c.type, c.payload))
    a.res.eeprom = some cats ∧ a.smWritten = some (encSMs es) ∧ a.sm = some (smSpec es, true) ∧
    a.pdos = (parsePdos (hasMailbox (smSpec es)) od cats).1 := by
  have hre := read_eeprom_exact hdr cs tail mode8 b hh hok
  simp only [applyEeprom, hre, hsm, sm_exact es hes]
  simp only [Bool.not_true, Bool.false_eq_true, ↓reduceIte]
  repeat' split
  all_goals simp [hre]

/-! ### non-vacuity: concrete inputs meet the hypotheses and exercise every branch -/

/-- an EL1008-like table: 8 bit inputs, padding, then a 16-bit and a 32-bit value -/
def exEntries : List Entry :=
  [⟨0x6000, 1, 1⟩, ⟨0x6010, 1, 1⟩, ⟨0, 0, 6⟩, ⟨0x6020, 1, 16⟩, ⟨0, 0, 8⟩, ⟨0x6030, 2, 32⟩, ⟨0x6040, 0, 3⟩]

example : Aligned 0 exEntries := (aligned_iff _ _).mpr (by decide)

example : parseGo 3 exEntries 0 [] =
    ([((0x6000, 1), (3, 0, .bit 0)), ((0x6010, 1), (3, 0, .bit 1)), ((0x6020, 1), (3, 1, .fmt 'H')),
      ((0x6030, 2), (3, 4, .fmt 'I')), ((0x6040, 0), (3, 8, .bit 0))], 67, none) := by decide
example : mapped 3 0 exEntries =
    [((0x6000, 1), (3, 0, .bit 0)), ((0x6010, 1), (3, 0, .bit 1)), ((0x6020, 1), (3, 1, .fmt 'H')),
      ((0x6030, 2), (3, 4, .fmt 'I')), ((0x6040, 0), (3, 8, .bit 0))] := by decide
-- a 16-bit entry at bit 1: RuntimeError; a 24-bit entry: KeyError
example : (parseGo 3 [⟨0x6000, 1, 1⟩, ⟨0x6010, 1, 16⟩] 0 []).2.2 = some .runtime := by decide
example : (parseGo 3 [⟨0x6000, 1, 24⟩] 0 []).2.2 = some .key := by decide

def exCats : List Cat := [⟨10, [1, 2]⟩, ⟨41, [0, 0x10, 0x80, 0, 0x26, 0, 1, 1, 0x80, 0x10, 0x80, 0, 0x22, 0, 1, 2]⟩,
  ⟨30, []⟩, ⟨50, [0, 0x1a, 1, 3, 0, 0, 0, 0, 0, 0x60, 1, 0, 0, 1, 0, 0]⟩, ⟨60, [9, 8, 7, 6, 5, 4]⟩]
example : ∀ c ∈ exCats, c.ok := by decide
example : (exCats.map (·.type)).Nodup := by decide

/-- a whole image read in 4-byte mode with a busy device: identity, categories (payloads of 1, 8,
0, 8 and 3 words cross the 8-byte read boundaries) -/
example :
    let img := mkImage ((List.range 128).map UInt8.ofNat) exCats [0xaa]
    let r := readEeprom ⟨img, false⟩ (Bus.init [⟨true, 0xffff, [1, 2, 3]⟩, ⟨false, 7, [9, 9, 9, 9, 9, 9, 9, 9]⟩, ⟨true, 0, []⟩])
    r.eeprom = some (exCats.map fun c => (c.type, c.payload)) ∧
    (r.vendorId, r.productCode, r.revisionNo, r.serialNo) = (0x13121110, 0x17161514, 0x1b1a1918, 0x1f1e1d1c) := by
  decide +kernel

example : parseSM [0, 0x10, 0x80, 0, 0x26, 0, 1, 1, 0x80, 0x10, 0x80, 0, 0x22, 0, 1, 2,
                   0, 0x11, 4, 0, 0x24, 0, 1, 3, 0x80, 0x11, 6, 0, 0x20, 0, 1, 4] =
    ({ mbx_out := some (0x1000, 0x80), mbx_in := some (0x1080, 0x80), pdo_out := some (0x1100, 4),
       pdo_in := some (0x1180, 6), pdo_in_addr := 0x818, pdo_out_addr := 0x810 }, true) := by decide

example : (⟨0x1000, 0x80, 0x26, 0, 1, 1⟩ : SMEntry).ok := by decide
-- the hypotheses of `apply_eeprom_exact` on `exCats`: category 41 holds two mailbox records
example : dictGet (dictOfFrom [] (exCats.map fun c => (c.type, c.payload))) catSM =
    some (encSMs [⟨0x1000, 0x80, 0x26, 0, 1, 1⟩, ⟨0x1080, 0x80, 0x22, 0, 1, 2⟩]) := by decide
example : hasMailbox (smSpec [⟨0x1000, 0x80, 0x26, 0, 1, 1⟩, ⟨0x1080, 0x80, 0x22, 0, 1, 2⟩]) = true := by decide

/-- the object dictionary of a terminal with one RxPDO (two entries) and an empty slot -/
def exOd : OD := [((0x1c12, 0), [2]), ((0x1c12, 1), [0, 0]), ((0x1c12, 2), [0x00, 0x16]),
  ((0x1600, 0), [2]), ((0x1600, 1), [16, 1, 0x00, 0x70]), ((0x1600, 2), [8, 2, 0x00, 0x70])]
example : sdoEntries exOd 0x1c12 = ([⟨0x7000, 1, 16⟩, ⟨0x7000, 2, 8⟩], none) := by decide
example : Describes exOd 0x1c12 [⟨0, []⟩, ⟨0x1600, [⟨0x7000, 1, 16⟩, ⟨0x7000, 2, 8⟩]⟩] := by
  refine ⟨by decide, by decide, ?_⟩
  intro i a hi
  have hlt : i < 2 := by
    rcases Nat.lt_or_ge i 2 with h | h
    · exact h
    · rw [List.getElem?_eq_none (by simpa using h)] at hi; cases hi
  have : i = 0 ∨ i = 1 := by omega
  rcases this with rfl | rfl
  · simp at hi; subst hi; exact ⟨by decide, by decide, fun h => absurd rfl h⟩
  · simp at hi; subst hi
    refine ⟨by decide, by decide, fun _ => ⟨by decide, by decide, ?_⟩⟩
    intro j e hj
    have hlt : j < 2 := by
      rcases Nat.lt_or_ge j 2 with h | h
      · exact h
      · rw [List.getElem?_eq_none (by simpa using h)] at hj; cases hj
    have : j = 0 ∨ j = 1 := by omega
    rcases this with rfl | rfl <;> simp at hj <;> subst hj <;> decide

end Ebv.C17
