import Ebv.Props.C02
import Ebv.Model.FixedStore
/-! # C02 over histories — "a decimal assigned from Python is represented exactly", whatever happened before

The single-shot statement is `C02_py_roundtrip`.  Here the same clause for a *later* use: after any history of
assignments from Python, runs of the eBPF programs and reads, on any number of program instances, the assignment of
the decimal `n/10^5` leaves exactly `n` in the variable (`set_exact_after_history`), the result does not depend on
the history at all (`set_history_irrelevant`), nothing else changes (`set_frame`), a variable holds what was written
last (`last_set_wins`, `untouched_keeps`), and instances do not influence each other (`instances_independent`).
`memo_refuted`: the variant that remembers the value last assigned and skips the write breaks the first statement. -/
namespace Ebv.C02
open Ebv.F64 Ebv.FixedStore

theorem upd_same (s : Store) (i v : Nat) (x : Int) : upd s i v x i v = x := by simp [upd]

theorem upd_other (s : Store) (i v j w : Nat) (x : Int) (h : ¬(j = i ∧ w = v)) : upd s i v x j w = s j w := by
  simp [upd, h]

theorem run_append (s : Store) (h₁ h₂ : List Op) : run s (h₁ ++ h₂) = run (run s h₁) h₂ := by
  simp [run, List.foldl_append]

theorem run_cons (s : Store) (op : Op) (h : List Op) : run s (op :: h) = run (step s op) h := rfl

/-- **the result of an assignment does not depend on earlier uses**: whatever the histories and the initial contents -/
theorem set_history_irrelevant (h₁ h₂ : List Op) (s₁ s₂ : Store) (i v : Nat) (n : Int) :
    run s₁ (h₁ ++ [.set i v n]) i v = run s₂ (h₂ ++ [.set i v n]) i v := by
  simp [run, step, upd_same]

/-- **exactness after any history**: the decimal `n/10^5`, `|n| < 2^51`, assigned from Python after an arbitrary history
is stored as exactly `n`, and Python reads back the double nearest to `n/10^5` — the float the user wrote -/
theorem set_exact_after_history (h : List Op) (s : Store) (i v : Nat) (n : Int) (hn : n.natAbs < 2 ^ 51) :
    run s (h ++ [.set i v n]) i v = n ∧ read (run s (h ++ [.set i v n])) i v = roundToDouble (mkRat n B) := by
  have h1 : run s (h ++ [.set i v n]) i v = n := by
    simp [run, step, upd_same, C02_const n hn]
  exact ⟨h1, by show pyGet _ = _; rw [h1]; rfl⟩

/-- an assignment changes no other variable of any instance -/
theorem set_frame (s : Store) (i v j w : Nat) (n : Int) (h : ¬(j = i ∧ w = v)) :
    step s (.set i v n) j w = s j w := upd_other s i v j w _ h

theorem writes_other (ws : List (Nat × Int)) (s : Store) (i j w : Nat)
    (h : ¬(j = i ∧ ws.any (·.1 == w) = true)) : writes s i ws j w = s j w := by
  induction ws generalizing s with
  | nil => rfl
  | cons p ws ih =>
    obtain ⟨v, x⟩ := p
    simp only [writes]
    rw [ih]
    · apply upd_other
      intro hh; apply h; simp [hh.1, hh.2]
    · intro hh; apply h; refine ⟨hh.1, ?_⟩
      simp only [List.any_cons, hh.2, Bool.or_true]

theorem step_untouched (s : Store) (op : Op) (i v : Nat) (h : op.touches i v = false) : step s op i v = s i v := by
  cases op with
  | set j w n =>
    apply upd_other
    intro hh; simp [Op.touches, hh.1, hh.2] at h
  | write j ws =>
    apply writes_other
    intro hh; simp only [Op.touches, hh.1, hh.2, beq_self_eq_true, Bool.and_self] at h
    exact absurd h (by simp)
  | get j w => rfl

/-- operations that do not write a variable leave it alone -/
theorem untouched_keeps (h : List Op) (s : Store) (i v : Nat) (hu : ∀ op ∈ h, op.touches i v = false) :
    run s h i v = s i v := by
  induction h generalizing s with
  | nil => rfl
  | cons op h ih =>
    rw [run_cons, ih _ (fun o ho => hu o (List.mem_cons_of_mem _ ho))]
    exact step_untouched s op i v (hu op List.mem_cons_self)

/-- **a variable holds the decimal assigned last**: any history before, only operations that do not write it after -/
theorem last_set_wins (h₁ h₂ : List Op) (s : Store) (i v : Nat) (n : Int) (hn : n.natAbs < 2 ^ 51)
    (hu : ∀ op ∈ h₂, op.touches i v = false) :
    run s (h₁ ++ .set i v n :: h₂) i v = n ∧
      read (run s (h₁ ++ .set i v n :: h₂)) i v = roundToDouble (mkRat n B) := by
  have h1 : run s (h₁ ++ .set i v n :: h₂) i v = n := by
    rw [run_append, run_cons, untouched_keeps h₂ _ i v hu]
    simp [step, upd_same, C02_const n hn]
  exact ⟨h1, by show pyGet _ = _; rw [h1]; rfl⟩

theorem touches_inst (op : Op) (i v : Nat) (h : op.inst ≠ i) : op.touches i v = false := by
  cases op <;> simp_all [Op.touches, Op.inst]

theorem step_congr_inst (s t : Store) (op : Op) (i : Nat) (h : s i = t i) (ho : op.inst = i) :
    step s op i = step t op i := by
  subst ho
  cases op with
  | set j w n => funext w'; simp [step, upd, Op.inst] at *; split <;> simp [h]
  | write j ws =>
    simp only [Op.inst] at h
    simp only [step, Op.inst]
    induction ws generalizing s t with
    | nil => exact h
    | cons p ws ih =>
      obtain ⟨v, x⟩ := p
      simp only [writes]
      apply ih
      funext w'; simp only [upd, true_and]; split
      · rfl
      · exact congrFun h w'
  | get j w => exact h

/-- **instances are independent**: the variables of instance `i` after a history are those after the operations on
instance `i` alone -/
theorem instances_independent (h : List Op) (s : Store) (i : Nat) :
    run s h i = run s (h.filter (·.inst == i)) i := by
  suffices ∀ (s t : Store), s i = t i → run s h i = run t (h.filter (·.inst == i)) i from this s s rfl
  induction h with
  | nil => intro s t hst; exact hst
  | cons op h ih =>
    intro s t hst
    by_cases ho : op.inst = i
    · have : (op :: h).filter (·.inst == i) = op :: h.filter (·.inst == i) := by
        rw [List.filter_cons, if_pos (by simpa using ho)]
      rw [this, run_cons, run_cons]
      exact ih _ _ (step_congr_inst s t op i hst ho)
    · have : (op :: h).filter (·.inst == i) = h.filter (·.inst == i) := by
        rw [List.filter_cons, if_neg (by simpa using ho)]
      rw [this, run_cons]
      apply ih
      rw [← hst]
      funext w
      exact step_untouched s op i w (touches_inst op i w ho)

/-- a history on other instances changes nothing here -/
theorem other_instances_keep (h : List Op) (s : Store) (i : Nat) (ho : ∀ op ∈ h, op.inst ≠ i) : run s h i = s i := by
  funext w
  exact untouched_keeps h s i w (fun op hop => touches_inst op i w (ho op hop))

/-- **why there must be no memo of the value assigned last**: assign 1.5, the program makes it 2.5, assign 1.5 again —
the remembering variant leaves 2.5 in the variable -/
theorem memo_refuted :
    (runMemo (fun _ _ => 0, fun _ _ => none) [.set 0 0 150000, .write 0 [(0, 250000)], .set 0 0 150000]).1 0 0 = 250000 ∧
    run (fun _ _ => 0) [.set 0 0 150000, .write 0 [(0, 250000)], .set 0 0 150000] 0 0 = 150000 := by
  decide +kernel

/-! non-vacuity: a history over two instances, negative and "below" decimals -/
example : run (fun _ _ => 7) [.set 1 0 29000, .write 1 [(0, 5), (2, 9)], .get 1 0, .set 0 0 (-29000), .set 1 0 29000] 1 0
    = 29000 := by decide +kernel
example : ((29000 : Int).natAbs < 2 ^ 51) := by decide

end Ebv.C02
