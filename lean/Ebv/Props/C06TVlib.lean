import Ebv.Props.C06TVmem
import Ebv.Lemmas.XdpSeg
import Ebv.Generated.ProgramsXadd
/-! C06 translation validation, library: the statement's amount as the oracle of c06.py computes it, where the variable
lives in an invocation (`Place`, `Lay`), and what is proved about every member of the regenerated family
`Programs.xaddTable` (`Spec`): the program is `pre ++ [XADD] ++ post`; `pre` neither writes nor reads the variable and
leaves the variable's address and the amount in the XADD's registers; `post` neither writes nor reads it. -/
namespace Ebv.C06TV
open Ebv.Ebpf Ebv.XdpRun Ebv.Programs

/-- the operand of the statement: constant / register / `register * mul + const` -/
def operand (t : XaddProg) (r : Int) : Int :=
  if t.kind = 0 then t.const else if t.kind = 1 then r else r * t.mul + t.const

/-- the amount of the statement as an integer: the operand, negated for `-=`, scaled for the fixed-point format -/
def amountZ (t : XaddProg) (r : Int) : Int := (if t.neg then -operand t r else operand t r) * t.scale

/-- ... which is `amount_of` in harness/vh/props/c06.py: `sign * (operand * scale)` -/
theorem amountZ_oracle (t : XaddProg) (r : Int) :
    amountZ t r = (if t.neg then -1 else 1) * (operand t r * t.scale) := by
  unfold amountZ
  split
  · rw [Int.neg_mul, Int.neg_one_mul]
  · rw [Int.one_mul]

/-- the amount reduced to the variable's width: what `Xadd.Thread.amount` holds.  It is a function of the instance's
private register alone. -/
def amount (t : XaddProg) (priv : W) : Nat := (amountZ t (priv.toNat : Int) % ((2 ^ (8 * t.n) : Nat) : Int)).toNat

/-- the instructions before / after the atomic add -/
def pre (t : XaddProg) : List Insn := t.prog.take t.xpos
def post (t : XaddProg) : List Insn := t.prog.drop (t.xpos + 1)
/-- the atomic add the table announces -/
def xinsn (t : XaddProg) : Insn := ⟨xaddOp t.n, t.xdst, t.xsrc, t.xoff, 0⟩

/-- where things lie in one invocation: r10, the address of the map value, the variable's offset in it -/
structure Place where
  stk : Nat
  mp : Nat
  voff : Nat

/-- the variable's address: `voff` below r10 (local) or at offset `voff` of the map value -/
def varAddr (t : XaddProg) (g : Place) : Nat := if t.loc then g.stk - t.voff else g.mp + g.voff

/-- what an invocation starts from.  Registers other than r10 (and r1 for `m[base + register]`, which the prologue
moves to r6) and ALL of memory are arbitrary.  Map programs: the lookup of element 0 of the program's map yields the
non-null address `mp` of a `size`-byte value that does not overlap the stack; the variable lies inside it and does not
overlap the neighbouring variable the rest of the program writes. -/
structure Lay (t : XaddProg) (e : Env) (g : Place) (R : Nat → W) : Prop where
  r10 : R 10 = BitVec.ofNat 64 g.stk
  stk_lo : 512 ≤ g.stk
  stk_hi : g.stk < 2 ^ 64
  look : t.loc = false → e.lookup (e.handle t.fd) 0 = BitVec.ofNat 64 g.mp
  mp_lo : t.loc = false → 0 < g.mp
  mp_hi : t.loc = false → g.mp + t.size ≤ 2 ^ 64
  disj : t.loc = false → (g.mp + t.size ≤ g.stk - 512 ∨ g.stk ≤ g.mp)
  var_in : t.loc = false → g.voff + t.n ≤ t.size
  var_other : t.loc = false → (g.voff + t.n ≤ t.other ∨ t.other + 4 ≤ g.voff)
  decl : t.addr ≠ 2 → g.voff = t.voff
  comp : t.addr = 2 → R 1 = BitVec.ofNat 64 g.voff

/-- **shape of one compiled statement** (parts a, b, c of the translation validation).  For every invocation there are
the variable lies inside the address space and there are
functions `Rf`, `Mf` (registers and memory when the XADD is reached, as functions of the initial memory) and `Pf`
(memory at exit as a function of the memory after the XADD) such that
* (a) `pre`, whatever follows it, runs from ANY memory `M` to the XADD's position in `steps` instructions;
  the variable's bytes are unchanged; memory off the variable does not depend on the variable's bytes, and (helpers not
  looking at the variable) neither do the registers;
* (b) there the XADD's address register + offset is exactly the variable's address and its source register holds the
  statement's amount modulo the variable's width, a function of the private register alone;
* (c) from the instruction after the XADD, with ANY memory, the program exits with 0; the variable's bytes are
  unchanged and the final memory off the variable does not depend on them. -/
def Spec (t : XaddProg) : Prop :=
  ∀ (e : Env) (g : Place) (R : Nat → W), Lay t e g R →
  varAddr t g + t.n ≤ 2 ^ 64 ∧
  ∃ (Rf : Mem → Nat → W) (Mf Pf : Mem → Mem),
    (∀ rest M, Steps e (pre t ++ rest) t.steps ⟨R, M, 0⟩ ⟨Rf M, Mf M, t.xpos⟩) ∧
    (∀ M, SameOn (varAddr t g) t.n M (Mf M)) ∧
    (∀ M M2, EqOff (varAddr t g) t.n M M2 → EqOff (varAddr t g) t.n (Mf M) (Mf M2)) ∧
    (∀ M M2, EqOff (varAddr t g) t.n M M2 → Private e (varAddr t g) t.n → Rf M = Rf M2) ∧
    (∀ M, Rf M t.xdst + BitVec.ofInt 64 t.xoff = BitVec.ofNat 64 (varAddr t g)) ∧
    (∀ M, (Rf M t.xsrc).toNat % 2 ^ (8 * t.n) = amount t (R t.areg)) ∧
    (∀ M M', ∃ R'' pc'', ∀ f, runXdp e t.prog (f + 8) ⟨Rf M, M', t.xpos + 1⟩ = .exit 0 ⟨R'', Pf M', pc''⟩) ∧
    (∀ M', SameOn (varAddr t g) t.n M' (Pf M')) ∧
    (∀ M' M2, EqOff (varAddr t g) t.n M' M2 → EqOff (varAddr t g) t.n (Pf M') (Pf M2))

/-- the text of the program: it IS `pre ++ [XADD of the variable's width] ++ post`, that XADD is the only atomic add,
and there is no load instruction at all (classes LD/LDX) — so the XADD is the only instruction that can read memory
besides the helper's read of its key -/
def Syntax (t : XaddProg) : Prop :=
  t.prog = pre t ++ xinsn t :: post t ∧ (t.n = 4 ∨ t.n = 8) ∧
  (∀ i ∈ pre t ++ post t, i.op ≠ 195 ∧ i.op ≠ 219 ∧ (i.op % 8 = 1 → False) ∧ (i.op % 8 = 0 → i.op = 24 ∨ i.op = 0))

/-! ### value lemmas: the source register against the integer amount -/

theorem amt_of_ofInt (k : Nat) (x : W) (z : Int) (h : BitVec.setWidth k x = BitVec.ofInt k z) :
    x.toNat % 2 ^ k = (z % ((2 ^ k : Nat) : Int)).toNat := by
  have h1 : x.toNat % 2 ^ k = (BitVec.setWidth k x).toNat := by simp
  rw [h1, h, BitVec.toNat_ofInt]
theorem tr_add (x y : W) : BitVec.setWidth 32 (x + y) = BitVec.setWidth 32 x + BitVec.setWidth 32 y :=
  BitVec.setWidth_add x y (by omega)
theorem tr_mul (x y : W) : BitVec.setWidth 32 (x * y) = BitVec.setWidth 32 x * BitVec.setWidth 32 y :=
  BitVec.setWidth_mul x y (by omega)
theorem tr_neg (x : W) : BitVec.setWidth 32 (-x) = -BitVec.setWidth 32 x := BitVec.setWidth_neg_of_le (by omega)
theorem tr_zext (y : BitVec 32) : BitVec.setWidth 32 (BitVec.setWidth 64 y) = y := by
  apply BitVec.eq_of_toNat_eq; simp
theorem ofInt_toNat (k : Nat) (x : W) : BitVec.ofInt k (x.toNat : Int) = BitVec.setWidth k x := by
  rw [BitVec.ofInt_natCast, BitVec.ofNat_toNat]

/-! ### the pseudo map load without looking behind the end of `pre` -/
theorem pseudo_def (prog : List Insn) (pc : Nat) : pseudo prog pc = pseudoOf (fetch prog pc) (fetch prog (pc + 1)) :=
  nonrfl rfl
theorem pseudoOf_op (op d s : Nat) (o v : Int) (j : Option Insn) (h : op ≠ 24) :
    pseudoOf (some ⟨op, d, s, o, v⟩) j = none := pseudoOf_other _ _ h
theorem pseudoOf_ld (d : Nat) (o v : Int) : pseudoOf (some ⟨24, d, 1, o, v⟩) (some ⟨0, 0, 0, 0, 0⟩) = some (d, v) := by
  simp [pseudoOf]

instance (t : XaddProg) : Decidable (Syntax t) := by unfold Syntax; infer_instance

/-! ### lifting the entries to the table -/
theorem all_nil {α : Type} {P : α → Prop} : ∀ t ∈ ([] : List α), P t := by intro t ht; cases ht
theorem all_cons {α : Type} {P : α → Prop} {a : α} {l : List α} (h : P a) (hl : ∀ t ∈ l, P t) :
    ∀ t ∈ a :: l, P t := by
  intro t ht
  rcases List.mem_cons.mp ht with rfl | h'
  · exact h
  · exact hl t h'
theorem all_append {α : Type} {P : α → Prop} {l1 l2 : List α} (h1 : ∀ t ∈ l1, P t) (h2 : ∀ t ∈ l2, P t) :
    ∀ t ∈ l1 ++ l2, P t := by
  intro t ht
  rcases List.mem_append.mp ht with h | h
  · exact h1 t h
  · exact h2 t h

end Ebv.C06TV
