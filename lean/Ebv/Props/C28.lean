import Ebv.Model.Serial
/-! C28 — serial channels transfer bytes exactly once, in order. -/
namespace Ebv.C28
open Ebv.Serial Ebv.Consts

theorem readMax_le_cap : readMax ≤ cap := by decide
theorem cap_lt : cap < 256 := by decide

theorem unpack_pack (c : Bytes) : unpack (pack c) = c.take cap := by
  have h : (c.take cap).length ≤ cap := by simp [List.length_take]; omega
  have h2 : (UInt8.ofNat (c.take cap).length).toNat = (c.take cap).length := by
    have := cap_lt
    simp [UInt8.toNat_ofNat']
    omega
  simp only [pack, unpack, h2]
  rw [Nat.min_eq_left h]
  simp

/-! ### what is invariant at the end of every cycle -/

structure Inv (s : Sys) : Prop where
  tr_eq : s.o.tr = s.m.ltr
  ra_eq : s.o.ra = s.m.lra
  pre : s.m.connected = false → s.t.phase = .idle ∧ s.m.cur = none
  post : s.m.connected = true →
    s.t.phase ≠ .idle ∧ s.o.ir = false ∧ s.m.lta = s.t.tx.ta ∧ s.m.lrr = s.t.rx.rr
  ack : s.t.phase = .acking → s.m.cur = none
  tx : s.t.phase = .ready →
    s.m.cur.isSome = (s.t.tx.seenTR != s.o.tr) ∧ (s.m.cur = none → s.t.tx.wait = none)
  rx : s.t.phase = .ready → s.t.rx.outstanding = (s.t.rx.seenRA != s.o.ra)
  held : ∀ c, s.m.cur = some c → s.o.outStr = pack c ∧ c ≠ [] ∧ c.length ≤ readMax

theorem txStep_spec (t : TermTx) (tr : Bool) (outStr : Bytes) (cur : Option Bytes)
    (h1 : cur.isSome = (t.seenTR != tr)) (h2 : cur = none → t.wait = none) :
    ((txStep t tr outStr).2 = none ∧ (txStep t tr outStr).1.ta = t.ta ∧
      (txStep t tr outStr).1.seenTR = t.seenTR ∧ (cur = none → (txStep t tr outStr).1.wait = none)) ∨
    ((txStep t tr outStr).2 = some (unpack outStr) ∧ cur.isSome = true ∧ (txStep t tr outStr).1.ta = (!t.ta) ∧
      (txStep t tr outStr).1.seenTR = tr ∧ (txStep t tr outStr).1.wait = none) := by
  unfold txStep txNotice
  cases cur <;> cases hw : t.wait <;> cases hd : t.delays <;> cases hs : t.seenTR <;> cases tr <;>
    simp_all <;> (split <;> simp_all)

theorem rxStep_spec (t : TermRx) (ra : Bool) (h : t.outstanding = (t.seenRA != ra)) :
    ((rxStep t ra).2 = none ∧ (rxStep t ra).1.rr = t.rr ∧ (rxStep t ra).1.inStr = t.inStr ∧
      (rxStep t ra).1.outstanding = false ∧ (rxStep t ra).1.seenRA = ra) ∨
    (∃ c, (rxStep t ra).2 = some (c.take cap) ∧ (rxStep t ra).1.rr = (!t.rr) ∧ (rxStep t ra).1.inStr = pack c ∧
      (rxStep t ra).1.outstanding = true ∧ (rxStep t ra).1.seenRA = ra) := by
  unfold rxStep rxAck
  cases ho : t.outstanding <;> cases hs : t.seenRA <;> cases ra <;> simp_all <;>
    (split <;> simp_all) <;> exact ⟨_, rfl, rfl⟩

/-! ### the pieces of `update` touch disjoint attributes -/

section pieces
variable (m : Master) (i : Inp) (o : Out)

@[simp] theorem recv_cur : (recv m i o).1.cur = m.cur := by unfold recv; split <;> rfl
@[simp] theorem recv_lta : (recv m i o).1.lta = m.lta := by unfold recv; split <;> rfl
@[simp] theorem recv_ltr : (recv m i o).1.ltr = m.ltr := by unfold recv; split <;> rfl
@[simp] theorem recv_outPipe : (recv m i o).1.outPipe = m.outPipe := by unfold recv; split <;> rfl
@[simp] theorem recv_connected : (recv m i o).1.connected = m.connected := by unfold recv; split <;> rfl
@[simp] theorem recv_lrr : (recv m i o).1.lrr = i.rr := by unfold recv; split <;> rfl
@[simp] theorem recv_tr : (recv m i o).2.1.tr = o.tr := by unfold recv; split <;> rfl
@[simp] theorem recv_ir : (recv m i o).2.1.ir = o.ir := by unfold recv; split <;> rfl
@[simp] theorem recv_outStr : (recv m i o).2.1.outStr = o.outStr := by unfold recv; split <;> rfl
theorem recv_lra : (recv m i o).1.lra = if m.lrr != i.rr then !m.lra else m.lra := by
  unfold recv; split <;> rfl
theorem recv_ra : (recv m i o).2.1.ra = if m.lrr != i.rr then !m.lra else o.ra := by
  unfold recv; split <;> rfl
theorem recv_deliv : (recv m i o).2.2 = if m.lrr != i.rr then unpack i.inStr else [] := by
  unfold recv; split <;> rfl

@[simp] theorem accept_lra : (accept m i).lra = m.lra := by unfold accept; split <;> rfl
@[simp] theorem accept_lrr : (accept m i).lrr = m.lrr := by unfold accept; split <;> rfl
@[simp] theorem accept_ltr : (accept m i).ltr = m.ltr := by unfold accept; split <;> rfl
@[simp] theorem accept_outPipe : (accept m i).outPipe = m.outPipe := by unfold accept; split <;> rfl
@[simp] theorem accept_connected : (accept m i).connected = m.connected := by unfold accept; split <;> rfl
@[simp] theorem accept_lta : (accept m i).lta = i.ta := by
  unfold accept; split
  · rfl
  · simp_all
theorem accept_cur : (accept m i).cur = if m.lta != i.ta then none else m.cur := by
  unfold accept; split <;> rfl

@[simp] theorem readPipe_lra : (readPipe m).1.lra = m.lra := by unfold readPipe; split <;> (try split) <;> rfl
@[simp] theorem readPipe_lrr : (readPipe m).1.lrr = m.lrr := by unfold readPipe; split <;> (try split) <;> rfl
@[simp] theorem readPipe_lta : (readPipe m).1.lta = m.lta := by unfold readPipe; split <;> (try split) <;> rfl
@[simp] theorem readPipe_connected : (readPipe m).1.connected = m.connected := by
  unfold readPipe; split <;> (try split) <;> rfl

@[simp] theorem present_ra : (present m o).ra = o.ra := by unfold present; split <;> rfl
@[simp] theorem present_ir : (present m o).ir = o.ir := by unfold present; split <;> rfl
@[simp] theorem present_tr : (present m o).tr = m.ltr := by unfold present; split <;> rfl
theorem present_outStr : (present m o).outStr = match m.cur with | some c => pack c | none => o.outStr := by
  unfold present; split <;> simp_all

/-- the three ways the transmit half of `update` can go -/
theorem readPipe_cases :
    (∃ c, m.cur = some c ∧ readPipe m = (m, none)) ∨
    (m.cur = none ∧ m.outPipe.take readMax = [] ∧ readPipe m = (m, none)) ∨
    (m.cur = none ∧ m.outPipe.take readMax ≠ [] ∧
      readPipe m = ({ m with cur := some (m.outPipe.take readMax), ltr := !m.ltr,
                             outPipe := m.outPipe.drop readMax }, some (m.outPipe.take readMax))) := by
  unfold readPipe
  cases h : m.cur with
  | some c => exact Or.inl ⟨c, rfl, rfl⟩
  | none =>
    by_cases h2 : m.outPipe.take readMax = []
    · exact Or.inr (Or.inl ⟨rfl, h2, by simp [h2]⟩)
    · exact Or.inr (Or.inr ⟨rfl, h2, by simp [h2]⟩)

end pieces

/-- `update` on a connected device: the receive half and the three ways of the transmit half -/
theorem update_conn_spec (m : Master) (i : Inp) (o : Out) (hc : m.connected = true) :
    (update m i o).1.connected = true ∧ (update m i o).1.lrr = i.rr ∧ (update m i o).1.lta = i.ta ∧
    (update m i o).2.1.ir = false ∧ (update m i o).2.1.tr = (update m i o).1.ltr ∧
    (update m i o).1.lra = (if m.lrr != i.rr then !m.lra else m.lra) ∧
    (update m i o).2.1.ra = (if m.lrr != i.rr then !m.lra else o.ra) ∧
    (update m i o).2.2.1 = (if m.lrr != i.rr then unpack i.inStr else []) ∧
    ((∃ c, (if m.lta != i.ta then none else m.cur) = some c ∧ (update m i o).1.cur = some c ∧
        (update m i o).1.ltr = m.ltr ∧ (update m i o).1.outPipe = m.outPipe ∧ (update m i o).2.2.2 = none ∧
        (update m i o).2.1.outStr = pack c) ∨
     ((if m.lta != i.ta then none else m.cur) = none ∧ m.outPipe.take readMax = [] ∧ (update m i o).1.cur = none ∧
        (update m i o).1.ltr = m.ltr ∧ (update m i o).1.outPipe = m.outPipe ∧ (update m i o).2.2.2 = none ∧
        (update m i o).2.1.outStr = o.outStr) ∨
     ((if m.lta != i.ta then none else m.cur) = none ∧ m.outPipe.take readMax ≠ [] ∧
        (update m i o).1.cur = some (m.outPipe.take readMax) ∧
        (update m i o).1.ltr = (!m.ltr) ∧ (update m i o).1.outPipe = m.outPipe.drop readMax ∧
        (update m i o).2.2.2 = some (m.outPipe.take readMax) ∧
        (update m i o).2.1.outStr = pack (m.outPipe.take readMax))) := by
  have hu : update m i o =
      ((readPipe (accept (recv m i { o with ir := false }).1 i)).1,
       present (readPipe (accept (recv m i { o with ir := false }).1 i)).1 (recv m i { o with ir := false }).2.1,
       (recv m i { o with ir := false }).2.2, (readPipe (accept (recv m i { o with ir := false }).1 i)).2) := by
    simp [update, hc]
  rw [hu]
  refine ⟨by simp [hc], by simp, by simp, by simp, by simp, by simp [recv_lra], by simp [recv_ra], by simp [recv_deliv], ?_⟩
  have e1 : (accept (recv m i { o with ir := false }).1 i).cur = (if m.lta != i.ta then none else m.cur) := by
    rw [accept_cur, recv_cur, recv_lta]
  have e2 : (accept (recv m i { o with ir := false }).1 i).ltr = m.ltr := by simp
  have e3 : (accept (recv m i { o with ir := false }).1 i).outPipe = m.outPipe := by simp
  have e4 : (recv m i { o with ir := false }).2.1.outStr = o.outStr := by simp
  generalize accept (recv m i { o with ir := false }).1 i = A at *
  generalize (if m.lta != i.ta then none else m.cur) = q at *
  generalize (recv m i { o with ir := false }).2.1 = o' at *
  rcases readPipe_cases A with ⟨c, h1, h2⟩ | ⟨h1, h2, h3⟩ | ⟨h1, h2, h3⟩
  · refine Or.inl ⟨c, ?_⟩
    rw [h2]
    simp [← e1, ← e2, ← e3, h1, present_outStr]
  · refine Or.inr (Or.inl ?_)
    rw [h3]
    simp [← e1, ← e2, ← e3, ← e4, h1, h2, present_outStr]
  · refine Or.inr (Or.inr ?_)
    rw [h3]
    simp [← e1, ← e2, ← e3, h1, h2, present_outStr]

/-! ### one cycle -/

/-- what one cycle does, in terms of what can be observed and of `current_transmit` -/
structure StepSpec (s : Sys) (w : Bytes) (s' : Sys) (ob : Obs) : Prop where
  out_eq : ob.out = s'.o
  pend_eq : ob.pending = s'.m.cur
  unread_eq : ob.unread = s'.m.outPipe.length
  acc : ob.accepted = none ∨ (ob.accepted = s.m.cur ∧ ob.accepted.isSome = true)
  cur' : s'.m.cur = match ob.readChunk with
                    | some c => some c
                    | none => if ob.accepted.isSome then none else s.m.cur
  rd_free : ob.readChunk.isSome = true → ob.accepted.isSome = true ∨ s.m.cur = none
  pipe : s.m.outPipe ++ w = ob.readChunk.getD [] ++ s'.m.outPipe
  rd_ne : ∀ c, ob.readChunk = some c → c ≠ [] ∧ c.length ≤ cap ∧ c = (s.m.outPipe ++ w).take readMax
  tr_tog : (s'.o.tr != s.o.tr) = ob.readChunk.isSome
  ra_tog : (s'.o.ra != s.o.ra) = ob.announced.isSome
  deliv : ob.delivered = (if ob.inp.ia then [initByte] else []) ++ ob.announced.getD []
  ia_conn : ob.inp.ia = (!s.m.connected && s'.m.connected)
  conn_mono : s.m.connected = true → s'.m.connected = true
  ann_conn : ob.announced.isSome = true → s.m.connected = true

theorem cycle_spec_pre (s : Sys) (w : Bytes) (h : Inv s) (hc : s.m.connected = false) :
    Inv (cycle s w).1 ∧ StepSpec s w (cycle s w).1 (cycle s w).2 := by
  obtain ⟨hph, hcur⟩ := h.pre hc
  have h1 := h.tr_eq
  have h2 := h.ra_eq
  cases hir : s.o.ir
  · refine ⟨?_, ?_⟩ <;> constructor <;> simp [cycle, Term.step, update, Term.inp, hph, hc, hcur, hir, h1, h2]
  · by_cases hw : s.t.initWait = 0
    · refine ⟨?_, ?_⟩ <;> constructor <;> simp [cycle, Term.step, update, Term.inp, hph, hc, hcur, hir, hw, h1, h2]
    · refine ⟨?_, ?_⟩ <;> constructor <;> simp [cycle, Term.step, update, Term.inp, hph, hc, hcur, hir, hw, h1, h2]

/-- the terminal after it saw init_request cleared -/
def readyTerm (t : Term) (o : Out) : Term :=
  { t with
    phase := .ready
    tx := { t.tx with seenTR := o.tr, wait := none }
    rx := { t.rx with seenRA := o.ra, outstanding := false } }

/-- invariant and step specification as one conjunction (so that one simplifier call sees all of it) -/
theorem both_of_conj {s : Sys} {w : Bytes} {s' : Sys} {ob : Obs}
    (h : (s'.o.tr = s'.m.ltr ∧ s'.o.ra = s'.m.lra ∧
          (s'.m.connected = false → s'.t.phase = .idle ∧ s'.m.cur = none) ∧
          (s'.m.connected = true →
            s'.t.phase ≠ .idle ∧ s'.o.ir = false ∧ s'.m.lta = s'.t.tx.ta ∧ s'.m.lrr = s'.t.rx.rr) ∧
          (s'.t.phase = .acking → s'.m.cur = none) ∧
          (s'.t.phase = .ready →
            s'.m.cur.isSome = (s'.t.tx.seenTR != s'.o.tr) ∧ (s'.m.cur = none → s'.t.tx.wait = none)) ∧
          (s'.t.phase = .ready → s'.t.rx.outstanding = (s'.t.rx.seenRA != s'.o.ra)) ∧
          (∀ c, s'.m.cur = some c → s'.o.outStr = pack c ∧ c ≠ [] ∧ c.length ≤ readMax)) ∧
         (ob.out = s'.o ∧ ob.pending = s'.m.cur ∧ ob.unread = s'.m.outPipe.length ∧
          (ob.accepted = none ∨ (ob.accepted = s.m.cur ∧ ob.accepted.isSome = true)) ∧
          (s'.m.cur = match ob.readChunk with
                      | some c => some c
                      | none => if ob.accepted.isSome then none else s.m.cur) ∧
          (ob.readChunk.isSome = true → ob.accepted.isSome = true ∨ s.m.cur = none) ∧
          (s.m.outPipe ++ w = ob.readChunk.getD [] ++ s'.m.outPipe) ∧
          (∀ c, ob.readChunk = some c → c ≠ [] ∧ c.length ≤ cap ∧ c = (s.m.outPipe ++ w).take readMax) ∧
          ((s'.o.tr != s.o.tr) = ob.readChunk.isSome) ∧
          ((s'.o.ra != s.o.ra) = ob.announced.isSome) ∧
          (ob.delivered = (if ob.inp.ia then [initByte] else []) ++ ob.announced.getD []) ∧
          (ob.inp.ia = (!s.m.connected && s'.m.connected)) ∧
          (s.m.connected = true → s'.m.connected = true) ∧
          (ob.announced.isSome = true → s.m.connected = true))) :
    Inv s' ∧ StepSpec s w s' ob := by
  obtain ⟨⟨p1, p2, p3, p4, p5, p6, p7, p8⟩, q1, q2, q3, q4, q5, q6, q7, q8, q9, q10, q11, q12, q13, q14⟩ := h
  exact ⟨⟨p1, p2, p3, p4, p5, p6, p7, p8⟩, ⟨q1, q2, q3, q4, q5, q6, q7, q8, q9, q10, q11, q12, q13, q14⟩⟩

local macro "close_step" : tactic =>
  `(tactic| (apply both_of_conj <;> simp_all [unpack_pack] <;> (have := readMax_le_cap; omega)))

theorem cycle_spec_ack (s : Sys) (w : Bytes) (h : Inv s) (hc : s.m.connected = true) (hph : s.t.phase = .acking) :
    Inv (cycle s w).1 ∧ StepSpec s w (cycle s w).1 (cycle s w).2 := by
  obtain ⟨hne, hir, hta, hrr⟩ := h.post hc
  have h1 := h.tr_eq
  have h2 := h.ra_eq
  have hcur := h.ack hph
  have hts : s.t.step s.o = (readyTerm s.t s.o, none, none) := by
    simp [Term.step, hph, hir, readyTerm]
  have hu := update_conn_spec { s.m with outPipe := s.m.outPipe ++ w } (s.t.step s.o).1.inp s.o (by simpa using hc)
  simp only [cycle]
  rw [hts] at hu ⊢
  simp only [Term.inp, readyTerm] at hu ⊢
  generalize update _ _ _ = u at hu ⊢
  obtain ⟨u1, u2, u3, u4, u5, u6, u7, u8, u9⟩ := hu
  simp only [hta, hrr, hcur, bne_self_eq_false, Bool.false_eq_true, ↓reduceIte] at u6 u7 u8 u9
  rcases u9 with ⟨c, k1, k2, k3, k4, k5⟩ | ⟨k0, k1, k2, k3, k4, k5⟩ | ⟨k0, k1, k2, k3, k4, k5⟩
  · simp at k1
  · close_step
  · close_step

set_option maxHeartbeats 2000000 in
theorem cycle_spec_ready (s : Sys) (w : Bytes) (h : Inv s) (hc : s.m.connected = true) (hph : s.t.phase = .ready) :
    Inv (cycle s w).1 ∧ StepSpec s w (cycle s w).1 (cycle s w).2 := by
  obtain ⟨hne, hir, hta, hrr⟩ := h.post hc
  have h1 := h.tr_eq
  have h2 := h.ra_eq
  obtain ⟨ht1, ht2⟩ := h.tx hph
  have hr := h.rx hph
  have hheld := h.held
  have htx := txStep_spec s.t.tx s.o.tr s.o.outStr s.m.cur ht1 ht2
  have hrx := rxStep_spec s.t.rx s.o.ra hr
  have hts : s.t.step s.o = ({ s.t with tx := (txStep s.t.tx s.o.tr s.o.outStr).1, rx := (rxStep s.t.rx s.o.ra).1 },
      (txStep s.t.tx s.o.tr s.o.outStr).2, (rxStep s.t.rx s.o.ra).2) := by
    simp [Term.step, hph]
  have hu := update_conn_spec { s.m with outPipe := s.m.outPipe ++ w } (s.t.step s.o).1.inp s.o (by simpa using hc)
  simp only [cycle]
  rw [hts] at hu ⊢
  simp only [Term.inp] at hu ⊢
  generalize update _ _ _ = u at hu ⊢
  generalize txStep s.t.tx s.o.tr s.o.outStr = X at htx hu ⊢
  generalize rxStep s.t.rx s.o.ra = Y at hrx hu ⊢
  obtain ⟨u1, u2, u3, u4, u5, u6, u7, u8, u9⟩ := hu
  clear hts h
  have hup : ∀ c, s.m.cur = some c → unpack s.o.outStr = c := by
    intro c hc'
    obtain ⟨e, _, l⟩ := hheld c hc'
    rw [e, unpack_pack, List.take_of_length_le]
    have := readMax_le_cap
    omega
  rcases htx with ⟨a1, a2, a3, a4⟩ | ⟨a1, a2, a3, a4, a5⟩ <;>
  rcases hrx with ⟨b1, b2, b3, b4, b5⟩ | ⟨c, b1, b2, b3, b4, b5⟩ <;>
  rcases u9 with ⟨c', k1, k2, k3, k4, k5⟩ | ⟨k0, k1, k2, k3, k4, k5⟩ | ⟨k0, k1, k2, k3, k4, k5⟩ <;>
  close_step

end Ebv.C28
