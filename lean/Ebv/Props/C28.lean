import Ebv.Model.Serial
/-! C28 — serial channels transfer bytes exactly once, in order. -/
namespace Ebv.C28
open Ebv.Serial Ebv.Consts

theorem readMax_le_cap : readMax ≤ cap := by decide
theorem cap_lt : cap < 256 := by decide

theorem unpack_pack (c : Bytes) : unpack (pack c) = c.take cap := by
  have h : (c.take cap).length ≤ cap := by simp [List.length_take]; omega
  have h2 : (UInt8.ofNat (c.take cap).length).toNat = (c.take cap).length := by
    have := cap_lt
    simp [UInt8.toNat_ofNat']
    omega
  simp only [pack, unpack, h2]
  rw [Nat.min_eq_left h]
  simp

/-! ### what is invariant at the end of every cycle -/

structure Inv (s : Sys) : Prop where
  tr_eq : s.o.tr = s.m.ltr
  ra_eq : s.o.ra = s.m.lra
  pre : s.m.connected = false → s.t.phase = .idle ∧ s.m.cur = none
  post : s.m.connected = true →
    s.t.phase ≠ .idle ∧ s.o.ir = false ∧ s.m.lta = s.t.tx.ta ∧ s.m.lrr = s.t.rx.rr
  ack : s.t.phase = .acking → s.m.cur = none
  tx : s.t.phase = .ready →
    s.m.cur.isSome = (s.t.tx.seenTR != s.o.tr) ∧ (s.m.cur = none → s.t.tx.wait = none)
  rx : s.t.phase = .ready → s.t.rx.outstanding = (s.t.rx.seenRA != s.o.ra)
  held : ∀ c, s.m.cur = some c → s.o.outStr = pack c ∧ c ≠ [] ∧ c.length ≤ readMax

theorem txStep_spec (t : TermTx) (tr : Bool) (outStr : Bytes) (cur : Option Bytes)
    (h1 : cur.isSome = (t.seenTR != tr)) (h2 : cur = none → t.wait = none) :
    ((txStep t tr outStr).2 = none ∧ (txStep t tr outStr).1.ta = t.ta ∧
      (txStep t tr outStr).1.seenTR = t.seenTR ∧ (cur = none → (txStep t tr outStr).1.wait = none)) ∨
    ((txStep t tr outStr).2 = some (unpack outStr) ∧ cur.isSome = true ∧ (txStep t tr outStr).1.ta = (!t.ta) ∧
      (txStep t tr outStr).1.seenTR = tr ∧ (txStep t tr outStr).1.wait = none) := by
  unfold txStep txNotice
  cases cur <;> cases hw : t.wait <;> cases hd : t.delays <;> cases hs : t.seenTR <;> cases tr <;>
    simp_all <;> (split <;> simp_all)

theorem rxStep_spec (t : TermRx) (ra : Bool) (h : t.outstanding = (t.seenRA != ra)) :
    ((rxStep t ra).2 = none ∧ (rxStep t ra).1.rr = t.rr ∧ (rxStep t ra).1.inStr = t.inStr ∧
      (rxStep t ra).1.outstanding = false ∧ (rxStep t ra).1.seenRA = ra) ∨
    (∃ c, (rxStep t ra).2 = some (c.take cap) ∧ (rxStep t ra).1.rr = (!t.rr) ∧ (rxStep t ra).1.inStr = pack c ∧
      (rxStep t ra).1.outstanding = true ∧ (rxStep t ra).1.seenRA = ra) := by
  unfold rxStep rxAck
  cases ho : t.outstanding <;> cases hs : t.seenRA <;> cases ra <;> simp_all <;>
    (split <;> simp_all) <;> exact ⟨_, rfl, rfl⟩

/-! ### the pieces of `update` touch disjoint attributes -/

section pieces
variable (m : Master) (i : Inp) (o : Out)

@[simp] theorem recv_cur : (recv m i o).1.cur = m.cur := by unfold recv; split <;> rfl
@[simp] theorem recv_lta : (recv m i o).1.lta = m.lta := by unfold recv; split <;> rfl
@[simp] theorem recv_ltr : (recv m i o).1.ltr = m.ltr := by unfold recv; split <;> rfl
@[simp] theorem recv_outPipe : (recv m i o).1.outPipe = m.outPipe := by unfold recv; split <;> rfl
@[simp] theorem recv_connected : (recv m i o).1.connected = m.connected := by unfold recv; split <;> rfl
@[simp] theorem recv_lrr : (recv m i o).1.lrr = i.rr := by unfold recv; split <;> rfl
@[simp] theorem recv_tr : (recv m i o).2.1.tr = o.tr := by unfold recv; split <;> rfl
@[simp] theorem recv_ir : (recv m i o).2.1.ir = o.ir := by unfold recv; split <;> rfl
@[simp] theorem recv_outStr : (recv m i o).2.1.outStr = o.outStr := by unfold recv; split <;> rfl
theorem recv_lra : (recv m i o).1.lra = if m.lrr != i.rr then !m.lra else m.lra := by
  unfold recv; split <;> rfl
theorem recv_ra : (recv m i o).2.1.ra = if m.lrr != i.rr then !m.lra else o.ra := by
  unfold recv; split <;> rfl
theorem recv_deliv : (recv m i o).2.2 = if m.lrr != i.rr then unpack i.inStr else [] := by
  unfold recv; split <;> rfl

@[simp] theorem accept_lra : (accept m i).lra = m.lra := by unfold accept; split <;> rfl
@[simp] theorem accept_lrr : (accept m i).lrr = m.lrr := by unfold accept; split <;> rfl
@[simp] theorem accept_ltr : (accept m i).ltr = m.ltr := by unfold accept; split <;> rfl
@[simp] theorem accept_outPipe : (accept m i).outPipe = m.outPipe := by unfold accept; split <;> rfl
@[simp] theorem accept_connected : (accept m i).connected = m.connected := by unfold accept; split <;> rfl
@[simp] theorem accept_lta : (accept m i).lta = i.ta := by
  unfold accept; split
  · rfl
  · simp_all
theorem accept_cur : (accept m i).cur = if m.lta != i.ta then none else m.cur := by
  unfold accept; split <;> rfl

@[simp] theorem readPipe_lra : (readPipe m).1.lra = m.lra := by unfold readPipe; split <;> (try split) <;> rfl
@[simp] theorem readPipe_lrr : (readPipe m).1.lrr = m.lrr := by unfold readPipe; split <;> (try split) <;> rfl
@[simp] theorem readPipe_lta : (readPipe m).1.lta = m.lta := by unfold readPipe; split <;> (try split) <;> rfl
@[simp] theorem readPipe_connected : (readPipe m).1.connected = m.connected := by
  unfold readPipe; split <;> (try split) <;> rfl

@[simp] theorem present_ra : (present m o).ra = o.ra := by unfold present; split <;> rfl
@[simp] theorem present_ir : (present m o).ir = o.ir := by unfold present; split <;> rfl
@[simp] theorem present_tr : (present m o).tr = m.ltr := by unfold present; split <;> rfl
theorem present_outStr : (present m o).outStr = match m.cur with | some c => pack c | none => o.outStr := by
  unfold present; split <;> simp_all

/-- the three ways the transmit half of `update` can go -/
theorem readPipe_cases :
    (∃ c, m.cur = some c ∧ readPipe m = (m, none)) ∨
    (m.cur = none ∧ m.outPipe.take readMax = [] ∧ readPipe m = (m, none)) ∨
    (m.cur = none ∧ m.outPipe.take readMax ≠ [] ∧
      readPipe m = ({ m with cur := some (m.outPipe.take readMax), ltr := !m.ltr,
                             outPipe := m.outPipe.drop readMax }, some (m.outPipe.take readMax))) := by
  unfold readPipe
  cases h : m.cur with
  | some c => exact Or.inl ⟨c, rfl, rfl⟩
  | none =>
    by_cases h2 : m.outPipe.take readMax = []
    · exact Or.inr (Or.inl ⟨rfl, h2, by simp [h2]⟩)
    · exact Or.inr (Or.inr ⟨rfl, h2, by simp [h2]⟩)

end pieces

/-- `update` on a connected device: the receive half and the three ways of the transmit half -/
theorem update_conn_spec (m : Master) (i : Inp) (o : Out) (hc : m.connected = true) :
    (update m i o).1.connected = true ∧ (update m i o).1.lrr = i.rr ∧ (update m i o).1.lta = i.ta ∧
    (update m i o).2.1.ir = false ∧ (update m i o).2.1.tr = (update m i o).1.ltr ∧
    (update m i o).1.lra = (if m.lrr != i.rr then !m.lra else m.lra) ∧
    (update m i o).2.1.ra = (if m.lrr != i.rr then !m.lra else o.ra) ∧
    (update m i o).2.2.1 = (if m.lrr != i.rr then unpack i.inStr else []) ∧
    ((∃ c, (if m.lta != i.ta then none else m.cur) = some c ∧ (update m i o).1.cur = some c ∧
        (update m i o).1.ltr = m.ltr ∧ (update m i o).1.outPipe = m.outPipe ∧ (update m i o).2.2.2 = none ∧
        (update m i o).2.1.outStr = pack c) ∨
     ((if m.lta != i.ta then none else m.cur) = none ∧ m.outPipe.take readMax = [] ∧ (update m i o).1.cur = none ∧
        (update m i o).1.ltr = m.ltr ∧ (update m i o).1.outPipe = m.outPipe ∧ (update m i o).2.2.2 = none ∧
        (update m i o).2.1.outStr = o.outStr) ∨
     ((if m.lta != i.ta then none else m.cur) = none ∧ m.outPipe.take readMax ≠ [] ∧
        (update m i o).1.cur = some (m.outPipe.take readMax) ∧
        (update m i o).1.ltr = (!m.ltr) ∧ (update m i o).1.outPipe = m.outPipe.drop readMax ∧
        (update m i o).2.2.2 = some (m.outPipe.take readMax) ∧
        (update m i o).2.1.outStr = pack (m.outPipe.take readMax))) := by
  have hu : update m i o =
      ((readPipe (accept (recv m i { o with ir := false }).1 i)).1,
       present (readPipe (accept (recv m i { o with ir := false }).1 i)).1 (recv m i { o with ir := false }).2.1,
       (recv m i { o with ir := false }).2.2, (readPipe (accept (recv m i { o with ir := false }).1 i)).2) := by
    simp [update, hc]
  rw [hu]
  refine ⟨by simp [hc], by simp, by simp, by simp, by simp, by simp [recv_lra], by simp [recv_ra], by simp [recv_deliv], ?_⟩
  have e1 : (accept (recv m i { o with ir := false }).1 i).cur = (if m.lta != i.ta then none else m.cur) := by
    rw [accept_cur, recv_cur, recv_lta]
  have e2 : (accept (recv m i { o with ir := false }).1 i).ltr = m.ltr := by simp
  have e3 : (accept (recv m i { o with ir := false }).1 i).outPipe = m.outPipe := by simp
  have e4 : (recv m i { o with ir := false }).2.1.outStr = o.outStr := by simp
  generalize accept (recv m i { o with ir := false }).1 i = A at *
  generalize (if m.lta != i.ta then none else m.cur) = q at *
  generalize (recv m i { o with ir := false }).2.1 = o' at *
  rcases readPipe_cases A with ⟨c, h1, h2⟩ | ⟨h1, h2, h3⟩ | ⟨h1, h2, h3⟩
  · refine Or.inl ⟨c, ?_⟩
    rw [h2]
    simp [← e1, ← e2, ← e3, h1, present_outStr]
  · refine Or.inr (Or.inl ?_)
    rw [h3]
    simp [← e1, ← e2, ← e3, ← e4, h1, h2, present_outStr]
  · refine Or.inr (Or.inr ?_)
    rw [h3]
    simp [← e1, ← e2, ← e3, h1, h2, present_outStr]

/-! ### one cycle -/

/-- what one cycle does, in terms of what can be observed and of `current_transmit` -/
structure StepSpec (s : Sys) (w : Bytes) (s' : Sys) (ob : Obs) : Prop where
  out_eq : ob.out = s'.o
  pend_eq : ob.pending = s'.m.cur
  unread_eq : ob.unread = s'.m.outPipe.length
  acc : ob.accepted = none ∨ (ob.accepted = s.m.cur ∧ ob.accepted.isSome = true)
  cur' : s'.m.cur = match ob.readChunk with
                    | some c => some c
                    | none => if ob.accepted.isSome then none else s.m.cur
  rd_free : ob.readChunk.isSome = true → ob.accepted.isSome = true ∨ s.m.cur = none
  pipe : s.m.outPipe ++ w = ob.readChunk.getD [] ++ s'.m.outPipe
  rd_ne : ∀ c, ob.readChunk = some c → c ≠ [] ∧ c.length ≤ cap ∧ c = (s.m.outPipe ++ w).take readMax
  tr_tog : (s'.o.tr != s.o.tr) = ob.readChunk.isSome
  ra_tog : (s'.o.ra != s.o.ra) = ob.announced.isSome
  deliv : ob.delivered = (if ob.inp.ia then [initByte] else []) ++ ob.announced.getD []
  ia_conn : ob.inp.ia = (!s.m.connected && s'.m.connected)
  conn_mono : s.m.connected = true → s'.m.connected = true
  ann_conn : ob.announced.isSome = true → s.m.connected = true
  rd_live : s.m.connected = true → s'.m.cur = none → (s.m.outPipe ++ w).take readMax = []

theorem cycle_spec_pre (s : Sys) (w : Bytes) (h : Inv s) (hc : s.m.connected = false) :
    Inv (cycle s w).1 ∧ StepSpec s w (cycle s w).1 (cycle s w).2 := by
  obtain ⟨hph, hcur⟩ := h.pre hc
  have h1 := h.tr_eq
  have h2 := h.ra_eq
  cases hir : s.o.ir
  · refine ⟨?_, ?_⟩ <;> constructor <;> simp [cycle, Term.step, update, Term.inp, hph, hc, hcur, hir, h1, h2]
  · by_cases hw : s.t.initWait = 0
    · refine ⟨?_, ?_⟩ <;> constructor <;> simp [cycle, Term.step, update, Term.inp, hph, hc, hcur, hir, hw, h1, h2]
    · refine ⟨?_, ?_⟩ <;> constructor <;> simp [cycle, Term.step, update, Term.inp, hph, hc, hcur, hir, hw, h1, h2]

/-- the terminal after it saw init_request cleared -/
def readyTerm (t : Term) (o : Out) : Term :=
  { t with
    phase := .ready
    tx := { t.tx with seenTR := o.tr, wait := none }
    rx := { t.rx with seenRA := o.ra, outstanding := false } }

/-- invariant and step specification as one conjunction (so that one simplifier call sees all of it) -/
theorem both_of_conj {s : Sys} {w : Bytes} {s' : Sys} {ob : Obs}
    (h : (s'.o.tr = s'.m.ltr ∧ s'.o.ra = s'.m.lra ∧
          (s'.m.connected = false → s'.t.phase = .idle ∧ s'.m.cur = none) ∧
          (s'.m.connected = true →
            s'.t.phase ≠ .idle ∧ s'.o.ir = false ∧ s'.m.lta = s'.t.tx.ta ∧ s'.m.lrr = s'.t.rx.rr) ∧
          (s'.t.phase = .acking → s'.m.cur = none) ∧
          (s'.t.phase = .ready →
            s'.m.cur.isSome = (s'.t.tx.seenTR != s'.o.tr) ∧ (s'.m.cur = none → s'.t.tx.wait = none)) ∧
          (s'.t.phase = .ready → s'.t.rx.outstanding = (s'.t.rx.seenRA != s'.o.ra)) ∧
          (∀ c, s'.m.cur = some c → s'.o.outStr = pack c ∧ c ≠ [] ∧ c.length ≤ readMax)) ∧
         (ob.out = s'.o ∧ ob.pending = s'.m.cur ∧ ob.unread = s'.m.outPipe.length ∧
          (ob.accepted = none ∨ (ob.accepted = s.m.cur ∧ ob.accepted.isSome = true)) ∧
          (s'.m.cur = match ob.readChunk with
                      | some c => some c
                      | none => if ob.accepted.isSome then none else s.m.cur) ∧
          (ob.readChunk.isSome = true → ob.accepted.isSome = true ∨ s.m.cur = none) ∧
          (s.m.outPipe ++ w = ob.readChunk.getD [] ++ s'.m.outPipe) ∧
          (∀ c, ob.readChunk = some c → c ≠ [] ∧ c.length ≤ cap ∧ c = (s.m.outPipe ++ w).take readMax) ∧
          ((s'.o.tr != s.o.tr) = ob.readChunk.isSome) ∧
          ((s'.o.ra != s.o.ra) = ob.announced.isSome) ∧
          (ob.delivered = (if ob.inp.ia then [initByte] else []) ++ ob.announced.getD []) ∧
          (ob.inp.ia = (!s.m.connected && s'.m.connected)) ∧
          (s.m.connected = true → s'.m.connected = true) ∧
          (ob.announced.isSome = true → s.m.connected = true) ∧
          (s.m.connected = true → s'.m.cur = none → (s.m.outPipe ++ w).take readMax = []))) :
    Inv s' ∧ StepSpec s w s' ob := by
  obtain ⟨⟨p1, p2, p3, p4, p5, p6, p7, p8⟩, q1, q2, q3, q4, q5, q6, q7, q8, q9, q10, q11, q12, q13, q14, q15⟩ := h
  exact ⟨⟨p1, p2, p3, p4, p5, p6, p7, p8⟩, ⟨q1, q2, q3, q4, q5, q6, q7, q8, q9, q10, q11, q12, q13, q14, q15⟩⟩

local macro "close_step" : tactic =>
  `(tactic| (apply both_of_conj <;> simp_all [unpack_pack] <;> (have := readMax_le_cap; omega)))

theorem cycle_spec_ack (s : Sys) (w : Bytes) (h : Inv s) (hc : s.m.connected = true) (hph : s.t.phase = .acking) :
    Inv (cycle s w).1 ∧ StepSpec s w (cycle s w).1 (cycle s w).2 := by
  obtain ⟨hne, hir, hta, hrr⟩ := h.post hc
  have h1 := h.tr_eq
  have h2 := h.ra_eq
  have hcur := h.ack hph
  have hts : s.t.step s.o = (readyTerm s.t s.o, none, none) := by
    simp [Term.step, hph, hir, readyTerm]
  have hu := update_conn_spec { s.m with outPipe := s.m.outPipe ++ w } (s.t.step s.o).1.inp s.o (by simpa using hc)
  simp only [cycle]
  rw [hts] at hu ⊢
  simp only [Term.inp, readyTerm] at hu ⊢
  generalize update _ _ _ = u at hu ⊢
  obtain ⟨u1, u2, u3, u4, u5, u6, u7, u8, u9⟩ := hu
  simp only [hta, hrr, hcur, bne_self_eq_false, Bool.false_eq_true, ↓reduceIte] at u6 u7 u8 u9
  rcases u9 with ⟨c, k1, k2, k3, k4, k5⟩ | ⟨k0, k1, k2, k3, k4, k5⟩ | ⟨k0, k1, k2, k3, k4, k5⟩
  · simp at k1
  · close_step
  · close_step

theorem cycle_spec_ready (s : Sys) (w : Bytes) (h : Inv s) (hc : s.m.connected = true) (hph : s.t.phase = .ready) :
    Inv (cycle s w).1 ∧ StepSpec s w (cycle s w).1 (cycle s w).2 := by
  obtain ⟨hne, hir, hta, hrr⟩ := h.post hc
  have h1 := h.tr_eq
  have h2 := h.ra_eq
  obtain ⟨ht1, ht2⟩ := h.tx hph
  have hr := h.rx hph
  have hheld := h.held
  have htx := txStep_spec s.t.tx s.o.tr s.o.outStr s.m.cur ht1 ht2
  have hrx := rxStep_spec s.t.rx s.o.ra hr
  have hts : s.t.step s.o = ({ s.t with tx := (txStep s.t.tx s.o.tr s.o.outStr).1, rx := (rxStep s.t.rx s.o.ra).1 },
      (txStep s.t.tx s.o.tr s.o.outStr).2, (rxStep s.t.rx s.o.ra).2) := by
    simp [Term.step, hph]
  have hu := update_conn_spec { s.m with outPipe := s.m.outPipe ++ w } (s.t.step s.o).1.inp s.o (by simpa using hc)
  simp only [cycle]
  rw [hts] at hu ⊢
  simp only [Term.inp] at hu ⊢
  generalize update _ _ _ = u at hu ⊢
  generalize txStep s.t.tx s.o.tr s.o.outStr = X at htx hu ⊢
  generalize rxStep s.t.rx s.o.ra = Y at hrx hu ⊢
  obtain ⟨u1, u2, u3, u4, u5, u6, u7, u8, u9⟩ := hu
  clear hts h
  have hup : s.m.cur.isSome = true → some (unpack s.o.outStr) = s.m.cur := by
    cases hcur : s.m.cur with
    | none => simp
    | some c =>
      obtain ⟨e, _, l⟩ := hheld c hcur
      intro _
      rw [e, unpack_pack, List.take_of_length_le]
      have := readMax_le_cap
      omega
  rcases htx with ⟨a1, a2, a3, a4⟩ | ⟨a1, a2, a3, a4, a5⟩ <;>
  rcases hrx with ⟨b1, b2, b3, b4, b5⟩ | ⟨c, b1, b2, b3, b4, b5⟩ <;>
  rcases u9 with ⟨c', k1, k2, k3, k4, k5⟩ | ⟨k0, k1, k2, k3, k4, k5⟩ | ⟨k0, k1, k2, k3, k4, k5⟩ <;>
  close_step

theorem cycle_spec (s : Sys) (w : Bytes) (h : Inv s) :
    Inv (cycle s w).1 ∧ StepSpec s w (cycle s w).1 (cycle s w).2 := by
  cases hc : s.m.connected with
  | false => exact cycle_spec_pre s w h hc
  | true =>
    cases hph : s.t.phase with
    | idle => exact absurd hph (h.post hc).1
    | acking => exact cycle_spec_ack s w h hc hph
    | ready => exact cycle_spec_ready s w h hc hph

theorem init_inv (ta0 rr0 : Bool) (in0 : Bytes) (iw : Nat) (txd : List Nat) (plan : List (Nat × Bytes)) :
    Inv (init ta0 rr0 in0 iw txd plan) := by
  constructor <;> simp [init, Out.zero]

/-! ### runs: induction over the cycles -/

/-- a run of the composed system, cycle by cycle, every state satisfying the invariant -/
inductive Run : Sys → List Bytes → List Obs → Sys → Prop
  | nil (s : Sys) : Run s [] [] s
  | cons {s s' s'' : Sys} {w : Bytes} {ob : Obs} {ws : List Bytes} {obs : List Obs} :
      Inv s' → StepSpec s w s' ob → Run s' ws obs s'' → Run s (w :: ws) (ob :: obs) s''

theorem run_of_inv (s : Sys) (h : Inv s) (ws : List Bytes) : Run s ws (trace s ws) (final s ws) := by
  induction ws generalizing s with
  | nil => exact .nil s
  | cons w ws ih =>
    have hs := cycle_spec s w h
    exact .cons hs.1 hs.2 (ih _ hs.1)

/-- the invariant holds after any number of cycles, for any oracles and application writes -/
theorem inv_final (ta0 rr0 : Bool) (in0 : Bytes) (iw : Nat) (txd : List Nat) (plan : List (Nat × Bytes))
    (ws : List Bytes) : Inv (final (init ta0 rr0 in0 iw txd plan) ws) := by
  have : ∀ (ws : List Bytes) (s : Sys), Inv s → Inv (final s ws) := by
    intro ws
    induction ws with
    | nil => exact fun _ h => h
    | cons w ws ih => exact fun s h => ih _ (cycle_spec s w h).1
  exact this ws _ (init_inv ..)

variable {s f : Sys} {ws : List Bytes} {obs : List Obs}

theorem run_all (P : Obs → Prop) (hP : ∀ s w s' ob, Inv s' → StepSpec s w s' ob → P ob) (h : Run s ws obs f) :
    ∀ ob ∈ obs, P ob := by
  induction h with
  | nil => simp
  | cons hi hs _ ih =>
    intro ob hob
    rcases List.mem_cons.1 hob with rfl | hob
    · exact hP _ _ _ _ hi hs
    · exact ih ob hob

theorem run_conn (h : Run s ws obs f) (hc : s.m.connected = true) : f.m.connected = true := by
  induction h with
  | nil => exact hc
  | cons _ hs _ ih => exact ih (hs.conn_mono hc)

/-- transmit direction: what was read = what was accepted + what is in flight -/
theorem run_tx (h : Run s ws obs f) : s.m.cur.toList ++ reads obs = accs obs ++ f.m.cur.toList := by
  induction h with
  | nil => simp [reads, accs]
  | @cons s s' s'' w ob ws obs hi hs _ ih =>
    have e1 := hs.cur'
    have e2 := hs.acc
    have e3 := hs.rd_free
    simp only [reads, accs, List.filterMap_cons] at ih ⊢
    cases hr : ob.readChunk <;> cases ha : ob.accepted <;> cases hc : s.m.cur <;> simp_all

theorem run_pipe (h : Run s ws obs f) : s.m.outPipe ++ ws.flatten = (reads obs).flatten ++ f.m.outPipe := by
  induction h with
  | nil => simp [reads]
  | @cons s s' s'' w ob ws obs hi hs _ ih =>
    have e := hs.pipe
    simp only [reads, List.filterMap_cons, List.flatten_cons] at ih ⊢
    rw [← List.append_assoc, e, List.append_assoc, ih]
    cases hr : ob.readChunk <;> simp

theorem run_reads_bounded (h : Run s ws obs f) : ∀ c ∈ reads obs, c ≠ [] ∧ c.length ≤ cap := by
  induction h with
  | nil => simp [reads]
  | @cons s s' s'' w ob ws obs hi hs _ ih =>
    intro c hc
    simp only [reads, List.filterMap_cons] at hc ih
    cases hr : ob.readChunk with
    | none => rw [hr] at hc; exact ih c hc
    | some d =>
      rw [hr] at hc
      rcases List.mem_cons.1 hc with rfl | hc
      · exact ⟨(hs.rd_ne _ hr).1, (hs.rd_ne _ hr).2.1⟩
      · exact ih c hc

theorem run_tr_marks (h : Run s ws obs f) :
    toggleMarks s.o.tr (obs.map (·.out.tr)) = obs.map (·.readChunk.isSome) := by
  induction h with
  | nil => rfl
  | cons hi hs _ ih =>
    simp only [List.map_cons, toggleMarks, hs.out_eq, hs.tr_tog]
    rw [← ih]

theorem run_ra_marks (h : Run s ws obs f) :
    toggleMarks s.o.ra (obs.map (·.out.ra)) = obs.map (·.announced.isSome) := by
  induction h with
  | nil => rfl
  | cons hi hs _ ih =>
    simp only [List.map_cons, toggleMarks, hs.out_eq, hs.ra_tog]
    rw [← ih]

/-- `p` is the chunk pending before the first cycle.  A pending chunk is either accepted by the terminal in
this cycle (exactly that chunk), or nothing is accepted, nothing is read and it stays pending; nothing is
accepted when nothing is pending; whatever is pending after the cycle is what out_string holds, and a chunk
read in this cycle is pending after it. -/
def HeldOk : Option Bytes → List Obs → Prop
  | _, [] => True
  | p, ob :: rest =>
    (match p with
     | some c => ob.accepted = some c ∨ (ob.accepted = none ∧ ob.readChunk = none ∧ ob.pending = some c)
     | none => ob.accepted = none) ∧
    (∀ c, ob.pending = some c → ob.out.outStr = pack c ∧ unpack ob.out.outStr = c) ∧
    (∀ c, ob.readChunk = some c → ob.pending = some c) ∧
    HeldOk ob.pending rest

theorem run_held (h : Run s ws obs f) : HeldOk s.m.cur obs := by
  induction h with
  | nil => trivial
  | @cons s s' s'' w ob ws obs hi hs _ ih =>
    have e1 := hs.cur'
    have e2 := hs.acc
    have e3 := hs.rd_free
    have e4 := hs.pend_eq
    have e5 := hs.out_eq
    have e6 := hi.held
    refine ⟨?_, ?_, ?_, ?_⟩
    · cases hr : ob.readChunk <;> cases ha : ob.accepted <;> cases hc : s.m.cur <;> simp_all
    · intro c hc
      rw [e4] at hc
      obtain ⟨k1, _, k3⟩ := e6 c hc
      rw [e5, k1, unpack_pack, List.take_of_length_le]
      · exact ⟨rfl, rfl⟩
      · have := readMax_le_cap
        omega
    · intro c hc
      rw [e4, e1, hc]
    · rw [e4]; exact ih

theorem run_rx (h : Run s ws obs f) :
    (obs.map (·.delivered)).flatten =
      (if !s.m.connected && f.m.connected then [initByte] else []) ++ (anns obs).flatten := by
  induction h with
  | nil => simp [anns]
  | @cons s s' s'' w ob ws obs hi hs hrun ih =>
    have e1 := hs.deliv
    have e2 := hs.ia_conn
    have e3 := hs.ann_conn
    have e4 := hs.conn_mono
    have e5 := run_conn hrun
    simp only [anns, List.filterMap_cons, List.map_cons, List.flatten_cons] at ih ⊢
    rw [ih, e1]
    cases hc : s.m.connected <;> cases hc' : s'.m.connected <;> cases hf : s''.m.connected <;>
      cases ha : ob.announced <;> simp_all

theorem count_isSome {α β : Type} (g : α → Option β) (l : List α) :
    (l.map fun a => (g a).isSome).count true = (l.filterMap g).length := by
  induction l with
  | nil => rfl
  | cons a l ih => cases h : g a <;> simp [h, ih]

/-! ### progress: once the terminal answers without delay, everything written is transferred -/

theorem readMax_pos : 0 < readMax := by decide

/-- the state of a drain phase: initialised, data exchange, no accept delays left -/
structure Draining (s : Sys) : Prop where
  inv : Inv s
  conn : s.m.connected = true
  ready : s.t.phase = .ready
  nodelay : s.t.tx.delays = []
  wait0 : s.t.tx.wait = none ∨ s.t.tx.wait = some 0

theorem inv_drain {s : Sys} (h : Inv s) : Inv s.drain := by
  constructor <;> simp only [Sys.drain, Term.drain]
  · exact h.tr_eq
  · exact h.ra_eq
  · exact h.pre
  · exact h.post
  · exact h.ack
  · intro hp
    refine ⟨(h.tx hp).1, fun hc => ?_⟩
    simp [(h.tx hp).2 hc]
  · exact h.rx
  · exact h.held

theorem draining_drain {s : Sys} (h : Inv s) (hc : s.m.connected = true) (hp : s.t.phase = .ready) :
    Draining s.drain := by
  refine ⟨inv_drain h, hc, hp, rfl, ?_⟩
  simp only [Sys.drain, Term.drain]
  cases s.t.tx.wait <;> simp

/-- without delays a pending request is accepted in the very next terminal cycle -/
theorem txStep_nodelay (t : TermTx) (tr : Bool) (outStr : Bytes) (hd : t.delays = [])
    (hw : t.wait = none ∨ t.wait = some 0) :
    (txStep t tr outStr).1.delays = [] ∧ (txStep t tr outStr).1.wait = none ∧
    ((t.wait = some 0 ∨ (tr != t.seenTR) = true) → (txStep t tr outStr).2.isSome = true) := by
  unfold txStep txNotice
  rcases hw with hw | hw <;> cases hs : (tr != t.seenTR) <;> simp_all

theorem drain_step {s : Sys} (h : Draining s) :
    Draining (cycle s []).1 ∧ (cycle s []).1.m.outPipe = s.m.outPipe.drop readMax ∧
    (s.m.outPipe = [] → (cycle s []).1.m.cur = none) := by
  obtain ⟨hi', hs⟩ := cycle_spec s [] h.inv
  obtain ⟨ht1, ht2⟩ := h.inv.tx h.ready
  have hn := txStep_nodelay s.t.tx s.o.tr s.o.outStr h.nodelay h.wait0
  have hts : (cycle s []).1.t = { s.t with tx := (txStep s.t.tx s.o.tr s.o.outStr).1, rx := (rxStep s.t.rx s.o.ra).1 } ∧
      (cycle s []).2.accepted = (txStep s.t.tx s.o.tr s.o.outStr).2 := by
    simp [cycle, Term.step, h.ready]
  -- a pending chunk is accepted now
  have hacc : (cycle s []).2.accepted.isSome = s.m.cur.isSome := by
    rw [hts.2]
    cases hc : s.m.cur with
    | none =>
      rcases hs.acc with e | ⟨e, e'⟩
      · rw [← hts.2, e]
      · rw [hc] at e; rw [e] at e'; simp at e'
    | some c =>
      have : (s.o.tr != s.t.tx.seenTR) = true := by
        rw [hc] at ht1; simp at ht1; simpa using fun e => ht1 e.symm
      simpa using hn.2.2 (Or.inr this)
  have hp := hs.pipe
  have hcur := hs.cur'
  have hlive := hs.rd_live h.conn
  have hpos := readMax_pos
  simp only [List.append_nil] at hp hlive
  refine ⟨⟨hi', hs.conn_mono h.conn, by rw [hts.1]; exact h.ready, by rw [hts.1]; exact hn.1,
    Or.inl (by rw [hts.1]; exact hn.2.1)⟩, ?_, ?_⟩
  · cases hr : (cycle s []).2.readChunk with
    | some c =>
      have := (hs.rd_ne c hr).2.2
      simp only [List.append_nil] at this
      rw [hr, this] at hp
      simp only [Option.getD_some] at hp
      have h2 := List.take_append_drop readMax s.m.outPipe
      exact (List.append_cancel_left (hp.symm.trans h2.symm)).symm ▸ rfl
    | none =>
      rw [hr] at hp hcur
      simp only [Option.getD_none, List.nil_append] at hp
      have hc' : (cycle s []).1.m.cur = none := by
        rw [hcur, hacc]; cases s.m.cur <;> simp
      have he : s.m.outPipe = [] := by
        have := hlive hc'
        rcases List.take_eq_nil_iff.1 this with h0 | h0
        · omega
        · exact h0
      rw [← hp, he]; simp
  · intro he
    cases hr : (cycle s []).2.readChunk with
    | some c =>
      have := hs.rd_ne c hr
      simp [he] at this
      exact absurd this.2.2 this.1
    | none =>
      rw [hcur, hr, hacc]; cases s.m.cur <;> simp

theorem final_append (s : Sys) (a b : List Bytes) : final s (a ++ b) = final (final s a) b := by
  induction a generalizing s with
  | nil => rfl
  | cons w a ih => exact ih _

theorem idle_flatten (n : Nat) : (idle n).flatten = [] := by
  induction n with
  | zero => rfl
  | succ n ih => simp only [idle, List.replicate_succ, List.flatten_cons, List.nil_append] at ih ⊢; exact ih

theorem drain_run {s : Sys} (h : Draining s) (n : Nat) :
    Draining (final s (idle n)) ∧ (final s (idle n)).m.outPipe = s.m.outPipe.drop (readMax * n) := by
  induction n generalizing s with
  | zero => exact ⟨h, by simp [idle, final]⟩
  | succ n ih =>
    obtain ⟨h1, h2, _⟩ := drain_step h
    obtain ⟨k1, k2⟩ := ih h1
    have e : final s (idle (n + 1)) = final (cycle s []).1 (idle n) := by
      simp [idle, List.replicate_succ, final]
    rw [e]
    refine ⟨k1, ?_⟩
    rw [k2, h2, List.drop_drop, Nat.mul_succ]
    congr 1
    omega

/-- once the terminal answers without delay, `n + 1` cycles empty a pipe of at most `22 n` bytes and leave
nothing pending -/
theorem drain_empties {s : Sys} (h : Draining s) (n : Nat) (hn : s.m.outPipe.length ≤ readMax * n) :
    (final s (idle (n + 1))).m.cur = none ∧ (final s (idle (n + 1))).m.outPipe = [] := by
  obtain ⟨k1, k2⟩ := drain_run h n
  have he : (final s (idle n)).m.outPipe = [] := by rw [k2]; exact List.drop_eq_nil_of_le hn
  have e : final s (idle (n + 1)) = (cycle (final s (idle n)) []).1 := by
    have : idle (n + 1) = idle n ++ [[]] := by simp [idle, List.replicate_succ']
    rw [this, final_append]; rfl
  obtain ⟨_, j2, j3⟩ := drain_step k1
  rw [e]
  exact ⟨j3 he, by rw [j2, he]; rfl⟩

/-! ### the property: any oracle lists, any application writes, any number of cycles -/

section property
variable (ta0 rr0 : Bool) (in0 : Bytes) (iw : Nat) (txd : List Nat) (plan : List (Nat × Bytes)) (ws : List Bytes)

/-- Transmit direction.  The chunks `update` read from the application pipe are, in order, the chunks the
terminal accepted, followed by the one still held in `current_transmit` (if any): nothing is lost, duplicated
or reordered between pipe and terminal.  Those chunks, concatenated, followed by what is still unread in the
pipe, are exactly the bytes the application wrote; each chunk has 1..22 bytes. -/
theorem tx_exactly_once_in_order :
    reads (trace (init ta0 rr0 in0 iw txd plan) ws) =
      accs (trace (init ta0 rr0 in0 iw txd plan) ws) ++ (final (init ta0 rr0 in0 iw txd plan) ws).m.cur.toList ∧
    (reads (trace (init ta0 rr0 in0 iw txd plan) ws)).flatten ++ (final (init ta0 rr0 in0 iw txd plan) ws).m.outPipe
      = ws.flatten ∧
    (∀ c ∈ reads (trace (init ta0 rr0 in0 iw txd plan) ws), c ≠ [] ∧ c.length ≤ cap) := by
  have hr := run_of_inv _ (init_inv ta0 rr0 in0 iw txd plan) ws
  refine ⟨?_, ?_, run_reads_bounded hr⟩
  · simpa [init] using run_tx hr
  · simpa [init] using (run_pipe hr).symm

/-- A chunk stays in out_string, unchanged, from the cycle it was read until the cycle the terminal accepts
it, and the terminal accepts exactly that chunk; nothing is read while a chunk is waiting. -/
theorem tx_held_until_accepted : HeldOk none (trace (init ta0 rr0 in0 iw txd plan) ws) := by
  simpa [init] using run_held (run_of_inv _ (init_inv ta0 rr0 in0 iw txd plan) ws)

/-- Receive direction, cycle by cycle: the bytes written to the application pipe are exactly the chunk the
terminal announced in that cycle (preceded by the init marker in the one cycle the terminal shows init_accept). -/
theorem rx_each_cycle :
    ∀ ob ∈ trace (init ta0 rr0 in0 iw txd plan) ws,
      ob.delivered = (if ob.inp.ia then [initByte] else []) ++ ob.announced.getD [] :=
  run_all _ (fun _ _ _ _ _ hs => hs.deliv) (run_of_inv _ (init_inv ta0 rr0 in0 iw txd plan) ws)

/-- Receive direction, whole run: after the init marker the application receives exactly the concatenation of
the announced chunks, each once, in order. -/
theorem rx_exactly_once_in_order :
    ((trace (init ta0 rr0 in0 iw txd plan) ws).map (·.delivered)).flatten =
      (if (final (init ta0 rr0 in0 iw txd plan) ws).m.connected then [initByte] else []) ++
        (anns (trace (init ta0 rr0 in0 iw txd plan) ws)).flatten := by
  have h := run_rx (run_of_inv _ (init_inv ta0 rr0 in0 iw txd plan) ws)
  simp only [show (init ta0 rr0 in0 iw txd plan).m.connected = false from rfl, Bool.not_false, Bool.true_and] at h
  exact h

/-- transmit_request toggles exactly in the cycles in which a chunk is read from the pipe, receive_accept
exactly in the cycles in which the terminal announces a chunk -/
theorem one_toggle_each :
    toggleMarks false ((trace (init ta0 rr0 in0 iw txd plan) ws).map (·.out.tr)) =
      (trace (init ta0 rr0 in0 iw txd plan) ws).map (·.readChunk.isSome) ∧
    toggleMarks false ((trace (init ta0 rr0 in0 iw txd plan) ws).map (·.out.ra)) =
      (trace (init ta0 rr0 in0 iw txd plan) ws).map (·.announced.isSome) := by
  have hr := run_of_inv _ (init_inv ta0 rr0 in0 iw txd plan) ws
  exact ⟨by simpa [init, Out.zero] using run_tr_marks hr, by simpa [init, Out.zero] using run_ra_marks hr⟩

/-- as many toggles of transmit_request as chunks sent, as many toggles of receive_accept as chunks received -/
theorem one_toggle_each_count :
    toggles false ((trace (init ta0 rr0 in0 iw txd plan) ws).map (·.out.tr)) =
      (reads (trace (init ta0 rr0 in0 iw txd plan) ws)).length ∧
    toggles false ((trace (init ta0 rr0 in0 iw txd plan) ws).map (·.out.ra)) =
      (anns (trace (init ta0 rr0 in0 iw txd plan) ws)).length := by
  obtain ⟨h1, h2⟩ := one_toggle_each ta0 rr0 in0 iw txd plan ws
  unfold toggles reads anns
  rw [h1, h2]
  exact ⟨count_isSome _ _, count_isSome _ _⟩

/-- both directions of the same run at once -/
theorem both_directions :
    (reads (trace (init ta0 rr0 in0 iw txd plan) ws) =
      accs (trace (init ta0 rr0 in0 iw txd plan) ws) ++ (final (init ta0 rr0 in0 iw txd plan) ws).m.cur.toList) ∧
    HeldOk none (trace (init ta0 rr0 in0 iw txd plan) ws) ∧
    (((trace (init ta0 rr0 in0 iw txd plan) ws).map (·.delivered)).flatten =
      (if (final (init ta0 rr0 in0 iw txd plan) ws).m.connected then [initByte] else []) ++
        (anns (trace (init ta0 rr0 in0 iw txd plan) ws)).flatten) ∧
    toggles false ((trace (init ta0 rr0 in0 iw txd plan) ws).map (·.out.tr)) =
      (reads (trace (init ta0 rr0 in0 iw txd plan) ws)).length ∧
    toggles false ((trace (init ta0 rr0 in0 iw txd plan) ws).map (·.out.ra)) =
      (anns (trace (init ta0 rr0 in0 iw txd plan) ws)).length :=
  ⟨(tx_exactly_once_in_order ta0 rr0 in0 iw txd plan ws).1, tx_held_until_accepted ta0 rr0 in0 iw txd plan ws,
   rx_exactly_once_in_order ta0 rr0 in0 iw txd plan ws, one_toggle_each_count ta0 rr0 in0 iw txd plan ws⟩

/-- Progress.  Whatever happened during the run (any oracles, any writes), once initialisation is over and the
terminal answers without delay, `n + 1` further cycles (22 n ≥ unread bytes) transfer everything: nothing is
pending, the pipe is empty, and the chunks accepted by the terminal over the whole run are exactly the bytes
the application wrote. -/
theorem drain_transfers_everything (n : Nat)
    (hc : (final (init ta0 rr0 in0 iw txd plan) ws).m.connected = true)
    (hp : (final (init ta0 rr0 in0 iw txd plan) ws).t.phase = .ready)
    (hn : (final (init ta0 rr0 in0 iw txd plan) ws).m.outPipe.length ≤ readMax * n) :
    (final (final (init ta0 rr0 in0 iw txd plan) ws).drain (idle (n + 1))).m.cur = none ∧
    (final (final (init ta0 rr0 in0 iw txd plan) ws).drain (idle (n + 1))).m.outPipe = [] ∧
    (accs (trace (init ta0 rr0 in0 iw txd plan) ws) ++
      accs (trace (final (init ta0 rr0 in0 iw txd plan) ws).drain (idle (n + 1)))).flatten = ws.flatten := by
  have hi := inv_final ta0 rr0 in0 iw txd plan ws
  have hd := draining_drain hi hc hp
  obtain ⟨g1, g2⟩ := drain_empties hd n hn
  refine ⟨g1, g2, ?_⟩
  have tx1 := run_tx (run_of_inv _ (init_inv ta0 rr0 in0 iw txd plan) ws)
  have p1 := run_pipe (run_of_inv _ (init_inv ta0 rr0 in0 iw txd plan) ws)
  have tx2 := run_tx (run_of_inv _ hd.inv (idle (n + 1)))
  have p2 := run_pipe (run_of_inv _ hd.inv (idle (n + 1)))
  rw [g1] at tx2
  rw [g2, idle_flatten] at p2
  simp only [Option.toList_none, List.append_nil] at tx2 p2
  have e1 : reads (trace (init ta0 rr0 in0 iw txd plan) ws) =
      accs (trace (init ta0 rr0 in0 iw txd plan) ws) ++ (final (init ta0 rr0 in0 iw txd plan) ws).m.cur.toList := by
    simpa [init] using tx1
  have e3 : ws.flatten = (reads (trace (init ta0 rr0 in0 iw txd plan) ws)).flatten ++
      (final (init ta0 rr0 in0 iw txd plan) ws).m.outPipe := by
    simpa [init] using p1
  have e2 : (final (init ta0 rr0 in0 iw txd plan) ws).drain.m = (final (init ta0 rr0 in0 iw txd plan) ws).m := rfl
  rw [e2] at tx2 p2
  rw [e3, p2, e1, ← tx2]
  simp [List.flatten_append]

end property

/-! ### non-vacuity: a run with both directions active, delayed accepts, an empty and a full chunk -/

def exSys : Sys := init true false [] 1 [1, 0] [(0, [1, 2, 3]), (2, []), (0, [9])]
def exWrites : List Bytes := [[], [], [], (List.range 30).map UInt8.ofNat, [], [], [], [], [40], [], []]

example : accs (trace exSys exWrites) =
    [(List.range 22).map UInt8.ofNat, (List.range' 22 8).map UInt8.ofNat, [40]] := by decide
example : reads (trace exSys exWrites) = accs (trace exSys exWrites) ∧ (final exSys exWrites).m.cur = none := by decide
example : anns (trace exSys exWrites) = [[1, 2, 3], [], [9]] := by decide
example : ((trace exSys exWrites).map (·.delivered)).flatten = [65, 1, 2, 3, 9] := by decide
example : toggles false ((trace exSys exWrites).map (·.out.tr)) = 3 ∧
    toggles false ((trace exSys exWrites).map (·.out.ra)) = 3 := by decide
example : (trace exSys exWrites).map (·.out.tr) =
    [false, false, false, true, true, false, false, false, true, true, true] := by decide

/-- progress, non-vacuously: a run that stops with 78 bytes still in the pipe and a 9-cycle accept delay pending -/
def exStuck : List Bytes := [[], [], [], (List.range 100).map UInt8.ofNat, []]
example : (final exSys exStuck).m.connected = true ∧ (final exSys exStuck).t.phase = .ready ∧
    (final (init true false [] 1 [9] []) exStuck).m.outPipe.length = 78 ∧
    (final (init true false [] 1 [9] []) exStuck).m.outPipe.length ≤ readMax * 4 := by decide
example : (accs (trace (init true false [] 1 [9] []) exStuck) ++
    accs (trace (final (init true false [] 1 [9] []) exStuck).drain (idle 5))).flatten = exStuck.flatten := by decide

end Ebv.C28
