import Ebv.Model.SdoSystem
/-! C16 — SDO transfers carry values byte-for-byte.

The theorems are about `SdoSystem.system`: the master of `Ebv.Sdo` (a transcription of
`Terminal.sdo_read/sdo_write/mbx_send/mbx_recv`) composed with the conformant server of
`Ebv.SdoServer`.  One theorem per transfer mode, each for all object contents, lengths, mailbox
sizes, indices, counters and schedules (delays, unrelated mail, drain by `mbx_send`).  The modes the code
gets wrong are stated at full strength as `def …_full : Prop`, refuted on a concrete witness, and what
remains provable is `…_partial`. -/
namespace Ebv.C16
open Ebv.Bytes Ebv.Sdo Ebv.SdoServer Ebv.SdoSystem Ebv.Consts

/-! ### hypotheses of the theorems -/

/-- the domain of the model: both mailboxes can hold an SDO header, sizes are 16-bit registers,
index and subindex fit their fields, the mailbox counter is one `MailboxLock` can hold -/
def Wf (p : Params) : Prop :=
  16 ≤ p.outSz ∧ 16 ≤ p.inSz ∧ p.inSz < 65536 ∧ p.index < 65536 ∧ subOr1 p < 256

/-- mail of another mailbox protocol, as the master will read it -/
def unrelated (inSz : Nat) (m : List UInt8) : Bool :=
  match decodeMail (padTo inSz m) with
  | .ok (t, _) => t != mbx_COE
  | .err _ => false

/-- unrelated mail only, and register 0x805 shows "full" only while such mail is pending -/
def SchedOk (inSz : Nat) (sched : List Slot) : Prop :=
  ∀ sl ∈ sched, (∀ m ∈ sl.pre, unrelated inSz m = true) ∧ (sl.full = true → sl.pre ≠ [])

/-- responses may be late, but nothing else is in the mailbox -/
def DelaysOnly (sched : List Slot) : Prop := ∀ sl ∈ sched, sl.pre = [] ∧ sl.full = false

/-- the object the call is about exists and holds `v` -/
def Holds (p : Params) (objs : List Obj) (o : Obj) : Prop :=
  find objs p.index (subOr1 p) p.sub.isNone = some o

/-! ### the monad -/

theorem bind_ok {α β : Type} {x : M α} {f : α → M β} {s s' : St} {a : α} (h : x s = (s', .ok a)) :
    (x >>= f) s = f a s' := by
  show M.bind x f s = _
  unfold M.bind; rw [h]

theorem bind_err {α β : Type} {x : M α} {f : α → M β} {s s' : St} {e : Err} (h : x s = (s', .err e)) :
    (x >>= f) s = (s', .err e) := by
  show M.bind x f s = _
  unfold M.bind; rw [h]

/-! ### bytes -/

theorem typ_nibble (t c : Nat) (ht : t < 16) : ((t ||| c <<< 4) % 256) &&& 15 = t := by
  have h1 : t ||| c <<< 4 = c <<< 4 + t := by
    rw [Nat.or_comm]; exact (Nat.shiftLeft_add_eq_or_of_lt (by omega) c).symm
  have h2 : (15 : Nat) = 2 ^ 4 - 1 := by decide
  rw [h1, h2, Nat.and_two_pow_sub_one_eq_mod, Nat.shiftLeft_eq]
  omega

theorem sdoHdr_length (a b c d : Nat) : (sdoHdr a b c d).length = 6 := by simp [sdoHdr]

theorem u16_sdoHdr0 (coe cmd idx sub : Nat) (rest : List UInt8) (h : coe < 65536) :
    u16 (sdoHdr coe cmd idx sub ++ rest) 0 = coe := by
  simp [u16, slice, sdoHdr, encLE, decLE]; omega
theorem byte_sdoHdr2 (coe cmd idx sub : Nat) (rest : List UInt8) (h : cmd < 256) :
    byte (sdoHdr coe cmd idx sub ++ rest) 2 = cmd := by
  simp [byte, sdoHdr, encLE]; omega
theorem u16_sdoHdr3 (coe cmd idx sub : Nat) (rest : List UInt8) (h : idx < 65536) :
    u16 (sdoHdr coe cmd idx sub ++ rest) 3 = idx := by
  simp [u16, slice, sdoHdr, encLE, decLE]; omega
theorem byte_sdoHdr5 (coe cmd idx sub : Nat) (rest : List UInt8) (h : sub < 256) :
    byte (sdoHdr coe cmd idx sub ++ rest) 5 = sub := by
  simp [byte, sdoHdr, encLE]; omega
theorem drop6_sdoHdr (coe cmd idx sub : Nat) (rest : List UInt8) :
    (sdoHdr coe cmd idx sub ++ rest).drop 6 = rest := by
  simp [sdoHdr, encLE]

theorem rd16_eq_u16 (bs : List UInt8) (o : Nat) : rd16 bs o = u16 bs o := by simp [rd16, u16, slice]
theorem rd32_eq_u32 (bs : List UInt8) (o : Nat) : rd32 bs o = u32 bs o := by simp [rd32, u32, slice]
theorem rd8_eq_byte (bs : List UInt8) (o : Nat) : rd8 bs o = byte bs o := rfl

theorem sdoBody_eq (svc cmd i sub : Nat) (rest : List UInt8) :
    sdoBody svc cmd i sub rest = sdoHdr (svc <<< 12) cmd i sub ++ rest := by simp [sdoBody, sdoHdr]

theorem padTo_of_le (n : Nat) (bs : List UInt8) (h : bs.length ≤ n) : padTo n bs = bs ++ zeros (n - bs.length) := by
  simp only [padTo, zeros, List.take_append, List.take_replicate]
  rw [List.take_of_length_le h]
  congr 2
  omega

/-- the mail the server builds -/
def srvMail (typ cnt : Nat) (body : List UInt8) : List UInt8 :=
  encLE 2 body.length ++ encLE 2 0 ++ [0, UInt8.ofNat (typ ||| cnt <<< 4)] ++ body

@[simp] theorem srvMail_length (typ cnt : Nat) (body : List UInt8) : (srvMail typ cnt body).length = 6 + body.length := by
  simp [srvMail]; omega

theorem mail_eq (s : Srv) (typ : Nat) (body : List UInt8) :
    mail s typ body = ({ s with cnt := s.cnt % 7 + 1 }, [srvMail typ s.cnt body]) := rfl

theorem decodeMail_srvMail (n typ cnt : Nat) (body : List UInt8) (hn : 6 + body.length ≤ n)
    (hb : body.length < 65536) (ht : typ < 16) (hty : mbxTypes.contains typ = true) :
    decodeMail (padTo n (srvMail typ cnt body)) = .ok (typ, body) := by
  rw [padTo_of_le _ _ (by simp; omega)]
  have h0 : u16 (srvMail typ cnt body ++ zeros (n - (srvMail typ cnt body).length)) 0 = body.length := by
    simp [u16, slice, srvMail, encLE, decLE]; omega
  have h5 : byte (srvMail typ cnt body ++ zeros (n - (srvMail typ cnt body).length)) 5 &&& 15 = typ := by
    have : byte (srvMail typ cnt body ++ zeros (n - (srvMail typ cnt body).length)) 5 = (typ ||| cnt <<< 4) % 256 := by
      simp only [srvMail, encLE, List.cons_append, List.nil_append]
      exact UInt8.toNat_ofNat'
    rw [this]; exact typ_nibble typ cnt ht
  have hd : ((srvMail typ cnt body ++ zeros (n - (srvMail typ cnt body).length)).drop 6).take body.length = body := by
    simp [srvMail, encLE]
  simp only [decodeMail, h0, h5, hd, hty, if_true]

/-! ### mbx_send, mbx_recv on the states that occur -/

/-- the mailbox message for a payload: header (length, address 0, channel/priority 0, CoE | counter) + payload -/
def msgOf (cnt : Nat) (body : List UInt8) : List UInt8 := mbxHeader body.length mbx_COE cnt ++ body

@[simp] theorem msgOf_length (cnt : Nat) (body : List UInt8) : (msgOf cnt body).length = 6 + body.length := by
  simp [msgOf, mbxHeader]; omega

@[simp] theorem sent_append (a b : List Ev) : sent (a ++ b) = sent a ++ sent b := by
  induction a with
  | nil => rfl
  | cons e a ih => cases e <;> simp [sent, ih]

@[simp] theorem sent_polls (d : Nat) : sent (polls d) = [] := by
  induction d with
  | zero => rfl
  | succ d ih => simpa [polls, List.replicate_succ, sent] using ih

def skipEvs (k : Nat) : List Ev := (List.replicate k (polls 0)).flatten

@[simp] theorem sent_skipEvs (k : Nat) : sent (skipEvs k) = [] := by
  induction k with
  | zero => rfl
  | succ k ih => simpa [skipEvs, List.replicate_succ] using ih

theorem mbxSend_nofull (body : List UInt8) (s : St) (hb : body.length < 65536) (hf : s.fulls.headD false = false) :
    mbxSend body s = ({ s with cnt := s.cnt % mbxMod + 1, fulls := s.fulls.tail,
                               tr := s.tr ++ [.st0 false, .send (msgOf s.cnt body), .kick] }, .ok ()) := by
  obtain ⟨cnt, fulls, mails, tr⟩ := s
  have hb' : ¬ body.length ≥ 65536 := by omega
  cases fulls with
  | nil => simp [mbxSend, bind, M.bind, pollOut, nextCounter, emit, hb', msgOf]
  | cons f fs =>
    simp at hf; subst hf
    simp [mbxSend, bind, M.bind, pollOut, nextCounter, emit, hb', msgOf]

theorem mbxSend_full (body : List UInt8) (s : St) (hb : body.length < 65536) (fs : List Bool) (m : Mail) (ms : List Mail)
    (td : Nat × List UInt8) (hf : s.fulls = true :: fs) (hm : s.mails = m :: ms) (hd : decodeMail m.raw = .ok td) :
    mbxSend body s = ({ cnt := s.cnt % mbxMod + 1, fulls := fs, mails := ms,
                        tr := s.tr ++ [.st0 true] ++ polls m.delay ++ [.send (msgOf s.cnt body), .kick] }, .ok ()) := by
  obtain ⟨cnt, fulls, mails, tr⟩ := s
  simp at hf hm; subst hf hm
  have hb' : ¬ body.length ≥ 65536 := by omega
  simp [mbxSend, bind, M.bind, pollOut, nextCounter, emit, hb', msgOf, discardMail, mbxRecv, hd]

theorem recvCoeL_skip (inSz : Nat) (pre : List (List UInt8)) (tail : List Mail)
    (h : ∀ m ∈ pre, unrelated inSz m = true) :
    recvCoeL (pre.map (toMail inSz 0) ++ tail) =
      (skipEvs pre.length ++ (recvCoeL tail).1, (recvCoeL tail).2.1, (recvCoeL tail).2.2) := by
  induction pre with
  | nil => simp [skipEvs]
  | cons m pre ih =>
    have hm := h m (by simp)
    have ih := ih (fun x hx => h x (by simp [hx]))
    simp only [List.map_cons, List.cons_append, recvCoeL]
    unfold unrelated at hm
    simp only [toMail]
    cases hd : decodeMail (padTo inSz m) with
    | err e => simp [hd] at hm
    | ok td =>
      obtain ⟨t, d⟩ := td
      simp only [hd] at hm
      have : t ≠ mbx_COE := by simpa using hm
      simp only [this, if_false]
      rw [ih]
      simp [skipEvs, List.replicate_succ]

/-- the first request of a call under a schedule: what is pending is unrelated mail, one of which the
`mbx_send` drains when 0x805 says "full" -/
theorem send_first (inSz cnt : Nat) (fulls : List Bool) (pre : List (List UInt8)) (tail : List Mail) (body : List UInt8)
    (hpre : ∀ m ∈ pre, unrelated inSz m = true) (hfull : fulls.headD false = true → pre ≠ [])
    (hb : body.length < 65536) :
    ∃ (tr1 : List Ev) (pre' : List (List UInt8)), (∀ m ∈ pre', unrelated inSz m = true) ∧ sent tr1 = [msgOf cnt body] ∧
      mbxSend body ⟨cnt, fulls, pre.map (toMail inSz 0) ++ tail, []⟩ =
        (⟨cnt % mbxMod + 1, fulls.tail, pre'.map (toMail inSz 0) ++ tail, tr1⟩, .ok ()) := by
  cases hf : fulls.headD false with
  | false =>
    refine ⟨[] ++ [.st0 false, .send (msgOf cnt body), .kick], pre, hpre, ?_, mbxSend_nofull body _ hb hf⟩
    simp [sent]
  | true =>
    have hne := hfull hf
    obtain ⟨m, pre', rfl⟩ := List.exists_cons_of_ne_nil hne
    obtain ⟨f, fs, rfl⟩ : ∃ f fs, fulls = f :: fs := by
      cases fulls with
      | nil => simp at hf
      | cons f fs => exact ⟨f, fs, rfl⟩
    simp at hf; subst hf
    have hm := hpre m (by simp)
    unfold unrelated at hm
    cases hd : decodeMail (padTo inSz m) with
    | err e => simp [hd] at hm
    | ok td =>
      refine ⟨[] ++ [.st0 true] ++ polls 0 ++ [.send (msgOf cnt body), .kick], pre',
        fun x hx => hpre x (by simp [hx]), ?_,
        mbxSend_full body _ hb fs (toMail inSz 0 m) (pre'.map (toMail inSz 0) ++ tail) td rfl (by simp) (by simpa [toMail] using hd)⟩
      simp [sent]

/-- request written, nothing but unrelated mail ever arrives: the call waits, having sent exactly the request -/
theorem exchange_blocked {α : Type} (inSz cnt : Nat) (fulls : List Bool) (pre : List (List UInt8)) (body : List UInt8)
    (k : List UInt8 → M α)
    (hpre : ∀ m ∈ pre, unrelated inSz m = true) (hfull : fulls.headD false = true → pre ≠ [])
    (hb : body.length < 65536) :
    ∃ s', (mbxSend body >>= fun _ => recvCoe >>= k) ⟨cnt, fulls, pre.map (toMail inSz 0), []⟩ = (s', .err .blocked) ∧
      sent s'.tr = [msgOf cnt body] := by
  obtain ⟨tr1, pre', hpre', hs, h⟩ := send_first inSz cnt fulls pre [] body hpre hfull hb
  simp only [List.append_nil] at h
  rw [bind_ok h]
  have hr : recvCoe ⟨cnt % mbxMod + 1, fulls.tail, pre'.map (toMail inSz 0), tr1⟩ =
      (⟨cnt % mbxMod + 1, fulls.tail, [], tr1 ++ skipEvs pre'.length⟩, .err .blocked) := by
    have := recvCoeL_skip inSz pre' [] hpre'
    simp only [List.append_nil] at this
    simp [recvCoe, this, recvCoeL]
  exact ⟨_, bind_err hr, by simp [hs]⟩

/-- request written, the answer arrives behind the unrelated mail: the call goes on with the answer's payload -/
theorem exchange_ok {α : Type} (inSz cnt : Nat) (fulls : List Bool) (pre : List (List UInt8)) (body : List UInt8)
    (k : List UInt8 → M α) (d : Nat) (resp data : List UInt8) (rest : List Mail)
    (hpre : ∀ m ∈ pre, unrelated inSz m = true) (hfull : fulls.headD false = true → pre ≠ [])
    (hb : body.length < 65536) (hresp : decodeMail (padTo inSz resp) = .ok (mbx_COE, data)) :
    ∃ tr, sent tr = [msgOf cnt body] ∧
      (mbxSend body >>= fun _ => recvCoe >>= k) ⟨cnt, fulls, pre.map (toMail inSz 0) ++ toMail inSz d resp :: rest, []⟩ =
        k data ⟨cnt % mbxMod + 1, fulls.tail, rest, tr⟩ := by
  obtain ⟨tr1, pre', hpre', hs, h⟩ := send_first inSz cnt fulls pre (toMail inSz d resp :: rest) body hpre hfull hb
  rw [bind_ok h]
  have hr : recvCoe ⟨cnt % mbxMod + 1, fulls.tail, pre'.map (toMail inSz 0) ++ toMail inSz d resp :: rest, tr1⟩ =
      (⟨cnt % mbxMod + 1, fulls.tail, rest, tr1 ++ (skipEvs pre'.length ++ polls d)⟩, .ok data) := by
    have h1 := recvCoeL_skip inSz pre' (toMail inSz d resp :: rest) hpre'
    have h2 : recvCoeL (toMail inSz d resp :: rest) = (polls d, rest, .ok data) := by
      simp [recvCoeL, toMail, hresp]
    rw [h2] at h1
    simp only [recvCoe, h1]
  exact ⟨_, by simp [hs], bind_ok hr⟩

/-! ### the composed system when one exchange settles the call -/

theorem iter_fix {α : Type} (f : α → α) (x : α) (h : f x = x) (n : Nat) : iter f n x = x := by
  induction n with
  | zero => rfl
  | succ n ih => simp [iter, h, ih]

theorem serveAll_one (s s1 : Srv) (req : List UInt8) (rs : List (List UInt8)) (h : step s req = (s1, rs)) :
    serveAll s [req] = (s1, [rs]) := by
  simp [serveAll, h]

/-- if the call sends `req` whatever it waits for, the server answers `resp`, and with `resp` in the mailbox the
call sends nothing more, then that is the run of the composed system -/
theorem single_exchange (c : Setup) (req resp : List UInt8) (srv1 : Srv) (o : R (List UInt8))
    (hreq : req.length ≤ c.p.outSz)
    (h0 : sent (run c.p c.kind c.cnt c.fulls (mkMails c.p.inSz c.sched [])).1 = [req])
    (hsrv : step c.srv req = (srv1, [resp]))
    (h1 : sent (run c.p c.kind c.cnt c.fulls (mkMails c.p.inSz c.sched [[resp]])).1 = [req])
    (ho : (run c.p c.kind c.cnt c.fulls (mkMails c.p.inSz c.sched [[resp]])).2 = o) :
    ∀ n, 1 ≤ n → (system c n).outcome = o ∧ (system c n).objs = srv1.objs ∧ (system c n).responses = [[resp]] ∧
      sent (system c n).trace = [req] := by
  have ht : req.take c.p.outSz = req := List.take_of_length_le hreq
  have r0 : requests c (mkMails c.p.inSz c.sched []) = [req] := by simp [requests, h0, ht]
  have r1 : requests c (mkMails c.p.inSz c.sched [[resp]]) = [req] := by simp [requests, h1, ht]
  have hs := serveAll_one _ _ _ _ hsrv
  have f0 : round c (mkMails c.p.inSz c.sched []) = mkMails c.p.inSz c.sched [[resp]] := by simp [round, r0, hs]
  have f1 : round c (mkMails c.p.inSz c.sched [[resp]]) = mkMails c.p.inSz c.sched [[resp]] := by simp [round, r1, hs]
  intro n hn
  obtain ⟨m, rfl⟩ : ∃ m, n = m + 1 := ⟨n - 1, by omega⟩
  have hm : mailsAfter c (m + 1) = mkMails c.p.inSz c.sched [[resp]] := by
    simp [mailsAfter, iter, f0, iter_fix _ _ f1]
  simp only [system, resultOf, hm, r1, hs]
  exact ⟨ho, trivial, trivial, h1⟩

/-! ### the server on the master's messages -/

theorem msgOf_parts (cnt : Nat) (body : List UInt8) (hb : body.length < 65536) :
    rd16 (msgOf cnt body) 0 = body.length ∧ rd8 (msgOf cnt body) 5 &&& 0xf = mbx_COE ∧
      ((msgOf cnt body).drop 6).take body.length = body := by
  refine ⟨?_, ?_, ?_⟩
  · simp [rd16, msgOf, mbxHeader, encLE, decLE]; omega
  · have : rd8 (msgOf cnt body) 5 = (mbx_COE ||| cnt <<< 4) % 256 := by
      simp only [msgOf, mbxHeader, encLE, List.cons_append, List.nil_append]
      exact UInt8.toNat_ofNat'
    rw [this]; exact typ_nibble mbx_COE cnt (by decide)
  · simp [msgOf, mbxHeader, encLE]

/-- a CoE SDO request of the master that fits the receive mailbox reaches the SDO service it names -/
theorem step_sdo (s : Srv) (cnt : Nat) (body : List UInt8) (h10 : 10 ≤ body.length) (hfit : 6 + body.length ≤ s.outSz)
    (hb : body.length < 65536) (hsvc : u16 body 0 >>> 12 = 2) :
    step s (msgOf cnt body) =
      match byte body 2 >>> 5 with
      | 1 => initDownload s (byte body 2) body
      | 0 => downloadSegment s (byte body 2) body.length body
      | 2 => initUpload s (byte body 2) body
      | 3 => uploadSegment s (byte body 2)
      | 4 => ({ s with xfer := .idle }, [])
      | _ => abort s 0 0 abCmd := by
  obtain ⟨h1, h2, h3⟩ := msgOf_parts cnt body hb
  have hl : ¬ (msgOf cnt body).length < 6 := by simp
  have hf : ¬ 6 + body.length > s.outSz := by omega
  have ht : ¬ mbx_COE ≠ mbxCoE := by decide
  have h2' : ¬ body.length < 2 := by omega
  have h10' : ¬ body.length < 10 := by omega
  have hs : ¬ rd16 body 0 >>> 12 ≠ svcSdoReq := by rw [rd16_eq_u16, hsvc]; decide
  unfold step
  have ht' : ¬ byte (msgOf cnt body) 5 &&& 15 ≠ mbxCoE := by rw [← rd8_eq_byte, h2]; exact ht
  simp only [hl, if_false, h1, h3, hf, h2', h10', Nat.sub_self, zeros, List.replicate_zero, List.append_nil, hs,
    rd8_eq_byte, ht']
  rfl

/-! ### upload: the request, the server's answer, what the master makes of it -/

/-- the command byte of the upload request -/
def upCmd (p : Params) : Nat := if p.sub.isNone then od_UP_REQ_CA else od_UP_REQ

theorem upReq_eq (p : Params) : upReq p = sdoHdr (coe_SDOREQ <<< 12) (upCmd p) p.index (subOr1 p) ++ zeros 4 := rfl

@[simp] theorem upReq_length (p : Params) : (upReq p).length = 10 := by simp [upReq, sdoHdr_length]

theorem upCmd_facts (p : Params) : upCmd p < 256 ∧ upCmd p >>> 5 = 2 ∧ (upCmd p &&& 0x10 != 0) = p.sub.isNone := by
  unfold upCmd
  cases p.sub <;> simp <;> decide

/-- what a conformant server answers to an initiate-upload request for an object it has -/
def uploadAnswer (s : Srv) (p : Params) (o : Obj) : Srv × List (List UInt8) :=
  if 1 ≤ o.val.length ∧ o.val.length ≤ 4 then
    respond { s with xfer := .idle } (0x43 ||| ((4 - o.val.length) <<< 2) ||| caBit p.sub.isNone) p.index (subOr1 p)
      (o.val ++ zeros (4 - o.val.length))
  else
    respond (if o.val.length > s.inSz - 16
        then { s with xfer := .up p.index (subOr1 p) p.sub.isNone (o.val.drop (s.inSz - 16)) 0 }
        else { s with xfer := .idle })
      (0x41 ||| caBit p.sub.isNone) p.index (subOr1 p) (encLE 4 o.val.length ++ o.val.take (s.inSz - 16))

theorem step_upload (s : Srv) (p : Params) (hwf : Wf p) (cnt : Nat) (o : Obj) (hsz : s.outSz = p.outSz)
    (hfind : find s.objs p.index (subOr1 p) p.sub.isNone = some o) :
    step s (msgOf cnt (upReq p)) = uploadAnswer s p o := by
  obtain ⟨ho, hi, hi2, hidx, hsub⟩ := hwf
  obtain ⟨c1, c2, c3⟩ := upCmd_facts p
  have hsvc : u16 (upReq p) 0 >>> 12 = 2 := by
    rw [upReq_eq, u16_sdoHdr0 _ _ _ _ _ (by decide)]; decide
  rw [step_sdo s cnt (upReq p) (by simp) (by simp; omega) (by simp) hsvc]
  have hcmd : byte (upReq p) 2 = upCmd p := by rw [upReq_eq, byte_sdoHdr2 _ _ _ _ _ c1]
  rw [hcmd, c2]
  simp only [initUpload, rd16_eq_u16, rd8_eq_byte, c3]
  rw [upReq_eq, u16_sdoHdr3 _ _ _ _ _ hidx, byte_sdoHdr5 _ _ _ _ _ hsub]
  simp only [hfind, uploadAnswer]

theorem upExpCmd_facts (n : Nat) (h1 : 1 ≤ n) (h4 : n ≤ 4) (ca : Bool) :
    (0x43 ||| ((4 - n) <<< 2) ||| caBit ca) < 256 ∧ (0x43 ||| ((4 - n) <<< 2) ||| caBit ca) &&& 2 ≠ 0 ∧
      10 - (((0x43 ||| ((4 - n) <<< 2) ||| caBit ca) >>> 2) &&& 3) = 6 + n := by
  have : n = 1 ∨ n = 2 ∨ n = 3 ∨ n = 4 := by omega
  rcases this with rfl | rfl | rfl | rfl <;> cases ca <;> decide

theorem coeRes_facts : svcSdoRes <<< 12 < 65536 ∧ (svcSdoRes <<< 12) >>> 12 = coe_SDORES := by decide

/-- an expedited upload response is unpacked to exactly the object's bytes -/
theorem readCont_expedited (p : Params) (hwf : Wf p) (v : List UInt8) (h1 : 1 ≤ v.length) (h4 : v.length ≤ 4)
    (ca : Bool) (s : St) :
    readCont p (sdoBody svcSdoRes (0x43 ||| ((4 - v.length) <<< 2) ||| caBit ca) p.index (subOr1 p)
      (v ++ zeros (4 - v.length))) s = (s, .ok v) := by
  obtain ⟨ho, hi, hi2, hidx, hsub⟩ := hwf
  obtain ⟨c1, c2, c3⟩ := upExpCmd_facts v.length h1 h4 ca
  obtain ⟨r1, r2⟩ := coeRes_facts
  rw [sdoBody_eq]
  have hlen : ¬ (sdoHdr (svcSdoRes <<< 12) (0x43 ||| ((4 - v.length) <<< 2) ||| caBit ca) p.index (subOr1 p) ++
      (v ++ zeros (4 - v.length))).length < 10 := by
    simp [sdoHdr_length]; omega
  unfold readCont
  simp only [hlen, if_false, u16_sdoHdr0 _ _ _ _ _ r1, byte_sdoHdr2 _ _ _ _ _ c1, u16_sdoHdr3 _ _ _ _ _ hidx, r2, c3]
  simp only [ne_eq, not_true_eq_false, if_false, c2, not_false_eq_true]
  simp [slice, drop6_sdoHdr, M.pure, pure]

theorem u32_sdoHdr6 (coe cmd idx sub n : Nat) (rest : List UInt8) (h : n < 256 ^ 4) :
    u32 (sdoHdr coe cmd idx sub ++ (encLE 4 n ++ rest)) 6 = n := by
  have : slice (sdoHdr coe cmd idx sub ++ (encLE 4 n ++ rest)) 6 (6 + 4) = encLE 4 n := by
    simp [slice, drop6_sdoHdr]
  rw [u32, this, decLE_encLE 4 n h]

theorem drop10_sdoHdr (coe cmd idx sub n : Nat) (rest : List UInt8) :
    (sdoHdr coe cmd idx sub ++ (encLE 4 n ++ rest)).drop 10 = rest := by
  have : (sdoHdr coe cmd idx sub ++ (encLE 4 n ++ rest)).drop 10
      = ((sdoHdr coe cmd idx sub ++ (encLE 4 n ++ rest)).drop 6).drop 4 := by simp
  rw [this, drop6_sdoHdr]; simp

/-- a normal upload response that carries the whole object is unpacked to exactly the object's bytes -/
theorem readCont_normal (p : Params) (hwf : Wf p) (v : List UInt8) (hv : v.length < 256 ^ 4) (ca : Bool) (s : St) :
    readCont p (sdoBody svcSdoRes (0x41 ||| caBit ca) p.index (subOr1 p) (encLE 4 v.length ++ v)) s = (s, .ok v) := by
  obtain ⟨ho, hi, hi2, hidx, hsub⟩ := hwf
  obtain ⟨r1, r2⟩ := coeRes_facts
  have c1 : (0x41 ||| caBit ca) < 256 ∧ (0x41 ||| caBit ca) &&& 2 = 0 := by cases ca <;> decide
  rw [sdoBody_eq]
  have hlen : ¬ (sdoHdr (svcSdoRes <<< 12) (0x41 ||| caBit ca) p.index (subOr1 p) ++ (encLE 4 v.length ++ v)).length < 10 := by
    simp [sdoHdr_length]; omega
  unfold readCont
  simp only [hlen, if_false, u16_sdoHdr0 _ _ _ _ _ r1, byte_sdoHdr2 _ _ _ _ _ c1.1, u16_sdoHdr3 _ _ _ _ _ hidx, r2, c1.2,
    u32_sdoHdr6 _ _ _ _ _ _ hv, drop10_sdoHdr]
  simp only [ne_eq, not_true_eq_false, if_false]
  simp [segStart, segLoop, finish, joinItems, M.pure, pure]

/-! ### schedules: only the first slot matters when one exchange settles the call -/

def hdSlot (sched : List Slot) : Slot := sched.headD ⟨false, [], 0⟩

theorem mkMails_nil (inSz : Nat) (sched : List Slot) :
    mkMails inSz sched [] = (hdSlot sched).pre.map (toMail inSz 0) := by
  cases sched <;> simp [mkMails, hdSlot]

theorem mkMails_one (inSz : Nat) (sched : List Slot) (resp : List UInt8) :
    mkMails inSz sched [[resp]] =
      (hdSlot sched).pre.map (toMail inSz 0) ++ toMail inSz (hdSlot sched).delay resp :: mkMails inSz sched.tail [] := by
  cases sched <;> simp [mkMails, hdSlot]

theorem fulls_head (sched : List Slot) : (sched.map (·.full)).headD false = (hdSlot sched).full := by
  cases sched <;> simp [hdSlot]

theorem schedOk_head (inSz : Nat) (sched : List Slot) (h : SchedOk inSz sched) :
    (∀ m ∈ (hdSlot sched).pre, unrelated inSz m = true) ∧ ((hdSlot sched).full = true → (hdSlot sched).pre ≠ []) := by
  cases sched with
  | nil => simp [hdSlot]
  | cons sl sls => simpa [hdSlot] using h sl (by simp)

theorem sdoRead_eq (p : Params) :
    sdoRead p = (mbxSend (upReq p) >>= fun _ => recvCoe >>= fun data => readCont p data) := rfl

/-- an upload that the first response settles, in the composed system -/
theorem read_exchange (p : Params) (cnt : Nat) (sched : List Slot) (objs : List Obj) (hwf : Wf p)
    (hs : SchedOk p.inSz sched) (resp data v : List UInt8) (srv1 : Srv)
    (hsrv : step (init p.outSz p.inSz objs) (msgOf cnt (upReq p)) = (srv1, [resp]))
    (hdec : decodeMail (padTo p.inSz resp) = .ok (mbx_COE, data))
    (hcont : ∀ s, readCont p data s = (s, .ok v)) :
    ∀ n, 1 ≤ n →
      (system ⟨p, .read, cnt, sched, objs⟩ n).outcome = .ok v ∧
      (system ⟨p, .read, cnt, sched, objs⟩ n).objs = srv1.objs ∧
      (system ⟨p, .read, cnt, sched, objs⟩ n).responses = [[resp]] ∧
      sent (system ⟨p, .read, cnt, sched, objs⟩ n).trace = [msgOf cnt (upReq p)] := by
  obtain ⟨hpre, hfull⟩ := schedOk_head p.inSz sched hs
  rw [← fulls_head] at hfull
  have hb : (upReq p).length < 65536 := by simp
  apply single_exchange ⟨p, .read, cnt, sched, objs⟩ (msgOf cnt (upReq p)) resp srv1 (.ok v)
  · simp; exact hwf.1
  · obtain ⟨s', h1, h2⟩ := exchange_blocked p.inSz cnt (sched.map (·.full)) (hdSlot sched).pre (upReq p)
      (fun data => readCont p data) hpre hfull hb
    simp only [run, master, Setup.fulls, mkMails_nil, sdoRead_eq, h1, h2]
  · exact hsrv
  · obtain ⟨tr, h1, h2⟩ := exchange_ok p.inSz cnt (sched.map (·.full)) (hdSlot sched).pre (upReq p)
      (fun data => readCont p data) (hdSlot sched).delay resp data (mkMails p.inSz sched.tail []) hpre hfull hb hdec
    simp only [run, master, Setup.fulls, mkMails_one, sdoRead_eq, h2, hcont, h1]
  · obtain ⟨tr, h1, h2⟩ := exchange_ok p.inSz cnt (sched.map (·.full)) (hdSlot sched).pre (upReq p)
      (fun data => readCont p data) (hdSlot sched).delay resp data (mkMails p.inSz sched.tail []) hpre hfull hb hdec
    simp only [run, master, Setup.fulls, mkMails_one, sdoRead_eq, h2, hcont]

theorem sdoBody_length (svc cmd i sub : Nat) (rest : List UInt8) : (sdoBody svc cmd i sub rest).length = 6 + rest.length := by
  simp [sdoBody]; omega

/-- the run of an upload that one response settles: the object's bytes, one 16-byte request, one response that fits -/
theorem read_run (p : Params) (cnt : Nat) (sched : List Slot) (objs : List Obj) (o : Obj) (hwf : Wf p)
    (hs : SchedOk p.inSz sched) (hobj : Holds p objs o)
    (hlen : (1 ≤ o.val.length ∧ o.val.length ≤ 4) ∨ o.val.length + 16 ≤ p.inSz) :
    ∃ resp : List UInt8, resp.length ≤ p.inSz ∧ ∀ n, 1 ≤ n →
      (system ⟨p, .read, cnt, sched, objs⟩ n).outcome = .ok o.val ∧
      (system ⟨p, .read, cnt, sched, objs⟩ n).objs = objs ∧
      (system ⟨p, .read, cnt, sched, objs⟩ n).responses = [[resp]] ∧
      sent (system ⟨p, .read, cnt, sched, objs⟩ n).trace = [msgOf cnt (upReq p)] := by
  have hup := step_upload (init p.outSz p.inSz objs) p hwf cnt o rfl hobj
  have hcoe : mbxCoE = mbx_COE := by decide
  obtain ⟨ho, hi, hi2, hidx, hsub⟩ := hwf
  by_cases hexp : 1 ≤ o.val.length ∧ o.val.length ≤ 4
  · simp only [uploadAnswer, hexp, and_self, if_true, respond, mail_eq] at hup
    refine ⟨_, ?_, read_exchange p cnt sched objs ⟨ho, hi, hi2, hidx, hsub⟩ hs _
      (sdoBody svcSdoRes (0x43 ||| (4 - o.val.length) <<< 2 ||| caBit p.sub.isNone) p.index (subOr1 p)
        (o.val ++ zeros (4 - o.val.length))) o.val _ hup ?_ ?_⟩
    · simp [sdoBody_length]; omega
    · rw [← hcoe]
      exact decodeMail_srvMail _ _ _ _ (by simp [sdoBody_length]; omega) (by simp [sdoBody_length]; omega)
        (by decide) (by decide)
    · intro s
      exact readCont_expedited p ⟨ho, hi, hi2, hidx, hsub⟩ o.val hexp.1 hexp.2 _ s
  · have hfit : o.val.length + 16 ≤ p.inSz := by
      rcases hlen with h | h
      · exact absurd h hexp
      · exact h
    have hnot : ¬ o.val.length > (init p.outSz p.inSz objs).inSz - 16 := by simp [init]; omega
    have htake : o.val.take ((init p.outSz p.inSz objs).inSz - 16) = o.val :=
      List.take_of_length_le (by simp [init]; omega)
    simp only [uploadAnswer, hexp, if_false, hnot, htake, respond, mail_eq] at hup
    refine ⟨_, ?_, read_exchange p cnt sched objs ⟨ho, hi, hi2, hidx, hsub⟩ hs _
      (sdoBody svcSdoRes (0x41 ||| caBit p.sub.isNone) p.index (subOr1 p) (encLE 4 o.val.length ++ o.val)) o.val _ hup ?_ ?_⟩
    · simp [sdoBody_length]; omega
    · rw [← hcoe]
      exact decodeMail_srvMail _ _ _ _ (by simp [sdoBody_length]; omega) (by simp [sdoBody_length]; omega)
        (by decide) (by decide)
    · intro s
      exact readCont_normal p ⟨ho, hi, hi2, hidx, hsub⟩ o.val (by omega) _ s

/-! ## the property, mode by mode -/

/-- **expedited upload**: an object of 1..4 bytes is returned byte for byte — every content, index, subindex or
complete access, mailbox sizes, counter, and every schedule of delays, unrelated mail and drains -/
theorem read_expedited_exact (p : Params) (cnt : Nat) (sched : List Slot) (objs : List Obj) (o : Obj) (hwf : Wf p)
    (hs : SchedOk p.inSz sched) (hobj : Holds p objs o) (h1 : 1 ≤ o.val.length) (h4 : o.val.length ≤ 4) :
    ∀ n, 1 ≤ n → (system ⟨p, .read, cnt, sched, objs⟩ n).outcome = .ok o.val := by
  obtain ⟨resp, _, h⟩ := read_run p cnt sched objs o hwf hs hobj (Or.inl ⟨h1, h4⟩)
  exact fun n hn => (h n hn).1

/-- **normal upload in one frame**: an object of 0 or 5..`inSz − 16` bytes is returned byte for byte -/
theorem read_normal_exact (p : Params) (cnt : Nat) (sched : List Slot) (objs : List Obj) (o : Obj) (hwf : Wf p)
    (hs : SchedOk p.inSz sched) (hobj : Holds p objs o) (hfit : o.val.length + 16 ≤ p.inSz) :
    ∀ n, 1 ≤ n → (system ⟨p, .read, cnt, sched, objs⟩ n).outcome = .ok o.val := by
  obtain ⟨resp, _, h⟩ := read_run p cnt sched objs o hwf hs hobj (Or.inr hfit)
  exact fun n hn => (h n hn).1

/-! ### expedited download -/

/-- what `sdo_write` does with the mail it receives after an expedited request -/
def expCont (p : Params) (td : Nat × List UInt8) : M (List UInt8) :=
  if td.1 ≠ mbx_COE then fail .nameError
  else if td.2.length < 6 then fail .structError
  else if u16 td.2 3 ≠ p.index ∨ p.sub ≠ some (byte td.2 5) then fail .ethercat
  else if u16 td.2 0 >>> 12 ≠ coe_SDORES then fail .ethercat
  else pure []

theorem sdoWrite_exp_eq (p : Params) (v : List UInt8) (h : v.length ≤ 4 ∧ p.sub.isSome = true) :
    sdoWrite p v = (mbxSend (expReq p v) >>= fun _ => mbxRecv >>= expCont p) := by
  unfold sdoWrite
  simp only [h, and_self, if_true]
  rfl

theorem mbxRecv_nil (s : St) (h : s.mails = []) : mbxRecv s = (s, .err .blocked) := by
  simp [mbxRecv, h]

theorem mbxRecv_cons (s : St) (m : Mail) (ms : List Mail) (h : s.mails = m :: ms) :
    mbxRecv s = ({ s with mails := ms, tr := s.tr ++ polls m.delay }, decodeMail m.raw) := by
  simp [mbxRecv, h]

theorem delaysOnly_head (sched : List Slot) (h : DelaysOnly sched) :
    (hdSlot sched).pre = [] ∧ (hdSlot sched).full = false ∧ DelaysOnly sched.tail := by
  cases sched with
  | nil => simp [hdSlot, DelaysOnly]
  | cons sl sls =>
    refine ⟨(h sl (by simp)).1, (h sl (by simp)).2, fun x hx => h x (by simp at hx ⊢; exact Or.inr hx)⟩

@[simp] theorem expReq_length (p : Params) (v : List UInt8) (h : v.length ≤ 4) : (expReq p v).length = 10 := by
  simp [expReq, sdoHdr_length]; omega

/-- request written with nothing pending, no answer: the call waits, having sent exactly the request -/
theorem wexchange_blocked {α : Type} (cnt : Nat) (fulls : List Bool) (body : List UInt8) (k : Nat × List UInt8 → M α)
    (hf : fulls.headD false = false) (hb : body.length < 65536) :
    ∃ s', (mbxSend body >>= fun _ => mbxRecv >>= k) ⟨cnt, fulls, [], []⟩ = (s', .err .blocked) ∧
      sent s'.tr = [msgOf cnt body] := by
  rw [bind_ok (mbxSend_nofull body ⟨cnt, fulls, [], []⟩ hb hf)]
  exact ⟨_, bind_err (mbxRecv_nil _ rfl), by simp [sent]⟩

/-- request written with nothing pending, the next mail is `raw`: the call goes on with what it decodes to -/
theorem wexchange_ok {α : Type} (cnt : Nat) (fulls : List Bool) (body : List UInt8) (k : Nat × List UInt8 → M α)
    (d : Nat) (raw : List UInt8) (rest : List Mail) (td : Nat × List UInt8)
    (hf : fulls.headD false = false) (hb : body.length < 65536) (hdec : decodeMail raw = .ok td) :
    ∃ tr, sent tr = [msgOf cnt body] ∧
      (mbxSend body >>= fun _ => mbxRecv >>= k) ⟨cnt, fulls, ⟨d, raw⟩ :: rest, []⟩ =
        k td ⟨cnt % mbxMod + 1, fulls.tail, rest, tr⟩ := by
  rw [bind_ok (mbxSend_nofull body ⟨cnt, fulls, ⟨d, raw⟩ :: rest, []⟩ hb hf)]
  refine ⟨[] ++ [.st0 false, .send (msgOf cnt body), .kick] ++ polls d, by simp [sent], ?_⟩
  exact bind_ok (by rw [mbxRecv_cons _ _ _ rfl]; simp [hdec])

/-- a download that one exchange settles, in the composed system, whatever the server makes of the request -/
theorem w_exchange (p : Params) (cnt : Nat) (sched : List Slot) (objs : List Obj) (v body : List UInt8)
    (k : Nat × List UInt8 → M (List UInt8)) (hs : DelaysOnly sched)
    (hm : sdoWrite p v = (mbxSend body >>= fun _ => mbxRecv >>= k))
    (hb : body.length < 65536) (hfit : 6 + body.length ≤ p.outSz)
    (resp : List UInt8) (td : Nat × List UInt8) (srv1 : Srv) (o : R (List UInt8))
    (hsrv : step (init p.outSz p.inSz objs) (msgOf cnt body) = (srv1, [resp]))
    (hdec : decodeMail (padTo p.inSz resp) = .ok td)
    (hcont : ∀ s, k td s = (s, o)) :
    ∀ n, 1 ≤ n →
      (system ⟨p, .write v, cnt, sched, objs⟩ n).outcome = o ∧
      (system ⟨p, .write v, cnt, sched, objs⟩ n).objs = srv1.objs ∧
      (system ⟨p, .write v, cnt, sched, objs⟩ n).responses = [[resp]] ∧
      sent (system ⟨p, .write v, cnt, sched, objs⟩ n).trace = [msgOf cnt body] := by
  obtain ⟨hpre, hfull, htail⟩ := delaysOnly_head sched hs
  rw [← fulls_head] at hfull
  apply single_exchange ⟨p, .write v, cnt, sched, objs⟩ (msgOf cnt body) resp srv1 o
  · simp; exact hfit
  · obtain ⟨s', h1, h2⟩ := wexchange_blocked cnt (sched.map (·.full)) body k hfull hb
    simp only [run, master, Setup.fulls, mkMails_nil, hpre, List.map_nil, hm, h1, h2]
  · exact hsrv
  · obtain ⟨tr, h1, h2⟩ := wexchange_ok cnt (sched.map (·.full)) body k (hdSlot sched).delay
      (padTo p.inSz resp) (mkMails p.inSz sched.tail []) td hfull hb hdec
    simp only [run, master, Setup.fulls, mkMails_one, hpre, List.map_nil, List.nil_append, toMail, hm, h2, hcont, h1]
  · obtain ⟨tr, h1, h2⟩ := wexchange_ok cnt (sched.map (·.full)) body k (hdSlot sched).delay
      (padTo p.inSz resp) (mkMails p.inSz sched.tail []) td hfull hb hdec
    simp only [run, master, Setup.fulls, mkMails_one, hpre, List.map_nil, List.nil_append, toMail, hm, h2, hcont]

/-- an expedited download in the composed system, whatever the server makes of the request -/
theorem exp_exchange (p : Params) (cnt : Nat) (sched : List Slot) (objs : List Obj) (v : List UInt8) (hwf : Wf p)
    (hs : DelaysOnly sched) (hv : v.length ≤ 4) (hsub : p.sub.isSome = true)
    (resp : List UInt8) (td : Nat × List UInt8) (srv1 : Srv) (o : R (List UInt8))
    (hsrv : step (init p.outSz p.inSz objs) (msgOf cnt (expReq p v)) = (srv1, [resp]))
    (hdec : decodeMail (padTo p.inSz resp) = .ok td)
    (hcont : ∀ s, expCont p td s = (s, o)) :
    ∀ n, 1 ≤ n →
      (system ⟨p, .write v, cnt, sched, objs⟩ n).outcome = o ∧
      (system ⟨p, .write v, cnt, sched, objs⟩ n).objs = srv1.objs ∧
      (system ⟨p, .write v, cnt, sched, objs⟩ n).responses = [[resp]] ∧
      sent (system ⟨p, .write v, cnt, sched, objs⟩ n).trace = [msgOf cnt (expReq p v)] :=
  w_exchange p cnt sched objs v (expReq p v) (expCont p) hs (sdoWrite_exp_eq p v ⟨hv, hsub⟩) (by simp [hv])
    (by simp [hv]; exact hwf.1) resp td srv1 o hsrv hdec hcont

/-- the command byte of the expedited download request -/
def expCmd (n : Nat) : Nat := od_DOWN_EXP ||| (((4 - n) <<< 2) &&& 0xc)

theorem expReq_eq (p : Params) (v : List UInt8) :
    expReq p v = sdoHdr (coe_SDOREQ <<< 12) (expCmd v.length) p.index (subOr1 p) ++ (v ++ zeros (4 - v.length)) := rfl

theorem expCmd_facts (n : Nat) (h1 : 1 ≤ n) (h4 : n ≤ 4) :
    expCmd n < 256 ∧ expCmd n >>> 5 = 1 ∧ (expCmd n &&& 0x10 != 0) = false ∧ (expCmd n &&& 2 != 0) = true ∧
      (expCmd n &&& 1 != 0) = true ∧ 4 - ((expCmd n >>> 2) &&& 3) = n := by
  have : n = 1 ∨ n = 2 ∨ n = 3 ∨ n = 4 := by omega
  rcases this with rfl | rfl | rfl | rfl <;> decide

theorem find_store (objs : List Obj) (i s : Nat) (ca : Bool) (o : Obj) (v : List UInt8)
    (h : find objs i s ca = some o) : find (store objs i s ca v) i s ca = some { o with val := v } := by
  induction objs with
  | nil => simp [find] at h
  | cons x xs ih =>
    simp only [find, store, List.map_cons, List.find?_cons] at h ⊢
    by_cases hx : (x.index == i && x.sub == s && x.ca == ca) = true
    · simp only [hx, if_true] at h ⊢
      have : x = o := by simpa using h
      subst this
      simp
    · simp only [hx] at h ⊢
      simp only [Bool.false_eq_true, if_false, hx]
      exact ih h

/-- a conformant server stores the 1..4 data bytes of an expedited download and confirms -/
theorem step_download_exp (s : Srv) (p : Params) (hwf : Wf p) (cnt : Nat) (o : Obj) (v : List UInt8)
    (hsz : s.outSz = p.outSz)
    (hfind : find s.objs p.index (subOr1 p) false = some o) (h1 : 1 ≤ v.length) (h4 : v.length ≤ 4)
    (hcap : v.length ≤ o.cap) :
    step s (msgOf cnt (expReq p v)) =
      respond { s with xfer := .idle, objs := store s.objs p.index (subOr1 p) false v } 0x60 p.index (subOr1 p) (zeros 4) := by
  obtain ⟨ho, hi, hi2, hidx, hsb⟩ := hwf
  obtain ⟨c1, c2, c3, c4, c5, c6⟩ := expCmd_facts v.length h1 h4
  have hsvc : u16 (expReq p v) 0 >>> 12 = 2 := by
    rw [expReq_eq, u16_sdoHdr0 _ _ _ _ _ (by decide)]; decide
  rw [step_sdo s cnt (expReq p v) (by simp [h4]) (by simp [h4]; omega) (by simp [h4]) hsvc]
  have hcmd : byte (expReq p v) 2 = expCmd v.length := by rw [expReq_eq, byte_sdoHdr2 _ _ _ _ _ c1]
  rw [hcmd, c2]
  simp only [initDownload, rd16_eq_u16, rd8_eq_byte, c3, c4, c5, c6, if_true]
  rw [expReq_eq, u16_sdoHdr3 _ _ _ _ _ hidx, byte_sdoHdr5 _ _ _ _ _ hsb, drop6_sdoHdr]
  have hn : ¬ v.length > o.cap := by omega
  simp [hfind, hn, caBit]

/-- the master accepts the server's confirmation of a download with subindex -/
theorem expCont_confirm (p : Params) (hwf : Wf p) (hsub : p.sub.isSome = true) (s : St) :
    expCont p (mbx_COE, sdoBody svcSdoRes 0x60 p.index (subOr1 p) (zeros 4)) s = (s, .ok []) := by
  obtain ⟨ho, hi, hi2, hidx, hsb⟩ := hwf
  obtain ⟨r1, r2⟩ := coeRes_facts
  obtain ⟨sb, hsb'⟩ := Option.isSome_iff_exists.mp hsub
  have hs1 : subOr1 p = sb := by simp [subOr1, hsb']
  rw [sdoBody_eq]
  have hlen : ¬ (sdoHdr (svcSdoRes <<< 12) 0x60 p.index (subOr1 p) ++ zeros 4).length < 6 := by simp [sdoHdr_length]
  unfold expCont
  simp only [hlen, if_false, u16_sdoHdr0 _ _ _ _ _ r1, byte_sdoHdr5 _ _ _ _ _ hsb, u16_sdoHdr3 _ _ _ _ _ hidx, r2]
  simp [hsb', hs1, M.pure, pure]

/-- **expedited download**: 1..4 bytes written with a subindex end up in the object byte for byte and the call
returns — every content, index, subindex, mailbox sizes, counter, and every delay of the confirmation -/
theorem write_expedited_exact (p : Params) (cnt : Nat) (sched : List Slot) (objs : List Obj) (o : Obj) (v : List UInt8)
    (hwf : Wf p) (hs : DelaysOnly sched) (hsub : p.sub.isSome = true) (hobj : Holds p objs o)
    (h1 : 1 ≤ v.length) (h4 : v.length ≤ 4) (hcap : v.length ≤ o.cap) :
    ∀ n, 1 ≤ n →
      (system ⟨p, .write v, cnt, sched, objs⟩ n).outcome = .ok [] ∧
      target ⟨p, .write v, cnt, sched, objs⟩ (system ⟨p, .write v, cnt, sched, objs⟩ n).objs = some v := by
  have hca : p.sub.isNone = false := by cases h : p.sub <;> simp [h] at hsub ⊢
  have hobj' : find (init p.outSz p.inSz objs).objs p.index (subOr1 p) false = some o := by
    simpa [Holds, hca, init] using hobj
  have hsrv := step_download_exp (init p.outSz p.inSz objs) p hwf cnt o v rfl hobj' h1 h4 hcap
  simp only [respond, mail_eq] at hsrv
  have hcoe : mbxCoE = mbx_COE := by decide
  have hdec : decodeMail (padTo p.inSz (srvMail mbxCoE (init p.outSz p.inSz objs).cnt
      (sdoBody svcSdoRes 0x60 p.index (subOr1 p) (zeros 4)))) =
      .ok (mbx_COE, sdoBody svcSdoRes 0x60 p.index (subOr1 p) (zeros 4)) := by
    rw [← hcoe]
    exact decodeMail_srvMail _ _ _ _ (by simp [sdoBody_length]; exact hwf.2.1) (by simp [sdoBody_length]) (by decide) (by decide)
  intro n hn
  obtain ⟨e1, e2, _, _⟩ := exp_exchange p cnt sched objs v hwf hs h4 hsub _ _ _ (.ok []) hsrv hdec
    (expCont_confirm p hwf hsub) n hn
  refine ⟨e1, ?_⟩
  rw [e2]
  simp only [target, hca]
  rw [find_store _ _ _ _ o v hobj']
  rfl

/-! ### what `sdo_read` writes, for every script of mails (conformant or not) -/

theorem mbxRecv_sent (s : St) : sent (mbxRecv s).1.tr = sent s.tr := by
  unfold mbxRecv
  cases s.mails <;> simp

theorem sent_recvCoeL (ms : List Mail) : sent (recvCoeL ms).1 = [] := by
  induction ms with
  | nil => rfl
  | cons m ms ih =>
    unfold recvCoeL
    cases decodeMail m.raw with
    | err e => simp
    | ok td =>
      obtain ⟨t, d⟩ := td
      by_cases h : t = mbx_COE <;> simp [h, ih]

theorem recvCoe_sent (s : St) : sent (recvCoe s).1.tr = sent s.tr := by
  simp [recvCoe, sent_recvCoeL]

/-- `mbx_send` either fails before writing anything or writes exactly the message for its payload -/
theorem mbxSend_cases (body : List UInt8) (s : St) :
    (∃ e, (mbxSend body s).2 = .err e ∧ sent (mbxSend body s).1.tr = sent s.tr) ∨
    (∃ c, (mbxSend body s).2 = .ok () ∧ sent (mbxSend body s).1.tr = sent s.tr ++ [msgOf c body]) := by
  obtain ⟨cnt, fulls, mails, tr⟩ := s
  by_cases hb : body.length ≥ 65536
  · left
    cases fulls with
    | nil => exact ⟨.structError, by simp [mbxSend, bind, M.bind, pollOut, nextCounter, hb, fail, sent]⟩
    | cons f fs =>
      cases f with
      | false => exact ⟨.structError, by simp [mbxSend, bind, M.bind, pollOut, nextCounter, hb, fail, sent]⟩
      | true =>
        cases mails with
        | nil => exact ⟨.blocked, by simp [mbxSend, bind, M.bind, pollOut, discardMail, mbxRecv, sent]⟩
        | cons m ms =>
          cases hd : decodeMail m.raw with
          | err e => exact ⟨e, by simp [mbxSend, bind, M.bind, pollOut, discardMail, mbxRecv, hd, sent]⟩
          | ok td => exact ⟨.structError, by simp [mbxSend, bind, M.bind, pollOut, discardMail, mbxRecv, hd, nextCounter, hb, fail, sent]⟩
  · cases fulls with
    | nil => right; exact ⟨cnt, by simp [mbxSend, bind, M.bind, pollOut, nextCounter, hb, emit, msgOf, sent]⟩
    | cons f fs =>
      cases f with
      | false => right; exact ⟨cnt, by simp [mbxSend, bind, M.bind, pollOut, nextCounter, hb, emit, msgOf, sent]⟩
      | true =>
        cases mails with
        | nil => left; exact ⟨.blocked, by simp [mbxSend, bind, M.bind, pollOut, discardMail, mbxRecv, sent]⟩
        | cons m ms =>
          cases hd : decodeMail m.raw with
          | err e => left; exact ⟨e, by simp [mbxSend, bind, M.bind, pollOut, discardMail, mbxRecv, hd, sent]⟩
          | ok td =>
            right
            exact ⟨cnt, by simp [mbxSend, bind, M.bind, pollOut, discardMail, mbxRecv, hd, nextCounter, hb, emit, msgOf, sent]⟩

/-- the SDO command byte of a mailbox message -/
def cmdOf (m : List UInt8) : Nat := byte m 8

/-- upload segment requests with toggles alternating from `t` -/
def altCmds : Nat → Nat → List Nat
  | 0, _ => []
  | n + 1, t => (od_SEG_UP_REQ + t) :: altCmds n (t ^^^ 0x10)

theorem cmdOf_msgOf (c : Nat) (body : List UInt8) : cmdOf (msgOf c body) = byte body 2 := by
  simp [cmdOf, msgOf, mbxHeader, byte, encLE]

theorem finish_fst (size : Nat) (ret : List Item) (rs : Int) (s : St) : (finish size ret rs s).1 = s := by
  unfold finish
  split
  · rfl
  · cases joinItems ret <;> rfl

theorem segUpReq_facts (p : Params) (t : Nat) (ht : t = 0 ∨ t = 0x10) :
    (segUpReq p t).length = 10 ∧ byte (segUpReq p t) 2 = od_SEG_UP_REQ + t := by
  refine ⟨by simp [segUpReq, sdoHdr_length], ?_⟩
  unfold segUpReq
  rw [byte_sdoHdr2]
  rcases ht with rfl | rfl <;> decide

theorem segLoop_sent (p : Params) : ∀ (fuel size : Nat) (ret : List Item) (rs : Int) (t : Nat) (s : St),
    (t = 0 ∨ t = 0x10) →
    ∃ ext : List (List UInt8), sent (segLoop p fuel size ret rs t s).1.tr = sent s.tr ++ ext ∧
      (∀ m ∈ ext, m.length = 16) ∧ ext.map cmdOf = altCmds ext.length t := by
  intro fuel
  induction fuel with
  | zero => intro size ret rs t s _; exact ⟨[], by simp [segLoop, fail], by simp, rfl⟩
  | succ fuel ih =>
    intro size ret rs t s ht
    unfold segLoop
    by_cases hlt : rs < (size : Int)
    · simp only [hlt, if_true]
      obtain ⟨hl, hc⟩ := segUpReq_facts p t ht
      have ht' : t ^^^ 0x10 = 0 ∨ t ^^^ 0x10 = 0x10 := by rcases ht with rfl | rfl <;> decide
      cases h1 : mbxSend (segUpReq p t) s with
      | mk s1 r1 =>
        rcases mbxSend_cases (segUpReq p t) s with ⟨e, he, hs⟩ | ⟨c, hok, hs⟩
        · rw [h1] at he hs; simp only at he hs; subst he
          rw [bind_err h1]
          exact ⟨[], by simpa using hs, by simp, rfl⟩
        · rw [h1] at hok hs; simp only at hok hs; subst hok
          rw [bind_ok h1]
          have hm : (msgOf c (segUpReq p t)).length = 16 := by simp [hl]
          have hcm : cmdOf (msgOf c (segUpReq p t)) = od_SEG_UP_REQ + t := by rw [cmdOf_msgOf, hc]
          have one : ∃ ext : List (List UInt8), sent s1.tr = sent s.tr ++ ext ∧
              (∀ m ∈ ext, m.length = 16) ∧ ext.map cmdOf = altCmds ext.length t :=
            ⟨[msgOf c (segUpReq p t)], hs, by simp [hm], by simp [altCmds, hcm]⟩
          cases h2 : mbxRecv s1 with
          | mk s2 r2 =>
            have hs2 : sent s2.tr = sent s1.tr := by have := mbxRecv_sent s1; rw [h2] at this; exact this
            cases r2 with
            | err e => rw [bind_err h2]; simpa [hs2] using one
            | ok td =>
              rw [bind_ok h2]
              obtain ⟨typ, data⟩ := td
              have stop : ∀ x : St × R (List UInt8), x.1 = s2 → ∃ ext : List (List UInt8), sent x.1.tr = sent s.tr ++ ext ∧
                  (∀ m ∈ ext, m.length = 16) ∧ ext.map cmdOf = altCmds ext.length t := by
                intro x hx; rw [hx, hs2]; exact one
              simp only []
              split
              · exact stop _ rfl
              · split
                · exact stop _ rfl
                · split
                  · exact stop _ rfl
                  · split
                    · exact stop _ rfl
                    · split
                      · exact stop _ (finish_fst _ _ _ _)
                      · obtain ⟨ext, e1, e2, e3⟩ := ih size _ _ (t ^^^ 0x10) s2 ht'
                        refine ⟨msgOf c (segUpReq p t) :: ext, ?_, ?_, ?_⟩
                        · rw [e1, hs2, hs]; simp
                        · intro m hm'; simp at hm'; rcases hm' with rfl | h
                          · exact hm
                          · exact e2 m h
                        · simp [altCmds, hcm, e3]
    · simp only [hlt, if_false]
      exact ⟨[], by simp [finish_fst], by simp, rfl⟩

theorem readCont_sent (p : Params) (data : List UInt8) (s : St) :
    ∃ ext : List (List UInt8), sent (readCont p data s).1.tr = sent s.tr ++ ext ∧
      (∀ m ∈ ext, m.length = 16) ∧ ext.map cmdOf = altCmds ext.length 0 := by
  have stop : ∀ x : St × R (List UInt8), x.1 = s → ∃ ext : List (List UInt8), sent x.1.tr = sent s.tr ++ ext ∧
      (∀ m ∈ ext, m.length = 16) ∧ ext.map cmdOf = altCmds ext.length 0 := by
    intro x hx; rw [hx]; exact ⟨[], by simp, by simp, rfl⟩
  unfold readCont
  split
  · exact stop _ rfl
  · simp only []
    split
    · split
      · exact stop _ rfl
      · exact stop _ rfl
    · split
      · exact stop _ rfl
      · split
        · exact stop _ rfl
        · exact segLoop_sent p _ _ _ _ 0 s (Or.inl rfl)

/-- **what an upload writes, for every script of mails** (conformant server or not, any length, any interleaving):
every message is the 16-byte mailbox message of an SDO request, so it fits every receive mailbox of the domain;
the first is the initiate-upload request and the following ones are upload-segment requests whose toggle bits
are 0, 1, 0, 1, … -/
theorem read_requests_fit_and_toggle (p : Params) (hwf : Wf p) (cnt : Nat) (fulls : List Bool) (mails : List Mail) :
    (∀ m ∈ sent (run p .read cnt fulls mails).1, m.length = 16 ∧ m.length ≤ p.outSz) ∧
    (sent (run p .read cnt fulls mails).1 = [] ∨
      ∃ k, (sent (run p .read cnt fulls mails).1).map cmdOf = upCmd p :: altCmds k 0) := by
  have hout : 16 ≤ p.outSz := hwf.1
  have key : sent (run p .read cnt fulls mails).1 = [] ∨
      ∃ c ext, sent (run p .read cnt fulls mails).1 = msgOf c (upReq p) :: ext ∧
        (∀ m ∈ ext, m.length = 16) ∧ ext.map cmdOf = altCmds ext.length 0 := by
    simp only [run, master, sdoRead_eq]
    cases h1 : mbxSend (upReq p) ⟨cnt, fulls, mails, []⟩ with
    | mk s1 r1 =>
      rcases mbxSend_cases (upReq p) ⟨cnt, fulls, mails, []⟩ with ⟨e, he, hs⟩ | ⟨c, hok, hs⟩
      · rw [h1] at he hs; simp only at he hs; subst he
        rw [bind_err h1]; left; simpa [sent] using hs
      · rw [h1] at hok hs; simp only at hok hs; subst hok
        rw [bind_ok h1]
        right
        cases h2 : recvCoe s1 with
        | mk s2 r2 =>
          have hs2 : sent s2.tr = sent s1.tr := by have := recvCoe_sent s1; rw [h2] at this; exact this
          cases r2 with
          | err e => rw [bind_err h2]; exact ⟨c, [], by simpa [hs2, sent] using hs, by simp, rfl⟩
          | ok data =>
            rw [bind_ok h2]
            obtain ⟨ext, e1, e2, e3⟩ := readCont_sent p data s2
            exact ⟨c, ext, by rw [e1, hs2, hs]; simp [sent], e2, e3⟩
  rcases key with h | ⟨c, ext, h, e2, e3⟩
  · rw [h]; simp
  · rw [h]
    refine ⟨?_, Or.inr ⟨ext.length, ?_⟩⟩
    · intro m hm; simp at hm
      rcases hm with rfl | hm
      · simp; exact hout
      · have := e2 m hm; omega
    · have hc : cmdOf (msgOf c (upReq p)) = upCmd p := by
        rw [cmdOf_msgOf, upReq_eq, byte_sdoHdr2 _ _ _ _ _ (upCmd_facts p).1]
      simp [hc, e3]

/-! ### every mail of the server fits the send mailbox, whatever it is asked -/

def Good (inSz : Nat) (x : Srv × List (List UInt8)) : Prop := x.1.inSz = inSz ∧ ∀ m ∈ x.2, m.length ≤ inSz

theorem good_mail (s : Srv) (typ : Nat) (body : List UInt8) (n : Nat) (hs : s.inSz = n) (h : 6 + body.length ≤ n) :
    Good n (mail s typ body) := by
  rw [mail_eq]
  exact ⟨hs, by simp; omega⟩

theorem good_mbxError (s : Srv) (code : Nat) (h : 16 ≤ s.inSz) : Good s.inSz (mbxError s code) :=
  good_mail _ _ _ _ rfl (by simp; omega)

theorem good_abort (s : Srv) (i sub code : Nat) (h : 16 ≤ s.inSz) : Good s.inSz (abort s i sub code) :=
  good_mail _ _ _ _ rfl (by simp [sdoBody_length]; omega)

theorem good_respond (s : Srv) (cmd i sub : Nat) (rest : List UInt8) (n : Nat) (hs : s.inSz = n) (h : 12 + rest.length ≤ n) :
    Good n (respond s cmd i sub rest) :=
  good_mail _ _ _ _ hs (by simp [sdoBody_length]; omega)

theorem good_ite {n : Nat} {c : Prop} [Decidable c] {a b : Srv × List (List UInt8)}
    (ha : c → Good n a) (hb : ¬ c → Good n b) : Good n (if c then a else b) := by
  split
  · exact ha ‹_›
  · exact hb ‹_›

theorem good_initDownload (s : Srv) (cmd : Nat) (body : List UInt8) (h : 16 ≤ s.inSz) :
    Good s.inSz (initDownload s cmd body) := by
  unfold initDownload
  dsimp only []
  cases find s.objs (rd16 body 3) (rd8 body 5) (cmd &&& 0x10 != 0) with
  | none => exact good_abort _ _ _ _ h
  | some o =>
    dsimp only []
    refine good_ite (fun _ => good_ite (fun _ => good_abort _ _ _ _ h) (fun _ => good_respond _ _ _ _ _ _ rfl ?_))
      (fun _ => good_ite (fun _ => good_abort _ _ _ _ h) (fun _ => good_ite (fun _ => good_abort _ _ _ _ h)
        (fun _ => good_ite (fun _ => good_abort _ _ _ _ h) (fun _ => good_ite
          (fun _ => good_respond _ _ _ _ _ _ rfl ?_) (fun _ => good_respond _ _ _ _ _ _ rfl ?_)))))
    all_goals (simp; omega)

theorem good_downloadSegment (s : Srv) (cmd dlen : Nat) (body : List UInt8) (h : 16 ≤ s.inSz) :
    Good s.inSz (downloadSegment s cmd dlen body) := by
  unfold downloadSegment
  cases s.xfer with
  | down i sub ca size buf tog =>
    dsimp only []
    refine good_ite (fun _ => good_abort _ _ _ _ h) (fun _ => good_ite (fun _ => good_abort _ _ _ _ h)
      (fun _ => good_ite (fun _ => good_ite (fun _ => good_abort _ _ _ _ h) (fun _ => good_mail _ _ _ _ rfl ?_))
        (fun _ => good_mail _ _ _ _ rfl ?_)))
    all_goals (simp; omega)
  | idle => exact good_abort _ _ _ _ h
  | up i sub ca rest tog => exact good_abort _ _ _ _ h

theorem good_initUpload (s : Srv) (cmd : Nat) (body : List UInt8) (h : 16 ≤ s.inSz) :
    Good s.inSz (initUpload s cmd body) := by
  unfold initUpload
  dsimp only []
  cases find s.objs (rd16 body 3) (rd8 body 5) (cmd &&& 0x10 != 0) with
  | none => exact good_abort _ _ _ _ h
  | some o =>
    dsimp only []
    refine good_ite (fun hc => good_respond _ _ _ _ _ _ rfl ?_) (fun _ => good_respond _ _ _ _ _ _ ?_ ?_)
    · simp; omega
    · split <;> rfl
    · simp; omega

theorem good_uploadSegment (s : Srv) (cmd : Nat) (h : 16 ≤ s.inSz) : Good s.inSz (uploadSegment s cmd) := by
  unfold uploadSegment
  cases s.xfer with
  | up i sub ca rest tog =>
    dsimp only []
    refine good_ite (fun _ => good_abort _ _ _ _ h) (fun _ => good_mail _ _ _ _ ?_ ?_)
    · split <;> rfl
    · simp; split <;> omega
  | idle => exact good_abort _ _ _ _ h
  | down i sub ca size buf tog => exact good_abort _ _ _ _ h

theorem good_step (s : Srv) (msg : List UInt8) (h : 16 ≤ s.inSz) : Good s.inSz (step s msg) := by
  unfold step
  refine good_ite (fun _ => ⟨rfl, by simp⟩) (fun _ => ?_)
  dsimp only []
  refine good_ite (fun _ => good_mbxError _ _ h) (fun _ => good_ite (fun _ => good_mbxError _ _ h)
    (fun _ => good_ite (fun _ => good_mbxError _ _ h) (fun _ => good_ite (fun _ => good_mbxError _ _ h)
      (fun _ => good_ite (fun _ => good_mbxError _ _ h) (fun _ => ?_)))))
  split
  · exact good_initDownload _ _ _ h
  · exact good_downloadSegment _ _ _ _ h
  · exact good_initUpload _ _ _ h
  · exact good_uploadSegment _ _ h
  · exact ⟨rfl, by simp⟩
  · exact good_abort _ _ _ _ h

/-- **every response fits**: whatever requests arrive, in whatever state, no mail of the server is longer than
the send mailbox -/
theorem server_responses_fit (s : Srv) (reqs : List (List UInt8)) (h : 16 ≤ s.inSz) :
    ∀ rs ∈ (serveAll s reqs).2, ∀ m ∈ rs, m.length ≤ s.inSz := by
  induction reqs generalizing s with
  | nil => simp [serveAll]
  | cons r reqs ih =>
    obtain ⟨g1, g2⟩ := good_step s r h
    simp only [serveAll]
    intro rs hrs
    simp at hrs
    rcases hrs with rfl | hrs
    · exact g2
    · have := ih (step s r).1 (by rw [g1]; exact h) rs hrs
      rw [g1] at this; exact this

/-! ## the modes the code gets wrong -/

/-- the run of the composed system settles, and what it settles on satisfies `P` -/
def Eventually (c : Setup) (P : Result → Prop) : Prop := ∃ N, ∀ n, N ≤ n → P (system c n)

theorem iter_add {α : Type} (f : α → α) (a b : Nat) (x : α) : iter f (a + b) x = iter f b (iter f a x) := by
  induction a generalizing x with
  | zero => simp [iter]
  | succ a ih => rw [Nat.succ_add]; simp [iter, ih]

/-- once a round changes nothing the run has settled -/
theorem system_stable (c : Setup) (k : Nat) (h : round c (mailsAfter c k) = mailsAfter c k) :
    ∀ n, k ≤ n → system c n = system c k := by
  intro n hn
  obtain ⟨j, rfl⟩ : ∃ j, n = k + j := ⟨n - k, by omega⟩
  have : mailsAfter c (k + j) = mailsAfter c k := by
    unfold mailsAfter at h ⊢
    rw [iter_add, iter_fix _ _ h]
  simp only [system, this]

theorem not_eventually (c : Setup) (k : Nat) (P : Result → Prop)
    (hfix : round c (mailsAfter c k) = mailsAfter c k) (hP : ¬ P (system c k)) : ¬ Eventually c P := by
  rintro ⟨N, hN⟩
  have := hN (max N k) (Nat.le_max_left _ _)
  rw [system_stable c k hfix _ (Nat.le_max_right _ _)] at this
  exact hP this

theorem schedOk_nil (inSz : Nat) : SchedOk inSz [] := by intro sl h; cases h
theorem delaysOnly_nil : DelaysOnly [] := by intro sl h; cases h

/-! ### segmented upload -/

/-- full strength: an object that does not fit the first response is returned byte for byte as well -/
def read_segmented_full : Prop :=
  ∀ (p : Params) (cnt : Nat) (sched : List Slot) (objs : List Obj) (o : Obj),
    Wf p → SchedOk p.inSz sched → Holds p objs o → p.inSz < o.val.length + 16 →
    Eventually ⟨p, .read, cnt, sched, objs⟩ (fun r => r.outcome = .ok o.val)

/-- 24-byte mailboxes, 23 bytes: 8 in the first response, 15 in one full segment -/
def segWitness : Setup :=
  ⟨⟨24, 24, 0x2000, some 1⟩, .read, 0, [],
   [⟨0x2000, 1, false, 32, [1,2,3,4,5,6,7,8,9,10,11,12,13,14,15,16,17,18,19,20,21,22,23]⟩]⟩

/-- 24-byte mailboxes, 9 bytes: 8 in the first response, 1 in a last segment padded to 7 -/
def segWitnessShort : Setup :=
  ⟨⟨24, 24, 0x2000, some 1⟩, .read, 0, [], [⟨0x2000, 1, false, 32, [1,2,3,4,5,6,7,8,9]⟩]⟩

/-- `ret += data[3:]` put ints into the list: `b"".join(ret)` raises TypeError -/
theorem segWitness_typeError : (system segWitness 2).outcome = .err .typeError := by decide +kernel
/-- the padded last segment is counted with its padding: "expected 9 bytes, got 15" -/
theorem segWitnessShort_ethercat : (system segWitnessShort 2).outcome = .err .ethercat := by decide +kernel

theorem read_segmented_refuted : ¬ read_segmented_full := by
  intro h
  have hwf : Wf segWitness.p := by unfold Wf subOr1; decide
  refine not_eventually segWitness 2 _ (by decide +kernel) ?_
    (h segWitness.p 0 [] segWitness.objs ⟨0x2000, 1, false, 32, [1,2,3,4,5,6,7,8,9,10,11,12,13,14,15,16,17,18,19,20,21,22,23]⟩
      hwf (schedOk_nil _) (by unfold Holds; decide) (by decide))
  rw [segWitness_typeError]
  decide

/-- what remains of the property for segmented uploads (and every other upload): whatever the length, the schedule and
the number of rounds, the master's messages are 16-byte requests that fit, their toggles alternate from 0, and every
response of the server fits the send mailbox -/
theorem read_segmented_partial (p : Params) (cnt : Nat) (sched : List Slot) (objs : List Obj) (hwf : Wf p) (n : Nat) :
    (∀ m ∈ sent (system ⟨p, .read, cnt, sched, objs⟩ n).trace, m.length ≤ p.outSz) ∧
    (sent (system ⟨p, .read, cnt, sched, objs⟩ n).trace = [] ∨
      ∃ k, (sent (system ⟨p, .read, cnt, sched, objs⟩ n).trace).map cmdOf = upCmd p :: altCmds k 0) ∧
    (∀ rs ∈ (system ⟨p, .read, cnt, sched, objs⟩ n).responses, ∀ m ∈ rs, m.length ≤ p.inSz) := by
  obtain ⟨h1, h2⟩ := read_requests_fit_and_toggle p hwf cnt (sched.map (·.full)) (mailsAfter ⟨p, .read, cnt, sched, objs⟩ n)
  refine ⟨fun m hm => (h1 m hm).2, h2, ?_⟩
  exact server_responses_fit (init p.outSz p.inSz objs) _ hwf.2.1

/-! ### non-expedited download -/

/-- full strength: more than 4 bytes written with a subindex reach the object byte for byte -/
def write_normal_full : Prop :=
  ∀ (p : Params) (cnt : Nat) (sched : List Slot) (objs : List Obj) (o : Obj) (v : List UInt8),
    Wf p → DelaysOnly sched → p.sub.isSome = true → Holds p objs o → 4 < v.length → v.length ≤ o.cap →
    Eventually ⟨p, .write v, cnt, sched, objs⟩
      (fun r => r.outcome = .ok [] ∧ target ⟨p, .write v, cnt, sched, objs⟩ r.objs = some v)

/-- 32-byte mailboxes, five bytes into an object that can hold eight -/
def normWitness : Setup :=
  ⟨⟨32, 32, 0x2000, some 1⟩, .write [1,2,3,4,5], 0, [], [⟨0x2000, 1, false, 8, [9]⟩]⟩

/-- the complete size is sent as 0, the server aborts, `sdo_write` raises and the object keeps its old value -/
theorem normWitness_run : (system normWitness 1).outcome = .err .ethercat ∧
    target normWitness (system normWitness 1).objs = some [9] := by decide +kernel

theorem write_normal_refuted : ¬ write_normal_full := by
  intro h
  have hwf : Wf normWitness.p := by unfold Wf subOr1; decide
  refine not_eventually normWitness 1 _ (by decide +kernel) ?_
    (h normWitness.p 0 [] normWitness.objs ⟨0x2000, 1, false, 8, [9]⟩ [1,2,3,4,5]
      hwf delaysOnly_nil (by decide) (by unfold Holds; decide) (by decide) (by decide))
  rw [normWitness_run.1]
  decide

/-- full strength: a value written with complete access (no subindex) reaches the object byte for byte -/
def write_complete_full : Prop :=
  ∀ (p : Params) (cnt : Nat) (sched : List Slot) (objs : List Obj) (o : Obj) (v : List UInt8),
    Wf p → DelaysOnly sched → p.sub = none → Holds p objs o → v.length ≤ o.cap →
    Eventually ⟨p, .write v, cnt, sched, objs⟩
      (fun r => r.outcome = .ok [] ∧ target ⟨p, .write v, cnt, sched, objs⟩ r.objs = some v)

/-- complete access, the empty value: the one download the server accepts (complete size 0 = 0 bytes) -/
def caWitness : Setup :=
  ⟨⟨32, 32, 0x2000, none⟩, .write [], 0, [], [⟨0x2000, 1, true, 8, [9]⟩]⟩

/-- … and `subindex != subidx` compares `None` with 1: `sdo_write` raises although the server stored the value -/
theorem caWitness_run : (system caWitness 1).outcome = .err .ethercat ∧
    target caWitness (system caWitness 1).objs = some [] := by decide +kernel

theorem write_complete_refuted : ¬ write_complete_full := by
  intro h
  have hwf : Wf caWitness.p := by unfold Wf subOr1; decide
  refine not_eventually caWitness 1 _ (by decide +kernel) ?_
    (h caWitness.p 0 [] caWitness.objs ⟨0x2000, 1, true, 8, [9]⟩ []
      hwf delaysOnly_nil rfl (by unfold Holds; decide) (by decide))
  rw [caWitness_run.1]
  decide

/-- what `sdo_write` does with the mail it receives after an initiate-download request -/
def normCont (p : Params) (v : List UInt8) (td : Nat × List UInt8) : M (List UInt8) :=
  checkDown p td.1 td.2 >>= fun _ => downStart p (min v.length (p.outSz - 16)) td.2

theorem sdoWrite_norm_eq (p : Params) (v : List UInt8) (h : ¬ (v.length ≤ 4 ∧ p.sub.isSome = true)) :
    sdoWrite p v = (mbxSend (initDownReq p v) >>= fun _ => mbxRecv >>= normCont p v) := by
  unfold sdoWrite
  simp only [h, if_false]
  rfl

/-- the command byte of the initiate-download request -/
def downCmd (p : Params) : Nat := if p.sub.isNone then od_DOWN_INIT_CA else od_DOWN_INIT

theorem initDownReq_eq (p : Params) (v : List UInt8) :
    initDownReq p v = sdoHdr (coe_SDOREQ <<< 12) (downCmd p) p.index (subOr1 p) ++
      (encLE 4 0 ++ v.take (min v.length (p.outSz - 16))) := by
  simp [initDownReq, downCmd, zeros, encLE]

theorem downCmd_facts (p : Params) : downCmd p < 256 ∧ downCmd p >>> 5 = 1 ∧ (downCmd p &&& 0x10 != 0) = p.sub.isNone ∧
    (downCmd p &&& 2 != 0) = false ∧ (downCmd p &&& 1 == 0) = false := by
  unfold downCmd
  cases p.sub <;> simp <;> decide

theorem initDownReq_length (p : Params) (v : List UInt8) :
    (initDownReq p v).length = 10 + min v.length (p.outSz - 16) := by
  rw [initDownReq_eq]; simp [sdoHdr_length]; omega

/-- a conformant server refuses an initiate download whose complete size (0) is less than the data it carries -/
theorem step_download_norm (s : Srv) (p : Params) (hwf : Wf p) (hout : 16 < p.outSz) (hout2 : p.outSz < 65536)
    (cnt : Nat) (o : Obj) (v : List UInt8)
    (hsz : s.outSz = p.outSz) (hfind : find s.objs p.index (subOr1 p) p.sub.isNone = some o) (h1 : 1 ≤ v.length) :
    step s (msgOf cnt (initDownReq p v)) = abort { s with xfer := .idle } p.index (subOr1 p) abLen := by
  obtain ⟨ho, hi, hi2, hidx, hsb⟩ := hwf
  obtain ⟨c1, c2, c3, c4, c5⟩ := downCmd_facts p
  have hl := initDownReq_length p v
  have hsvc : u16 (initDownReq p v) 0 >>> 12 = 2 := by
    rw [initDownReq_eq, u16_sdoHdr0 _ _ _ _ _ (by decide)]; decide
  rw [step_sdo s cnt (initDownReq p v) (by omega) (by omega) (by omega) hsvc]
  have hcmd : byte (initDownReq p v) 2 = downCmd p := by rw [initDownReq_eq, byte_sdoHdr2 _ _ _ _ _ c1]
  rw [hcmd, c2]
  simp only [initDownload, rd16_eq_u16, rd8_eq_byte, rd32_eq_u32, c3, c4, c5]
  rw [initDownReq_eq, u16_sdoHdr3 _ _ _ _ _ hidx, byte_sdoHdr5 _ _ _ _ _ hsb, u32_sdoHdr6 _ _ _ _ _ _ (by decide),
    drop10_sdoHdr]
  have hv : v ≠ [] := by intro h; simp [h] at h1
  have ho16 : p.outSz - 16 ≠ 0 := by omega
  simp [hfind, hv, ho16]

/-- the master takes the abort for what it is -/
theorem normCont_abort (p : Params) (v : List UInt8) (code : Nat) (s : St) :
    normCont p v (mbx_COE, sdoBody svcSdoReq 0x80 p.index (subOr1 p) (encLE 4 code)) s = (s, .err .ethercat) := by
  have r1 : svcSdoReq <<< 12 < 65536 ∧ (svcSdoReq <<< 12) >>> 12 ≠ coe_SDORES := by decide
  have hlen : ¬ (sdoHdr (svcSdoReq <<< 12) 0x80 p.index (subOr1 p) ++ encLE 4 code).length < 6 := by simp [sdoHdr_length]
  have hc : checkDown p mbx_COE (sdoBody svcSdoReq 0x80 p.index (subOr1 p) (encLE 4 code)) s = (s, .err .ethercat) := by
    rw [sdoBody_eq]
    unfold checkDown
    simp only [hlen, if_false, u16_sdoHdr0 _ _ _ _ _ r1.1, r1.2, ne_eq, not_true_eq_false, not_false_eq_true, if_true]
    rfl
  exact bind_err hc

/-- **what is left of non-expedited downloads** (with a subindex and more than 4 bytes, or complete access and at least
one byte): for every content, length, mailbox size above the bare header, counter and delay the server refuses the
request, `sdo_write` raises EtherCatError, the object keeps its old value, and the one message sent fits -/
theorem write_normal_partial (p : Params) (cnt : Nat) (sched : List Slot) (objs : List Obj) (o : Obj) (v : List UInt8)
    (hwf : Wf p) (hout : 16 < p.outSz) (hout2 : p.outSz < 65536) (hs : DelaysOnly sched)
    (hmode : ¬ (v.length ≤ 4 ∧ p.sub.isSome = true))
    (h1 : 1 ≤ v.length) (hobj : Holds p objs o) :
    ∀ n, 1 ≤ n →
      (system ⟨p, .write v, cnt, sched, objs⟩ n).outcome = .err .ethercat ∧
      (system ⟨p, .write v, cnt, sched, objs⟩ n).objs = objs ∧
      (∀ m ∈ sent (system ⟨p, .write v, cnt, sched, objs⟩ n).trace, m.length ≤ p.outSz) := by
  have hsrv := step_download_norm (init p.outSz p.inSz objs) p hwf hout hout2 cnt o v rfl hobj h1
  simp only [abort, mail_eq] at hsrv
  have hcoe : mbxCoE = mbx_COE := by decide
  have hl := initDownReq_length p v
  have hdec : decodeMail (padTo p.inSz (srvMail mbxCoE (init p.outSz p.inSz objs).cnt
      (sdoBody svcSdoReq 0x80 p.index (subOr1 p) (encLE 4 abLen)))) =
      .ok (mbx_COE, sdoBody svcSdoReq 0x80 p.index (subOr1 p) (encLE 4 abLen)) := by
    rw [← hcoe]
    exact decodeMail_srvMail _ _ _ _ (by simp [sdoBody_length]; exact hwf.2.1) (by simp [sdoBody_length]) (by decide) (by decide)
  intro n hn
  obtain ⟨e1, e2, _, e4⟩ := w_exchange p cnt sched objs v (initDownReq p v) (normCont p v) hs (sdoWrite_norm_eq p v hmode)
    (by have := hwf.1; omega) (by omega) _ _ _ (.err .ethercat) hsrv hdec (normCont_abort p v abLen) n hn
  refine ⟨e1, by rw [e2]; rfl, ?_⟩
  rw [e4]
  intro m hm
  simp at hm; subst hm
  simp; omega

/-! ### zero-length expedited download -/

/-- full strength: the empty value written with a subindex leaves the object empty -/
def write_zero_expedited_full : Prop :=
  ∀ (p : Params) (cnt : Nat) (sched : List Slot) (objs : List Obj) (o : Obj),
    Wf p → DelaysOnly sched → p.sub.isSome = true → Holds p objs o →
    Eventually ⟨p, .write [], cnt, sched, objs⟩
      (fun r => r.outcome = .ok [] ∧ target ⟨p, .write [], cnt, sched, objs⟩ r.objs = some [])

def zeroWitness : Setup :=
  ⟨⟨32, 32, 0x2000, some 1⟩, .write [], 0, [], [⟨0x2000, 1, false, 8, [9]⟩]⟩

/-- `((4 - 0) << 2) & 0xc` is 0: the request says "4 bytes of data", the object ends up holding four zero bytes -/
theorem zeroWitness_run : (system zeroWitness 1).outcome = .ok [] ∧
    target zeroWitness (system zeroWitness 1).objs = some [0, 0, 0, 0] := by decide +kernel

theorem write_zero_expedited_refuted : ¬ write_zero_expedited_full := by
  intro h
  have hwf : Wf zeroWitness.p := by unfold Wf subOr1; decide
  refine not_eventually zeroWitness 1 _ (by decide +kernel) ?_
    (h zeroWitness.p 0 [] zeroWitness.objs ⟨0x2000, 1, false, 8, [9]⟩
      hwf delaysOnly_nil (by decide) (by unfold Holds; decide))
  intro hP
  exact absurd (hP.2.symm.trans zeroWitness_run.2) (by decide)

/-! ### expedited download with unrelated mail in the mailbox -/

/-- full strength: `write_expedited_exact` under every schedule of `SchedOk`, not only delays -/
def write_expedited_interleaved_full : Prop :=
  ∀ (p : Params) (cnt : Nat) (sched : List Slot) (objs : List Obj) (o : Obj) (v : List UInt8),
    Wf p → SchedOk p.inSz sched → p.sub.isSome = true → Holds p objs o → 1 ≤ v.length → v.length ≤ 4 → v.length ≤ o.cap →
    Eventually ⟨p, .write v, cnt, sched, objs⟩
      (fun r => r.outcome = .ok [] ∧ target ⟨p, .write v, cnt, sched, objs⟩ r.objs = some v)

/-- one empty Ethernet-over-EtherCAT mail is in the send mailbox before the confirmation -/
def mixWitness : Setup :=
  ⟨⟨32, 32, 0x2000, some 1⟩, .write [7, 8], 0, [⟨false, [[0, 0, 0, 0, 0, 0x12]], 0⟩], [⟨0x2000, 1, false, 8, [9]⟩]⟩

/-- the error message for "not CoE" mentions `odata`, which does not exist: NameError, although the value was stored -/
theorem mixWitness_run : (system mixWitness 1).outcome = .err .nameError ∧
    target mixWitness (system mixWitness 1).objs = some [7, 8] := by decide +kernel

theorem write_expedited_interleaved_refuted : ¬ write_expedited_interleaved_full := by
  intro h
  have hwf : Wf mixWitness.p := by unfold Wf subOr1; decide
  refine not_eventually mixWitness 1 _ (by decide +kernel) ?_
    (h mixWitness.p 0 mixWitness.sched mixWitness.objs ⟨0x2000, 1, false, 8, [9]⟩ [7, 8]
      hwf (by unfold SchedOk; decide) (by decide) (by unfold Holds; decide) (by decide) (by decide) (by decide))
  rw [mixWitness_run.1]
  decide

/-! ## every message fits its mailbox, in the modes that work -/

/-- the run's messages fit the receive mailbox and the server's mails fit the send mailbox -/
def Fits (p : Params) (r : Result) : Prop :=
  (∀ m ∈ sent r.trace, m.length ≤ p.outSz) ∧ (∀ rs ∈ r.responses, ∀ m ∈ rs, m.length ≤ p.inSz)

/-- **fits_mailbox** for expedited upload, one-frame normal upload and expedited download -/
theorem fits_mailbox (p : Params) (cnt : Nat) (sched : List Slot) (objs : List Obj) (o : Obj) (hwf : Wf p)
    (hobj : Holds p objs o) :
    (SchedOk p.inSz sched → ((1 ≤ o.val.length ∧ o.val.length ≤ 4) ∨ o.val.length + 16 ≤ p.inSz) →
      ∀ n, 1 ≤ n → Fits p (system ⟨p, .read, cnt, sched, objs⟩ n)) ∧
    (∀ v : List UInt8, DelaysOnly sched → p.sub.isSome = true → 1 ≤ v.length → v.length ≤ 4 → v.length ≤ o.cap →
      ∀ n, 1 ≤ n → Fits p (system ⟨p, .write v, cnt, sched, objs⟩ n)) := by
  constructor
  · intro hs hlen n hn
    obtain ⟨resp, hr, h⟩ := read_run p cnt sched objs o hwf hs hobj hlen
    obtain ⟨_, _, h3, h4⟩ := h n hn
    refine ⟨?_, ?_⟩
    · rw [h4]; intro m hm; simp at hm; subst hm; simp; exact hwf.1
    · rw [h3]; intro rs hrs m hm; simp at hrs; subst hrs; simp at hm; subst hm; exact hr
  · intro v hs hsub h1 h4 hcap n hn
    have hca : p.sub.isNone = false := by cases h : p.sub <;> simp [h] at hsub ⊢
    have hobj' : find (init p.outSz p.inSz objs).objs p.index (subOr1 p) false = some o := by
      simpa [Holds, hca, init] using hobj
    have hsrv := step_download_exp (init p.outSz p.inSz objs) p hwf cnt o v rfl hobj' h1 h4 hcap
    simp only [respond, mail_eq] at hsrv
    have hcoe : mbxCoE = mbx_COE := by decide
    have hdec : decodeMail (padTo p.inSz (srvMail mbxCoE (init p.outSz p.inSz objs).cnt
        (sdoBody svcSdoRes 0x60 p.index (subOr1 p) (zeros 4)))) =
        .ok (mbx_COE, sdoBody svcSdoRes 0x60 p.index (subOr1 p) (zeros 4)) := by
      rw [← hcoe]
      exact decodeMail_srvMail _ _ _ _ (by simp [sdoBody_length]; exact hwf.2.1) (by simp [sdoBody_length]) (by decide) (by decide)
    obtain ⟨_, _, e3, e4⟩ := exp_exchange p cnt sched objs v hwf hs h4 hsub _ _ _ (.ok []) hsrv hdec
      (expCont_confirm p hwf hsub) n hn
    refine ⟨?_, ?_⟩
    · rw [e4]; intro m hm; simp at hm; subst hm; simp [h4]; exact hwf.1
    · rw [e3]; intro rs hrs m hm; simp at hrs; subst hrs; simp at hm; subst hm
      simp [sdoBody_length]; exact hwf.2.1

/-! ## non-vacuity: concrete inputs satisfy the hypotheses and exercise the transfers -/

/-- a schedule with unrelated mail, a drain and a delay -/
def exSched : List Slot := [⟨true, [[0, 0, 0, 0, 0, 0x12], [2, 0, 0, 0, 0, 0x21, 5, 6]], 2⟩]
def exP : Params := ⟨32, 32, 0x2000, some 1⟩

example : Wf exP ∧ SchedOk exP.inSz exSched ∧ Holds exP [⟨0x2000, 1, false, 4, [0xaa, 0xbb]⟩] ⟨0x2000, 1, false, 4, [0xaa, 0xbb]⟩ := by
  refine ⟨by unfold Wf subOr1; decide, by unfold SchedOk; decide, by unfold Holds; decide⟩
/-- expedited upload through unrelated mail, a drain and two empty polls -/
example : (system ⟨exP, .read, 3, exSched, [⟨0x2000, 1, false, 4, [0xaa, 0xbb]⟩]⟩ 1).outcome = .ok [0xaa, 0xbb] := by
  decide +kernel
/-- normal upload of 16 bytes = `inSz − 16`, complete access -/
example : (system ⟨⟨32, 32, 0x2000, none⟩, .read, 7, exSched,
    [⟨0x2000, 1, true, 16, [1,2,3,4,5,6,7,8,9,10,11,12,13,14,15,16]⟩]⟩ 1).outcome
    = .ok [1,2,3,4,5,6,7,8,9,10,11,12,13,14,15,16] := by decide +kernel
/-- expedited download of three bytes with a delayed confirmation: the object holds them -/
example : DelaysOnly [⟨false, [], 3⟩] ∧
    (system ⟨exP, .write [1, 2, 3], 7, [⟨false, [], 3⟩], [⟨0x2000, 1, false, 4, [9]⟩]⟩ 1).outcome = .ok [] ∧
    target ⟨exP, .write [1, 2, 3], 7, [⟨false, [], 3⟩], [⟨0x2000, 1, false, 4, [9]⟩]⟩
      (system ⟨exP, .write [1, 2, 3], 7, [⟨false, [], 3⟩], [⟨0x2000, 1, false, 4, [9]⟩]⟩ 1).objs = some [1, 2, 3] := by
  refine ⟨by unfold DelaysOnly; decide, by decide +kernel, by decide +kernel⟩
/-- three upload segments are requested with toggles 0, 1, 0 (the transfer then fails, see `segWitness`) -/
example : (sent (system ⟨⟨24, 24, 0x2000, some 1⟩, .read, 0, [],
    [⟨0x2000, 1, false, 64, List.replicate 40 7⟩]⟩ 4).trace).map cmdOf = [0x40, 0x60, 0x70, 0x60] := by decide +kernel
example : altCmds 3 0 = [0x60, 0x70, 0x60] := by decide
/-- the witnesses of the refutations are inside the domain of the full statements -/
example : segWitness.p.inSz < 23 + 16 ∧ Wf segWitness.p ∧ Wf normWitness.p ∧ Wf caWitness.p ∧ Wf zeroWitness.p ∧
    Wf mixWitness.p ∧ SchedOk mixWitness.p.inSz mixWitness.sched := by
  refine ⟨by decide, ?_, ?_, ?_, ?_, ?_, by unfold SchedOk; decide⟩ <;> (unfold Wf subOr1; decide)

end Ebv.C16
