import Ebv.Model.SdoSystem
/-! C16 — SDO transfers carry values byte-for-byte.

The theorems are about `SdoSystem.system`: the master of `Ebv.Sdo` (a transcription of
`Terminal.sdo_read/sdo_write/mbx_send/mbx_recv`) composed with the conformant server of
`Ebv.SdoServer`.  One theorem per transfer mode, each for all object contents, lengths, mailbox
sizes, indices, counters and schedules (delays, unrelated mail, drain by `mbx_send`).  The modes the code
gets wrong are stated at full strength as `def …_full : Prop`, refuted on a concrete witness, and what
remains provable is `…_partial`. -/
namespace Ebv.C16
open Ebv.Bytes Ebv.Sdo Ebv.SdoServer Ebv.SdoSystem Ebv.Consts

/-! ### hypotheses of the theorems -/

/-- the domain of the model: both mailboxes can hold an SDO header, sizes are 16-bit registers,
index and subindex fit their fields, the mailbox counter is one `MailboxLock` can hold -/
def Wf (p : Params) : Prop :=
  16 ≤ p.outSz ∧ 16 ≤ p.inSz ∧ p.inSz < 65536 ∧ p.index < 65536 ∧ subOr1 p < 256

/-- mail of another mailbox protocol, as the master will read it -/
def unrelated (inSz : Nat) (m : List UInt8) : Bool :=
  match decodeMail (padTo inSz m) with
  | .ok (t, _) => t != mbx_COE
  | .err _ => false

/-- unrelated mail only, and register 0x805 shows "full" only while such mail is pending -/
def SchedOk (inSz : Nat) (sched : List Slot) : Prop :=
  ∀ sl ∈ sched, (∀ m ∈ sl.pre, unrelated inSz m = true) ∧ (sl.full = true → sl.pre ≠ [])

/-- responses may be late, but nothing else is in the mailbox -/
def DelaysOnly (sched : List Slot) : Prop := ∀ sl ∈ sched, sl.pre = [] ∧ sl.full = false

/-- the object the call is about exists and holds `v` -/
def Holds (p : Params) (objs : List Obj) (o : Obj) : Prop :=
  find objs p.index (subOr1 p) p.sub.isNone = some o

/-! ### the monad -/

theorem bind_ok {α β : Type} {x : M α} {f : α → M β} {s s' : St} {a : α} (h : x s = (s', .ok a)) :
    (x >>= f) s = f a s' := by
  show M.bind x f s = _
  unfold M.bind; rw [h]

theorem bind_err {α β : Type} {x : M α} {f : α → M β} {s s' : St} {e : Err} (h : x s = (s', .err e)) :
    (x >>= f) s = (s', .err e) := by
  show M.bind x f s = _
  unfold M.bind; rw [h]

/-! ### bytes -/

theorem typ_nibble (t c : Nat) (ht : t < 16) : ((t ||| c <<< 4) % 256) &&& 15 = t := by
  have h1 : t ||| c <<< 4 = c <<< 4 + t := by
    rw [Nat.or_comm]; exact (Nat.shiftLeft_add_eq_or_of_lt (by omega) c).symm
  have h2 : (15 : Nat) = 2 ^ 4 - 1 := by decide
  rw [h1, h2, Nat.and_two_pow_sub_one_eq_mod, Nat.shiftLeft_eq]
  omega

theorem sdoHdr_length (a b c d : Nat) : (sdoHdr a b c d).length = 6 := by simp [sdoHdr]

theorem u16_sdoHdr0 (coe cmd idx sub : Nat) (rest : List UInt8) (h : coe < 65536) :
    u16 (sdoHdr coe cmd idx sub ++ rest) 0 = coe := by
  simp [u16, slice, sdoHdr, encLE, decLE]; omega
theorem byte_sdoHdr2 (coe cmd idx sub : Nat) (rest : List UInt8) (h : cmd < 256) :
    byte (sdoHdr coe cmd idx sub ++ rest) 2 = cmd := by
  simp [byte, sdoHdr, encLE]; omega
theorem u16_sdoHdr3 (coe cmd idx sub : Nat) (rest : List UInt8) (h : idx < 65536) :
    u16 (sdoHdr coe cmd idx sub ++ rest) 3 = idx := by
  simp [u16, slice, sdoHdr, encLE, decLE]; omega
theorem byte_sdoHdr5 (coe cmd idx sub : Nat) (rest : List UInt8) (h : sub < 256) :
    byte (sdoHdr coe cmd idx sub ++ rest) 5 = sub := by
  simp [byte, sdoHdr, encLE]; omega
theorem drop6_sdoHdr (coe cmd idx sub : Nat) (rest : List UInt8) :
    (sdoHdr coe cmd idx sub ++ rest).drop 6 = rest := by
  simp [sdoHdr, encLE]

theorem rd16_eq_u16 (bs : List UInt8) (o : Nat) : rd16 bs o = u16 bs o := by simp [rd16, u16, slice]
theorem rd32_eq_u32 (bs : List UInt8) (o : Nat) : rd32 bs o = u32 bs o := by simp [rd32, u32, slice]
theorem rd8_eq_byte (bs : List UInt8) (o : Nat) : rd8 bs o = byte bs o := rfl

theorem sdoBody_eq (svc cmd i sub : Nat) (rest : List UInt8) :
    sdoBody svc cmd i sub rest = sdoHdr (svc <<< 12) cmd i sub ++ rest := by simp [sdoBody, sdoHdr]

theorem padTo_of_le (n : Nat) (bs : List UInt8) (h : bs.length ≤ n) : padTo n bs = bs ++ zeros (n - bs.length) := by
  simp only [padTo, zeros, List.take_append, List.take_replicate]
  rw [List.take_of_length_le h]
  congr 2
  omega

/-- the mail the server builds -/
def srvMail (typ cnt : Nat) (body : List UInt8) : List UInt8 :=
  encLE 2 body.length ++ encLE 2 0 ++ [0, UInt8.ofNat (typ ||| cnt <<< 4)] ++ body

@[simp] theorem srvMail_length (typ cnt : Nat) (body : List UInt8) : (srvMail typ cnt body).length = 6 + body.length := by
  simp [srvMail]; omega

theorem mail_eq (s : Srv) (typ : Nat) (body : List UInt8) :
    mail s typ body = ({ s with cnt := s.cnt % 7 + 1 }, [srvMail typ s.cnt body]) := rfl

theorem decodeMail_srvMail (n typ cnt : Nat) (body : List UInt8) (hn : 6 + body.length ≤ n)
    (hb : body.length < 65536) (ht : typ < 16) (hty : mbxTypes.contains typ = true) :
    decodeMail (padTo n (srvMail typ cnt body)) = .ok (typ, body) := by
  rw [padTo_of_le _ _ (by simp; omega)]
  have h0 : u16 (srvMail typ cnt body ++ zeros (n - (srvMail typ cnt body).length)) 0 = body.length := by
    simp [u16, slice, srvMail, encLE, decLE]; omega
  have h5 : byte (srvMail typ cnt body ++ zeros (n - (srvMail typ cnt body).length)) 5 &&& 15 = typ := by
    have : byte (srvMail typ cnt body ++ zeros (n - (srvMail typ cnt body).length)) 5 = (typ ||| cnt <<< 4) % 256 := by
      simp only [srvMail, encLE, List.cons_append, List.nil_append]
      exact UInt8.toNat_ofNat'
    rw [this]; exact typ_nibble typ cnt ht
  have hd : ((srvMail typ cnt body ++ zeros (n - (srvMail typ cnt body).length)).drop 6).take body.length = body := by
    simp [srvMail, encLE]
  simp only [decodeMail, h0, h5, hd, hty, if_true]

/-! ### mbx_send, mbx_recv on the states that occur -/

/-- the mailbox message for a payload: header (length, address 0, channel/priority 0, CoE | counter) + payload -/
def msgOf (cnt : Nat) (body : List UInt8) : List UInt8 := mbxHeader body.length mbx_COE cnt ++ body

@[simp] theorem msgOf_length (cnt : Nat) (body : List UInt8) : (msgOf cnt body).length = 6 + body.length := by
  simp [msgOf, mbxHeader]; omega

@[simp] theorem sent_append (a b : List Ev) : sent (a ++ b) = sent a ++ sent b := by
  induction a with
  | nil => rfl
  | cons e a ih => cases e <;> simp [sent, ih]

@[simp] theorem sent_polls (d : Nat) : sent (polls d) = [] := by
  induction d with
  | zero => rfl
  | succ d ih => simpa [polls, List.replicate_succ, sent] using ih

def skipEvs (k : Nat) : List Ev := (List.replicate k (polls 0)).flatten

@[simp] theorem sent_skipEvs (k : Nat) : sent (skipEvs k) = [] := by
  induction k with
  | zero => rfl
  | succ k ih => simpa [skipEvs, List.replicate_succ] using ih

theorem mbxSend_nofull (body : List UInt8) (s : St) (hb : body.length < 65536) (hf : s.fulls.headD false = false) :
    mbxSend body s = ({ s with cnt := s.cnt % mbxMod + 1, fulls := s.fulls.tail,
                               tr := s.tr ++ [.st0 false, .send (msgOf s.cnt body), .kick] }, .ok ()) := by
  obtain ⟨cnt, fulls, mails, tr⟩ := s
  have hb' : ¬ body.length ≥ 65536 := by omega
  cases fulls with
  | nil => simp [mbxSend, bind, M.bind, pollOut, nextCounter, emit, hb', msgOf]
  | cons f fs =>
    simp at hf; subst hf
    simp [mbxSend, bind, M.bind, pollOut, nextCounter, emit, hb', msgOf]

theorem mbxSend_full (body : List UInt8) (s : St) (hb : body.length < 65536) (fs : List Bool) (m : Mail) (ms : List Mail)
    (td : Nat × List UInt8) (hf : s.fulls = true :: fs) (hm : s.mails = m :: ms) (hd : decodeMail m.raw = .ok td) :
    mbxSend body s = ({ cnt := s.cnt % mbxMod + 1, fulls := fs, mails := ms,
                        tr := s.tr ++ [.st0 true] ++ polls m.delay ++ [.send (msgOf s.cnt body), .kick] }, .ok ()) := by
  obtain ⟨cnt, fulls, mails, tr⟩ := s
  simp at hf hm; subst hf hm
  have hb' : ¬ body.length ≥ 65536 := by omega
  simp [mbxSend, bind, M.bind, pollOut, nextCounter, emit, hb', msgOf, discardMail, mbxRecv, hd]

theorem recvCoeL_skip (inSz : Nat) (pre : List (List UInt8)) (tail : List Mail)
    (h : ∀ m ∈ pre, unrelated inSz m = true) :
    recvCoeL (pre.map (toMail inSz 0) ++ tail) =
      (skipEvs pre.length ++ (recvCoeL tail).1, (recvCoeL tail).2.1, (recvCoeL tail).2.2) := by
  induction pre with
  | nil => simp [skipEvs]
  | cons m pre ih =>
    have hm := h m (by simp)
    have ih := ih (fun x hx => h x (by simp [hx]))
    simp only [List.map_cons, List.cons_append, recvCoeL]
    unfold unrelated at hm
    simp only [toMail]
    cases hd : decodeMail (padTo inSz m) with
    | err e => simp [hd] at hm
    | ok td =>
      obtain ⟨t, d⟩ := td
      simp only [hd] at hm
      have : t ≠ mbx_COE := by simpa using hm
      simp only [this, if_false]
      rw [ih]
      simp [skipEvs, List.replicate_succ]

/-- the first request of a call under a schedule: what is pending is unrelated mail, one of which the
`mbx_send` drains when 0x805 says "full" -/
theorem send_first (inSz cnt : Nat) (fulls : List Bool) (pre : List (List UInt8)) (tail : List Mail) (body : List UInt8)
    (hpre : ∀ m ∈ pre, unrelated inSz m = true) (hfull : fulls.headD false = true → pre ≠ [])
    (hb : body.length < 65536) :
    ∃ (tr1 : List Ev) (pre' : List (List UInt8)), (∀ m ∈ pre', unrelated inSz m = true) ∧ sent tr1 = [msgOf cnt body] ∧
      mbxSend body ⟨cnt, fulls, pre.map (toMail inSz 0) ++ tail, []⟩ =
        (⟨cnt % mbxMod + 1, fulls.tail, pre'.map (toMail inSz 0) ++ tail, tr1⟩, .ok ()) := by
  cases hf : fulls.headD false with
  | false =>
    refine ⟨[] ++ [.st0 false, .send (msgOf cnt body), .kick], pre, hpre, ?_, mbxSend_nofull body _ hb hf⟩
    simp [sent]
  | true =>
    have hne := hfull hf
    obtain ⟨m, pre', rfl⟩ := List.exists_cons_of_ne_nil hne
    obtain ⟨f, fs, rfl⟩ : ∃ f fs, fulls = f :: fs := by
      cases fulls with
      | nil => simp at hf
      | cons f fs => exact ⟨f, fs, rfl⟩
    simp at hf; subst hf
    have hm := hpre m (by simp)
    unfold unrelated at hm
    cases hd : decodeMail (padTo inSz m) with
    | err e => simp [hd] at hm
    | ok td =>
      refine ⟨[] ++ [.st0 true] ++ polls 0 ++ [.send (msgOf cnt body), .kick], pre',
        fun x hx => hpre x (by simp [hx]), ?_,
        mbxSend_full body _ hb fs (toMail inSz 0 m) (pre'.map (toMail inSz 0) ++ tail) td rfl (by simp) (by simpa [toMail] using hd)⟩
      simp [sent]

/-- request written, nothing but unrelated mail ever arrives: the call waits, having sent exactly the request -/
theorem exchange_blocked {α : Type} (inSz cnt : Nat) (fulls : List Bool) (pre : List (List UInt8)) (body : List UInt8)
    (k : List UInt8 → M α)
    (hpre : ∀ m ∈ pre, unrelated inSz m = true) (hfull : fulls.headD false = true → pre ≠ [])
    (hb : body.length < 65536) :
    ∃ s', (mbxSend body >>= fun _ => recvCoe >>= k) ⟨cnt, fulls, pre.map (toMail inSz 0), []⟩ = (s', .err .blocked) ∧
      sent s'.tr = [msgOf cnt body] := by
  obtain ⟨tr1, pre', hpre', hs, h⟩ := send_first inSz cnt fulls pre [] body hpre hfull hb
  simp only [List.append_nil] at h
  rw [bind_ok h]
  have hr : recvCoe ⟨cnt % mbxMod + 1, fulls.tail, pre'.map (toMail inSz 0), tr1⟩ =
      (⟨cnt % mbxMod + 1, fulls.tail, [], tr1 ++ skipEvs pre'.length⟩, .err .blocked) := by
    have := recvCoeL_skip inSz pre' [] hpre'
    simp only [List.append_nil] at this
    simp [recvCoe, this, recvCoeL]
  exact ⟨_, bind_err hr, by simp [hs]⟩

/-- request written, the answer arrives behind the unrelated mail: the call goes on with the answer's payload -/
theorem exchange_ok {α : Type} (inSz cnt : Nat) (fulls : List Bool) (pre : List (List UInt8)) (body : List UInt8)
    (k : List UInt8 → M α) (d : Nat) (resp data : List UInt8) (rest : List Mail)
    (hpre : ∀ m ∈ pre, unrelated inSz m = true) (hfull : fulls.headD false = true → pre ≠ [])
    (hb : body.length < 65536) (hresp : decodeMail (padTo inSz resp) = .ok (mbx_COE, data)) :
    ∃ tr, sent tr = [msgOf cnt body] ∧
      (mbxSend body >>= fun _ => recvCoe >>= k) ⟨cnt, fulls, pre.map (toMail inSz 0) ++ toMail inSz d resp :: rest, []⟩ =
        k data ⟨cnt % mbxMod + 1, fulls.tail, rest, tr⟩ := by
  obtain ⟨tr1, pre', hpre', hs, h⟩ := send_first inSz cnt fulls pre (toMail inSz d resp :: rest) body hpre hfull hb
  rw [bind_ok h]
  have hr : recvCoe ⟨cnt % mbxMod + 1, fulls.tail, pre'.map (toMail inSz 0) ++ toMail inSz d resp :: rest, tr1⟩ =
      (⟨cnt % mbxMod + 1, fulls.tail, rest, tr1 ++ (skipEvs pre'.length ++ polls d)⟩, .ok data) := by
    have := recvCoeL_skip inSz pre' (toMail inSz d resp :: rest) hpre'
    simp [recvCoe, this, recvCoeL, toMail, hresp]
  exact ⟨_, by simp [hs], bind_ok hr⟩

end Ebv.C16
